/-
C01 — refinement of the regenerated commitment-fee arithmetic (LndModel.Gen.C01, produced by
tools/go2lean from lnwallet/channel.go `HtlcIsDust`, lnwallet/commitment.go `HtlcTimeoutFee`,
`HtlcSuccessFee`, `CommitWeight`, lnwallet/chainfee/rates.go `FeeForWeight`, lnwire/msat.go
`ToSatoshis` / `NewMSatFromSatoshis`, the `ChannelType` bit predicates of chanstate/channel_type.go
and `ChannelParty.IsLocal/IsRemote`) to the hand-written model `LndModel.C01`.

The model works over exact naturals and takes the channel-type predicates as booleans
(`Cfg.anchors/zeroFee/taproot`); the code tests bits 3, 5 and 10 of the `ChannelType` and computes
in int64.  Each theorem states the domain (no int64 overflow) on which they agree.
-/
import LndModel.Gen.C01
import LndModel.Gen.GoIntLemmas
import LndModel.C01.Model

set_option linter.unusedSimpArgs false

namespace LndModel.C01.GenRefine
open LndModel.Gen LndModel.Gen.GoInt

/-! ## constants -/

theorem weights_refine :
    Gen.C01.input_CommitWeight = (C01.commitWeightLegacy : Nat) ∧
    Gen.C01.AnchorCommitWeight = (C01.commitWeightAnchor : Nat) ∧
    Gen.C01.TaprootCommitWeight = (C01.commitWeightTaproot : Nat) ∧
    Gen.C01.HTLCWeight = (C01.htlcWeight : Nat) ∧
    Gen.C01.HtlcTimeoutWeight = (C01.htlcTimeoutWeight : Nat) ∧
    Gen.C01.HtlcSuccessWeight = (C01.htlcSuccessWeight : Nat) ∧
    Gen.C01.HtlcTimeoutWeightConfirmed = (C01.htlcTimeoutWeightConf : Nat) ∧
    Gen.C01.HtlcSuccessWeightConfirmed = (C01.htlcSuccessWeightConf : Nat) ∧
    Gen.C01.AnchorSize = (C01.anchorSize : Nat) ∧
    Gen.C01.FeePerKwFloor = (C01.feePerKwFloor : Nat) := by decide

theorem bits_value : Gen.C01.AnchorOutputsBit = 2 ^ 3 ∧ Gen.C01.ZeroHtlcTxFeeBit = 2 ^ 5 ∧
    Gen.C01.SimpleTaprootFeatureBit = 2 ^ 10 ∧ Gen.C01.mSatScale = 1000 := by decide

/-! ## channel-type predicates: exact bit tests -/

theorem bit_test (c k : Nat) (v : Int) (hv : v = ((2 ^ k : Nat) : Int)) :
    decide (andU (c : Int) v = v) = c.testBit k := by
  have h := and_two_pow_eq_iff c k
  rw [hv, andU_cast]
  by_cases hb : c.testBit k = true
  · rw [h.mpr hb, hb]; simp only [decide_true]
  · have h1 : ¬ c &&& 2 ^ k = 2 ^ k := fun hh => hb (h.mp hh)
    have h2 : ¬ ((c &&& 2 ^ k : Nat) : Int) = ((2 ^ k : Nat) : Int) := by omega
    simp only [h2, decide_false]
    simp only [Bool.not_eq_true] at hb
    exact hb.symm

theorem HasAnchors_exact (c : Nat) : Gen.C01.ChannelType_HasAnchors c = c.testBit 3 :=
  bit_test c 3 8 rfl
theorem ZeroHtlcTxFee_exact (c : Nat) : Gen.C01.ChannelType_ZeroHtlcTxFee c = c.testBit 5 :=
  bit_test c 5 32 rfl
theorem IsTaproot_exact (c : Nat) : Gen.C01.ChannelType_IsTaproot c = c.testBit 10 :=
  bit_test c 10 1024 rfl

/-- The model's configuration reflects the channel type `c`. -/
def CfgOf (c : Nat) (cfg : Cfg) : Prop :=
  cfg.anchors = c.testBit 3 ∧ cfg.zeroFee = c.testBit 5 ∧ cfg.taproot = c.testBit 10

/-- `lntypes.ChannelParty` as the model's `Chain`. -/
def partyOf : Chain → Int
  | .loc => 0
  | .rem => 1

/-! ## msat / sat conversions (exact specs) -/

theorem ToSatoshis_exact (m : Nat) (hm : m < 18446744073709551616) :
    Gen.C01.MilliSatoshi_ToSatoshis m = ((m / 1000 : Nat) : Int) := by
  simp only [Gen.C01.MilliSatoshi_ToSatoshis, wrapI64]; omega

theorem NewMSatFromSatoshis_exact (sat : Nat) (hs : sat * 1000 < 18446744073709551616) :
    Gen.C01.NewMSatFromSatoshis sat = ((sat * 1000 : Nat) : Int) := by
  simp only [Gen.C01.NewMSatFromSatoshis, wrapU64]; omega

/-! ## fees -/

/-- `FeeForWeight`: equal to the model's exact `feePerKw * w / 1000` when the product fits int64. -/
theorem FeeForWeight_refines (r w : Nat) (hp : r * w < 9223372036854775808) (hw : w < 9223372036854775808) :
    Gen.C01.SatPerKWeight_FeeForWeight r w = (C01.feeForWeight r w : Nat) := by
  have e0 : ((r * w : Nat) : Int) = (r : Int) * (w : Int) := Int.natCast_mul r w
  have e1 : wrapI64 (w : Int) = w := wrapI64_id _ (by omega) (by omega)
  have e2 : wrapI64 ((r : Int) * (w : Int)) = ((r * w : Nat) : Int) := by
    rw [← e0]; exact wrapI64_id _ (by omega) (by omega)
  simp only [Gen.C01.SatPerKWeight_FeeForWeight, C01.feeForWeight, e1, e2]
  rw [Int.tdiv_eq_ediv_of_nonneg (by omega)]
  omega

/-- the same with the weight given as an integer literal. -/
theorem FeeForWeight_lit (r w : Nat) (wi : Int) (hwi : wi = (w : Int))
    (hp : r * w < 9223372036854775808) (hw : w < 9223372036854775808) :
    Gen.C01.SatPerKWeight_FeeForWeight r wi = (C01.feeForWeight r w : Nat) := by
  rw [hwi]; exact FeeForWeight_refines r w hp hw

/-- `CommitWeight(chanType)`. -/
theorem CommitWeight_refines (c : Nat) (cfg : Cfg) (h : CfgOf c cfg) :
    Gen.C01.CommitWeight c = (C01.commitWeight cfg : Nat) := by
  obtain ⟨ha, _, ht⟩ := h
  simp only [Gen.C01.CommitWeight, C01.commitWeight, HasAnchors_exact, IsTaproot_exact, ← ha, ← ht,
    C01.commitWeightTaproot, C01.commitWeightAnchor, C01.commitWeightLegacy]
  cases cfg.taproot <;> cases cfg.anchors <;> rfl

/-- `HtlcTimeoutFee(chanType, feePerKw)` for every fee rate whose product with the heaviest HTLC
    transaction weight fits int64. -/
theorem HtlcTimeoutFee_refines (c : Nat) (cfg : Cfg) (r : Nat) (h : CfgOf c cfg) (hr : r * 706 < 9223372036854775808) :
    Gen.C01.HtlcTimeoutFee c r = (C01.htlcTimeoutFee cfg r : Nat) := by
  obtain ⟨ha, hz, ht⟩ := h
  have f1 : Gen.C01.SatPerKWeight_FeeForWeight r 666 = (C01.feeForWeight r 666 : Nat) :=
    FeeForWeight_lit r 666 666 (by decide)
      (Nat.lt_of_le_of_lt (Nat.mul_le_mul_left r (by decide)) hr) (by decide)
  have f2 : Gen.C01.SatPerKWeight_FeeForWeight r 663 = (C01.feeForWeight r 663 : Nat) :=
    FeeForWeight_lit r 663 663 (by decide)
      (Nat.lt_of_le_of_lt (Nat.mul_le_mul_left r (by decide)) hr) (by decide)
  simp only [Gen.C01.HtlcTimeoutFee, C01.htlcTimeoutFee, HasAnchors_exact, ZeroHtlcTxFee_exact,
    IsTaproot_exact, ← ha, ← hz, ← ht, C01.htlcTimeoutWeightConf, C01.htlcTimeoutWeight, f1, f2]
  cases cfg.zeroFee <;> cases cfg.taproot <;> cases cfg.anchors <;> simp

/-- `HtlcSuccessFee(chanType, feePerKw)`. -/
theorem HtlcSuccessFee_refines (c : Nat) (cfg : Cfg) (r : Nat) (h : CfgOf c cfg) (hr : r * 706 < 9223372036854775808) :
    Gen.C01.HtlcSuccessFee c r = (C01.htlcSuccessFee cfg r : Nat) := by
  obtain ⟨ha, hz, ht⟩ := h
  have f1 : Gen.C01.SatPerKWeight_FeeForWeight r 706 = (C01.feeForWeight r 706 : Nat) :=
    FeeForWeight_lit r 706 706 (by decide) hr (by decide)
  have f2 : Gen.C01.SatPerKWeight_FeeForWeight r 703 = (C01.feeForWeight r 703 : Nat) :=
    FeeForWeight_lit r 703 703 (by decide)
      (Nat.lt_of_le_of_lt (Nat.mul_le_mul_left r (by decide)) hr) (by decide)
  simp only [Gen.C01.HtlcSuccessFee, C01.htlcSuccessFee, HasAnchors_exact, ZeroHtlcTxFee_exact,
    IsTaproot_exact, ← ha, ← hz, ← ht, C01.htlcSuccessWeightConf, C01.htlcSuccessWeight, f1, f2]
  cases cfg.zeroFee <;> cases cfg.taproot <;> cases cfg.anchors <;> simp

/-- `HtlcIsDust`: for amounts and dust limits below 2^62 sat and fee rates as above the
    regenerated int64 comparison `(htlcAmt - htlcFee) < dustLimit` is the model's
    `amt < dust + fee` over naturals. -/
theorem HtlcIsDust_refines (c : Nat) (cfg : Cfg) (incoming : Bool) (whose : Chain) (r amt dust : Nat)
    (h : CfgOf c cfg) (hr : r * 706 < 9223372036854775808) (ha : amt < 4611686018427387904) (hd : dust < 4611686018427387904) :
    Gen.C01.HtlcIsDust c incoming (partyOf whose) r amt dust
      = C01.htlcIsDust cfg incoming whose r amt dust := by
  have hs := HtlcSuccessFee_refines c cfg r h hr
  have ht := HtlcTimeoutFee_refines c cfg r h hr
  have bs : C01.htlcSuccessFee cfg r ≤ r * 706 := by
    simp only [C01.htlcSuccessFee, C01.feeForWeight, C01.htlcSuccessWeightConf, C01.htlcSuccessWeight]
    split <;> (try split) <;> omega
  have bt : C01.htlcTimeoutFee cfg r ≤ r * 706 := by
    simp only [C01.htlcTimeoutFee, C01.feeForWeight, C01.htlcTimeoutWeightConf, C01.htlcTimeoutWeight]
    split <;> (try split) <;> omega
  simp only [Gen.C01.HtlcIsDust, C01.htlcIsDust, Gen.C01.ChannelParty_IsLocal,
    Gen.C01.ChannelParty_IsRemote, hs, ht]
  cases incoming <;> cases whose <;>
    simp only [partyOf, decide_true, decide_false, Bool.false_eq_true, and_true, and_false, true_and,
      false_and, if_true, if_false, not_true_eq_false, not_false_eq_true, Int.reduceEq,
      Int.zero_ne_one, Int.one_ne_zero, wrapI64, reduceCtorEq] <;>
    (apply decide_eq_decide.mpr; omega)

/-! ## non-vacuity -/

def cfgAnchors : Cfg := { (default : Cfg) with anchors := true, zeroFee := false, taproot := false }

example := HtlcIsDust_refines 8 cfgAnchors true .loc 2500 2000 354 ⟨by decide, by decide, by decide⟩
  (by decide) (by decide) (by decide)
example : Gen.C01.HtlcIsDust 8 true 0 2500 2118 354 = true ∧ Gen.C01.HtlcIsDust 8 true 0 2500 2119 354 = false := by
  decide
example : Gen.C01.HtlcIsDust 40 true 0 2500 353 354 = true ∧ Gen.C01.HtlcIsDust 40 true 0 2500 354 354 = false := by
  decide
example : Gen.C01.CommitWeight 1032 = 968 ∧ Gen.C01.CommitWeight 8 = 1124 ∧ Gen.C01.CommitWeight 0 = 724 := by
  decide
example := FeeForWeight_refines 253 724 (by decide) (by decide)

end LndModel.C01.GenRefine
