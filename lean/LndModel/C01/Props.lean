/-
C01 — property theorems (DESIGN.md §2 C01).  Helper lemmas: Lemmas.lean, Inv.lean,
Inv2.lean, Inv3.lean, Mirror.lean, Cap.lean.

The model (`Model.lean`) is one `Node` = one `LightningChannel`; `Node.run n ops`
applies ANY list of API operations (in any order, with any arguments, protocol
following or not).
-/
import LndModel.C01.Inv3
import LndModel.C01.Mirror
import LndModel.C01.Cap
import LndModel.C01.Sys
import LndModel.C01.Moves
set_option linter.unusedSimpArgs false

namespace LndModel.C01

/-- A well-formed initial state: empty update logs, one commitment per chain without
    HTLCs, and those two commitments account for the whole capacity. -/
structure InitOK (n : Node) : Prop where
  logL : n.logL.entries = []
  logR : n.logR.entries = []
  pendL : n.chainL.pend = []
  pendR : n.chainR.pend = []
  htlcsL : n.chainL.tail.htlcs = []
  htlcsR : n.chainR.tail.htlcs = []
  idxL : n.chainL.tail.theirMsg ≤ n.logR.logIndex
  idxR : n.chainR.tail.ourMsg ≤ n.logL.logIndex
  consL : Conserved n.cfg n.chainL.tail
  consR : Conserved n.cfg n.chainR.tail
  capL : outsTotal n.chainL.tail.outs + n.chainL.tail.fee ≤ n.cfg.capacity
  capR : outsTotal n.chainR.tail.outs + n.chainR.tail.fee ≤ n.cfg.capacity

theorem inv_init {n : Node} (h : InitOK n) : Inv n := by
  have e1 := h.logL; have e2 := h.logR; have p1 := h.pendL; have p2 := h.pendR
  have hl : ∀ (own other : Log), own.entries = [] → LogOK own other := by
    intro own other he
    constructor <;> simp [he, UniqueAdds, adds, resolutions]
  refine ⟨hl _ _ e1, hl _ _ e2, by simp [e1], by simp [e2], by simp [CChain.all, p1], ?_,
    by simp [CChain.all, p2], ?_, ?_, ?_⟩
  · intro cm hcm; simp [CChain.all, p1] at hcm; subst hcm; exact h.idxL
  · intro cm hcm; simp [CChain.all, p2] at hcm; subst hcm; exact h.idxR
  · intro c
    unfold J1
    cases c
    · have := h.consL
      unfold Conserved htlcTotal at this
      simp only [Node.chain, CChain.tip, p1, e1, e2, h.htlcsL, List.getLast?_nil, Option.getD_none,
        List.append_nil, addsOn, resOn, List.filter_nil, sumBy] at this ⊢
      omega
    · have := h.consR
      unfold Conserved htlcTotal at this
      simp only [Node.chain, CChain.tip, p2, e1, e2, h.htlcsR, List.getLast?_nil, Option.getD_none,
        List.append_nil, addsOn, resOn, List.filter_nil, sumBy] at this ⊢
      omega
  · intro c cm hcm
    cases c
    · simp [Node.chain, CChain.all, p1] at hcm; subst hcm; exact ⟨h.consL, h.capL⟩
    · simp [Node.chain, CChain.all, p2] at hcm; subst hcm; exact ⟨h.consR, h.capR⟩

/-! ### Go's behaviour on a bad signature

`Node.step` / `Node.run` use `receiveCommit`, which rolls the commit heights back when the
signature does not verify.  The Go code does not (`fetchCommitmentView` mutates the heights before
the signature check; the link fails the channel afterwards).  `stepGo` / `runGo` are the faithful
versions; the headline theorems below are stated for `runGo` and for runs in which no
`ReceiveNewCommitment` answered Invalid*SigError (`noInvalidSig`).  The restriction is necessary:
see `after_invalid_sig_capacity_assertion_fires`. -/

theorem receiveCommitGo_eq (n : Node) (sv : SigView) (h : (n.receiveCommitGo sv).1 ≠ .invalidSig) :
    n.receiveCommitGo sv = n.receiveCommit sv := by
  unfold Node.receiveCommitGo Node.receiveCommit at *
  simp only at h ⊢
  split
  · rename_i hs
    simp only [hs] at h
    split
    · rfl
    · rename_i cm n' hf
      simp only [hf] at h
      by_cases hc : cm.sigView = sv
      · simp [hc]
      · simp [hc] at h
  · rfl

theorem stepGo_eq (n : Node) (op : Op) (h : (n.stepGo op).1 ≠ .invalidSig) : n.stepGo op = n.step op := by
  cases op <;> try rfl
  exact receiveCommitGo_eq n _ h

theorem runGo_eq (n : Node) (ops : List Op) (h : n.noInvalidSig ops) : n.runGo ops = n.run ops := by
  unfold Node.runGo Node.run
  induction ops generalizing n with
  | nil => rfl
  | cons o os ih =>
    simp only [List.foldl_cons]
    obtain ⟨h1, h2⟩ := h
    rw [← stepGo_eq n o h1]
    exact ih _ h2

/-- **conservation** (must).  For every node reachable from a well-formed initial state by ANY
    list of API operations (any order and arguments, protocol following or not) in which no
    `ReceiveNewCommitment` answered Invalid*SigError, every commitment on either chain satisfies,
    to the millisatoshi,
    `ourBalance + theirBalance + Σ htlc amounts + 1000·fee (+ anchors) = 1000·capacity`,
    and the outputs of its transaction plus the fee never exceed the capacity. -/
theorem conservation (n0 : Node) (h0 : InitOK n0) (ops : List Op) (hok : n0.noInvalidSig ops)
    (c : Chain) (cm : Commit) (hcm : cm ∈ ((n0.runGo ops).chain c).all) :
    cm.our + cm.their + sumBy Htlc.amt cm.htlcs + 1000 * cm.fee + anchorsMsat n0.cfg = 1000 * n0.cfg.capacity ∧
    outsTotal cm.outs + cm.fee ≤ n0.cfg.capacity := by
  rw [runGo_eq n0 ops hok] at hcm
  have hI := inv_run (inv_init h0) ops
  have := hI.cons c cm hcm
  rw [run_cfg] at this
  exact this

/-- The same statement as an inductive invariant of the step function. -/
theorem conservation_step (n : Node) (hI : Inv n) (op : Op) : Inv (n.step op).2 := inv_step hI op

/-- `fee_paid_in_full` (candidate finding F4 of DESIGN §5 is excluded): whenever the state
    machine builds a commitment right after `validateCommitmentSanity` accepted the same view,
    the opener pays the fee in full — the "entire output is consumed" clamp of
    `createUnsignedCommitmentTx` is never taken. -/
theorem fee_paid_in_full {n : Node} {c : Chain} {r : ViewResult} {a b d e : Nat} {cm : Commit}
    (hw : r.weight = commitWeight n.cfg + htlcWeight *
      (countNonDust n.cfg false c r.feePerKw r.liveL + countNonDust n.cfg true c r.feePerKw r.liveR))
    (hs : sanityOfView n c .none r = .ok)
    (hb : buildCommit n.cfg c (n.chain c).tip r a b d e = .ok cm) :
    cm.our + cm.their + 1000 * cm.fee = r.our + r.their :=
  (buildCommit_ok hw (sanityOfView_fee_paid hs) hb).bal

/-- **capacity_assertion_unreachable**.  The bound "outputs + fee ≤ capacity" is not merely
    enforced by the explicit assertion in `createUnsignedCommitmentTx`: in every reachable state
    (no Invalid*SigError so far) that assertion can never fire (neither when signing nor when
    receiving a commitment); the bound is a consequence of conservation. -/
theorem capacity_assertion_unreachable (n0 : Node) (h0 : InitOK n0) (ops : List Op) (hok : n0.noInvalidSig ops) :
    ((n0.runGo ops).sign).1 ≠ .overCapacity ∧ ∀ sv, ((n0.runGo ops).receiveCommit sv).1 ≠ .overCapacity := by
  rw [runGo_eq n0 ops hok]
  have hI := inv_run (inv_init h0) ops
  generalize n0.run ops = n at hI
  constructor
  · unfold Node.sign
    split
    · intro h; cases h
    · simp only
      split
      · rename_i hs
        have covL : ∀ e ∈ n.logL.entries, e.onChain .rem = true → e.logIndex < n.logL.logIndex :=
          fun e he _ => hI.logL.idxBound e he
        have := fetch_not_overCapacity (hL := n.logL.htlcCounter) (hR := n.chainL.tail.theirHtlc)
          hI.logL hI.logR covL hI.covR (hI.j1 .rem) hs
        split
        · rename_i e hfe
          simp only
          intro h; subst h; exact this hfe
        · intro h; cases h
      · rename_i e hne
        have := sanity_class n n.chainL.tail.theirMsg n.logL.logIndex .rem .none [] []
        intro h
        simp only at h
        rw [h] at this
        cases this
  · intro sv
    unfold Node.receiveCommit
    simp only
    split
    · rename_i hs
      have covR : ∀ e ∈ n.logR.entries, e.onChain .loc = true → e.logIndex < n.logR.logIndex :=
        fun e he _ => hI.logR.idxBound e he
      have := fetch_not_overCapacity (hL := n.chainR.tail.ourHtlc) (hR := n.logR.htlcCounter)
        hI.logL hI.logR hI.covL covR (hI.j1 .loc) hs
      split
      · rename_i e hfe
        simp only
        intro h; subst h; exact this hfe
      · split
        · intro h; cases h
        · intro h; cases h
    · rename_i e hne
      have := sanity_class n n.logR.logIndex n.chainR.tail.ourMsg .loc .none [] []
      intro h
      simp only at h
      rw [h] at this
      cases this

/-- amount of the opener's fee that is added back before comparing balances. -/
def feeBack (openerIsUs : Bool) (cm : Commit) : Nat := if openerIsUs then 1000 * cm.fee else 0

/-- **balance_moves_only_by_htlc** (must), signing side.  When `SignNextCommitment` succeeds, the
    new remote commitment's balances (commitment fee added back to the opener) differ from the
    previous remote commitment's exactly by: minus the HTLCs newly added by that party, plus
    the HTLCs it newly settled, plus the HTLCs newly failed back to it. -/
theorem balance_moves_sign {n n' : Node} {sv : Option SigView} (hI : Inv n)
    (h : n.sign = (.ok, n', sv)) :
    let old := n.chainR.tip
    let new := n'.chainR.tip
    let iL := n.logL.logIndex
    let iR := n.chainL.tail.theirMsg
    new.our + feeBack n.cfg.initiator new + newlyAdded .rem iL n.logL.entries =
      old.our + feeBack n.cfg.initiator old +
        (settleCredit .rem (resolutions (viewOf n.logL iL)) + failCredit .rem (resolutions (viewOf n.logR iR))) ∧
    new.their + feeBack (!n.cfg.initiator) new + newlyAdded .rem iR n.logR.entries =
      old.their + feeBack (!n.cfg.initiator) old +
        (settleCredit .rem (resolutions (viewOf n.logR iR)) + failCredit .rem (resolutions (viewOf n.logL iL))) := by
  unfold Node.sign at h
  split at h
  · simp at h
  · simp only at h
    split at h
    · rename_i hs
      split at h
      · rename_i hfe
        simp only [Prod.mk.injEq] at h
        exact absurd h.1 (fetch_err hfe)
      · rename_i cm n1 hf
        simp only [Prod.mk.injEq, true_and] at h
        obtain ⟨rfl, _⟩ := h
        have covL : ∀ e ∈ n.logL.entries, e.onChain .rem = true → e.logIndex < n.logL.logIndex :=
          fun e he _ => hI.logL.idxBound e he
        have ff := fetch_step hI.logL hI.logR covL hI.covR (hI.j1 .rem) hs hf
        have ht : ({ tail := n1.chainR.tail, pend := n1.chainR.pend ++ [cm] } : CChain).tip = cm :=
          tip_push n1.chainR cm
        simp only [ht, feeBack]
        have h1 := ff.ourMove
        have h2 := ff.theirMove
        simp only [Node.chain] at h1 h2
        cases hi : n.cfg.initiator <;> simp only [hi, Bool.not_true, Bool.not_false, Bool.false_eq_true,
          if_true, if_false] at h1 h2 ⊢ <;> exact ⟨h1, h2⟩
    · rename_i hne
      simp only [Prod.mk.injEq] at h
      exact absurd h.1 (by intro e; exact hne e)

/-- **balance_moves_only_by_htlc** (must), receiving side (`ReceiveNewCommitment`). -/
theorem balance_moves_receiveCommit {n n' : Node} {sv : SigView} (hI : Inv n)
    (h : n.receiveCommit sv = (.ok, n')) :
    let old := n.chainL.tip
    let new := n'.chainL.tip
    let iL := n.chainR.tail.ourMsg
    let iR := n.logR.logIndex
    new.our + feeBack n.cfg.initiator new + newlyAdded .loc iL n.logL.entries =
      old.our + feeBack n.cfg.initiator old +
        (settleCredit .loc (resolutions (viewOf n.logL iL)) + failCredit .loc (resolutions (viewOf n.logR iR))) ∧
    new.their + feeBack (!n.cfg.initiator) new + newlyAdded .loc iR n.logR.entries =
      old.their + feeBack (!n.cfg.initiator) old +
        (settleCredit .loc (resolutions (viewOf n.logR iR)) + failCredit .loc (resolutions (viewOf n.logL iL))) := by
  unfold Node.receiveCommit at h
  simp only at h
  split at h
  · rename_i hs
    split at h
    · rename_i hfe
      simp only [Prod.mk.injEq] at h
      exact absurd h.1 (fetch_err hfe)
    · rename_i cm n1 hf
      split at h
      · simp only [Prod.mk.injEq, true_and] at h
        subst h
        have covR : ∀ e ∈ n.logR.entries, e.onChain .loc = true → e.logIndex < n.logR.logIndex :=
          fun e he _ => hI.logR.idxBound e he
        have ff := fetch_step hI.logL hI.logR hI.covL covR (hI.j1 .loc) hs hf
        have ht : ({ tail := n1.chainL.tail, pend := n1.chainL.pend ++ [cm] } : CChain).tip = cm :=
          tip_push n1.chainL cm
        simp only [ht, feeBack]
        have h1 := ff.ourMove
        have h2 := ff.theirMove
        simp only [Node.chain] at h1 h2
        cases hi : n.cfg.initiator <;> simp only [hi, Bool.not_true, Bool.not_false, Bool.false_eq_true,
          if_true, if_false] at h1 h2 ⊢ <;> exact ⟨h1, h2⟩
      · simp at h
  · rename_i hne
    simp only [Prod.mk.injEq] at h
    exact absurd h.1 (by intro e; exact hne e)


/-! ### balance moves, stated over the HTLC sets of consecutive commitments -/

theorem ths_init {n : Node} (h : InitOK n) : THs n := by
  intro c
  unfold TH specKeys specOf
  cases c
  · simp [Node.chain, CChain.tip, h.pendL, h.htlcsL, h.logL, h.logR]
  · simp [Node.chain, CChain.tip, h.pendR, h.htlcsR, h.logL, h.logR]

/-- **balance_moves_only_by_htlc** (must), over HTLC sets, signing side.  In every reachable
    state, when `SignNextCommitment` succeeds, compare the previous remote commitment `old` with
    the new one `new` (HTLCs identified by direction, index and amount): each balance, with the
    fee added back to the opener, changes exactly by
    − the HTLCs of `new` that were not on `old` and were added by that party,
    + the HTLCs of `old` gone from `new` that this party had offered and the peer failed,
    + the HTLCs of `old` gone from `new` that the peer had offered and this party settled. -/
theorem balance_moves_sign_htlcs (n0 : Node) (h0 : InitOK n0) (ops : List Op) {n' : Node} {sv : Option SigView}
    (hs : (n0.run ops).sign = (.ok, n', sv)) :
    let n := n0.run ops
    let old := n.chainR.tip
    let new := n'.chainR.tip
    new.our + feeBack n.cfg.initiator new +
        amtOf (new.htlcs.filter (fun h => !h.incoming && !hasHtlc old.htlcs h)) =
      old.our + feeBack n.cfg.initiator old +
        (amtOf (old.htlcs.filter (fun h => h.incoming && !hasHtlc new.htlcs h && settledIn n.logL.entries h.idx)) +
         amtOf (old.htlcs.filter (fun h => !h.incoming && !hasHtlc new.htlcs h && failedIn n.logR.entries h.idx))) ∧
    new.their + feeBack (!n.cfg.initiator) new +
        amtOf (new.htlcs.filter (fun h => h.incoming && !hasHtlc old.htlcs h)) =
      old.their + feeBack (!n.cfg.initiator) old +
        (amtOf (old.htlcs.filter (fun h => !h.incoming && !hasHtlc new.htlcs h && settledIn n.logR.entries h.idx)) +
         amtOf (old.htlcs.filter (fun h => h.incoming && !hasHtlc new.htlcs h && failedIn n.logL.entries h.idx))) := by
  intro n old new
  have hI : Inv n := inv_run (inv_init h0) ops
  have hT : THs n := ths_run (inv_init h0) (ths_init h0) ops
  obtain ⟨cm, n1, _, hf, htip⟩ := sign_ok_fetch hs
  have covL : ∀ e ∈ n.logL.entries, e.onChain .rem = true → e.logIndex < n.logL.logIndex :=
    fun e he _ => hI.logL.idxBound e he
  obtain ⟨s1, s2, s3, s4, s5, s6⟩ := side_sums hI (hT .rem) covL hI.covR hf
  obtain ⟨m1, m2⟩ := balance_moves_sign hI hs
  simp only [Node.chain] at s1 s2 s3 s4 s5 s6
  show _ ∧ _
  simp only [new, old, htip] at *
  rw [s1, s2, s3, s4, s5, s6]
  exact ⟨m1, m2⟩

/-- the same on the receiving side (`ReceiveNewCommitment`, local chain). -/
theorem balance_moves_receiveCommit_htlcs (n0 : Node) (h0 : InitOK n0) (ops : List Op) {n' : Node} {sv : SigView}
    (hs : (n0.run ops).receiveCommit sv = (.ok, n')) :
    let n := n0.run ops
    let old := n.chainL.tip
    let new := n'.chainL.tip
    new.our + feeBack n.cfg.initiator new +
        amtOf (new.htlcs.filter (fun h => !h.incoming && !hasHtlc old.htlcs h)) =
      old.our + feeBack n.cfg.initiator old +
        (amtOf (old.htlcs.filter (fun h => h.incoming && !hasHtlc new.htlcs h && settledIn n.logL.entries h.idx)) +
         amtOf (old.htlcs.filter (fun h => !h.incoming && !hasHtlc new.htlcs h && failedIn n.logR.entries h.idx))) ∧
    new.their + feeBack (!n.cfg.initiator) new +
        amtOf (new.htlcs.filter (fun h => h.incoming && !hasHtlc old.htlcs h)) =
      old.their + feeBack (!n.cfg.initiator) old +
        (amtOf (old.htlcs.filter (fun h => !h.incoming && !hasHtlc new.htlcs h && settledIn n.logR.entries h.idx)) +
         amtOf (old.htlcs.filter (fun h => h.incoming && !hasHtlc new.htlcs h && failedIn n.logL.entries h.idx))) := by
  intro n old new
  have hI : Inv n := inv_run (inv_init h0) ops
  have hT : THs n := ths_run (inv_init h0) (ths_init h0) ops
  obtain ⟨cm, n1, _, hf, htip⟩ := receiveCommit_ok_fetch hs
  have covR : ∀ e ∈ n.logR.entries, e.onChain .loc = true → e.logIndex < n.logR.logIndex :=
    fun e he _ => hI.logR.idxBound e he
  obtain ⟨s1, s2, s3, s4, s5, s6⟩ := side_sums hI (hT .loc) hI.covL covR hf
  obtain ⟨m1, m2⟩ := balance_moves_receiveCommit hI hs
  simp only [Node.chain] at s1 s2 s3 s4 s5 s6
  show _ ∧ _
  simp only [new, old, htip] at *
  rw [s1, s2, s3, s4, s5, s6]
  exact ⟨m1, m2⟩

/-! ### agreement of the two peers -/

/-- **honest_sig_verifies_partial** (must, partial).  A commitment signature produced by
    `SignNextCommitment` in state `a` is never answered with an Invalid*SigError by
    `ReceiveNewCommitment` in a state `b` that is in `LogAgreement` with `a`.

    Full statement: in `System`, for every schedule of local actions and in-order deliveries
    from a well-formed initial pair, the receiver's construction is the signer's at every
    delivery of a `commitSig`.  That is proved in `XProps.lean` (`honest_sig_verifies`, by the
    inductive cross-node invariant `XInv`) for the link-disciplined system without update_fee.
    For schedules with update_fee / delayed revocations only this pairwise form is proved; the
    driver checks the `LogAgreement` hypothesis on every signature delivery of every real
    trace. -/
theorem honest_sig_verifies_partial {a b a' : Node} {sv : SigView} (hA : LogAgreement a b)
    (hs : a.sign = (.ok, a', some sv)) : (b.receiveCommit sv).1 ≠ .invalidSig := by
  unfold Node.sign at hs
  split at hs
  · simp at hs
  · simp only at hs
    split at hs
    · split at hs
      · simp at hs
      · rename_i cma a1 hfa
        simp only [Prod.mk.injEq, Option.some.injEq, true_and] at hs
        obtain ⟨_, rfl⟩ := hs
        unfold Node.receiveCommit
        simp only
        split
        · split
          · rename_i hfe; exact fetch_err_sig hfe
          · rename_i cmb b1 hfb
            rw [if_pos (constructions_agree hA hfa hfb)]
            intro h; cases h
        · exact sanity_ne_sig _ _ _ _ _ _ _
    · simp at hs

/-- **mirror_signed_partial** (partial form of `mirror_when_idle`).  Under `LogAgreement` the
    commitment the signer appends to its remote chain and the one the receiver appends to its
    local chain are mirror images: same height, balances swapped to the millisatoshi, same fee,
    same fee rate, identical transaction, and the same HTLCs (index, amount, expiry, hash, dust
    flag) with the direction flipped.

    Full statement: `mirror_when_idle` — in `System`, whenever both queues are empty and no
    update is pending on either side, `A.localCommit = mirror B.remoteCommit` and vice versa.
    Proved in `XProps.lean` (`mirror_when_idle`, `mirror_signed`, `commitments_mirror`) for the
    link-disciplined system without update_fee; for update_fee / delayed revocations only this
    pairwise form is proved, and the monitor checks the mirror property itself on every idle
    state and every signed commitment of the real traces. -/
theorem mirror_signed_partial {a b a' b' : Node} {sv : SigView} (hA : LogAgreement a b)
    (hs : a.sign = (.ok, a', some sv)) (hr : b.receiveCommit sv = (.ok, b')) :
    let ca := a'.chainR.tip
    let cb := b'.chainL.tip
    cb.height = ca.height ∧ cb.our = ca.their ∧ cb.their = ca.our ∧ cb.fee = ca.fee ∧
    cb.feePerKw = ca.feePerKw ∧ cb.outs = ca.outs ∧
    (∃ o i, ca.htlcs = o ++ i ∧ cb.htlcs.map mirrorHtlc = i ++ o) := by
  unfold Node.sign at hs
  split at hs
  · simp at hs
  · simp only at hs
    split at hs
    · split at hs
      · simp at hs
      · rename_i cma a1 hfa
        simp only [Prod.mk.injEq, Option.some.injEq, true_and] at hs
        obtain ⟨rfl, rfl⟩ := hs
        unfold Node.receiveCommit at hr
        simp only at hr
        split at hr
        · split at hr
          · rename_i hfe
            simp only [Prod.mk.injEq] at hr
            exact absurd hr.1 (fetch_err hfe)
          · rename_i cmb b1 hfb
            split at hr
            · simp only [Prod.mk.injEq, true_and] at hr
              subst hr
              have t1 : ({ tail := a1.chainR.tail, pend := a1.chainR.pend ++ [cma] } : CChain).tip = cma :=
                tip_push a1.chainR cma
              have t2 : ({ tail := b1.chainL.tail, pend := b1.chainL.pend ++ [cmb] } : CChain).tip = cmb :=
                tip_push b1.chainL cmb
              simp only [t1, t2]
              obtain ⟨q1, q2, q3, q4, q5, q6⟩ := constructions_mirror hA hfa hfb
              exact ⟨q1, q2, q3, q4, q5, q6, constructions_mirror_htlcs hA hfa hfb⟩
            · simp at hr
        · rename_i hne
          simp only [Prod.mk.injEq] at hr
          exact absurd hr.1 (by intro e; exact hne e)
    · simp at hs

/-- the executable check used by the driver is the hypothesis of the theorem. -/
theorem agreeCheck_sound {a b : Node} (h : agreeCheck a b = true) : LogAgreement a b := by
  unfold agreeCheck at h
  simp only [Bool.and_eq_true, decide_eq_true_eq] at h
  obtain ⟨⟨⟨⟨⟨⟨⟨⟨⟨⟨h1, h2⟩, h3⟩, h4⟩, h5⟩, h6⟩, h7⟩, h8⟩, h9⟩, h10⟩, h11⟩ := h
  exact ⟨h1, ⟨h2, h3, h4, h5, h6⟩, h7, h8, h9, h10, h11⟩


/-! ### all interleavings: the cross-node index invariant

`System.lrun` runs the two-party system (two C01 nodes, two FIFO queues) under the discipline of
lnd's link: any interleaving of local actions of either node (add / settle / fail /
malformed-fail / sign, whatever their outcome) and in-order deliveries; an accepted
commitment_signed is revoked for in the same handler; a rejected message fails the channel
(`none`).  update_fee is not among the actions yet (see the notes). -/

open LndModel.C03 in
/-- **sig_indices_agree** (cross-node, ALL interleavings of the disciplined system).  Whenever a
    commitment_signed is the oldest undelivered message, it belongs to the sender's single pending
    remote commitment `P`, and the receiver's state is exactly the one `P` was built for: the
    receiver has received precisely the sender's updates `P` covers (`P.ourMsg`), the receiver's
    own updates the sender had acknowledged when signing are precisely the ones the receiver knows
    to be acknowledged (`P.theirMsg`), and `P` is the receiver's next height.  These are the
    arguments `ReceiveNewCommitment` passes to `fetchCommitmentView`; a wrong
    remoteACKedIndex / localACKedIndex on either side would falsify this theorem.
    Proved by simulating `System.lrun` with C03's sync skeleton (`sim_step`) and using its
    inductive invariant `Inv2`. -/
theorem sig_indices_agree (s0 : System) (h0 : SysFresh s0) (steps : List LSysStep) (s : System)
    (hr : s0.lrun steps = some s) :
    (∀ sv rest, s.ab = .commitSig sv :: rest → ∃ P, s.a.chainR.pend = [P] ∧
      P.ourMsg = s.b.logR.logIndex ∧ P.theirMsg = s.b.chainR.tail.ourMsg ∧
      P.height = s.b.chainL.tip.height + 1) ∧
    (∀ sv rest, s.ba = .commitSig sv :: rest → ∃ P, s.b.chainR.pend = [P] ∧
      P.ourMsg = s.a.logR.logIndex ∧ P.theirMsg = s.a.chainR.tail.ourMsg ∧
      P.height = s.a.chainL.tip.height + 1) := by
  obtain ⟨xs, hsim⟩ := sim_run (sim_init h0) steps hr
  have hI := inv2_reachable xs
  constructor
  · intro sv rest hq
    have hab := hsim.ab
    rw [hq] at hab
    cases hkq : (SSys.init.lrun xs).ab with
    | nil => rw [hkq] at hab; cases hab
    | cons mk krest =>
      rw [hkq] at hab
      cases mk with
      | sig hh ix =>
        obtain ⟨h1, h2, h3, h4, h5⟩ := head_sig_skeleton hI hkq
        exact pending_of_sim hsim.a hsim.b h1 h2 h3 h4 h5
      | upd o => cases o <;> exact absurd hab.1 (by intro h; cases h)
      | rev _ => exact absurd hab.1 (by intro h; cases h)
  · intro sv rest hq
    have hba := hsim.ba
    rw [hq] at hba
    cases hkq : (SSys.init.lrun xs).ba with
    | nil => rw [hkq] at hba; cases hba
    | cons mk krest =>
      rw [hkq] at hba
      cases mk with
      | sig hh ix =>
        obtain ⟨h1, h2, h3, h4, h5⟩ := head_sig_skeleton_ba hI hkq
        exact pending_of_sim hsim.b hsim.a h1 h2 h3 h4 h5
      | upd o => cases o <;> exact absurd hba.1 (by intro h; cases h)
      | rev _ => exact absurd hba.1 (by intro h; cases h)

open LndModel.C03 in
/-- **idle_indices_mirror** (cross-node, all interleavings of the disciplined system).  When both
    queues are empty and neither side has an unacknowledged commitment outstanding, each side's
    local commitment and the peer's view of it are at the same height and cover the same updates
    (mirrored message indices).  This is the index-level part of `mirror_when_idle`. -/
theorem idle_indices_mirror (s0 : System) (h0 : SysFresh s0) (steps : List LSysStep) (s : System)
    (hr : s0.lrun steps = some s) (hab : s.ab = []) (hba : s.ba = [])
    (hpa : s.a.chainR.pend = []) (hpb : s.b.chainR.pend = []) :
    s.b.chainL.tail.height = s.a.chainR.tail.height ∧
    s.b.chainL.tail.ourMsg = s.a.chainR.tail.theirMsg ∧ s.b.chainL.tail.theirMsg = s.a.chainR.tail.ourMsg ∧
    s.a.chainL.tail.height = s.b.chainR.tail.height ∧
    s.a.chainL.tail.ourMsg = s.b.chainR.tail.theirMsg ∧ s.a.chainL.tail.theirMsg = s.b.chainR.tail.ourMsg := by
  obtain ⟨xs, hsim⟩ := sim_run (sim_init h0) steps hr
  obtain ⟨⟨l1, l2⟩, _, _, m1, m2, _, _⟩ := inv2_reachable xs
  generalize SSys.init.lrun xs = k at hsim l1 l2 m1 m2
  have qa : k.ab = [] := by
    have := hsim.ab; rw [hab] at this
    cases hk : k.ab with
    | nil => rfl
    | cons _ _ => rw [hk] at this; cases this
  have qb : k.ba = [] := by
    have := hsim.ba; rw [hba] at this
    cases hk : k.ba with
    | nil => rfl
    | cons _ _ => rw [hk] at this; cases this
  have ra : k.a.rp = none := by rw [hsim.a.rp, hpa]; rfl
  have rb : k.b.rp = none := by rw [hsim.b.rp, hpb]; rfl
  have r1 := l1.revs; have s1 := l1.sigs; have r2 := l2.revs; have s2 := l2.sigs
  simp only [qa, qb, nRev_nil, nSig_nil, Nat.add_zero, tipH_none ra, tipH_none rb, hsim.a.lp.2, hsim.b.lp.2,
    List.length_nil] at r1 s1 r2 s2
  have t1 := m1.tail0 r2
  have t2 := m2.tail0 r1
  rw [hsim.b.ltIdx, hsim.a.rtIdx] at t1
  rw [hsim.a.ltIdx, hsim.b.rtIdx] at t2
  simp only [idxOf, Idx.swap, Idx.mk.injEq] at t1 t2
  refine ⟨?_, t1.1, t1.2, ?_, t2.1, t2.2⟩
  · rw [← hsim.b.lt, ← hsim.a.rt]; exact r2
  · rw [← hsim.a.lt, ← hsim.b.rt]; exact r1

/-! ### non-vacuity: concrete instances of every hypothesis used above -/

/-- a concrete well-formed initial state (1 000 000 sat channel, we are the opener). -/
def demoCfg : Cfg :=
  { capacity := 1000000, initiator := true, anchors := false, zeroFee := false, taproot := false,
    dustL := 546, dustR := 546, resL := 10000, resR := 10000, minL := 1, minR := 1,
    maxPendL := 1000000000, maxPendR := 1000000000, maxAccL := 483, maxAccR := 483 }
def demoCommit : Commit :=
  { height := 0, our := 499817000, their := 500000000, fee := 183, feePerKw := 253,
    ourMsg := 0, theirMsg := 0, ourHtlc := 0, theirHtlc := 0 }
def demoNode : Node := { cfg := demoCfg, chainL := { tail := demoCommit }, chainR := { tail := demoCommit } }

example : InitOK demoNode := by
  constructor <;> first | rfl | decide | (unfold Conserved htlcTotal; decide)

/-- a reachable state with an HTLC on a freshly signed commitment (fee 226 = 253·(724+172)/1000). -/
example : ((demoNode.run [.addHTLC 5000000 144 7, .sign]).chainR.pend.map
    (fun c => (c.our, c.their, c.fee, c.htlcs.length))) = [(494774000, 500000000, 226, 1)] := by decide

/-- the hypotheses of `balance_moves_sign` are satisfiable: signing succeeds in a reachable state. -/
example : ((demoNode.run [.addHTLC 5000000 144 7]).sign).1 = .ok := by decide

/-- … and so are those of `balance_moves_receiveCommit` (the peer's view of the same update). -/
example : ((demoNode.run [.receiveHTLC 0 5000000 144 7]).receiveCommit
    ⟨1, 253, [⟨499774, .toLocal, 0, 0⟩, ⟨495000, .toRemote, 0, 0⟩, ⟨5000, .received, 144, 7⟩]⟩).1 = .ok := by
  decide


/-- the peer of `demoNode`. -/
def demoPeer : Node :=
  { cfg := demoCfg.mirror,
    chainL := { tail := { demoCommit with our := 500000000, their := 499817000 } },
    chainR := { tail := { demoCommit with our := 500000000, their := 499817000 } } }

/-- `LogAgreement` is satisfiable in a non-trivial reachable pair of states (an HTLC in flight),
    and there the signature is indeed accepted. -/
example : agreeCheck (demoNode.run [.addHTLC 5000000 144 7]) (demoPeer.run [.receiveHTLC 0 5000000 144 7]) = true := by
  decide
example : ∃ sv a', (demoNode.run [.addHTLC 5000000 144 7]).sign = (.ok, a', some sv) ∧
    ((demoPeer.run [.receiveHTLC 0 5000000 144 7]).receiveCommit sv).1 = .ok := by
  refine ⟨_, _, rfl, ?_⟩
  decide


/-- the `noInvalidSig` hypothesis is satisfiable on a run that creates commitments … -/
example : demoNode.noInvalidSig [.addHTLC 5000000 144 7, .sign] := by
  simp only [Node.noInvalidSig, and_true]
  decide

/-- … and it is necessary: in the Go-faithful model, after a rejected signature the commit heights
    stay set, the next (correct) construction no longer debits the HTLC and the capacity assertion
    of `createUnsignedCommitmentTx` fires (the link fails the channel before that can happen). -/
theorem after_invalid_sig_capacity_assertion_fires :
    let n1 := demoNode.runGo [.receiveHTLC 0 5000000 144 7, .receiveCommit ⟨1, 253, []⟩]
    ((demoNode.runGo [.receiveHTLC 0 5000000 144 7]).stepGo (.receiveCommit ⟨1, 253, []⟩)).1 = .invalidSig ∧
    (n1.stepGo (.receiveCommit
      ⟨1, 253, [⟨499774, .toLocal, 0, 0⟩, ⟨495000, .toRemote, 0, 0⟩, ⟨5000, .received, 144, 7⟩]⟩)).1 = .overCapacity := by
  decide


/-- a fresh two-party system, and a disciplined run in which a commitment_signed reaches the head of
    the queue (hypotheses of `sig_indices_agree` are satisfiable). -/
def demoSys : System := { a := demoNode, b := demoPeer }

example : SysFresh demoSys := by
  refine ⟨⟨rfl, rfl, rfl, rfl, ⟨rfl, rfl⟩, ⟨rfl, rfl⟩, rfl, rfl⟩,
    ⟨rfl, rfl, rfl, rfl, ⟨rfl, rfl⟩, ⟨rfl, rfl⟩, rfl, rfl⟩, rfl, rfl⟩

example : (demoSys.lrun [.actA (.add 5000000 144 7), .actA .sign, .dlvAB]).map
    (fun s => s.ab.map (fun m => match m with | .commitSig _ => true | _ => false)) = some [true] := by decide
example : (demoSys.lrun [.actA (.add 5000000 144 7), .actA .sign, .dlvAB, .dlvAB, .dlvBA]).map
    (fun s => (s.ab.length, s.ba.length, s.a.chainR.pend.length, s.b.chainL.tail.height)) = some (0, 0, 0, 1) := by
  decide


/-- a reachable state in which `balance_moves_sign_htlcs` speaks about a removed HTLC: an incoming
    HTLC is locked in, we settle it and sign; the old remote commitment carries it, the new one
    does not, and our balance (fee added back) grows by exactly its 5 000 000 msat. -/
example :
    let n := demoNode.run [.receiveHTLC 0 5000000 144 7,
      .receiveCommit ⟨1, 253, [⟨499774, .toLocal, 0, 0⟩, ⟨495000, .toRemote, 0, 0⟩, ⟨5000, .received, 144, 7⟩]⟩,
      .revoke, .sign, .receiveRevocation, .settle 0 true]
    (n.sign).1 = .ok ∧
    (n.chainR.tip.htlcs.length, (n.sign).2.1.chainR.tip.htlcs.length) = (1, 0) ∧
    amtOf (n.chainR.tip.htlcs.filter (fun h => h.incoming && !hasHtlc (n.sign).2.1.chainR.tip.htlcs h &&
      settledIn n.logL.entries h.idx)) = 5000000 ∧
    (n.sign).2.1.chainR.tip.our + 1000 * (n.sign).2.1.chainR.tip.fee =
      n.chainR.tip.our + 1000 * n.chainR.tip.fee + 5000000 := by decide

end LndModel.C01
