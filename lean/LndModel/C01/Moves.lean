/-
C01 — the HTLC list of every chain tip is exactly what the update logs say is on that chain
(`TH`), an invariant of every operation; from it, `balance_moves` restated over the HTLC sets of
consecutive commitments.
-/
import LndModel.C01.Mirror
import LndModel.C01.Cap
set_option linter.unusedSimpArgs false

namespace LndModel.C01

/-! ### the HTLCs of a chain tip, read off the logs -/

/-- HTLC `i` (added by the owner of the other log) has a resolution that is on chain `c`. -/
def resolvedOn (c : Chain) (other : List Entry) (i : Nat) : Bool :=
  other.any (fun r => r.isRes && r.parent == i && r.rmvH c != 0)

/-- an add that is on chain `c` and not yet removed from it. -/
def onLive (c : Chain) (other : List Entry) (e : Entry) : Bool :=
  e.isAdd && e.addH c != 0 && !resolvedOn c other e.htlcIndex

/-- identity and amount of an HTLC: (incoming?, htlc index, msat). -/
def hkey (h : Htlc) : Bool × Nat × Nat := (h.incoming, h.idx, h.amt)
def ekey (inc : Bool) (e : Entry) : Bool × Nat × Nat := (inc, e.htlcIndex, e.amt)

def specOf (c : Chain) (EL ER : List Entry) : List (Bool × Nat × Nat) :=
  (EL.filter (onLive c ER)).map (ekey false) ++ (ER.filter (onLive c EL)).map (ekey true)

def specKeys (n : Node) (c : Chain) : List (Bool × Nat × Nat) := specOf c n.logL.entries n.logR.entries

/-- the HTLC list of the tip of chain `c` is exactly what the logs say is on that chain. -/
def TH (n : Node) (c : Chain) : Prop := (n.chain c).tip.htlcs.map hkey = specKeys n c

theorem resolvedOn_iff {c : Chain} {other : List Entry} {i : Nat} :
    resolvedOn c other i = true ↔ ∃ r ∈ other, r.isRes = true ∧ r.parent = i ∧ r.rmvH c ≠ 0 := by
  simp [resolvedOn, List.any_eq_true, and_assoc]

/-- after `commitLog` on chain `c`, "resolved on `c`" means "has a resolution in the view". -/
theorem resolvedOn_commitLog {c : Chain} {h i : Nat} (hh : h ≠ 0) {E : List Entry}
    (cov : ∀ e ∈ E, e.onChain c = true → e.logIndex < i) (idx : Nat) :
    resolvedOn c (commitLog c h i E) idx =
      ((resolutions (E.filter (fun e => decide (e.logIndex < i)))).map Entry.parent).contains idx := by
  rw [Bool.eq_iff_iff, resolvedOn_iff]
  simp only [List.contains_iff_mem, List.mem_map, resolutions, List.mem_filter, decide_eq_true_eq,
    commitLog_eq]
  constructor
  · rintro ⟨r', ⟨r, hr, rfl⟩, hres, hpar, hne⟩
    refine ⟨r, ⟨⟨hr, ?_⟩, by simpa using hres⟩, by simpa using hpar⟩
    by_cases h0 : r.rmvH c = 0
    · exact (cm1_rmvH_new c c h i r h0 hne).2
    · exact cov r hr (by simp [Entry.onChain, h0])
  · rintro ⟨r, ⟨⟨hr, hlt⟩, hres⟩, hpar⟩
    refine ⟨cm1 c h i r, ⟨r, hr, rfl⟩, by simpa using hres, by simpa using hpar, ?_⟩
    unfold cm1
    rw [if_pos hlt, commitAt_rmvH_res c c h r hres]
    by_cases h0 : r.rmvH c = 0
    · simp [h0, hh]
    · simp [h0]

/-- after `commitLog` on chain `c`, the live adds of the log are the live adds of the view. -/
theorem onLive_commitLog {c : Chain} {h iO iP : Nat} (hh : h ≠ 0) {E O : List Entry}
    (covE : ∀ e ∈ E, e.onChain c = true → e.logIndex < iO)
    (covO : ∀ e ∈ O, e.onChain c = true → e.logIndex < iP) :
    ((commitLog c h iO E).filter (onLive c (commitLog c h iP O))).map (ekey false) =
      (liveAdds (E.filter (fun e => decide (e.logIndex < iO)))
        (resolutions (O.filter (fun e => decide (e.logIndex < iP))))).map (ekey false) ∧
    ((commitLog c h iO E).filter (onLive c (commitLog c h iP O))).map (ekey true) =
      (liveAdds (E.filter (fun e => decide (e.logIndex < iO)))
        (resolutions (O.filter (fun e => decide (e.logIndex < iP))))).map (ekey true) := by
  have key : (commitLog c h iO E).filter (onLive c (commitLog c h iP O)) =
      (liveAdds (E.filter (fun e => decide (e.logIndex < iO)))
        (resolutions (O.filter (fun e => decide (e.logIndex < iP))))).map (cm1 c h iO) := by
    unfold liveAdds
    have hres := fun idx => resolvedOn_commitLog (h := h) hh covO idx
    simp only [commitLog_eq] at hres ⊢
    rw [List.filter_map, List.filter_filter]
    congr 1
    apply List.filter_congr
    intro e he
    simp only [Function.comp, onLive, cm1_isAdd, cm1_htlcIndex, hres]
    cases hadd : e.isAdd
    · simp
    · simp only [Bool.true_and]
      by_cases hlt : e.logIndex < iO
      · have : (cm1 c h iO e).addH c ≠ 0 := by
          unfold cm1; rw [if_pos hlt, commitAt_addH_add c c h e hadd]
          by_cases h0 : e.addH c = 0 <;> simp [h0, hh]
        simp [this, hlt]
      · have h0 : e.addH c = 0 := by
          by_cases h0 : e.addH c = 0
          · exact h0
          · exact absurd (covE e he (by simp [Entry.onChain, h0])) hlt
        have : (cm1 c h iO e).addH c = 0 := by unfold cm1; rw [if_neg hlt]; exact h0
        simp [this, hlt]
  rw [key]
  constructor <;> (rw [List.map_map]; apply List.map_congr_left; intro e _; simp [ekey, Function.comp])


theorem spec_commit_same {c : Chain} {h iL iR : Nat} (hh : h ≠ 0) {EL ER : List Entry}
    (covL : ∀ e ∈ EL, e.onChain c = true → e.logIndex < iL)
    (covR : ∀ e ∈ ER, e.onChain c = true → e.logIndex < iR) :
    specOf c (commitLog c h iL EL) (commitLog c h iR ER) =
      (liveAdds (EL.filter (fun e => decide (e.logIndex < iL)))
        (resolutions (ER.filter (fun e => decide (e.logIndex < iR))))).map (ekey false) ++
      (liveAdds (ER.filter (fun e => decide (e.logIndex < iR)))
        (resolutions (EL.filter (fun e => decide (e.logIndex < iL))))).map (ekey true) := by
  unfold specOf
  rw [(onLive_commitLog hh covL covR).1, (onLive_commitLog hh covR covL).2]

theorem resolvedOn_congr {c : Chain} {O O' : List Entry}
    (h : (resolutions O').map (fun r => (r.parent, r.rmvH c)) = (resolutions O).map (fun r => (r.parent, r.rmvH c)))
    (i : Nat) : resolvedOn c O' i = resolvedOn c O i := by
  have key : ∀ X : List Entry, resolvedOn c X i =
      ((resolutions X).map (fun r => (r.parent, r.rmvH c))).any (fun p => p.1 == i && p.2 != 0) := by
    intro X
    unfold resolvedOn resolutions
    induction X with
    | nil => rfl
    | cons x xs ih =>
      simp only [List.any_cons, List.filter]
      cases hx : x.isRes
      · simp [ih]
      · simp [ih]
  rw [key, key, h]

theorem spec_commit_other {c c' : Chain} (hc : c ≠ c') (h iL iR : Nat) (EL ER : List Entry) :
    specOf c (commitLog c' h iL EL) (commitLog c' h iR ER) = specOf c EL ER := by
  have hres : ∀ (i : Nat) (O : List Entry) (j : Nat), resolvedOn c (commitLog c' h j O) i = resolvedOn c O i := by
    intro i O j
    apply resolvedOn_congr
    unfold resolutions
    rw [commitLog_eq, filter_map_pres (cm1_isRes c' h j), List.map_map]
    apply List.map_congr_left
    intro r _
    simp [Function.comp, cm1_rmvH_other c' c h j r hc]
  have one : ∀ (inc : Bool) (E O : List Entry) (i j : Nat),
      ((commitLog c' h i E).filter (onLive c (commitLog c' h j O))).map (ekey inc) =
      (E.filter (onLive c O)).map (ekey inc) := by
    intro inc E O i j
    rw [commitLog_eq c' h i E, List.filter_map, List.map_map]
    have : (E.filter (onLive c (commitLog c' h j O) ∘ cm1 c' h i)) = E.filter (onLive c O) := by
      apply List.filter_congr
      intro e _
      simp only [Function.comp, onLive, cm1_isAdd, cm1_htlcIndex, cm1_addH_other c' c h i e hc, hres]
    rw [this]
    apply List.map_congr_left
    intro e _
    simp [ekey, Function.comp]
  unfold specOf
  rw [one, one]

theorem resolvedOn_snoc_fresh {c : Chain} {pd : Entry} (hz : pd.fresh) (O : List Entry) (i : Nat) :
    resolvedOn c (O ++ [pd]) i = resolvedOn c O i := by
  obtain ⟨_, _, h3, h4⟩ := hz
  unfold resolvedOn
  rw [List.any_append]
  cases c <;> simp [Entry.rmvH, h3, h4]

theorem spec_snoc_L {c : Chain} {pd : Entry} (hz : pd.fresh) (EL ER : List Entry) :
    specOf c (EL ++ [pd]) ER = specOf c EL ER := by
  have hz' := hz
  obtain ⟨h1, h2, _, _⟩ := hz'
  unfold specOf
  have hp : onLive c ER pd = false := by cases c <;> simp [onLive, Entry.addH, h1, h2]
  rw [List.filter_append]
  have : ER.filter (onLive c (EL ++ [pd])) = ER.filter (onLive c EL) := by
    apply List.filter_congr; intro e _
    simp only [onLive, resolvedOn_snoc_fresh hz]
  rw [this]
  simp [List.filter, hp]

theorem spec_snoc_R {c : Chain} {pd : Entry} (hz : pd.fresh) (EL ER : List Entry) :
    specOf c EL (ER ++ [pd]) = specOf c EL ER := by
  have hz' := hz
  obtain ⟨h1, h2, _, _⟩ := hz'
  unfold specOf
  have hp : onLive c EL pd = false := by cases c <;> simp [onLive, Entry.addH, h1, h2]
  rw [List.filter_append]
  have : EL.filter (onLive c (ER ++ [pd])) = EL.filter (onLive c ER) := by
    apply List.filter_congr; intro e _
    simp only [onLive, resolvedOn_snoc_fresh hz]
  rw [this]
  simp [List.filter, hp]

/-- replacing a log by one with the same adds and resolutions (fee coalescing). -/
theorem spec_same_L {c : Chain} {EL EL' ER : List Entry} (ha : adds EL' = adds EL)
    (hr : resolutions EL' = resolutions EL) : specOf c EL' ER = specOf c EL ER := by
  unfold specOf
  have h1 : EL'.filter (onLive c ER) = EL.filter (onLive c ER) := by
    have e : ∀ X : List Entry, X.filter (onLive c ER) =
        (adds X).filter (fun e => e.addH c != 0 && !resolvedOn c ER e.htlcIndex) := by
      intro X; unfold adds; rw [List.filter_filter]
      apply List.filter_congr; intro e _; simp only [onLive]
      cases e.isAdd <;> simp [Bool.and_comm]
    rw [e, e, ha]
  have h2 : ER.filter (onLive c EL') = ER.filter (onLive c EL) := by
    apply List.filter_congr; intro e _
    simp only [onLive, resolvedOn_congr (O' := EL') (O := EL) (by rw [hr])]
  rw [h1, h2]

theorem spec_same_R {c : Chain} {EL ER ER' : List Entry} (ha : adds ER' = adds ER)
    (hr : resolutions ER' = resolutions ER) : specOf c EL ER' = specOf c EL ER := by
  unfold specOf
  have h1 : ER'.filter (onLive c EL) = ER.filter (onLive c EL) := by
    have e : ∀ X : List Entry, X.filter (onLive c EL) =
        (adds X).filter (fun e => e.addH c != 0 && !resolvedOn c EL e.htlcIndex) := by
      intro X; unfold adds; rw [List.filter_filter]
      apply List.filter_congr; intro e _; simp only [onLive]
      cases e.isAdd <;> simp [Bool.and_comm]
    rw [e, e, ha]
  have h2 : EL.filter (onLive c ER') = EL.filter (onLive c ER) := by
    apply List.filter_congr; intro e _
    simp only [onLive, resolvedOn_congr (O' := ER') (O := ER) (by rw [hr])]
  rw [h1, h2]


/-! ### compaction does not change what is on a chain -/

theorem onLive_passB_other {c : Chain} (parents : List Nat) (b : Log) (e : Entry) :
    onLive c (passB parents b).entries e = onLive c b.entries e := by
  simp only [onLive]
  rw [resolvedOn_congr (O' := (passB parents b).entries) (O := b.entries)]
  unfold passB resolutions
  simp only [List.filter_filter]
  congr 1
  apply List.filter_congr
  intro r _
  cases hr : r.isRes
  · simp
  · simp [isRes_not_isAdd r hr]

theorem filter_passA {c : Chain} (lt rt : Nat) (a : Log) (X : List Entry) :
    (passA lt rt a).entries.filter (onLive c X) = a.entries.filter (onLive c X) := by
  unfold passA
  simp only [List.filter_filter]
  apply List.filter_congr
  intro e _
  simp only [onLive]
  cases hadd : e.isAdd
  · simp
  · cases hrm : removable lt rt e
    · simp
    · have := (removable_spec hrm).1; rw [hadd] at this; cases this

theorem filter_passB {c : Chain} (lt rt : Nat) (a b : Log) :
    (passB ((goneRes lt rt a.entries).map Entry.parent) b).entries.filter (onLive c (passA lt rt a).entries) =
      b.entries.filter (onLive c a.entries) := by
  unfold passB
  simp only [List.filter_filter]
  apply List.filter_congr
  intro e _
  cases hadd : e.isAdd
  · simp [onLive, hadd]
  · cases hc : ((goneRes lt rt a.entries).map Entry.parent).contains e.htlcIndex
    · -- kept: the resolutions that matter are kept too
      simp only [hadd, hc, Bool.and_false, Bool.not_false, Bool.and_true, onLive, Bool.true_and]
      congr 2
      rw [Bool.eq_iff_iff, resolvedOn_iff, resolvedOn_iff]
      constructor
      · rintro ⟨r, hr, h1, h2, h3⟩
        exact ⟨r, (List.mem_filter.mp hr).1, h1, h2, h3⟩
      · rintro ⟨r, hr, h1, h2, h3⟩
        refine ⟨r, ?_, h1, h2, h3⟩
        apply List.mem_filter.mpr
        refine ⟨hr, ?_⟩
        cases hrm : removable lt rt r
        · rfl
        · exfalso
          have : r ∈ goneRes lt rt a.entries := by
            rw [goneRes_eq]
            exact List.mem_filter.mpr ⟨List.mem_filter.mpr ⟨hr, h1⟩, hrm⟩
          have : e.htlcIndex ∈ (goneRes lt rt a.entries).map Entry.parent := by
            rw [← h2]; exact List.mem_map_of_mem this
          simp [this] at hc
    · -- dropped: it was already resolved on every chain
      simp only [hadd, hc, Bool.and_true, Bool.not_true, Bool.false_and]
      symm
      have : e.htlcIndex ∈ (goneRes lt rt a.entries).map Entry.parent := by simpa using hc
      obtain ⟨r, hr, hp⟩ := List.mem_map.mp this
      obtain ⟨hm, hres, hrem⟩ := goneRes_mem hr
      have : resolvedOn c a.entries e.htlcIndex = true :=
        resolvedOn_iff.mpr ⟨r, hm, hres, hp, (removable_spec hrem).2 c⟩
      simp [onLive, this]

theorem spec_compactPass (c : Chain) (lt rt : Nat) (a b : Log) :
    specOf c (compactPass lt rt a b).1.entries (compactPass lt rt a b).2.entries = specOf c a.entries b.entries ∧
    specOf c (compactPass lt rt a b).2.entries (compactPass lt rt a b).1.entries = specOf c b.entries a.entries := by
  rw [compactPass_parents]
  simp only
  have h1 : (passA lt rt a).entries.filter (onLive c (passB ((goneRes lt rt a.entries).map Entry.parent) b).entries) =
      a.entries.filter (onLive c b.entries) := by
    rw [filter_passA]
    apply List.filter_congr
    intro e _
    exact onLive_passB_other _ b e
  have h2 := filter_passB (c := c) lt rt a b
  unfold specOf
  rw [h1, h2]
  exact ⟨rfl, rfl⟩

theorem spec_compactLogs (c : Chain) (lt rt : Nat) (o t : Log) :
    specOf c (compactLogs lt rt o t).1.entries (compactLogs lt rt o t).2.entries = specOf c o.entries t.entries := by
  unfold compactLogs
  simp only
  rw [(spec_compactPass c lt rt (compactPass lt rt o t).2 (compactPass lt rt o t).1).2,
      (spec_compactPass c lt rt o t).1]

/-! ### `TH` is an invariant -/

def THs (n : Node) : Prop := ∀ c, TH n c

theorem hkey_htlcOf (cfg : Cfg) (inc : Bool) (c : Chain) (f : Nat) (l : List Entry) :
    (l.map (htlcOf cfg inc c f)).map hkey = l.map (ekey inc) := by
  rw [List.map_map]; rfl

/-- keys of a freshly built commitment. -/
theorem fetch_keys {n : Node} {c : Chain} {iL hL iR hR : Nat} {cm : Commit} {n' : Node}
    (hf : fetchCommitmentView n c iL hL iR hR = .ok (cm, n')) :
    cm.htlcs.map hkey =
      (liveAdds (viewOf n.logL iL) (resolutions (viewOf n.logR iR))).map (ekey false) ++
      (liveAdds (viewOf n.logR iR) (resolutions (viewOf n.logL iL))).map (ekey true) := by
  obtain ⟨r, hc, hb⟩ := fetch_ok_parts hf
  have vf := computeView_ok hc
  rw [buildCommit_htlcs hb, List.map_append, hkey_htlcOf, hkey_htlcOf, vf.liveL, vf.liveR]

/-- `TH` right after a commitment was created on chain `c` and pushed. -/
theorem th_after_fetch {n : Node} {c : Chain} {iL hL iR hR : Nat} {cm : Commit} {n' : Node}
    (hI : Inv n)
    (covL : ∀ e ∈ n.logL.entries, e.onChain c = true → e.logIndex < iL)
    (covR : ∀ e ∈ n.logR.entries, e.onChain c = true → e.logIndex < iR)
    (hs : sanity n iR iL c .none [] [] = .ok)
    (hf : fetchCommitmentView n c iL hL iR hR = .ok (cm, n')) :
    cm.htlcs.map hkey = specOf c n'.logL.entries n'.logR.entries ∧
    (∀ c', c' ≠ c → specOf c' n'.logL.entries n'.logR.entries = specOf c' n.logL.entries n.logR.entries) ∧
    n'.chainL = n.chainL ∧ n'.chainR = n.chainR := by
  have ff := fetch_step hI.logL hI.logR covL covR (hI.j1 c) hs hf
  have hn := ff.node
  subst hn
  have hh : (n.chain c).tip.height + 1 ≠ 0 := by omega
  refine ⟨?_, ?_, rfl, rfl⟩
  · rw [fetch_keys hf]
    exact (spec_commit_same hh covL covR).symm
  · intro c' hc
    exact spec_commit_other hc _ _ _ _ _


/-- a node whose chains are unchanged and whose logs have the same `specOf`. -/
theorem ths_of_same {n n' : Node} (hT : THs n) (hcL : n'.chainL = n.chainL) (hcR : n'.chainR = n.chainR)
    (hs : ∀ c, specOf c n'.logL.entries n'.logR.entries = specOf c n.logL.entries n.logR.entries) : THs n' := by
  intro c
  have := hT c
  unfold TH specKeys at this ⊢
  have hch : n'.chain c = n.chain c := by cases c <;> simp [Node.chain, hcL, hcR]
  rw [hch, hs c]; exact this

theorem ths_addHTLC {n : Node} (hT : THs n) (a e h : Nat) : THs (n.addHTLC a e h).2 := by
  unfold Node.addHTLC
  simp only
  split
  · split
    · exact ths_of_same hT rfl rfl (fun c => spec_snoc_L ⟨rfl, rfl, rfl, rfl⟩ _ _)
    · exact hT
  · exact hT

theorem ths_receiveHTLC {n : Node} (hT : THs n) (i a e h : Nat) : THs (n.receiveHTLC i a e h).2 := by
  unfold Node.receiveHTLC
  simp only
  split
  · exact hT
  · split
    · exact ths_of_same hT rfl rfl (fun c => spec_snoc_R ⟨rfl, rfl, rfl, rfl⟩ _ _)
    · exact hT

theorem ths_resolveLocal {n : Node} (hT : THs n) (ty : ETy) (i : Nat) (p : Bool) : THs (n.resolveLocal ty i p).2 := by
  unfold Node.resolveLocal
  split
  · exact hT
  · simp only
    split
    · exact hT
    · split
      · exact hT
      · exact ths_of_same hT rfl rfl (fun c => spec_snoc_L ⟨rfl, rfl, rfl, rfl⟩ _ _)

theorem ths_resolveRemote {n : Node} (hT : THs n) (ty : ETy) (i : Nat) (p : Bool) : THs (n.resolveRemote ty i p).2 := by
  unfold Node.resolveRemote
  split
  · exact hT
  · simp only
    split
    · exact hT
    · split
      · exact hT
      · exact ths_of_same hT rfl rfl (fun c => spec_snoc_R ⟨rfl, rfl, rfl, rfl⟩ _ _)

theorem ths_updateFee {n : Node} (hT : THs n) (f : Nat) : THs (n.updateFee f).2 := by
  unfold Node.updateFee
  split
  · exact hT
  · split
    · exact hT
    · simp only [Log.appendFeeUpdate]
      cases hs : setLastFee (1000 * f) n.logL.entries.reverse with
      | some r =>
        obtain ⟨h1, h2, _⟩ := coalesce_spec hs
        exact ths_of_same hT rfl rfl (fun c => spec_same_L h1 h2)
      | none =>
        exact ths_of_same hT rfl rfl (fun c => spec_snoc_L ⟨rfl, rfl, rfl, rfl⟩ _ _)

theorem ths_receiveUpdateFee {n : Node} (hT : THs n) (f : Nat) : THs (n.receiveUpdateFee f).2 := by
  unfold Node.receiveUpdateFee
  split
  · exact hT
  · simp only [Log.appendFeeUpdate]
    cases hs : setLastFee (1000 * f) n.logR.entries.reverse with
    | some r =>
      obtain ⟨h1, h2, _⟩ := coalesce_spec hs
      exact ths_of_same hT rfl rfl (fun c => spec_same_R h1 h2)
    | none =>
      exact ths_of_same hT rfl rfl (fun c => spec_snoc_R ⟨rfl, rfl, rfl, rfl⟩ _ _)

theorem ths_sign {n : Node} (hI : Inv n) (hT : THs n) : THs (n.sign).2.1 := by
  unfold Node.sign
  split
  · exact hT
  · simp only
    split
    · rename_i hs
      split
      · exact hT
      · rename_i cm n' hf
        have covL : ∀ e ∈ n.logL.entries, e.onChain .rem = true → e.logIndex < n.logL.logIndex :=
          fun e he _ => hI.logL.idxBound e he
        obtain ⟨h1, h2, h6, h7⟩ := th_after_fetch hI covL hI.covR hs hf
        intro c
        cases c
        · have := hT .loc
          unfold TH specKeys at this ⊢
          simp only [Node.chain] at this ⊢
          rw [h6, h2 .loc (by decide)]; exact this
        · unfold TH specKeys
          simp only [Node.chain]
          rw [tip_push n'.chainR cm]; exact h1
    · exact hT

theorem ths_receiveCommit {n : Node} (hI : Inv n) (hT : THs n) (sv : SigView) : THs (n.receiveCommit sv).2 := by
  unfold Node.receiveCommit
  simp only
  split
  · rename_i hs
    split
    · exact hT
    · rename_i cm n' hf
      split
      · have covR : ∀ e ∈ n.logR.entries, e.onChain .loc = true → e.logIndex < n.logR.logIndex :=
          fun e he _ => hI.logR.idxBound e he
        obtain ⟨h1, h2, h6, h7⟩ := th_after_fetch hI hI.covL covR hs hf
        intro c
        cases c
        · unfold TH specKeys
          simp only [Node.chain]
          rw [tip_push n'.chainL cm]; exact h1
        · have := hT .rem
          unfold TH specKeys at this ⊢
          simp only [Node.chain] at this ⊢
          rw [h7, h2 .rem (by decide)]; exact this
      · exact hT
  · exact hT

theorem ths_revoke {n : Node} (hT : THs n) : THs (n.revoke).2 := by
  unfold Node.revoke
  split
  · exact hT
  · rename_i c rest hp
    have hch : n.chainL = { tail := n.chainL.tail, pend := c :: rest } := by
      cases hc : n.chainL; simp_all
    intro ch
    have := hT ch
    unfold TH specKeys at this ⊢
    cases ch
    · simp only [Node.chain] at this ⊢
      rw [tip_pop n.chainL.tail c rest, ← hch]; exact this
    · exact this

theorem ths_receiveRevocation {n : Node} (hT : THs n) : THs (n.receiveRevocation).2 := by
  unfold Node.receiveRevocation
  split
  · exact hT
  · rename_i c rest hp
    have hch : n.chainR = { tail := n.chainR.tail, pend := c :: rest } := by
      cases hc : n.chainR; simp_all
    simp only
    intro ch
    have := hT ch
    unfold TH specKeys at this ⊢
    simp only
    rw [spec_compactLogs]
    cases ch
    · exact this
    · simp only [Node.chain] at this ⊢
      rw [tip_pop n.chainR.tail c rest, ← hch]; exact this

theorem ths_step {n : Node} (hI : Inv n) (hT : THs n) (op : Op) : THs (n.step op).2 := by
  cases op with
  | addHTLC a e h => exact ths_addHTLC hT a e h
  | receiveHTLC i a e h => exact ths_receiveHTLC hT i a e h
  | settle i p => exact ths_resolveLocal hT _ i p
  | fail i => exact ths_resolveLocal hT _ i true
  | malformedFail i => exact ths_resolveLocal hT _ i true
  | receiveSettle i p => exact ths_resolveRemote hT _ i p
  | receiveFail i => exact ths_resolveRemote hT _ i true
  | updateFee f => exact ths_updateFee hT f
  | receiveUpdateFee f => exact ths_receiveUpdateFee hT f
  | sign => exact ths_sign hI hT
  | receiveCommit sv => exact ths_receiveCommit hI hT sv
  | revoke => exact ths_revoke hT
  | receiveRevocation => exact ths_receiveRevocation hT

theorem ths_run {n : Node} (hI : Inv n) (hT : THs n) (ops : List Op) : THs (n.run ops) := by
  unfold Node.run
  induction ops generalizing n with
  | nil => exact hT
  | cons o os ih => exact ih (inv_step hI o) (ths_step hI hT o)

end LndModel.C01
