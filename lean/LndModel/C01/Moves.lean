/-
C01 — the HTLC list of every chain tip is exactly what the update logs say is on that chain
(`TH`), an invariant of every operation; from it, `balance_moves` restated over the HTLC sets of
consecutive commitments.
-/
import LndModel.C01.Mirror
import LndModel.C01.Cap
set_option linter.unusedSimpArgs false

namespace LndModel.C01

/-! ### the HTLCs of a chain tip, read off the logs -/

/-- HTLC `i` (added by the owner of the other log) has a resolution that is on chain `c`. -/
def resolvedOn (c : Chain) (other : List Entry) (i : Nat) : Bool :=
  other.any (fun r => r.isRes && r.parent == i && r.rmvH c != 0)

/-- an add that is on chain `c` and not yet removed from it. -/
def onLive (c : Chain) (other : List Entry) (e : Entry) : Bool :=
  e.isAdd && e.addH c != 0 && !resolvedOn c other e.htlcIndex

/-- identity and amount of an HTLC: (incoming?, htlc index, msat). -/
def hkey (h : Htlc) : Bool × Nat × Nat := (h.incoming, h.idx, h.amt)
def ekey (inc : Bool) (e : Entry) : Bool × Nat × Nat := (inc, e.htlcIndex, e.amt)

def specOf (c : Chain) (EL ER : List Entry) : List (Bool × Nat × Nat) :=
  (EL.filter (onLive c ER)).map (ekey false) ++ (ER.filter (onLive c EL)).map (ekey true)

def specKeys (n : Node) (c : Chain) : List (Bool × Nat × Nat) := specOf c n.logL.entries n.logR.entries

/-- the HTLC list of the tip of chain `c` is exactly what the logs say is on that chain. -/
def TH (n : Node) (c : Chain) : Prop := (n.chain c).tip.htlcs.map hkey = specKeys n c

theorem resolvedOn_iff {c : Chain} {other : List Entry} {i : Nat} :
    resolvedOn c other i = true ↔ ∃ r ∈ other, r.isRes = true ∧ r.parent = i ∧ r.rmvH c ≠ 0 := by
  simp [resolvedOn, List.any_eq_true, and_assoc]

/-- after `commitLog` on chain `c`, "resolved on `c`" means "has a resolution in the view". -/
theorem resolvedOn_commitLog {c : Chain} {h i : Nat} (hh : h ≠ 0) {E : List Entry}
    (cov : ∀ e ∈ E, e.onChain c = true → e.logIndex < i) (idx : Nat) :
    resolvedOn c (commitLog c h i E) idx =
      ((resolutions (E.filter (fun e => decide (e.logIndex < i)))).map Entry.parent).contains idx := by
  rw [Bool.eq_iff_iff, resolvedOn_iff]
  simp only [List.contains_iff_mem, List.mem_map, resolutions, List.mem_filter, decide_eq_true_eq,
    commitLog_eq]
  constructor
  · rintro ⟨r', ⟨r, hr, rfl⟩, hres, hpar, hne⟩
    refine ⟨r, ⟨⟨hr, ?_⟩, by simpa using hres⟩, by simpa using hpar⟩
    by_cases h0 : r.rmvH c = 0
    · exact (cm1_rmvH_new c c h i r h0 hne).2
    · exact cov r hr (by simp [Entry.onChain, h0])
  · rintro ⟨r, ⟨⟨hr, hlt⟩, hres⟩, hpar⟩
    refine ⟨cm1 c h i r, ⟨r, hr, rfl⟩, by simpa using hres, by simpa using hpar, ?_⟩
    unfold cm1
    rw [if_pos hlt, commitAt_rmvH_res c c h r hres]
    by_cases h0 : r.rmvH c = 0
    · simp [h0, hh]
    · simp [h0]

/-- after `commitLog` on chain `c`, the live adds of the log are the live adds of the view. -/
theorem onLive_commitLog {c : Chain} {h iO iP : Nat} (hh : h ≠ 0) {E O : List Entry}
    (covE : ∀ e ∈ E, e.onChain c = true → e.logIndex < iO)
    (covO : ∀ e ∈ O, e.onChain c = true → e.logIndex < iP) :
    ((commitLog c h iO E).filter (onLive c (commitLog c h iP O))).map (ekey false) =
      (liveAdds (E.filter (fun e => decide (e.logIndex < iO)))
        (resolutions (O.filter (fun e => decide (e.logIndex < iP))))).map (ekey false) ∧
    ((commitLog c h iO E).filter (onLive c (commitLog c h iP O))).map (ekey true) =
      (liveAdds (E.filter (fun e => decide (e.logIndex < iO)))
        (resolutions (O.filter (fun e => decide (e.logIndex < iP))))).map (ekey true) := by
  have key : (commitLog c h iO E).filter (onLive c (commitLog c h iP O)) =
      (liveAdds (E.filter (fun e => decide (e.logIndex < iO)))
        (resolutions (O.filter (fun e => decide (e.logIndex < iP))))).map (cm1 c h iO) := by
    unfold liveAdds
    have hres := fun idx => resolvedOn_commitLog (h := h) hh covO idx
    simp only [commitLog_eq] at hres ⊢
    rw [List.filter_map, List.filter_filter]
    congr 1
    apply List.filter_congr
    intro e he
    simp only [Function.comp, onLive, cm1_isAdd, cm1_htlcIndex, hres]
    cases hadd : e.isAdd
    · simp
    · simp only [Bool.true_and]
      by_cases hlt : e.logIndex < iO
      · have : (cm1 c h iO e).addH c ≠ 0 := by
          unfold cm1; rw [if_pos hlt, commitAt_addH_add c c h e hadd]
          by_cases h0 : e.addH c = 0 <;> simp [h0, hh]
        simp [this, hlt]
      · have h0 : e.addH c = 0 := by
          by_cases h0 : e.addH c = 0
          · exact h0
          · exact absurd (covE e he (by simp [Entry.onChain, h0])) hlt
        have : (cm1 c h iO e).addH c = 0 := by unfold cm1; rw [if_neg hlt]; exact h0
        simp [this, hlt]
  rw [key]
  constructor <;> (rw [List.map_map]; apply List.map_congr_left; intro e _; simp [ekey, Function.comp])


theorem spec_commit_same {c : Chain} {h iL iR : Nat} (hh : h ≠ 0) {EL ER : List Entry}
    (covL : ∀ e ∈ EL, e.onChain c = true → e.logIndex < iL)
    (covR : ∀ e ∈ ER, e.onChain c = true → e.logIndex < iR) :
    specOf c (commitLog c h iL EL) (commitLog c h iR ER) =
      (liveAdds (EL.filter (fun e => decide (e.logIndex < iL)))
        (resolutions (ER.filter (fun e => decide (e.logIndex < iR))))).map (ekey false) ++
      (liveAdds (ER.filter (fun e => decide (e.logIndex < iR)))
        (resolutions (EL.filter (fun e => decide (e.logIndex < iL))))).map (ekey true) := by
  unfold specOf
  rw [(onLive_commitLog hh covL covR).1, (onLive_commitLog hh covR covL).2]

theorem resolvedOn_congr {c : Chain} {O O' : List Entry}
    (h : (resolutions O').map (fun r => (r.parent, r.rmvH c)) = (resolutions O).map (fun r => (r.parent, r.rmvH c)))
    (i : Nat) : resolvedOn c O' i = resolvedOn c O i := by
  have key : ∀ X : List Entry, resolvedOn c X i =
      ((resolutions X).map (fun r => (r.parent, r.rmvH c))).any (fun p => p.1 == i && p.2 != 0) := by
    intro X
    unfold resolvedOn resolutions
    induction X with
    | nil => rfl
    | cons x xs ih =>
      simp only [List.any_cons, List.filter]
      cases hx : x.isRes
      · simp [ih]
      · simp [ih]
  rw [key, key, h]

theorem spec_commit_other {c c' : Chain} (hc : c ≠ c') (h iL iR : Nat) (EL ER : List Entry) :
    specOf c (commitLog c' h iL EL) (commitLog c' h iR ER) = specOf c EL ER := by
  have hres : ∀ (i : Nat) (O : List Entry) (j : Nat), resolvedOn c (commitLog c' h j O) i = resolvedOn c O i := by
    intro i O j
    apply resolvedOn_congr
    unfold resolutions
    rw [commitLog_eq, filter_map_pres (cm1_isRes c' h j), List.map_map]
    apply List.map_congr_left
    intro r _
    simp [Function.comp, cm1_rmvH_other c' c h j r hc]
  have one : ∀ (inc : Bool) (E O : List Entry) (i j : Nat),
      ((commitLog c' h i E).filter (onLive c (commitLog c' h j O))).map (ekey inc) =
      (E.filter (onLive c O)).map (ekey inc) := by
    intro inc E O i j
    rw [commitLog_eq c' h i E, List.filter_map, List.map_map]
    have : (E.filter (onLive c (commitLog c' h j O) ∘ cm1 c' h i)) = E.filter (onLive c O) := by
      apply List.filter_congr
      intro e _
      simp only [Function.comp, onLive, cm1_isAdd, cm1_htlcIndex, cm1_addH_other c' c h i e hc, hres]
    rw [this]
    apply List.map_congr_left
    intro e _
    simp [ekey, Function.comp]
  unfold specOf
  rw [one, one]

theorem resolvedOn_snoc_fresh {c : Chain} {pd : Entry} (hz : pd.fresh) (O : List Entry) (i : Nat) :
    resolvedOn c (O ++ [pd]) i = resolvedOn c O i := by
  obtain ⟨_, _, h3, h4⟩ := hz
  unfold resolvedOn
  rw [List.any_append]
  cases c <;> simp [Entry.rmvH, h3, h4]

theorem spec_snoc_L {c : Chain} {pd : Entry} (hz : pd.fresh) (EL ER : List Entry) :
    specOf c (EL ++ [pd]) ER = specOf c EL ER := by
  have hz' := hz
  obtain ⟨h1, h2, _, _⟩ := hz'
  unfold specOf
  have hp : onLive c ER pd = false := by cases c <;> simp [onLive, Entry.addH, h1, h2]
  rw [List.filter_append]
  have : ER.filter (onLive c (EL ++ [pd])) = ER.filter (onLive c EL) := by
    apply List.filter_congr; intro e _
    simp only [onLive, resolvedOn_snoc_fresh hz]
  rw [this]
  simp [List.filter, hp]

theorem spec_snoc_R {c : Chain} {pd : Entry} (hz : pd.fresh) (EL ER : List Entry) :
    specOf c EL (ER ++ [pd]) = specOf c EL ER := by
  have hz' := hz
  obtain ⟨h1, h2, _, _⟩ := hz'
  unfold specOf
  have hp : onLive c EL pd = false := by cases c <;> simp [onLive, Entry.addH, h1, h2]
  rw [List.filter_append]
  have : EL.filter (onLive c (ER ++ [pd])) = EL.filter (onLive c ER) := by
    apply List.filter_congr; intro e _
    simp only [onLive, resolvedOn_snoc_fresh hz]
  rw [this]
  simp [List.filter, hp]

/-- replacing a log by one with the same adds and resolutions (fee coalescing). -/
theorem spec_same_L {c : Chain} {EL EL' ER : List Entry} (ha : adds EL' = adds EL)
    (hr : resolutions EL' = resolutions EL) : specOf c EL' ER = specOf c EL ER := by
  unfold specOf
  have h1 : EL'.filter (onLive c ER) = EL.filter (onLive c ER) := by
    have e : ∀ X : List Entry, X.filter (onLive c ER) =
        (adds X).filter (fun e => e.addH c != 0 && !resolvedOn c ER e.htlcIndex) := by
      intro X; unfold adds; rw [List.filter_filter]
      apply List.filter_congr; intro e _; simp only [onLive]
      cases e.isAdd <;> simp [Bool.and_comm]
    rw [e, e, ha]
  have h2 : ER.filter (onLive c EL') = ER.filter (onLive c EL) := by
    apply List.filter_congr; intro e _
    simp only [onLive, resolvedOn_congr (O' := EL') (O := EL) (by rw [hr])]
  rw [h1, h2]

theorem spec_same_R {c : Chain} {EL ER ER' : List Entry} (ha : adds ER' = adds ER)
    (hr : resolutions ER' = resolutions ER) : specOf c EL ER' = specOf c EL ER := by
  unfold specOf
  have h1 : ER'.filter (onLive c EL) = ER.filter (onLive c EL) := by
    have e : ∀ X : List Entry, X.filter (onLive c EL) =
        (adds X).filter (fun e => e.addH c != 0 && !resolvedOn c EL e.htlcIndex) := by
      intro X; unfold adds; rw [List.filter_filter]
      apply List.filter_congr; intro e _; simp only [onLive]
      cases e.isAdd <;> simp [Bool.and_comm]
    rw [e, e, ha]
  have h2 : EL.filter (onLive c ER') = EL.filter (onLive c ER) := by
    apply List.filter_congr; intro e _
    simp only [onLive, resolvedOn_congr (O' := ER') (O := ER) (by rw [hr])]
  rw [h1, h2]


/-! ### compaction does not change what is on a chain -/

theorem onLive_passB_other {c : Chain} (parents : List Nat) (b : Log) (e : Entry) :
    onLive c (passB parents b).entries e = onLive c b.entries e := by
  simp only [onLive]
  rw [resolvedOn_congr (O' := (passB parents b).entries) (O := b.entries)]
  unfold passB resolutions
  simp only [List.filter_filter]
  congr 1
  apply List.filter_congr
  intro r _
  cases hr : r.isRes
  · simp
  · simp [isRes_not_isAdd r hr]

theorem filter_passA {c : Chain} (lt rt : Nat) (a : Log) (X : List Entry) :
    (passA lt rt a).entries.filter (onLive c X) = a.entries.filter (onLive c X) := by
  unfold passA
  simp only [List.filter_filter]
  apply List.filter_congr
  intro e _
  simp only [onLive]
  cases hadd : e.isAdd
  · simp
  · cases hrm : removable lt rt e
    · simp
    · have := (removable_spec hrm).1; rw [hadd] at this; cases this

theorem filter_passB {c : Chain} (lt rt : Nat) (a b : Log) :
    (passB ((goneRes lt rt a.entries).map Entry.parent) b).entries.filter (onLive c (passA lt rt a).entries) =
      b.entries.filter (onLive c a.entries) := by
  unfold passB
  simp only [List.filter_filter]
  apply List.filter_congr
  intro e _
  cases hadd : e.isAdd
  · simp [onLive, hadd]
  · cases hc : ((goneRes lt rt a.entries).map Entry.parent).contains e.htlcIndex
    · -- kept: the resolutions that matter are kept too
      simp only [hadd, hc, Bool.and_false, Bool.not_false, Bool.and_true, onLive, Bool.true_and]
      congr 2
      rw [Bool.eq_iff_iff, resolvedOn_iff, resolvedOn_iff]
      constructor
      · rintro ⟨r, hr, h1, h2, h3⟩
        exact ⟨r, (List.mem_filter.mp hr).1, h1, h2, h3⟩
      · rintro ⟨r, hr, h1, h2, h3⟩
        refine ⟨r, ?_, h1, h2, h3⟩
        apply List.mem_filter.mpr
        refine ⟨hr, ?_⟩
        cases hrm : removable lt rt r
        · rfl
        · exfalso
          have : r ∈ goneRes lt rt a.entries := by
            rw [goneRes_eq]
            exact List.mem_filter.mpr ⟨List.mem_filter.mpr ⟨hr, h1⟩, hrm⟩
          have : e.htlcIndex ∈ (goneRes lt rt a.entries).map Entry.parent := by
            rw [← h2]; exact List.mem_map_of_mem this
          simp [this] at hc
    · -- dropped: it was already resolved on every chain
      simp only [hadd, hc, Bool.and_true, Bool.not_true, Bool.false_and]
      symm
      have : e.htlcIndex ∈ (goneRes lt rt a.entries).map Entry.parent := by simpa using hc
      obtain ⟨r, hr, hp⟩ := List.mem_map.mp this
      obtain ⟨hm, hres, hrem⟩ := goneRes_mem hr
      have : resolvedOn c a.entries e.htlcIndex = true :=
        resolvedOn_iff.mpr ⟨r, hm, hres, hp, (removable_spec hrem).2 c⟩
      simp [onLive, this]

theorem spec_compactPass (c : Chain) (lt rt : Nat) (a b : Log) :
    specOf c (compactPass lt rt a b).1.entries (compactPass lt rt a b).2.entries = specOf c a.entries b.entries ∧
    specOf c (compactPass lt rt a b).2.entries (compactPass lt rt a b).1.entries = specOf c b.entries a.entries := by
  rw [compactPass_parents]
  simp only
  have h1 : (passA lt rt a).entries.filter (onLive c (passB ((goneRes lt rt a.entries).map Entry.parent) b).entries) =
      a.entries.filter (onLive c b.entries) := by
    rw [filter_passA]
    apply List.filter_congr
    intro e _
    exact onLive_passB_other _ b e
  have h2 := filter_passB (c := c) lt rt a b
  unfold specOf
  rw [h1, h2]
  exact ⟨rfl, rfl⟩

theorem spec_compactLogs (c : Chain) (lt rt : Nat) (o t : Log) :
    specOf c (compactLogs lt rt o t).1.entries (compactLogs lt rt o t).2.entries = specOf c o.entries t.entries := by
  unfold compactLogs
  simp only
  rw [(spec_compactPass c lt rt (compactPass lt rt o t).2 (compactPass lt rt o t).1).2,
      (spec_compactPass c lt rt o t).1]

/-! ### `TH` is an invariant -/

def THs (n : Node) : Prop := ∀ c, TH n c

theorem hkey_htlcOf (cfg : Cfg) (inc : Bool) (c : Chain) (f : Nat) (l : List Entry) :
    (l.map (htlcOf cfg inc c f)).map hkey = l.map (ekey inc) := by
  rw [List.map_map]; rfl

/-- keys of a freshly built commitment. -/
theorem fetch_keys {n : Node} {c : Chain} {iL hL iR hR : Nat} {cm : Commit} {n' : Node}
    (hf : fetchCommitmentView n c iL hL iR hR = .ok (cm, n')) :
    cm.htlcs.map hkey =
      (liveAdds (viewOf n.logL iL) (resolutions (viewOf n.logR iR))).map (ekey false) ++
      (liveAdds (viewOf n.logR iR) (resolutions (viewOf n.logL iL))).map (ekey true) := by
  obtain ⟨r, hc, hb⟩ := fetch_ok_parts hf
  have vf := computeView_ok hc
  rw [buildCommit_htlcs hb, List.map_append, hkey_htlcOf, hkey_htlcOf, vf.liveL, vf.liveR]

/-- `TH` right after a commitment was created on chain `c` and pushed. -/
theorem th_after_fetch {n : Node} {c : Chain} {iL hL iR hR : Nat} {cm : Commit} {n' : Node}
    (hI : Inv n)
    (covL : ∀ e ∈ n.logL.entries, e.onChain c = true → e.logIndex < iL)
    (covR : ∀ e ∈ n.logR.entries, e.onChain c = true → e.logIndex < iR)
    (hs : sanity n iR iL c .none [] [] = .ok)
    (hf : fetchCommitmentView n c iL hL iR hR = .ok (cm, n')) :
    cm.htlcs.map hkey = specOf c n'.logL.entries n'.logR.entries ∧
    (∀ c', c' ≠ c → specOf c' n'.logL.entries n'.logR.entries = specOf c' n.logL.entries n.logR.entries) ∧
    n'.chainL = n.chainL ∧ n'.chainR = n.chainR := by
  have ff := fetch_step hI.logL hI.logR covL covR (hI.j1 c) hs hf
  have hn := ff.node
  subst hn
  have hh : (n.chain c).tip.height + 1 ≠ 0 := by omega
  refine ⟨?_, ?_, rfl, rfl⟩
  · rw [fetch_keys hf]
    exact (spec_commit_same hh covL covR).symm
  · intro c' hc
    exact spec_commit_other hc _ _ _ _ _


/-- a node whose chains are unchanged and whose logs have the same `specOf`. -/
theorem ths_of_same {n n' : Node} (hT : THs n) (hcL : n'.chainL = n.chainL) (hcR : n'.chainR = n.chainR)
    (hs : ∀ c, specOf c n'.logL.entries n'.logR.entries = specOf c n.logL.entries n.logR.entries) : THs n' := by
  intro c
  have := hT c
  unfold TH specKeys at this ⊢
  have hch : n'.chain c = n.chain c := by cases c <;> simp [Node.chain, hcL, hcR]
  rw [hch, hs c]; exact this

theorem ths_addHTLC {n : Node} (hT : THs n) (a e h : Nat) : THs (n.addHTLC a e h).2 := by
  unfold Node.addHTLC
  simp only
  split
  · split
    · exact ths_of_same hT rfl rfl (fun c => spec_snoc_L ⟨rfl, rfl, rfl, rfl⟩ _ _)
    · exact hT
  · exact hT

theorem ths_receiveHTLC {n : Node} (hT : THs n) (i a e h : Nat) : THs (n.receiveHTLC i a e h).2 := by
  unfold Node.receiveHTLC
  simp only
  split
  · exact hT
  · split
    · exact ths_of_same hT rfl rfl (fun c => spec_snoc_R ⟨rfl, rfl, rfl, rfl⟩ _ _)
    · exact hT

theorem ths_resolveLocal {n : Node} (hT : THs n) (ty : ETy) (i : Nat) (p : Bool) : THs (n.resolveLocal ty i p).2 := by
  unfold Node.resolveLocal
  split
  · exact hT
  · simp only
    split
    · exact hT
    · split
      · exact hT
      · exact ths_of_same hT rfl rfl (fun c => spec_snoc_L ⟨rfl, rfl, rfl, rfl⟩ _ _)

theorem ths_resolveRemote {n : Node} (hT : THs n) (ty : ETy) (i : Nat) (p : Bool) : THs (n.resolveRemote ty i p).2 := by
  unfold Node.resolveRemote
  split
  · exact hT
  · simp only
    split
    · exact hT
    · split
      · exact hT
      · exact ths_of_same hT rfl rfl (fun c => spec_snoc_R ⟨rfl, rfl, rfl, rfl⟩ _ _)

theorem ths_updateFee {n : Node} (hT : THs n) (f : Nat) : THs (n.updateFee f).2 := by
  unfold Node.updateFee
  split
  · exact hT
  · split
    · exact hT
    · simp only [Log.appendFeeUpdate]
      cases hs : setLastFee (1000 * f) n.logL.entries.reverse with
      | some r =>
        obtain ⟨h1, h2, _⟩ := coalesce_spec hs
        exact ths_of_same hT rfl rfl (fun c => spec_same_L h1 h2)
      | none =>
        exact ths_of_same hT rfl rfl (fun c => spec_snoc_L ⟨rfl, rfl, rfl, rfl⟩ _ _)

theorem ths_receiveUpdateFee {n : Node} (hT : THs n) (f : Nat) : THs (n.receiveUpdateFee f).2 := by
  unfold Node.receiveUpdateFee
  split
  · exact hT
  · simp only [Log.appendFeeUpdate]
    cases hs : setLastFee (1000 * f) n.logR.entries.reverse with
    | some r =>
      obtain ⟨h1, h2, _⟩ := coalesce_spec hs
      exact ths_of_same hT rfl rfl (fun c => spec_same_R h1 h2)
    | none =>
      exact ths_of_same hT rfl rfl (fun c => spec_snoc_R ⟨rfl, rfl, rfl, rfl⟩ _ _)

theorem ths_sign {n : Node} (hI : Inv n) (hT : THs n) : THs (n.sign).2.1 := by
  unfold Node.sign
  split
  · exact hT
  · simp only
    split
    · rename_i hs
      split
      · exact hT
      · rename_i cm n' hf
        have covL : ∀ e ∈ n.logL.entries, e.onChain .rem = true → e.logIndex < n.logL.logIndex :=
          fun e he _ => hI.logL.idxBound e he
        obtain ⟨h1, h2, h6, h7⟩ := th_after_fetch hI covL hI.covR hs hf
        intro c
        cases c
        · have := hT .loc
          unfold TH specKeys at this ⊢
          simp only [Node.chain] at this ⊢
          rw [h6, h2 .loc (by decide)]; exact this
        · unfold TH specKeys
          simp only [Node.chain]
          rw [tip_push n'.chainR cm]; exact h1
    · exact hT

theorem ths_receiveCommit {n : Node} (hI : Inv n) (hT : THs n) (sv : SigView) : THs (n.receiveCommit sv).2 := by
  unfold Node.receiveCommit
  simp only
  split
  · rename_i hs
    split
    · exact hT
    · rename_i cm n' hf
      split
      · have covR : ∀ e ∈ n.logR.entries, e.onChain .loc = true → e.logIndex < n.logR.logIndex :=
          fun e he _ => hI.logR.idxBound e he
        obtain ⟨h1, h2, h6, h7⟩ := th_after_fetch hI hI.covL covR hs hf
        intro c
        cases c
        · unfold TH specKeys
          simp only [Node.chain]
          rw [tip_push n'.chainL cm]; exact h1
        · have := hT .rem
          unfold TH specKeys at this ⊢
          simp only [Node.chain] at this ⊢
          rw [h7, h2 .rem (by decide)]; exact this
      · exact hT
  · exact hT

theorem ths_revoke {n : Node} (hT : THs n) : THs (n.revoke).2 := by
  unfold Node.revoke
  split
  · exact hT
  · rename_i c rest hp
    have hch : n.chainL = { tail := n.chainL.tail, pend := c :: rest } := by
      cases hc : n.chainL; simp_all
    intro ch
    have := hT ch
    unfold TH specKeys at this ⊢
    cases ch
    · simp only [Node.chain] at this ⊢
      rw [tip_pop n.chainL.tail c rest, ← hch]; exact this
    · exact this

theorem ths_receiveRevocation {n : Node} (hT : THs n) : THs (n.receiveRevocation).2 := by
  unfold Node.receiveRevocation
  split
  · exact hT
  · rename_i c rest hp
    have hch : n.chainR = { tail := n.chainR.tail, pend := c :: rest } := by
      cases hc : n.chainR; simp_all
    simp only
    intro ch
    have := hT ch
    unfold TH specKeys at this ⊢
    simp only
    rw [spec_compactLogs]
    cases ch
    · exact this
    · simp only [Node.chain] at this ⊢
      rw [tip_pop n.chainR.tail c rest, ← hch]; exact this

theorem ths_step {n : Node} (hI : Inv n) (hT : THs n) (op : Op) : THs (n.step op).2 := by
  cases op with
  | addHTLC a e h => exact ths_addHTLC hT a e h
  | receiveHTLC i a e h => exact ths_receiveHTLC hT i a e h
  | settle i p => exact ths_resolveLocal hT _ i p
  | fail i => exact ths_resolveLocal hT _ i true
  | malformedFail i => exact ths_resolveLocal hT _ i true
  | receiveSettle i p => exact ths_resolveRemote hT _ i p
  | receiveFail i => exact ths_resolveRemote hT _ i true
  | updateFee f => exact ths_updateFee hT f
  | receiveUpdateFee f => exact ths_receiveUpdateFee hT f
  | sign => exact ths_sign hI hT
  | receiveCommit sv => exact ths_receiveCommit hI hT sv
  | revoke => exact ths_revoke hT
  | receiveRevocation => exact ths_receiveRevocation hT

theorem ths_run {n : Node} (hI : Inv n) (hT : THs n) (ops : List Op) : THs (n.run ops) := by
  unfold Node.run
  induction ops generalizing n with
  | nil => exact hT
  | cons o os ih => exact ih (inv_step hI o) (ths_step hI hT o)

/-! ### sums over HTLC sets -/

abbrev HKey := Bool × Nat × Nat

def ksum (ks : List HKey) : Nat := sumBy (fun k => k.2.2) ks

theorem ksum_append (a b : List HKey) : ksum (a ++ b) = ksum a + ksum b := sumBy_append _ _ _

theorem sum_htlcs_keys (p : HKey → Bool) (hs : List Htlc) :
    sumBy Htlc.amt (hs.filter (fun h => p (hkey h))) = ksum ((hs.map hkey).filter p) := by
  unfold ksum
  induction hs with
  | nil => rfl
  | cons h t ih =>
    simp only [List.filter, List.map_cons]
    cases hp : p (hkey h)
    · simpa using ih
    · simp only [sumBy, ih]; rfl

theorem ksum_entries (inc : Bool) (q : Entry → Bool) (p : HKey → Bool) (E : List Entry) :
    ksum (((E.filter q).map (ekey inc)).filter p) =
      sumBy Entry.amt (E.filter (fun e => q e && p (ekey inc e))) := by
  unfold ksum
  induction E with
  | nil => rfl
  | cons e t ih =>
    simp only [List.filter]
    cases hq : q e
    · simpa using ih
    · simp only [List.map_cons, List.filter, Bool.true_and]
      cases hp : p (ekey inc e) <;> simp [sumBy, ih, ekey]

theorem filter_keys_wrong_dir (inc : Bool) (l : List Entry) (p : HKey → Bool) (hp : ∀ k, k.1 = inc → p k = false) :
    ((l.map (ekey inc)).filter p) = [] := by
  apply List.filter_eq_nil_iff.mpr
  intro k hk
  obtain ⟨e, _, rfl⟩ := List.mem_map.mp hk
  rw [hp _ rfl]; simp

/-- membership of an outgoing key among the keys the logs put on chain `c`. -/
theorem mem_spec_out {c : Chain} {EL ER : List Entry} (hu : UniqueAdds EL) {e : Entry} (he : e ∈ EL)
    (hadd : e.isAdd = true) :
    (specOf c EL ER).contains (ekey false e) = onLive c ER e := by
  rw [Bool.eq_iff_iff]
  simp only [List.contains_iff_mem, specOf, List.mem_append, List.mem_map, List.mem_filter]
  constructor
  · rintro (⟨e', ⟨he', hl⟩, hk⟩ | ⟨e', _, hk⟩)
    · simp only [ekey, Prod.mk.injEq, true_and] at hk
      have hadd' : e'.isAdd = true := by
        simp only [onLive, Bool.and_eq_true] at hl; exact hl.1.1
      have : e' = e := nodup_map_inj Entry.htlcIndex (adds EL) hu e' e
        (List.mem_filter.mpr ⟨he', hadd'⟩) (List.mem_filter.mpr ⟨he, hadd⟩) hk.1
      rw [← this]; exact hl
    · simp [ekey] at hk
  · intro hl
    exact Or.inl ⟨e, ⟨he, hl⟩, rfl⟩

theorem mem_spec_in {c : Chain} {EL ER : List Entry} (hu : UniqueAdds ER) {e : Entry} (he : e ∈ ER)
    (hadd : e.isAdd = true) :
    (specOf c EL ER).contains (ekey true e) = onLive c EL e := by
  rw [Bool.eq_iff_iff]
  simp only [List.contains_iff_mem, specOf, List.mem_append, List.mem_map, List.mem_filter]
  constructor
  · rintro (⟨e', _, hk⟩ | ⟨e', ⟨he', hl⟩, hk⟩)
    · simp [ekey] at hk
    · simp only [ekey, Prod.mk.injEq, true_and] at hk
      have hadd' : e'.isAdd = true := by
        simp only [onLive, Bool.and_eq_true] at hl; exact hl.1.1
      have : e' = e := nodup_map_inj Entry.htlcIndex (adds ER) hu e' e
        (List.mem_filter.mpr ⟨he', hadd'⟩) (List.mem_filter.mpr ⟨he, hadd⟩) hk.1
      rw [← this]; exact hl
  · intro hl
    exact Or.inr ⟨e, ⟨he, hl⟩, rfl⟩


/-- (G1) the HTLCs of the new commitment that were not on the old one are exactly the not yet
    committed live adds of the view. -/
theorem added_sum {c : Chain} {E O : List Entry} {iE iO : Nat} (inc : Bool) (oldKeys : List HKey)
    (covO : ∀ e ∈ O, e.onChain c = true → e.logIndex < iO)
    (hmem : ∀ e ∈ E, e.isAdd = true → oldKeys.contains (ekey inc e) = onLive c O e) :
    ksum (((liveAdds (E.filter (fun e => decide (e.logIndex < iE)))
        (resolutions (O.filter (fun e => decide (e.logIndex < iO))))).map (ekey inc)).filter
          (fun k => !oldKeys.contains k)) =
      addDebit c (liveAdds (E.filter (fun e => decide (e.logIndex < iE)))
        (resolutions (O.filter (fun e => decide (e.logIndex < iO))))) := by
  unfold liveAdds addDebit
  rw [List.filter_filter, ksum_entries, List.filter_filter]
  apply sumBy_filter_congr
  intro e he
  cases hlt : decide (e.logIndex < iE)
  · simp
  · cases hadd : e.isAdd
    · simp
    · cases hsk : ((resolutions (O.filter (fun e => decide (e.logIndex < iO)))).map Entry.parent).contains e.htlcIndex
      · simp only [Bool.not_false, Bool.and_true, Bool.true_and]
        rw [hmem e he hadd]
        simp only [onLive, hadd, Bool.true_and]
        by_cases h0 : e.addH c = 0
        · simp [h0]
        · have hnr : resolvedOn c O e.htlcIndex = false := by
            apply Bool.eq_false_iff.mpr
            intro hr
            obtain ⟨r, hrO, hres, hpar, hne⟩ := resolvedOn_iff.mp hr
            have hlt' := covO r hrO (by simp [Entry.onChain, hne])
            have : e.htlcIndex ∈ (resolutions (O.filter (fun e => decide (e.logIndex < iO)))).map Entry.parent := by
              rw [← hpar]
              apply List.mem_map_of_mem
              exact List.mem_filter.mpr ⟨List.mem_filter.mpr ⟨hrO, by simpa using hlt'⟩, hres⟩
            simp [this] at hsk
          simp [h0, hnr, bne]
      · simp

/-- (G2) the HTLCs of the old commitment that are gone from the new one and whose resolution
    satisfies `T` carry exactly the amounts of the newly committed resolutions satisfying `T`. -/
theorem removed_sum {c : Chain} {own other : Log} {iE iO : Nat} (inc : Bool) (newKeys : List HKey)
    (T : Entry → Bool)
    (hE : LogOK own other) (hO : LogOK other own)
    (covE : ∀ e ∈ own.entries, e.onChain c = true → e.logIndex < iE)
    (hp : parentsOk c own.entries (resolutions (viewOf other iO)) = true)
    (hnew : ∀ e ∈ own.entries, e.isAdd = true → newKeys.contains (ekey inc e) =
      (decide (e.logIndex < iE) && !((resolutions (viewOf other iO)).map Entry.parent).contains e.htlcIndex)) :
    ksum (((own.entries.filter (onLive c other.entries)).map (ekey inc)).filter
      (fun k => !newKeys.contains k &&
        (((resolutions other.entries).filter T).map Entry.parent).contains k.2.1)) =
    sumBy Entry.amt ((newRes c (viewOf other iO)).filter T) := by
  rw [ksum_entries]
  have hsk := sum_skipped (adds own.entries) ((newRes c (viewOf other iO)).filter T) hE.uniq
    (by
      have : ((newRes c (viewOf other iO)).filter T).Sublist (resolutions other.entries) := by
        unfold newRes resolutions viewOf
        exact (List.filter_sublist.trans List.filter_sublist).trans (List.Sublist.filter _ List.filter_sublist)
      exact List.Nodup.sublist (List.Sublist.map _ this) hO.resPar)
    (by
      intro r hr
      have hr1 := (List.mem_filter.mp hr).1
      have hr2 := (List.mem_filter.mp hr1).1
      have hr3 := List.mem_filter.mp hr2
      have hr4 := (List.mem_filter.mp hr3.1).1
      obtain ⟨a, ha, hadd, hi, hamt, _⟩ := hO.resAdd r hr4 hr3.2
      exact ⟨a, List.mem_filter.mpr ⟨ha, hadd⟩, hi, hamt⟩)
  rw [← hsk]
  unfold adds
  rw [List.filter_filter]
  apply sumBy_filter_congr
  intro e he
  cases hadd : e.isAdd
  · simp [onLive, hadd]
  · simp only [Bool.and_true, ekey]
    rw [show newKeys.contains (inc, e.htlcIndex, e.amt) = newKeys.contains (ekey inc e) from rfl, hnew e he hadd]
    rw [Bool.eq_iff_iff]
    constructor
    · intro hall
      simp only [Bool.and_eq_true] at hall
      have hl := hall.1
      have hnn := hall.2.1
      have hcon := hall.2.2
      have hmem : e.htlcIndex ∈ ((resolutions other.entries).filter T).map Entry.parent := by simpa using hcon
      obtain ⟨r, hrT, hpar⟩ := List.mem_map.mp hmem
      have hrres := (List.mem_filter.mp hrT).1
      have hT := (List.mem_filter.mp hrT).2
      have hrO := (List.mem_filter.mp hrres).1
      have hresr := (List.mem_filter.mp hrres).2
      simp only [onLive, hadd, Bool.true_and, Bool.and_eq_true, bne_iff_ne, ne_eq, Bool.not_eq_true'] at hl
      have hin : e.logIndex < iE := covE e he (by simp [Entry.onChain, hl.1])
      -- the resolution in the view is `r`
      have hsk' : e.htlcIndex ∈ (resolutions (viewOf other iO)).map Entry.parent := by
        cases hc2 : ((resolutions (viewOf other iO)).map Entry.parent).contains e.htlcIndex
        · rw [hc2] at hnn; simp [hin] at hnn
        · simpa using hc2
      obtain ⟨r', hr', hpar'⟩ := List.mem_map.mp hsk'
      have hr'res := List.mem_filter.mp hr'
      have hr'O := (List.mem_filter.mp hr'res.1).1
      have : r' = r := nodup_map_inj Entry.parent (resolutions other.entries) hO.resPar r' r
        (List.mem_filter.mpr ⟨hr'O, hr'res.2⟩) hrres (by rw [hpar', hpar])
      subst this
      have h0 : r'.rmvH c = 0 := by
        by_cases hne : r'.rmvH c = 0
        · exact hne
        · have : resolvedOn c other.entries e.htlcIndex = true :=
            resolvedOn_iff.mpr ⟨r', hrO, hresr, hpar, hne⟩
          rw [this] at hl; exact absurd hl.2 (by simp)
      have : e.htlcIndex ∈ ((newRes c (viewOf other iO)).filter T).map Entry.parent := by
        rw [← hpar]
        apply List.mem_map_of_mem
        apply List.mem_filter.mpr
        refine ⟨?_, hT⟩
        unfold newRes
        exact List.mem_filter.mpr ⟨hr', by simp [h0]⟩
      simpa using this
    · intro hcon
      have hmem : e.htlcIndex ∈ ((newRes c (viewOf other iO)).filter T).map Entry.parent := by simpa using hcon
      obtain ⟨r, hrT, hpar⟩ := List.mem_map.mp hmem
      have hrn := (List.mem_filter.mp hrT).1
      have hT := (List.mem_filter.mp hrT).2
      unfold newRes at hrn
      have hrv := (List.mem_filter.mp hrn).1
      have h0 : r.rmvH c = 0 := by simpa using (List.mem_filter.mp hrn).2
      have hrres := List.mem_filter.mp hrv
      have hrO := (List.mem_filter.mp hrres.1).1
      obtain ⟨a, hl, hne⟩ := parentsOk_spec hp hrv
      have hae : a = e := lookupHtlc_unique hE.uniq hl he hadd hpar.symm
      subst hae
      have hnr : resolvedOn c other.entries a.htlcIndex = false := by
        apply Bool.eq_false_iff.mpr
        intro hr
        obtain ⟨r2, hr2O, hres2, hpar2, hne2⟩ := resolvedOn_iff.mp hr
        have : r2 = r := nodup_map_inj Entry.parent (resolutions other.entries) hO.resPar r2 r
          (List.mem_filter.mpr ⟨hr2O, hres2⟩) (List.mem_filter.mpr ⟨hrO, hrres.2⟩) (by rw [hpar2, hpar])
        subst this
        exact hne2 h0
      have hin : a.logIndex < iE := covE a he (by simp [Entry.onChain, hne])
      have hsk' : a.htlcIndex ∈ (resolutions (viewOf other iO)).map Entry.parent := by
        rw [← hpar]; exact List.mem_map_of_mem hrv
      have hf : (((resolutions other.entries).filter T).map Entry.parent).contains a.htlcIndex = true := by
        have : a.htlcIndex ∈ ((resolutions other.entries).filter T).map Entry.parent := by
          rw [← hpar]
          exact List.mem_map_of_mem (List.mem_filter.mpr ⟨List.mem_filter.mpr ⟨hrO, hrres.2⟩, hT⟩)
        simpa using this
      have hc3 : ((resolutions (viewOf other iO)).map Entry.parent).contains a.htlcIndex = true := by simpa using hsk'
      rw [hc3, hf]
      simp [onLive, hadd, hne, hnr, hin]


/-! ### balance moves over the HTLC sets of consecutive commitments -/

/-- `h` is (by identity and amount) one of the HTLCs `hs`. -/
def hasHtlc (hs : List Htlc) (h : Htlc) : Bool := (hs.map hkey).contains (hkey h)
/-- HTLC `idx` has a fail / malformed-fail (resp. a settle) among the resolutions of `log`. -/
def failedIn (log : List Entry) (idx : Nat) : Bool :=
  (((resolutions log).filter (fun r => r.ty != .settle)).map Entry.parent).contains idx
def settledIn (log : List Entry) (idx : Nat) : Bool :=
  (((resolutions log).filter (fun r => r.ty == .settle)).map Entry.parent).contains idx
def amtOf (hs : List Htlc) : Nat := sumBy Htlc.amt hs

theorem live_mem_keys {inc : Bool} {E rs : List Entry} {i : Nat} (hu : UniqueAdds E) {e : Entry} (he : e ∈ E)
    (hadd : e.isAdd = true) :
    ((liveAdds (E.filter (fun e => decide (e.logIndex < i))) rs).map (ekey inc)).contains (ekey inc e) =
      (decide (e.logIndex < i) && !(rs.map Entry.parent).contains e.htlcIndex) := by
  rw [Bool.eq_iff_iff]
  simp only [List.contains_iff_mem, List.mem_map, liveAdds, List.mem_filter, Bool.and_eq_true]
  constructor
  · rintro ⟨e', ⟨⟨he', hlt⟩, hadd', hns⟩, hk⟩
    simp only [ekey, Prod.mk.injEq, true_and] at hk
    have : e' = e := nodup_map_inj Entry.htlcIndex (adds E) hu e' e
      (List.mem_filter.mpr ⟨he', hadd'⟩) (List.mem_filter.mpr ⟨he, hadd⟩) hk.1
    rw [← this]; exact ⟨hlt, hns⟩
  · rintro ⟨hlt, hns⟩
    exact ⟨e, ⟨⟨he, hlt⟩, hadd, hns⟩, rfl⟩

theorem not_mem_other_dir (inc : Bool) (l : List Entry) (e : Entry) :
    (l.map (ekey (!inc))).contains (ekey inc e) = false := by
  apply Bool.eq_false_iff.mpr
  intro h
  have : ekey inc e ∈ l.map (ekey (!inc)) := by simpa using h
  obtain ⟨x, _, hx⟩ := List.mem_map.mp this
  cases inc <;> simp [ekey] at hx

/-- one side of `balance_moves` over HTLC sets.  `E`/`O` = the log whose adds are the HTLCs in
    question / the log holding their resolutions; `inc` = whether those HTLCs are incoming. -/
theorem side_sums {n : Node} {c : Chain} {iL iR : Nat} {cm : Commit} {n' : Node} (hI : Inv n) (hT : TH n c)
    (covL : ∀ e ∈ n.logL.entries, e.onChain c = true → e.logIndex < iL)
    (covR : ∀ e ∈ n.logR.entries, e.onChain c = true → e.logIndex < iR)
    {hL hR : Nat} (hf : fetchCommitmentView n c iL hL iR hR = .ok (cm, n')) :
    let old := (n.chain c).tip
    -- outgoing HTLCs
    amtOf (cm.htlcs.filter (fun h => !h.incoming && !hasHtlc old.htlcs h)) = newlyAdded c iL n.logL.entries ∧
    amtOf (old.htlcs.filter (fun h => !h.incoming && !hasHtlc cm.htlcs h && failedIn n.logR.entries h.idx)) =
      failCredit c (resolutions (viewOf n.logR iR)) ∧
    amtOf (old.htlcs.filter (fun h => !h.incoming && !hasHtlc cm.htlcs h && settledIn n.logR.entries h.idx)) =
      settleCredit c (resolutions (viewOf n.logR iR)) ∧
    -- incoming HTLCs
    amtOf (cm.htlcs.filter (fun h => h.incoming && !hasHtlc old.htlcs h)) = newlyAdded c iR n.logR.entries ∧
    amtOf (old.htlcs.filter (fun h => h.incoming && !hasHtlc cm.htlcs h && failedIn n.logL.entries h.idx)) =
      failCredit c (resolutions (viewOf n.logL iL)) ∧
    amtOf (old.htlcs.filter (fun h => h.incoming && !hasHtlc cm.htlcs h && settledIn n.logL.entries h.idx)) =
      settleCredit c (resolutions (viewOf n.logL iL)) := by
  intro old
  obtain ⟨r, hcv, _⟩ := fetch_ok_parts hf
  have vf := computeView_ok hcv
  have hnew := fetch_keys hf
  have hold : old.htlcs.map hkey = specOf c n.logL.entries n.logR.entries := hT
  have dL : addDebit c (liveAdds (viewOf n.logL iL) (resolutions (viewOf n.logR iR))) = newlyAdded c iL n.logL.entries :=
    debit_eq iL hI.logL.uniq vf.pR
  have dR : addDebit c (liveAdds (viewOf n.logR iR) (resolutions (viewOf n.logL iL))) = newlyAdded c iR n.logR.entries :=
    debit_eq iR hI.logR.uniq vf.pL
  -- credits as sums over the newly committed resolutions
  have scr : ∀ v : List Entry, settleCredit c (resolutions v) = sumBy Entry.amt ((newRes c v).filter (fun r => r.ty == .settle)) := by
    intro v; unfold settleCredit newRes; rw [List.filter_filter]
  have fcr : ∀ v : List Entry, failCredit c (resolutions v) = sumBy Entry.amt ((newRes c v).filter (fun r => r.ty != .settle)) := by
    intro v; unfold failCredit newRes; rw [List.filter_filter]
  unfold amtOf hasHtlc
  refine ⟨?_, ?_, ?_, ?_, ?_, ?_⟩
  · -- added outgoing
    refine Eq.trans (sum_htlcs_keys (fun k => !k.1 && !(old.htlcs.map hkey).contains k) _) ?_
    rw [hnew, hold, List.filter_append, ksum_append,
      filter_keys_wrong_dir true _ _ (by intro k hk; simp [hk]), ← dL]
    have := added_sum (c := c) (E := n.logL.entries) (O := n.logR.entries) (iE := iL) (iO := iR) false
      (specOf c n.logL.entries n.logR.entries) covR (fun e he ha => mem_spec_out hI.logL.uniq he ha)
    unfold viewOf
    rw [← this]
    simp only [ksum, sumBy, Nat.add_zero]
    congr 1
    apply List.filter_congr
    intro k hk
    obtain ⟨e, _, rfl⟩ := List.mem_map.mp hk
    simp [ekey]
  · -- removed outgoing, failed
    refine Eq.trans (sum_htlcs_keys (fun k => !k.1 && !(cm.htlcs.map hkey).contains k && failedIn n.logR.entries k.2.1) _) ?_
    rw [hold]
    unfold specOf
    rw [List.filter_append, ksum_append, filter_keys_wrong_dir true _ _ (by intro k hk; simp [hk]), fcr]
    have := removed_sum (c := c) (own := n.logL) (other := n.logR) (iE := iL) (iO := iR) false (cm.htlcs.map hkey)
      (fun r => r.ty != .settle) hI.logL hI.logR covL vf.pR (by
        intro e he ha
        rw [hnew, List.contains_append]
        have := not_mem_other_dir false (liveAdds (viewOf n.logR iR) (resolutions (viewOf n.logL iL))) e
        simp only [Bool.not_false] at this
        rw [this, Bool.or_false]
        exact live_mem_keys hI.logL.uniq he ha)
    rw [← this]
    simp only [ksum, sumBy, Nat.add_zero]
    congr 1
    apply List.filter_congr
    intro k hk
    obtain ⟨e, _, rfl⟩ := List.mem_map.mp hk
    simp [ekey, failedIn]
  · -- removed outgoing, settled
    refine Eq.trans (sum_htlcs_keys (fun k => !k.1 && !(cm.htlcs.map hkey).contains k && settledIn n.logR.entries k.2.1) _) ?_
    rw [hold]
    unfold specOf
    rw [List.filter_append, ksum_append, filter_keys_wrong_dir true _ _ (by intro k hk; simp [hk]), scr]
    have := removed_sum (c := c) (own := n.logL) (other := n.logR) (iE := iL) (iO := iR) false (cm.htlcs.map hkey)
      (fun r => r.ty == .settle) hI.logL hI.logR covL vf.pR (by
        intro e he ha
        rw [hnew, List.contains_append]
        have := not_mem_other_dir false (liveAdds (viewOf n.logR iR) (resolutions (viewOf n.logL iL))) e
        simp only [Bool.not_false] at this
        rw [this, Bool.or_false]
        exact live_mem_keys hI.logL.uniq he ha)
    rw [← this]
    simp only [ksum, sumBy, Nat.add_zero]
    congr 1
    apply List.filter_congr
    intro k hk
    obtain ⟨e, _, rfl⟩ := List.mem_map.mp hk
    simp [ekey, settledIn]
  · -- added incoming
    refine Eq.trans (sum_htlcs_keys (fun k => k.1 && !(old.htlcs.map hkey).contains k) _) ?_
    rw [hnew, hold, List.filter_append, ksum_append,
      filter_keys_wrong_dir false _ _ (by intro k hk; simp [hk]), ← dR]
    have := added_sum (c := c) (E := n.logR.entries) (O := n.logL.entries) (iE := iR) (iO := iL) true
      (specOf c n.logL.entries n.logR.entries) covL (fun e he ha => mem_spec_in hI.logR.uniq he ha)
    unfold viewOf
    rw [← this]
    simp only [ksum, sumBy, Nat.zero_add]
    congr 1
    apply List.filter_congr
    intro k hk
    obtain ⟨e, _, rfl⟩ := List.mem_map.mp hk
    simp [ekey]
  · -- removed incoming, failed
    refine Eq.trans (sum_htlcs_keys (fun k => k.1 && !(cm.htlcs.map hkey).contains k && failedIn n.logL.entries k.2.1) _) ?_
    rw [hold]
    unfold specOf
    rw [List.filter_append, ksum_append, filter_keys_wrong_dir false _ _ (by intro k hk; simp [hk]), fcr]
    have := removed_sum (c := c) (own := n.logR) (other := n.logL) (iE := iR) (iO := iL) true (cm.htlcs.map hkey)
      (fun r => r.ty != .settle) hI.logR hI.logL covR vf.pL (by
        intro e he ha
        rw [hnew, List.contains_append]
        have := not_mem_other_dir true (liveAdds (viewOf n.logL iL) (resolutions (viewOf n.logR iR))) e
        simp only [Bool.not_true] at this
        rw [this, Bool.false_or]
        exact live_mem_keys hI.logR.uniq he ha)
    rw [← this]
    simp only [ksum, sumBy, Nat.zero_add]
    congr 1
    apply List.filter_congr
    intro k hk
    obtain ⟨e, _, rfl⟩ := List.mem_map.mp hk
    simp [ekey, failedIn]
  · -- removed incoming, settled
    refine Eq.trans (sum_htlcs_keys (fun k => k.1 && !(cm.htlcs.map hkey).contains k && settledIn n.logL.entries k.2.1) _) ?_
    rw [hold]
    unfold specOf
    rw [List.filter_append, ksum_append, filter_keys_wrong_dir false _ _ (by intro k hk; simp [hk]), scr]
    have := removed_sum (c := c) (own := n.logR) (other := n.logL) (iE := iR) (iO := iL) true (cm.htlcs.map hkey)
      (fun r => r.ty == .settle) hI.logR hI.logL covR vf.pL (by
        intro e he ha
        rw [hnew, List.contains_append]
        have := not_mem_other_dir true (liveAdds (viewOf n.logL iL) (resolutions (viewOf n.logR iR))) e
        simp only [Bool.not_true] at this
        rw [this, Bool.false_or]
        exact live_mem_keys hI.logR.uniq he ha)
    rw [← this]
    simp only [ksum, sumBy, Nat.zero_add]
    congr 1
    apply List.filter_congr
    intro k hk
    obtain ⟨e, _, rfl⟩ := List.mem_map.mp hk
    simp [ekey, settledIn]

theorem sign_ok_fetch {n n' : Node} {sv : Option SigView} (h : n.sign = (.ok, n', sv)) :
    ∃ cm n1, sanity n n.chainL.tail.theirMsg n.logL.logIndex .rem .none [] [] = .ok ∧
      fetchCommitmentView n .rem n.logL.logIndex n.logL.htlcCounter n.chainL.tail.theirMsg n.chainL.tail.theirHtlc = .ok (cm, n1) ∧
      n'.chainR.tip = cm := by
  unfold Node.sign at h
  split at h
  · simp at h
  · simp only at h
    split at h
    · rename_i hs
      split at h
      · rename_i hfe
        simp only [Prod.mk.injEq] at h
        exact absurd h.1 (fetch_err hfe)
      · rename_i cm n1 hf
        simp only [Prod.mk.injEq, true_and] at h
        obtain ⟨rfl, _⟩ := h
        exact ⟨cm, n1, hs, hf, tip_push n1.chainR cm⟩
    · rename_i hne
      simp only [Prod.mk.injEq] at h
      exact absurd h.1 (by intro e; exact hne e)

theorem receiveCommit_ok_fetch {n n' : Node} {sv : SigView} (h : n.receiveCommit sv = (.ok, n')) :
    ∃ cm n1, sanity n n.logR.logIndex n.chainR.tail.ourMsg .loc .none [] [] = .ok ∧
      fetchCommitmentView n .loc n.chainR.tail.ourMsg n.chainR.tail.ourHtlc n.logR.logIndex n.logR.htlcCounter = .ok (cm, n1) ∧
      n'.chainL.tip = cm := by
  unfold Node.receiveCommit at h
  simp only at h
  split at h
  · rename_i hs
    split at h
    · rename_i hfe
      simp only [Prod.mk.injEq] at h
      exact absurd h.1 (fetch_err hfe)
    · rename_i cm n1 hf
      split at h
      · simp only [Prod.mk.injEq, true_and] at h
        subst h
        exact ⟨cm, n1, hs, hf, tip_push n1.chainL cm⟩
      · simp at h
  · rename_i hne
    simp only [Prod.mk.injEq] at h
    exact absurd h.1 (by intro e; exact hne e)

end LndModel.C01
