/-
C01 — the node invariant `Inv` and its preservation by every API operation.
-/
import LndModel.C01.Inv
set_option linter.unusedSimpArgs false

namespace LndModel.C01

/-- the inductive invariant of one node. -/
structure Inv (n : Node) : Prop where
  logL : LogOK n.logL n.logR
  logR : LogOK n.logR n.logL
  covL : ∀ e ∈ n.logL.entries, e.onChain .loc = true → e.logIndex < n.chainR.tail.ourMsg
  covR : ∀ e ∈ n.logR.entries, e.onChain .rem = true → e.logIndex < n.chainL.tail.theirMsg
  monoL : (n.chainL.all.map Commit.theirMsg).Pairwise (· ≤ ·)
  boundL : ∀ cm ∈ n.chainL.all, cm.theirMsg ≤ n.logR.logIndex
  monoR : (n.chainR.all.map Commit.ourMsg).Pairwise (· ≤ ·)
  boundR : ∀ cm ∈ n.chainR.all, cm.ourMsg ≤ n.logL.logIndex
  j1 : ∀ c, J1 n c
  cons : ∀ c, ∀ cm ∈ (n.chain c).all, Conserved n.cfg cm ∧ outsTotal cm.outs + cm.fee ≤ n.cfg.capacity

theorem tip_push (ch : CChain) (cm : Commit) : ({ ch with pend := ch.pend ++ [cm] } : CChain).tip = cm := by
  simp [CChain.tip]

theorem all_push (ch : CChain) (cm : Commit) :
    ({ ch with pend := ch.pend ++ [cm] } : CChain).all = ch.all ++ [cm] := by
  simp [CChain.all]

theorem mono_push {f : Commit → Nat} {l : List Commit} {cm : Commit} {b : Nat}
    (hm : (l.map f).Pairwise (· ≤ ·)) (hb : ∀ x ∈ l, f x ≤ b) (hc : f cm = b) :
    ((l ++ [cm]).map f).Pairwise (· ≤ ·) := by
  rw [List.map_append, List.pairwise_append]
  refine ⟨hm, by simp, ?_⟩
  intro a ha b' hb'
  simp only [List.map_cons, List.map_nil, List.mem_singleton] at hb'
  obtain ⟨x, hx, rfl⟩ := List.mem_map.mp ha
  rw [hb', hc]; exact hb x hx

theorem inv_commit_rem {n : Node} {hL hR : Nat} {cm : Commit} {n' : Node} (hI : Inv n)
    (hs : sanity n n.chainL.tail.theirMsg n.logL.logIndex .rem .none [] [] = .ok)
    (hf : fetchCommitmentView n .rem n.logL.logIndex hL n.chainL.tail.theirMsg hR = .ok (cm, n')) :
    Inv { n' with chainR := { n'.chainR with pend := n'.chainR.pend ++ [cm] } } := by
  have covL : ∀ e ∈ n.logL.entries, e.onChain .rem = true → e.logIndex < n.logL.logIndex :=
    fun e he _ => hI.logL.idxBound e he
  have ff := fetch_step hI.logL hI.logR covL hI.covR (hI.j1 .rem) hs hf
  have hn := ff.node
  subst hn
  have hh : (n.chain .rem).tip.height + 1 = n.chainR.tip.height + 1 := rfl
  constructor
  · exact logOK_commit hI.logL hI.logR ff.pL
  · exact logOK_commit hI.logR hI.logL ff.pR
  · intro e he ho
    simp only [commitLog_eq, List.mem_map] at he
    obtain ⟨e0, he0, rfl⟩ := he
    rw [cm1_onChain_other _ _ _ _ _ (by decide)] at ho
    simpa using hI.covL e0 he0 ho
  · intro e he ho
    simp only [commitLog_eq, List.mem_map] at he
    obtain ⟨e0, he0, rfl⟩ := he
    rcases cm1_onChain_same _ _ _ _ ho with h1 | h1
    · simpa using hI.covR e0 he0 h1
    · simpa using h1
  · exact hI.monoL
  · exact hI.boundL
  · show ((CChain.all { tail := n.chainR.tail, pend := n.chainR.pend ++ [cm] }).map Commit.ourMsg).Pairwise (· ≤ ·)
    have := all_push n.chainR cm
    skip
    rw [this]
    exact mono_push hI.monoR hI.boundR ff.idx.1
  · intro x hx
    have := all_push n.chainR cm
    skip
    simp only [this, List.mem_append, List.mem_singleton] at hx
    rcases hx with hx | rfl
    · exact hI.boundR x hx
    · simp [ff.idx.1]
  · intro c
    cases c
    · have := hI.j1 .loc
      unfold J1 at this ⊢
      simp only [Node.chain, addsOn_append, resOn_append] at this ⊢
      rw [addsOn_commitLog_other _ _ _ _ (by decide), addsOn_commitLog_other _ _ _ _ (by decide),
          resOn_commitLog_other _ _ _ _ (by decide), resOn_commitLog_other _ _ _ _ (by decide)]
      exact this
    · have := ff.j1
      unfold J1
      simp only [Node.chain]
      have ht := tip_push n.chainR cm
      skip
      rw [ht]
      exact this
  · intro c x hx
    cases c
    · exact hI.cons .loc x hx
    · have := all_push n.chainR cm
      simp only [Node.chain] at hx this
      simp only [this, List.mem_append, List.mem_singleton] at hx
      rcases hx with hx | rfl
      · exact hI.cons .rem x hx
      · exact ⟨ff.cons, ff.cap⟩

theorem inv_commit_loc {n : Node} {hL hR : Nat} {cm : Commit} {n' : Node} (hI : Inv n)
    (hs : sanity n n.logR.logIndex n.chainR.tail.ourMsg .loc .none [] [] = .ok)
    (hf : fetchCommitmentView n .loc n.chainR.tail.ourMsg hL n.logR.logIndex hR = .ok (cm, n')) :
    Inv { n' with chainL := { n'.chainL with pend := n'.chainL.pend ++ [cm] } } := by
  have covR : ∀ e ∈ n.logR.entries, e.onChain .loc = true → e.logIndex < n.logR.logIndex :=
    fun e he _ => hI.logR.idxBound e he
  have ff := fetch_step hI.logL hI.logR hI.covL covR (hI.j1 .loc) hs hf
  have hn := ff.node
  subst hn
  constructor
  · exact logOK_commit hI.logL hI.logR ff.pL
  · exact logOK_commit hI.logR hI.logL ff.pR
  · intro e he ho
    simp only [commitLog_eq, List.mem_map] at he
    obtain ⟨e0, he0, rfl⟩ := he
    rcases cm1_onChain_same _ _ _ _ ho with h1 | h1
    · simpa using hI.covL e0 he0 h1
    · simpa using h1
  · intro e he ho
    simp only [commitLog_eq, List.mem_map] at he
    obtain ⟨e0, he0, rfl⟩ := he
    rw [cm1_onChain_other _ _ _ _ _ (by decide)] at ho
    simpa using hI.covR e0 he0 ho
  · show ((CChain.all { tail := n.chainL.tail, pend := n.chainL.pend ++ [cm] }).map Commit.theirMsg).Pairwise (· ≤ ·)
    have := all_push n.chainL cm
    skip
    rw [this]
    exact mono_push hI.monoL hI.boundL ff.idx.2.1
  · intro x hx
    have := all_push n.chainL cm
    skip
    simp only [this, List.mem_append, List.mem_singleton] at hx
    rcases hx with hx | rfl
    · exact hI.boundL x hx
    · simp [ff.idx.2.1]
  · exact hI.monoR
  · exact hI.boundR
  · intro c
    cases c
    · have := ff.j1
      unfold J1
      simp only [Node.chain]
      have ht := tip_push n.chainL cm
      skip
      rw [ht]
      exact this
    · have := hI.j1 .rem
      unfold J1 at this ⊢
      simp only [Node.chain, addsOn_append, resOn_append] at this ⊢
      rw [addsOn_commitLog_other _ _ _ _ (by decide), addsOn_commitLog_other _ _ _ _ (by decide),
          resOn_commitLog_other _ _ _ _ (by decide), resOn_commitLog_other _ _ _ _ (by decide)]
      exact this
  · intro c x hx
    cases c
    · have := all_push n.chainL cm
      simp only [Node.chain] at hx this
      simp only [this, List.mem_append, List.mem_singleton] at hx
      rcases hx with hx | rfl
      · exact hI.cons .loc x hx
      · exact ⟨ff.cons, ff.cap⟩
    · exact hI.cons .rem x hx

/-! ### appending to a log -/

def Entry.fresh (e : Entry) : Prop := e.addL = 0 ∧ e.addR = 0 ∧ e.rmvL = 0 ∧ e.rmvR = 0

theorem fresh_not_onChain {e : Entry} (h : e.fresh) (c : Chain) : e.onChain c = false := by
  obtain ⟨h1, h2, h3, h4⟩ := h
  cases c <;> simp [Entry.onChain, Entry.addH, Entry.rmvH, *]

theorem addsOn_snoc_fresh {e : Entry} (h : e.fresh) (c : Chain) (E : List Entry) :
    addsOn c (E ++ [e]) = addsOn c E := by
  obtain ⟨h1, h2, h3, h4⟩ := h
  rw [addsOn_append]
  cases c <;> simp [addsOn, List.filter, Entry.addH, sumBy, *]

theorem resOn_snoc_fresh {e : Entry} (h : e.fresh) (c : Chain) (E : List Entry) :
    resOn c (E ++ [e]) = resOn c E := by
  obtain ⟨h1, h2, h3, h4⟩ := h
  rw [resOn_append]
  cases c <;> simp [resOn, List.filter, Entry.rmvH, sumBy, *]

theorem inv_of_appendL {n n' : Node} (hI : Inv n) (pd : Entry) (hz : pd.fresh)
    (hcfg : n'.cfg = n.cfg) (hcL : n'.chainL = n.chainL) (hcR : n'.chainR = n.chainR)
    (hE : n'.logL.entries = n.logL.entries ++ [pd]) (hidx : n'.logL.logIndex = n.logL.logIndex + 1)
    (hER : n'.logR.entries = n.logR.entries) (hiR : n'.logR.logIndex = n.logR.logIndex)
    (h1 : LogOK n'.logL n'.logR) (h2 : LogOK n'.logR n'.logL) : Inv n' := by
  refine ⟨h1, h2, ?_, ?_, ?_, ?_, ?_, ?_, ?_, ?_⟩
  · intro e he ho
    rw [hE] at he
    rcases List.mem_append.mp he with he | he
    · rw [hcR]; exact hI.covL e he ho
    · simp only [List.mem_singleton] at he; subst he
      rw [fresh_not_onChain hz] at ho; cases ho
  · intro e he ho
    rw [hER] at he; rw [hcL]; exact hI.covR e he ho
  · rw [hcL]; exact hI.monoL
  · rw [hcL, hiR]; exact hI.boundL
  · rw [hcR]; exact hI.monoR
  · rw [hcR, hidx]; intro cm hcm; have := hI.boundR cm hcm; omega
  · intro c
    have := hI.j1 c
    unfold J1 at this ⊢
    have hch : n'.chain c = n.chain c := by cases c <;> simp [Node.chain, hcL, hcR]
    rw [hch, hcfg, hE, hER]
    simp only [addsOn_append, resOn_append] at this ⊢
    rw [← addsOn_append, ← resOn_append, addsOn_snoc_fresh hz, resOn_snoc_fresh hz]
    exact this
  · intro c cm hcm
    have hch : n'.chain c = n.chain c := by cases c <;> simp [Node.chain, hcL, hcR]
    rw [hch] at hcm; rw [hcfg]; exact hI.cons c cm hcm

theorem inv_of_appendR {n n' : Node} (hI : Inv n) (pd : Entry) (hz : pd.fresh)
    (hcfg : n'.cfg = n.cfg) (hcL : n'.chainL = n.chainL) (hcR : n'.chainR = n.chainR)
    (hE : n'.logR.entries = n.logR.entries ++ [pd]) (hidx : n'.logR.logIndex = n.logR.logIndex + 1)
    (hEL : n'.logL.entries = n.logL.entries) (hiL : n'.logL.logIndex = n.logL.logIndex)
    (h1 : LogOK n'.logL n'.logR) (h2 : LogOK n'.logR n'.logL) : Inv n' := by
  refine ⟨h1, h2, ?_, ?_, ?_, ?_, ?_, ?_, ?_, ?_⟩
  · intro e he ho
    rw [hEL] at he; rw [hcR]; exact hI.covL e he ho
  · intro e he ho
    rw [hE] at he
    rcases List.mem_append.mp he with he | he
    · rw [hcL]; exact hI.covR e he ho
    · simp only [List.mem_singleton] at he; subst he
      rw [fresh_not_onChain hz] at ho; cases ho
  · rw [hcL]; exact hI.monoL
  · rw [hcL, hidx]; intro cm hcm; have := hI.boundL cm hcm; omega
  · rw [hcR]; exact hI.monoR
  · rw [hcR, hiL]; exact hI.boundR
  · intro c
    have := hI.j1 c
    unfold J1 at this ⊢
    have hch : n'.chain c = n.chain c := by cases c <;> simp [Node.chain, hcL, hcR]
    rw [hch, hcfg, hE, hEL]
    rw [← List.append_assoc, addsOn_snoc_fresh hz, resOn_snoc_fresh hz]
    exact this
  · intro c cm hcm
    have hch : n'.chain c = n.chain c := by cases c <;> simp [Node.chain, hcL, hcR]
    rw [hch] at hcm; rw [hcfg]; exact hI.cons c cm hcm

theorem adds_snoc (E : List Entry) (e : Entry) :
    adds (E ++ [e]) = if e.isAdd then adds E ++ [e] else adds E := by
  unfold adds; rw [List.filter_append]; cases h : e.isAdd <;> simp [List.filter, h]

theorem resolutions_snoc (E : List Entry) (e : Entry) :
    resolutions (E ++ [e]) = if e.isRes then resolutions E ++ [e] else resolutions E := by
  unfold resolutions; rw [List.filter_append]; cases h : e.isRes <;> simp [List.filter, h]

/-- appending an Add with the next htlc index. -/
theorem logOK_appendHtlc {own other : Log} {pd : Entry} (h1 : LogOK own other) (h2 : LogOK other own)
    (hadd : pd.ty = .add) (hli : pd.logIndex = own.logIndex) (hhi : pd.htlcIndex = own.htlcCounter) :
    LogOK (own.appendHtlc pd) other ∧ LogOK other (own.appendHtlc pd) := by
  have hisAdd : pd.isAdd = true := by simp [Entry.isAdd, hadd]
  have hnotRes : pd.isRes = false := isAdd_not_isRes pd hisAdd
  constructor
  · constructor
    · intro e he
      simp only [Log.appendHtlc, List.mem_append, List.mem_singleton] at he ⊢
      rcases he with he | rfl
      · have := h1.idxBound e he; omega
      · omega
    · show UniqueAdds (own.entries ++ [pd])
      unfold UniqueAdds
      rw [adds_snoc, hisAdd]
      simp only [if_true, List.map_append, List.map_cons, List.map_nil]
      rw [List.nodup_append]
      refine ⟨h1.uniq, by simp, ?_⟩
      intro a ha b hb
      simp only [List.mem_singleton] at hb
      subst hb
      obtain ⟨x, hx, rfl⟩ := List.mem_map.mp ha
      have hx' := List.mem_filter.mp hx
      have := h1.addLt x hx'.1 hx'.2
      omega
    · intro e he ha
      simp only [Log.appendHtlc, List.mem_append, List.mem_singleton] at he ⊢
      rcases he with he | rfl
      · have := h1.addLt e he ha; omega
      · omega
    · show ((resolutions (own.entries ++ [pd])).map Entry.parent).Nodup
      rw [resolutions_snoc, hnotRes]; exact h1.resPar
    · intro r hr hres
      simp only [Log.appendHtlc, List.mem_append, List.mem_singleton] at hr
      rcases hr with hr | rfl
      · exact h1.resMod r hr hres
      · rw [hnotRes] at hres; cases hres
    · intro r hr hres
      simp only [Log.appendHtlc, List.mem_append, List.mem_singleton] at hr
      rcases hr with hr | rfl
      · exact h1.resAdd r hr hres
      · rw [hnotRes] at hres; cases hres
  · constructor
    · exact h2.idxBound
    · exact h2.uniq
    · exact h2.addLt
    · exact h2.resPar
    · exact h2.resMod
    · intro r hr hres
      obtain ⟨a, ha, rest⟩ := h2.resAdd r hr hres
      exact ⟨a, by simp [Log.appendHtlc, ha], rest⟩

/-- appending a resolution of a not-yet-modified HTLC of the other log. -/
theorem logOK_appendRes {own other : Log} {pd h : Entry} {idx : Nat} (h1 : LogOK own other) (h2 : LogOK other own)
    (hres : pd.isRes = true) (hli : pd.logIndex = own.logIndex) (hpar : pd.parent = idx)
    (hfresh : pd.fresh) (hl : lookupHtlc other.entries idx = some h) (hamt : pd.amt = h.amt)
    (hmod : other.isModified idx = false) :
    LogOK (own.appendUpdate pd) (other.markModified idx) ∧ LogOK (other.markModified idx) (own.appendUpdate pd) := by
  have hnotAdd : pd.isAdd = false := isRes_not_isAdd pd hres
  obtain ⟨hmem, hhadd, hhidx⟩ := lookupHtlc_some hl
  have hnm : idx ∉ other.modified := by
    intro hc; simp [Log.isModified, hc] at hmod
  constructor
  · constructor
    · intro e he
      simp only [Log.appendUpdate, List.mem_append, List.mem_singleton] at he ⊢
      rcases he with he | rfl
      · have := h1.idxBound e he; omega
      · omega
    · show UniqueAdds (own.entries ++ [pd])
      unfold UniqueAdds; rw [adds_snoc, hnotAdd]; exact h1.uniq
    · intro e he ha
      simp only [Log.appendUpdate, List.mem_append, List.mem_singleton] at he ⊢
      rcases he with he | rfl
      · exact h1.addLt e he ha
      · rw [hnotAdd] at ha; cases ha
    · show ((resolutions (own.entries ++ [pd])).map Entry.parent).Nodup
      rw [resolutions_snoc, hres]
      simp only [if_true, List.map_append, List.map_cons, List.map_nil]
      rw [List.nodup_append]
      refine ⟨h1.resPar, by simp, ?_⟩
      intro a ha b hb
      simp only [List.mem_singleton] at hb
      subst hb
      obtain ⟨x, hx, rfl⟩ := List.mem_map.mp ha
      have hx' := List.mem_filter.mp hx
      have := h1.resMod x hx'.1 hx'.2
      intro heq; rw [heq, hpar] at this; exact hnm this
    · intro r hr hr'
      simp only [Log.appendUpdate, List.mem_append, List.mem_singleton] at hr
      simp only [Log.markModified, List.mem_cons]
      rcases hr with hr | rfl
      · right; exact h1.resMod r hr hr'
      · left; exact hpar
    · intro r hr hr'
      simp only [Log.appendUpdate, List.mem_append, List.mem_singleton] at hr
      rcases hr with hr | rfl
      · exact h1.resAdd r hr hr'
      · refine ⟨h, hmem, hhadd, by rw [hhidx, hpar], hamt.symm, ?_⟩
        intro c hne
        exfalso; apply hne
        obtain ⟨_, _, h3, h4⟩ := hfresh
        cases c <;> simp [Entry.rmvH, h3, h4]
  · constructor
    · exact h2.idxBound
    · exact h2.uniq
    · exact h2.addLt
    · exact h2.resPar
    · exact h2.resMod
    · intro r hr hr'
      obtain ⟨a, ha, rest⟩ := h2.resAdd r hr hr'
      exact ⟨a, by simp [Log.appendUpdate, ha], rest⟩

/-! ### add / resolve operations -/

theorem inv_addHTLC {n : Node} (hI : Inv n) (amt expiry hash : Nat) : Inv (n.addHTLC amt expiry hash).2 := by
  unfold Node.addHTLC
  simp only
  split
  · split
    · have := logOK_appendHtlc (pd := { ty := .add, amt := amt, logIndex := n.logL.logIndex, htlcIndex := n.logL.htlcCounter, expiry := expiry, hash := hash }) hI.logL hI.logR rfl rfl rfl
      exact inv_of_appendL hI _ ⟨rfl, rfl, rfl, rfl⟩ rfl rfl rfl rfl rfl rfl rfl this.1 this.2
    · exact hI
  · exact hI

theorem inv_receiveHTLC {n : Node} (hI : Inv n) (id amt expiry hash : Nat) :
    Inv (n.receiveHTLC id amt expiry hash).2 := by
  unfold Node.receiveHTLC
  simp only
  split
  · exact hI
  · split
    · have := logOK_appendHtlc (pd := { ty := .add, amt := amt, logIndex := n.logR.logIndex, htlcIndex := n.logR.htlcCounter, expiry := expiry, hash := hash }) hI.logR hI.logL rfl rfl rfl
      exact inv_of_appendR hI _ ⟨rfl, rfl, rfl, rfl⟩ rfl rfl rfl rfl rfl rfl rfl this.2 this.1
    · exact hI

theorem isRes_of_ty {ty : ETy} (h : ty = .settle ∨ ty = .fail ∨ ty = .malformed) (e : Entry) (he : e.ty = ty) :
    e.isRes = true := by
  rcases h with h | h | h <;> simp [Entry.isRes, he, h]

theorem inv_resolveLocal {n : Node} (hI : Inv n) (ty : ETy) (hty : ty = .settle ∨ ty = .fail ∨ ty = .malformed)
    (idx : Nat) (p : Bool) : Inv (n.resolveLocal ty idx p).2 := by
  unfold Node.resolveLocal
  split
  · exact hI
  · rename_i h hl
    simp only
    split
    · exact hI
    · rename_i hm
      split
      · exact hI
      · have := logOK_appendRes (pd := { ty := ty, amt := h.amt, logIndex := n.logL.logIndex, parent := idx, hash := h.hash }) (idx := idx) hI.logL hI.logR (isRes_of_ty hty _ rfl) rfl rfl ⟨rfl, rfl, rfl, rfl⟩ hl rfl
            (by simpa using hm)
        exact inv_of_appendL hI _ ⟨rfl, rfl, rfl, rfl⟩ rfl rfl rfl rfl rfl rfl rfl this.1 this.2

theorem inv_resolveRemote {n : Node} (hI : Inv n) (ty : ETy) (hty : ty = .settle ∨ ty = .fail ∨ ty = .malformed)
    (idx : Nat) (p : Bool) : Inv (n.resolveRemote ty idx p).2 := by
  unfold Node.resolveRemote
  split
  · exact hI
  · rename_i h hl
    simp only
    split
    · exact hI
    · rename_i hm
      split
      · exact hI
      · have := logOK_appendRes (pd := { ty := ty, amt := h.amt, logIndex := n.logR.logIndex, parent := idx, hash := h.hash }) (idx := idx) hI.logR hI.logL (isRes_of_ty hty _ rfl) rfl rfl ⟨rfl, rfl, rfl, rfl⟩ hl rfl
            (by simpa using hm)
        exact inv_of_appendR hI _ ⟨rfl, rfl, rfl, rfl⟩ rfl rfl rfl rfl rfl rfl rfl this.2 this.1

/-! ### fee updates -/

theorem addsOn_eq_adds (c : Chain) (E : List Entry) :
    addsOn c E = sumBy Entry.amt ((adds E).filter (fun e => e.addH c != 0)) := by
  unfold addsOn adds; rw [List.filter_filter]
  apply sumBy_filter_congr; intro e _; exact Bool.and_comm _ _

theorem resOn_eq_res (c : Chain) (E : List Entry) :
    resOn c E = sumBy Entry.amt ((resolutions E).filter (fun e => e.rmvH c != 0)) := by
  unfold resOn resolutions; rw [List.filter_filter]
  apply sumBy_filter_congr; intro e _; exact Bool.and_comm _ _

/-- what coalescing a fee update does to the (reversed) entry list. -/
theorem setLastFee_spec (a : Nat) : ∀ (l l' : List Entry), setLastFee a l = some l' →
    adds l' = adds l ∧ resolutions l' = resolutions l ∧
    ∀ e' ∈ l', ∃ e ∈ l, e'.logIndex = e.logIndex ∧ ∀ c, e'.onChain c = e.onChain c := by
  intro l
  induction l with
  | nil => intro l' h; simp [setLastFee] at h
  | cons x xs ih =>
    intro l' h
    unfold setLastFee at h
    split at h
    · rename_i hfee
      split at h
      · simp only [Option.some.injEq] at h; subst h
        have hna : x.isAdd = false := by
          cases hty : x.ty <;> simp_all [Entry.isAdd, Entry.isFee]
        have hnr : x.isRes = false := by
          cases hty : x.ty <;> simp_all [Entry.isRes, Entry.isFee]
        refine ⟨?_, ?_, ?_⟩
        · have : ({ x with amt := a } : Entry).isAdd = false := by simpa [Entry.isAdd] using hna
          simp only [adds, List.filter, hna, this]
        · have : ({ x with amt := a } : Entry).isRes = false := by simpa [Entry.isRes] using hnr
          simp only [resolutions, List.filter, hnr, this]
        · intro e' he'
          rcases List.mem_cons.mp he' with rfl | he'
          · exact ⟨x, List.mem_cons_self, rfl, fun c => by cases c <;> rfl⟩
          · exact ⟨e', List.mem_cons_of_mem _ he', rfl, fun _ => rfl⟩
      · cases h
    · cases hs : setLastFee a xs with
      | none => simp [hs] at h
      | some ys =>
        simp only [hs, Option.map_some, Option.some.injEq] at h; subst h
        obtain ⟨h1, h2, h3⟩ := ih ys hs
        refine ⟨?_, ?_, ?_⟩
        · simp only [adds, List.filter] at h1 ⊢; cases x.isAdd <;> simp [h1]
        · simp only [resolutions, List.filter] at h2 ⊢; cases x.isRes <;> simp [h2]
        · intro e' he'
          rcases List.mem_cons.mp he' with rfl | he'
          · exact ⟨e', List.mem_cons_self, rfl, fun _ => rfl⟩
          · obtain ⟨e, he, r⟩ := h3 e' he'
            exact ⟨e, List.mem_cons_of_mem _ he, r⟩

theorem coalesce_spec {a : Nat} {E r : List Entry} (h : setLastFee a E.reverse = some r) :
    adds r.reverse = adds E ∧ resolutions r.reverse = resolutions E ∧
    ∀ e' ∈ r.reverse, ∃ e ∈ E, e'.logIndex = e.logIndex ∧ ∀ c, e'.onChain c = e.onChain c := by
  obtain ⟨h1, h2, h3⟩ := setLastFee_spec a _ _ h
  refine ⟨?_, ?_, ?_⟩
  · unfold adds at *; rw [List.filter_reverse, h1, ← List.filter_reverse, List.reverse_reverse]
  · unfold resolutions at *; rw [List.filter_reverse, h2, ← List.filter_reverse, List.reverse_reverse]
  · intro e' he'
    obtain ⟨e, he, r⟩ := h3 e' (List.mem_reverse.mp he')
    exact ⟨e, List.mem_reverse.mp he, r⟩

theorem mem_of_adds_eq {E E' : List Entry} (h : adds E' = adds E) {e : Entry} (he : e ∈ E') (ha : e.isAdd = true) :
    e ∈ E := by
  have : e ∈ adds E' := List.mem_filter.mpr ⟨he, ha⟩
  rw [h] at this; exact (List.mem_filter.mp this).1

theorem mem_of_res_eq {E E' : List Entry} (h : resolutions E' = resolutions E) {e : Entry} (he : e ∈ E')
    (ha : e.isRes = true) : e ∈ E := by
  have : e ∈ resolutions E' := List.mem_filter.mpr ⟨he, ha⟩
  rw [h] at this; exact (List.mem_filter.mp this).1

/-- replacing a log's entries by a list with the same adds and resolutions (fee coalescing). -/
theorem logOK_same {own own' other : Log} (h1 : LogOK own other) (h2 : LogOK other own)
    (hidx : own'.logIndex = own.logIndex) (hctr : own'.htlcCounter = own.htlcCounter)
    (hmod : own'.modified = own.modified)
    (hadds : adds own'.entries = adds own.entries) (hres : resolutions own'.entries = resolutions own.entries)
    (hb : ∀ e' ∈ own'.entries, ∃ e ∈ own.entries, e'.logIndex = e.logIndex ∧ ∀ c, e'.onChain c = e.onChain c) :
    LogOK own' other ∧ LogOK other own' := by
  constructor
  · constructor
    · intro e he
      obtain ⟨e0, he0, hl, _⟩ := hb e he
      rw [hl, hidx]; exact h1.idxBound e0 he0
    · unfold UniqueAdds; rw [hadds]; exact h1.uniq
    · intro e he ha; rw [hctr]; exact h1.addLt e (mem_of_adds_eq hadds he ha) ha
    · rw [hres]; exact h1.resPar
    · intro r hr hr'; exact h1.resMod r (mem_of_res_eq hres hr hr') hr'
    · intro r hr hr'; exact h1.resAdd r (mem_of_res_eq hres hr hr') hr'
  · constructor
    · exact h2.idxBound
    · exact h2.uniq
    · exact h2.addLt
    · exact h2.resPar
    · intro r hr hr'; rw [hmod]; exact h2.resMod r hr hr'
    · intro r hr hr'
      obtain ⟨a, ha, hadd, rest⟩ := h2.resAdd r hr hr'
      have : a ∈ adds own.entries := List.mem_filter.mpr ⟨ha, hadd⟩
      rw [← hadds] at this
      exact ⟨a, (List.mem_filter.mp this).1, hadd, rest⟩

theorem inv_of_sameL {n n' : Node} (hI : Inv n)
    (hcfg : n'.cfg = n.cfg) (hcL : n'.chainL = n.chainL) (hcR : n'.chainR = n.chainR)
    (hR : n'.logR = n.logR) (hidx : n'.logL.logIndex = n.logL.logIndex)
    (hctr : n'.logL.htlcCounter = n.logL.htlcCounter) (hmod : n'.logL.modified = n.logL.modified)
    (hadds : adds n'.logL.entries = adds n.logL.entries)
    (hres : resolutions n'.logL.entries = resolutions n.logL.entries)
    (hb : ∀ e' ∈ n'.logL.entries, ∃ e ∈ n.logL.entries, e'.logIndex = e.logIndex ∧ ∀ c, e'.onChain c = e.onChain c) :
    Inv n' := by
  have hl := logOK_same hI.logL hI.logR hidx hctr hmod hadds hres hb
  refine ⟨by rw [hR]; exact hl.1, by rw [hR]; exact hl.2, ?_, ?_, ?_, ?_, ?_, ?_, ?_, ?_⟩
  · intro e he ho
    obtain ⟨e0, he0, hli, hoc⟩ := hb e he
    rw [hcR, hli]; exact hI.covL e0 he0 (by rw [← hoc]; exact ho)
  · rw [hR, hcL]; exact hI.covR
  · rw [hcL]; exact hI.monoL
  · rw [hcL, hR]; exact hI.boundL
  · rw [hcR]; exact hI.monoR
  · rw [hcR, hidx]; exact hI.boundR
  · intro c
    have := hI.j1 c
    unfold J1 at this ⊢
    have hch : n'.chain c = n.chain c := by cases c <;> simp [Node.chain, hcL, hcR]
    rw [hch, hcfg, hR]
    simp only [addsOn_append, resOn_append] at this ⊢
    rw [addsOn_eq_adds c n'.logL.entries, resOn_eq_res c n'.logL.entries, hadds, hres,
        ← addsOn_eq_adds, ← resOn_eq_res]
    exact this
  · intro c cm hcm
    have hch : n'.chain c = n.chain c := by cases c <;> simp [Node.chain, hcL, hcR]
    rw [hch] at hcm; rw [hcfg]; exact hI.cons c cm hcm

theorem inv_of_sameR {n n' : Node} (hI : Inv n)
    (hcfg : n'.cfg = n.cfg) (hcL : n'.chainL = n.chainL) (hcR : n'.chainR = n.chainR)
    (hL : n'.logL = n.logL) (hidx : n'.logR.logIndex = n.logR.logIndex)
    (hctr : n'.logR.htlcCounter = n.logR.htlcCounter) (hmod : n'.logR.modified = n.logR.modified)
    (hadds : adds n'.logR.entries = adds n.logR.entries)
    (hres : resolutions n'.logR.entries = resolutions n.logR.entries)
    (hb : ∀ e' ∈ n'.logR.entries, ∃ e ∈ n.logR.entries, e'.logIndex = e.logIndex ∧ ∀ c, e'.onChain c = e.onChain c) :
    Inv n' := by
  have hl := logOK_same hI.logR hI.logL hidx hctr hmod hadds hres hb
  refine ⟨by rw [hL]; exact hl.2, by rw [hL]; exact hl.1, ?_, ?_, ?_, ?_, ?_, ?_, ?_, ?_⟩
  · rw [hL, hcR]; exact hI.covL
  · intro e he ho
    obtain ⟨e0, he0, hli, hoc⟩ := hb e he
    rw [hcL, hli]; exact hI.covR e0 he0 (by rw [← hoc]; exact ho)
  · rw [hcL]; exact hI.monoL
  · rw [hcL, hidx]; exact hI.boundL
  · rw [hcR]; exact hI.monoR
  · rw [hcR, hL]; exact hI.boundR
  · intro c
    have := hI.j1 c
    unfold J1 at this ⊢
    have hch : n'.chain c = n.chain c := by cases c <;> simp [Node.chain, hcL, hcR]
    rw [hch, hcfg, hL]
    simp only [addsOn_append, resOn_append] at this ⊢
    rw [addsOn_eq_adds c n'.logR.entries, resOn_eq_res c n'.logR.entries, hadds, hres,
        ← addsOn_eq_adds, ← resOn_eq_res]
    exact this
  · intro c cm hcm
    have hch : n'.chain c = n.chain c := by cases c <;> simp [Node.chain, hcL, hcR]
    rw [hch] at hcm; rw [hcfg]; exact hI.cons c cm hcm

/-- appending a fresh FeeUpdate. -/
theorem logOK_appendFee {own other : Log} {pd : Entry} (h1 : LogOK own other) (h2 : LogOK other own)
    (hfee : pd.ty = .feeUpd) (hli : pd.logIndex = own.logIndex) :
    LogOK (own.appendUpdate pd) other ∧ LogOK other (own.appendUpdate pd) := by
  have hna : pd.isAdd = false := by simp [Entry.isAdd, hfee]
  have hnr : pd.isRes = false := by simp [Entry.isRes, hfee]
  constructor
  · constructor
    · intro e he
      simp only [Log.appendUpdate, List.mem_append, List.mem_singleton] at he ⊢
      rcases he with he | rfl
      · have := h1.idxBound e he; omega
      · omega
    · show UniqueAdds (own.entries ++ [pd])
      unfold UniqueAdds; rw [adds_snoc, hna]; exact h1.uniq
    · intro e he ha
      simp only [Log.appendUpdate, List.mem_append, List.mem_singleton] at he ⊢
      rcases he with he | rfl
      · exact h1.addLt e he ha
      · rw [hna] at ha; cases ha
    · show ((resolutions (own.entries ++ [pd])).map Entry.parent).Nodup
      rw [resolutions_snoc, hnr]; exact h1.resPar
    · intro r hr hr'
      simp only [Log.appendUpdate, List.mem_append, List.mem_singleton] at hr
      rcases hr with hr | rfl
      · exact h1.resMod r hr hr'
      · rw [hnr] at hr'; cases hr'
    · intro r hr hr'
      simp only [Log.appendUpdate, List.mem_append, List.mem_singleton] at hr
      rcases hr with hr | rfl
      · exact h1.resAdd r hr hr'
      · rw [hnr] at hr'; cases hr'
  · constructor
    · exact h2.idxBound
    · exact h2.uniq
    · exact h2.addLt
    · exact h2.resPar
    · exact h2.resMod
    · intro r hr hr'
      obtain ⟨a, ha, rest⟩ := h2.resAdd r hr hr'
      exact ⟨a, by simp [Log.appendUpdate, ha], rest⟩

theorem inv_updateFee {n : Node} (hI : Inv n) (f : Nat) : Inv (n.updateFee f).2 := by
  unfold Node.updateFee
  split
  · exact hI
  · split
    · exact hI
    · simp only [Log.appendFeeUpdate]
      cases hs : setLastFee (1000 * f) n.logL.entries.reverse with
      | some r =>
        obtain ⟨h1, h2, h3⟩ := coalesce_spec hs
        exact inv_of_sameL hI rfl rfl rfl rfl rfl rfl rfl h1 h2 h3
      | none =>
        have := logOK_appendFee (pd := { ty := .feeUpd, amt := 1000 * f, logIndex := n.logL.logIndex }) hI.logL hI.logR rfl rfl
        exact inv_of_appendL hI _ ⟨rfl, rfl, rfl, rfl⟩ rfl rfl rfl rfl rfl rfl rfl this.1 this.2

theorem inv_receiveUpdateFee {n : Node} (hI : Inv n) (f : Nat) : Inv (n.receiveUpdateFee f).2 := by
  unfold Node.receiveUpdateFee
  split
  · exact hI
  · simp only [Log.appendFeeUpdate]
    cases hs : setLastFee (1000 * f) n.logR.entries.reverse with
    | some r =>
      obtain ⟨h1, h2, h3⟩ := coalesce_spec hs
      exact inv_of_sameR hI rfl rfl rfl rfl rfl rfl rfl h1 h2 h3
    | none =>
      have := logOK_appendFee (pd := { ty := .feeUpd, amt := 1000 * f, logIndex := n.logR.logIndex }) hI.logR hI.logL rfl rfl
      exact inv_of_appendR hI _ ⟨rfl, rfl, rfl, rfl⟩ rfl rfl rfl rfl rfl rfl rfl this.2 this.1

end LndModel.C01
