/-
C01 — the cross-node content invariant holds in every state the link-disciplined system reaches:
`XInv` = index-level simulation by the C03 skeleton + `XR`.
-/
import LndModel.C01.XInv2
set_option linter.unusedSimpArgs false
set_option linter.unusedVariables false

namespace LndModel.C01

open LndModel.C03 (SNode SMsg SSys LStep Idx idxOf SAct nSig nRev)

structure XI (s : System) (k : SSys) (GLa GRa GLb GRb : GLog) : Prop where
  sim : Sim s k
  inv2 : LndModel.C03.Inv2 k
  xr : XR s GLa GRa GLb GRb

/-- the cross-node invariant of the two-party system. -/
def XInv (s : System) : Prop := ∃ k GLa GRa GLb GRb, XI s k GLa GRa GLb GRb

/-! ### what the index-level invariant says at the head of a queue -/

theorem skel_head_sig {s : System} {k : SSys} (hsim : Sim s k) (hI : LndModel.C03.Inv2 k) {sv : SigView}
    {rest : List Msg} (hq : s.ab = Msg.commitSig sv :: rest) :
    ∃ P, s.a.chainR.pend = [P] ∧ P.ourMsg = s.b.logR.logIndex ∧ P.theirMsg = s.b.chainR.tail.ourMsg ∧
      s.b.chainL.tail.ourMsg = s.a.chainR.tail.theirMsg ∧ s.b.chainL.tail.theirMsg = s.a.chainR.tail.ourMsg ∧
      s.b.chainL.tail.height = s.a.chainR.tail.height := by
  have hab := hsim.ab
  rw [hq] at hab
  cases hkq : k.ab with
  | nil => rw [hkq] at hab; cases hab
  | cons mk krest =>
    rw [hkq] at hab
    cases mk with
    | sig hh ix =>
      obtain ⟨h1, h2, h3, h4, h5⟩ := head_sig_skeleton hI hkq
      obtain ⟨P, p1, p2, p3, _⟩ := pending_of_sim hsim.a hsim.b h1 h2 h3 h4 h5
      obtain ⟨_, _, lpb, mab, _, _, _⟩ := hI
      have hlt : k.b.lt = k.a.rt := by rw [lpb] at h3; simp at h3; omega
      have t0 := mab.tail0 hlt
      rw [hsim.b.ltIdx, hsim.a.rtIdx] at t0
      simp only [idxOf, LndModel.C03.Idx.swap, Idx.mk.injEq] at t0
      refine ⟨P, p1, p2, p3, t0.1, t0.2, ?_⟩
      rw [← hsim.b.lt, ← hsim.a.rt]; exact hlt
    | upd o => cases o <;> exact absurd hab.1 (by intro h; cases h)
    | rev _ => exact absurd hab.1 (by intro h; cases h)

theorem qSim_nosig : ∀ (q : List Msg) (r : List SMsg), qSim q r → nSig r = 0 → ∀ sv, Msg.commitSig sv ∉ q := by
  intro q
  induction q with
  | nil => intro r _ _ sv h; cases h
  | cons m q ih =>
    intro r hs hn sv hm
    cases r with
    | nil => cases hs
    | cons kk rr =>
      obtain ⟨h1, h2⟩ := hs
      rw [LndModel.C03.nSig_cons] at hn
      rcases List.mem_cons.mp hm with rfl | hm'
      · cases kk with
        | sig _ _ => simp [SMsg.isSig] at hn
        | upd o => cases o <;> cases h1
        | rev _ => cases h1
      · exact ih rr h2 (by omega) sv hm'

theorem skel_head_rev {s : System} {k : SSys} (hsim : Sim s k) (hI : LndModel.C03.Inv2 k)
    {rest : List Msg} (hq : s.ab = Msg.revoke :: rest) :
    (∀ sv, Msg.commitSig sv ∉ s.ba) ∧ s.a.chainL.tail.height = s.b.chainR.tail.height + 1 := by
  have hab := hsim.ab
  rw [hq] at hab
  cases hkq : k.ab with
  | nil => rw [hkq] at hab; cases hab
  | cons mk krest =>
    rw [hkq] at hab
    cases mk with
    | rev g =>
      obtain ⟨⟨l1, _⟩, lpa, _, _, _, _, _⟩ := hI
      have r1 := l1.revs
      have s1 := l1.sigs
      have tl := LndModel.C03.tipH_le k.b
      rw [hkq] at r1
      rw [lpa] at s1
      simp only [LndModel.C03.nRev_cons, SMsg.isRev, if_true, List.length_nil, Nat.add_zero] at r1 s1
      have hz : nSig k.ba = 0 := by omega
      refine ⟨qSim_nosig _ _ hsim.ba hz, ?_⟩
      rw [← hsim.a.lt, ← hsim.b.rt]; omega
    | upd o => cases o <;> exact absurd hab.1 (by intro h; cases h)
    | sig _ _ => exact absurd hab.1 (by intro h; cases h)

/-! ### the entry a delivered update creates is the sender's -/

theorem drop_head_entry {G O : GLog} {log : Log} {oc : Nat} {tip : Chain → Nat} {b : Nat}
    (g : GSide G O log oc tip b) {k : Nat} {e0 : Entry} {tl : List Entry} (hd : G.cores.drop k = e0 :: tl) :
    ∃ e', e' ∈ G.all ∧ core e' = e0 ∧ e'.logIndex = k ∧ EWf e' := by
  have h1 : G.cores[k]? = some e0 := by
    have := List.head?_drop (l := G.cores) (i := k)
    rw [hd] at this
    simpa using this.symm
  have hk : k < G.cores.length := by
    rcases Nat.lt_or_ge k G.cores.length with h | h
    · exact h
    · rw [List.getElem?_eq_none h] at h1; cases h1
  have h2 : (G.cores.map Entry.logIndex)[k]? = some e0.logIndex := by rw [List.getElem?_map, h1]; rfl
  rw [GLog.cores_pos g, List.getElem?_range hk] at h2
  have hmem : e0 ∈ G.cores := List.mem_of_getElem? h1
  obtain ⟨e', he', hc⟩ := List.mem_map.mp hmem
  refine ⟨e', he', hc, ?_, g.wf e' he'⟩
  have : e0.logIndex = k := by simpa using h2.symm
  rw [← hc] at this; exact this

theorem core_of_add {e' : Entry} (hw : EWf e') {i am ex hs : Nat} (hwire : wire (core e') = Msg.add i am ex hs)
    (log : Log) (hidx : e'.logIndex = log.logIndex) (hctr : i = log.htlcCounter) :
    core (addEntry log am ex hs) = core e' := by
  rw [wire_core] at hwire
  unfold wire at hwire
  cases hty : e'.ty <;> simp only [hty] at hwire <;> try (cases hwire)
  have hp := hw.addShape ((isAdd_iff e').mpr hty)
  cases e'
  simp_all [core, addEntry, normTy]

theorem core_of_settle {e' x : Entry} (hw : EWf e') {i : Nat} (hwire : wire (core e') = Msg.settle i)
    (log : Log) (hidx : e'.logIndex = log.logIndex) (hamt : e'.amt = x.amt) (hhash : e'.hash = x.hash) :
    core (resEntry log .settle i x) = core e' ∧ e'.isRes = true := by
  rw [wire_core] at hwire
  unfold wire at hwire
  cases hty : e'.ty <;> simp only [hty] at hwire <;> try (cases hwire)
  have hr : e'.isRes = true := (isRes_iff e').mpr (Or.inl hty)
  have hp := hw.resShape hr
  refine ⟨?_, hr⟩
  cases e'
  simp_all [core, resEntry, normTy]

theorem core_of_fail {e' x : Entry} (hw : EWf e') {i : Nat} (hwire : wire (core e') = Msg.fail i)
    (log : Log) (hidx : e'.logIndex = log.logIndex) (hamt : e'.amt = x.amt) (hhash : e'.hash = x.hash) :
    core (resEntry log .fail i x) = core e' ∧ e'.isRes = true := by
  rw [wire_core] at hwire
  unfold wire at hwire
  cases hty : e'.ty <;> simp only [hty] at hwire <;> try (cases hwire)
  · have hr : e'.isRes = true := (isRes_iff e').mpr (Or.inr (Or.inl hty))
    have hp := hw.resShape hr
    refine ⟨?_, hr⟩
    cases e'
    simp_all [core, resEntry, normTy]
  · have hr : e'.isRes = true := (isRes_iff e').mpr (Or.inr (Or.inr hty))
    have hp := hw.resShape hr
    refine ⟨?_, hr⟩
    cases e'
    simp_all [core, resEntry, normTy]

theorem wire_parent {e' : Entry} {i : Nat} (h : wire (core e') = Msg.settle i ∨ wire (core e') = Msg.fail i) :
    e'.parent = i ∧ e'.isRes = true := by
  rw [wire_core] at h
  unfold wire at h
  cases hty : e'.ty <;> simp only [hty] at h <;> rcases h with h | h <;> cases h <;>
    exact ⟨rfl, by simp [Entry.isRes, hty]⟩

/-- the resolution `a` sent carries the amount and hash of the add `b` finds under that index. -/
theorem res_amt_match {s : System} {GLa GRa GLb GRb : GLog} (h : XR s GLa GRa GLb GRb) {e' : Entry}
    (he : e' ∈ GLa.all) (hres : e'.isRes = true) {x : Entry}
    (hl : lookupHtlc s.b.logL.entries e'.parent = some x) : e'.amt = x.amt ∧ e'.hash = x.hash := by
  have hc : core e' ∈ GLa.cores := List.mem_map_of_mem he
  obtain ⟨p, p1, p2, p3, p4, p5⟩ := h.raa (core e') hc (by simpa using hres)
  rw [h.hba.pre] at p1
  have p1' := List.mem_of_mem_take p1
  obtain ⟨p0, hp0, rfl⟩ := List.mem_map.mp p1'
  obtain ⟨_, hx, hxa, hxi⟩ := lookup_hi_lt h.gb.L hl
  have hxm : x ∈ GLb.all := GLog.mem_all hx
  have hp0a : p0.isAdd = true := by simpa using p2
  have : p0 = x := by
    apply nodup_map_inj Entry.htlcIndex (adds GLb.all) h.gb.L.uniq p0 x
    · exact List.mem_filter.mpr ⟨hp0, hp0a⟩
    · exact List.mem_filter.mpr ⟨hxm, hxa⟩
    · rw [hxi]; exact p3
  subst this
  exact ⟨p4.symm, p5.symm⟩

end LndModel.C01
