/-
C01 — the cross-node content invariant: definitions and the agreement lemma used at the delivery
of a commitment_signed.
-/
import LndModel.C01.GView
set_option linter.unusedSimpArgs false
set_option linter.unusedVariables false

namespace LndModel.C01

/-- wire message of a log entry (`toLogUpdate`). -/
def wire (e : Entry) : Msg :=
  match e.ty with
  | .add => .add e.htlcIndex e.amt e.expiry e.hash
  | .settle => .settle e.parent
  | .fail => .fail e.parent
  | .malformed => .fail e.parent
  | .feeUpd => .fee (e.amt / 1000)

def Msg.isUpd : Msg → Bool
  | .commitSig _ => false
  | .revoke => false
  | _ => true

theorem wire_core (e : Entry) : wire (core e) = wire e := by
  unfold wire
  cases hty : e.ty <;> simp [core, hty, normTy]

/-- the shared part of the ghost log. -/
def GLog.cores (G : GLog) : List Entry := G.all.map core

theorem GLog.cores_snoc (G : GLog) (e : Entry) (k : Bool) : GLog.cores (G ++ [(e, k)]) = GLog.cores G ++ [core e] := by
  simp [GLog.cores, GLog.all_snoc]

theorem GLog.cores_cm1 (c : Chain) (h i : Nat) (G : GLog) : GLog.cores (GLog.mapE (cm1 c h i) G) = GLog.cores G := by
  unfold GLog.cores
  rw [GLog.all_mapE, List.map_map]
  congr 1
  funext e
  exact core_cm1 c h i e

theorem GLog.cores_length (G : GLog) : (GLog.cores G).length = G.length := by
  simp [GLog.cores, GLog.all]

theorem GLog.cores_of_all {G G' : GLog} (h : GLog.all G' = GLog.all G) : GLog.cores G' = GLog.cores G := by
  unfold GLog.cores; rw [h]

theorem GLog.length_of_all {G G' : GLog} (h : GLog.all G' = GLog.all G) : G'.length = G.length := by
  have := congrArg List.length h
  simpa [GLog.all] using this

theorem GLog.cores_pos {G O : GLog} {log : Log} {oc : Nat} {tip : Chain → Nat} {b : Nat}
    (h : GSide G O log oc tip b) :
    (GLog.cores G).map Entry.logIndex = List.range (GLog.cores G).length := by
  rw [GLog.cores_length]
  unfold GLog.cores
  rw [List.map_map]
  have : (Entry.logIndex ∘ core) = Entry.logIndex := by funext e; rfl
  rw [this]; exact h.pos

/-! ### prefixes of position-indexed logs -/

theorem filter_lt_nil (p : Entry → Bool) (L : List Entry) (s : Nat) (h : ∀ e ∈ L, s ≤ e.logIndex) :
    L.filter (fun e => decide (e.logIndex < s) && p e) = [] := by
  apply List.filter_eq_nil_iff.mpr
  intro e he
  have := h e he
  simp; omega

theorem filter_lt_take_aux (p : Entry → Bool) : ∀ (H : List Entry) (s i K : Nat), i ≤ K →
    H.map Entry.logIndex = List.range' s H.length →
    H.filter (fun e => decide (e.logIndex < s + i) && p e) =
      (H.take K).filter (fun e => decide (e.logIndex < s + i) && p e) := by
  intro H
  induction H with
  | nil => intros; simp
  | cons x H ih =>
    intro s i K hiK hpos
    simp only [List.map_cons, List.length_cons, List.range'_succ, List.cons.injEq] at hpos
    obtain ⟨hx, hrest⟩ := hpos
    have hge : ∀ e ∈ x :: H, s ≤ e.logIndex := by
      intro e he
      rcases List.mem_cons.mp he with rfl | he
      · omega
      · have : e.logIndex ∈ H.map Entry.logIndex := List.mem_map_of_mem he
        rw [hrest] at this
        have := (List.mem_range'_1.mp this).1
        omega
    cases i with
    | zero =>
      rw [Nat.add_zero, filter_lt_nil p _ s hge, filter_lt_nil p _ s]
      intro e he
      exact hge e (List.mem_of_mem_take he)
    | succ i =>
      cases K with
      | zero => omega
      | succ K =>
        have e1 : s + (i + 1) = (s + 1) + i := by omega
        rw [List.take_succ_cons, List.filter_cons, List.filter_cons, e1, ih (s + 1) i K (by omega) hrest]

/-- in a log whose entries sit at their log index, the entries below `i` are in any prefix of
    length `≥ i`. -/
theorem filter_lt_take (p : Entry → Bool) {H : List Entry} (hpos : H.map Entry.logIndex = List.range H.length)
    {i K : Nat} (hiK : i ≤ K) :
    H.filter (fun e => decide (e.logIndex < i) && p e) = (H.take K).filter (fun e => decide (e.logIndex < i) && p e) := by
  have := filter_lt_take_aux p H 0 i K hiK (by rw [hpos, List.range_eq_range'])
  simpa using this

theorem gLive_pre {H O H' O' : List Entry} {i j K M : Nat} (t : Nat)
    (hH : H.map Entry.logIndex = List.range H.length) (hO : O.map Entry.logIndex = List.range O.length)
    (eH : H' = H.take K) (eO : O' = O.take M) (hi : i ≤ K) (hj : j ≤ M) :
    gLive H' O' i j t = gLive H O i j t := by
  subst eH; subst eO
  unfold gLive
  have e1 : O.filter (fun r => decide (r.logIndex < j) && r.isRes) =
      (O.take M).filter (fun r => decide (r.logIndex < j) && r.isRes) := filter_lt_take _ hO hj
  rw [← e1]
  have e2 := filter_lt_take (fun e => e.isAdd &&
    !((O.filter (fun r => decide (r.logIndex < j) && r.isRes)).map Entry.parent).contains e.htlcIndex) hH hi
  simp only [← Bool.and_assoc] at e2
  rw [← e2]

theorem gNew_pre {H H' : List Entry} {i K : Nat} (t : Nat)
    (hH : H.map Entry.logIndex = List.range H.length) (eH : H' = H.take K) (hi : i ≤ K) :
    gNew H' i t = gNew H i t := by
  subst eH
  unfold gNew
  have e2 := filter_lt_take (fun e => e.isRes && decide (t ≤ e.logIndex)) hH hi
  simp only [← Bool.and_assoc] at e2
  rw [← e2]

theorem gLive_core (H O : List Entry) (i j t : Nat) : gLive (H.map core) (O.map core) i j t = gLive H O i j t := by
  unfold gLive
  have eO : ((O.map core).filter (fun r => decide (r.logIndex < j) && r.isRes)).map Entry.parent =
      (O.filter (fun r => decide (r.logIndex < j) && r.isRes)).map Entry.parent := by
    rw [List.filter_map, List.map_map]
    have hp : ((fun r : Entry => decide (r.logIndex < j) && r.isRes) ∘ core) =
        (fun r : Entry => decide (r.logIndex < j) && r.isRes) := by
      funext e; simp only [Function.comp, core_isRes, core_isAdd]; rfl
    have e1 : (Entry.parent ∘ core) = Entry.parent := by funext e; rfl
    rw [hp, e1]
  rw [eO, List.filter_map, List.map_map]
  have hp : ((fun e : Entry => decide (e.logIndex < i) && e.isAdd &&
      !((O.filter (fun r => decide (r.logIndex < j) && r.isRes)).map Entry.parent).contains e.htlcIndex) ∘ core) =
      (fun e : Entry => decide (e.logIndex < i) && e.isAdd &&
      !((O.filter (fun r => decide (r.logIndex < j) && r.isRes)).map Entry.parent).contains e.htlcIndex) := by
    funext e; simp only [Function.comp, core_isRes, core_isAdd]; rfl
  have e2 : (absI t ∘ core) = absI t := by funext e; exact absI_core t e
  rw [hp, e2]

theorem gNew_core (H : List Entry) (i t : Nat) : gNew (H.map core) i t = gNew H i t := by
  unfold gNew
  rw [List.filter_map, List.map_map]
  have hp : ((fun e : Entry => decide (e.logIndex < i) && e.isRes && decide (t ≤ e.logIndex)) ∘ core) =
      (fun e : Entry => decide (e.logIndex < i) && e.isRes && decide (t ≤ e.logIndex)) := by
    funext e; simp only [Function.comp, core_isRes, core_isAdd]; rfl
  have e2 : (absI t ∘ core) = absI t := by funext e; exact absI_core t e
  rw [hp, e2]

theorem gLive_snoc_H (H O : List Entry) (x : Entry) (i j t : Nat) (h : i ≤ x.logIndex) :
    gLive (H ++ [x]) O i j t = gLive H O i j t := by
  unfold gLive
  rw [List.filter_append]
  have : ¬ x.logIndex < i := by omega
  simp [List.filter, this]

theorem gLive_snoc_O (H O : List Entry) (x : Entry) (i j t : Nat) (h : j ≤ x.logIndex) :
    gLive H (O ++ [x]) i j t = gLive H O i j t := by
  unfold gLive
  rw [List.filter_append]
  have : ¬ x.logIndex < j := by omega
  simp [List.filter, this]

theorem gNew_snoc (H : List Entry) (x : Entry) (i t : Nat) (h : i ≤ x.logIndex) :
    gNew (H ++ [x]) i t = gNew H i t := by
  unfold gNew
  rw [List.filter_append]
  have : ¬ x.logIndex < i := by omega
  simp [List.filter, this]

/-! ### the pending commitment, characterised on the shared logs -/

/-- mirror images, including the transaction. -/
structure CM (ta tb : Commit) : Prop where
  tm : TipMirror ta tb
  outs : tb.outs = ta.outs
  /-- same HTLCs (index, amount, expiry, hash, dust flag), direction flipped; each side lists its
      outgoing HTLCs first -/
  htlcs : ∃ o i, ta.htlcs = o ++ i ∧ tb.htlcs.map mirrorHtlc = i ++ o

/-- the pending remote commitment `P` (built over the remote tail `T`) is the construction over
    exactly the shared entries below the indices it records. -/
def PChar (cfg : Cfg) (T P : Commit) (CL CR : List Entry) : Prop :=
  ∃ r, buildCommit cfg .rem T r P.ourMsg P.ourHtlc P.theirMsg P.theirHtlc = .ok P ∧
    VEq .rem cfg.initiator T r
      (gLive CL CR P.ourMsg P.theirMsg T.ourMsg) (gLive CR CL P.theirMsg P.ourMsg T.theirMsg)
      (gNew CL P.ourMsg T.ourMsg) (gNew CR P.theirMsg T.theirMsg)

theorem PChar.snoc_L {cfg : Cfg} {T P : Commit} {CL CR : List Entry} (h : PChar cfg T P CL CR) (x : Entry)
    (hx : P.ourMsg ≤ x.logIndex) : PChar cfg T P (CL ++ [x]) CR := by
  obtain ⟨r, h1, h2⟩ := h
  refine ⟨r, h1, ?_⟩
  rw [gLive_snoc_H _ _ _ _ _ _ hx, gLive_snoc_O _ _ _ _ _ _ hx, gNew_snoc _ _ _ _ hx]
  exact h2

theorem PChar.snoc_R {cfg : Cfg} {T P : Commit} {CL CR : List Entry} (h : PChar cfg T P CL CR) (x : Entry)
    (hx : P.theirMsg ≤ x.logIndex) : PChar cfg T P CL (CR ++ [x]) := by
  obtain ⟨r, h1, h2⟩ := h
  refine ⟨r, h1, ?_⟩
  rw [gLive_snoc_H _ _ _ _ _ _ hx, gLive_snoc_O _ _ _ _ _ _ hx, gNew_snoc _ _ _ _ hx]
  exact h2

/-- every own resolution carries the amount and hash of the add (in the other log) it resolves. -/
def ResAmt (CL CR : List Entry) : Prop :=
  ∀ r ∈ CL, r.isRes = true → ∃ p ∈ CR, p.isAdd = true ∧ p.htlcIndex = r.parent ∧ p.amt = r.amt ∧ p.hash = r.hash

/-- what a successful `SignNextCommitment` establishes about the new pending commitment. -/
theorem pchar_of_sign {n : Node} {GL GR : GLog} (g : GInv n GL GR) {cm : Commit} {n1 : Node}
    (hp : n.chainR.pend = [])
    (hf : fetchCommitmentView n .rem n.logL.logIndex n.logL.htlcCounter n.chainL.tail.theirMsg n.chainL.tail.theirHtlc
      = .ok (cm, n1)) :
    PChar n.cfg n.chainR.tail cm GL.cores GR.cores := by
  obtain ⟨r, hc, hb⟩ := fetch_ok_parts hf
  obtain ⟨_, i2, i3, _⟩ := fetch_idx hf
  have htip : (n.chain .rem).tip = n.chainR.tail := by simp [Node.chain, CChain.tip, hp]
  have htipL : n.chainL.tip = n.chainL.tail := by simp [CChain.tip, g.pendL]
  have hb1 : n.chainL.tail.theirMsg ≤ n.chainL.tail.theirMsg := Nat.le_refl _
  have hb2 : n.chainR.tail.ourMsg ≤ n.logL.logIndex := by
    have := g.tailR; have := g.L.tips .rem; have := g.L.len; simp only [Node.chain] at *; omega
  have v := veq_of_computeView hc
    (live_ghost g.L g.R .rem n.logL.logIndex n.chainL.tail.theirMsg hb1)
    (live_ghost g.R g.L .rem n.chainL.tail.theirMsg n.logL.logIndex hb2)
    (new_ghost g.L .rem n.logL.logIndex) (new_ghost g.R .rem n.chainL.tail.theirMsg)
    (view_noFee g.L _) (view_noFee g.R _)
  have hcm : cm.ourHtlc = n.logL.htlcCounter ∧ cm.theirHtlc = n.chainL.tail.theirHtlc := by
    unfold buildCommit at hb
    simp only at hb
    generalize commitOuts _ _ _ _ _ _ = outs at hb
    split at hb
    · cases hb
    · split at hb
      · cases hb
      · simp only [Except.ok.injEq] at hb
        rw [← hb]; exact ⟨rfl, rfl⟩
  refine ⟨r, ?_, ?_⟩
  · rw [i2, i3, hcm.1, hcm.2, ← htip]; exact hb
  · rw [htip] at v
    rw [i2, i3]
    unfold GLog.cores
    rw [gLive_core, gLive_core, gNew_core, gNew_core]
    exact v

/-- **agreement at the delivery of a commitment_signed.**  If the receiver's remote log is the
    delivered prefix of the signer's local log (and vice versa), the signer's pending commitment
    `P` is characterised on the shared logs, the indices agree and the previous commitments are
    mirror images, then whatever the receiver constructs is `P`'s mirror image: same signed view
    (so the signature verifies), balances swapped to the millisatoshi. -/
theorem sig_agree {a b : Node} {GLa GRa GLb GRb : GLog} {P : Commit}
    (hcfg : b.cfg = a.cfg.mirror) (ga : GInv a GLa GRa) (gb : GInv b GLb GRb)
    (preAB : GRb.cores = GLa.cores.take GRb.length) (preBA : GRa.cores = GLb.cores.take GRa.length)
    (hP : a.chainR.pend = [P]) (pc : PChar a.cfg a.chainR.tail P GLa.cores GRa.cores)
    (hm : CM a.chainR.tail b.chainL.tail)
    (i1 : P.ourMsg = b.logR.logIndex) (i2 : P.theirMsg = b.chainR.tail.ourMsg)
    (i3 : b.chainL.tail.ourMsg = a.chainR.tail.theirMsg) (i4 : b.chainL.tail.theirMsg = a.chainR.tail.ourMsg)
    {hL hR : Nat} {cmb : Commit} {n1 : Node}
    (hf : fetchCommitmentView b .loc b.chainR.tail.ourMsg hL b.logR.logIndex hR = .ok (cmb, n1)) :
    cmb.sigView = P.sigView ∧ CM P cmb := by
  obtain ⟨rb, hcb, hbb⟩ := fetch_ok_parts hf
  obtain ⟨ra, hba, va⟩ := pc
  have htipL : (b.chain .loc).tip = b.chainL.tail := by simp [Node.chain, CChain.tip, gb.pendL]
  have hPtip : a.chainR.tip = P := by simp [CChain.tip, hP]
  have hlenR : b.logR.logIndex = GRb.length := gb.R.len
  have hb1 : b.chainL.tail.theirMsg ≤ b.logR.logIndex := by
    have := gb.R.tips .loc; rw [htipL] at this; omega
  have vb := veq_of_computeView hcb
    (live_ghost gb.L gb.R .loc b.chainR.tail.ourMsg b.logR.logIndex hb1)
    (live_ghost gb.R gb.L .loc b.logR.logIndex b.chainR.tail.ourMsg (Nat.le_refl _))
    (new_ghost gb.L .loc b.chainR.tail.ourMsg) (new_ghost gb.R .loc b.logR.logIndex)
    (view_noFee gb.L _) (view_noFee gb.R _)
  rw [htipL] at vb
  -- bounds
  have hPth : P.theirMsg ≤ GRa.length := by
    have := ga.R.tips .rem; simp only [Node.chain] at this; rw [hPtip] at this; exact this
  have posLa := GLog.cores_pos ga.L
  have posLb := GLog.cores_pos gb.L
  have lenAB : GRb.length ≤ GLa.cores.length := by
    have := congrArg List.length preAB
    simp only [GLog.cores_length, List.length_take] at this ⊢
    omega
  have lenBA : GRa.length ≤ GLb.cores.length := by
    have := congrArg List.length preBA
    simp only [GLog.cores_length, List.length_take] at this ⊢
    omega
  have hPo : P.ourMsg = GRb.length := by rw [i1, hlenR]
  -- the receiver's lists are the signer's
  have eLL : gLive GRb.all GLb.all b.logR.logIndex b.chainR.tail.ourMsg b.chainL.tail.theirMsg =
      gLive GLa.cores GRa.cores P.ourMsg P.theirMsg a.chainR.tail.ourMsg := by
    rw [← gLive_core, i4, ← i1, ← i2]
    show gLive GRb.cores GLb.cores _ _ _ = _
    rw [gLive_pre (K := GRb.length) (M := GLb.cores.length) _ posLa posLb preAB (List.take_length).symm
      (by omega) (by omega)]
    exact (gLive_pre (K := GLa.cores.length) (M := GRa.length) _ posLa posLb (List.take_length).symm preBA
      (by omega) hPth).symm
  have eLR : gLive GLb.all GRb.all b.chainR.tail.ourMsg b.logR.logIndex b.chainL.tail.ourMsg =
      gLive GRa.cores GLa.cores P.theirMsg P.ourMsg a.chainR.tail.theirMsg := by
    rw [← gLive_core, i3, ← i1, ← i2]
    show gLive GLb.cores GRb.cores _ _ _ = _
    rw [gLive_pre (K := GLb.cores.length) (M := GRb.length) _ posLb posLa (List.take_length).symm preAB
      (by omega) (by omega)]
    exact (gLive_pre (K := GRa.length) (M := GLa.cores.length) _ posLb posLa preBA (List.take_length).symm
      hPth (by omega)).symm
  have eNL : gNew GRb.all b.logR.logIndex b.chainL.tail.theirMsg = gNew GLa.cores P.ourMsg a.chainR.tail.ourMsg := by
    rw [← gNew_core, i4, ← i1]
    show gNew GRb.cores _ _ = _
    exact gNew_pre _ posLa preAB (by omega)
  have eNR : gNew GLb.all b.chainR.tail.ourMsg b.chainL.tail.ourMsg = gNew GRa.cores P.theirMsg a.chainR.tail.theirMsg := by
    rw [← gNew_core, i3, ← i2]
    show gNew GLb.cores _ _ = _
    exact (gNew_pre _ posLb preBA hPth).symm
  rw [eLL, eLR, eNL, eNR] at vb
  have hinit : b.cfg.initiator = !a.cfg.initiator := by rw [hcfg]; rfl
  rw [hinit] at vb
  obtain ⟨m1, m2, m3, m4, m5⟩ := veq_mirror va vb hm.tm
  rw [htipL] at hbb
  obtain ⟨hsig, hmir, hht⟩ := build_mirror hcfg hm.tm.height m1 m2 m3 m4 m5 hba hbb
  refine ⟨hsig, hmir, ?_, hht⟩
  have : cmb.sigView.outs = P.sigView.outs := by rw [hsig]
  exact this

end LndModel.C01
