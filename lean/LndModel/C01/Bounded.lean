/-
C01 — bounded exhaustive exploration of the MODEL's two-party `System` (not a proof).

Every schedule of local actions and in-order deliveries up to a depth bound, over a small
alphabet (one non-dust and one dust HTLC amount per side, settle / fail of locked-in HTLCs, one
fee update, sign, immediate or delayed revoke), is executed on the model.  Checked in every
explored state:
  * no delivery of an honest commitment_signed is answered `invalidSig` (content-level agreement),
  * no honest message is rejected for a non-constraint reason,
  * `agreeCheck` (the `LogAgreement` hypothesis) holds at every signature delivery,
  * when nothing is in flight, both sides' commitments are mirror images (balances to the msat,
    fee, fee rate, HTLC sets, outputs).
The driver reports the numbers as `STAT bounded_*`; a failure is reported as MISMATCH (it would
mean the model itself carries an agreement bug).  This covers the content-level cross-node
agreement that `sig_indices_agree` (indices, all interleavings) does not, but only up to the bound.
-/
import LndModel.C01.Model

namespace LndModel.C01.Bounded

open LndModel.C01

structure BStat where
  states : Nat := 0
  sigDeliveries : Nat := 0
  idleStates : Nat := 0
  deadBranches : Nat := 0
  failures : Nat := 0
  firstFailure : Option String := none
deriving Repr, Inhabited

def BStat.fail (b : BStat) (msg : String) : BStat :=
  { b with failures := b.failures + 1, firstFailure := b.firstFailure.orElse fun _ => some msg }

def oweLocal (n : Node) : Bool :=
  n.logL.logIndex != n.chainR.tip.ourMsg || n.chainL.tip.theirMsg != n.chainR.tip.theirMsg

/-- incoming HTLCs that are irrevocably locked in and not yet resolved. -/
def settleable (n : Node) : List Nat :=
  (n.logR.entries.filter fun e =>
    e.isAdd && e.addL != 0 && e.addR != 0 && decide (e.addL ≤ n.chainL.tail.height) &&
    decide (e.addR ≤ n.chainR.tail.height) && !n.logR.isModified e.htlcIndex).map Entry.htlcIndex

def mirrorHtlcs (hs : List Htlc) : List (Bool × Nat × Nat × Nat × Nat × Bool) :=
  hs.map fun h => (!h.incoming, h.idx, h.amt, h.expiry, h.hash, h.dust)

def htlcsOf (hs : List Htlc) : List (Bool × Nat × Nat × Nat × Nat × Bool) :=
  hs.map fun h => (h.incoming, h.idx, h.amt, h.expiry, h.hash, h.dust)

def sameSet {α} [BEq α] (a b : List α) : Bool := a.all b.contains && b.all a.contains && a.length == b.length

/-- `x` (local commitment of one node) and `y` (the peer's remote commitment) are mirror images. -/
def commitMirror (x y : Commit) : Bool :=
  x.height == y.height && x.our == y.their && x.their == y.our && x.fee == y.fee &&
  x.feePerKw == y.feePerKw && x.outs == y.outs && x.ourMsg == y.theirMsg && x.theirMsg == y.ourMsg &&
  sameSet (htlcsOf x.htlcs) (mirrorHtlcs y.htlcs)

def idle (s : System) : Bool :=
  s.ab.isEmpty && s.ba.isEmpty && !s.a.chainL.hasUnacked && !s.a.chainR.hasUnacked &&
  !s.b.chainL.hasUnacked && !s.b.chainR.hasUnacked && !oweLocal s.a && !oweLocal s.b

def constraintErr (e : Err) : Bool :=
  match e with
  | .ok | .belowReserve | .invalidAmt | .belowMin | .maxPending | .maxHtlcs | .feeFloor | .noWindow
  | .feeUnaffordable | .notInitiator | .feeAsInitiator => true
  | _ => false

/-- the local actions tried for a node in a state. -/
def actsOf (n : Node) (addsLeft : Nat) : List Act :=
  (if addsLeft > 0 then [Act.add 5000000 144 (7 + addsLeft), Act.add 300000 500 (3 + addsLeft)] else []) ++
  ((settleable n).take 1).flatMap (fun i => [Act.settle i, Act.fail i]) ++
  (if n.cfg.initiator && addsLeft > 1 then [Act.fee 500] else []) ++
  (if oweLocal n && !n.chainR.hasUnacked then [Act.sign] else []) ++
  (if n.chainL.hasUnacked then [Act.revoke] else [])

structure BState where
  s : System
  snapAB : List Node := []   -- signer's state right before each signature still in flight
  snapBA : List Node := []
  addsA : Nat
  addsB : Nat
  trace : List String := []

def actName : Act → String
  | .add a _ _ => s!"add{a}" | .settle i => s!"settle{i}" | .fail i => s!"fail{i}"
  | .malformedFail i => s!"mfail{i}" | .fee f => s!"fee{f}" | .sign => "sign" | .revoke => "revoke"

def checkState (st : BState) (b : BStat) : BStat :=
  let b := { b with states := b.states + 1 }
  if idle st.s then
    let b := { b with idleStates := b.idleStates + 1 }
    if commitMirror st.s.a.chainL.tip st.s.b.chainR.tip && commitMirror st.s.b.chainL.tip st.s.a.chainR.tip then b
    else b.fail s!"idle state is not a mirror image after {st.trace.reverse}"
  else b

def isAdd : Act → Bool
  | .add .. => true
  | _ => false

/-- one delivery; `none` = the branch dies (constraint rejection) or a failure was recorded. -/
def deliver (st : BState) (ab : Bool) (b : BStat) : Option BState × BStat :=
  let q := if ab then st.s.ab else st.s.ba
  match q with
  | [] => (none, b)
  | m :: rest =>
    let recv := if ab then st.s.b else st.s.a
    let r := recv.deliver m
    let tag := if ab then "dAB" else "dBA"
    let (b, snapAB, snapBA) :=
      match m with
      | .commitSig _ =>
        let snaps := if ab then st.snapAB else st.snapBA
        let b := { b with sigDeliveries := b.sigDeliveries + 1 }
        let b := match snaps.head? with
          | some signer => if agreeCheck signer recv then b
                           else b.fail s!"agreeCheck fails at {tag} after {st.trace.reverse}"
          | none => b
        (b, if ab then st.snapAB.drop 1 else st.snapAB, if ab then st.snapBA else st.snapBA.drop 1)
      | _ => (b, st.snapAB, st.snapBA)
    if r.1 != .ok then
      if r.1 == .invalidSig then (none, b.fail s!"invalidSig at {tag} after {st.trace.reverse}")
      else if constraintErr r.1 then (none, { b with deadBranches := b.deadBranches + 1 })
      else (none, b.fail s!"{r.1.toString} at {tag} after {st.trace.reverse}")
    else
      let s' := if ab then { st.s with b := r.2, ab := rest } else { st.s with a := r.2, ba := rest }
      (some { st with s := s', snapAB := snapAB, snapBA := snapBA, trace := tag :: st.trace }, b)

def localAct (st : BState) (isA : Bool) (x : Act) : BState :=
  let n := if isA then st.s.a else st.s.b
  let r := n.act x
  let sent := r.2.2.toList
  let s' := if isA then { st.s with a := r.2.1, ab := st.s.ab ++ sent }
            else { st.s with b := r.2.1, ba := st.s.ba ++ sent }
  let signed := match x with
    | .sign => r.1 == .ok
    | _ => false
  { st with s := s'
            snapAB := if isA && signed then st.snapAB ++ [n] else st.snapAB
            snapBA := if !isA && signed then st.snapBA ++ [n] else st.snapBA
            addsA := if isA && isAdd x then st.addsA - 1 else st.addsA
            addsB := if !isA && isAdd x then st.addsB - 1 else st.addsB
            trace := ((if isA then "A." else "B.") ++ actName x ++ (if r.1 == .ok then "" else "!" ++ r.1.toString)) :: st.trace }

partial def explore (depth : Nat) (st : BState) (b : BStat) : BStat :=
  let b := checkState st b
  if depth == 0 || b.failures > 0 then b else
  let b := (actsOf st.s.a st.addsA).foldl (fun b x => explore (depth - 1) (localAct st true x) b) b
  let b := (actsOf st.s.b st.addsB).foldl (fun b x => explore (depth - 1) (localAct st false x) b) b
  let b := match deliver st true b with
    | (some st', b) => explore (depth - 1) st' b
    | (none, b) => b
  match deliver st false b with
  | (some st', b) => explore (depth - 1) st' b
  | (none, b) => b

def mkCfg (anchors zeroFee : Bool) : Cfg :=
  { capacity := 1000000, initiator := true, anchors := anchors, zeroFee := zeroFee, taproot := false,
    dustL := 546, dustR := 354, resL := 10000, resR := 10000, minL := 1, minR := 1,
    maxPendL := 1000000000, maxPendR := 1000000000, maxAccL := 483, maxAccR := 483 }

def mkSystem (anchors zeroFee : Bool) : System :=
  let cfg := mkCfg anchors zeroFee
  let w := commitWeight cfg
  let fee := feeForWeight 253 w
  let anch := anchorsMsat cfg
  let cA : Commit := { height := 0, our := 600000000 - 1000 * fee - anch, their := 400000000, fee := fee,
                       feePerKw := 253, ourMsg := 0, theirMsg := 0, ourHtlc := 0, theirHtlc := 0 }
  let cB : Commit := { cA with our := cA.their, their := cA.our }
  { a := { cfg := cfg, chainL := { tail := cA }, chainR := { tail := cA } },
    b := { cfg := cfg.mirror, chainL := { tail := cB }, chainR := { tail := cB } } }

def run (depth : Nat) : BStat :=
  let b := explore depth { s := mkSystem false false, addsA := 2, addsB := 1 } {}
  explore depth { s := mkSystem true true, addsA := 1, addsB := 2 } b

end LndModel.C01.Bounded
