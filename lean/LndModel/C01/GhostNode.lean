/-
C01 — `GInv`: the ghost logs of one node, preserved by every operation of the link-disciplined
commitment dance (no update_fee).
-/
import LndModel.C01.GhostInv
set_option linter.unusedSimpArgs false
set_option linter.unusedVariables false

namespace LndModel.C01

structure GInv (n : Node) (GL GR : GLog) : Prop where
  L : GSide GL GR n.logL n.logR.htlcCounter (fun c => (n.chain c).tip.ourMsg) n.chainL.tail.theirMsg
  R : GSide GR GL n.logR n.logL.htlcCounter (fun c => (n.chain c).tip.theirMsg) n.chainR.tail.ourMsg
  pendL : n.chainL.pend = []
  win : n.chainR.pend.length ≤ 1
  ackL : n.chainL.tip.ourMsg ≤ n.chainR.tail.ourMsg
  ackR : n.chainR.tip.theirMsg ≤ n.chainL.tail.theirMsg
  tailR : n.chainR.tail.ourMsg ≤ n.chainR.tip.ourMsg

theorem chain_congr {n n' : Node} (hL : n'.chainL = n.chainL) (hR : n'.chainR = n.chainR) (c : Chain) :
    n'.chain c = n.chain c := by cases c <;> simp [Node.chain, hL, hR]

/-- a new entry in the local log (own update sent). -/
theorem GInv.appendL {n n' : Node} {GL GR : GLog} (h : GInv n GL GR) {pd : Entry}
    (hcL : n'.chainL = n.chainL) (hcR : n'.chainR = n.chainR)
    (he : n'.logL.entries = n.logL.entries ++ [pd]) (hl : n'.logL.logIndex = n.logL.logIndex + 1)
    (hidx : pd.logIndex = n.logL.logIndex) (hw : EWf pd) (hfresh : ∀ c, pd.onC c = false)
    (hpar : pd.isRes = true → pd.parent < n.logR.htlcCounter)
    (hctr : n.logL.htlcCounter ≤ n'.logL.htlcCounter)
    (hadd : pd.isAdd = true → pd.htlcIndex = n.logL.htlcCounter ∧ n.logL.htlcCounter < n'.logL.htlcCounter)
    (r1 : n'.logR.entries = n.logR.entries) (r2 : n'.logR.logIndex = n.logR.logIndex)
    (r3 : n'.logR.htlcCounter = n.logR.htlcCounter) :
    GInv n' (GL ++ [(pd, true)]) GR := by
  have t1 : (fun c => (n'.chain c).tip.ourMsg) = (fun c => (n.chain c).tip.ourMsg) := by
    funext c; rw [chain_congr hcL hcR]
  have t2 : (fun c => (n'.chain c).tip.theirMsg) = (fun c => (n.chain c).tip.theirMsg) := by
    funext c; rw [chain_congr hcL hcR]
  constructor
  · rw [t1, r3, hcL]
    exact h.L.snoc_own he hl hidx hw hfresh hpar hctr hadd
  · rw [t2, hcR]
    exact h.R.other_snoc hctr (fun ha => by have := (hadd ha).1; omega) r1 r2 r3
  · rw [hcL]; exact h.pendL
  · rw [hcR]; exact h.win
  · rw [hcL, hcR]; exact h.ackL
  · rw [hcL, hcR]; exact h.ackR
  · rw [hcR]; exact h.tailR

/-- a new entry in the remote log (peer's update received). -/
theorem GInv.appendR {n n' : Node} {GL GR : GLog} (h : GInv n GL GR) {pd : Entry}
    (hcL : n'.chainL = n.chainL) (hcR : n'.chainR = n.chainR)
    (he : n'.logR.entries = n.logR.entries ++ [pd]) (hl : n'.logR.logIndex = n.logR.logIndex + 1)
    (hidx : pd.logIndex = n.logR.logIndex) (hw : EWf pd) (hfresh : ∀ c, pd.onC c = false)
    (hpar : pd.isRes = true → pd.parent < n.logL.htlcCounter)
    (hctr : n.logR.htlcCounter ≤ n'.logR.htlcCounter)
    (hadd : pd.isAdd = true → pd.htlcIndex = n.logR.htlcCounter ∧ n.logR.htlcCounter < n'.logR.htlcCounter)
    (r1 : n'.logL.entries = n.logL.entries) (r2 : n'.logL.logIndex = n.logL.logIndex)
    (r3 : n'.logL.htlcCounter = n.logL.htlcCounter) :
    GInv n' GL (GR ++ [(pd, true)]) := by
  have t1 : (fun c => (n'.chain c).tip.ourMsg) = (fun c => (n.chain c).tip.ourMsg) := by
    funext c; rw [chain_congr hcL hcR]
  have t2 : (fun c => (n'.chain c).tip.theirMsg) = (fun c => (n.chain c).tip.theirMsg) := by
    funext c; rw [chain_congr hcL hcR]
  constructor
  · rw [t1, hcL]
    exact h.L.other_snoc hctr (fun ha => by have := (hadd ha).1; omega) r1 r2 r3
  · rw [t2, r3, hcR]
    exact h.R.snoc_own he hl hidx hw hfresh hpar hctr hadd
  · rw [hcL]; exact h.pendL
  · rw [hcR]; exact h.win
  · rw [hcL, hcR]; exact h.ackL
  · rw [hcL, hcR]; exact h.ackR
  · rw [hcR]; exact h.tailR

/-! ### the entries the API creates -/

def addEntry (log : Log) (amt expiry hash : Nat) : Entry :=
  { ty := .add, amt := amt, logIndex := log.logIndex, htlcIndex := log.htlcCounter, expiry := expiry, hash := hash }

def resEntry (log : Log) (ty : ETy) (idx : Nat) (h : Entry) : Entry :=
  { ty := ty, amt := h.amt, logIndex := log.logIndex, parent := idx, hash := h.hash }

theorem addEntry_wf (log : Log) (a e h : Nat) : EWf (addEntry log a e h) :=
  ⟨rfl, fun _ => ⟨rfl, rfl⟩, fun hr => by simp [addEntry, Entry.isRes] at hr, fun _ => rfl,
    fun hr => by simp [addEntry, Entry.isRes] at hr⟩

theorem addEntry_fresh (log : Log) (a e h : Nat) (c : Chain) : (addEntry log a e h).onC c = false := by
  cases c <;> simp [addEntry, Entry.onC, Entry.isAdd, Entry.addH]

theorem resEntry_wf (log : Log) {ty : ETy} (hty : ty = .settle ∨ ty = .fail ∨ ty = .malformed) (idx : Nat) (h : Entry) :
    EWf (resEntry log ty idx h) := by
  rcases hty with rfl | rfl | rfl <;>
    exact ⟨rfl, fun ha => by simp [resEntry, Entry.isAdd] at ha, fun _ => ⟨rfl, rfl⟩,
      fun ha => by simp [resEntry, Entry.isAdd] at ha, fun _ => ⟨rfl, rfl⟩⟩

theorem resEntry_isRes (log : Log) {ty : ETy} (hty : ty = .settle ∨ ty = .fail ∨ ty = .malformed) (idx : Nat) (h : Entry) :
    (resEntry log ty idx h).isRes = true := by
  rcases hty with rfl | rfl | rfl <;> rfl

theorem resEntry_fresh (log : Log) {ty : ETy} (hty : ty = .settle ∨ ty = .fail ∨ ty = .malformed) (idx : Nat) (h : Entry)
    (c : Chain) : (resEntry log ty idx h).onC c = false := by
  rcases hty with rfl | rfl | rfl <;> cases c <;> simp [resEntry, Entry.onC, Entry.isAdd, Entry.rmvH]

theorem addHTLC_ok_eq {n : Node} {a e h : Nat} (hok : (n.addHTLC a e h).1 = .ok) :
    (n.addHTLC a e h).2 = { n with logL := n.logL.appendHtlc (addEntry n.logL a e h) } := by
  unfold Node.addHTLC at hok ⊢
  simp only at hok ⊢
  split
  · split
    · rfl
    · exfalso; split at hok <;> simp_all
  · exfalso; split at hok <;> simp_all

theorem receiveHTLC_ok_eq {n : Node} {i a e h : Nat} (hok : (n.receiveHTLC i a e h).1 = .ok) :
    i = n.logR.htlcCounter ∧
    (n.receiveHTLC i a e h).2 = { n with logR := n.logR.appendHtlc (addEntry n.logR a e h) } := by
  unfold Node.receiveHTLC at hok ⊢
  split
  · rename_i hne; simp [hne] at hok
  · rename_i heq
    have heq' : i = n.logR.htlcCounter := by simpa using heq
    refine ⟨heq', ?_⟩
    simp only [heq, if_false] at hok
    simp only
    split
    · rfl
    · exfalso; split at hok <;> simp_all

theorem resolveLocal_ok_eq {n : Node} {ty : ETy} {idx : Nat} {p : Bool} (hok : (n.resolveLocal ty idx p).1 = .ok) :
    ∃ h, lookupHtlc n.logR.entries idx = some h ∧
      (n.resolveLocal ty idx p).2 =
        { n with logL := n.logL.appendUpdate (resEntry n.logL ty idx h), logR := n.logR.markModified idx } := by
  unfold Node.resolveLocal at hok ⊢
  split
  · rename_i hl; simp [hl] at hok
  · rename_i h hl
    refine ⟨h, hl, ?_⟩
    simp only [hl] at hok
    simp only
    split
    · rename_i hm; simp [hm] at hok
    · rename_i hm
      simp only [hm, Bool.false_eq_true, if_false] at hok
      split
      · rename_i hp; simp [hp] at hok
      · rfl

theorem resolveRemote_ok_eq {n : Node} {ty : ETy} {idx : Nat} {p : Bool} (hok : (n.resolveRemote ty idx p).1 = .ok) :
    ∃ h, lookupHtlc n.logL.entries idx = some h ∧
      (n.resolveRemote ty idx p).2 =
        { n with logR := n.logR.appendUpdate (resEntry n.logR ty idx h), logL := n.logL.markModified idx } := by
  unfold Node.resolveRemote at hok ⊢
  split
  · rename_i hl; simp [hl] at hok
  · rename_i h hl
    refine ⟨h, hl, ?_⟩
    simp only [hl] at hok
    simp only
    split
    · rename_i hm; simp [hm] at hok
    · rename_i hm
      simp only [hm, Bool.false_eq_true, if_false] at hok
      split
      · rename_i hp; simp [hp] at hok
      · rfl

theorem GInv.addHTLC {n : Node} {GL GR : GLog} (h : GInv n GL GR) {a e hh : Nat}
    (hok : (n.addHTLC a e hh).1 = .ok) :
    GInv (n.addHTLC a e hh).2 (GL ++ [(addEntry n.logL a e hh, true)]) GR := by
  rw [addHTLC_ok_eq hok]
  exact h.appendL rfl rfl rfl rfl rfl (addEntry_wf _ _ _ _) (addEntry_fresh _ _ _ _)
    (fun hr => by simp [addEntry, Entry.isRes] at hr) (by simp [Log.appendHtlc])
    (fun _ => ⟨rfl, by simp [Log.appendHtlc]⟩) rfl rfl rfl

theorem GInv.receiveHTLC {n : Node} {GL GR : GLog} (h : GInv n GL GR) {i a e hh : Nat}
    (hok : (n.receiveHTLC i a e hh).1 = .ok) :
    GInv (n.receiveHTLC i a e hh).2 GL (GR ++ [(addEntry n.logR a e hh, true)]) := by
  rw [(receiveHTLC_ok_eq hok).2]
  exact h.appendR rfl rfl rfl rfl rfl (addEntry_wf _ _ _ _) (addEntry_fresh _ _ _ _)
    (fun hr => by simp [addEntry, Entry.isRes] at hr) (by simp [Log.appendHtlc])
    (fun _ => ⟨rfl, by simp [Log.appendHtlc]⟩) rfl rfl rfl

theorem lookup_hi_lt {G O : GLog} {log : Log} {oc : Nat} {tip : Chain → Nat} {b : Nat}
    (h : GSide G O log oc tip b) {idx : Nat} {x : Entry} (hl : lookupHtlc log.entries idx = some x) :
    idx < log.htlcCounter ∧ (x, true) ∈ G ∧ x.isAdd = true ∧ x.htlcIndex = idx := by
  obtain ⟨h1, h2, h3⟩ := lookupHtlc_some hl
  rw [h.act] at h1
  have hm := GLog.mem_kept.mp h1
  have := h.hi x (GLog.mem_all hm) h2
  exact ⟨by omega, hm, h2, h3⟩

theorem GInv.resolveLocal {n : Node} {GL GR : GLog} (h : GInv n GL GR) {ty : ETy}
    (hty : ty = .settle ∨ ty = .fail ∨ ty = .malformed) {idx : Nat} {p : Bool}
    (hok : (n.resolveLocal ty idx p).1 = .ok) :
    ∃ x, lookupHtlc n.logR.entries idx = some x ∧
      GInv (n.resolveLocal ty idx p).2 (GL ++ [(resEntry n.logL ty idx x, true)]) GR := by
  obtain ⟨x, hl, heq⟩ := resolveLocal_ok_eq hok
  refine ⟨x, hl, ?_⟩
  rw [heq]
  exact h.appendL rfl rfl rfl rfl rfl (resEntry_wf _ hty _ _) (resEntry_fresh _ hty _ _)
    (fun _ => (lookup_hi_lt h.R hl).1) (by simp [Log.appendUpdate])
    (fun ha => by have := isRes_not_isAdd _ (resEntry_isRes n.logL hty idx x); rw [ha] at this; cases this)
    rfl rfl rfl

theorem GInv.resolveRemote {n : Node} {GL GR : GLog} (h : GInv n GL GR) {ty : ETy}
    (hty : ty = .settle ∨ ty = .fail ∨ ty = .malformed) {idx : Nat} {p : Bool}
    (hok : (n.resolveRemote ty idx p).1 = .ok) :
    ∃ x, lookupHtlc n.logL.entries idx = some x ∧
      GInv (n.resolveRemote ty idx p).2 GL (GR ++ [(resEntry n.logR ty idx x, true)]) := by
  obtain ⟨x, hl, heq⟩ := resolveRemote_ok_eq hok
  refine ⟨x, hl, ?_⟩
  rw [heq]
  exact h.appendR rfl rfl rfl rfl rfl (resEntry_wf _ hty _ _) (resEntry_fresh _ hty _ _)
    (fun _ => (lookup_hi_lt h.L hl).1) (by simp [Log.appendUpdate])
    (fun ha => by have := isRes_not_isAdd _ (resEntry_isRes n.logR hty idx x); rw [ha] at this; cases this)
    rfl rfl rfl

/-! ### commitments -/

theorem fetch_node {n : Node} {c : Chain} {iL hL iR hR : Nat} {cm : Commit} {n' : Node}
    (hf : fetchCommitmentView n c iL hL iR hR = .ok (cm, n')) :
    n' = { n with
      logL := { n.logL with entries := commitLog c ((n.chain c).tip.height + 1) iL n.logL.entries },
      logR := { n.logR with entries := commitLog c ((n.chain c).tip.height + 1) iR n.logR.entries } } := by
  unfold fetchCommitmentView at hf
  split at hf
  · cases hf
  · simp only at hf
    split at hf
    · cases hf
    · simp only [Except.ok.injEq, Prod.mk.injEq] at hf
      exact hf.2.symm

theorem sign_ok_form {n : Node} (hok : (n.sign).1 = .ok) :
    ∃ cm n1, n.chainR.pend = [] ∧
      sanity n n.chainL.tail.theirMsg n.logL.logIndex .rem .none [] [] = .ok ∧
      fetchCommitmentView n .rem n.logL.logIndex n.logL.htlcCounter n.chainL.tail.theirMsg n.chainL.tail.theirHtlc
        = .ok (cm, n1) ∧
      (n.sign).2.1 = { n1 with chainR := { n1.chainR with pend := n1.chainR.pend ++ [cm] } } ∧
      (n.sign).2.2 = some cm.sigView := by
  unfold Node.sign at hok ⊢
  split
  · rename_i hw; simp [hw] at hok
  · rename_i hun
    have hp : n.chainR.pend = [] := by
      simp only [CChain.hasUnacked, Bool.not_eq_true, Bool.not_eq_false', List.isEmpty_iff] at hun
      exact hun
    simp only [hun, Bool.false_eq_true, if_false] at hok
    simp only
    split
    · rename_i hs
      simp only [hs] at hok
      split
      · rename_i er hfe; simp only [hfe] at hok; exact absurd hok (fetch_err hfe)
      · rename_i cm n1 hf
        exact ⟨cm, n1, hp, hs, hf, rfl, rfl⟩
    · rename_i hne
      split at hok
      · rename_i hs; exact absurd hs hne
      · exact absurd hok (by assumption)

theorem recv_ok_form {n : Node} {sv : SigView} (hok : (n.receiveCommitGo sv).1 = .ok) :
    ∃ cm n1,
      sanity n n.logR.logIndex n.chainR.tail.ourMsg .loc .none [] [] = .ok ∧
      fetchCommitmentView n .loc n.chainR.tail.ourMsg n.chainR.tail.ourHtlc n.logR.logIndex n.logR.htlcCounter
        = .ok (cm, n1) ∧ cm.sigView = sv ∧
      (n.receiveCommitGo sv).2 = { n1 with chainL := { n1.chainL with pend := n1.chainL.pend ++ [cm] } } := by
  unfold Node.receiveCommitGo at hok ⊢
  simp only at hok ⊢
  split
  · rename_i hs
    simp only [hs] at hok
    split
    · rename_i er hfe; simp only [hfe] at hok; exact absurd hok (fetch_err hfe)
    · rename_i cm n1 hf
      simp only [hf] at hok
      by_cases hsv : cm.sigView = sv
      · simp only [hsv, if_true]
        exact ⟨cm, n1, hs, hf, hsv, rfl⟩
      · simp [hsv] at hok
  · rename_i hne
    split at hok
    · rename_i hs; exact absurd hs hne
    · exact absurd hok (by assumption)

/-- `SignNextCommitment` succeeded. -/
theorem GInv.sign {n : Node} {GL GR : GLog} (h : GInv n GL GR) (hok : (n.sign).1 = .ok) :
    GInv (n.sign).2.1
      (GL.mapE (cm1 .rem (n.chainR.tip.height + 1) n.logL.logIndex))
      (GR.mapE (cm1 .rem (n.chainR.tip.height + 1) n.chainL.tail.theirMsg)) := by
  obtain ⟨cm, n1, hp, _, hf, heq, _⟩ := sign_ok_form hok
  obtain ⟨i1, i2, i3, _⟩ := fetch_idx hf
  have hn := fetch_node hf
  rw [heq, hn]
  have htip : ({ tail := n.chainR.tail, pend := n.chainR.pend ++ [cm] } : CChain).tip = cm := tip_push n.chainR cm
  have htipL : n.chainL.tip = n.chainL.tail := by simp [CChain.tip, h.pendL]
  constructor
  · refine GSide.commit (tip := fun c => (n.chain c).tip.ourMsg) h.L .rem _ _ _ (by omega) ?_ ?_ ?_
    · have := h.L.tips .rem; have := h.L.len; simp only [Node.chain] at *; omega
    · have := h.L.len; omega
    · intro c'; cases c'
      · simp [Node.chain]
      · simp only [Node.chain, if_true]; rw [htip, i2]
  · refine GSide.commit (tip := fun c => (n.chain c).tip.theirMsg) h.R .rem _ _ _ (by omega) ?_ ?_ ?_
    · exact h.ackR
    · have := h.R.tips .loc; simp only [Node.chain] at this; rw [htipL] at this; exact this
    · intro c'; cases c'
      · simp [Node.chain]
      · simp only [Node.chain, if_true]; rw [htip, i3]
  · exact h.pendL
  · simp [hp]
  · exact h.ackL
  · show ({ tail := n.chainR.tail, pend := n.chainR.pend ++ [cm] } : CChain).tip.theirMsg ≤ _
    rw [htip, i3]; exact Nat.le_refl _
  · show n.chainR.tail.ourMsg ≤ ({ tail := n.chainR.tail, pend := n.chainR.pend ++ [cm] } : CChain).tip.ourMsg
    rw [htip, i2]
    have := h.tailR; have := h.L.tips .rem; have := h.L.len; simp only [Node.chain] at *; omega

/-- `ReceiveNewCommitment` succeeded and the commitment is revoked for at once (link discipline). -/
theorem GInv.recvSig {n : Node} {GL GR : GLog} {sv : SigView} (h : GInv n GL GR)
    (hok : (n.receiveCommitGo sv).1 = .ok) :
    ((n.receiveCommitGo sv).2.revoke).1 = .ok ∧
    GInv ((n.receiveCommitGo sv).2.revoke).2
      (GL.mapE (cm1 .loc (n.chainL.tip.height + 1) n.chainR.tail.ourMsg))
      (GR.mapE (cm1 .loc (n.chainL.tip.height + 1) n.logR.logIndex)) := by
  obtain ⟨cm, n1, _, hf, _, heq⟩ := recv_ok_form hok
  obtain ⟨i1, i2, i3, _⟩ := fetch_idx hf
  have hn := fetch_node hf
  have hpend : (n.receiveCommitGo sv).2.chainL.pend = [cm] := by rw [heq, hn]; simp [h.pendL]
  rw [revoke_skel _ cm [] hpend]
  refine ⟨rfl, ?_⟩
  rw [heq, hn]
  have htipL : n.chainL.tip = n.chainL.tail := by simp [CChain.tip, h.pendL]
  have hnew : ({ tail := cm, pend := [] } : CChain).tip = cm := by simp [CChain.tip]
  constructor
  · refine GSide.bound_mono (b := n.chainL.tail.theirMsg) ?_ ?_
    · refine GSide.commit (tip := fun c => (n.chain c).tip.ourMsg) h.L .loc _ _ _ (by omega) ?_ ?_ ?_
      · exact h.ackL
      · have := h.tailR; have := h.L.tips .rem; simp only [Node.chain] at *; omega
      · intro c'; cases c'
        · simp only [Node.chain, if_true]; rw [hnew, i2]
        · simp [Node.chain]
    · show n.chainL.tail.theirMsg ≤ cm.theirMsg
      rw [i3]
      have t1 := h.R.tips .loc; have t2 := h.R.len; simp only [Node.chain] at t1; rw [htipL] at t1; omega
  · refine GSide.commit (tip := fun c => (n.chain c).tip.theirMsg) h.R .loc _ _ _ (by omega) ?_ ?_ ?_
    · have := h.R.tips .loc; have := h.R.len; simp only [Node.chain] at *; omega
    · have := h.R.len; omega
    · intro c'; cases c'
      · simp only [Node.chain, if_true]; rw [hnew, i3]
      · simp [Node.chain]
  · rfl
  · exact h.win
  · show ({ tail := cm, pend := [] } : CChain).tip.ourMsg ≤ _
    rw [hnew, i2]; exact Nat.le_refl _
  · show n.chainR.tip.theirMsg ≤ cm.theirMsg
    rw [i3]
    have := h.R.tips .rem; have := h.R.len; simp only [Node.chain] at *; omega
  · exact h.tailR

/-! ### revocation received: compaction -/

theorem compactLogs_eq (lt rt : Nat) (o t : Log) :
    compactLogs lt rt o t =
      (passB ((goneRes lt rt (passB ((goneRes lt rt o.entries).map Entry.parent) t).entries).map Entry.parent)
          (passA lt rt o),
       passA lt rt (passB ((goneRes lt rt o.entries).map Entry.parent) t)) := by
  unfold compactLogs
  simp only [compactPass_parents]

theorem removable_onC {lt rt : Nat} {r : Entry} (h : removable lt rt r = true) (c : Chain) : r.onC c = true := by
  obtain ⟨h1, h2⟩ := removable_spec h
  unfold Entry.onC
  simp [h1, h2 c]

/-- `ReceiveRevocation` succeeded: the remote tail advances, the logs are compacted; the ghost
    logs keep all their entries. -/
theorem GInv.recvRev {n : Node} {GL GR : GLog} (h : GInv n GL GR) (hok : (n.receiveRevocation).1 = .ok) :
    ∃ GL' GR', GInv (n.receiveRevocation).2 GL' GR' ∧ GL'.all = GL.all ∧ GR'.all = GR.all := by
  cases hp : n.chainR.pend with
  | nil => rw [receiveRevocation_none n hp] at hok; cases hok
  | cons c rest =>
    have hrest : rest = [] := by
      have := h.win; rw [hp] at this
      cases rest with
      | nil => rfl
      | cons _ _ => simp at this
    subst hrest
    have htipR : n.chainR.tip = c := by simp [CChain.tip, hp]
    have htipL : n.chainL.tip = n.chainL.tail := by simp [CChain.tip, h.pendL]
    have R0 : GSide GR GL n.logR n.logL.htlcCounter (fun c => (n.chain c).tip.theirMsg) c.ourMsg := by
      refine h.R.bound_mono ?_
      have := h.tailR; rw [htipR] at this; exact this
    have hb1 : ∀ r ∈ n.logL.entries, removable (n.chainL.tail.height) (n.chainR.tail.height + 1) r = true →
        r.logIndex < c.ourMsg := by
      intro r hr hrem
      rw [h.L.act] at hr
      have := (h.L.hc r (GLog.mem_all (GLog.mem_kept.mp hr)) .rem).mp (removable_onC hrem .rem)
      simp only [Node.chain] at this; rw [htipR] at this; exact this
    obtain ⟨A1, B1⟩ := GSide.compactPass h.L R0 (n.chainL.tail.height) (n.chainR.tail.height + 1) hb1
    have hb2 : ∀ r ∈ (passB ((goneRes (n.chainL.tail.height) (n.chainR.tail.height + 1) n.logL.entries).map Entry.parent) n.logR).entries,
        removable (n.chainL.tail.height) (n.chainR.tail.height + 1) r = true → r.logIndex < n.chainL.tail.theirMsg := by
      intro r hr hrem
      rw [B1.act] at hr
      have := (B1.hc r (GLog.mem_all (GLog.mem_kept.mp hr)) .loc).mp (removable_onC hrem .loc)
      simp only [Node.chain] at this; rw [htipL] at this; exact this
    obtain ⟨A2, B2⟩ := GSide.compactPass B1 A1 (n.chainL.tail.height) (n.chainR.tail.height + 1) hb2
    refine ⟨?_, ?_, ?_, ?_, ?_⟩
    rotate_left 2
    · unfold Node.receiveRevocation
      rw [hp]
      simp only [compactLogs_eq]
      have t1 : ∀ (f : Commit → Nat), (fun c' => f (({ n with chainR := { tail := c, pend := [] } } : Node).chain c').tip) =
          (fun c' => f (n.chain c').tip) := by
        intro f; funext c'; cases c'
        · rfl
        · simp only [Node.chain]; rw [htipR]; rfl
      constructor
      · have e := t1 Commit.ourMsg
        have B2' := B2
        rw [← e] at B2'
        exact B2'
      · have e := t1 Commit.theirMsg
        have A2' := A2
        rw [← e] at A2'
        exact A2'
      · exact h.pendL
      · simp
      · show n.chainL.tip.ourMsg ≤ c.ourMsg
        have := h.ackL; have := h.tailR; rw [htipR] at this; omega
      · show ({ tail := c, pend := [] } : CChain).tip.theirMsg ≤ n.chainL.tail.theirMsg
        have := h.ackR; rw [htipR] at this; simpa [CChain.tip] using this
      · show c.ourMsg ≤ ({ tail := c, pend := [] } : CChain).tip.ourMsg
        simp [CChain.tip]
    · rw [GLog.all_drop, GLog.all_drop]
    · rw [GLog.all_drop, GLog.all_drop]

end LndModel.C01
