/-
C01 — theorems about the second-level HTLC transactions and the order of the HTLC signatures
(model: `HtlcTx.lean`, tied to lnwallet by the driver's correspondence diff on every real
commitment_signed: lines `J` / `V` of the C01 trace).

* `secondTx_value_nondust`   a non-dust HTLC's second-level output is amount − fee exactly (no
                             underflow) and is itself not below the dust limit.
* `job_determined_by_output` the second-level transaction of an HTLC is a function of the commitment
                             output it spends (value, pkScript, CLTV) and of that output's index —
                             not of which of several identical HTLCs was assigned to the output.
* `htlc_sig_order`           signer and receiver, each with ITS OWN index assignment on the same sorted
                             transaction, derive the identical list of second-level transactions in
                             signature order: the i-th HTLC signature of commitment_signed covers
                             exactly the transaction the receiver checks it against.
* `index_set_is_htlc_outputs` a valid assignment with as many non-dust HTLCs as HTLC outputs uses exactly the
                             HTLC output positions (counting); `htlc_sig_order_counted` = `htlc_sig_order`
                             with the "same index set" hypothesis replaced by that per-side count.
* `populate_assign`          `populateHtlcIndexes` (dust HTLCs skipped) is TxOrder's `assignFrom` on the
                             non-dust HTLCs.
* `populate_valid`           under the hypotheses of `duplicate_htlc_output_bijection`,
                             `populateHtlcIndexes` succeeds and its result is a valid assignment.
-/
import LndModel.C01.HtlcTx
import LndModel.C01.Mirror

namespace LndModel.C01

/-! ### the second-level output value -/

/-- **secondTx_value_nondust**: for an HTLC that `HtlcIsDust` does not trim, the output of the
    second-level transaction is the HTLC amount minus the second-level fee with no underflow, and
    it is at least the dust limit of the commitment's owner. -/
theorem secondTx_value_nondust (cfg : Cfg) (c : Chain) (feePerKw : Nat) (incoming : Bool) (amtSat expiry oi : Nat)
    (hd : htlcIsDust cfg incoming c feePerKw amtSat (cfg.dust c) = false) :
    let off := incoming == (c == .rem)
    let t := secondTx cfg feePerKw off amtSat expiry oi
    let fee := if off then htlcTimeoutFee cfg feePerKw else htlcSuccessFee cfg feePerKw
    t.value + fee = amtSat ∧ cfg.dust c ≤ t.value ∧ t.prevValue = amtSat ∧
    t.success = !off ∧ t.lockTime = (if off then expiry else 0) := by
  have e1 : (Chain.loc == Chain.rem) = false := by decide
  cases incoming <;> cases c <;> simp [htlcIsDust, secondTx, e1] at hd ⊢ <;> omega

/-! ### active (non-dust, indexed) HTLCs and their jobs -/

/-- the non-dust HTLCs with their recorded output index. -/
def act (z : List (Htlc × Option Nat)) : List (Htlc × Nat) :=
  z.filterMap fun p => if p.1.dust then none else p.2.map fun i => (p.1, i)

def jobOf (cfg : Cfg) (c : Chain) (f : Nat) (p : Htlc × Nat) : SecondTx :=
  secondTx cfg f (p.1.offeredOn c) (p.1.amt / 1000) p.1.expiry p.2

theorem jobOf_index (cfg : Cfg) (c : Chain) (f : Nat) (p : Htlc × Nat) : (jobOf cfg c f p).outIndex = p.2 := rfl

theorem jobsOf_eq (cfg : Cfg) (c : Chain) (f : Nat) (z : List (Htlc × Option Nat)) :
    jobsOf cfg c f z = (act z).map (jobOf cfg c f) := by
  unfold jobsOf act
  rw [List.map_filterMap]
  congr 1
  funext p
  by_cases h : p.1.dust = true
  · simp [h]
  · cases h2 : p.2 <;> simp [h, jobOf]

theorem mem_act {z : List (Htlc × Option Nat)} {p : Htlc × Nat} :
    p ∈ act z ↔ (p.1, some p.2) ∈ z ∧ p.1.dust = false := by
  unfold act
  rw [List.mem_filterMap]
  constructor
  · rintro ⟨q, hq, he⟩
    by_cases h : q.1.dust = true
    · simp [h] at he
    · cases h2 : q.2 with
      | none => simp [h, h2] at he
      | some i =>
        simp [h, h2] at he
        subst he
        refine ⟨?_, by simpa using h⟩
        have : q = (q.1, some i) := by rw [← h2]
        rw [← this]; exact hq
  · rintro ⟨hm, hd⟩
    exact ⟨(p.1, some p.2), hm, by simp [hd]⟩

/-- an index assignment on the sorted transaction `tx`: every non-dust HTLC points at an output
    with its value, pkScript and CLTV, and no index is used twice. -/
structure Valid (tx : List TxO) (σ : Out → Nat) (c : Chain) (z : List (Htlc × Option Nat)) : Prop where
  hit : ∀ p ∈ act z, tx[p.2]? = some ((p.1.out c).tx σ)
  nodup : ((act z).map (·.2)).Nodup

theorem secondTx_mirror (cfg : Cfg) (f : Nat) (t : Bool) (a e k : Nat) :
    secondTx cfg.mirror f t a e k = secondTx cfg f t a e k := rfl

/-- **job_determined_by_output**: if the pkScript tells offered-HTLC outputs from the others, two
    HTLCs (on whichever side, whoever's perspective) whose commitment outputs coincide in value,
    pkScript and CLTV have the same second-level transaction at the same output index. -/
theorem job_determined_by_output {σ : Out → Nat}
    (hσ : ∀ o o' : Out, σ o = σ o' → (o.kind = .offered ↔ o'.kind = .offered))
    (cfg : Cfg) (f : Nat) {c c' : Chain} {h h' : Htlc} (k : Nat)
    (e : (h.out c).tx σ = (h'.out c').tx σ) :
    jobOf cfg c f (h, k) = jobOf cfg.mirror c' f (h', k) := by
  simp only [Out.tx, TxO.mk.injEq] at e
  obtain ⟨e1, e2, e3⟩ := e
  have hk := hσ _ _ e2
  have ho : h.offeredOn c = h'.offeredOn c' := by
    simp only [Htlc.out] at hk
    cases a : h.offeredOn c <;> cases b : h'.offeredOn c' <;> simp [a, b] at hk ⊢
  simp only [Htlc.out] at e1 e3
  show secondTx cfg f (h.offeredOn c) (h.amt / 1000) h.expiry k =
    secondTx cfg.mirror f (h'.offeredOn c') (h'.amt / 1000) h'.expiry k
  rw [secondTx_mirror, ho, e1, e3]

/-! ### strictly sorted lists with the same elements are equal -/

theorem sorted_unique {l₁ l₂ : List SecondTx}
    (s₁ : l₁.Pairwise (fun a b => a.outIndex < b.outIndex)) (s₂ : l₂.Pairwise (fun a b => a.outIndex < b.outIndex))
    (hm : ∀ x, x ∈ l₁ ↔ x ∈ l₂) : l₁ = l₂ := by
  have n₁ : l₁.Nodup := s₁.imp (fun {a b} h e => by subst e; exact Nat.lt_irrefl _ h)
  have n₂ : l₂.Nodup := s₂.imp (fun {a b} h e => by subst e; exact Nat.lt_irrefl _ h)
  have hp : l₁.Perm l₂ := (List.perm_ext_iff_of_nodup n₁ n₂).mpr hm
  exact List.Perm.eq_of_pairwise (le := fun a b => a.outIndex < b.outIndex)
    (fun a b _ _ h1 h2 => absurd h1 (Nat.lt_asymm h2)) s₁ s₂ hp

/-! ### the signer's list -/

theorem act_filter_perm (z : List (Htlc × Option Nat)) (q : Htlc × Option Nat → Bool) :
    (act (z.filter q) ++ act (z.filter (fun p => !q p))).Perm (act z) := by
  unfold act
  rw [← List.filterMap_append]
  exact (List.filter_append_perm q z).filterMap _

theorem signJobs_perm (cfg : Cfg) (cm : Commit) (idx : List (Option Nat)) :
    (signJobs cfg cm idx).Perm ((act (cm.htlcs.zip idx)).map (jobOf cfg .rem cm.feePerKw)) := by
  unfold signJobs
  simp only [jobsOf_eq]
  refine (List.mergeSort_perm _ _).trans ?_
  rw [← List.map_append]
  exact (act_filter_perm _ _).map _

theorem signJobs_sorted (cfg : Cfg) (cm : Commit) (idx : List (Option Nat))
    (hn : ((act (cm.htlcs.zip idx)).map (·.2)).Nodup) :
    (signJobs cfg cm idx).Pairwise (fun a b => a.outIndex < b.outIndex) := by
  have hle : (signJobs cfg cm idx).Pairwise (fun a b => jobLe a b = true) := by
    unfold signJobs
    apply List.pairwise_mergeSort
    · intro a b c h1 h2; simp only [jobLe, decide_eq_true_eq] at *; omega
    · intro a b; simp only [jobLe, Bool.or_eq_true, decide_eq_true_eq]; omega
  have hnd : ((signJobs cfg cm idx).map (·.outIndex)).Nodup := by
    have hp := (signJobs_perm cfg cm idx).map (·.outIndex)
    rw [List.map_map] at hp
    have e : ((fun x : SecondTx => x.outIndex) ∘ jobOf cfg .rem cm.feePerKw) = (fun p : Htlc × Nat => p.2) := by
      funext p; rfl
    rw [e] at hp
    exact hp.nodup_iff.mpr hn
  have hne : (signJobs cfg cm idx).Pairwise (fun a b => a.outIndex ≠ b.outIndex) := by
    have := List.pairwise_map.mp hnd
    exact this
  exact hle.imp₂ (fun a b h1 h2 => by simp only [jobLe, decide_eq_true_eq] at h1; omega) hne

/-! ### the receiver's list -/

theorem lastAt_some {z : List (Htlc × Option Nat)} {inc : Bool} {k : Nat} {h : Htlc}
    (e : lastAt z inc k = some h) : (h, k) ∈ act z ∧ h.incoming = inc := by
  unfold lastAt at e
  rw [Option.map_eq_some_iff] at e
  obtain ⟨p, hp, rfl⟩ := e
  have hm := List.mem_of_getLast? hp
  rw [List.mem_filter] at hm
  obtain ⟨hz, hc⟩ := hm
  simp only [Bool.and_eq_true, beq_iff_eq, Bool.not_eq_eq_eq_not, Bool.not_true] at hc
  obtain ⟨⟨h1, h2⟩, h3⟩ := hc
  refine ⟨mem_act.mpr ⟨?_, h2⟩, h1⟩
  have : p = (p.1, some k) := by rw [← h3]
  rw [← this]; exact hz

theorem lastAt_none {z : List (Htlc × Option Nat)} {inc : Bool} {k : Nat}
    (e : lastAt z inc k = none) : ∀ h, (h, k) ∈ act z → h.incoming ≠ inc := by
  intro h hm hi
  unfold lastAt at e
  rw [Option.map_eq_none_iff, List.getLast?_eq_none_iff] at e
  have : (h, some k) ∈ z.filter (fun p => p.1.incoming == inc && !p.1.dust && p.2 == some k) := by
    rw [List.mem_filter]
    obtain ⟨h1, h2⟩ := mem_act.mp hm
    have h2' : h.dust = false := h2
    exact ⟨h1, by simp [hi, h2']⟩
  rw [e] at this
  cases this

/-- the job of output index `k` in the receiver's pass, as a function. -/
def verifyAt (cfg : Cfg) (cm : Commit) (z : List (Htlc × Option Nat)) (k : Nat) : Option (Nat × Bool × SecondTx) :=
  match lastAt z true k with
  | some h => some (h.idx, true, secondTx cfg cm.feePerKw false (h.amt / 1000) h.expiry k)
  | none =>
    match lastAt z false k with
    | some h => some (h.idx, false, secondTx cfg cm.feePerKw true (h.amt / 1000) h.expiry k)
    | none => none

theorem verifyJobs_eq (cfg : Cfg) (cm : Commit) (idx : List (Option Nat)) (n : Nat) :
    verifyJobs cfg cm idx n = (List.range n).filterMap (verifyAt cfg cm (cm.htlcs.zip idx)) := rfl

theorem verifyAt_some {cfg : Cfg} {cm : Commit} {z : List (Htlc × Option Nat)} {k : Nat} {r : Nat × Bool × SecondTx}
    (e : verifyAt cfg cm z k = some r) : ∃ h, (h, k) ∈ act z ∧ r.2.2 = jobOf cfg .loc cm.feePerKw (h, k) := by
  have e1 : (Chain.loc == Chain.rem) = false := by decide
  unfold verifyAt at e
  split at e
  · rename_i h hl
    obtain ⟨hm, hi⟩ := lastAt_some hl
    cases e
    exact ⟨h, hm, by simp [jobOf, Htlc.offeredOn, hi, e1]⟩
  · split at e
    · rename_i h hl
      obtain ⟨hm, hi⟩ := lastAt_some hl
      cases e
      exact ⟨h, hm, by simp [jobOf, Htlc.offeredOn, hi, e1]⟩
    · cases e

theorem verifyAt_none {cfg : Cfg} {cm : Commit} {z : List (Htlc × Option Nat)} {k : Nat}
    (e : verifyAt cfg cm z k = none) : ∀ h, (h, k) ∉ act z := by
  intro h hm
  unfold verifyAt at e
  split at e
  · cases e
  · rename_i h1
    split at e
    · cases e
    · rename_i h2
      cases hi : h.incoming
      · exact lastAt_none h2 h hm hi
      · exact lastAt_none h1 h hm hi

theorem verifyJobs_sorted (cfg : Cfg) (cm : Commit) (idx : List (Option Nat)) (n : Nat) :
    ((verifyJobs cfg cm idx n).map (·.2.2)).Pairwise (fun a b => a.outIndex < b.outIndex) := by
  rw [verifyJobs_eq, List.pairwise_map]
  apply List.Pairwise.filterMap (R := fun a b : Nat => a < b) _ _ List.pairwise_lt_range
  intro a a' hlt b hb b' hb'
  obtain ⟨h, _, e⟩ := verifyAt_some hb
  obtain ⟨h', _, e'⟩ := verifyAt_some hb'
  rw [e, e']
  exact hlt

/-! ### the theorem -/

/-- **htlc_sig_order**.  `P` = the signer's new remote commitment, `cm` = the commitment the
    receiver constructs for it (its new local commitment), at the same fee rate; `tx` = the sorted
    transaction (the same for both by `mirror_signed` / `bip69_cltv_canonical`).  Each side has
    recorded its own output indices (`idxP`, `idxB`: the results of its own `populateHtlcIndexes`,
    which visits the HTLCs in a different order on the two sides), each a valid assignment, and both
    use the same set of output indices (the HTLC outputs of `tx`).  Then the list of second-level
    transactions the signer signs, in the order of the HTLC signatures of commitment_signed
    (sorted by output index), is exactly the list the receiver derives in its pass over the output
    indices: the i-th signature is checked against the very transaction it was made for.  In
    particular it does not matter which of several identical HTLCs each side assigned to which of
    the identical outputs. -/
theorem htlc_sig_order {σ : Out → Nat}
    (hσ : ∀ o o' : Out, σ o = σ o' → (o.kind = .offered ↔ o'.kind = .offered))
    (ca : Cfg) {P cm : Commit} {tx : List TxO} {idxP idxB : List (Option Nat)}
    (hf : cm.feePerKw = P.feePerKw)
    (vP : Valid tx σ .rem (P.htlcs.zip idxP)) (vB : Valid tx σ .loc (cm.htlcs.zip idxB))
    (hS : ∀ k, k ∈ (act (P.htlcs.zip idxP)).map (·.2) ↔ k ∈ (act (cm.htlcs.zip idxB)).map (·.2)) :
    signJobs ca P idxP = (verifyJobs ca.mirror cm idxB tx.length).map (·.2.2) := by
  apply sorted_unique (signJobs_sorted ca P idxP vP.nodup) (verifyJobs_sorted _ _ _ _)
  intro x
  -- both sides: the job of the output at some used index `k`
  have key : ∀ (h h' : Htlc) (k : Nat), (h, k) ∈ act (P.htlcs.zip idxP) → (h', k) ∈ act (cm.htlcs.zip idxB) →
      jobOf ca .rem P.feePerKw (h, k) = jobOf ca.mirror .loc cm.feePerKw (h', k) := by
    intro h h' k m m'
    have e1 := vP.hit _ m
    have e2 := vB.hit _ m'
    simp only at e1 e2
    rw [e1] at e2
    rw [hf]
    exact job_determined_by_output hσ ca P.feePerKw k (Option.some.inj e2)
  constructor
  · intro hx
    have hx' := (signJobs_perm ca P idxP).mem_iff.mp hx
    rw [List.mem_map] at hx'
    obtain ⟨⟨h, k⟩, hm, rfl⟩ := hx'
    -- the receiver uses index `k` too
    have hk : k ∈ (act (cm.htlcs.zip idxB)).map (·.2) := (hS k).mp (List.mem_map.mpr ⟨(h, k), hm, rfl⟩)
    obtain ⟨⟨h', k'⟩, hm', hk'⟩ := List.mem_map.mp hk
    simp only at hk'
    subst hk'
    have hlt : k' < tx.length := by
      have := vB.hit _ hm'
      simp only at this
      exact (List.getElem?_eq_some_iff.mp this).1
    rw [verifyJobs_eq, List.mem_map]
    cases hv : verifyAt ca.mirror cm (cm.htlcs.zip idxB) k' with
    | none => exact absurd hm' (verifyAt_none hv h')
    | some r =>
      obtain ⟨h'', hm'', er⟩ := verifyAt_some hv
      refine ⟨r, List.mem_filterMap.mpr ⟨k', List.mem_range.mpr hlt, hv⟩, ?_⟩
      rw [er, key h h'' k' hm hm'']
  · intro hx
    rw [verifyJobs_eq, List.mem_map] at hx
    obtain ⟨r, hr, rfl⟩ := hx
    obtain ⟨k, _, hv⟩ := List.mem_filterMap.mp hr
    obtain ⟨h', hm', er⟩ := verifyAt_some hv
    have hk : k ∈ (act (P.htlcs.zip idxP)).map (·.2) := (hS k).mpr (List.mem_map.mpr ⟨(h', k), hm', rfl⟩)
    obtain ⟨⟨h, k'⟩, hm, hk'⟩ := List.mem_map.mp hk
    simp only at hk'
    subst hk'
    apply (signJobs_perm ca P idxP).mem_iff.mpr
    rw [List.mem_map]
    exact ⟨(h, k'), hm, by rw [er, key h h' k' hm hm']⟩

/-! ### `populateHtlcIndexes` is TxOrder's `assignFrom` on the non-dust HTLCs -/

def nonDust (hs : List Htlc) : List Htlc := hs.filter (fun h => !h.dust)

/-- **populate_assign**: skipping the dust HTLCs, `populateHtlcIndexes` is the index assignment
    `assignFrom` that `duplicate_htlc_output_bijection` is about; its result lists `none` exactly at
    the dust HTLCs. -/
theorem populate_assign (tx : List TxO) (key : Htlc → HT) : ∀ (hs : List Htlc) (d : Nat → List Nat)
    (r : List (Option Nat)), populate tx key d hs = some r →
    assignFrom tx d ((nonDust hs).map key) = some (r.filterMap id) ∧
    act (hs.zip r) = (nonDust hs).zip (r.filterMap id) := by
  intro hs
  induction hs with
  | nil =>
    intro d r h
    simp only [populate, Option.some.injEq] at h
    subst h
    exact ⟨rfl, rfl⟩
  | cons h hs ih =>
    intro d r hr
    unfold populate at hr
    by_cases hd : h.dust = true
    · rw [if_pos hd, Option.map_eq_some_iff] at hr
      obtain ⟨r', hr', rfl⟩ := hr
      obtain ⟨i1, i2⟩ := ih d r' hr'
      have e : nonDust (h :: hs) = nonDust hs := by simp [nonDust, hd]
      rw [e]
      refine ⟨by simpa using i1, ?_⟩
      simp only [List.zip_cons_cons, act, List.filterMap_cons, hd, if_true, id] at i2 ⊢
      exact i2
    · rw [if_neg hd] at hr
      have hd' : h.dust = false := by simpa using hd
      have e : nonDust (h :: hs) = h :: nonDust hs := by simp [nonDust, hd']
      rw [e]
      split at hr
      · cases hr
      · rename_i i hl
        rw [Option.map_eq_some_iff] at hr
        obtain ⟨r', hr', rfl⟩ := hr
        obtain ⟨i1, i2⟩ := ih _ r' hr'
        constructor
        · simp only [List.map_cons, assignFrom, hl, List.filterMap_cons, id, i1, Option.map_some]
        · simp only [List.zip_cons_cons, act, List.filterMap_cons, hd', id, Option.map_some] at i2 ⊢
          simp [i2]

theorem mem_zip_swap {α β : Type} : ∀ {l₁ : List α} {l₂ : List β} {a : α} {b : β},
    (a, b) ∈ l₁.zip l₂ → (b, a) ∈ l₂.zip l₁
  | [], _, _, _, h => by simp at h
  | _ :: _, [], _, _, h => by simp at h
  | x :: l₁, y :: l₂, a, b, h => by
    simp only [List.zip_cons_cons, List.mem_cons, Prod.mk.injEq] at h ⊢
    rcases h with ⟨rfl, rfl⟩ | h
    · exact Or.inl ⟨rfl, rfl⟩
    · exact Or.inr (mem_zip_swap h)

/-- **populate_valid**: when the pkScript of an HTLC output determines the payment hash and every
    non-dust HTLC has its output in the transaction (with multiplicity) — the hypotheses of
    `duplicate_htlc_output_bijection` — whatever `populateHtlcIndexes` returns is a valid
    assignment: every non-dust HTLC points at an output with its value, pkScript and CLTV and no
    output index is recorded twice (dust HTLCs have none). -/
theorem populate_valid (tx : List TxO) (σ : Out → Nat) (c : Chain) (hs : List Htlc) (r : List (Option Nat))
    (hscript : ∀ h ∈ nonDust hs, ∀ h' ∈ nonDust hs,
      ((h.out c).tx σ).script = ((h'.out c).tx σ).script → h.hash = h'.hash)
    (hcount : ∀ K, ((nonDust hs).filter (fun h => decide ((h.out c).tx σ = K))).length ≤ tx.count K)
    (hr : populate tx (Htlc.ht σ c) (fun _ => []) hs = some r) :
    Valid tx σ c (hs.zip r) := by
  obtain ⟨a1, a2⟩ := populate_assign tx (Htlc.ht σ c) hs (fun _ => []) r hr
  obtain ⟨idxs, b1, b2, b3, b4⟩ := duplicate_htlc_output_bijection tx ((nonDust hs).map (Htlc.ht σ c))
    (by
      intro x hx y hy e
      obtain ⟨h, hm, rfl⟩ := List.mem_map.mp hx
      obtain ⟨h', hm', rfl⟩ := List.mem_map.mp hy
      exact hscript h hm h' hm' e)
    (by
      intro K
      rw [List.filter_map, List.length_map]
      exact hcount K)
  rw [a1] at b1
  cases b1
  rw [List.length_map] at b2
  constructor
  · intro p hp
    rw [a2] at hp
    have : (p.2, Htlc.ht σ c p.1) ∈ (r.filterMap id).zip ((nonDust hs).map (Htlc.ht σ c)) := by
      rw [List.zip_map_right, List.mem_map]
      refine ⟨(p.2, p.1), ?_, rfl⟩
      exact mem_zip_swap (a := p.1) (b := p.2) hp
    exact b4 _ this
  · rw [a2, List.map_snd_zip (by omega)]
    exact b3

/-! ### the set of used output indices: exactly the HTLC outputs (counting) -/

/-- a duplicate-free list of naturals inside another list of the same length has the same elements. -/
theorem subset_of_nodup_length {I S : List Nat} (hI : I.Nodup) (hsub : ∀ k ∈ I, k ∈ S)
    (hlen : S.length ≤ I.length) : ∀ k ∈ S, k ∈ I := by
  intro k hk
  apply Classical.byContradiction
  intro hn
  have h1 : I ⊆ S.erase k := by
    intro x hx
    have hxk : x ≠ k := fun e => hn (e ▸ hx)
    exact (List.mem_erase_of_ne hxk).2 (hsub x hx)
  have h2 := hI.length_le_of_subset h1
  rw [List.length_erase_of_mem hk] at h2
  have : 0 < S.length := List.length_pos_of_mem hk
  omega

/-- the positions of the outputs of `tx` that satisfy `isH` (the HTLC outputs). -/
def positions (tx : List TxO) (isH : TxO → Bool) : List Nat :=
  (List.range tx.length).filter (fun k => (tx[k]?.map isH).getD false)

/-- **index_set_is_htlc_outputs**: a valid assignment whose HTLCs all sit on HTLC outputs, with as
    many non-dust HTLCs as the transaction has HTLC outputs, uses exactly the HTLC output
    positions — whatever the order in which `populateHtlcIndexes` visited the HTLCs. -/
theorem index_set_is_htlc_outputs {tx : List TxO} {σ : Out → Nat} {c : Chain} {z : List (Htlc × Option Nat)}
    (isH : TxO → Bool) (v : Valid tx σ c z)
    (hH : ∀ p ∈ act z, isH ((p.1.out c).tx σ) = true)
    (hcnt : (positions tx isH).length ≤ (act z).length) :
    ∀ k, k ∈ (act z).map (·.2) ↔ k ∈ positions tx isH := by
  have hsub : ∀ k ∈ (act z).map (·.2), k ∈ positions tx isH := by
    intro k hk
    obtain ⟨p, hp, rfl⟩ := List.mem_map.mp hk
    have e := v.hit p hp
    unfold positions
    rw [List.mem_filter, List.mem_range]
    exact ⟨(List.getElem?_eq_some_iff.mp e).1, by simp [e, hH p hp]⟩
  intro k
  exact ⟨hsub k, subset_of_nodup_length v.nodup hsub (by rw [List.length_map]; exact hcnt) k⟩

/-- **htlc_sig_order_counted**: `htlc_sig_order` with the "same set of output indices" hypothesis
    replaced by what each side can check on its own: all its non-dust HTLCs sit on HTLC outputs
    (`isH`, decided by the pkScript) and there are as many of them as HTLC outputs. -/
theorem htlc_sig_order_counted {σ : Out → Nat}
    (hσ : ∀ o o' : Out, σ o = σ o' → (o.kind = .offered ↔ o'.kind = .offered))
    (ca : Cfg) {P cm : Commit} {tx : List TxO} {idxP idxB : List (Option Nat)} (isH : TxO → Bool)
    (hf : cm.feePerKw = P.feePerKw)
    (vP : Valid tx σ .rem (P.htlcs.zip idxP)) (vB : Valid tx σ .loc (cm.htlcs.zip idxB))
    (hP : ∀ p ∈ act (P.htlcs.zip idxP), isH ((p.1.out .rem).tx σ) = true)
    (hB : ∀ p ∈ act (cm.htlcs.zip idxB), isH ((p.1.out .loc).tx σ) = true)
    (cP : (positions tx isH).length ≤ (act (P.htlcs.zip idxP)).length)
    (cB : (positions tx isH).length ≤ (act (cm.htlcs.zip idxB)).length) :
    signJobs ca P idxP = (verifyJobs ca.mirror cm idxB tx.length).map (·.2.2) :=
  htlc_sig_order hσ ca hf vP vB (fun k =>
    (index_set_is_htlc_outputs isH vP hP cP k).trans (index_set_is_htlc_outputs isH vB hB cB k).symm)

/-! ### non-vacuity: two identical HTLCs which the two sides assign to the two identical outputs the
other way round -/

def demoCfg2 : Cfg :=
  { capacity := 1000000, initiator := true, anchors := false, zeroFee := false, taproot := false,
    dustL := 546, dustR := 546, resL := 10000, resR := 10000, minL := 0, minR := 0,
    maxPendL := 1000000000, maxPendR := 1000000000, maxAccL := 483, maxAccR := 483 }

/-- a script oracle that tells offered-HTLC outputs from the others. -/
def demoσ (o : Out) : Nat := if o.kind = .offered then 7 else 8

theorem demoσ_ok : ∀ o o' : Out, demoσ o = demoσ o' → (o.kind = .offered ↔ o'.kind = .offered) := by
  intro o o' h
  unfold demoσ at h
  by_cases a : o.kind = .offered <;> by_cases b : o'.kind = .offered <;> simp [a, b] at h ⊢

def demoTx : List TxO := [⟨4000, 8, 0⟩, ⟨5000, 7, 144⟩, ⟨5000, 7, 144⟩]
/-- the signer's view of its remote commitment: two identical HTLCs offered by the peer. -/
def demoP : Commit :=
  { height := 1, our := 0, their := 0, fee := 0, feePerKw := 253, ourMsg := 0, theirMsg := 0, ourHtlc := 0,
    theirHtlc := 0, htlcs := [⟨true, 0, 5000000, 144, 3, false⟩, ⟨true, 1, 5000000, 144, 3, false⟩] }
/-- the receiver's view of the same commitment (its local one). -/
def demoCm : Commit :=
  { demoP with htlcs := [⟨false, 0, 5000000, 144, 3, false⟩, ⟨false, 1, 5000000, 144, 3, false⟩] }

example : signJobs demoCfg2 demoP [some 1, some 2] =
    (verifyJobs demoCfg2.mirror demoCm [some 2, some 1] demoTx.length).map (·.2.2) :=
  htlc_sig_order demoσ_ok demoCfg2 rfl ⟨by decide, by decide⟩ ⟨by decide, by decide⟩
    (by intro k; simp [act, demoP, demoCm]; omega)

/-- the receiver's jobs: (htlc index, incoming, transaction); the HTLC with index 1 sits at output 1
    on this side, the two timeout transactions pay 5000 − ⌊253·663/1000⌋ = 4833 sat. -/
example : verifyJobs demoCfg2.mirror demoCm [some 2, some 1] demoTx.length =
    [(1, false, ⟨1, false, 144, 0, 4833, 5000, true⟩), (0, false, ⟨2, false, 144, 0, 4833, 5000, true⟩)] := by decide

example : signJobs demoCfg2 demoP [some 1, some 2] =
    (verifyJobs demoCfg2.mirror demoCm [some 2, some 1] demoTx.length).map (·.2.2) :=
  htlc_sig_order_counted demoσ_ok demoCfg2 (fun o => o.script == 7) rfl ⟨by decide, by decide⟩ ⟨by decide, by decide⟩
    (by decide) (by decide) (by decide) (by decide)

example : populate demoTx (Htlc.ht demoσ .rem) (fun _ => []) demoP.htlcs = some [some 1, some 2] := by decide

end LndModel.C01
