/-
C01 — every step of the link-disciplined system preserves `XInv`; `XInv` holds initially.
-/
import LndModel.C01.XStep
set_option linter.unusedSimpArgs false
set_option linter.unusedVariables false

namespace LndModel.C01

open LndModel.C03 (SNode SMsg SSys LStep Idx idxOf SAct nSig nRev)

theorem sys_eta_a (s : System) : ({ s with a := s.a, ab := s.ab ++ ([] : List Msg) } : System) = s := by
  cases s; simp

theorem wire_addEntry (log : Log) (a e h : Nat) : wire (addEntry log a e h) = Msg.add log.htlcCounter a e h := rfl

/-- a local action of `a`. -/
theorem xr_actA {s : System} {GLa GRa GLb GRb : GLog} (h : XR s GLa GRa GLb GRb) (y : LAct) :
    ∃ GLa' GRa', XR { s with a := (s.a.act y.toAct).2.1, ab := s.ab ++ (s.a.act y.toAct).2.2.toList }
      GLa' GRa' GLb GRb := by
  have hlen : s.a.logL.logIndex = GLa.length := h.ga.L.len
  -- a resolution of an incoming HTLC
  have hres : ∀ (ty : ETy) (i : Nat) (m : Msg), (ty = .settle ∨ ty = .fail ∨ ty = .malformed) →
      (∀ x, wire (resEntry s.a.logL ty i x) = m) → m.isUpd = true →
      ∃ GLa' GRa', XR { s with a := (s.a.resolveLocal ty i true).2, ab := s.ab ++ (if (s.a.resolveLocal ty i true).1 = .ok then some m else none).toList } GLa' GRa' GLb GRb := by
    intro ty i m hty hw hup
    by_cases hok : (s.a.resolveLocal ty i true).1 = .ok
    · obtain ⟨x, hl, hg⟩ := h.ga.resolveLocal hty hok
      obtain ⟨_, heq⟩ := resolveLocal_ok_eq hok
      obtain ⟨x', hl', heq⟩ := resolveLocal_ok_eq hok
      have : x' = x := by rw [hl] at hl'; exact (Option.some.inj hl').symm
      subst this
      simp only [hok, if_true, Option.toList]
      refine ⟨_, _, h.appendL hg ?_ ?_ ?_ ?_ (hw x').symm hup ?_⟩
      · rw [heq]
      · rw [heq]
      · rw [heq]
      · exact hlen
      · intro _
        obtain ⟨_, hx, hxa, hxi⟩ := lookup_hi_lt h.ga.R hl
        exact ⟨core x', List.mem_map_of_mem (GLog.mem_all hx), by simpa using hxa, hxi, rfl, rfl⟩
    · rw [(resolveLocal_skel s.a ty i true).2 hok]
      simp only [hok, if_false, Option.toList]
      rw [sys_eta_a]; exact ⟨_, _, h⟩
  cases y with
  | add a e hh =>
    simp only [LAct.toAct, Node.act]
    by_cases hok : (s.a.addHTLC a e hh).1 = .ok
    · have hg := h.ga.addHTLC hok
      have heq := addHTLC_ok_eq hok
      simp only [hok, if_true, Option.toList]
      refine ⟨_, _, h.appendL hg ?_ ?_ ?_ ?_ (wire_addEntry _ _ _ _).symm rfl ?_⟩
      · rw [heq]
      · rw [heq]
      · rw [heq]
      · exact hlen
      · intro hr; simp [addEntry, Entry.isRes] at hr
    · rw [(addHTLC_skel s.a a e hh).2 hok]
      simp only [hok, if_false, Option.toList]
      rw [sys_eta_a]; exact ⟨_, _, h⟩
  | settle i =>
    simp only [LAct.toAct, Node.act]
    exact hres .settle i (.settle i) (Or.inl rfl) (fun _ => rfl) rfl
  | fail i =>
    simp only [LAct.toAct, Node.act]
    exact hres .fail i (.fail i) (Or.inr (Or.inl rfl)) (fun _ => rfl) rfl
  | malformedFail i =>
    simp only [LAct.toAct, Node.act]
    exact hres .malformed i (.fail i) (Or.inr (Or.inr rfl)) (fun _ => rfl) rfl
  | sign =>
    simp only [LAct.toAct, Node.act]
    by_cases hok : (s.a.sign).1 = .ok
    · obtain ⟨sv, hsv, hx⟩ := h.sign hok
      rw [hsv]
      exact ⟨_, _, hx⟩
    · obtain ⟨h1, h2⟩ := (sign_skel s.a).2 hok
      rw [h1, h2]
      simp only [Option.map_none, Option.toList]
      rw [sys_eta_a]; exact ⟨_, _, h⟩

theorem sys_eta_b (s : System) (b' : Node) (rest : List Msg) :
    ({ s with b := b', ab := rest, ba := s.ba ++ ([] : List Msg) } : System) = { s with b := b', ab := rest } := by
  cases s; simp

/-- an in-order delivery `a → b` that the receiver accepts. -/
theorem xr_dlvAB {s s' : System} {k : SSys} {GLa GRa GLb GRb : GLog} (h : XI s k GLa GRa GLb GRb)
    (hs : s.lstep .dlvAB = some s') : ∃ GLb' GRb', XR s' GLa GRa GLb' GRb' := by
  have hx := h.xr
  simp only [System.lstep] at hs
  cases hq : s.ab with
  | nil =>
    simp only [hq, Option.some.injEq] at hs
    subst hs; exact ⟨_, _, hx⟩
  | cons m rest =>
    simp only [hq] at hs
    cases hd : s.b.ldeliver m with
    | none => simp [hd] at hs
    | some r =>
      simp only [hd, Option.map_some, Option.some.injEq] at hs
      subst hs
      unfold Node.ldeliver at hd
      split at hd
      · cases hd
      · rename_i hok
        have hok' : (s.b.deliver m).1 = .ok := by simpa using hok
        have hlenR : s.b.logR.logIndex = GRb.length := hx.gb.R.len
        cases m with
        | add i am e hh =>
          simp only [Option.some.injEq] at hd
          subst hd
          simp only [Node.deliver] at hok' ⊢
          obtain ⟨hi, heq⟩ := receiveHTLC_ok_eq hok'
          have hg := hx.gb.receiveHTLC hok'
          rw [sys_eta_b]
          refine ⟨_, _, hx.appendR hq rfl hg ?_ ?_ ?_ ?_ ?_⟩
          · rw [heq]
          · rw [heq]
          · rw [heq]
          · exact hlenR
          · intro e0 tl hdrop hwire
            obtain ⟨e', he', hc, hidx, hw⟩ := drop_head_entry hx.ga.L hdrop
            rw [← hc] at hwire ⊢
            exact core_of_add hw hwire s.b.logR (by rw [hidx, hlenR]) hi
        | settle i =>
          simp only [Option.some.injEq] at hd
          subst hd
          simp only [Node.deliver] at hok' ⊢
          obtain ⟨x, hl, hg⟩ := hx.gb.resolveRemote (Or.inl rfl) hok'
          obtain ⟨x', hl', heq⟩ := resolveRemote_ok_eq hok'
          have : x' = x := by rw [hl] at hl'; exact (Option.some.inj hl').symm
          subst this
          rw [sys_eta_b]
          refine ⟨_, _, hx.appendR hq rfl hg ?_ ?_ ?_ ?_ ?_⟩
          · rw [heq]
          · rw [heq]
          · rw [heq]
          · exact hlenR
          · intro e0 tl hdrop hwire
            obtain ⟨e', he', hc, hidx, hw⟩ := drop_head_entry hx.ga.L hdrop
            rw [← hc] at hwire ⊢
            obtain ⟨hp, hr⟩ := wire_parent (Or.inl hwire)
            obtain ⟨ha, hhs⟩ := res_amt_match hx he' hr (by rw [hp]; exact hl)
            exact (core_of_settle hw hwire s.b.logR (by rw [hidx, hlenR]) ha hhs).1
        | fail i =>
          simp only [Option.some.injEq] at hd
          subst hd
          simp only [Node.deliver] at hok' ⊢
          obtain ⟨x, hl, hg⟩ := hx.gb.resolveRemote (Or.inr (Or.inl rfl)) hok'
          obtain ⟨x', hl', heq⟩ := resolveRemote_ok_eq hok'
          have : x' = x := by rw [hl] at hl'; exact (Option.some.inj hl').symm
          subst this
          rw [sys_eta_b]
          refine ⟨_, _, hx.appendR hq rfl hg ?_ ?_ ?_ ?_ ?_⟩
          · rw [heq]
          · rw [heq]
          · rw [heq]
          · exact hlenR
          · intro e0 tl hdrop hwire
            obtain ⟨e', he', hc, hidx, hw⟩ := drop_head_entry hx.ga.L hdrop
            rw [← hc] at hwire ⊢
            obtain ⟨hp, hr⟩ := wire_parent (Or.inr hwire)
            obtain ⟨ha, hhs⟩ := res_amt_match hx he' hr (by rw [hp]; exact hl)
            exact (core_of_fail hw hwire s.b.logR (by rw [hidx, hlenR]) ha hhs).1
        | fee f =>
          -- no fee update is ever in flight in this fragment
          exfalso
          have hin := hx.hab.inflight
          rw [hq] at hin
          simp only [List.filter, Msg.isUpd] at hin
          cases hdrop : GLa.cores.drop GRb.length with
          | nil => rw [hdrop] at hin; simp at hin
          | cons e0 tl =>
            rw [hdrop] at hin
            simp only [List.map_cons, List.cons.injEq] at hin
            obtain ⟨e', he', hc, _, hw⟩ := drop_head_entry hx.ga.L hdrop
            have h1 := hin.1
            rw [← hc, wire_core] at h1
            unfold wire at h1
            have := hw.noFee
            cases hty : e'.ty <;> simp [hty, Entry.isFee] at h1 this
        | commitSig sv =>
          simp only [Node.deliver] at hok' hd
          obtain ⟨P, hP, i1, i2, i3, i4, hh⟩ := skel_head_sig h.sim h.inv2 hq
          obtain ⟨hrv, _⟩ := hx.gb.recvSig hok'
          simp only [hrv, if_true, Option.some.injEq] at hd
          subst hd
          exact ⟨_, _, hx.recvSig hq hok' hP i1 i2 i3 i4 hh⟩
        | revoke =>
          simp only [Option.some.injEq] at hd
          subst hd
          simp only [Node.deliver] at hok' ⊢
          obtain ⟨hns, hht⟩ := skel_head_rev h.sim h.inv2 hq
          rw [sys_eta_b]
          exact hx.recvRev hq hok' hns hht h.sim.b.ph

/-! ### the other direction, by symmetry -/

theorem swap_swap (s : System) : s.swap.swap = s := by cases s; rfl

theorem lstep_actB_swap (s : System) (y : LAct) :
    s.lstep (.actB y) = (s.swap.lstep (.actA y)).map System.swap := by
  cases s; rfl

theorem lstep_dlvBA_swap (s : System) : s.lstep .dlvBA = (s.swap.lstep .dlvAB).map System.swap := by
  cases s with
  | mk a b ab ba =>
    simp only [System.lstep, System.swap]
    cases ba with
    | nil => rfl
    | cons m rest =>
      simp only
      cases a.ldeliver m <;> rfl

theorem sim_swap {s : System} {k : SSys} (h : Sim s k) : Sim s.swap k.swap := ⟨h.b, h.a, h.ba, h.ab⟩

theorem XI.swap {s : System} {k : SSys} {GLa GRa GLb GRb : GLog} (h : XI s k GLa GRa GLb GRb) :
    XI s.swap k.swap GLb GRb GLa GRa :=
  ⟨sim_swap h.sim, (LndModel.C03.inv2_swap k).mpr h.inv2, h.xr.swap⟩

theorem xr_step {s s' : System} {k : SSys} {GLa GRa GLb GRb : GLog} (h : XI s k GLa GRa GLb GRb) (x : LSysStep)
    (hs : s.lstep x = some s') : ∃ GLa' GRa' GLb' GRb', XR s' GLa' GRa' GLb' GRb' := by
  cases x with
  | actA y =>
    simp only [System.lstep, Option.some.injEq] at hs
    subst hs
    obtain ⟨_, _, hx⟩ := xr_actA h.xr y
    exact ⟨_, _, _, _, hx⟩
  | dlvAB =>
    obtain ⟨_, _, hx⟩ := xr_dlvAB h hs
    exact ⟨_, _, _, _, hx⟩
  | actB y =>
    rw [lstep_actB_swap] at hs
    simp only [System.lstep, Option.map_some, Option.some.injEq] at hs
    subst hs
    obtain ⟨_, _, hx⟩ := xr_actA h.swap.xr y
    have := hx.swap
    exact ⟨_, _, _, _, this⟩
  | dlvBA =>
    rw [lstep_dlvBA_swap] at hs
    cases h1 : s.swap.lstep .dlvAB with
    | none => simp [h1] at hs
    | some s1 =>
      simp only [h1, Option.map_some, Option.some.injEq] at hs
      subst hs
      obtain ⟨_, _, hx⟩ := xr_dlvAB h.swap h1
      exact ⟨_, _, _, _, hx.swap⟩

/-- **the cross-node invariant is inductive.** -/
theorem xinv_step {s s' : System} (h : XInv s) (x : LSysStep) (hs : s.lstep x = some s') : XInv s' := by
  obtain ⟨k, GLa, GRa, GLb, GRb, hi⟩ := h
  obtain ⟨xs, hsim⟩ := sim_step hi.sim x hs
  obtain ⟨_, _, _, _, hx⟩ := xr_step hi x hs
  exact ⟨_, _, _, _, _, hsim, LndModel.C03.inv2_lrun xs k hi.inv2, hx⟩

theorem xinv_run {s s' : System} (h : XInv s) (steps : List LSysStep) (hs : s.lrun steps = some s') : XInv s' := by
  induction steps generalizing s with
  | nil =>
    simp only [System.lrun, Option.some.injEq] at hs
    subst hs; exact h
  | cons x rest ih =>
    simp only [System.lrun] at hs
    cases h1 : s.lstep x with
    | none => simp [h1] at hs
    | some s1 =>
      simp only [h1, Option.bind_some] at hs
      exact ih (xinv_step h x h1) hs

end LndModel.C01
