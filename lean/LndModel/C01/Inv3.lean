/-
C01 — invariant preservation for signing, receiving a commitment, revoking and
receiving a revocation (incl. `compactLogs`).
-/
import LndModel.C01.Inv2
set_option linter.unusedSimpArgs false

namespace LndModel.C01

theorem inv_sign {n : Node} (hI : Inv n) : Inv (n.sign).2.1 := by
  unfold Node.sign
  split
  · exact hI
  · simp only
    split
    · rename_i hs
      split
      · exact hI
      · rename_i cm n' hf
        exact inv_commit_rem hI hs hf
    · exact hI

theorem inv_receiveCommit {n : Node} (hI : Inv n) (sv : SigView) : Inv (n.receiveCommit sv).2 := by
  unfold Node.receiveCommit
  simp only
  split
  · rename_i hs
    split
    · exact hI
    · rename_i cm n' hf
      split
      · exact inv_commit_loc hI hs hf
      · exact hI
  · exact hI

theorem tip_pop (t c : Commit) (rest : List Commit) :
    ({ tail := c, pend := rest } : CChain).tip = ({ tail := t, pend := c :: rest } : CChain).tip := by
  unfold CChain.tip
  cases rest with
  | nil => simp
  | cons x xs =>
    simp only [List.getLast?_cons_cons]
    cases h : (x :: xs).getLast? with
    | none => simp at h
    | some y => rfl

theorem inv_revoke {n : Node} (hI : Inv n) : Inv (n.revoke).2 := by
  unfold Node.revoke
  split
  · exact hI
  · rename_i c rest hp
    have hall : n.chainL.all = n.chainL.tail :: c :: rest := by simp [CChain.all, hp]
    have hmono := hI.monoL
    rw [hall] at hmono
    simp only [List.map_cons, List.pairwise_cons] at hmono
    have hch : n.chainL = { tail := n.chainL.tail, pend := c :: rest } := by
      cases hc : n.chainL; simp_all
    refine ⟨hI.logL, hI.logR, hI.covL, ?_, ?_, ?_, hI.monoR, hI.boundR, ?_, ?_⟩
    · intro e he ho
      have h1 := hI.covR e he ho
      have h2 := hmono.1 c.theirMsg (by simp)
      show e.logIndex < c.theirMsg
      omega
    · show ((c :: rest).map Commit.theirMsg).Pairwise (· ≤ ·)
      simp only [List.map_cons, List.pairwise_cons]
      exact hmono.2
    · intro cm hcm
      apply hI.boundL; rw [hall]
      exact List.mem_cons_of_mem _ hcm
    · intro ch
      cases ch
      · have := hI.j1 .loc
        unfold J1 at this ⊢
        simp only [Node.chain] at this ⊢
        rw [tip_pop n.chainL.tail c rest, ← hch]
        exact this
      · exact hI.j1 .rem
    · intro ch cm hcm
      cases ch
      · apply hI.cons .loc
        simp only [Node.chain] at hcm ⊢
        rw [hall]; exact List.mem_cons_of_mem _ hcm
      · exact hI.cons .rem cm hcm

/-! ### compactLogs -/

theorem removable_spec {lt rt : Nat} {e : Entry} (h : removable lt rt e = true) :
    e.isAdd = false ∧ (∀ c, e.rmvH c ≠ 0) := by
  unfold removable at h
  simp only [Bool.and_eq_true, Bool.not_eq_true', bne_iff_ne, ne_eq, decide_eq_true_eq] at h
  refine ⟨h.1.1.1.1, ?_⟩
  intro c; cases c
  · exact h.1.1.2
  · exact h.1.1.1.2

/-- the resolutions dropped by one compaction pass over `E`. -/
def goneRes (lt rt : Nat) (E : List Entry) : List Entry :=
  E.filter (fun e => removable lt rt e && !e.isFee)

theorem goneRes_eq (lt rt : Nat) (E : List Entry) :
    goneRes lt rt E = (resolutions E).filter (removable lt rt) := by
  unfold goneRes resolutions
  rw [List.filter_filter]
  apply List.filter_congr
  intro e _
  cases hr : removable lt rt e
  · simp
  · have := (removable_spec hr).1
    cases hf : e.isFee
    · simp [isRes_of_not e this hf]
    · have : e.isRes = false := by
        cases hty : e.ty <;> simp_all [Entry.isRes, Entry.isFee]
      simp [this]

theorem goneRes_mem {lt rt : Nat} {E : List Entry} {r : Entry} (h : r ∈ goneRes lt rt E) :
    r ∈ E ∧ r.isRes = true ∧ removable lt rt r = true := by
  rw [goneRes_eq] at h
  have h1 := List.mem_filter.mp h
  have h2 := List.mem_filter.mp h1.1
  exact ⟨h2.1, h2.2, h1.2⟩

def passA (lt rt : Nat) (a : Log) : Log :=
  { a with entries := a.entries.filter (fun e => !removable lt rt e) }
def passB (parents : List Nat) (b : Log) : Log :=
  { b with entries := b.entries.filter (fun e => !(e.isAdd && parents.contains e.htlcIndex)),
           modified := b.modified.filter (fun i => !parents.contains i) }

theorem compactPass_parents (lt rt : Nat) (a b : Log) :
    compactPass lt rt a b = (passA lt rt a, passB ((goneRes lt rt a.entries).map Entry.parent) b) := by
  unfold compactPass goneRes passA passB
  simp only [List.filter_filter]
  have : (fun e : Entry => !e.isFee && removable lt rt e) = (fun e => removable lt rt e && !e.isFee) := by
    funext e; exact Bool.and_comm _ _
  rw [this]

/-- a resolution that survives the pass does not share its parent with a dropped one. -/
theorem kept_parent_not_gone {lt rt : Nat} {a b : Log} (h1 : LogOK a b) {r : Entry} (hr : r ∈ a.entries)
    (hres : r.isRes = true) (hk : removable lt rt r = false) :
    ((goneRes lt rt a.entries).map Entry.parent).contains r.parent = false := by
  apply Bool.eq_false_iff.mpr
  intro hc
  have : r.parent ∈ (goneRes lt rt a.entries).map Entry.parent := by simpa using hc
  obtain ⟨r2, hr2, hp⟩ := List.mem_map.mp this
  obtain ⟨hm2, hres2, hrem2⟩ := goneRes_mem hr2
  have : r2 = r := nodup_map_inj Entry.parent (resolutions a.entries) h1.resPar r2 r
    (List.mem_filter.mpr ⟨hm2, hres2⟩) (List.mem_filter.mpr ⟨hr, hres⟩) hp
  subst this
  rw [hrem2] at hk; cases hk

structure PassFacts (a b a' b' : Log) : Prop where
  ok1 : LogOK a' b'
  ok2 : LogOK b' a'
  idxA : a'.logIndex = a.logIndex
  idxB : b'.logIndex = b.logIndex
  subA : ∀ e ∈ a'.entries, e ∈ a.entries
  subB : ∀ e ∈ b'.entries, e ∈ b.entries
  addsA : ∀ c, addsOn c a'.entries = addsOn c a.entries
  resB : ∀ c, resOn c b'.entries = resOn c b.entries
  bal : ∀ c, addsOn c b.entries + resOn c a'.entries = addsOn c b'.entries + resOn c a.entries

theorem compactPass_ok (lt rt : Nat) {a b : Log} (h1 : LogOK a b) (h2 : LogOK b a) :
    PassFacts a b (compactPass lt rt a b).1 (compactPass lt rt a b).2 := by
  rw [compactPass_parents]
  simp only [passA, passB]
  -- abbreviations
  generalize hP : (goneRes lt rt a.entries).map Entry.parent = parents
  have hPmem : ∀ i, parents.contains i = true → ∃ r ∈ a.entries, r.isRes = true ∧
      removable lt rt r = true ∧ r.parent = i := by
    intro i hi
    rw [← hP] at hi
    have : i ∈ (goneRes lt rt a.entries).map Entry.parent := by simpa using hi
    obtain ⟨r, hr, hp⟩ := List.mem_map.mp this
    obtain ⟨x, y, z⟩ := goneRes_mem hr
    exact ⟨r, x, y, z, hp⟩
  have hkept : ∀ r ∈ a.entries, r.isRes = true → removable lt rt r = false → parents.contains r.parent = false := by
    intro r hr hres hk; rw [← hP]; exact kept_parent_not_gone h1 hr hres hk
  -- an add of `b` whose index is a dropped parent is on both chains
  have hdropAdd : ∀ a0 ∈ b.entries, a0.isAdd = true → parents.contains a0.htlcIndex = true → ∀ c, a0.addH c ≠ 0 := by
    intro a0 ha0 hadd hc c
    obtain ⟨r, hr, hres, hrem, hp⟩ := hPmem _ hc
    obtain ⟨a1, ha1, hadd1, hi1, _, hh⟩ := h1.resAdd r hr hres
    have : a1 = a0 := nodup_map_inj Entry.htlcIndex (adds b.entries) h2.uniq a1 a0
      (List.mem_filter.mpr ⟨ha1, hadd1⟩) (List.mem_filter.mpr ⟨ha0, hadd⟩) (by rw [hi1, hp])
    subst this
    exact hh c ((removable_spec hrem).2 c)
  refine ⟨?_, ?_, rfl, rfl, fun e he => (List.mem_filter.mp he).1, fun e he => (List.mem_filter.mp he).1, ?_, ?_, ?_⟩
  · -- LogOK a' b'
    constructor
    · intro e he; exact h1.idxBound e (List.mem_filter.mp he).1
    · exact uniqueAdds_filter _ h1.uniq
    · intro e he ha; exact h1.addLt e (List.mem_filter.mp he).1 ha
    · show ((resolutions (a.entries.filter _)).map Entry.parent).Nodup
      unfold resolutions
      have : (List.filter Entry.isRes (List.filter (fun e => !removable lt rt e) a.entries)).Sublist
          (List.filter Entry.isRes a.entries) := List.Sublist.filter _ List.filter_sublist
      exact List.Nodup.sublist (List.Sublist.map _ this) h1.resPar
    · intro r hr hres
      have hr' := List.mem_filter.mp hr
      have hk : removable lt rt r = false := by simpa using hr'.2
      show r.parent ∈ List.filter _ b.modified
      apply List.mem_filter.mpr
      refine ⟨h1.resMod r hr'.1 hres, ?_⟩
      rw [hkept r hr'.1 hres hk]; rfl
    · intro r hr hres
      have hr' := List.mem_filter.mp hr
      have hk : removable lt rt r = false := by simpa using hr'.2
      obtain ⟨a0, ha0, hadd, hi, rest⟩ := h1.resAdd r hr'.1 hres
      refine ⟨a0, ?_, hadd, hi, rest⟩
      apply List.mem_filter.mpr
      refine ⟨ha0, ?_⟩
      have := hkept r hr'.1 hres hk
      rw [← hi] at this
      simp only [this, Bool.and_false, Bool.not_false]
  · -- LogOK b' a'
    constructor
    · intro e he; exact h2.idxBound e (List.mem_filter.mp he).1
    · exact uniqueAdds_filter _ h2.uniq
    · intro e he ha; exact h2.addLt e (List.mem_filter.mp he).1 ha
    · show ((resolutions (b.entries.filter _)).map Entry.parent).Nodup
      unfold resolutions
      have : (List.filter Entry.isRes (List.filter
          (fun e => !(e.isAdd && parents.contains e.htlcIndex)) b.entries)).Sublist
          (List.filter Entry.isRes b.entries) := List.Sublist.filter _ List.filter_sublist
      exact List.Nodup.sublist (List.Sublist.map _ this) h2.resPar
    · intro r hr hres; exact h2.resMod r (List.mem_filter.mp hr).1 hres
    · intro r hr hres
      obtain ⟨a0, ha0, hadd, rest⟩ := h2.resAdd r (List.mem_filter.mp hr).1 hres
      refine ⟨a0, ?_, hadd, rest⟩
      apply List.mem_filter.mpr
      refine ⟨ha0, ?_⟩
      cases hrm : removable lt rt a0
      · rfl
      · have := (removable_spec hrm).1; rw [hadd] at this; cases this
  · -- adds of `a` untouched
    intro c
    unfold addsOn; rw [List.filter_filter]
    apply sumBy_filter_congr
    intro e _
    cases hadd : e.isAdd
    · simp
    · cases hrm : removable lt rt e
      · simp
      · have := (removable_spec hrm).1; rw [hadd] at this; cases this
  · -- resolutions of `b` untouched
    intro c
    unfold resOn; rw [List.filter_filter]
    apply sumBy_filter_congr
    intro e _
    cases hres : e.isRes
    · simp
    · simp [isRes_not_isAdd e hres]
  · -- what leaves the adds of `b` equals what leaves the resolutions of `a`
    intro c
    have hgone : sumBy Entry.amt ((adds b.entries).filter (fun x => parents.contains x.htlcIndex)) =
        sumBy Entry.amt (goneRes lt rt a.entries) := by
      rw [← hP]
      apply sum_skipped _ _ h2.uniq
      · rw [goneRes_eq]
        have : ((resolutions a.entries).filter (removable lt rt)).Sublist (resolutions a.entries) :=
          List.filter_sublist
        exact List.Nodup.sublist (List.Sublist.map _ this) h1.resPar
      · intro r hr
        obtain ⟨x, y, _⟩ := goneRes_mem hr
        obtain ⟨a0, ha0, hadd, hi, hamt, _⟩ := h1.resAdd r x y
        exact ⟨a0, List.mem_filter.mpr ⟨ha0, hadd⟩, hi, hamt⟩
    have hb : addsOn c b.entries = addsOn c (b.entries.filter (fun e => !(e.isAdd && parents.contains e.htlcIndex))) +
        sumBy Entry.amt ((adds b.entries).filter (fun x => parents.contains x.htlcIndex)) := by
      unfold addsOn adds
      rw [sumBy_filter_split Entry.amt (fun e => !(e.isAdd && parents.contains e.htlcIndex))
        (b.entries.filter (fun e => e.isAdd && e.addH c != 0))]
      simp only [List.filter_filter]
      congr 1
      · apply sumBy_filter_congr; intro e _; exact Bool.and_comm _ _
      · apply sumBy_filter_congr
        intro e he
        cases hadd : e.isAdd
        · simp
        · cases hc : parents.contains e.htlcIndex
          · simp
          · have := hdropAdd e he hadd hc c
            simp [this]
    have ha : resOn c a.entries = resOn c (a.entries.filter (fun e => !removable lt rt e)) +
        sumBy Entry.amt (goneRes lt rt a.entries) := by
      unfold resOn
      rw [goneRes_eq]
      unfold resolutions
      rw [sumBy_filter_split Entry.amt (fun e => !removable lt rt e)
        (a.entries.filter (fun e => e.isRes && e.rmvH c != 0))]
      simp only [List.filter_filter]
      congr 1
      · apply sumBy_filter_congr; intro e _; exact Bool.and_comm _ _
      · apply sumBy_filter_congr
        intro e _
        cases hres : e.isRes
        · simp
        · cases hrm : removable lt rt e
          · simp
          · have := (removable_spec hrm).2 c
            simp [this]
    show addsOn c b.entries + resOn c (a.entries.filter (fun e => !removable lt rt e)) =
      addsOn c (b.entries.filter (fun e => !(e.isAdd && parents.contains e.htlcIndex))) + resOn c a.entries
    omega

/-! ### receiving a revocation; all operations -/

theorem inv_receiveRevocation {n : Node} (hI : Inv n) : Inv (n.receiveRevocation).2 := by
  unfold Node.receiveRevocation
  split
  · exact hI
  · rename_i c rest hp
    simp only [compactLogs]
    have P1 := compactPass_ok n.chainL.tail.height (n.chainR.tail.height + 1) hI.logL hI.logR
    generalize ho1 : (compactPass n.chainL.tail.height (n.chainR.tail.height + 1) n.logL n.logR).1 = o1 at P1 ⊢
    generalize ht1 : (compactPass n.chainL.tail.height (n.chainR.tail.height + 1) n.logL n.logR).2 = t1 at P1 ⊢
    have P2 := compactPass_ok n.chainL.tail.height (n.chainR.tail.height + 1) P1.ok2 P1.ok1
    generalize ht2 : (compactPass n.chainL.tail.height (n.chainR.tail.height + 1) t1 o1).1 = t2 at P2 ⊢
    generalize ho2 : (compactPass n.chainL.tail.height (n.chainR.tail.height + 1) t1 o1).2 = o2 at P2 ⊢
    have hall : n.chainR.all = n.chainR.tail :: c :: rest := by simp [CChain.all, hp]
    have hmono := hI.monoR
    rw [hall] at hmono
    simp only [List.map_cons, List.pairwise_cons] at hmono
    have hch : n.chainR = { tail := n.chainR.tail, pend := c :: rest } := by
      cases hc : n.chainR; simp_all
    refine ⟨P2.ok2, P2.ok1, ?_, ?_, hI.monoL, ?_, ?_, ?_, ?_, ?_⟩
    · intro e he ho
      have h1 := hI.covL e (P1.subA e (P2.subB e he)) ho
      have h2 := hmono.1 c.ourMsg (by simp)
      show e.logIndex < c.ourMsg
      omega
    · intro e he ho
      exact hI.covR e (P1.subB e (P2.subA e he)) ho
    · intro cm hcm
      show cm.theirMsg ≤ t2.logIndex
      rw [P2.idxA, P1.idxB]; exact hI.boundL cm hcm
    · show ((c :: rest).map Commit.ourMsg).Pairwise (· ≤ ·)
      simp only [List.map_cons, List.pairwise_cons]
      exact hmono.2
    · intro cm hcm
      show cm.ourMsg ≤ o2.logIndex
      rw [P2.idxB, P1.idxA]
      apply hI.boundR; rw [hall]; exact List.mem_cons_of_mem _ hcm
    · intro ch
      have hj := hI.j1 ch
      unfold J1 at hj ⊢
      have htip : (({ n with chainR := { tail := c, pend := rest }, logL := o2, logR := t2 } : Node).chain ch).tip =
          (n.chain ch).tip := by
        cases ch
        · rfl
        · simp only [Node.chain]; rw [tip_pop n.chainR.tail c rest, ← hch]
      rw [htip]
      simp only [addsOn_append, resOn_append] at hj ⊢
      have a1 := P1.addsA ch; have a2 := P1.resB ch; have a3 := P1.bal ch
      have b1 := P2.addsA ch; have b2 := P2.resB ch; have b3 := P2.bal ch
      omega
    · intro ch cm hcm
      cases ch
      · exact hI.cons .loc cm hcm
      · apply hI.cons .rem
        simp only [Node.chain] at hcm ⊢
        rw [hall]; exact List.mem_cons_of_mem _ hcm

/-- every API operation preserves the invariant. -/
theorem inv_step {n : Node} (hI : Inv n) (op : Op) : Inv (n.step op).2 := by
  cases op with
  | addHTLC a e h => exact inv_addHTLC hI a e h
  | receiveHTLC i a e h => exact inv_receiveHTLC hI i a e h
  | settle i p => exact inv_resolveLocal hI .settle (Or.inl rfl) i p
  | fail i => exact inv_resolveLocal hI .fail (Or.inr (Or.inl rfl)) i true
  | malformedFail i => exact inv_resolveLocal hI .malformed (Or.inr (Or.inr rfl)) i true
  | receiveSettle i p => exact inv_resolveRemote hI .settle (Or.inl rfl) i p
  | receiveFail i => exact inv_resolveRemote hI .fail (Or.inr (Or.inl rfl)) i true
  | updateFee f => exact inv_updateFee hI f
  | receiveUpdateFee f => exact inv_receiveUpdateFee hI f
  | sign => exact inv_sign hI
  | receiveCommit sv => exact inv_receiveCommit hI sv
  | revoke => exact inv_revoke hI
  | receiveRevocation => exact inv_receiveRevocation hI

theorem inv_run {n : Node} (hI : Inv n) (ops : List Op) : Inv (n.run ops) := by
  unfold Node.run
  induction ops generalizing n with
  | nil => exact hI
  | cons o os ih => exact ih (inv_step hI o)

/-! ### the configuration never changes -/

theorem fetch_cfg {n : Node} {c : Chain} {a b d e : Nat} {cm : Commit} {n' : Node}
    (h : fetchCommitmentView n c a b d e = .ok (cm, n')) : n'.cfg = n.cfg := by
  unfold fetchCommitmentView at h
  split at h
  · cases h
  · simp only at h
    split at h
    · cases h
    · simp only [Except.ok.injEq, Prod.mk.injEq] at h
      rw [← h.2]

theorem resolveLocal_cfg (n : Node) (ty : ETy) (i : Nat) (p : Bool) : (n.resolveLocal ty i p).2.cfg = n.cfg := by
  unfold Node.resolveLocal
  split
  · rfl
  · simp only
    split
    · rfl
    · split <;> rfl

theorem resolveRemote_cfg (n : Node) (ty : ETy) (i : Nat) (p : Bool) : (n.resolveRemote ty i p).2.cfg = n.cfg := by
  unfold Node.resolveRemote
  split
  · rfl
  · simp only
    split
    · rfl
    · split <;> rfl

theorem sign_cfg (n : Node) : (n.sign).2.1.cfg = n.cfg := by
  unfold Node.sign
  split
  · rfl
  · simp only
    split
    · split
      · rfl
      · rename_i hf; simp only; exact fetch_cfg hf
    · rfl

theorem receiveCommit_cfg (n : Node) (sv : SigView) : (n.receiveCommit sv).2.cfg = n.cfg := by
  unfold Node.receiveCommit
  simp only
  split
  · split
    · rfl
    · rename_i hf
      split
      · simp only; exact fetch_cfg hf
      · rfl
  · rfl

theorem step_cfg (n : Node) (op : Op) : (n.step op).2.cfg = n.cfg := by
  cases op <;> simp only [Node.step]
  · unfold Node.addHTLC; simp only; split <;> try rfl
    split <;> rfl
  · unfold Node.receiveHTLC; simp only; split <;> try rfl
    split <;> rfl
  · exact resolveLocal_cfg ..
  · exact resolveLocal_cfg ..
  · exact resolveLocal_cfg ..
  · exact resolveRemote_cfg ..
  · exact resolveRemote_cfg ..
  · unfold Node.updateFee; split <;> try rfl
    split <;> rfl
  · unfold Node.receiveUpdateFee; split <;> rfl
  · exact sign_cfg n
  · exact receiveCommit_cfg ..
  · unfold Node.revoke; split <;> rfl
  · unfold Node.receiveRevocation; split <;> rfl

theorem run_cfg (n : Node) (ops : List Op) : (n.run ops).cfg = n.cfg := by
  unfold Node.run
  induction ops generalizing n with
  | nil => rfl
  | cons o os ih => simp only [List.foldl_cons]; rw [ih, step_cfg]

/-! ### error classes of the commitment constructor -/

theorem computeView_err {n : Node} {c : Chain} {vL vR : List Entry} {e : Err}
    (h : computeView n c vL vR = .error e) : e ≠ .ok := by
  unfold computeView at h
  simp only at h
  generalize (n.chain c).tip.our + (if n.cfg.initiator then 1000 * (n.chain c).tip.fee else 0) = our0 at h
  generalize (n.chain c).tip.their + (if n.cfg.initiator then 0 else 1000 * (n.chain c).tip.fee) = their0 at h
  generalize viewFeePerKw (if n.cfg.initiator = true then vL else vR) (n.chain c).tip.feePerKw = f at h
  split at h
  · cases h; decide
  · split at h
    · cases h; decide
    · split at h
      · cases h; decide
      · cases h

theorem buildCommit_err {cfg : Cfg} {c : Chain} {tip : Commit} {r : ViewResult} {a b d e : Nat} {er : Err}
    (h : buildCommit cfg c tip r a b d e = .error er) : er ≠ .ok := by
  unfold buildCommit at h
  simp only at h
  generalize commitOuts cfg c _ _ _ _ = outs at h
  split at h
  · cases h; decide
  · split at h
    · cases h; decide
    · cases h

theorem fetch_err {n : Node} {c : Chain} {a b d e : Nat} {er : Err}
    (h : fetchCommitmentView n c a b d e = .error er) : er ≠ .ok := by
  unfold fetchCommitmentView at h
  split at h
  · rename_i hc; cases h; exact computeView_err hc
  · simp only at h
    split at h
    · rename_i hb; cases h; exact buildCommit_err hb
    · cases h

end LndModel.C01
