/-
C01 — the signer's and the receiver's constructions of a commitment coincide when
their views of the update logs agree (used by `honest_sig_verifies_partial`).
-/
import LndModel.C01.Inv3
set_option linter.unusedSimpArgs false

namespace LndModel.C01

def AEntry.isAdd (a : AEntry) : Bool := a.ty == .add
def AEntry.isRes (a : AEntry) : Bool := a.ty == .settle || a.ty == .fail || a.ty == .malformed
def AEntry.isFee (a : AEntry) : Bool := a.ty == .feeUpd

theorem filter_abs {p : Entry → Bool} {q : AEntry → Bool} (c : Chain) (h : ∀ e, q (absE c e) = p e)
    (v : List Entry) : (v.filter p).map (absE c) = (v.map (absE c)).filter q := by
  rw [List.filter_map]
  congr 1
  apply List.filter_congr
  intro e _; simp [h]

theorem sumBy_abs (c : Chain) (v : List Entry) :
    sumBy Entry.amt v = sumBy AEntry.amt (v.map (absE c)) := by
  rw [sumBy_map]; rfl

theorem normTy_settle (t : ETy) : (normTy t == .settle) = (t == .settle) := by cases t <;> rfl

theorem settleCredit_newRes (c : Chain) (v : List Entry) :
    settleCredit c (resolutions v) =
      sumBy AEntry.amt (((newRes c v).map (absE c)).filter (fun a => a.ty == .settle)) := by
  unfold settleCredit newRes
  rw [← filter_abs c (p := fun e => e.ty == .settle) (q := fun a => a.ty == .settle)
    (fun e => by simp only [absE, normTy_settle]), ← sumBy_abs, List.filter_filter]

theorem failCredit_newRes (c : Chain) (v : List Entry) :
    failCredit c (resolutions v) =
      sumBy AEntry.amt (((newRes c v).map (absE c)).filter (fun a => a.ty != .settle)) := by
  unfold failCredit newRes
  rw [← filter_abs c (p := fun e => e.ty != .settle) (q := fun a => a.ty != .settle)
    (fun e => by simp only [absE, bne, normTy_settle]), ← sumBy_abs, List.filter_filter]

theorem addDebit_abs (c : Chain) (live : List Entry) :
    addDebit c live = sumBy AEntry.amt ((live.map (absE c)).filter (fun a => !a.added)) := by
  unfold addDebit
  rw [sumBy_abs c, filter_abs c (q := fun a => !a.added)]
  intro e; simp [absE, bne]

/-- the non-dust HTLC outputs produced from a list of live adds. -/
def houts (cfg : Cfg) (incoming : Bool) (c : Chain) (f : Nat) (kind : OKind) (l : List Entry) : List Out :=
  htlcOuts kind (l.map (htlcOf cfg incoming c f))

/-- the same, computed from what the construction sees of the entries (`secondFee` is the
    second-level fee that applies, `dust` the owner's dust limit). -/
def houtsA (secondFee dust : Nat) (kind : OKind) (l : List AEntry) : List Out :=
  (l.filter (fun a => !decide (a.amt / 1000 < dust + secondFee))).map
    (fun a => ⟨a.amt / 1000, kind, a.expiry, a.hash⟩)

def secondFee (cfg : Cfg) (incoming : Bool) (c : Chain) (f : Nat) : Nat :=
  match incoming, c with
  | true, .loc => htlcSuccessFee cfg f
  | true, .rem => htlcTimeoutFee cfg f
  | false, .loc => htlcTimeoutFee cfg f
  | false, .rem => htlcSuccessFee cfg f

theorem houts_abs (cfg : Cfg) (incoming : Bool) (c : Chain) (f : Nat) (kind : OKind) (l : List Entry) :
    houts cfg incoming c f kind l = houtsA (secondFee cfg incoming c f) (cfg.dust c) kind (l.map (absE c)) := by
  unfold houts houtsA htlcOuts
  induction l with
  | nil => rfl
  | cons e l ih =>
    simp only [List.map_cons, List.filter]
    have hd : (htlcOf cfg incoming c f e).dust = decide ((absE c e).amt / 1000 < cfg.dust c + secondFee cfg incoming c f) := by
      simp only [htlcOf, htlcIsDust, absE, secondFee]
      cases incoming <;> cases c <;> rfl
    rw [hd]
    cases decide ((absE c e).amt / 1000 < cfg.dust c + secondFee cfg incoming c f)
    · simp only [Bool.not_false, List.map_cons, ih]
      congr 1
    · simp only [Bool.not_true, ih]

theorem nondust_len (kind : OKind) (hs : List Htlc) :
    (hs.filter (fun h => !h.dust)).length = (htlcOuts kind hs).length := by
  simp [htlcOuts]

/-- `buildOuts` only looks at the non-dust HTLC outputs. -/
theorem buildOuts_eq (cfg : Cfg) (d x y : Nat) (off rcv : List Htlc) :
    buildOuts cfg d x y off rcv =
      (if decide (x / 1000 ≥ d) then [⟨x / 1000, .toLocal, 0, 0⟩] else []) ++
      (if decide (y / 1000 ≥ d) then [⟨y / 1000, .toRemote, 0, 0⟩] else []) ++
      (if cfg.anchors && (decide (x / 1000 ≥ d) ||
          decide ((htlcOuts .offered off).length + (htlcOuts .received rcv).length > 0))
        then [⟨anchorSize, .anchorLocal, 0, 0⟩] else []) ++
      (if cfg.anchors && (decide (y / 1000 ≥ d) ||
          decide ((htlcOuts .offered off).length + (htlcOuts .received rcv).length > 0))
        then [⟨anchorSize, .anchorRemote, 0, 0⟩] else []) ++
      htlcOuts .offered off ++ htlcOuts .received rcv := by
  unfold buildOuts
  simp only [nondust_len .offered off, nondust_len .received rcv]


def payFee (pays : Bool) (bal fee : Nat) : Nat :=
  if pays then (if fee > bal / 1000 then 0 else bal - 1000 * fee) else bal

/-- the signed view as a function of what both peers must agree on. -/
def sigOfView (cfg : Cfg) (ownerDust : Nat) (ownerPays : Bool) (height f toOwner toOther : Nat)
    (offA rcvA : List AEntry) : SigView :=
  let offO := houtsA (htlcTimeoutFee cfg f) ownerDust .offered offA
  let rcvO := houtsA (htlcSuccessFee cfg f) ownerDust .received rcvA
  let num := offO.length + rcvO.length
  let fee := feeForWeight f (commitWeight cfg + htlcWeight * num)
  let x := payFee ownerPays toOwner fee
  let y := payFee (!ownerPays) toOther fee
  ⟨height, f,
    (if decide (x / 1000 ≥ ownerDust) then [⟨x / 1000, .toLocal, 0, 0⟩] else []) ++
    (if decide (y / 1000 ≥ ownerDust) then [⟨y / 1000, .toRemote, 0, 0⟩] else []) ++
    (if cfg.anchors && (decide (x / 1000 ≥ ownerDust) || decide (num > 0))
      then [⟨anchorSize, .anchorLocal, 0, 0⟩] else []) ++
    (if cfg.anchors && (decide (y / 1000 ≥ ownerDust) || decide (num > 0))
      then [⟨anchorSize, .anchorRemote, 0, 0⟩] else []) ++ offO ++ rcvO⟩

/-- closed form of a successfully built commitment. -/
theorem buildCommit_eq {cfg : Cfg} {c : Chain} {tip : Commit} {r : ViewResult} {a b d e : Nat} {cm : Commit}
    (h : buildCommit cfg c tip r a b d e = .ok cm) :
    let outg := r.liveL.map (htlcOf cfg false c r.feePerKw)
    let inc := r.liveR.map (htlcOf cfg true c r.feePerKw)
    let fee := feeForWeight r.feePerKw (commitWeight cfg + htlcWeight *
      ((outg.filter (fun h => !h.dust)).length + (inc.filter (fun h => !h.dust)).length))
    cm.height = tip.height + 1 ∧ cm.feePerKw = r.feePerKw ∧
    cm.outs = commitOuts cfg c (payFee cfg.initiator r.our fee) (payFee (!cfg.initiator) r.their fee) outg inc := by
  unfold buildCommit at h
  simp only at h
  cases hi : cfg.initiator <;> simp only [hi, Bool.false_eq_true, if_true, if_false] at h <;>
  · generalize ho : commitOuts cfg c _ _ _ _ = outs at h
    split at h
    · cases h
    · split at h
      · cases h
      · simp only [Except.ok.injEq] at h
        subst h
        refine ⟨rfl, rfl, ?_⟩
        simp only [← ho, payFee, hi, Bool.not_true, Bool.not_false, Bool.false_eq_true, if_true, if_false]

theorem buildCommit_sig_loc {cfg : Cfg} {tip : Commit} {r : ViewResult} {a b d e : Nat} {cm : Commit}
    (h : buildCommit cfg .loc tip r a b d e = .ok cm) :
    cm.sigView = sigOfView cfg cfg.dustL cfg.initiator (tip.height + 1) r.feePerKw r.our r.their
      (r.liveL.map (absE .loc)) (r.liveR.map (absE .loc)) := by
  obtain ⟨h1, h2, h3⟩ := buildCommit_eq h
  simp only [Commit.sigView, h1, h2, h3, commitOuts, buildOuts_eq, sigOfView]
  have e1 := houts_abs cfg false .loc r.feePerKw .offered r.liveL
  have e2 := houts_abs cfg true .loc r.feePerKw .received r.liveR
  simp only [houts, secondFee, Cfg.dust] at e1 e2
  simp only [nondust_len .offered (List.map (htlcOf cfg false Chain.loc r.feePerKw) r.liveL),
    nondust_len .received (List.map (htlcOf cfg true Chain.loc r.feePerKw) r.liveR), e1, e2]

theorem buildCommit_sig_rem {cfg : Cfg} {tip : Commit} {r : ViewResult} {a b d e : Nat} {cm : Commit}
    (h : buildCommit cfg .rem tip r a b d e = .ok cm) :
    cm.sigView = sigOfView cfg cfg.dustR (!cfg.initiator) (tip.height + 1) r.feePerKw r.their r.our
      (r.liveR.map (absE .rem)) (r.liveL.map (absE .rem)) := by
  obtain ⟨h1, h2, h3⟩ := buildCommit_eq h
  simp only [Commit.sigView, h1, h2, h3, commitOuts, buildOuts_eq, sigOfView]
  have e1 := houts_abs cfg true .rem r.feePerKw .offered r.liveR
  have e2 := houts_abs cfg false .rem r.feePerKw .received r.liveL
  simp only [houts, secondFee, Cfg.dust] at e1 e2
  simp only [nondust_len .received (List.map (htlcOf cfg false Chain.rem r.feePerKw) r.liveL),
    nondust_len .offered (List.map (htlcOf cfg true Chain.rem r.feePerKw) r.liveR), e1, e2]
  rw [Nat.add_comm (houtsA (htlcSuccessFee cfg r.feePerKw) cfg.dustR OKind.received
    (List.map (absE Chain.rem) r.liveL)).length]
  simp

/-! ### mirrored views give mirrored evaluations -/

/-- the receiver's tip of its local chain is the mirror image of the signer's tip of its remote chain. -/
structure TipMirror (ta tb : Commit) : Prop where
  height : tb.height = ta.height
  our : tb.our = ta.their
  their : tb.their = ta.our
  fee : tb.fee = ta.fee
  feePerKw : tb.feePerKw = ta.feePerKw

theorem computeView_mirror {a b : Node} {vLa vRa vLb vRb : List Entry} {ra rb : ViewResult}
    (hcfg : b.cfg = a.cfg.mirror) (htip : TipMirror a.chainR.tip b.chainL.tip)
    (hl1 : (liveAdds vLa (resolutions vRa)).map (absE .rem) = (liveAdds vRb (resolutions vLb)).map (absE .loc))
    (hl2 : (liveAdds vRa (resolutions vLa)).map (absE .rem) = (liveAdds vLb (resolutions vRb)).map (absE .loc))
    (hn1 : (newRes .rem vLa).map (absE .rem) = (newRes .loc vRb).map (absE .loc))
    (hn2 : (newRes .rem vRa).map (absE .rem) = (newRes .loc vLb).map (absE .loc))
    (hfee : viewFeePerKw (if a.cfg.initiator then vLa else vRa) a.chainR.tip.feePerKw =
            viewFeePerKw (if a.cfg.initiator then vRb else vLb) b.chainL.tip.feePerKw)
    (ha : computeView a .rem vLa vRa = .ok ra) (hb : computeView b .loc vLb vRb = .ok rb) :
    rb.our = ra.their ∧ rb.their = ra.our ∧ rb.feePerKw = ra.feePerKw ∧
    rb.liveL.map (absE .loc) = ra.liveR.map (absE .rem) ∧
    rb.liveR.map (absE .loc) = ra.liveL.map (absE .rem) := by
  have fa := computeView_ok ha
  have fb := computeView_ok hb
  have hinit : b.cfg.initiator = !a.cfg.initiator := by rw [hcfg]; rfl
  have l1 : ra.liveL.map (absE .rem) = rb.liveR.map (absE .loc) := by rw [fa.liveL, fb.liveR]; exact hl1
  have l2 : ra.liveR.map (absE .rem) = rb.liveL.map (absE .loc) := by rw [fa.liveR, fb.liveL]; exact hl2
  have hf : rb.feePerKw = ra.feePerKw := by
    rw [fa.fee, fb.fee, hinit]
    simp only [Node.chain]
    rw [hfee]
    cases a.cfg.initiator <;> simp
  have ho := fa.our; have ht := fa.their; have ho' := fb.our; have ht' := fb.their
  simp only [Node.chain] at ho ht ho' ht'
  rw [htip.our, htip.fee, hinit] at ho'
  rw [htip.their, htip.fee, hinit] at ht'
  rw [settleCredit_newRes, failCredit_newRes, addDebit_abs] at ho ht ho' ht'
  rw [← l2, ← hn2, ← hn1] at ho'
  rw [← l1, ← hn2, ← hn1] at ht'
  refine ⟨?_, ?_, hf, l2.symm, l1.symm⟩
  · cases hi : a.cfg.initiator <;> simp only [hi, Bool.not_true, Bool.not_false, Bool.false_eq_true, if_true, if_false] at ho ht ho' ht' <;> omega
  · cases hi : a.cfg.initiator <;> simp only [hi, Bool.not_true, Bool.not_false, Bool.false_eq_true, if_true, if_false] at ho ht ho' ht' <;> omega

/-! ### error classes -/

theorem computeView_err_sig {n : Node} {c : Chain} {vL vR : List Entry} {e : Err}
    (h : computeView n c vL vR = .error e) : e ≠ .invalidSig := by
  unfold computeView at h
  simp only at h
  generalize (n.chain c).tip.our + (if n.cfg.initiator then 1000 * (n.chain c).tip.fee else 0) = our0 at h
  generalize (n.chain c).tip.their + (if n.cfg.initiator then 0 else 1000 * (n.chain c).tip.fee) = their0 at h
  generalize viewFeePerKw (if n.cfg.initiator = true then vL else vR) (n.chain c).tip.feePerKw = f at h
  split at h
  · cases h; decide
  · split at h
    · cases h; decide
    · split at h
      · cases h; decide
      · cases h

theorem buildCommit_err_sig {cfg : Cfg} {c : Chain} {tip : Commit} {r : ViewResult} {a b d e : Nat} {er : Err}
    (h : buildCommit cfg c tip r a b d e = .error er) : er ≠ .invalidSig := by
  unfold buildCommit at h
  simp only at h
  generalize commitOuts cfg c _ _ _ _ = outs at h
  split at h
  · cases h; decide
  · split at h
    · cases h; decide
    · cases h

theorem fetch_err_sig {n : Node} {c : Chain} {a b d e : Nat} {er : Err}
    (h : fetchCommitmentView n c a b d e = .error er) : er ≠ .invalidSig := by
  unfold fetchCommitmentView at h
  split at h
  · rename_i hc; cases h; exact computeView_err_sig hc
  · simp only at h
    split at h
    · rename_i hb; cases h; exact buildCommit_err_sig hb
    · cases h

theorem validateUpdates_ne_sig (l : List Entry) (a b c : Nat) : validateUpdates l a b c ≠ .invalidSig := by
  unfold validateUpdates
  split
  · split <;> decide
  · split
    · decide
    · split <;> decide

theorem sanityOfView_ne_sig (n : Node) (c : Chain) (b : Buffer) (r : ViewResult) :
    sanityOfView n c b r ≠ .invalidSig := by
  unfold sanityOfView
  simp only
  intro h
  by_cases hf : r.feePerKw < feePerKwFloor
  · simp [hf] at h
  · simp only [hf, if_false] at h
    generalize (if n.cfg.initiator = true then applyCommitFee r.our r.weight r.feePerKw b
      else applyCommitFee r.their r.weight r.feePerKw Buffer.none) = paid at h
    cases paid with
    | none => simp at h
    | some bal =>
      simp only at h
      generalize (if n.cfg.initiator = true then bal else r.our) = our at h
      generalize (if n.cfg.initiator = true then r.their else bal) = their at h
      by_cases h1 : our < (n.chain c).tip.our ∧ our < 1000 * n.cfg.resL
      · simp [h1] at h
      · simp only [h1, if_false] at h
        by_cases h2 : their < (n.chain c).tip.their ∧ their < 1000 * n.cfg.resR
        · simp [h2] at h
        · simp only [h2, if_false] at h
          split at h
          · exact validateUpdates_ne_sig _ _ _ _ h
          · exact validateUpdates_ne_sig _ _ _ _ h

theorem sanity_ne_sig (n : Node) (i j : Nat) (c : Chain) (b : Buffer) (p q : List Entry) :
    sanity n i j c b p q ≠ .invalidSig := by
  unfold sanity
  split
  · rename_i h; exact computeView_err_sig h
  · exact sanityOfView_ne_sig _ _ _ _

/-- the two halves of a successful `fetchCommitmentView`. -/
theorem fetch_ok_parts {n : Node} {c : Chain} {a b d e : Nat} {cm : Commit} {n' : Node}
    (h : fetchCommitmentView n c a b d e = .ok (cm, n')) :
    ∃ r, computeView n c (viewOf n.logL a) (viewOf n.logR d) = .ok r ∧
         buildCommit n.cfg c (n.chain c).tip r a b d e = .ok cm := by
  unfold fetchCommitmentView at h
  split at h
  · cases h
  · rename_i r hc
    simp only at h
    split at h
    · cases h
    · rename_i cm' hb
      simp only [Except.ok.injEq, Prod.mk.injEq] at h
      exact ⟨r, hc, by rw [← h.1]; exact hb⟩

/-! ### agreement of the two constructions -/

/-- **LogAgreement** between a signer `a` (at the moment it signs) and the receiver `b` (at the
    moment the signature is delivered): mirrored configuration, mirrored previous commitment,
    and both sides see the same live HTLCs (with the same "already on this chain" status), the
    same not-yet-committed settles/fails and the same resulting fee rate.  Stated on exactly
    what the construction consumes, so it does not depend on when each side compacts fully
    resolved entries out of its logs. -/
structure LogAgreement (a b : Node) : Prop where
  cfg : b.cfg = a.cfg.mirror
  tip : TipMirror a.chainR.tip b.chainL.tip
  liveOurs : (liveAdds (viewOf a.logL a.logL.logIndex) (resolutions (viewOf a.logR a.chainL.tail.theirMsg))).map (absE .rem) =
    (liveAdds (viewOf b.logR b.logR.logIndex) (resolutions (viewOf b.logL b.chainR.tail.ourMsg))).map (absE .loc)
  liveTheirs : (liveAdds (viewOf a.logR a.chainL.tail.theirMsg) (resolutions (viewOf a.logL a.logL.logIndex))).map (absE .rem) =
    (liveAdds (viewOf b.logL b.chainR.tail.ourMsg) (resolutions (viewOf b.logR b.logR.logIndex))).map (absE .loc)
  newOurs : (newRes .rem (viewOf a.logL a.logL.logIndex)).map (absE .rem) =
    (newRes .loc (viewOf b.logR b.logR.logIndex)).map (absE .loc)
  newTheirs : (newRes .rem (viewOf a.logR a.chainL.tail.theirMsg)).map (absE .rem) =
    (newRes .loc (viewOf b.logL b.chainR.tail.ourMsg)).map (absE .loc)
  fee : viewFeePerKw (if a.cfg.initiator then viewOf a.logL a.logL.logIndex else viewOf a.logR a.chainL.tail.theirMsg)
      a.chainR.tip.feePerKw =
    viewFeePerKw (if a.cfg.initiator then viewOf b.logR b.logR.logIndex else viewOf b.logL b.chainR.tail.ourMsg)
      b.chainL.tip.feePerKw

theorem mirror_cfg_facts {ca cb : Cfg} (h : cb = ca.mirror) :
    cb.dustL = ca.dustR ∧ cb.initiator = !ca.initiator ∧ cb.anchors = ca.anchors ∧
    commitWeight cb = commitWeight ca ∧ (∀ f, htlcTimeoutFee cb f = htlcTimeoutFee ca f) ∧
    (∀ f, htlcSuccessFee cb f = htlcSuccessFee ca f) := by
  subst h
  refine ⟨rfl, rfl, rfl, rfl, fun _ => rfl, fun _ => rfl⟩

/-- the signer's and the receiver's constructions cover the same thing. -/
theorem constructions_agree {a b : Node} (hA : LogAgreement a b) {hLa hRa hLb hRb : Nat}
    {cma cmb : Commit} {a' b' : Node}
    (ha : fetchCommitmentView a .rem a.logL.logIndex hLa a.chainL.tail.theirMsg hRa = .ok (cma, a'))
    (hb : fetchCommitmentView b .loc b.chainR.tail.ourMsg hLb b.logR.logIndex hRb = .ok (cmb, b')) :
    cmb.sigView = cma.sigView := by
  obtain ⟨ra, hca, hba⟩ := fetch_ok_parts ha
  obtain ⟨rb, hcb, hbb⟩ := fetch_ok_parts hb
  obtain ⟨m1, m2, m3, m4, m5⟩ := computeView_mirror hA.cfg hA.tip hA.liveOurs hA.liveTheirs hA.newOurs hA.newTheirs hA.fee hca hcb
  obtain ⟨c1, c2, c3, c4, c5, c6⟩ := mirror_cfg_facts hA.cfg
  rw [buildCommit_sig_loc hbb, buildCommit_sig_rem hba]
  simp only [Node.chain]
  rw [hA.tip.height, m1, m2, m3, m4, m5, c1, c2]
  unfold sigOfView
  simp only [c3, c4, c5, c6]


/-- closed form of the balances and the fee of a successfully built commitment. -/
theorem buildCommit_bal {cfg : Cfg} {c : Chain} {tip : Commit} {r : ViewResult} {a b d e : Nat} {cm : Commit}
    (h : buildCommit cfg c tip r a b d e = .ok cm) :
    let outg := r.liveL.map (htlcOf cfg false c r.feePerKw)
    let inc := r.liveR.map (htlcOf cfg true c r.feePerKw)
    let fee := feeForWeight r.feePerKw (commitWeight cfg + htlcWeight *
      ((outg.filter (fun h => !h.dust)).length + (inc.filter (fun h => !h.dust)).length))
    cm.fee = fee ∧ cm.our = payFee cfg.initiator r.our fee ∧ cm.their = payFee (!cfg.initiator) r.their fee := by
  unfold buildCommit at h
  simp only at h
  cases hi : cfg.initiator <;> simp only [hi, Bool.false_eq_true, if_true, if_false] at h <;>
  · generalize ho : commitOuts cfg c _ _ _ _ = outs at h
    split at h
    · cases h
    · split at h
      · cases h
      · simp only [Except.ok.injEq] at h
        subst h
        simp only [payFee, hi, Bool.not_true, Bool.not_false, Bool.false_eq_true, if_true, if_false, and_self]

/-- under `LogAgreement` the two constructions are mirror images to the millisatoshi. -/
theorem constructions_mirror {a b : Node} (hA : LogAgreement a b) {hLa hRa hLb hRb : Nat}
    {cma cmb : Commit} {a' b' : Node}
    (ha : fetchCommitmentView a .rem a.logL.logIndex hLa a.chainL.tail.theirMsg hRa = .ok (cma, a'))
    (hb : fetchCommitmentView b .loc b.chainR.tail.ourMsg hLb b.logR.logIndex hRb = .ok (cmb, b')) :
    cmb.height = cma.height ∧ cmb.our = cma.their ∧ cmb.their = cma.our ∧ cmb.fee = cma.fee ∧
    cmb.feePerKw = cma.feePerKw ∧ cmb.outs = cma.outs := by
  have hsig := constructions_agree hA ha hb
  obtain ⟨ra, hca, hba⟩ := fetch_ok_parts ha
  obtain ⟨rb, hcb, hbb⟩ := fetch_ok_parts hb
  obtain ⟨m1, m2, m3, m4, m5⟩ := computeView_mirror hA.cfg hA.tip hA.liveOurs hA.liveTheirs hA.newOurs hA.newTheirs hA.fee hca hcb
  obtain ⟨c1, c2, c3, c4, c5, c6⟩ := mirror_cfg_facts hA.cfg
  obtain ⟨fa, oa, ta⟩ := buildCommit_bal hba
  obtain ⟨fb, ob, tb⟩ := buildCommit_bal hbb
  have hfee : cmb.fee = cma.fee := by
    rw [fa, fb]
    have e1 := houts_abs b.cfg false .loc rb.feePerKw .offered rb.liveL
    have e2 := houts_abs b.cfg true .loc rb.feePerKw .received rb.liveR
    have e3 := houts_abs a.cfg true .rem ra.feePerKw .offered ra.liveR
    have e4 := houts_abs a.cfg false .rem ra.feePerKw .received ra.liveL
    simp only [houts, secondFee, Cfg.dust] at e1 e2 e3 e4
    rw [nondust_len .offered (List.map (htlcOf b.cfg false Chain.loc rb.feePerKw) rb.liveL),
        nondust_len .received (List.map (htlcOf b.cfg true Chain.loc rb.feePerKw) rb.liveR),
        nondust_len .received (List.map (htlcOf a.cfg false Chain.rem ra.feePerKw) ra.liveL),
        nondust_len .offered (List.map (htlcOf a.cfg true Chain.rem ra.feePerKw) ra.liveR),
        e1, e2, e3, e4, m3, m4, m5, c1, c4, c5, c6]
    rw [Nat.add_comm (houtsA (htlcTimeoutFee a.cfg ra.feePerKw) a.cfg.dustR OKind.offered
      (List.map (absE Chain.rem) ra.liveR)).length]
  have h1 : cmb.sigView.height = cma.sigView.height := by rw [hsig]
  have h2 : cmb.sigView.feePerKw = cma.sigView.feePerKw := by rw [hsig]
  have h3 : cmb.sigView.outs = cma.sigView.outs := by rw [hsig]
  refine ⟨h1, ?_, ?_, hfee, h2, h3⟩
  · rw [ob, ta, ← fb, ← fa, hfee, m1, c2]
  · rw [tb, oa, ← fb, ← fa, hfee, m2, c2, Bool.not_not]

/-! ### HTLC lists -/

def mirrorHtlc (h : Htlc) : Htlc := { h with incoming := !h.incoming }

/-- an HTLC of a commitment as a function of what the construction sees of its add entry. -/
def htlcOfA (incoming : Bool) (secondFee dust : Nat) (a : AEntry) : Htlc :=
  { incoming := incoming, idx := a.htlcIndex, amt := a.amt, expiry := a.expiry, hash := a.hash,
    dust := decide (a.amt / 1000 < dust + secondFee) }

theorem htlcOf_abs (cfg : Cfg) (incoming : Bool) (c : Chain) (f : Nat) (l : List Entry) :
    l.map (htlcOf cfg incoming c f) =
      (l.map (absE c)).map (htlcOfA incoming (secondFee cfg incoming c f) (cfg.dust c)) := by
  rw [List.map_map]
  apply List.map_congr_left
  intro e _
  simp only [htlcOf, htlcOfA, htlcIsDust, absE, secondFee, Function.comp]
  cases incoming <;> cases c <;> rfl

theorem map_mirror_htlcOfA (incoming : Bool) (sf d : Nat) (l : List AEntry) :
    (l.map (htlcOfA incoming sf d)).map mirrorHtlc = l.map (htlcOfA (!incoming) sf d) := by
  rw [List.map_map]; rfl


theorem buildCommit_htlcs {cfg : Cfg} {c : Chain} {tip : Commit} {r : ViewResult} {a b d e : Nat} {cm : Commit}
    (h : buildCommit cfg c tip r a b d e = .ok cm) :
    cm.htlcs = r.liveL.map (htlcOf cfg false c r.feePerKw) ++ r.liveR.map (htlcOf cfg true c r.feePerKw) := by
  unfold buildCommit at h
  simp only at h
  generalize commitOuts cfg c _ _ _ _ = outs at h
  split at h
  · cases h
  · split at h
    · cases h
    · simp only [Except.ok.injEq] at h
      rw [← h]

/-- under `LogAgreement` the HTLC lists of the two constructions are mirror images (the receiver
    lists its outgoing HTLCs first, the signer lists them as incoming last). -/
theorem constructions_mirror_htlcs {a b : Node} (hA : LogAgreement a b) {hLa hRa hLb hRb : Nat}
    {cma cmb : Commit} {a' b' : Node}
    (ha : fetchCommitmentView a .rem a.logL.logIndex hLa a.chainL.tail.theirMsg hRa = .ok (cma, a'))
    (hb : fetchCommitmentView b .loc b.chainR.tail.ourMsg hLb b.logR.logIndex hRb = .ok (cmb, b')) :
    ∃ o i, cma.htlcs = o ++ i ∧ cmb.htlcs.map mirrorHtlc = i ++ o := by
  obtain ⟨ra, hca, hba⟩ := fetch_ok_parts ha
  obtain ⟨rb, hcb, hbb⟩ := fetch_ok_parts hb
  obtain ⟨_, _, m3, m4, m5⟩ := computeView_mirror hA.cfg hA.tip hA.liveOurs hA.liveTheirs hA.newOurs hA.newTheirs hA.fee hca hcb
  obtain ⟨c1, _, _, _, c5, c6⟩ := mirror_cfg_facts hA.cfg
  refine ⟨_, _, buildCommit_htlcs hba, ?_⟩
  rw [buildCommit_htlcs hbb, List.map_append, htlcOf_abs, htlcOf_abs, map_mirror_htlcOfA, map_mirror_htlcOfA,
      htlcOf_abs, htlcOf_abs, m3, m4, m5]
  simp only [secondFee, Cfg.dust, c1, c5, c6, Bool.not_true, Bool.not_false]

end LndModel.C01
