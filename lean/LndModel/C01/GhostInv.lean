/-
C01 — `GSide`: one ghost log against the real one, and its preservation by the three things that
happen to an update log (append, set commit heights, compaction).
-/
import LndModel.C01.Ghost
set_option linter.unusedSimpArgs false
set_option linter.unusedVariables false

namespace LndModel.C01

/-- ghost log `G` (other direction: `O`) of the real log `log`.  `tip c` = the log index up to
    which the tip of chain `c` covers this log; `otherCtr` = htlc counter of the other log;
    `bound` = index below which the resolutions (in `O`) of dropped adds lie. -/
structure GSide (G O : GLog) (log : Log) (otherCtr : Nat) (tip : Chain → Nat) (bound : Nat) : Prop where
  act : log.entries = G.kept
  pos : G.all.map Entry.logIndex = List.range G.length
  len : log.logIndex = G.length
  wf : ∀ e ∈ G.all, EWf e
  hc : ∀ e ∈ G.all, ∀ c, e.onC c = true ↔ e.logIndex < tip c
  tips : ∀ c, tip c ≤ G.length
  deadA : ∀ e, (e, false) ∈ G → e.isAdd = true →
    ∃ r, (r, false) ∈ O ∧ r.isRes = true ∧ r.parent = e.htlcIndex ∧ r.logIndex < bound
  deadR : ∀ r, (r, false) ∈ G → r.isRes = true →
    r.rmvL ≠ 0 ∧ r.rmvR ≠ 0 ∧ ∀ e k, (e, k) ∈ O → e.isAdd = true → e.htlcIndex = r.parent → k = false
  par : ∀ e ∈ G.all, e.isRes = true → e.parent < otherCtr
  hi : ∀ e ∈ G.all, e.isAdd = true → e.htlcIndex < log.htlcCounter
  uniq : UniqueAdds G.all

theorem GSide.idx_lt {G O : GLog} {log : Log} {oc : Nat} {tip : Chain → Nat} {b : Nat}
    (h : GSide G O log oc tip b) {e : Entry} (he : e ∈ G.all) : e.logIndex < G.length := by
  have : e.logIndex ∈ G.all.map Entry.logIndex := List.mem_map_of_mem he
  rw [h.pos] at this
  exact List.mem_range.mp this

theorem GSide.bound_mono {G O : GLog} {log : Log} {oc : Nat} {tip : Chain → Nat} {b b' : Nat}
    (h : GSide G O log oc tip b) (hb : b ≤ b') : GSide G O log oc tip b' := by
  refine { h with deadA := ?_ }
  intro e he ha
  obtain ⟨r, h1, h2, h3, h4⟩ := h.deadA e he ha
  exact ⟨r, h1, h2, h3, by omega⟩

theorem mem_snoc_false {G : GLog} {e pd : Entry} (h : (e, false) ∈ G ++ [(pd, true)]) : (e, false) ∈ G := by
  rcases List.mem_append.mp h with h | h
  · exact h
  · simp at h

/-- a new entry is appended to the log itself. -/
theorem GSide.snoc_own {G O : GLog} {log log' : Log} {oc : Nat} {tip : Chain → Nat} {b : Nat}
    (h : GSide G O log oc tip b) {pd : Entry}
    (he : log'.entries = log.entries ++ [pd]) (hl : log'.logIndex = log.logIndex + 1)
    (hidx : pd.logIndex = log.logIndex) (hw : EWf pd) (hfresh : ∀ c, pd.onC c = false)
    (hpar : pd.isRes = true → pd.parent < oc)
    (hctr : log.htlcCounter ≤ log'.htlcCounter)
    (hadd : pd.isAdd = true → pd.htlcIndex = log.htlcCounter ∧ log.htlcCounter < log'.htlcCounter) :
    GSide (G ++ [(pd, true)]) O log' oc tip b := by
  have hlen := h.len
  constructor
  · rw [he, GLog.kept_snoc, h.act]
  · rw [GLog.all_snoc, List.map_append, h.pos, List.length_append, List.length_singleton, List.range_succ]
    simp [hidx, hlen]
  · rw [hl, hlen]; simp
  · intro e hm
    rw [GLog.all_snoc] at hm
    rcases List.mem_append.mp hm with hm | hm
    · exact h.wf e hm
    · simp at hm; subst hm; exact hw
  · intro e hm c
    rw [GLog.all_snoc] at hm
    rcases List.mem_append.mp hm with hm | hm
    · exact h.hc e hm c
    · simp at hm; subst hm
      have := h.tips c
      simp [hfresh c]; omega
  · intro c; have := h.tips c; simp; omega
  · intro e hm ha
    exact h.deadA e (mem_snoc_false hm) ha
  · intro r hm hr
    exact h.deadR r (mem_snoc_false hm) hr
  · intro e hm hr
    rw [GLog.all_snoc] at hm
    rcases List.mem_append.mp hm with hm | hm
    · exact h.par e hm hr
    · simp at hm; subst hm; exact hpar hr
  · intro e hm ha
    rw [GLog.all_snoc] at hm
    rcases List.mem_append.mp hm with hm | hm
    · have := h.hi e hm ha; omega
    · simp at hm; subst hm; have := hadd ha; omega
  · show UniqueAdds (GLog.all (G ++ [(pd, true)]))
    rw [GLog.all_snoc]
    unfold UniqueAdds
    rw [adds_snoc]
    by_cases ha : pd.isAdd = true
    · simp only [ha, if_true, List.map_append, List.map_cons, List.map_nil]
      rw [List.nodup_append]
      refine ⟨h.uniq, by simp, ?_⟩
      intro x hx y hy
      simp only [List.mem_singleton] at hy
      subst hy
      obtain ⟨e, he', rfl⟩ := List.mem_map.mp hx
      have he'' := List.mem_filter.mp he'
      have := h.hi e he''.1 he''.2
      have := (hadd ha).1
      omega
    · simp only [ha, Bool.false_eq_true, if_false, List.append_nil]
      exact h.uniq

/-- a new (kept) entry is appended to the other log. -/
theorem GSide.other_snoc {G O : GLog} {log log' : Log} {oc oc' : Nat} {tip : Chain → Nat} {b : Nat}
    (h : GSide G O log oc tip b) {pd : Entry} (hoc : oc ≤ oc')
    (hpd : pd.isAdd = true → oc ≤ pd.htlcIndex)
    (h1 : log'.entries = log.entries) (h2 : log'.logIndex = log.logIndex)
    (h3 : log'.htlcCounter = log.htlcCounter) :
    GSide G (O ++ [(pd, true)]) log' oc' tip b := by
  constructor
  · rw [h1]; exact h.act
  · exact h.pos
  · rw [h2]; exact h.len
  · exact h.wf
  · exact h.hc
  · exact h.tips
  · intro e hm ha
    obtain ⟨r, r1, r2, r3, r4⟩ := h.deadA e hm ha
    exact ⟨r, List.mem_append_left _ r1, r2, r3, r4⟩
  · intro r hm hr
    obtain ⟨d1, d2, d3⟩ := h.deadR r hm hr
    refine ⟨d1, d2, ?_⟩
    intro e k hek ha hidx
    rcases List.mem_append.mp hek with hek | hek
    · exact d3 e k hek ha hidx
    · simp at hek
      obtain ⟨rfl, rfl⟩ := hek
      have := h.par r (GLog.mem_all hm) hr
      have := hpd ha
      omega
  · intro e hm hr; have := h.par e hm hr; omega
  · intro e hm ha; rw [h3]; exact h.hi e hm ha
  · exact h.uniq

/-! ### setting commit heights -/

theorem commitAt_rmvH_add (c c' : Chain) (h : Nat) (e : Entry) (ha : e.isAdd = true) :
    (e.commitAt c h).rmvH c' = e.rmvH c' := by
  have : e.ty = .add := (isAdd_iff e).mp ha
  unfold Entry.commitAt
  cases c <;> cases c' <;> simp [this, Entry.rmvH, Entry.setAdd, Entry.addH] <;> split <;> rfl

theorem cm1_rmvH_ne (c c' : Chain) (h i : Nat) (e : Entry) (hr : e.isRes = true) (hne : e.rmvH c' ≠ 0) :
    (cm1 c h i e).rmvH c' ≠ 0 := by
  unfold cm1; split
  · rw [commitAt_rmvH_res c c' h e hr]
    split
    · rename_i hc; obtain ⟨rfl, h0⟩ := hc; exact absurd h0 hne
    · exact hne
  · exact hne

theorem ewf_cm1 (c : Chain) (h i : Nat) {e : Entry} (hw : EWf e) : EWf (cm1 c h i e) := by
  constructor
  · simpa using hw.noFee
  · intro ha
    have ha' : e.isAdd = true := by simpa using ha
    obtain ⟨r1, r2⟩ := hw.addRmv ha'
    unfold cm1
    split
    · have e1 := commitAt_rmvH_add c .loc h e ha'
      have e2 := commitAt_rmvH_add c .rem h e ha'
      simp only [Entry.rmvH] at e1 e2
      exact ⟨by rw [e1]; exact r1, by rw [e2]; exact r2⟩
    · exact ⟨r1, r2⟩
  · intro hr
    have hr' : e.isRes = true := by simpa using hr
    obtain ⟨r1, r2⟩ := hw.resAdd hr'
    unfold cm1
    split
    · have e1 := commitAt_addH_res c .loc h e hr'
      have e2 := commitAt_addH_res c .rem h e hr'
      simp only [Entry.addH] at e1 e2
      exact ⟨by rw [e1]; exact r1, by rw [e2]; exact r2⟩
    · exact ⟨r1, r2⟩
  · intro ha
    have ha' : e.isAdd = true := by simpa using ha
    simpa using hw.addShape ha'
  · intro hr
    have hr' : e.isRes = true := by simpa using hr
    rw [cm1_htlcIndex, cm1_expiry]
    exact hw.resShape hr'

theorem onC_cm1_other (c c' : Chain) (h i : Nat) (e : Entry) (hc : c' ≠ c) :
    (cm1 c h i e).onC c' = e.onC c' := by
  unfold Entry.onC
  rw [cm1_isAdd, cm1_addH_other c c' h i e hc, cm1_rmvH_other c c' h i e hc]

theorem onC_cm1_same (c : Chain) (h i : Nat) (hh : h ≠ 0) {e : Entry} (hw : EWf e) (hlt : e.logIndex < i) :
    (cm1 c h i e).onC c = true := by
  unfold Entry.onC cm1
  simp only [hlt, if_true, commitAt_isAdd]
  by_cases ha : e.isAdd = true
  · simp only [ha, if_true, commitAt_addH_add c c h e ha]
    by_cases h0 : e.addH c = 0 <;> simp [h0, hh]
  · have ha' : e.isAdd = false := by simpa using ha
    have hr : e.isRes = true := isRes_of_not e ha' hw.noFee
    simp only [ha', Bool.false_eq_true, if_false, commitAt_rmvH_res c c h e hr]
    by_cases h0 : e.rmvH c = 0 <;> simp [h0, hh]

theorem cm1_of_ge (c : Chain) (h i : Nat) (e : Entry) (hge : ¬ e.logIndex < i) : cm1 c h i e = e := by
  unfold cm1; simp [hge]

/-- the commit heights of chain `c` are set for the entries below `i` (own log) / `j` (other log);
    the new tip of chain `c` covers this log up to `i`. -/
theorem GSide.commit {G O : GLog} {log : Log} {oc : Nat} {tip tip' : Chain → Nat} {b : Nat}
    (h : GSide G O log oc tip b) (c : Chain) (ht i j : Nat) (hh : ht ≠ 0) (h1 : tip c ≤ i) (h2 : i ≤ G.length)
    (htip : ∀ c', tip' c' = if c' = c then i else tip c') :
    GSide (G.mapE (cm1 c ht i)) (O.mapE (cm1 c ht j))
      { log with entries := commitLog c ht i log.entries } oc tip' b := by
  constructor
  · show commitLog c ht i log.entries = _
    rw [GLog.kept_mapE, commitLog_eq, h.act]
  · rw [GLog.all_mapE, List.map_map, GLog.length_mapE]
    have : (Entry.logIndex ∘ cm1 c ht i) = Entry.logIndex := by funext e; simp
    rw [this]; exact h.pos
  · rw [GLog.length_mapE]; exact h.len
  · intro e hm
    rw [GLog.all_mapE] at hm
    obtain ⟨e0, h0, rfl⟩ := List.mem_map.mp hm
    exact ewf_cm1 c ht i (h.wf e0 h0)
  · intro e hm c'
    rw [GLog.all_mapE] at hm
    obtain ⟨e0, h0, rfl⟩ := List.mem_map.mp hm
    rw [htip c', cm1_logIndex]
    by_cases hc : c' = c
    · subst hc
      simp only [if_true]
      by_cases hlt : e0.logIndex < i
      · simp [onC_cm1_same c' ht i hh (h.wf e0 h0) hlt, hlt]
      · rw [cm1_of_ge _ _ _ _ hlt]
        have := h.hc e0 h0 c'
        constructor
        · intro ho; have := this.mp ho; omega
        · intro hlt'; exact absurd hlt' hlt
    · simp only [hc, if_false]
      rw [onC_cm1_other c c' ht i e0 hc]
      exact h.hc e0 h0 c'
  · intro c'
    rw [GLog.length_mapE, htip c']
    by_cases hc : c' = c
    · simp [hc, h2]
    · simp only [hc, if_false]; exact h.tips c'
  · intro e hm ha
    obtain ⟨e0, h0, rfl⟩ := GLog.mem_mapE hm
    obtain ⟨r, r1, r2, r3, r4⟩ := h.deadA e0 h0 (by simpa using ha)
    exact ⟨cm1 c ht j r, GLog.mem_mapE_of r1, by simpa using r2, by simpa using r3, by simpa using r4⟩
  · intro r hm hr
    obtain ⟨r0, h0, rfl⟩ := GLog.mem_mapE hm
    obtain ⟨d1, d2, d3⟩ := h.deadR r0 h0 (by simpa using hr)
    refine ⟨?_, ?_, ?_⟩
    · exact cm1_rmvH_ne c .loc ht i r0 (by simpa using hr) d1
    · exact cm1_rmvH_ne c .rem ht i r0 (by simpa using hr) d2
    · intro e k hek ha hidx
      obtain ⟨e0, he0, rfl⟩ := GLog.mem_mapE hek
      exact d3 e0 k he0 (by simpa using ha) (by simpa using hidx)
  · intro e hm hr
    rw [GLog.all_mapE] at hm
    obtain ⟨e0, h0, rfl⟩ := List.mem_map.mp hm
    simpa using h.par e0 h0 (by simpa using hr)
  · intro e hm ha
    rw [GLog.all_mapE] at hm
    obtain ⟨e0, h0, rfl⟩ := List.mem_map.mp hm
    simpa using h.hi e0 h0 (by simpa using ha)
  · show UniqueAdds (GLog.all (GLog.mapE (cm1 c ht i) G))
    rw [GLog.all_mapE]
    unfold UniqueAdds adds
    rw [filter_map_pres (cm1_isAdd c ht i), List.map_map]
    have : (Entry.htlcIndex ∘ cm1 c ht i) = Entry.htlcIndex := by funext e; simp
    rw [this]; exact h.uniq

/-! ### compaction -/

/-- one `compactPass lt rt a b`: the removable entries of `a` and the adds of `b` they resolve
    are dropped from the real logs; the ghost logs only change flags. -/
theorem GSide.compactPass {GA GB : GLog} {a b : Log} {ocA ocB : Nat} {tipA tipB : Chain → Nat} {bA bB : Nat}
    (hA : GSide GA GB a ocA tipA bA) (hB : GSide GB GA b ocB tipB bB) (lt rt : Nat)
    (hb : ∀ r ∈ a.entries, removable lt rt r = true → r.logIndex < bB) :
    GSide (GA.drop (removable lt rt))
      (GB.drop (fun e => e.isAdd && ((goneRes lt rt a.entries).map Entry.parent).contains e.htlcIndex))
      (passA lt rt a) ocA tipA bA ∧
    GSide (GB.drop (fun e => e.isAdd && ((goneRes lt rt a.entries).map Entry.parent).contains e.htlcIndex))
      (GA.drop (removable lt rt))
      (passB ((goneRes lt rt a.entries).map Entry.parent) b) ocB tipB bB := by
  -- a removable kept entry of `a` is a resolution among `goneRes`
  have hgone : ∀ r, (r, true) ∈ GA → removable lt rt r = true → r ∈ goneRes lt rt a.entries ∧ r.isRes = true := by
    intro r hr hrem
    have hmem : r ∈ a.entries := by rw [hA.act]; exact GLog.mem_kept.mpr hr
    have hw := hA.wf r (GLog.mem_all hr)
    have hnadd := (removable_spec hrem).1
    refine ⟨?_, isRes_of_not r hnadd hw.noFee⟩
    unfold goneRes
    exact List.mem_filter.mpr ⟨hmem, by simp [hrem, hw.noFee]⟩
  constructor
  · constructor
    · show (a.entries.filter _) = _
      rw [GLog.kept_drop, hA.act]
    · rw [GLog.all_drop, GLog.length_drop]; exact hA.pos
    · rw [GLog.length_drop]; exact hA.len
    · rw [GLog.all_drop]; exact hA.wf
    · rw [GLog.all_drop]; exact hA.hc
    · rw [GLog.length_drop]; exact hA.tips
    · intro e hm ha
      obtain ⟨k0, h0, hk⟩ := GLog.mem_drop hm
      have hnr : removable lt rt e = false := by
        cases hr : removable lt rt e
        · rfl
        · have := (removable_spec hr).1; rw [ha] at this; cases this
      have : k0 = false := by simpa [hnr] using hk.symm
      subst this
      obtain ⟨r, r1, r2, r3, r4⟩ := hA.deadA e h0 ha
      exact ⟨r, by simpa using GLog.mem_drop_of (p := fun e => e.isAdd && ((goneRes lt rt a.entries).map Entry.parent).contains e.htlcIndex) r1, r2, r3, r4⟩
    · intro r hm hr
      obtain ⟨k0, h0, hk⟩ := GLog.mem_drop hm
      cases k0 with
      | false =>
        obtain ⟨d1, d2, d3⟩ := hA.deadR r h0 hr
        refine ⟨d1, d2, ?_⟩
        intro e k hek ha hidx
        obtain ⟨k1, h1, rfl⟩ := GLog.mem_drop hek
        rw [d3 e k1 h1 ha hidx]; rfl
      | true =>
        have hrem : removable lt rt r = true := by simpa using hk
        have hsp := (removable_spec hrem).2
        refine ⟨hsp .loc, hsp .rem, ?_⟩
        intro e k hek ha hidx
        obtain ⟨k1, h1, rfl⟩ := GLog.mem_drop hek
        have hin : r.parent ∈ (goneRes lt rt a.entries).map Entry.parent :=
          List.mem_map_of_mem (hgone r h0 hrem).1
        have : ((goneRes lt rt a.entries).map Entry.parent).contains e.htlcIndex = true := by
          rw [hidx]; simpa using hin
        rw [ha, this]; simp
    · rw [GLog.all_drop]; exact hA.par
    · rw [GLog.all_drop]; exact hA.hi
    · show UniqueAdds (GLog.all _)
      rw [GLog.all_drop]; exact hA.uniq
  · constructor
    · show (b.entries.filter _) = _
      rw [GLog.kept_drop, hB.act]
    · rw [GLog.all_drop, GLog.length_drop]; exact hB.pos
    · rw [GLog.length_drop]; exact hB.len
    · rw [GLog.all_drop]; exact hB.wf
    · rw [GLog.all_drop]; exact hB.hc
    · rw [GLog.length_drop]; exact hB.tips
    · intro e hm ha
      obtain ⟨k1, h1, hk⟩ := GLog.mem_drop hm
      cases k1 with
      | false =>
        obtain ⟨r, r1, r2, r3, r4⟩ := hB.deadA e h1 ha
        exact ⟨r, by simpa using GLog.mem_drop_of (p := removable lt rt) r1, r2, r3, r4⟩
      | true =>
        have hq : ((goneRes lt rt a.entries).map Entry.parent).contains e.htlcIndex = true := by
          simpa [ha] using hk
        have : e.htlcIndex ∈ (goneRes lt rt a.entries).map Entry.parent := by simpa using hq
        obtain ⟨r, hr, hpar⟩ := List.mem_map.mp this
        obtain ⟨g1, g2, g3⟩ := goneRes_mem hr
        have hrk : (r, true) ∈ GA := by rw [hA.act] at g1; exact GLog.mem_kept.mp g1
        refine ⟨r, ?_, g2, hpar, hb r (by rw [hA.act]; exact GLog.mem_kept.mpr hrk) g3⟩
        have := GLog.mem_drop_of (p := removable lt rt) hrk
        simpa [g3] using this
    · intro r hm hr
      obtain ⟨k1, h1, hk⟩ := GLog.mem_drop hm
      have hna : r.isAdd = false := isRes_not_isAdd r hr
      have : k1 = false := by simpa [hna] using hk.symm
      subst this
      obtain ⟨d1, d2, d3⟩ := hB.deadR r h1 hr
      refine ⟨d1, d2, ?_⟩
      intro e k hek ha hidx
      obtain ⟨k0, h0, rfl⟩ := GLog.mem_drop hek
      rw [d3 e k0 h0 ha hidx]; rfl
    · rw [GLog.all_drop]; exact hB.par
    · rw [GLog.all_drop]; exact hB.hi
    · show UniqueAdds (GLog.all _)
      rw [GLog.all_drop]; exact hB.uniq

end LndModel.C01
