/-
C01 — second-level HTLC transactions and the order of the HTLC signatures
(lnwallet/channel.go `populateHtlcIndexes` / `locateOutputIndex`, `genRemoteHtlcSigJobs` + the sort by
output index in `SignNextCommitment`, `genHtlcSigValidationJobs`; lnwallet/transactions.go
`CreateHtlcTimeoutTx` / `CreateHtlcSuccessTx`; lnwallet/commitment.go `HtlcSigHashType`,
`HtlcSecondLevelInputSequence`, `HtlcTimeoutFee`, `HtlcSuccessFee`; lnwallet/commit_sort.go).

Executable model, run by the driver on every real commitment (correspondence):

* `sortedTx σ outs`  — the real transaction: the model's abstract outputs (construction order) with
  their real pkScripts attached by the oracle `σ` (read from the real transaction), sorted by
  TxOrder's `commitSort`.  Compared index by index with the real output list.
* `populate`         — `populateHtlcIndexes`: the HTLCs in the order outgoing ++ incoming, dust ones get
  no index, the others the first matching output not yet handed to an HTLC with the same payment hash
  (TxOrder's `locateFrom`).  Compared with the recorded localOutputIndex / remoteOutputIndex.
* `signJobs`         — the signer's second-level transactions in the order of the HTLC signatures of
  commitment_signed (incoming, then outgoing, then sorted by output index).
* `verifyJobs`       — the receiver's verification jobs (one pass over the output indices of its own
  commitment; incoming index map first).
-/
import LndModel.C01.Model
import LndModel.C01.TxOrder

namespace LndModel.C01

/-- what one HTLC signature covers: the second-level transaction (version 2, one input, one
    output) and the sighash flags.  The output script (to-self-delayed / revocation) is the same
    for every HTLC of one commitment and is not modelled. -/
structure SecondTx where
  /-- `PreviousOutPoint.Index`: position of the HTLC output in the sorted commitment transaction -/
  outIndex : Nat
  /-- HTLC-success (`true`) or HTLC-timeout transaction -/
  success : Bool
  /-- the HTLC's CLTV expiry for a timeout transaction, 0 for a success transaction -/
  lockTime : Nat
  /-- `HtlcSecondLevelInputSequence` -/
  sequence : Nat
  /-- output value in sat: HTLC amount − second-level fee -/
  value : Nat
  /-- value of the spent HTLC output (committed to by the segwit sighash) -/
  prevValue : Nat
  /-- `HtlcSigHashType`: SIGHASH_ALL (`true`) or SINGLE|ANYONECANPAY -/
  sigHashAll : Bool
deriving DecidableEq, Repr, Inhabited

/-- the HTLC is offered by the owner of the commitment on chain `c` (so its second-level
    transaction is the timeout transaction). -/
def Htlc.offeredOn (h : Htlc) (c : Chain) : Bool := h.incoming == (c == .rem)

/-- `CreateHtlcTimeoutTx` / `CreateHtlcSuccessTx` with the arguments both call sites pass. -/
def secondTx (cfg : Cfg) (feePerKw : Nat) (timeout : Bool) (amtSat expiry oi : Nat) : SecondTx :=
  { outIndex := oi, success := !timeout, lockTime := if timeout then expiry else 0,
    sequence := if cfg.anchors then 1 else 0,
    value := amtSat - (if timeout then htlcTimeoutFee cfg feePerKw else htlcSuccessFee cfg feePerKw),
    prevValue := amtSat, sigHashAll := !cfg.anchors }

/-- the abstract output of a non-dust HTLC on chain `c` (what `htlcOuts` inserts). -/
def Htlc.out (h : Htlc) (c : Chain) : Out :=
  ⟨h.amt / 1000, if h.offeredOn c then .offered else .received, h.expiry, h.hash⟩

/-- abstract output + its real pkScript. -/
def Out.tx (σ : Out → Nat) (o : Out) : TxO := ⟨o.value, σ o, o.cltv⟩

/-- the real (sorted) transaction of a commitment with abstract outputs `outs`. -/
def sortedTx (σ : Out → Nat) (outs : List Out) : List TxO := commitSort (outs.map (Out.tx σ))

/-- what `locateOutputIndex` looks for. -/
def Htlc.ht (σ : Out → Nat) (c : Chain) (h : Htlc) : HT := ⟨h.hash, (h.out c).tx σ⟩

/-- `populateHtlcIndexes` over `outgoingHTLCs ++ incomingHTLCs`; `d` = the `dups` map. -/
def populate (tx : List TxO) (key : Htlc → HT) : (Nat → List Nat) → List Htlc → Option (List (Option Nat))
  | _, [] => some []
  | d, h :: hs =>
    if h.dust then (populate tx key d hs).map (none :: ·)
    else match locateFrom (d (key h).hash) (key h).out 0 tx with
      | none => none
      | some i => (populate tx key (fun x => if x = (key h).hash then i :: d x else d x) hs).map (some i :: ·)

/-- the jobs of a list of (HTLC, recorded output index) pairs, dust skipped. -/
def jobsOf (cfg : Cfg) (c : Chain) (feePerKw : Nat) (l : List (Htlc × Option Nat)) : List SecondTx :=
  l.filterMap fun p =>
    if p.1.dust then none
    else p.2.map fun i => secondTx cfg feePerKw (p.1.offeredOn c) (p.1.amt / 1000) p.1.expiry i

def jobLe (a b : SecondTx) : Bool := decide (a.outIndex ≤ b.outIndex)

/-- the signer: `genRemoteHtlcSigJobs` on its new remote commitment `cm` (incoming HTLCs first,
    then the outgoing ones), then sorted by output index; the i-th HTLC signature of
    commitment_signed signs the i-th element. -/
def signJobs (cfg : Cfg) (cm : Commit) (idx : List (Option Nat)) : List SecondTx :=
  let z := cm.htlcs.zip idx
  (jobsOf cfg .rem cm.feePerKw (z.filter (fun p => p.1.incoming)) ++
   jobsOf cfg .rem cm.feePerKw (z.filter (fun p => !p.1.incoming))).mergeSort jobLe

/-- `incomingHTLCIndex[k]` / `outgoingHTLCIndex[k]` (a Go map: the last writer wins). -/
def lastAt (z : List (Htlc × Option Nat)) (inc : Bool) (k : Nat) : Option Htlc :=
  ((z.filter fun p => p.1.incoming == inc && !p.1.dust && p.2 == some k).getLast?).map (·.1)

/-- the receiver: `genHtlcSigValidationJobs` on its new local commitment `cm` with `nOuts`
    outputs; the i-th element is checked against the i-th HTLC signature.  Result: (HtlcIndex of
    the job, incoming?, transaction). -/
def verifyJobs (cfg : Cfg) (cm : Commit) (idx : List (Option Nat)) (nOuts : Nat) : List (Nat × Bool × SecondTx) :=
  let z := cm.htlcs.zip idx
  (List.range nOuts).filterMap fun k =>
    match lastAt z true k with
    | some h => some (h.idx, true, secondTx cfg cm.feePerKw false (h.amt / 1000) h.expiry k)
    | none =>
      match lastAt z false k with
      | some h => some (h.idx, false, secondTx cfg cm.feePerKw true (h.amt / 1000) h.expiry k)
      | none => none

end LndModel.C01
