/-
C01 — the output order of a commitment transaction (`InPlaceCommitSort`, lnwallet/commit_sort.go):
BIP 69 (value, then pkScript bytes) with the CLTV of the HTLC as the final tie-break.

Abstract model: an output is (value, script, cltv); `script` stands for the pkScript bytes as a
number (any injective, order-preserving encoding of the byte strings).  The theorems say that this
order is canonical: the sorted transaction is a function of the *multiset* of outputs only, so two
peers that insert the same outputs in different orders, with any (also unstable, like Go's
`sort.Sort`) correct sorting procedure, obtain the identical output list — and that the CLTV
tie-break is what makes this true for HTLCs that share value and script.
-/
namespace LndModel.C01

structure TxO where
  value : Nat
  script : Nat
  cltv : Nat
deriving DecidableEq, Repr

/-- `sortableCommitOutputSlice.Less`. -/
def txLess (a b : TxO) : Bool :=
  if a.value ≠ b.value then decide (a.value < b.value)
  else if a.script ≠ b.script then decide (a.script < b.script)
  else decide (a.cltv < b.cltv)

/-- "not after". -/
def txLe (a b : TxO) : Bool := !txLess b a

theorem txLe_iff (a b : TxO) : txLe a b = true ↔
    a.value < b.value ∨ (a.value = b.value ∧ (a.script < b.script ∨ (a.script = b.script ∧ a.cltv ≤ b.cltv))) := by
  unfold txLe txLess
  by_cases h1 : b.value = a.value
  · by_cases h2 : b.script = a.script
    · simp [h1, h2]
    · simp [h1, h2]; omega
  · simp [h1]; omega

theorem txLe_trans (a b c : TxO) (h1 : txLe a b = true) (h2 : txLe b c = true) : txLe a c = true := by
  rw [txLe_iff] at *; omega

theorem txLe_total (a b : TxO) : (txLe a b || txLe b a) = true := by
  rw [Bool.or_eq_true, txLe_iff, txLe_iff]; omega

theorem txLe_antisymm (a b : TxO) (h1 : txLe a b = true) (h2 : txLe b a = true) : a = b := by
  rw [txLe_iff] at *
  cases a; cases b
  simp only [TxO.mk.injEq] at *
  omega

/-- the sorted outputs. -/
def commitSort (os : List TxO) : List TxO := os.mergeSort txLe

theorem commitSort_perm (os : List TxO) : (commitSort os).Perm os := List.mergeSort_perm os txLe

/-- **bip69_cltv_sorted**: the result is ordered by value, then script, then CLTV. -/
theorem bip69_cltv_sorted (os : List TxO) : (commitSort os).Pairwise (fun a b => txLe a b = true) :=
  List.pairwise_mergeSort txLe_trans txLe_total os

/-- **bip69_cltv_canonical**: ANY arrangement `r` of the outputs `os` that is ordered by
    (value, script, CLTV) — the result of whatever sorting procedure, stable or not — is
    `commitSort os`. -/
theorem bip69_cltv_canonical {os r : List TxO} (hp : r.Perm os) (hs : r.Pairwise (fun a b => txLe a b = true)) :
    r = commitSort os := by
  apply List.Perm.eq_of_pairwise (le := fun a b => txLe a b = true) _ hs (bip69_cltv_sorted os)
  · exact hp.trans (commitSort_perm os).symm
  · intro a b _ _ h1 h2; exact txLe_antisymm a b h1 h2

/-- **bip69_cltv_order_independent**: two constructions that insert the same outputs in different
    orders (the signer lists the HTLCs it offered first, the receiver the ones it offered) yield
    the identical sorted transaction. -/
theorem bip69_cltv_order_independent {os₁ os₂ : List TxO} (hp : os₁.Perm os₂) : commitSort os₁ = commitSort os₂ :=
  bip69_cltv_canonical ((commitSort_perm os₁).trans hp) (bip69_cltv_sorted os₁)

/-- plain BIP 69 (no CLTV tie-break). -/
def bip69Le (a b : TxO) : Bool :=
  decide (a.value < b.value) || (decide (a.value = b.value) && decide (a.script ≤ b.script))

/-- **cltv_tiebreak_needed**: without the CLTV tie-break the order is not canonical — two offered
    HTLCs with the same payment hash and amount but different expiries have the same value and
    pkScript, and both arrangements are BIP 69-sorted although they differ (so the two peers could
    pair HTLC signatures with different outputs). -/
theorem cltv_tiebreak_needed :
    let x : TxO := ⟨5000, 7, 144⟩
    let y : TxO := ⟨5000, 7, 150⟩
    [x, y].Pairwise (fun a b => bip69Le a b = true) ∧ [y, x].Pairwise (fun a b => bip69Le a b = true) ∧
    [x, y] ≠ [y, x] ∧ commitSort [y, x] = [x, y] := by
  refine ⟨by decide, by decide, by decide, ?_⟩
  exact (bip69_cltv_canonical (List.Perm.swap _ _ []) (by decide)).symm

end LndModel.C01

namespace LndModel.C01

/-! ### output indices of HTLCs (`locateOutputIndex` / `populateHtlcIndexes`, lnwallet/channel.go)

Every non-dust HTLC of a commitment records the index of its output in the sorted transaction.
`locateOutputIndex` scans the outputs for one with the HTLC's pkScript, value and CLTV and skips
the indices already handed to earlier HTLCs *with the same payment hash* (`dups[p.RHash]`), so that
duplicates (same hash, amount, expiry: identical outputs) get different indices. -/

/-- an HTLC as the index assignment sees it: payment hash and the output it must find. -/
structure HT where
  hash : Nat
  out : TxO
deriving DecidableEq, Repr

/-- the scan of `locateOutputIndex`, `i` = index of the head of the remaining outputs. -/
def locateFrom (taken : List Nat) (K : TxO) : Nat → List TxO → Option Nat
  | _, [] => none
  | i, o :: os => if o = K ∧ i ∉ taken then some i else locateFrom taken K (i + 1) os

/-- `populateHtlcIndexes`: the HTLCs in order, `d` = the `dups` map (payment hash ↦ indices used). -/
def assignFrom (outs : List TxO) : (Nat → List Nat) → List HT → Option (List Nat)
  | _, [] => some []
  | d, h :: hs =>
    match locateFrom (d h.hash) h.out 0 outs with
    | none => none
    | some i => (assignFrom outs (fun x => if x = h.hash then i :: d x else d x) hs).map (i :: ·)

theorem locateFrom_spec (taken : List Nat) (K : TxO) : ∀ (os : List TxO) (off i : Nat),
    locateFrom taken K off os = some i → off ≤ i ∧ os[i - off]? = some K ∧ i ∉ taken := by
  intro os
  induction os with
  | nil => intro off i h; cases h
  | cons o os ih =>
    intro off i h
    unfold locateFrom at h
    split at h
    · rename_i hc
      cases h
      exact ⟨Nat.le_refl _, by simp [hc.1], hc.2⟩
    · obtain ⟨h1, h2, h3⟩ := ih (off + 1) i h
      refine ⟨by omega, ?_, h3⟩
      have : i - off = (i - (off + 1)) + 1 := by omega
      rw [this, List.getElem?_cons_succ]; exact h2

theorem filter_sublist_of_imp {α : Type} {p q : α → Bool} (h : ∀ a, p a = true → q a = true) (l : List α) :
    (l.filter p).Sublist (l.filter q) := by
  have : l.filter p = (l.filter q).filter p := by
    rw [List.filter_filter]
    apply List.filter_congr
    intro a _
    cases hp : p a
    · simp
    · simp [h a hp]
  rw [this]
  exact List.filter_sublist

theorem locateFrom_exists (taken : List Nat) (K : TxO) : ∀ (os : List TxO) (off : Nat),
    (taken.filter (fun i => decide (off ≤ i) && decide (os[i - off]? = some K))).length < os.count K →
    ∃ i, locateFrom taken K off os = some i := by
  intro os
  induction os with
  | nil => intro off h; simp at h
  | cons o os ih =>
    intro off h
    unfold locateFrom
    by_cases hc : o = K ∧ off ∉ taken
    · exact ⟨off, by simp [hc]⟩
    · rw [if_neg hc]
      apply ih (off + 1)
      -- entries of `taken` that point at a `K` among `os` (from `off + 1`)
      have hsub : ∀ i, (decide (off + 1 ≤ i) && decide (os[i - (off + 1)]? = some K)) = true →
          (decide (off ≤ i) && decide ((o :: os)[i - off]? = some K)) = true := by
        intro i hi
        simp only [Bool.and_eq_true, decide_eq_true_eq] at hi ⊢
        refine ⟨by omega, ?_⟩
        have : i - off = (i - (off + 1)) + 1 := by omega
        rw [this, List.getElem?_cons_succ]; exact hi.2
      by_cases hoK : o = K
      · have hin : off ∈ taken := by
          apply Classical.byContradiction
          intro hn; exact hc ⟨hoK, hn⟩
        -- `off` itself is counted on the left but not on the right
        have hlt : (taken.filter (fun i => decide (off + 1 ≤ i) && decide (os[i - (off + 1)]? = some K))).length <
            (taken.filter (fun i => decide (off ≤ i) && decide ((o :: os)[i - off]? = some K))).length := by
          have hmem : off ∈ taken.filter (fun i => decide (off ≤ i) && decide ((o :: os)[i - off]? = some K)) := by
            apply List.mem_filter.mpr
            exact ⟨hin, by simp [hoK]⟩
          have hnot : off ∉ taken.filter (fun i => decide (off + 1 ≤ i) && decide (os[i - (off + 1)]? = some K)) := by
            intro hm
            have := (List.mem_filter.mp hm).2
            simp at this
            omega
          have hsl : (taken.filter (fun i => decide (off + 1 ≤ i) && decide (os[i - (off + 1)]? = some K))).Sublist
              (taken.filter (fun i => decide (off ≤ i) && decide ((o :: os)[i - off]? = some K))) := by
            exact filter_sublist_of_imp hsub taken
          rcases Nat.lt_or_ge
            (taken.filter (fun i => decide (off + 1 ≤ i) && decide (os[i - (off + 1)]? = some K))).length
            (taken.filter (fun i => decide (off ≤ i) && decide ((o :: os)[i - off]? = some K))).length with h1 | h1
          · exact h1
          · have := hsl.eq_of_length_le h1
            rw [← this] at hmem
            exact absurd hmem hnot
        subst hoK
        rw [List.count_cons] at h
        simp at h
        omega
      · have hle : (taken.filter (fun i => decide (off + 1 ≤ i) && decide (os[i - (off + 1)]? = some K))).length ≤
            (taken.filter (fun i => decide (off ≤ i) && decide ((o :: os)[i - off]? = some K))).length := by
          exact (filter_sublist_of_imp hsub taken).length_le
        rw [List.count_cons] at h
        have : (o == K) = false := by simpa using hoK
        simp [this] at h
        omega

theorem assign_ok (outs : List TxO) : ∀ (todo done : List HT) (d : Nat → List Nat),
    (∀ h ∈ done ++ todo, ∀ h' ∈ done ++ todo, h.out.script = h'.out.script → h.hash = h'.hash) →
    (∀ K, ((done ++ todo).filter (fun h => decide (h.out = K))).length ≤ outs.count K) →
    (∀ x i, i ∈ d x → ∃ h ∈ done, h.hash = x ∧ outs[i]? = some h.out) →
    (∀ x K, ((d x).filter (fun i => decide (outs[i]? = some K))).length ≤
      (done.filter (fun h => decide (h.out = K))).length) →
    ∃ idxs, assignFrom outs d todo = some idxs ∧ idxs.length = todo.length ∧ idxs.Nodup ∧
      (∀ i ∈ idxs, ∀ x, i ∉ d x) ∧ (∀ p ∈ idxs.zip todo, outs[p.1]? = some p.2.out) := by
  intro todo
  induction todo with
  | nil =>
    intro done d _ _ _ _
    exact ⟨[], rfl, rfl, List.nodup_nil, (by intro i hi; cases hi), (by intro p hp; cases hp)⟩
  | cons h rest ih =>
    intro done d hS hC v2 v3
    -- a free matching output exists
    have hex : ∃ i, locateFrom (d h.hash) h.out 0 outs = some i := by
      apply locateFrom_exists
      have e : (d h.hash).filter (fun i => decide (0 ≤ i) && decide (outs[i - 0]? = some h.out)) =
          (d h.hash).filter (fun i => decide (outs[i]? = some h.out)) := by
        apply List.filter_congr; intro i _; simp
      rw [e]
      have c1 := v3 h.hash h.out
      have c2 := hC h.out
      rw [List.filter_append, List.length_append, List.filter_cons] at c2
      simp only [decide_true, if_true, List.length_cons] at c2
      omega
    obtain ⟨i, hloc⟩ := hex
    obtain ⟨_, hout, hfree⟩ := locateFrom_spec _ _ outs 0 i hloc
    simp only [Nat.sub_zero] at hout
    have hassoc : (done ++ [h]) ++ rest = done ++ h :: rest := by simp
    obtain ⟨idxs', ha, hl, hnd, hav, hz⟩ := ih (done ++ [h]) (fun x => if x = h.hash then i :: d x else d x)
      (by rw [hassoc]; exact hS) (by rw [hassoc]; exact hC)
      (by
        intro x j hj
        by_cases hx : x = h.hash
        · simp only [hx, if_true, List.mem_cons] at hj
          rcases hj with rfl | hj
          · exact ⟨h, by simp, hx.symm, hout⟩
          · obtain ⟨h2, m2, e2, o2⟩ := v2 h.hash j hj
            exact ⟨h2, by simp [m2], by rw [hx]; exact e2, o2⟩
        · simp only [hx, if_false] at hj
          obtain ⟨h2, m2, e2, o2⟩ := v2 x j hj
          exact ⟨h2, by simp [m2], e2, o2⟩)
      (by
        intro x K
        rw [List.filter_append, List.length_append]
        by_cases hx : x = h.hash
        · simp only [hx, if_true, List.filter_cons]
          have c1 := v3 h.hash K
          by_cases hk : h.out = K
          · simp only [hout, hk, decide_true, if_true, List.length_cons, List.filter_nil, List.length_nil]
            omega
          · have : ¬ (some h.out = some K) := by intro e; exact hk (Option.some.inj e)
            simp only [hout, this, hk, decide_false, Bool.false_eq_true, if_false, List.filter_nil, List.length_nil]
            omega
        · simp only [hx, if_false]
          have c1 := v3 x K
          omega)
    refine ⟨i :: idxs', ?_, by simp [hl], ?_, ?_, ?_⟩
    · show (match locateFrom (d h.hash) h.out 0 outs with
        | none => none
        | some i => (assignFrom outs (fun x => if x = h.hash then i :: d x else d x) rest).map (i :: ·)) = _
      rw [hloc]
      simp only [ha, Option.map_some]
    · apply List.nodup_cons.mpr
      refine ⟨?_, hnd⟩
      intro hi
      exact hav i hi h.hash (by simp)
    · intro j hj x
      rcases List.mem_cons.mp hj with rfl | hj
      · by_cases hx : x = h.hash
        · rw [hx]; exact hfree
        · intro hjd
          obtain ⟨h2, m2, e2, o2⟩ := v2 x j hjd
          rw [hout] at o2
          have heq : h.out = h2.out := Option.some.inj o2
          have := hS h2 (by simp [m2]) h (by simp) (by rw [heq])
          exact hx (by rw [← e2, this])
      · intro hjd
        apply hav j hj x
        by_cases hx : x = h.hash
        · simp only [hx, if_true]; exact List.mem_cons_of_mem _ (by rw [← hx]; exact hjd)
        · simp only [hx, if_false]; exact hjd
    · intro p hp
      simp only [List.zip_cons_cons, List.mem_cons] at hp
      rcases hp with rfl | hp
      · exact hout
      · exact hz p hp

/-- **duplicate_htlc_output_bijection**.  Let `hs` be the non-dust HTLCs of a commitment (in the
    order `populateHtlcIndexes` visits them) and `outs` its outputs, such that the pkScript of an
    HTLC output commits to the payment hash and every HTLC has its output in the transaction
    (counted with multiplicity: `k` identical HTLCs — same hash, amount, expiry — need `k` identical
    outputs).  Then the index assignment never fails, gives every HTLC an output with exactly its
    script, value and CLTV, and never gives the same index to two HTLCs: duplicates are mapped
    one-to-one to duplicate outputs (injective, total, matching; that the assignment is also onto
    the HTLC outputs follows by counting when the transaction has no other outputs with HTLC
    scripts, which is not formalised here). -/
theorem duplicate_htlc_output_bijection (outs : List TxO) (hs : List HT)
    (hscript : ∀ h ∈ hs, ∀ h' ∈ hs, h.out.script = h'.out.script → h.hash = h'.hash)
    (hcount : ∀ K, (hs.filter (fun h => decide (h.out = K))).length ≤ outs.count K) :
    ∃ idxs, assignFrom outs (fun _ => []) hs = some idxs ∧ idxs.length = hs.length ∧ idxs.Nodup ∧
      (∀ p ∈ idxs.zip hs, outs[p.1]? = some p.2.out) := by
  obtain ⟨idxs, h1, h2, h3, _, h5⟩ := assign_ok outs hs [] (fun _ => []) (by simpa using hscript)
    (by simpa using hcount) (by intro x i hi; cases hi) (by intro x K; simp)
  exact ⟨idxs, h1, h2, h3, h5⟩

/-- non-vacuity: two identical HTLCs (same hash, amount, expiry) and a third one with the same
    script and value but another expiry, in a sorted transaction with a to_local output in front:
    the duplicates get the distinct indices 1 and 2, the third one index 3. -/
example : assignFrom [⟨4000, 1, 0⟩, ⟨5000, 7, 144⟩, ⟨5000, 7, 144⟩, ⟨5000, 7, 150⟩] (fun _ => [])
    [⟨9, ⟨5000, 7, 150⟩⟩, ⟨9, ⟨5000, 7, 144⟩⟩, ⟨9, ⟨5000, 7, 144⟩⟩] = some [3, 1, 2] := by decide

end LndModel.C01
