/-
C01 — helper lemmas for the property theorems (core Lean only).

Part 1: sums over filtered lists, the "removed adds carry the resolutions'
amounts" bijection, and the effect of `commitLog` on the per-chain totals.
-/
import LndModel.C01.Model
set_option linter.unusedSimpArgs false

namespace LndModel.C01

/-! ### sums -/

theorem sumBy_append {α} (f : α → Nat) (l₁ l₂ : List α) :
    sumBy f (l₁ ++ l₂) = sumBy f l₁ + sumBy f l₂ := by
  induction l₁ with
  | nil => simp [sumBy]
  | cons a l ih => simp [sumBy, ih]; omega

theorem sumBy_map {α β} (f : β → Nat) (g : α → β) (l : List α) :
    sumBy f (l.map g) = sumBy (fun a => f (g a)) l := by
  induction l with
  | nil => rfl
  | cons a l ih => simp [sumBy, ih]

theorem sumBy_filter_split {α} (f : α → Nat) (p : α → Bool) (l : List α) :
    sumBy f l = sumBy f (l.filter p) + sumBy f (l.filter (fun a => !p a)) := by
  induction l with
  | nil => simp [sumBy]
  | cons a l ih =>
    by_cases h : p a <;> simp [List.filter, h, sumBy, ih] <;> omega

theorem sumBy_filter_or {α} (f : α → Nat) (p q : α → Bool) (l : List α)
    (hd : ∀ a ∈ l, ¬(p a = true ∧ q a = true)) :
    sumBy f (l.filter (fun a => p a || q a)) = sumBy f (l.filter p) + sumBy f (l.filter q) := by
  induction l with
  | nil => simp [sumBy]
  | cons a l ih =>
    have ih' := ih (fun b hb => hd b (List.mem_cons_of_mem _ hb))
    have ha := hd a (List.mem_cons_self)
    by_cases h1 : p a <;> by_cases h2 : q a <;> simp_all [List.filter, sumBy] <;> omega

theorem sumBy_filter_congr {α} (f : α → Nat) (p q : α → Bool) (l : List α)
    (h : ∀ a ∈ l, p a = q a) : sumBy f (l.filter p) = sumBy f (l.filter q) := by
  induction l with
  | nil => rfl
  | cons a l ih =>
    have ih' := ih (fun b hb => h b (List.mem_cons_of_mem _ hb))
    have ha := h a List.mem_cons_self
    simp [List.filter, ha]
    cases q a <;> simp [sumBy, ih']

theorem sumBy_filter_le {α} (f : α → Nat) (p : α → Bool) (l : List α) :
    sumBy f (l.filter p) ≤ sumBy f l := by
  have := sumBy_filter_split f p l; omega

/-- pointwise bookkeeping for a map that moves elements into a filtered total. -/
theorem sumBy_filter_map_pointwise {α} (f : α → Nat) (m : α → α) (p' p g : α → Bool) (l : List α)
    (h : ∀ e ∈ l, (if p' (m e) then f (m e) else 0) = (if p e then f e else 0) + (if g e then f e else 0)) :
    sumBy f ((l.map m).filter p') = sumBy f (l.filter p) + sumBy f (l.filter g) := by
  induction l with
  | nil => simp [sumBy]
  | cons a l ih =>
    have ih' := ih (fun b hb => h b (List.mem_cons_of_mem _ hb))
    have ha := h a List.mem_cons_self
    simp only [List.map_cons, List.filter]
    cases h1 : p' (m a) <;> cases h2 : p a <;> cases h3 : g a <;>
      simp_all [sumBy] <;> omega

/-! ### the bijection between resolutions and the adds they remove -/

/-- exactly one element of `A` carries index `a0.htlcIndex`. -/
theorem sumBy_unique_idx (A : List Entry) (hA : (A.map Entry.htlcIndex).Nodup) (a0 : Entry)
    (h0 : a0 ∈ A) :
    sumBy Entry.amt (A.filter (fun a => a.htlcIndex == a0.htlcIndex)) = a0.amt := by
  induction A with
  | nil => cases h0
  | cons a l ih =>
    simp only [List.map_cons, List.nodup_cons] at hA
    rcases List.mem_cons.mp h0 with rfl | hmem
    · have : l.filter (fun a => a.htlcIndex == a0.htlcIndex) = [] := by
        apply List.filter_eq_nil_iff.mpr
        intro b hb hbeq
        apply hA.1
        have : b.htlcIndex = a0.htlcIndex := by simpa using hbeq
        rw [← this]; exact List.mem_map_of_mem hb
      simp [List.filter, this, sumBy]
    · have hne : (a.htlcIndex == a0.htlcIndex) = false := by
        apply Bool.eq_false_iff.mpr
        intro h
        have : a.htlcIndex = a0.htlcIndex := by simpa using h
        apply hA.1; rw [this]; exact List.mem_map_of_mem hmem
      simp only [List.filter, hne]
      exact ih hA.2 hmem

/-- the adds removed by a set of resolutions carry exactly the resolutions' amounts. -/
theorem sum_skipped (A R : List Entry)
    (hA : (A.map Entry.htlcIndex).Nodup) (hR : (R.map Entry.parent).Nodup)
    (hP : ∀ r ∈ R, ∃ a ∈ A, a.htlcIndex = r.parent ∧ a.amt = r.amt) :
    sumBy Entry.amt (A.filter (fun a => (R.map Entry.parent).contains a.htlcIndex)) =
      sumBy Entry.amt R := by
  induction R with
  | nil =>
    have : A.filter (fun a => (List.map Entry.parent []).contains a.htlcIndex) = [] := by
      apply List.filter_eq_nil_iff.mpr; intro a _; simp
    rw [this]
  | cons r R ih =>
    simp only [List.map_cons, List.nodup_cons] at hR
    obtain ⟨a0, ha0, hidx, hamt⟩ := hP r List.mem_cons_self
    have ih' := ih hR.2 (fun r' hr' => hP r' (List.mem_cons_of_mem _ hr'))
    have hsplit := sumBy_filter_or Entry.amt (fun a => a.htlcIndex == r.parent)
      (fun a => (R.map Entry.parent).contains a.htlcIndex) A (by
        intro a _ ⟨h1, h2⟩
        have e1 : a.htlcIndex = r.parent := by simpa using h1
        have e2 : a.htlcIndex ∈ R.map Entry.parent := by simpa using h2
        exact hR.1 (e1 ▸ e2))
    have h1 := sumBy_unique_idx A hA a0 ha0
    rw [hidx] at h1
    have : (fun a : Entry => (List.map Entry.parent (r :: R)).contains a.htlcIndex) =
        (fun a => a.htlcIndex == r.parent || (R.map Entry.parent).contains a.htlcIndex) := by
      funext a; rw [List.map_cons, List.contains_cons, Bool.beq_comm]
    rw [this, hsplit, h1, ih', sumBy, hamt]

/-! ### entries and commit heights -/

def Entry.onChain (c : Chain) (e : Entry) : Bool := e.addH c != 0 || e.rmvH c != 0

/-- total of the adds that are on chain `c` / of the resolutions that are on chain `c`. -/
def addsOn (c : Chain) (es : List Entry) : Nat :=
  sumBy Entry.amt (es.filter (fun e => e.isAdd && e.addH c != 0))
def resOn (c : Chain) (es : List Entry) : Nat :=
  sumBy Entry.amt (es.filter (fun e => e.isRes && e.rmvH c != 0))

theorem addsOn_append (c : Chain) (a b : List Entry) : addsOn c (a ++ b) = addsOn c a + addsOn c b := by
  simp [addsOn, List.filter_append, sumBy_append]
theorem resOn_append (c : Chain) (a b : List Entry) : resOn c (a ++ b) = resOn c a + resOn c b := by
  simp [resOn, List.filter_append, sumBy_append]

theorem isAdd_iff (e : Entry) : e.isAdd = true ↔ e.ty = .add := by simp [Entry.isAdd]
theorem isFee_iff (e : Entry) : e.isFee = true ↔ e.ty = .feeUpd := by simp [Entry.isFee]
theorem isRes_iff (e : Entry) : e.isRes = true ↔ (e.ty = .settle ∨ e.ty = .fail ∨ e.ty = .malformed) := by
  simp [Entry.isRes, or_assoc]

theorem isRes_not_isAdd (e : Entry) (h : e.isRes = true) : e.isAdd = false := by
  cases hty : e.ty <;> simp_all [Entry.isRes, Entry.isAdd]
theorem isAdd_not_isRes (e : Entry) (h : e.isAdd = true) : e.isRes = false := by
  cases hty : e.ty <;> simp_all [Entry.isRes, Entry.isAdd]
theorem isRes_of_not (e : Entry) (h1 : e.isAdd = false) (h2 : e.isFee = false) : e.isRes = true := by
  cases hty : e.ty <;> simp_all [Entry.isRes, Entry.isAdd, Entry.isFee]

section commitAt
variable (c : Chain) (h : Nat) (e : Entry)

@[simp] theorem commitAt_ty : (e.commitAt c h).ty = e.ty := by
  unfold Entry.commitAt; cases c <;> cases hty : e.ty <;> simp [Entry.setAdd, Entry.setRmv] <;> split <;> simp [hty]
@[simp] theorem commitAt_amt : (e.commitAt c h).amt = e.amt := by
  unfold Entry.commitAt; cases c <;> cases e.ty <;> simp [Entry.setAdd, Entry.setRmv] <;> split <;> rfl
@[simp] theorem commitAt_logIndex : (e.commitAt c h).logIndex = e.logIndex := by
  unfold Entry.commitAt; cases c <;> cases e.ty <;> simp [Entry.setAdd, Entry.setRmv] <;> split <;> rfl
@[simp] theorem commitAt_htlcIndex : (e.commitAt c h).htlcIndex = e.htlcIndex := by
  unfold Entry.commitAt; cases c <;> cases e.ty <;> simp [Entry.setAdd, Entry.setRmv] <;> split <;> rfl
@[simp] theorem commitAt_parent : (e.commitAt c h).parent = e.parent := by
  unfold Entry.commitAt; cases c <;> cases e.ty <;> simp [Entry.setAdd, Entry.setRmv] <;> split <;> rfl
@[simp] theorem commitAt_isAdd : (e.commitAt c h).isAdd = e.isAdd := by simp [Entry.isAdd]
@[simp] theorem commitAt_isRes : (e.commitAt c h).isRes = e.isRes := by simp [Entry.isRes]
@[simp] theorem commitAt_isFee : (e.commitAt c h).isFee = e.isFee := by simp [Entry.isFee]

end commitAt

/-! ### effect of `commitLog` on the per-chain totals -/

theorem sumBy_filter_false {α} (f : α → Nat) (l : List α) : sumBy f (l.filter (fun _ => false)) = 0 := by
  induction l with
  | nil => rfl
  | cons a l ih => simpa [List.filter] using ih

theorem commitAt_addH_add (c c' : Chain) (h : Nat) (e : Entry) (ha : e.isAdd = true) :
    (e.commitAt c h).addH c' = if c' = c ∧ e.addH c = 0 then h else e.addH c' := by
  have : e.ty = .add := (isAdd_iff e).mp ha
  unfold Entry.commitAt
  cases c <;> cases c' <;> simp [this, Entry.addH, Entry.setAdd] <;> split <;> simp_all [Entry.addH]

theorem commitAt_rmvH_res (c c' : Chain) (h : Nat) (e : Entry) (hr : e.isRes = true) :
    (e.commitAt c h).rmvH c' = if c' = c ∧ e.rmvH c = 0 then h else e.rmvH c' := by
  rcases (isRes_iff e).mp hr with ht | ht | ht <;>
  · unfold Entry.commitAt
    cases c <;> cases c' <;> simp [ht, Entry.rmvH, Entry.setRmv] <;> split <;> simp_all [Entry.rmvH]

theorem commitAt_addH_res (c c' : Chain) (h : Nat) (e : Entry) (hr : e.isRes = true) :
    (e.commitAt c h).addH c' = e.addH c' := by
  rcases (isRes_iff e).mp hr with ht | ht | ht <;>
  · unfold Entry.commitAt
    cases c <;> cases c' <;> simp [ht, Entry.rmvH, Entry.setRmv, Entry.addH] <;> split <;> simp_all [Entry.addH]

/-- committing on chain `c` moves exactly the not-yet-committed adds of the view onto `c`. -/
theorem addsOn_commitLog_same (c : Chain) (h i : Nat) (hh : h ≠ 0) (es : List Entry) :
    addsOn c (commitLog c h i es) =
      addsOn c es + sumBy Entry.amt (es.filter (fun e => decide (e.logIndex < i) && e.isAdd && e.addH c == 0)) := by
  unfold addsOn commitLog
  apply sumBy_filter_map_pointwise
  intro e _
  by_cases hi : e.logIndex < i <;> by_cases ha : e.isAdd = true
  · simp only [hi, if_true, commitAt_isAdd, commitAt_amt, ha, commitAt_addH_add c c h e ha]
    by_cases h0 : e.addH c = 0 <;> simp [h0, hh]
  · simp [hi, ha]
  · simp [hi, ha]
  · simp [hi, ha]

theorem addsOn_commitLog_other (c c' : Chain) (h i : Nat) (hc : c' ≠ c) (es : List Entry) :
    addsOn c' (commitLog c h i es) = addsOn c' es := by
  unfold addsOn commitLog
  have := sumBy_filter_map_pointwise Entry.amt (fun e => if e.logIndex < i then e.commitAt c h else e)
    (fun e => e.isAdd && e.addH c' != 0) (fun e => e.isAdd && e.addH c' != 0) (fun _ => false) es (by
      intro e _
      by_cases hi : e.logIndex < i <;> by_cases ha : e.isAdd = true
      · simp [hi, ha, commitAt_addH_add c c' h e ha, hc]
      · simp [hi, ha]
      · simp [hi, ha]
      · simp [hi, ha])
  rw [this, sumBy_filter_false]; rfl

theorem resOn_commitLog_same (c : Chain) (h i : Nat) (hh : h ≠ 0) (es : List Entry) :
    resOn c (commitLog c h i es) =
      resOn c es + sumBy Entry.amt (es.filter (fun e => decide (e.logIndex < i) && e.isRes && e.rmvH c == 0)) := by
  unfold resOn commitLog
  apply sumBy_filter_map_pointwise
  intro e _
  by_cases hi : e.logIndex < i <;> by_cases ha : e.isRes = true
  · simp only [hi, if_true, commitAt_isRes, commitAt_amt, ha, commitAt_rmvH_res c c h e ha]
    by_cases h0 : e.rmvH c = 0 <;> simp [h0, hh]
  · simp [hi, ha]
  · simp [hi, ha]
  · simp [hi, ha]

theorem resOn_commitLog_other (c c' : Chain) (h i : Nat) (hc : c' ≠ c) (es : List Entry) :
    resOn c' (commitLog c h i es) = resOn c' es := by
  unfold resOn commitLog
  have := sumBy_filter_map_pointwise Entry.amt (fun e => if e.logIndex < i then e.commitAt c h else e)
    (fun e => e.isRes && e.rmvH c' != 0) (fun e => e.isRes && e.rmvH c' != 0) (fun _ => false) es (by
      intro e _
      by_cases hi : e.logIndex < i <;> by_cases ha : e.isRes = true
      · simp [hi, ha, commitAt_rmvH_res c c' h e ha, hc]
      · simp [hi, ha]
      · simp [hi, ha]
      · simp [hi, ha])
  rw [this, sumBy_filter_false]; rfl



/-! ### lookups and uniqueness of htlc indices -/

theorem nodup_map_inj {α β} (f : α → β) (l : List α) (h : (l.map f).Nodup) (a b : α)
    (ha : a ∈ l) (hb : b ∈ l) (e : f a = f b) : a = b := by
  induction l with
  | nil => cases ha
  | cons x l ih =>
    simp only [List.map_cons, List.nodup_cons] at h
    rcases List.mem_cons.mp ha with rfl | ha' <;> rcases List.mem_cons.mp hb with rfl | hb'
    · rfl
    · exact absurd (e ▸ List.mem_map_of_mem hb') h.1
    · exact absurd (e ▸ List.mem_map_of_mem ha') h.1
    · exact ih h.2 ha' hb'

theorem lookupHtlc_some {log : List Entry} {i : Nat} {a : Entry} (h : lookupHtlc log i = some a) :
    a ∈ log ∧ a.isAdd = true ∧ a.htlcIndex = i := by
  unfold lookupHtlc at h
  have h1 := List.mem_of_find?_eq_some h
  have h2 := List.find?_some h
  simp at h2
  exact ⟨h1, h2.1, h2.2⟩

/-- uniqueness of htlc indices among the adds of a log. -/
def UniqueAdds (es : List Entry) : Prop := ((adds es).map Entry.htlcIndex).Nodup

theorem lookupHtlc_unique {log : List Entry} (hu : UniqueAdds log) {i : Nat} {a e : Entry}
    (h : lookupHtlc log i = some a) (he : e ∈ log) (hadd : e.isAdd = true) (hi : e.htlcIndex = i) : a = e := by
  obtain ⟨ha, haa, hai⟩ := lookupHtlc_some h
  apply nodup_map_inj Entry.htlcIndex (adds log) hu
  · exact List.mem_filter.mpr ⟨ha, haa⟩
  · exact List.mem_filter.mpr ⟨he, hadd⟩
  · rw [hai, hi]

theorem lookupHtlc_of_mem {log : List Entry} (hu : UniqueAdds log) {e : Entry}
    (he : e ∈ log) (hadd : e.isAdd = true) : lookupHtlc log e.htlcIndex = some e := by
  cases h : lookupHtlc log e.htlcIndex with
  | some a => rw [lookupHtlc_unique hu h he hadd rfl]
  | none =>
    unfold lookupHtlc at h
    have := List.find?_eq_none.mp h e he
    simp [hadd] at this

theorem parentsOk_spec {c : Chain} {log rs : List Entry} (h : parentsOk c log rs = true) {r : Entry}
    (hr : r ∈ rs) : ∃ a, lookupHtlc log r.parent = some a ∧ a.addH c ≠ 0 := by
  unfold parentsOk at h
  have := List.all_eq_true.mp h r hr
  cases hl : lookupHtlc log r.parent with
  | none => simp [hl] at this
  | some a => exact ⟨a, rfl, by simpa [hl] using this⟩

/-- (C): a not-yet-committed add of the view is never skipped when all parents are committed. -/
theorem live_of_uncommitted {c : Chain} {log v rs : List Entry} (hu : UniqueAdds log)
    (hv : ∀ e ∈ v, e ∈ log) (hp : parentsOk c log rs = true) :
    ∀ e ∈ v, e.isAdd = true → e.addH c = 0 → (rs.map Entry.parent).contains e.htlcIndex = false := by
  intro e hev hadd h0
  apply Bool.eq_false_iff.mpr
  intro hc
  have : e.htlcIndex ∈ rs.map Entry.parent := by simpa using hc
  obtain ⟨r, hr, hpar⟩ := List.mem_map.mp this
  obtain ⟨a, hl, hne⟩ := parentsOk_spec hp hr
  have := lookupHtlc_unique hu hl (hv e hev) hadd hpar.symm
  exact hne (this ▸ h0)

/-! ### computeView / sanity / buildCommit -/

structure ViewFacts (n : Node) (c : Chain) (vL vR : List Entry) (r : ViewResult) : Prop where
  pL : parentsOk c n.logR.entries (resolutions vL) = true
  pR : parentsOk c n.logL.entries (resolutions vR) = true
  liveL : r.liveL = liveAdds vL (resolutions vR)
  liveR : r.liveR = liveAdds vR (resolutions vL)
  our : r.our + addDebit c r.liveL =
    (n.chain c).tip.our + (if n.cfg.initiator then 1000 * (n.chain c).tip.fee else 0) +
      (settleCredit c (resolutions vL) + failCredit c (resolutions vR))
  their : r.their + addDebit c r.liveR =
    (n.chain c).tip.their + (if n.cfg.initiator then 0 else 1000 * (n.chain c).tip.fee) +
      (settleCredit c (resolutions vR) + failCredit c (resolutions vL))
  weight : r.weight = commitWeight n.cfg + htlcWeight *
    (countNonDust n.cfg false c r.feePerKw r.liveL + countNonDust n.cfg true c r.feePerKw r.liveR)
  fee : r.feePerKw = viewFeePerKw (if n.cfg.initiator = true then vL else vR) (n.chain c).tip.feePerKw

theorem computeView_ok {n : Node} {c : Chain} {vL vR : List Entry} {r : ViewResult}
    (h : computeView n c vL vR = .ok r) : ViewFacts n c vL vR r := by
  unfold computeView at h
  simp only at h
  generalize ho : (n.chain c).tip.our + (if n.cfg.initiator then 1000 * (n.chain c).tip.fee else 0) = our0 at h
  generalize ht : (n.chain c).tip.their + (if n.cfg.initiator then 0 else 1000 * (n.chain c).tip.fee) = their0 at h
  generalize hf : viewFeePerKw (if n.cfg.initiator = true then vL else vR) (n.chain c).tip.feePerKw = f at h
  split at h
  · cases h
  · rename_i hp
    split at h
    · cases h
    · rename_i h1
      split at h
      · cases h
      · rename_i h2
        simp only [Except.ok.injEq] at h
        subst h
        simp only [Bool.not_eq_true, Bool.not_eq_false', Bool.and_eq_true] at hp
        refine ⟨hp.1, hp.2, rfl, rfl, ?_, ?_, rfl, hf.symm⟩
        · simp only; omega
        · simp only; omega

/-- `validateCommitmentSanity` (NoBuffer) passed ⇒ the opener can pay the commitment fee in full:
    the "entire output is consumed" clamp of `createUnsignedCommitmentTx` is not taken. -/
theorem sanityOfView_fee_paid {n : Node} {c : Chain} {r : ViewResult}
    (h : sanityOfView n c .none r = .ok) :
    (n.cfg.initiator = true → 1000 * feeForWeight r.feePerKw r.weight < r.our) ∧
    (n.cfg.initiator = false → 1000 * feeForWeight r.feePerKw r.weight < r.their) := by
  unfold sanityOfView at h
  simp only at h
  split at h
  · cases h
  · cases hi : n.cfg.initiator
    · simp only [hi, Bool.false_eq_true, if_false] at h
      unfold applyCommitFee at h
      simp only at h
      by_cases hlt : 1000 * feeForWeight r.feePerKw r.weight < r.their
      · exact ⟨by simp, fun _ => hlt⟩
      · simp [hlt] at h
    · simp only [hi, if_true] at h
      unfold applyCommitFee at h
      simp only at h
      by_cases hlt : 1000 * feeForWeight r.feePerKw r.weight < r.our
      · exact ⟨fun _ => hlt, by simp⟩
      · simp [hlt] at h

theorem nonDust_count (cfg : Cfg) (incoming : Bool) (c : Chain) (f : Nat) (l : List Entry) :
    ((l.map (htlcOf cfg incoming c f)).filter (fun h => !h.dust)).length = countNonDust cfg incoming c f l := by
  unfold countNonDust
  induction l with
  | nil => rfl
  | cons a l ih =>
    simp only [List.map_cons, List.filter]
    cases hd : htlcIsDust cfg incoming c f (a.amt / 1000) (cfg.dust c) <;>
      simp [htlcOf, hd, ih]

def htlcTotal (cm : Commit) : Nat := sumBy Htlc.amt cm.htlcs

theorem htlcTotal_map (cfg : Cfg) (incoming : Bool) (c : Chain) (f : Nat) (l : List Entry) :
    sumBy Htlc.amt (l.map (htlcOf cfg incoming c f)) = sumBy Entry.amt l := by
  rw [sumBy_map]; rfl

structure CommitFacts (cfg : Cfg) (c : Chain) (tip : Commit) (r : ViewResult) (a b d e : Nat) (cm : Commit) : Prop where
  height : cm.height = tip.height + 1
  fee : cm.fee = feeForWeight r.feePerKw r.weight
  bal : cm.our + cm.their + 1000 * cm.fee = r.our + r.their
  our : cm.our + (if cfg.initiator then 1000 * cm.fee else 0) = r.our
  their : cm.their + (if cfg.initiator then 0 else 1000 * cm.fee) = r.their
  htlcs : htlcTotal cm = sumBy Entry.amt r.liveL + sumBy Entry.amt r.liveR
  cap : outsTotal cm.outs + cm.fee ≤ cfg.capacity
  idx : cm.ourMsg = a ∧ cm.theirMsg = d ∧ cm.ourHtlc = b ∧ cm.theirHtlc = e
  feePerKw : cm.feePerKw = r.feePerKw

theorem buildCommit_ok {cfg : Cfg} {c : Chain} {tip : Commit} {r : ViewResult} {a b d e : Nat} {cm : Commit}
    (hw : r.weight = commitWeight cfg + htlcWeight *
      (countNonDust cfg false c r.feePerKw r.liveL + countNonDust cfg true c r.feePerKw r.liveR))
    (hpaid : (cfg.initiator = true → 1000 * feeForWeight r.feePerKw r.weight < r.our) ∧
             (cfg.initiator = false → 1000 * feeForWeight r.feePerKw r.weight < r.their))
    (h : buildCommit cfg c tip r a b d e = .ok cm) : CommitFacts cfg c tip r a b d e cm := by
  unfold buildCommit at h
  simp only [nonDust_count] at h
  rw [← hw] at h
  generalize hfee : feeForWeight r.feePerKw r.weight = fee at h hpaid
  cases hi : cfg.initiator
  · have hp := hpaid.2 hi
    have hnc : ¬ fee > r.their / 1000 := by omega
    simp only [hi, Bool.false_eq_true, if_false, hnc] at h
    generalize commitOuts cfg c _ _ _ _ = outs at h
    split at h
    · cases h
    · split at h
      · cases h
      · rename_i hcap
        simp only [Except.ok.injEq] at h
        subst h
        refine ⟨rfl, hfee.symm, ?_, ?_, ?_, ?_, ?_, ⟨rfl, rfl, rfl, rfl⟩, rfl⟩
        · simp only; omega
        · simp [hi]
        · simp only [hi, Bool.false_eq_true, if_false]; omega
        · simp [htlcTotal, sumBy_append, htlcTotal_map]
        · simp only; omega
  · have hp := hpaid.1 hi
    have hnc : ¬ fee > r.our / 1000 := by omega
    simp only [hi, if_true, hnc, if_false] at h
    generalize commitOuts cfg c _ _ _ _ = outs at h
    split at h
    · cases h
    · split at h
      · cases h
      · rename_i hcap
        simp only [Except.ok.injEq] at h
        subst h
        refine ⟨rfl, hfee.symm, ?_, ?_, ?_, ?_, ?_, ⟨rfl, rfl, rfl, rfl⟩, rfl⟩
        · simp only; omega
        · simp only [hi, if_true]; omega
        · simp [hi]
        · simp [htlcTotal, sumBy_append, htlcTotal_map]
        · simp only; omega

end LndModel.C01
