/-
C01 — the cross-node content invariant `XR` is preserved by SignNextCommitment, by the delivery of
a commitment_signed (with the immediate revocation) and by the delivery of a revoke_and_ack.
-/
import LndModel.C01.XInv
set_option linter.unusedSimpArgs false
set_option linter.unusedVariables false

namespace LndModel.C01

theorem filter_isUpd_snoc_sig (q : List Msg) (m : Msg) (h : m.isUpd = false) :
    (q ++ [m]).filter Msg.isUpd = q.filter Msg.isUpd := by
  rw [List.filter_append]; simp [List.filter, h]

/-- `a` signs. -/
theorem XR.sign {s : System} {GLa GRa GLb GRb : GLog} (h : XR s GLa GRa GLb GRb) (hok : (s.a.sign).1 = .ok) :
    ∃ sv, (s.a.sign).2.2 = some sv ∧
    XR { s with a := (s.a.sign).2.1, ab := s.ab ++ [Msg.commitSig sv] }
      (GLa.mapE (cm1 .rem (s.a.chainR.tip.height + 1) s.a.logL.logIndex))
      (GRa.mapE (cm1 .rem (s.a.chainR.tip.height + 1) s.a.chainL.tail.theirMsg)) GLb GRb := by
  obtain ⟨cm, n1, hp, _, hf, heq, hsv⟩ := sign_ok_form hok
  have hg := h.ga.sign hok
  have hn := fetch_node hf
  refine ⟨cm.sigView, hsv, ?_⟩
  have hpc := pchar_of_sign h.ga hp hf
  have hcR : (s.a.sign).2.1.chainR = { tail := s.a.chainR.tail, pend := [cm] } := by
    rw [heq, hn]; simp [hp]
  have hcL : (s.a.sign).2.1.chainL = s.a.chainL := by rw [heq, hn]
  have hcfg : (s.a.sign).2.1.cfg = s.a.cfg := by rw [heq, hn]
  constructor
  · show s.b.cfg = (s.a.sign).2.1.cfg.mirror
    rw [hcfg]; exact h.cfg
  · exact hg
  · exact h.gb
  · constructor
    · rw [GLog.cores_cm1]; exact h.hab.pre
    · show (s.ab ++ [Msg.commitSig cm.sigView]).filter Msg.isUpd = _
      rw [filter_isUpd_snoc_sig _ _ rfl, GLog.cores_cm1]; exact h.hab.inflight
    · intro sv hm
      show ∃ P, (s.a.sign).2.1.chainR.pend = [P] ∧ _
      rw [hcR]
      rcases List.mem_append.mp hm with h1 | h1
      · obtain ⟨P, hP, _⟩ := h.hab.sq sv h1
        rw [hp] at hP; cases hP
      · simp only [List.mem_singleton, Msg.commitSig.injEq] at h1
        exact ⟨cm, rfl, h1⟩
    · show s.b.chainL.tail.height = (s.a.sign).2.1.chainR.tail.height → CM (s.a.sign).2.1.chainR.tail _
      rw [hcR]; exact h.hab.t0
    · show s.b.chainL.tail.height = (s.a.sign).2.1.chainR.tail.height + 1 → ∃ P, (s.a.sign).2.1.chainR.pend = [P] ∧ _
      rw [hcR]
      intro hh
      obtain ⟨P, hP, _⟩ := h.hab.t1 hh
      rw [hp] at hP; cases hP
  · constructor
    · rw [GLog.cores_cm1, GLog.length_mapE]; exact h.hba.pre
    · rw [GLog.length_mapE]; exact h.hba.inflight
    · exact h.hba.sq
    · show (s.a.sign).2.1.chainL.tail.height = _ → CM _ (s.a.sign).2.1.chainL.tail
      rw [hcL]; exact h.hba.t0
    · show (s.a.sign).2.1.chainL.tail.height = _ → ∃ P, _ ∧ CM P (s.a.sign).2.1.chainL.tail
      rw [hcL]; exact h.hba.t1
  · intro P hP
    show PChar (s.a.sign).2.1.cfg (s.a.sign).2.1.chainR.tail P _ _
    rw [hcR] at hP
    simp only [List.cons.injEq, and_true] at hP
    subst hP
    rw [hcfg, hcR, GLog.cores_cm1, GLog.cores_cm1]
    exact hpc
  · exact h.pcb
  · rw [GLog.cores_cm1, GLog.cores_cm1]; exact h.raa
  · exact h.rab

/-- the oldest message `a → b` is a commitment_signed, `b` accepts it and revokes at once.
    The index facts `i1 … i4`, `hh` come from the index-level invariant (C03 skeleton). -/
theorem XR.recvSig {s : System} {GLa GRa GLb GRb : GLog} (h : XR s GLa GRa GLb GRb) {sv : SigView}
    {rest : List Msg} (hq : s.ab = Msg.commitSig sv :: rest) (hok : (s.b.receiveCommitGo sv).1 = .ok)
    {P : Commit} (hP : s.a.chainR.pend = [P])
    (i1 : P.ourMsg = s.b.logR.logIndex) (i2 : P.theirMsg = s.b.chainR.tail.ourMsg)
    (i3 : s.b.chainL.tail.ourMsg = s.a.chainR.tail.theirMsg) (i4 : s.b.chainL.tail.theirMsg = s.a.chainR.tail.ourMsg)
    (hh : s.b.chainL.tail.height = s.a.chainR.tail.height) :
    XR { s with b := ((s.b.receiveCommitGo sv).2.revoke).2, ab := rest, ba := s.ba ++ [Msg.revoke] }
      GLa GRa
      (GLb.mapE (cm1 .loc (s.b.chainL.tip.height + 1) s.b.chainR.tail.ourMsg))
      (GRb.mapE (cm1 .loc (s.b.chainL.tip.height + 1) s.b.logR.logIndex)) := by
  obtain ⟨cmb, n1, _, hf, _, heq⟩ := recv_ok_form hok
  obtain ⟨hrv, hg⟩ := h.gb.recvSig hok
  have hn := fetch_node hf
  obtain ⟨ih, _⟩ := fetch_idx hf
  have hpend : (s.b.receiveCommitGo sv).2.chainL.pend = [cmb] := by rw [heq, hn]; simp [h.gb.pendL]
  have hb' : ((s.b.receiveCommitGo sv).2.revoke).2 =
      { (s.b.receiveCommitGo sv).2 with chainL := { tail := cmb, pend := [] } } := by
    rw [revoke_skel _ cmb [] hpend]
  have hcL : ((s.b.receiveCommitGo sv).2.revoke).2.chainL = { tail := cmb, pend := [] } := by rw [hb']
  have hcR : ((s.b.receiveCommitGo sv).2.revoke).2.chainR = s.b.chainR := by rw [hb', heq, hn]
  have hcfg : ((s.b.receiveCommitGo sv).2.revoke).2.cfg = s.b.cfg := by rw [hb', heq, hn]
  have htip : s.b.chainL.tip = s.b.chainL.tail := by simp [CChain.tip, h.gb.pendL]
  have hcmh : cmb.height = s.a.chainR.tail.height + 1 := by
    rw [ih]; simp only [Node.chain]; rw [htip, hh]
  obtain ⟨_, hcm⟩ := sig_agree h.cfg h.ga h.gb h.hab.pre h.hba.pre hP (h.pca P hP) (h.hab.t0 hh) i1 i2 i3 i4 hf
  constructor
  · show ((s.b.receiveCommitGo sv).2.revoke).2.cfg = _
    rw [hcfg]; exact h.cfg
  · exact h.ga
  · exact hg
  · constructor
    · rw [GLog.cores_cm1, GLog.length_mapE]; exact h.hab.pre
    · show rest.filter Msg.isUpd = _
      rw [GLog.length_mapE]
      have := h.hab.inflight
      rw [hq] at this
      simpa [List.filter, Msg.isUpd] using this
    · intro sv' hm
      apply h.hab.sq sv'
      rw [hq]; exact List.mem_cons_of_mem _ hm
    · show ((s.b.receiveCommitGo sv).2.revoke).2.chainL.tail.height = _ → _
      rw [hcL]
      intro hx
      simp only at hx
      omega
    · show ((s.b.receiveCommitGo sv).2.revoke).2.chainL.tail.height = _ → ∃ P, _ ∧ CM P ((s.b.receiveCommitGo sv).2.revoke).2.chainL.tail
      rw [hcL]
      intro _
      exact ⟨P, hP, hcm⟩
  · constructor
    · rw [GLog.cores_cm1]; exact h.hba.pre
    · show (s.ba ++ [Msg.revoke]).filter Msg.isUpd = _
      rw [filter_isUpd_snoc_sig _ _ rfl, GLog.cores_cm1]; exact h.hba.inflight
    · intro sv' hm
      show ∃ P, ((s.b.receiveCommitGo sv).2.revoke).2.chainR.pend = [P] ∧ _
      rw [hcR]
      apply h.hba.sq sv'
      rcases List.mem_append.mp hm with h1 | h1
      · exact h1
      · simp at h1
    · show _ = ((s.b.receiveCommitGo sv).2.revoke).2.chainR.tail.height → CM ((s.b.receiveCommitGo sv).2.revoke).2.chainR.tail _
      rw [hcR]; exact h.hba.t0
    · show _ = ((s.b.receiveCommitGo sv).2.revoke).2.chainR.tail.height + 1 →
        ∃ P, ((s.b.receiveCommitGo sv).2.revoke).2.chainR.pend = [P] ∧ _
      rw [hcR]; exact h.hba.t1
  · exact h.pca
  · intro P' hP'
    show PChar ((s.b.receiveCommitGo sv).2.revoke).2.cfg ((s.b.receiveCommitGo sv).2.revoke).2.chainR.tail P' _ _
    rw [hcR] at hP'
    rw [hcfg, hcR, GLog.cores_cm1, GLog.cores_cm1]
    exact h.pcb P' hP'
  · exact h.raa
  · rw [GLog.cores_cm1, GLog.cores_cm1]; exact h.rab

/-- the oldest message `a → b` is a revoke_and_ack and `b` accepts it.  `hnosig`, `hht`, `hph`
    come from the index-level invariant. -/
theorem XR.recvRev {s : System} {GLa GRa GLb GRb : GLog} (h : XR s GLa GRa GLb GRb)
    {rest : List Msg} (hq : s.ab = Msg.revoke :: rest) (hok : (s.b.receiveRevocation).1 = .ok)
    (hnosig : ∀ sv, Msg.commitSig sv ∉ s.ba)
    (hht : s.a.chainL.tail.height = s.b.chainR.tail.height + 1)
    (hph : ∀ c ∈ s.b.chainR.pend, c.height = s.b.chainR.tail.height + 1) :
    ∃ GLb' GRb', XR { s with b := (s.b.receiveRevocation).2, ab := rest } GLa GRa GLb' GRb' := by
  obtain ⟨GLb', GRb', hg, eL, eR⟩ := h.gb.recvRev hok
  refine ⟨GLb', GRb', ?_⟩
  have cL := GLog.cores_of_all eL
  have cR := GLog.cores_of_all eR
  have lL := GLog.length_of_all eL
  have lR := GLog.length_of_all eR
  cases hp : s.b.chainR.pend with
  | nil => rw [receiveRevocation_none _ hp] at hok; cases hok
  | cons c rest' =>
    have hrest : rest' = [] := by
      have := h.gb.win; rw [hp] at this
      cases rest' with
      | nil => rfl
      | cons _ _ => simp at this
    subst hrest
    obtain ⟨_, hcR, hcL, _, _⟩ := receiveRevocation_skel _ c [] hp
    have hcfg : (s.b.receiveRevocation).2.cfg = s.b.cfg := by
      unfold Node.receiveRevocation; rw [hp]
    have hch : c.height = s.b.chainR.tail.height + 1 := hph c (by rw [hp]; exact List.mem_cons_self)
    constructor
    · show (s.b.receiveRevocation).2.cfg = _
      rw [hcfg]; exact h.cfg
    · exact h.ga
    · exact hg
    · constructor
      · rw [cR, lR]; exact h.hab.pre
      · show rest.filter Msg.isUpd = _
        rw [lR]
        have := h.hab.inflight
        rw [hq] at this
        simpa [List.filter, Msg.isUpd] using this
      · intro sv' hm
        apply h.hab.sq sv'
        rw [hq]; exact List.mem_cons_of_mem _ hm
      · show (s.b.receiveRevocation).2.chainL.tail.height = _ → CM _ (s.b.receiveRevocation).2.chainL.tail
        rw [hcL]; exact h.hab.t0
      · show (s.b.receiveRevocation).2.chainL.tail.height = _ → ∃ P, _ ∧ CM P (s.b.receiveRevocation).2.chainL.tail
        rw [hcL]; exact h.hab.t1
    · constructor
      · rw [cL]; exact h.hba.pre
      · rw [cL]; exact h.hba.inflight
      · intro sv' hm
        exact absurd hm (hnosig sv')
      · show _ = (s.b.receiveRevocation).2.chainR.tail.height → CM (s.b.receiveRevocation).2.chainR.tail _
        rw [hcR]
        intro _
        obtain ⟨P, hP, hcm⟩ := h.hba.t1 hht
        rw [hp] at hP
        simp only [List.cons.injEq, and_true] at hP
        subst hP
        exact hcm
      · show _ = (s.b.receiveRevocation).2.chainR.tail.height + 1 → ∃ P, (s.b.receiveRevocation).2.chainR.pend = [P] ∧ _
        rw [hcR]
        intro hx
        simp only at hx
        omega
    · exact h.pca
    · intro P' hP'
      rw [hcR] at hP'
      cases hP'
    · exact h.raa
    · rw [cL, cR]; exact h.rab

end LndModel.C01
