/-
C01 — executable model `Chan` of lnd's two-party commitment state machine
(lnwallet/channel.go, commitment.go, update_log.go, payment_descriptor.go).

One `Node` is one `LightningChannel`: static config, the two update logs, the
two commitment chains.  Every API operation of the state machine is a total
function returning an error class and the next state.  Signatures are abstract:
a `SigView` is what a commitment signature (plus the HTLC signatures) covers;
it "verifies" iff it equals the receiver's own construction.

All amounts are unbounded `Nat` (msat unless named `…Sat`); lnd uses `uint64`
msat / `int64` sat, the harness keeps every value far below 2^63.

Perspective conventions (as in the code): `loc`/`rem` = Local/Remote from the
node's point of view.  A `Commit`'s `outs` (the abstract transaction) is given
from the point of view of the *owner* of that commitment transaction, so that
the signer's construction and the receiver's construction are literally equal
when they agree.
-/
namespace LndModel.C01

/-! ## constants (input/size.go, lnwallet/commitment.go, chainfee/rates.go) -/

def commitWeightLegacy : Nat := 724
def commitWeightAnchor : Nat := 1124
def commitWeightTaproot : Nat := 968
def htlcWeight : Nat := 172
def htlcTimeoutWeight : Nat := 663
def htlcSuccessWeight : Nat := 703
def htlcTimeoutWeightConf : Nat := 666
def htlcSuccessWeightConf : Nat := 706
def anchorSize : Nat := 330
def feePerKwFloor : Nat := 253

/-! ## basic types -/

inductive Chain where
  | loc | rem
deriving DecidableEq, Repr, Inhabited

inductive ETy where
  | add | settle | fail | malformed | feeUpd
deriving DecidableEq, Repr, Inhabited

/-- one `paymentDescriptor` of an update log. -/
structure Entry where
  ty : ETy
  amt : Nat            -- msat (FeeUpdate: 1000·feePerKw)
  logIndex : Nat
  htlcIndex : Nat := 0 -- Add: own HtlcIndex
  parent : Nat := 0    -- Settle/Fail/MalformedFail: ParentIndex
  expiry : Nat := 0
  hash : Nat := 0      -- abstract payment-hash id
  addL : Nat := 0      -- addCommitHeights.Local
  addR : Nat := 0
  rmvL : Nat := 0      -- removeCommitHeights.Local
  rmvR : Nat := 0
deriving DecidableEq, Repr, Inhabited

def Entry.isAdd (e : Entry) : Bool := e.ty == .add
def Entry.isRes (e : Entry) : Bool := e.ty == .settle || e.ty == .fail || e.ty == .malformed
def Entry.isFee (e : Entry) : Bool := e.ty == .feeUpd

def Entry.addH (e : Entry) : Chain → Nat
  | .loc => e.addL
  | .rem => e.addR
def Entry.rmvH (e : Entry) : Chain → Nat
  | .loc => e.rmvL
  | .rem => e.rmvR
def Entry.setAdd (e : Entry) (c : Chain) (h : Nat) : Entry :=
  match c with
  | .loc => { e with addL := h }
  | .rem => { e with addR := h }
def Entry.setRmv (e : Entry) (c : Chain) (h : Nat) : Entry :=
  match c with
  | .loc => { e with rmvL := h }
  | .rem => { e with rmvR := h }

/-- `isUncommitted` of evaluateHTLCView followed by `setCommitHeight`. -/
def Entry.commitAt (c : Chain) (h : Nat) (e : Entry) : Entry :=
  match e.ty with
  | .add => if e.addH c = 0 then e.setAdd c h else e
  | .feeUpd => if e.addH c = 0 then (e.setAdd c h).setRmv c h else e
  | _ => if e.rmvH c = 0 then e.setRmv c h else e

structure Log where
  entries : List Entry := []
  logIndex : Nat := 0
  htlcCounter : Nat := 0
  modified : List Nat := []
deriving Repr, Inhabited

/-- HTLC as recorded on a commitment (outgoingHTLCs ++ incomingHTLCs). -/
structure Htlc where
  incoming : Bool
  idx : Nat
  amt : Nat
  expiry : Nat
  hash : Nat
  dust : Bool
deriving DecidableEq, Repr, Inhabited

inductive OKind where
  | toLocal | toRemote | anchorLocal | anchorRemote | offered | received
deriving DecidableEq, Repr, Inhabited

/-- abstract transaction output, owner's perspective. -/
structure Out where
  value : Nat   -- sat
  kind : OKind
  cltv : Nat := 0
  hash : Nat := 0
deriving DecidableEq, Repr, Inhabited

structure Commit where
  height : Nat
  our : Nat       -- msat, after fee and anchors
  their : Nat
  fee : Nat       -- sat
  feePerKw : Nat
  ourMsg : Nat    -- messageIndices.Local
  theirMsg : Nat
  ourHtlc : Nat
  theirHtlc : Nat
  htlcs : List Htlc := []
  outs : List Out := []
deriving DecidableEq, Repr, Inhabited

/-- what the commitment signature and the HTLC signatures cover. -/
structure SigView where
  height : Nat
  feePerKw : Nat
  outs : List Out
deriving DecidableEq, Repr, Inhabited

def Commit.sigView (c : Commit) : SigView := ⟨c.height, c.feePerKw, c.outs⟩

/-- a commitment chain: `tail` = lowest unrevoked, `pend` = newer ones (tip last). -/
structure CChain where
  tail : Commit
  pend : List Commit := []
deriving Repr, Inhabited

def CChain.tip (c : CChain) : Commit := c.pend.getLast?.getD c.tail
def CChain.all (c : CChain) : List Commit := c.tail :: c.pend
def CChain.hasUnacked (c : CChain) : Bool := !c.pend.isEmpty

structure Cfg where
  capacity : Nat        -- sat
  initiator : Bool
  anchors : Bool        -- ChanType.HasAnchors()
  zeroFee : Bool        -- ChanType.ZeroHtlcTxFee()
  taproot : Bool        -- ChanType.IsTaproot()
  dustL : Nat           -- LocalChanCfg.DustLimit (sat)
  dustR : Nat
  resL : Nat            -- LocalChanCfg.ChanReserve (sat)
  resR : Nat
  minL : Nat            -- LocalChanCfg.MinHTLC (msat)
  minR : Nat
  maxPendL : Nat        -- LocalChanCfg.MaxPendingAmount (msat)
  maxPendR : Nat
  maxAccL : Nat         -- LocalChanCfg.MaxAcceptedHtlcs
  maxAccR : Nat
deriving DecidableEq, Repr, Inhabited

structure Node where
  cfg : Cfg
  logL : Log := {}
  logR : Log := {}
  chainL : CChain
  chainR : CChain
deriving Repr, Inhabited

def Node.chain (n : Node) : Chain → CChain
  | .loc => n.chainL
  | .rem => n.chainR

inductive Err where
  | ok | noWindow | belowReserve | invalidAmt | belowMin | maxPending | maxHtlcs | feeFloor
  | parent | unknownHtlc | dupMod | badPreimage | badId | notInitiator | feeAsInitiator
  | feeUnaffordable | invalidSig | noPending | txSanity | overCapacity
deriving DecidableEq, Repr, Inhabited

def Err.toString : Err → String
  | .ok => "ok" | .noWindow => "noWindow" | .belowReserve => "belowReserve"
  | .invalidAmt => "invalidAmt" | .belowMin => "belowMin" | .maxPending => "maxPending"
  | .maxHtlcs => "maxHtlcs" | .feeFloor => "feeFloor" | .parent => "parent"
  | .unknownHtlc => "unknownHtlc" | .dupMod => "dupMod" | .badPreimage => "badPreimage"
  | .badId => "badId" | .notInitiator => "notInitiator" | .feeAsInitiator => "feeAsInitiator"
  | .feeUnaffordable => "feeUnaffordable" | .invalidSig => "invalidSig" | .noPending => "noPending"
  | .txSanity => "txSanity" | .overCapacity => "overCapacity"

/-! ## fee / weight / dust arithmetic -/

def sumBy {α : Type} (f : α → Nat) : List α → Nat
  | [] => 0
  | a :: l => f a + sumBy f l

/-- `SatPerKWeight.FeeForWeight` (rounded down). -/
def feeForWeight (feePerKw w : Nat) : Nat := feePerKw * w / 1000

/-- `CommitWeight(chanType)`. -/
def commitWeight (cfg : Cfg) : Nat :=
  if cfg.taproot then commitWeightTaproot
  else if cfg.anchors then commitWeightAnchor
  else commitWeightLegacy

def htlcTimeoutFee (cfg : Cfg) (feePerKw : Nat) : Nat :=
  if cfg.zeroFee || cfg.taproot then 0
  else if cfg.anchors then feeForWeight feePerKw htlcTimeoutWeightConf
  else feeForWeight feePerKw htlcTimeoutWeight

def htlcSuccessFee (cfg : Cfg) (feePerKw : Nat) : Nat :=
  if cfg.zeroFee || cfg.taproot then 0
  else if cfg.anchors then feeForWeight feePerKw htlcSuccessWeightConf
  else feeForWeight feePerKw htlcSuccessWeight

/-- `HtlcIsDust`: `(htlcAmt - htlcFee) < dustLimit` over signed sat. -/
def htlcIsDust (cfg : Cfg) (incoming : Bool) (whose : Chain) (feePerKw amtSat dust : Nat) : Bool :=
  let fee := match incoming, whose with
    | true, .loc => htlcSuccessFee cfg feePerKw
    | true, .rem => htlcTimeoutFee cfg feePerKw
    | false, .loc => htlcTimeoutFee cfg feePerKw
    | false, .rem => htlcSuccessFee cfg feePerKw
  decide (amtSat < dust + fee)

/-- 2 × 330 sat reserved by the opener on anchor channels (msat). -/
def anchorsMsat (cfg : Cfg) : Nat := if cfg.anchors then 2 * anchorSize * 1000 else 0

def Cfg.dust (cfg : Cfg) : Chain → Nat
  | .loc => cfg.dustL
  | .rem => cfg.dustR

/-! ## update logs -/

/-- `updateLog.lookupHtlc`. -/
def lookupHtlc (log : List Entry) (i : Nat) : Option Entry :=
  log.find? (fun e => e.isAdd && e.htlcIndex == i)

def Log.appendHtlc (l : Log) (e : Entry) : Log :=
  { l with entries := l.entries ++ [e], logIndex := l.logIndex + 1, htlcCounter := l.htlcCounter + 1 }

def Log.appendUpdate (l : Log) (e : Entry) : Log :=
  { l with entries := l.entries ++ [e], logIndex := l.logIndex + 1 }

/-- on the reversed entry list: overwrite the newest FeeUpdate if it is on no commitment yet. -/
def setLastFee (amt : Nat) : List Entry → Option (List Entry)
  | [] => none
  | e :: es =>
    if e.isFee then
      if e.addL = 0 ∧ e.addR = 0 then some ({ e with amt := amt } :: es) else none
    else (setLastFee amt es).map (e :: ·)

/-- `updateLog.appendFeeUpdate` (coalesces uncommitted fee updates). -/
def Log.appendFeeUpdate (l : Log) (e : Entry) : Log :=
  match setLastFee e.amt l.entries.reverse with
  | some r => { l with entries := r.reverse }
  | none => l.appendUpdate e

def Log.markModified (l : Log) (i : Nat) : Log := { l with modified := i :: l.modified }
def Log.isModified (l : Log) (i : Nat) : Bool := l.modified.contains i

/-- entries of a log visible below a log index (`fetchHTLCView`). -/
def viewOf (l : Log) (idx : Nat) : List Entry := l.entries.filter (fun e => e.logIndex < idx)

/-- set the commit heights of every uncommitted entry below `idx`. -/
def commitLog (c : Chain) (h idx : Nat) (es : List Entry) : List Entry :=
  es.map (fun e => if e.logIndex < idx then e.commitAt c h else e)

/-! ## evaluateHTLCView / computeView -/

def resolutions (v : List Entry) : List Entry := v.filter Entry.isRes
def adds (v : List Entry) : List Entry := v.filter Entry.isAdd

/-- `fetchParent` succeeds for every resolution of `rs` (parents live in `otherLog`). -/
def parentsOk (c : Chain) (otherLog : List Entry) (rs : List Entry) : Bool :=
  rs.all (fun r => match lookupHtlc otherLog r.parent with
    | some a => a.addH c != 0
    | none => false)

/-- amount credited to the *settling* party by not-yet-committed settles in `rs`. -/
def settleCredit (c : Chain) (rs : List Entry) : Nat :=
  sumBy Entry.amt (rs.filter (fun r => r.ty == .settle && r.rmvH c == 0))

/-- amount returned to the *counterparty* of the failing party by not-yet-committed fails. -/
def failCredit (c : Chain) (rs : List Entry) : Nat :=
  sumBy Entry.amt (rs.filter (fun r => r.ty != .settle && r.rmvH c == 0))

/-- adds of `v` that are not removed by a resolution in `otherRes`. -/
def liveAdds (v otherRes : List Entry) : List Entry :=
  v.filter (fun e => e.isAdd && !(otherRes.map Entry.parent).contains e.htlcIndex)

/-- amount debited from the adding party by not-yet-committed live adds. -/
def addDebit (c : Chain) (live : List Entry) : Nat :=
  sumBy Entry.amt (live.filter (fun e => e.addH c == 0))

/-- fee rate of a view: the opener's last FeeUpdate, else the tip's. -/
def viewFeePerKw (openerUpdates : List Entry) (dflt : Nat) : Nat :=
  match (openerUpdates.filter Entry.isFee).getLast? with
  | some e => e.amt / 1000
  | none => dflt

structure ViewResult where
  our : Nat              -- msat, before the commitment fee
  their : Nat
  weight : Nat
  feePerKw : Nat
  liveL : List Entry     -- filtered view, Local updates (adds only)
  liveR : List Entry
deriving Repr, Inhabited

def countNonDust (cfg : Cfg) (incoming : Bool) (c : Chain) (feePerKw : Nat) (l : List Entry) : Nat :=
  (l.filter (fun e => !htlcIsDust cfg incoming c feePerKw (e.amt / 1000) (cfg.dust c))).length

/-- `computeView` without the height mutation (that is `commitLog`).  `vL`/`vR` are the
    Local/Remote updates of the view (incl. a predicted add); parents are looked up in the
    node's full logs. -/
def computeView (n : Node) (c : Chain) (vL vR : List Entry) : Except Err ViewResult :=
  let tip := (n.chain c).tip
  let our0 := tip.our + (if n.cfg.initiator then 1000 * tip.fee else 0)
  let their0 := tip.their + (if n.cfg.initiator then 0 else 1000 * tip.fee)
  let resL := resolutions vL
  let resR := resolutions vR
  if !(parentsOk c n.logR.entries resL && parentsOk c n.logL.entries resR) then .error .parent else
  let liveL := liveAdds vL resR
  let liveR := liveAdds vR resL
  let creditL := settleCredit c resL + failCredit c resR
  let creditR := settleCredit c resR + failCredit c resL
  let debitL := addDebit c liveL
  let debitR := addDebit c liveR
  if our0 + creditL < debitL then .error .belowReserve else
  if their0 + creditR < debitR then .error .belowReserve else
  let f := viewFeePerKw (if n.cfg.initiator then vL else vR) tip.feePerKw
  let w := commitWeight n.cfg + htlcWeight *
    (countNonDust n.cfg false c f liveL + countNonDust n.cfg true c f liveR)
  .ok { our := our0 + creditL - debitL, their := their0 + creditR - debitR,
        weight := w, feePerKw := f, liveL := liveL, liveR := liveR }

/-! ## validateCommitmentSanity -/

inductive Buffer where
  | none | feeBuffer | additionalHtlc
deriving DecidableEq, Repr

/-- `applyCommitFee`: the balance left after fee (+ buffer), `none` = ErrBelowChanReserve. -/
def applyCommitFee (balance weight feePerKw : Nat) (b : Buffer) : Option Nat :=
  let commitFeeMsat := 1000 * feeForWeight feePerKw weight
  match b with
  | .feeBuffer =>
    let bufferAmt := 1000 * feeForWeight (2 * feePerKw) (weight + htlcWeight)
    if bufferAmt < balance then some (balance - bufferAmt) else none
  | .additionalHtlc =>
    let bufferAmt := commitFeeMsat + 1000 * feeForWeight feePerKw htlcWeight
    if bufferAmt < balance then some (balance - bufferAmt) else none
  | .none =>
    if commitFeeMsat < balance then some (balance - commitFeeMsat) else none

/-- `validateUpdates` closure. -/
def validateUpdates (live : List Entry) (minHtlc maxPending maxAccepted : Nat) : Err :=
  match live.find? (fun e => e.amt == 0 || decide (e.amt < minHtlc)) with
  | some e => if e.amt = 0 then .invalidAmt else .belowMin
  | none =>
    if sumBy Entry.amt live > maxPending then .maxPending
    else if live.length > maxAccepted then .maxHtlcs
    else .ok

def sanityOfView (n : Node) (c : Chain) (b : Buffer) (r : ViewResult) : Err :=
  let tip := (n.chain c).tip
  if r.feePerKw < feePerKwFloor then .feeFloor else
  let paid := if n.cfg.initiator then applyCommitFee r.our r.weight r.feePerKw b
              else applyCommitFee r.their r.weight r.feePerKw .none
  match paid with
  | none => .belowReserve
  | some bal =>
    let our := if n.cfg.initiator then bal else r.our
    let their := if n.cfg.initiator then r.their else bal
    if our < tip.our ∧ our < 1000 * n.cfg.resL then .belowReserve
    else if their < tip.their ∧ their < 1000 * n.cfg.resR then .belowReserve
    else
      match validateUpdates r.liveR n.cfg.minR n.cfg.maxPendR n.cfg.maxAccR with
      | .ok => validateUpdates r.liveL n.cfg.minL n.cfg.maxPendL n.cfg.maxAccL
      | e => e

/-- `validateCommitmentSanity(theirLogCounter, ourLogCounter, whoseCommitChain, buffer,
    predictOurAdd, predictTheirAdd)`. -/
def sanity (n : Node) (theirIdx ourIdx : Nat) (c : Chain) (b : Buffer)
    (predOur predTheir : List Entry) : Err :=
  match computeView n c (viewOf n.logL ourIdx ++ predOur) (viewOf n.logR theirIdx ++ predTheir) with
  | .error e => e
  | .ok r => sanityOfView n c b r

/-! ## createUnsignedCommitmentTx / fetchCommitmentView -/

def htlcOf (cfg : Cfg) (incoming : Bool) (c : Chain) (feePerKw : Nat) (e : Entry) : Htlc :=
  { incoming := incoming, idx := e.htlcIndex, amt := e.amt, expiry := e.expiry, hash := e.hash,
    dust := htlcIsDust cfg incoming c feePerKw (e.amt / 1000) (cfg.dust c) }

def htlcOuts (kind : OKind) (hs : List Htlc) : List Out :=
  (hs.filter (fun h => !h.dust)).map (fun h => ⟨h.amt / 1000, kind, h.expiry, h.hash⟩)

/-- `CreateCommitTx` + `addHTLC`s, owner's perspective.  `toOwner`/`toOther` in msat after
    the fee; `offered`/`received` from the owner's perspective. -/
def buildOuts (cfg : Cfg) (ownerDust toOwner toOther : Nat) (offered received : List Htlc) : List Out :=
  let numHtlcs := (offered.filter (fun h => !h.dust)).length + (received.filter (fun h => !h.dust)).length
  let lo := decide (toOwner / 1000 ≥ ownerDust)
  let ro := decide (toOther / 1000 ≥ ownerDust)
  (if lo then [⟨toOwner / 1000, .toLocal, 0, 0⟩] else []) ++
  (if ro then [⟨toOther / 1000, .toRemote, 0, 0⟩] else []) ++
  (if cfg.anchors && (lo || decide (numHtlcs > 0)) then [⟨anchorSize, .anchorLocal, 0, 0⟩] else []) ++
  (if cfg.anchors && (ro || decide (numHtlcs > 0)) then [⟨anchorSize, .anchorRemote, 0, 0⟩] else []) ++
  htlcOuts .offered offered ++ htlcOuts .received received

def outsTotal (os : List Out) : Nat := sumBy Out.value os

/-- the outputs of the commitment on chain `c`: the owner of chain `loc` is the node itself. -/
def commitOuts (cfg : Cfg) (c : Chain) (our their : Nat) (outg inc : List Htlc) : List Out :=
  match c with
  | .loc => buildOuts cfg cfg.dustL our their outg inc
  | .rem => buildOuts cfg cfg.dustR their our inc outg

/-- the commitment built from an evaluated view (`createUnsignedCommitmentTx` and the
    bookkeeping of `fetchCommitmentView`). -/
def buildCommit (cfg : Cfg) (c : Chain) (tip : Commit) (r : ViewResult)
    (ourMsg ourHtlc theirMsg theirHtlc : Nat) : Except Err Commit :=
  let outg := r.liveL.map (htlcOf cfg false c r.feePerKw)
  let inc := r.liveR.map (htlcOf cfg true c r.feePerKw)
  let num := (outg.filter (fun h => !h.dust)).length + (inc.filter (fun h => !h.dust)).length
  let commitFee := feeForWeight r.feePerKw (commitWeight cfg + htlcWeight * num)
  -- the opener pays; "if unable to pay the fee fully, their entire output is consumed"
  let our := if cfg.initiator then (if commitFee > r.our / 1000 then 0 else r.our - 1000 * commitFee) else r.our
  let their := if cfg.initiator then r.their else (if commitFee > r.their / 1000 then 0 else r.their - 1000 * commitFee)
  let outs := commitOuts cfg c our their outg inc
  if outs.isEmpty then .error .txSanity else
  if outsTotal outs + commitFee > cfg.capacity then .error .overCapacity else
  .ok { height := tip.height + 1, our := our, their := their, fee := commitFee, feePerKw := r.feePerKw,
        ourMsg := ourMsg, theirMsg := theirMsg, ourHtlc := ourHtlc, theirHtlc := theirHtlc,
        htlcs := outg ++ inc, outs := outs }

/-- `fetchCommitmentView`: returns the new commitment and the node with the commit heights
    of all covered updates set. -/
def fetchCommitmentView (n : Node) (c : Chain) (ourIdx ourHtlc theirIdx theirHtlc : Nat) :
    Except Err (Commit × Node) :=
  match computeView n c (viewOf n.logL ourIdx) (viewOf n.logR theirIdx) with
  | .error e => .error e
  | .ok r =>
    let tip := (n.chain c).tip
    match buildCommit n.cfg c tip r ourIdx ourHtlc theirIdx theirHtlc with
    | .error e => .error e
    | .ok cm =>
      let h := tip.height + 1
      .ok (cm, { n with logL := { n.logL with entries := commitLog c h ourIdx n.logL.entries },
                        logR := { n.logR with entries := commitLog c h theirIdx n.logR.entries } })

/-! ## compactLogs -/

def removable (localTail remoteTail : Nat) (e : Entry) : Bool :=
  !e.isAdd && e.rmvR != 0 && e.rmvL != 0 && decide (remoteTail ≥ e.rmvR) && decide (localTail ≥ e.rmvL)

/-- one `compactLog(logA, logB)` pass. -/
def compactPass (localTail remoteTail : Nat) (a b : Log) : Log × Log :=
  let gone := a.entries.filter (removable localTail remoteTail)
  let parents := (gone.filter (fun e => !e.isFee)).map Entry.parent
  ({ a with entries := a.entries.filter (fun e => !removable localTail remoteTail e) },
   { b with entries := b.entries.filter (fun e => !(e.isAdd && parents.contains e.htlcIndex)),
            modified := b.modified.filter (fun i => !parents.contains i) })

def compactLogs (localTail remoteTail : Nat) (ours theirs : Log) : Log × Log :=
  let (o1, t1) := compactPass localTail remoteTail ours theirs
  let (t2, o2) := compactPass localTail remoteTail t1 o1
  (o2, t2)

/-! ## the API -/

/-- `availableBalance(AdditionalHtlc)` for the channel initiator (used by `validateFeeRate`). -/
def availableCommitmentBalance (n : Node) (c : Chain) (vL vR : List Entry) : Nat × Nat :=
  match computeView n c vL vR with
  | .error _ => (0, 0)
  | .ok r =>
    let our := if 1000 * n.cfg.resL ≤ r.our then r.our - 1000 * n.cfg.resL else 0
    match applyCommitFee our r.weight r.feePerKw .additionalHtlc with
    | none => (0, r.weight)
    | some bal => (bal, r.weight)

def availableBalanceAdditionalHtlc (n : Node) : Nat × Nat :=
  let vL := viewOf n.logL n.logL.logIndex
  let vR := viewOf n.logR n.chainL.tip.theirMsg
  let (bl, w) := availableCommitmentBalance n .loc vL vR
  let (br, _) := availableCommitmentBalance n .rem vL vR
  (if br < bl then br else bl, w)

/-- `validateFeeRate`. -/
def validateFeeRate (n : Node) (feePerKw : Nat) : Bool :=
  let (avail, w) := availableBalanceAdditionalHtlc n
  let oldFee := 1000 * feeForWeight n.chainL.tip.feePerKw w
  let newFee := 1000 * feeForWeight feePerKw w
  decide (newFee ≤ avail + oldFee)

def Node.addHTLC (n : Node) (amt expiry hash : Nat) : Err × Node :=
  let pd : Entry := { ty := .add, amt := amt, logIndex := n.logL.logIndex,
                      htlcIndex := n.logL.htlcCounter, expiry := expiry, hash := hash }
  match sanity n n.chainL.tail.theirMsg n.logL.logIndex .rem .feeBuffer [pd] [] with
  | .ok =>
    match sanity n n.logR.logIndex n.logL.logIndex .loc .feeBuffer [pd] [] with
    | .ok => (.ok, { n with logL := n.logL.appendHtlc pd })
    | e => (e, n)
  | e => (e, n)

def Node.receiveHTLC (n : Node) (id amt expiry hash : Nat) : Err × Node :=
  if id ≠ n.logR.htlcCounter then (.badId, n) else
  let pd : Entry := { ty := .add, amt := amt, logIndex := n.logR.logIndex,
                      htlcIndex := n.logR.htlcCounter, expiry := expiry, hash := hash }
  match sanity n n.logR.logIndex n.chainR.tail.ourMsg .loc .none [] [pd] with
  | .ok => (.ok, { n with logR := n.logR.appendHtlc pd })
  | e => (e, n)

/-- `SettleHTLC` / `FailHTLC` / `MalformedFailHTLC` (resolution of an incoming HTLC). -/
def Node.resolveLocal (n : Node) (ty : ETy) (idx : Nat) (preimageOk : Bool) : Err × Node :=
  match lookupHtlc n.logR.entries idx with
  | none => (.unknownHtlc, n)
  | some h =>
    if n.logR.isModified idx then (.dupMod, n) else
    if ty = .settle ∧ !preimageOk then (.badPreimage, n) else
    let pd : Entry := { ty := ty, amt := h.amt, logIndex := n.logL.logIndex, parent := idx,
                        hash := h.hash }
    (.ok, { n with logL := n.logL.appendUpdate pd, logR := n.logR.markModified idx })

/-- `ReceiveHTLCSettle` / `ReceiveFailHTLC` (resolution of an outgoing HTLC by the peer). -/
def Node.resolveRemote (n : Node) (ty : ETy) (idx : Nat) (preimageOk : Bool) : Err × Node :=
  match lookupHtlc n.logL.entries idx with
  | none => (.unknownHtlc, n)
  | some h =>
    if n.logL.isModified idx then (.dupMod, n) else
    if ty = .settle ∧ !preimageOk then (.badPreimage, n) else
    let pd : Entry := { ty := ty, amt := h.amt, logIndex := n.logR.logIndex, parent := idx,
                        hash := h.hash }
    (.ok, { n with logR := n.logR.appendUpdate pd, logL := n.logL.markModified idx })

def Node.updateFee (n : Node) (feePerKw : Nat) : Err × Node :=
  if !n.cfg.initiator then (.notInitiator, n) else
  if !validateFeeRate n feePerKw then (.feeUnaffordable, n) else
  let pd : Entry := { ty := .feeUpd, amt := 1000 * feePerKw, logIndex := n.logL.logIndex }
  (.ok, { n with logL := n.logL.appendFeeUpdate pd })

def Node.receiveUpdateFee (n : Node) (feePerKw : Nat) : Err × Node :=
  if n.cfg.initiator then (.feeAsInitiator, n) else
  let pd : Entry := { ty := .feeUpd, amt := 1000 * feePerKw, logIndex := n.logR.logIndex }
  (.ok, { n with logR := n.logR.appendFeeUpdate pd })

/-- `SignNextCommitment`. -/
def Node.sign (n : Node) : Err × Node × Option SigView :=
  if n.chainR.hasUnacked then (.noWindow, n, none) else
  let ackIdx := n.chainL.tail.theirMsg
  let ackHtlc := n.chainL.tail.theirHtlc
  match sanity n ackIdx n.logL.logIndex .rem .none [] [] with
  | .ok =>
    match fetchCommitmentView n .rem n.logL.logIndex n.logL.htlcCounter ackIdx ackHtlc with
    | .error e => (e, n, none)
    | .ok (cm, n') =>
      (.ok, { n' with chainR := { n'.chainR with pend := n'.chainR.pend ++ [cm] } }, some cm.sigView)
  | e => (e, n, none)

/-- `ReceiveNewCommitment`: the signature verifies iff it covers our own construction. -/
def Node.receiveCommit (n : Node) (sv : SigView) : Err × Node :=
  let ackIdx := n.chainR.tail.ourMsg
  let ackHtlc := n.chainR.tail.ourHtlc
  match sanity n n.logR.logIndex ackIdx .loc .none [] [] with
  | .ok =>
    match fetchCommitmentView n .loc ackIdx ackHtlc n.logR.logIndex n.logR.htlcCounter with
    | .error e => (e, n)
    | .ok (cm, n') =>
      if cm.sigView = sv then
        (.ok, { n' with chainL := { n'.chainL with pend := n'.chainL.pend ++ [cm] } })
      else (.invalidSig, n)
  | e => (e, n)

/-- `ReceiveNewCommitment` exactly as the Go code behaves on a bad signature:
    `fetchCommitmentView` has already set the commit heights of the covered updates when the
    signature is checked, so after an Invalid*SigError the logs stay mutated while the chain is
    not extended (the link fails the channel at that point; the code carries a TODO for it).
    `receiveCommit` above is the same function with the rollback the TODO asks for; the two
    coincide whenever the answer is not `invalidSig` (`receiveCommitGo_eq` in Props). -/
def Node.receiveCommitGo (n : Node) (sv : SigView) : Err × Node :=
  let ackIdx := n.chainR.tail.ourMsg
  let ackHtlc := n.chainR.tail.ourHtlc
  match sanity n n.logR.logIndex ackIdx .loc .none [] [] with
  | .ok =>
    match fetchCommitmentView n .loc ackIdx ackHtlc n.logR.logIndex n.logR.htlcCounter with
    | .error e => (e, n)
    | .ok (cm, n') =>
      if cm.sigView = sv then
        (.ok, { n' with chainL := { n'.chainL with pend := n'.chainL.pend ++ [cm] } })
      else (.invalidSig, n')
  | e => (e, n)

/-- `RevokeCurrentCommitment`. -/
def Node.revoke (n : Node) : Err × Node :=
  match n.chainL.pend with
  | [] => (.noPending, n)
  | c :: rest => (.ok, { n with chainL := { tail := c, pend := rest } })

/-- `ReceiveRevocation` (advance the remote tail, then `compactLogs`). -/
def Node.receiveRevocation (n : Node) : Err × Node :=
  match n.chainR.pend with
  | [] => (.noPending, n)
  | c :: rest =>
    let remoteTail := n.chainR.tail.height + 1
    let localTail := n.chainL.tail.height
    let (l, r) := compactLogs localTail remoteTail n.logL n.logR
    (.ok, { n with chainR := { tail := c, pend := rest }, logL := l, logR := r })

/-! ## operations as data (for the theorems and the driver) -/

inductive Op where
  | addHTLC (amt expiry hash : Nat)
  | receiveHTLC (id amt expiry hash : Nat)
  | settle (idx : Nat) (preimageOk : Bool)
  | fail (idx : Nat)
  | malformedFail (idx : Nat)
  | receiveSettle (idx : Nat) (preimageOk : Bool)
  | receiveFail (idx : Nat)
  | updateFee (feePerKw : Nat)
  | receiveUpdateFee (feePerKw : Nat)
  | sign
  | receiveCommit (sv : SigView)
  | revoke
  | receiveRevocation
deriving Repr

def Node.step (n : Node) : Op → Err × Node
  | .addHTLC a e h => n.addHTLC a e h
  | .receiveHTLC i a e h => n.receiveHTLC i a e h
  | .settle i p => n.resolveLocal .settle i p
  | .fail i => n.resolveLocal .fail i true
  | .malformedFail i => n.resolveLocal .malformed i true
  | .receiveSettle i p => n.resolveRemote .settle i p
  | .receiveFail i => n.resolveRemote .fail i true
  | .updateFee f => n.updateFee f
  | .receiveUpdateFee f => n.receiveUpdateFee f
  | .sign => let r := n.sign; (r.1, r.2.1)
  | .receiveCommit sv => n.receiveCommit sv
  | .revoke => n.revoke
  | .receiveRevocation => n.receiveRevocation

def Node.run (n : Node) (ops : List Op) : Node := ops.foldl (fun s o => (s.step o).2) n

/-- the step function with Go's behaviour on a bad signature. -/
def Node.stepGo (n : Node) : Op → Err × Node
  | .receiveCommit sv => n.receiveCommitGo sv
  | o => n.step o

def Node.runGo (n : Node) (ops : List Op) : Node := ops.foldl (fun s o => (s.stepGo o).2) n

/-- no `ReceiveNewCommitment` of the run answered Invalid*SigError (after such an answer the
    link fails the channel; the state machine is not meant to be used any further). -/
def Node.noInvalidSig : Node → List Op → Prop
  | _, [] => True
  | n, o :: os => (n.stepGo o).1 ≠ .invalidSig ∧ Node.noInvalidSig (n.stepGo o).2 os

/-! ## the two-party system -/

inductive Msg where
  | add (id amt expiry hash : Nat)
  | settle (idx : Nat)
  | fail (idx : Nat)
  | fee (feePerKw : Nat)
  | commitSig (sv : SigView)
  | revoke
deriving Repr, Inhabited

structure System where
  a : Node
  b : Node
  ab : List Msg := []   -- FIFO a → b (head = oldest)
  ba : List Msg := []
deriving Repr, Inhabited

/-- the receiving API call for a wire message. -/
def Node.deliver (n : Node) : Msg → Err × Node
  | .add i a e h => n.receiveHTLC i a e h
  | .settle i => n.resolveRemote .settle i true
  | .fail i => n.resolveRemote .fail i true
  | .fee f => n.receiveUpdateFee f
  | .commitSig sv => n.receiveCommitGo sv
  | .revoke => n.receiveRevocation

/-- protocol-following local actions (each sends its wire message on success). -/
inductive Act where
  | add (amt expiry hash : Nat)
  | settle (idx : Nat)
  | fail (idx : Nat)
  | malformedFail (idx : Nat)
  | fee (feePerKw : Nat)
  | sign
  | revoke
deriving Repr

/-- a local action: next node state, error class, message sent on success. -/
def Node.act (n : Node) : Act → Err × Node × Option Msg
  | .add a e h =>
    let r := n.addHTLC a e h
    (r.1, r.2, if r.1 = .ok then some (.add n.logL.htlcCounter a e h) else none)
  | .settle i =>
    let r := n.resolveLocal .settle i true
    (r.1, r.2, if r.1 = .ok then some (.settle i) else none)
  | .fail i =>
    let r := n.resolveLocal .fail i true
    (r.1, r.2, if r.1 = .ok then some (.fail i) else none)
  | .malformedFail i =>
    let r := n.resolveLocal .malformed i true
    (r.1, r.2, if r.1 = .ok then some (.fail i) else none)
  | .fee f =>
    let r := n.updateFee f
    (r.1, r.2, if r.1 = .ok then some (.fee f) else none)
  | .sign =>
    let r := n.sign
    (r.1, r.2.1, r.2.2.map Msg.commitSig)
  | .revoke =>
    let r := n.revoke
    (r.1, r.2, if r.1 = .ok then some .revoke else none)

inductive SysStep where
  | actA (x : Act) | actB (x : Act) | deliverAB | deliverBA
deriving Repr

def System.step (s : System) : SysStep → Err × System
  | .actA x =>
    let r := s.a.act x
    (r.1, { s with a := r.2.1, ab := s.ab ++ r.2.2.toList })
  | .actB x =>
    let r := s.b.act x
    (r.1, { s with b := r.2.1, ba := s.ba ++ r.2.2.toList })
  | .deliverAB =>
    match s.ab with
    | [] => (.ok, s)
    | m :: rest => let r := s.b.deliver m; (r.1, { s with b := r.2, ab := rest })
  | .deliverBA =>
    match s.ba with
    | [] => (.ok, s)
    | m :: rest => let r := s.a.deliver m; (r.1, { s with a := r.2, ba := rest })

/-! ## what two peers must agree on (hypothesis of `honest_sig_verifies_partial`) -/

/-- what the construction of a commitment on chain `c` can see of a log entry. -/
structure AEntry where
  ty : ETy
  amt : Nat
  htlcIndex : Nat
  parent : Nat
  expiry : Nat
  hash : Nat
  added : Bool     -- already on the chain as an add / fee update
  removed : Bool   -- already on the chain as a removal
deriving DecidableEq, Repr

/-- update_fail_htlc and update_fail_malformed_htlc are the same thing for the commitment
    (the receiver records both as `Fail`). -/
def normTy : ETy → ETy
  | .malformed => .fail
  | t => t

def absE (c : Chain) (e : Entry) : AEntry :=
  ⟨normTy e.ty, e.amt, e.htlcIndex, e.parent, e.expiry, e.hash, e.addH c != 0, e.rmvH c != 0⟩

/-- the peer's static configuration. -/
def Cfg.mirror (c : Cfg) : Cfg :=
  { c with initiator := !c.initiator, dustL := c.dustR, dustR := c.dustL, resL := c.resR, resR := c.resL,
           minL := c.minR, minR := c.minL, maxPendL := c.maxPendR, maxPendR := c.maxPendL,
           maxAccL := c.maxAccR, maxAccR := c.maxAccL }

/-- resolutions of a view that are not yet on chain `c`. -/
def newRes (c : Chain) (v : List Entry) : List Entry := (resolutions v).filter (fun r => r.rmvH c == 0)

/-- executable form of `LogAgreement a b` (signer `a` when signing, receiver `b` when the
    signature is delivered); evaluated by the driver on the implementation's own states.
    Only what the construction consumes is compared (live adds, not-yet-committed resolutions,
    resulting fee rate), so the check is insensitive to the moment at which each side compacts
    fully resolved entries out of its logs. -/
def agreeCheck (a b : Node) : Bool :=
  let vLa := viewOf a.logL a.logL.logIndex
  let vRa := viewOf a.logR a.chainL.tail.theirMsg
  let vLb := viewOf b.logL b.chainR.tail.ourMsg
  let vRb := viewOf b.logR b.logR.logIndex
  decide (b.cfg = a.cfg.mirror) &&
  decide (b.chainL.tip.height = a.chainR.tip.height) && decide (b.chainL.tip.our = a.chainR.tip.their) &&
  decide (b.chainL.tip.their = a.chainR.tip.our) && decide (b.chainL.tip.fee = a.chainR.tip.fee) &&
  decide (b.chainL.tip.feePerKw = a.chainR.tip.feePerKw) &&
  decide ((liveAdds vLa (resolutions vRa)).map (absE .rem) = (liveAdds vRb (resolutions vLb)).map (absE .loc)) &&
  decide ((liveAdds vRa (resolutions vLa)).map (absE .rem) = (liveAdds vLb (resolutions vRb)).map (absE .loc)) &&
  decide ((newRes .rem vLa).map (absE .rem) = (newRes .loc vRb).map (absE .loc)) &&
  decide ((newRes .rem vRa).map (absE .rem) = (newRes .loc vLb).map (absE .loc)) &&
  decide (viewFeePerKw (if a.cfg.initiator then vLa else vRa) a.chainR.tip.feePerKw =
          viewFeePerKw (if a.cfg.initiator then vRb else vLb) b.chainL.tip.feePerKw)

end LndModel.C01
