/-
C01 — cross-node property theorems for ALL schedules of the link-disciplined two-party system
(`System.lrun`: any interleaving of add / settle / fail / malformed-fail / sign on either node and
in-order deliveries, one-unacked-commitment window, an accepted commitment_signed is revoked for in
the same handler, a rejected message fails the channel; no update_fee).

Helper files: Ghost, GhostInv, GhostNode (never-compacted ghost logs of one node), GView (what a
construction reads, on the ghost logs), XDefs (agreement lemma `sig_agree`), XInv, XInv2, XStep,
XStep2 (the cross-node invariant `XInv` and its preservation by every step).
-/
import LndModel.C01.Props
import LndModel.C01.XStep2
set_option linter.unusedSimpArgs false
set_option linter.unusedVariables false

namespace LndModel.C01

open LndModel.C03 (SNode SMsg SSys LStep Idx idxOf SAct nSig nRev)

/-- a freshly opened channel as both peers see it: empty logs, mirrored static configuration,
    and the two initial commitments of each chain are mirror images of each other. -/
structure SysOK (s : System) : Prop where
  fresh : SysFresh s
  logsA : s.a.logL.entries = [] ∧ s.a.logR.entries = []
  logsB : s.b.logL.entries = [] ∧ s.b.logR.entries = []
  cfg : s.b.cfg = s.a.cfg.mirror
  mAB : CM s.a.chainR.tail s.b.chainL.tail
  mBA : CM s.b.chainR.tail s.a.chainL.tail

theorem ginv_init {n : Node} (f : NodeFresh n) (hL : n.logL.entries = []) (hR : n.logR.entries = []) :
    GInv n [] [] := by
  have tL : n.chainL.tip = n.chainL.tail := by simp [CChain.tip, f.pendL]
  have tR : n.chainR.tip = n.chainR.tail := by simp [CChain.tip, f.pendR]
  have side : ∀ (log : Log) (oc : Nat) (tip : Chain → Nat) (b : Nat), log.entries = [] → log.logIndex = 0 →
      (∀ c, tip c = 0) → GSide [] [] log oc tip b := by
    intro log oc tip b he hi ht
    constructor
    · rw [he]; rfl
    · rfl
    · rw [hi]; rfl
    · intro e h; cases h
    · intro e h; cases h
    · intro c; rw [ht c]; exact Nat.le_refl _
    · intro e h; cases h
    · intro e h; cases h
    · intro e h; cases h
    · intro e h; cases h
    · unfold UniqueAdds adds GLog.all; simp
  constructor
  · apply side _ _ _ _ hL f.lIdx
    intro c; cases c
    · simp only [Node.chain]; rw [tL]; exact f.iL.1
    · simp only [Node.chain]; rw [tR]; exact f.iR.1
  · apply side _ _ _ _ hR f.rIdx
    intro c; cases c
    · simp only [Node.chain]; rw [tL]; exact f.iL.2
    · simp only [Node.chain]; rw [tR]; exact f.iR.2
  · exact f.pendL
  · simp [f.pendR]
  · rw [tL, f.iL.1]; exact Nat.zero_le _
  · rw [tR, f.iR.2]; exact Nat.zero_le _
  · rw [tR]; exact Nat.le_refl _

theorem xhalf_init {x y : Node} (fx : NodeFresh x) (fy : NodeFresh y) (hm : CM x.chainR.tail y.chainL.tail) :
    XHalf x y [] [] [] := by
  refine ⟨rfl, rfl, ?_, fun _ => hm, ?_⟩
  · intro sv h; cases h
  · intro hh; rw [fx.hR, fy.hL] at hh; cases hh

theorem xinv_init {s : System} (h : SysOK s) : XInv s := by
  refine ⟨SSys.init, [], [], [], [], sim_init h.fresh, LndModel.C03.inv2_init, ?_⟩
  have ea := h.fresh.ab
  have eb := h.fresh.ba
  constructor
  · exact h.cfg
  · exact ginv_init h.fresh.a h.logsA.1 h.logsA.2
  · exact ginv_init h.fresh.b h.logsB.1 h.logsB.2
  · rw [ea]; exact xhalf_init h.fresh.a h.fresh.b h.mAB
  · rw [eb]; exact xhalf_init h.fresh.b h.fresh.a h.mBA
  · intro P hP; rw [h.fresh.a.pendR] at hP; cases hP
  · intro P hP; rw [h.fresh.b.pendR] at hP; cases hP
  · intro r hr; cases hr
  · intro r hr; cases hr

/-- **the content-level cross-node invariant holds in every reachable state**, for all schedules. -/
theorem xinv_reachable (s0 : System) (h0 : SysOK s0) (steps : List LSysStep) (s : System)
    (hr : s0.lrun steps = some s) : XInv s :=
  xinv_run (xinv_init h0) steps hr

/-- at the head of the queue `a → b`, a commitment_signed is never answered with Invalid*SigError. -/
theorem sig_verifies_of_xi {s : System} {k : SSys} {GLa GRa GLb GRb : GLog} (h : XI s k GLa GRa GLb GRb)
    {sv : SigView} {rest : List Msg} (hq : s.ab = Msg.commitSig sv :: rest) :
    (s.b.receiveCommitGo sv).1 ≠ .invalidSig ∧
    ∀ cm n1, fetchCommitmentView s.b .loc s.b.chainR.tail.ourMsg s.b.chainR.tail.ourHtlc s.b.logR.logIndex
        s.b.logR.htlcCounter = .ok (cm, n1) →
      ∃ P, s.a.chainR.pend = [P] ∧ sv = P.sigView ∧ cm.sigView = sv ∧ CM P cm := by
  obtain ⟨P, hP, i1, i2, i3, i4, hh⟩ := skel_head_sig h.sim h.inv2 hq
  obtain ⟨P', hP', hsv⟩ := h.xr.hab.sq sv (by rw [hq]; exact List.mem_cons_self)
  have : P' = P := by rw [hP] at hP'; simpa using hP'.symm
  subst this
  have key : ∀ cm n1, fetchCommitmentView s.b .loc s.b.chainR.tail.ourMsg s.b.chainR.tail.ourHtlc s.b.logR.logIndex
        s.b.logR.htlcCounter = .ok (cm, n1) → cm.sigView = P'.sigView ∧ CM P' cm := by
    intro cm n1 hf
    exact sig_agree h.xr.cfg h.xr.ga h.xr.gb h.xr.hab.pre h.xr.hba.pre hP (h.xr.pca P' hP) (h.xr.hab.t0 hh)
      i1 i2 i3 i4 hf
  constructor
  · unfold Node.receiveCommitGo
    simp only
    split
    · split
      · rename_i hfe; exact fetch_err_sig hfe
      · rename_i cm n1 hf
        rw [if_pos (by rw [hsv]; exact (key cm n1 hf).1)]
        intro hc; cases hc
    · exact sanity_ne_sig _ _ _ _ _ _ _
  · intro cm n1 hf
    obtain ⟨k1, k2⟩ := key cm n1 hf
    exact ⟨P', hP, hsv, by rw [hsv]; exact k1, k2⟩

/-- **honest_sig_verifies** (must; all schedules of the link-disciplined system without
    update_fee).  From a freshly opened channel, after ANY interleaving of local actions of either
    peer and accepted in-order deliveries, a commitment_signed that is the oldest undelivered
    message is never answered with Invalid*SigError: whatever commitment the receiver constructs is
    exactly the one the signature covers.  (The receiver may still answer with a constraint error
    of `validateCommitmentSanity`; the property classifies those as outcomes, not disagreements.) -/
theorem honest_sig_verifies (s0 : System) (h0 : SysOK s0) (steps : List LSysStep) (s : System)
    (hr : s0.lrun steps = some s) :
    (∀ sv rest, s.ab = Msg.commitSig sv :: rest → (s.b.receiveCommitGo sv).1 ≠ .invalidSig) ∧
    (∀ sv rest, s.ba = Msg.commitSig sv :: rest → (s.a.receiveCommitGo sv).1 ≠ .invalidSig) := by
  obtain ⟨k, GLa, GRa, GLb, GRb, hi⟩ := xinv_reachable s0 h0 steps s hr
  constructor
  · intro sv rest hq; exact (sig_verifies_of_xi hi hq).1
  · intro sv rest hq; exact (sig_verifies_of_xi hi.swap hq).1

/-- **mirror_signed** (all schedules).  Whenever a commitment_signed is the oldest undelivered
    message, the commitment the receiver constructs for it is the mirror image of the sender's
    pending remote commitment: same height, balances swapped to the millisatoshi, same fee and fee
    rate, identical transaction, and the same HTLCs (index, amount, expiry, hash, dust flag) with
    the direction flipped. -/
theorem mirror_signed (s0 : System) (h0 : SysOK s0) (steps : List LSysStep) (s : System)
    (hr : s0.lrun steps = some s) {sv : SigView} {rest : List Msg} (hq : s.ab = Msg.commitSig sv :: rest)
    {cm : Commit} {n1 : Node}
    (hf : fetchCommitmentView s.b .loc s.b.chainR.tail.ourMsg s.b.chainR.tail.ourHtlc s.b.logR.logIndex
        s.b.logR.htlcCounter = .ok (cm, n1)) :
    ∃ P, s.a.chainR.pend = [P] ∧ sv = P.sigView ∧ cm.height = P.height ∧ cm.our = P.their ∧ cm.their = P.our ∧
      cm.fee = P.fee ∧ cm.feePerKw = P.feePerKw ∧ cm.outs = P.outs ∧
      (∃ o i, P.htlcs = o ++ i ∧ cm.htlcs.map mirrorHtlc = i ++ o) := by
  obtain ⟨k, GLa, GRa, GLb, GRb, hi⟩ := xinv_reachable s0 h0 steps s hr
  obtain ⟨P, hP, hsv, _, hm⟩ := (sig_verifies_of_xi hi hq).2 cm n1 hf
  exact ⟨P, hP, hsv, hm.tm.height, hm.tm.our, hm.tm.their, hm.tm.fee, hm.tm.feePerKw, hm.outs, hm.htlcs⟩

theorem local_mirrors_remote_of_xi {s : System} {k : SSys} {GLa GRa GLb GRb : GLog} (h : XI s k GLa GRa GLb GRb) :
    ∃ c ∈ s.a.chainR.all, CM c s.b.chainL.tail := by
  obtain ⟨⟨_, l2⟩, _, lpb, _, _, _, _⟩ := h.inv2
  have r2 := l2.revs
  have s2 := l2.sigs
  have tl := LndModel.C03.tipH_le k.a
  rw [lpb] at s2
  simp only [List.length_nil, Nat.add_zero] at s2
  rw [h.sim.b.lt, h.sim.a.rt] at r2
  rw [h.sim.b.lt] at s2
  rw [h.sim.a.rt] at tl
  rcases Nat.lt_or_ge s.a.chainR.tail.height s.b.chainL.tail.height with hlt | hge
  · obtain ⟨P, hP, hm⟩ := h.xr.hab.t1 (by omega)
    exact ⟨P, by simp [CChain.all, hP], hm⟩
  · exact ⟨s.a.chainR.tail, by simp [CChain.all], h.xr.hab.t0 (by omega)⟩

/-- **commitments_mirror** (all schedules).  In every reachable state each peer's current local
    commitment is the mirror image (height, balances to the millisatoshi, fee, fee rate,
    transaction) of a commitment on the other peer's remote chain — its tail or the pending one. -/
theorem commitments_mirror (s0 : System) (h0 : SysOK s0) (steps : List LSysStep) (s : System)
    (hr : s0.lrun steps = some s) :
    (∃ c ∈ s.a.chainR.all, CM c s.b.chainL.tail) ∧ (∃ c ∈ s.b.chainR.all, CM c s.a.chainL.tail) := by
  obtain ⟨k, GLa, GRa, GLb, GRb, hi⟩ := xinv_reachable s0 h0 steps s hr
  exact ⟨local_mirrors_remote_of_xi hi, local_mirrors_remote_of_xi hi.swap⟩

/-- **mirror_when_idle** (must; all schedules).  When nothing is in flight (both queues empty, no
    unacknowledged commitment on either side), the two sides' views of both commitments are mirror
    images: each local commitment and the peer's remote commitment have the same height, the
    balances swapped to the millisatoshi, the same fee and fee rate and the identical
    transaction. -/
theorem mirror_when_idle (s0 : System) (h0 : SysOK s0) (steps : List LSysStep) (s : System)
    (hr : s0.lrun steps = some s) (hab : s.ab = []) (hba : s.ba = [])
    (hpa : s.a.chainR.pend = []) (hpb : s.b.chainR.pend = []) :
    CM s.a.chainR.tail s.b.chainL.tail ∧ CM s.b.chainR.tail s.a.chainL.tail ∧
    s.a.chainL.pend = [] ∧ s.b.chainL.pend = [] := by
  obtain ⟨k, GLa, GRa, GLb, GRb, hi⟩ := xinv_reachable s0 h0 steps s hr
  obtain ⟨h1, _, _, h4, _, _⟩ := idle_indices_mirror s0 h0.fresh steps s hr hab hba hpa hpb
  exact ⟨hi.xr.hab.t0 h1, hi.xr.hba.t0 h4, hi.xr.ga.pendL, hi.xr.gb.pendL⟩

/-- **log_prefix_agreement** (all schedules): what the receiver has recorded of the peer's updates
    is, entry by entry (kind, amount, log index, htlc index, parent, expiry, hash), the delivered
    prefix of what the sender recorded, and the update messages still in flight are exactly the
    rest, in order — up to the entries `compactLogs` already removed on either side, which is what
    the never-compacted ghost logs `GLa` / `GRb` account for (`GInv`: the real log is the kept part
    of the ghost log). -/
theorem log_prefix_agreement (s0 : System) (h0 : SysOK s0) (steps : List LSysStep) (s : System)
    (hr : s0.lrun steps = some s) :
    ∃ GLa GRa GLb GRb : GLog, GInv s.a GLa GRa ∧ GInv s.b GLb GRb ∧
      GRb.cores = GLa.cores.take GRb.length ∧
      s.ab.filter Msg.isUpd = (GLa.cores.drop GRb.length).map wire ∧
      GRa.cores = GLb.cores.take GRa.length ∧
      s.ba.filter Msg.isUpd = (GLb.cores.drop GRa.length).map wire := by
  obtain ⟨k, GLa, GRa, GLb, GRb, hi⟩ := xinv_reachable s0 h0 steps s hr
  exact ⟨GLa, GRa, GLb, GRb, hi.xr.ga, hi.xr.gb, hi.xr.hab.pre, hi.xr.hab.inflight, hi.xr.hba.pre, hi.xr.hba.inflight⟩

theorem getElem_of_pos {l : List Entry} (hpos : l.map Entry.logIndex = List.range l.length) {e : Entry}
    (he : e ∈ l) : l[e.logIndex]? = some e := by
  obtain ⟨i, hi⟩ := List.mem_iff_getElem?.mp he
  have hlt : i < l.length := by
    rcases Nat.lt_or_ge i l.length with h | h
    · exact h
    · rw [List.getElem?_eq_none h] at hi; cases hi
  have h2 : (l.map Entry.logIndex)[i]? = some e.logIndex := by rw [List.getElem?_map, hi]; rfl
  rw [hpos, List.getElem?_range hlt] at h2
  have : i = e.logIndex := by simpa using h2
  rw [← this]; exact hi

/-- **log_entries_agree** (all schedules, no ghost state in the statement): an entry of the
    receiver's remote log and an entry of the sender's local log with the same log index are the
    same update — same kind (fail / malformed-fail identified), amount, htlc index, parent index,
    expiry and payment hash; and the receiver never holds an index the sender has not produced. -/
theorem log_entries_agree (s0 : System) (h0 : SysOK s0) (steps : List LSysStep) (s : System)
    (hr : s0.lrun steps = some s) :
    (∀ e ∈ s.b.logR.entries, ∀ e' ∈ s.a.logL.entries, e.logIndex = e'.logIndex → core e = core e') ∧
    (∀ e ∈ s.a.logR.entries, ∀ e' ∈ s.b.logL.entries, e.logIndex = e'.logIndex → core e = core e') ∧
    s.b.logR.logIndex ≤ s.a.logL.logIndex ∧ s.a.logR.logIndex ≤ s.b.logL.logIndex := by
  obtain ⟨k, GLa, GRa, GLb, GRb, hi⟩ := xinv_reachable s0 h0 steps s hr
  have key : ∀ (x y : Node) (GLx GRx GLy GRy : GLog) (q : List Msg), GInv x GLx GRx → GInv y GLy GRy →
      XHalf x y GLx GRy q →
      ∀ e ∈ y.logR.entries, ∀ e' ∈ x.logL.entries, e.logIndex = e'.logIndex → core e = core e' := by
    intro x y GLx GRx GLy GRy q gx gy hh e he e' he' hidx
    rw [gy.R.act] at he
    rw [gx.L.act] at he'
    have m1 : core e ∈ GRy.cores := List.mem_map_of_mem (GLog.mem_all (GLog.mem_kept.mp he))
    have m2 : core e' ∈ GLx.cores := List.mem_map_of_mem (GLog.mem_all (GLog.mem_kept.mp he'))
    have g1 := getElem_of_pos (GLog.cores_pos gy.R) m1
    have g2 := getElem_of_pos (GLog.cores_pos gx.L) m2
    simp only [core_logIndex] at g1 g2
    rw [hh.pre, List.getElem?_take] at g1
    split at g1
    · rw [hidx, g2] at g1
      exact (Option.some.inj g1).symm
    · cases g1
  refine ⟨key _ _ _ _ _ _ _ hi.xr.ga hi.xr.gb hi.xr.hab, key _ _ _ _ _ _ _ hi.xr.gb hi.xr.ga hi.xr.hba, ?_, ?_⟩
  · rw [hi.xr.gb.R.len, hi.xr.ga.L.len]; exact hi.xr.hab.len_le
  · rw [hi.xr.ga.R.len, hi.xr.gb.L.len]; exact hi.xr.hba.len_le

/-! ### non-vacuity -/

example : SysOK demoSys := by
  refine ⟨?_, ⟨rfl, rfl⟩, ⟨rfl, rfl⟩, rfl, ?_, ?_⟩
  · refine ⟨⟨rfl, rfl, rfl, rfl, ⟨rfl, rfl⟩, ⟨rfl, rfl⟩, rfl, rfl⟩,
      ⟨rfl, rfl, rfl, rfl, ⟨rfl, rfl⟩, ⟨rfl, rfl⟩, rfl, rfl⟩, rfl, rfl⟩
  · exact ⟨⟨rfl, rfl, rfl, rfl, rfl⟩, rfl, [], [], rfl, rfl⟩
  · exact ⟨⟨rfl, rfl, rfl, rfl, rfl⟩, rfl, [], [], rfl, rfl⟩

/-- a disciplined run in which a commitment_signed covering an HTLC reaches the head of the queue
    (hypotheses of `honest_sig_verifies` / `mirror_signed`), is accepted, and a second round (the
    receiver settles, signs back) ends idle with both logs compacted (hypotheses of
    `mirror_when_idle`). -/
example : (demoSys.lrun [.actA (.add 5000000 144 7), .actA .sign, .dlvAB]).map
    (fun s => s.ab.map (fun m => match m with | .commitSig _ => true | _ => false)) = some [true] := by decide

def demoSteps : List LSysStep :=
  [.actA (.add 5000000 144 7), .actA .sign, .dlvAB, .dlvAB, .dlvBA, .actB .sign, .dlvBA,
   .dlvAB, .actB (.settle 0), .actB .sign, .dlvBA, .dlvBA, .dlvAB, .actA .sign, .dlvAB, .dlvBA]

example : (demoSys.lrun demoSteps).map
    (fun s => (s.ab.length, s.ba.length, s.a.chainR.pend.length, s.b.chainR.pend.length)) = some (0, 0, 0, 0) := by
  decide

/-- … with the HTLC settled (5 000 000 msat moved), and the two peers' logs compacted at different
    moments (`a` has dropped the add, `b` still holds its copy). -/
example : (demoSys.lrun demoSteps).map
    (fun s => (s.a.chainR.tail.height, s.b.chainL.tail.our, s.a.chainR.tail.their,
      s.a.logL.entries.length, s.b.logR.entries.length)) = some (2, 505000000, 505000000, 0, 1) := by
  decide

end LndModel.C01
