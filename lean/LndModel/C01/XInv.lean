/-
C01 — the cross-node content invariant `XR` of the link-disciplined two-party system and its
preservation by updates (sent / delivered).
-/
import LndModel.C01.XDefs
set_option linter.unusedSimpArgs false
set_option linter.unusedVariables false

namespace LndModel.C01

/-- direction `x → y`: `x`'s local updates, `y`'s copy of them, the queue between them, and the
    chain `x` signs (`x.chainR`) against the chain `y` holds (`y.chainL`). -/
structure XHalf (x y : Node) (GLx GRy : GLog) (q : List Msg) : Prop where
  /-- (i) the receiver's remote log is the delivered prefix of the sender's local log -/
  pre : GRy.cores = GLx.cores.take GRy.length
  /-- ... and the rest is in flight, in order -/
  inflight : q.filter Msg.isUpd = (GLx.cores.drop GRy.length).map wire
  /-- a commitment_signed in flight carries the sender's pending commitment -/
  sq : ∀ sv, Msg.commitSig sv ∈ q → ∃ P, x.chainR.pend = [P] ∧ sv = P.sigView
  /-- (ii) the receiver's local commitment is the mirror image of the sender's view of it -/
  t0 : y.chainL.tail.height = x.chainR.tail.height → CM x.chainR.tail y.chainL.tail
  t1 : y.chainL.tail.height = x.chainR.tail.height + 1 → ∃ P, x.chainR.pend = [P] ∧ CM P y.chainL.tail

def PC (x : Node) (GL GR : GLog) : Prop :=
  ∀ P, x.chainR.pend = [P] → PChar x.cfg x.chainR.tail P GL.cores GR.cores

structure XR (s : System) (GLa GRa GLb GRb : GLog) : Prop where
  cfg : s.b.cfg = s.a.cfg.mirror
  ga : GInv s.a GLa GRa
  gb : GInv s.b GLb GRb
  hab : XHalf s.a s.b GLa GRb s.ab
  hba : XHalf s.b s.a GLb GRa s.ba
  pca : PC s.a GLa GRa
  pcb : PC s.b GLb GRb
  raa : ResAmt GLa.cores GRa.cores
  rab : ResAmt GLb.cores GRb.cores

def System.swap (s : System) : System := { a := s.b, b := s.a, ab := s.ba, ba := s.ab }

theorem mirror_mirror (c : Cfg) : c.mirror.mirror = c := by
  cases c; simp [Cfg.mirror]

theorem XR.swap {s : System} {GLa GRa GLb GRb : GLog} (h : XR s GLa GRa GLb GRb) : XR s.swap GLb GRb GLa GRa :=
  ⟨by show s.a.cfg = s.b.cfg.mirror; rw [h.cfg, mirror_mirror], h.gb, h.ga, h.hba, h.hab, h.pcb, h.pca, h.rab, h.raa⟩

theorem XHalf.len_le {x y : Node} {GLx GRy : GLog} {q : List Msg} (h : XHalf x y GLx GRy q) :
    GRy.length ≤ GLx.length := by
  have := congrArg List.length h.pre
  simp only [GLog.cores_length, List.length_take] at this
  omega

theorem take_succ_of_drop {α : Type} {l : List α} {k : Nat} {e0 : α} {tl : List α} (h : l.drop k = e0 :: tl) :
    l.take (k + 1) = l.take k ++ [e0] ∧ l.drop (k + 1) = tl := by
  constructor
  · rw [List.take_add_one]
    have : l[k]? = some e0 := by
      have := List.head?_drop (l := l) (i := k)
      rw [h] at this
      simpa using this.symm
    rw [this]; rfl
  · rw [← List.tail_drop, h]; rfl

theorem PC.tip_bounds {x : Node} {GL GR : GLog} (g : GInv x GL GR) {P : Commit} (hP : x.chainR.pend = [P]) :
    P.ourMsg ≤ GL.length ∧ P.theirMsg ≤ GR.length := by
  have hPtip : x.chainR.tip = P := by simp [CChain.tip, hP]
  have h1 := g.L.tips .rem
  have h2 := g.R.tips .rem
  simp only [Node.chain] at h1 h2
  rw [hPtip] at h1 h2
  exact ⟨h1, h2⟩

/-- node `a` appended an own update `pd` and sent its wire message. -/
theorem XR.appendL {s : System} {GLa GRa GLb GRb : GLog} (h : XR s GLa GRa GLb GRb) {a' : Node} {pd : Entry}
    {m : Msg} (hg : GInv a' (GLa ++ [(pd, true)]) GRa) (hcfg : a'.cfg = s.a.cfg)
    (hcL : a'.chainL = s.a.chainL) (hcR : a'.chainR = s.a.chainR)
    (hidx : pd.logIndex = GLa.length) (hm : m = wire pd) (hup : m.isUpd = true)
    (hra : pd.isRes = true → ∃ p ∈ GRa.cores, p.isAdd = true ∧ p.htlcIndex = pd.parent ∧ p.amt = pd.amt ∧ p.hash = pd.hash) :
    XR { s with a := a', ab := s.ab ++ [m] } (GLa ++ [(pd, true)]) GRa GLb GRb := by
  have hle := h.hab.len_le
  constructor
  · show s.b.cfg = a'.cfg.mirror
    rw [hcfg]; exact h.cfg
  · exact hg
  · exact h.gb
  · constructor
    · rw [GLog.cores_snoc, List.take_append_of_le_length (by rw [GLog.cores_length]; exact hle)]
      exact h.hab.pre
    · show (s.ab ++ [m]).filter Msg.isUpd = _
      rw [List.filter_append, h.hab.inflight, GLog.cores_snoc,
        List.drop_append_of_le_length (by rw [GLog.cores_length]; exact hle)]
      subst hm
      simp [List.filter, hup, wire_core]
    · intro sv hsv
      show ∃ P, a'.chainR.pend = [P] ∧ _
      rw [hcR]
      apply h.hab.sq sv
      rcases List.mem_append.mp hsv with h1 | h1
      · exact h1
      · simp only [List.mem_singleton] at h1
        rw [← h1] at hup; cases hup
    · show s.b.chainL.tail.height = a'.chainR.tail.height → CM a'.chainR.tail _
      rw [hcR]; exact h.hab.t0
    · show s.b.chainL.tail.height = a'.chainR.tail.height + 1 → ∃ P, a'.chainR.pend = [P] ∧ _
      rw [hcR]; exact h.hab.t1
  · constructor
    · exact h.hba.pre
    · exact h.hba.inflight
    · exact h.hba.sq
    · show a'.chainL.tail.height = _ → CM _ a'.chainL.tail
      rw [hcL]; exact h.hba.t0
    · show a'.chainL.tail.height = _ → ∃ P, _ ∧ CM P a'.chainL.tail
      rw [hcL]; exact h.hba.t1
  · intro P hP
    show PChar a'.cfg a'.chainR.tail P _ _
    rw [hcR] at hP
    rw [hcfg, hcR, GLog.cores_snoc]
    refine (h.pca P hP).snoc_L _ ?_
    have := (PC.tip_bounds h.ga hP).1
    show P.ourMsg ≤ pd.logIndex
    omega
  · exact h.pcb
  · intro r hr hres
    rw [GLog.cores_snoc] at hr
    rcases List.mem_append.mp hr with hr | hr
    · exact h.raa r hr hres
    · simp only [List.mem_singleton] at hr
      subst hr
      obtain ⟨p, p1, p2, p3, p4, p5⟩ := hra (by simpa using hres)
      exact ⟨p, p1, p2, p3, p4, p5⟩
  · exact h.rab

/-- node `b` received the oldest update of `a` and appended `pd` (the same entry) to its remote log. -/
theorem XR.appendR {s : System} {GLa GRa GLb GRb : GLog} (h : XR s GLa GRa GLb GRb) {b' : Node} {pd : Entry}
    {m : Msg} {rest : List Msg} (hq : s.ab = m :: rest) (hup : m.isUpd = true)
    (hg : GInv b' GLb (GRb ++ [(pd, true)])) (hcfg : b'.cfg = s.b.cfg)
    (hcL : b'.chainL = s.b.chainL) (hcR : b'.chainR = s.b.chainR)
    (hidx : pd.logIndex = GRb.length)
    (hcore : ∀ e0 tl, GLa.cores.drop GRb.length = e0 :: tl → wire e0 = m → core pd = e0) :
    XR { s with b := b', ab := rest } GLa GRa GLb (GRb ++ [(pd, true)]) := by
  have hin := h.hab.inflight
  rw [hq] at hin
  simp only [List.filter, hup] at hin
  cases hd : GLa.cores.drop GRb.length with
  | nil => rw [hd] at hin; simp at hin
  | cons e0 tl =>
    rw [hd] at hin
    simp only [List.map_cons, List.cons.injEq] at hin
    obtain ⟨hm0, hrest⟩ := hin
    have hc := hcore e0 tl hd hm0.symm
    obtain ⟨ht, hdr⟩ := take_succ_of_drop hd
    constructor
    · show b'.cfg = _
      rw [hcfg]; exact h.cfg
    · exact h.ga
    · exact hg
    · constructor
      · rw [GLog.cores_snoc, List.length_append, List.length_singleton, ht, hc, ← h.hab.pre]
      · show rest.filter Msg.isUpd = _
        rw [List.length_append, List.length_singleton, hdr]
        exact hrest
      · intro sv hsv
        apply h.hab.sq sv
        rw [hq]; exact List.mem_cons_of_mem _ hsv
      · show b'.chainL.tail.height = _ → CM _ b'.chainL.tail
        rw [hcL]; exact h.hab.t0
      · show b'.chainL.tail.height = _ → ∃ P, _ ∧ CM P b'.chainL.tail
        rw [hcL]; exact h.hab.t1
    · constructor
      · exact h.hba.pre
      · exact h.hba.inflight
      · intro sv hsv
        show ∃ P, b'.chainR.pend = [P] ∧ _
        rw [hcR]; exact h.hba.sq sv hsv
      · show _ = b'.chainR.tail.height → CM b'.chainR.tail _
        rw [hcR]; exact h.hba.t0
      · show _ = b'.chainR.tail.height + 1 → ∃ P, b'.chainR.pend = [P] ∧ _
        rw [hcR]; exact h.hba.t1
    · exact h.pca
    · intro P hP
      show PChar b'.cfg b'.chainR.tail P _ _
      rw [hcR] at hP
      rw [hcfg, hcR, GLog.cores_snoc]
      refine (h.pcb P hP).snoc_R _ ?_
      have := (PC.tip_bounds h.gb hP).2
      show P.theirMsg ≤ pd.logIndex
      omega
    · exact h.raa
    · intro r hr hres
      obtain ⟨p, p1, p2⟩ := h.rab r hr hres
      exact ⟨p, by rw [GLog.cores_snoc]; exact List.mem_append_left _ p1, p2⟩

end LndModel.C01
