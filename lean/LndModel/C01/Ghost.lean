/-
C01 — ghost (never compacted) update logs of one node.

`compactLogs` removes fully locked-in resolutions (and their adds) from the update logs, and the
two peers do that at different moments.  To compare the logs of the two peers we carry, next to
every node, *ghost* logs that are never compacted: a list of `(entry, kept)` pairs whose kept part
is the real log.  `GInv` says the dropped entries are irrelevant for every view the commitment
dance evaluates (a dropped resolution is on both chains, its add is dropped with it, and both lie
below the acknowledged indices), and that the "already on chain `c`" status of every entry is a
function of its log index and the message indices of the tip of chain `c`.
-/
import LndModel.C01.Sys
set_option linter.unusedSimpArgs false
set_option linter.unusedVariables false

namespace LndModel.C01

abbrev GLog := List (Entry × Bool)

def GLog.all (G : GLog) : List Entry := G.map (·.1)
def GLog.kept (G : GLog) : List Entry := (G.filter (·.2)).map (·.1)

theorem GLog.all_snoc (G : GLog) (e : Entry) (k : Bool) : GLog.all (G ++ [(e, k)]) = GLog.all G ++ [e] := by
  simp [GLog.all]

theorem GLog.kept_snoc (G : GLog) (e : Entry) : GLog.kept (G ++ [(e, true)]) = GLog.kept G ++ [e] := by
  simp [GLog.kept, List.filter_append]

theorem GLog.mem_all {G : GLog} {e : Entry} {k : Bool} (h : (e, k) ∈ G) : e ∈ GLog.all G :=
  List.mem_map.mpr ⟨(e, k), h, rfl⟩

theorem GLog.mem_all_iff {G : GLog} {e : Entry} : e ∈ GLog.all G ↔ ∃ k, (e, k) ∈ G := by
  constructor
  · intro h
    obtain ⟨x, hx, rfl⟩ := List.mem_map.mp h
    exact ⟨x.2, hx⟩
  · rintro ⟨k, h⟩; exact GLog.mem_all h

theorem GLog.mem_kept {G : GLog} {e : Entry} : e ∈ GLog.kept G ↔ (e, true) ∈ G := by
  unfold GLog.kept
  constructor
  · intro h
    obtain ⟨x, hx, rfl⟩ := List.mem_map.mp h
    obtain ⟨h1, h2⟩ := List.mem_filter.mp hx
    have : x = (x.1, true) := by cases x; simp_all
    rw [← this]; exact h1
  · intro h
    exact List.mem_map.mpr ⟨(e, true), List.mem_filter.mpr ⟨h, rfl⟩, rfl⟩

/-- apply `f` to the entries, keep the flags. -/
def GLog.mapE (f : Entry → Entry) (G : GLog) : GLog := G.map (fun x => (f x.1, x.2))

theorem GLog.all_mapE (f : Entry → Entry) (G : GLog) : GLog.all (GLog.mapE f G) = (GLog.all G).map f := by
  simp [GLog.all, GLog.mapE, List.map_map, Function.comp]

theorem GLog.kept_mapE (f : Entry → Entry) (G : GLog) : GLog.kept (GLog.mapE f G) = (GLog.kept G).map f := by
  unfold GLog.kept GLog.mapE
  induction G with
  | nil => rfl
  | cons x G ih =>
    cases hx : x.2 <;> simp_all [List.filter]

theorem GLog.length_mapE (f : Entry → Entry) (G : GLog) : (GLog.mapE f G).length = G.length := by
  simp [GLog.mapE]

theorem GLog.mem_mapE {f : Entry → Entry} {G : GLog} {e : Entry} {k : Bool} (h : (e, k) ∈ GLog.mapE f G) :
    ∃ e0, (e0, k) ∈ G ∧ e = f e0 := by
  obtain ⟨x, hx, he⟩ := List.mem_map.mp h
  simp only [Prod.mk.injEq] at he
  refine ⟨x.1, ?_, he.1.symm⟩
  have : x = (x.1, k) := by cases x; simp_all
  rw [← this]; exact hx

theorem GLog.mem_mapE_of {f : Entry → Entry} {G : GLog} {e : Entry} {k : Bool} (h : (e, k) ∈ G) :
    (f e, k) ∈ GLog.mapE f G :=
  List.mem_map.mpr ⟨(e, k), h, rfl⟩

/-- drop (flag := false) the entries satisfying `p`. -/
def GLog.drop (p : Entry → Bool) (G : GLog) : GLog := G.map (fun x => (x.1, x.2 && !p x.1))

theorem GLog.all_drop (p : Entry → Bool) (G : GLog) : GLog.all (GLog.drop p G) = GLog.all G := by
  simp [GLog.all, GLog.drop, List.map_map, Function.comp]

theorem GLog.kept_drop (p : Entry → Bool) (G : GLog) :
    GLog.kept (GLog.drop p G) = (GLog.kept G).filter (fun e => !p e) := by
  unfold GLog.kept GLog.drop
  induction G with
  | nil => rfl
  | cons x G ih =>
    cases hx : x.2 <;> cases hp : p x.1 <;> simp_all [List.filter]

theorem GLog.length_drop (p : Entry → Bool) (G : GLog) : (GLog.drop p G).length = G.length := by
  simp [GLog.drop]

theorem GLog.mem_drop {p : Entry → Bool} {G : GLog} {e : Entry} {k : Bool} (h : (e, k) ∈ GLog.drop p G) :
    ∃ k0, (e, k0) ∈ G ∧ k = (k0 && !p e) := by
  obtain ⟨x, hx, he⟩ := List.mem_map.mp h
  simp only [Prod.mk.injEq] at he
  obtain ⟨rfl, rfl⟩ := he
  exact ⟨x.2, hx, rfl⟩

theorem GLog.mem_drop_of {p : Entry → Bool} {G : GLog} {e : Entry} {k : Bool} (h : (e, k) ∈ G) :
    (e, k && !p e) ∈ GLog.drop p G :=
  List.mem_map.mpr ⟨(e, k), h, rfl⟩

/-! ### per-entry facts -/

/-- "already on chain `c`" for an add (its add height) resp. a resolution (its remove height). -/
def Entry.onC (c : Chain) (e : Entry) : Bool := if e.isAdd then e.addH c != 0 else e.rmvH c != 0

/-- no fee updates; an add never carries a remove height, a resolution never an add height. -/
structure EWf (e : Entry) : Prop where
  noFee : e.isFee = false
  addRmv : e.isAdd = true → e.rmvL = 0 ∧ e.rmvR = 0
  resAdd : e.isRes = true → e.addL = 0 ∧ e.addR = 0
  addShape : e.isAdd = true → e.parent = 0
  resShape : e.isRes = true → e.htlcIndex = 0 ∧ e.expiry = 0

/-- what the construction of a commitment sees of an entry when the tip of the chain covers the
    log indices below `t`. -/
def absI (t : Nat) (e : Entry) : AEntry :=
  ⟨normTy e.ty, e.amt, e.htlcIndex, e.parent, e.expiry, e.hash,
    e.isAdd && decide (e.logIndex < t), e.isRes && decide (e.logIndex < t)⟩

theorem absE_eq_absI {c : Chain} {t : Nat} {e : Entry} (hw : EWf e)
    (h : e.onC c = true ↔ e.logIndex < t) : absE c e = absI t e := by
  unfold absE absI
  have hd : e.onC c = decide (e.logIndex < t) := by
    cases ho : e.onC c
    · have : ¬ e.logIndex < t := fun hh => by simp [h.mpr hh] at ho
      simp [this]
    · simp [h.mp ho]
  by_cases ha : e.isAdd = true
  · obtain ⟨r1, r2⟩ := hw.addRmv ha
    have hr : e.isRes = false := isAdd_not_isRes e ha
    have : (e.addH c != 0) = decide (e.logIndex < t) := by rw [← hd]; simp [Entry.onC, ha]
    have h2 : (e.rmvH c != 0) = false := by cases c <;> simp [Entry.rmvH, r1, r2]
    simp only [ha, hr, this, h2, Bool.true_and, Bool.false_and]
  · have ha' : e.isAdd = false := by simpa using ha
    have hr : e.isRes = true := isRes_of_not e ha' hw.noFee
    obtain ⟨r1, r2⟩ := hw.resAdd hr
    have : (e.rmvH c != 0) = decide (e.logIndex < t) := by rw [← hd]; simp [Entry.onC, ha']
    have h2 : (e.addH c != 0) = false := by cases c <;> simp [Entry.addH, r1, r2]
    simp only [ha', hr, this, h2, Bool.true_and, Bool.false_and]

/-- the part of an entry both peers share (no commit heights; fail / malformed-fail identified). -/
def core (e : Entry) : Entry :=
  { e with ty := normTy e.ty, addL := 0, addR := 0, rmvL := 0, rmvR := 0 }

theorem normTy_idem (t : ETy) : normTy (normTy t) = normTy t := by cases t <;> rfl
theorem normTy_add (t : ETy) : (normTy t == .add) = (t == .add) := by cases t <;> rfl
theorem normTy_res (t : ETy) :
    (normTy t == .settle || normTy t == .fail || normTy t == .malformed) =
    (t == .settle || t == .fail || t == .malformed) := by cases t <;> rfl

@[simp] theorem core_isAdd (e : Entry) : (core e).isAdd = e.isAdd := by simp [core, Entry.isAdd, normTy_add]
@[simp] theorem core_isRes (e : Entry) : (core e).isRes = e.isRes := by simp [core, Entry.isRes, normTy_res]
@[simp] theorem core_logIndex (e : Entry) : (core e).logIndex = e.logIndex := rfl
@[simp] theorem core_htlcIndex (e : Entry) : (core e).htlcIndex = e.htlcIndex := rfl
@[simp] theorem core_parent (e : Entry) : (core e).parent = e.parent := rfl
@[simp] theorem core_amt (e : Entry) : (core e).amt = e.amt := rfl
theorem absI_core (t : Nat) (e : Entry) : absI t (core e) = absI t e := by
  unfold absI
  simp only [core_isAdd, core_isRes]
  simp [core, normTy_idem]
  exact ⟨rfl, rfl⟩

theorem cm1_expiry (c : Chain) (h i : Nat) (e : Entry) : (cm1 c h i e).expiry = e.expiry := by
  unfold cm1
  split
  · unfold Entry.commitAt
    cases hty : e.ty <;> simp only [] <;> split <;> cases c <;> simp [Entry.setAdd, Entry.setRmv]
  · rfl

theorem core_cm1 (c : Chain) (h i : Nat) (e : Entry) : core (cm1 c h i e) = core e := by
  unfold cm1
  split
  · unfold Entry.commitAt
    cases hty : e.ty <;> simp only [] <;> split <;> cases c <;> simp [core, Entry.setAdd, Entry.setRmv, hty]
  · rfl

end LndModel.C01
