/-
C01 driver: replays a harness trace of two real `LightningChannel`s on the model
(correspondence, `MISMATCH`) and evaluates the property monitor on the
implementation's own answers (`MONITOR`).

Monitor clauses (computed from the implementation's dumps and the operation
history only, never from the model's verdicts):
  conservation      our + their + Σ htlc + 1000·fee (+ anchors) = 1000·capacity, every commitment
  capacity          Σ real tx outputs + fee ≤ capacity
  tx-outputs        every real output is accounted for (to_local/to_remote value = ⌊balance⌋,
                    one output of ⌊amt⌋ per non-dust HTLC, anchors = 330) and BIP69+CLTV sorted
  balance-moves     between consecutive commitments of one chain a balance (fee added back to
                    the opener) moves exactly by the HTLCs added / settled / failed
  sig-verifies      a commitment signature of an honest peer is rejected (Invalid*SigError)
  delivery-rejected an honest peer's update/revocation is rejected for a non-constraint reason
  internal-error    capacity assertion / fee-rate assertion / panic inside the state machine
  forged-sig-accepted  a commitment_signed whose signature the harness corrupted is accepted
  htlc-output-index the recorded OutputIndex of every non-dust HTLC points at an output of the real
                    transaction whose value is its amount in sat (and whose class / cltv / hash
                    match); dust HTLCs have none; no two HTLCs share an index
  mirror-signed     signer's remote commitment = mirror of the receiver's local commitment (same height)
  mirror-idle       nothing in flight ⇒ both views of both commitments are mirror images (byte-equal txs)
  htlc-tx-identical at every accepted commitment_signed the digest of the second-level transaction the
                    signer signed with its i-th HTLC signature equals the digest the receiver derives for
                    its i-th verification job (both computed by the production code)
  log-agreement     at every signature delivery the signer's state when it signed and the receiver's
                    state now satisfy `agreeCheck` (= `LogAgreement`, the hypothesis of the *_partial
                    theorems), evaluated on the implementation's own dumps
-/
import LndModel.Prelude.Lines
import LndModel.C01.Model
import LndModel.C01.Bounded
import LndModel.C01.HtlcTx
import LndModel.C02.Model

open LndModel LndModel.Lines LndModel.C01

namespace LndModel.C01.Driver

/-! ### parsed dumps -/

structure RawOut where
  value : Nat
  cls : String
  cltv : Nat
  hid : Nat
  script : String
deriving Repr, BEq, Inhabited

structure CDump where
  chain : Chain
  pos : Nat
  cm : Commit
  raw : List RawOut
  /-- recorded HTLC → output index assignment: (incoming, htlc index, output index; -1 = dust). -/
  oidx : List (Bool × Nat × Int) := []
deriving Repr, Inhabited

structure NDump where
  ll : Nat := 0
  lc : Nat := 0
  rl : Nat := 0
  rc : Nat := 0
  owe : Bool := false
  need : Bool := false
  pend : List Nat := []
  lmod : List Nat := []
  rmod : List Nat := []
  logL : List Entry := []
  logR : List Entry := []
  commits : List CDump := []
  seen : Bool := false
deriving Repr, Inhabited

def NDump.chainOf (d : NDump) (c : Chain) : List CDump := d.commits.filter (fun x => x.chain == c)

def natD (s : String) : Nat := s.toNat?.getD 0

def parseSet (s : String) : List Nat :=
  if s == "-" then [] else (s.splitOn ";").map natD

def tyOf : String → Option ETy
  | "add" => some .add | "settle" => some .settle | "fail" => some .fail
  | "malformed" => some .malformed | "fee" => some .feeUpd | _ => none

def parseEntry (tok : String) : Option Entry :=
  match tok.splitOn ":" with
  | ["E", ty, li, ref, amt, exp, hid, aL, aR, rL, rR] =>
    (tyOf ty).map fun t =>
      let isAdd := t == .add
      { ty := t, amt := natD amt, logIndex := natD li,
        htlcIndex := if isAdd then natD ref else 0,
        parent := if isAdd then 0 else natD ref,
        expiry := natD exp, hash := natD hid,
        addL := natD aL, addR := natD aR, rmvL := natD rL, rmvR := natD rR }
  | _ => none

def parseHtlc (tok : String) : Option Htlc :=
  match tok.splitOn ":" with
  | ["H", dir, idx, amt, exp, hid, dust] =>
    some { incoming := dir == "i", idx := natD idx, amt := natD amt, expiry := natD exp,
           hash := natD hid, dust := dust == "1" }
  | _ => none

def parseOutIdx (tok : String) : Option (Bool × Nat × Int) :=
  match tok.splitOn ":" with
  | ["I", dir, idx, oi] => some (dir == "i", natD idx, oi.toInt?.getD (-2))
  | _ => none

def parseRawOut (tok : String) : Option RawOut :=
  match tok.splitOn ":" with
  | ["O", v, cls, cltv, hid, script] => some ⟨natD v, cls, natD cltv, natD hid, script⟩
  | _ => none

def kindOf : String → Option OKind
  | "tl" => some .toLocal | "tr" => some .toRemote | "al" => some .anchorLocal
  | "ar" => some .anchorRemote | "ho" => some .offered | "hr" => some .received | _ => none

def kindRank : OKind → Nat
  | .toLocal => 0 | .toRemote => 1 | .anchorLocal => 2 | .anchorRemote => 3 | .offered => 4 | .received => 5

def outLe (a b : Out) : Bool :=
  let ka := (a.value, kindRank a.kind, a.cltv, a.hash)
  let kb := (b.value, kindRank b.kind, b.cltv, b.hash)
  ka.1 < kb.1 || (ka.1 == kb.1 && (ka.2.1 < kb.2.1 || (ka.2.1 == kb.2.1 &&
    (ka.2.2.1 < kb.2.2.1 || (ka.2.2.1 == kb.2.2.1 && ka.2.2.2 ≤ kb.2.2.2)))))

def sortOuts (os : List Out) : List Out := os.mergeSort outLe

/-! ### real transactions: pkScript bytes as an ordered key (TxOrder's `script : Nat`) -/

def hexVal (c : Char) : Nat :=
  if c.isDigit then c.toNat - 48 else if c.toNat ≥ 97 && c.toNat ≤ 102 then c.toNat - 87 else 0

def bytesOfHex : List Char → List Nat
  | a :: b :: rest => (hexVal a * 16 + hexVal b) :: bytesOfHex rest
  | _ => []

/-- order-preserving (bytes.Compare) injective encoding of a pkScript of at most 40 bytes. -/
def encScript (hex : String) : Nat :=
  let bs := bytesOfHex hex.toList
  (bs.foldl (fun acc b => acc * 257 + (b + 1)) 0) * 257 ^ (40 - bs.length)

def rawTx (r : RawOut) : TxO := ⟨r.value, encScript r.script, r.cltv⟩

/-- the script oracle of one real transaction: abstract output ↦ its real pkScript. -/
def oracle (raw : List RawOut) (o : Out) : Nat :=
  match raw.find? (fun r => kindOf r.cls == some o.kind && r.hid == o.hash && r.cltv == o.cltv) with
  | some r => encScript r.script
  | none => 0

def oidxOpt (l : List (Bool × Nat × Int)) : List (Option Nat) :=
  l.map fun x => if x.2.2 < 0 then none else some x.2.2.toNat

/-- one signer job as the harness reports it (`T` token). -/
structure JobTok where
  pos : Int
  tx : SecondTx
  hashType : Nat
  version : Nat
  nIn : Nat
  nOut : Nat
  prevIndex : Nat
  prevHashOk : Bool
  digest : String
deriving Repr, Inhabited

def parseJobTok (tok : String) : Option JobTok :=
  match tok.splitOn ":" with
  | ["T", pos, oi, succ, lock, sq, v, pv, ht, ver, nin, nout, pidx, phok, dg] =>
    some { pos := pos.toInt?.getD (-2),
           tx := { outIndex := (oi.toNat?).getD 1000000, success := succ == "1", lockTime := lock.toNat?.getD 0,
                   sequence := sq.toNat?.getD 0, value := (v.toNat?).getD 0, prevValue := pv.toNat?.getD 0,
                   sigHashAll := ht == "1" },
           hashType := ht.toNat?.getD 0, version := ver.toNat?.getD 0, nIn := nin.toNat?.getD 0,
           nOut := nout.toNat?.getD 0, prevIndex := pidx.toNat?.getD 1000000, prevHashOk := phok == "1", digest := dg }
  | _ => none

def pairNat (s : String) : Nat × Nat :=
  match s.splitOn "," with
  | [a, b] => (natD a, natD b)
  | _ => (0, 0)

/-- `C X L pos h= our= … | H… | O…` -/
def parseCommit (ws : List String) : Option CDump :=
  match ws with
  | "C" :: _ :: side :: pos :: rest =>
    let hdr := rest.takeWhile (· ≠ "|")
    let r1 := (rest.dropWhile (· ≠ "|")).drop 1
    let hs := r1.takeWhile (· ≠ "|")
    let os := (r1.dropWhile (· ≠ "|")).drop 1
    let mi := pairNat ((kv? hdr "mi").getD "")
    let hi := pairNat ((kv? hdr "hi").getD "")
    let raw := os.filterMap parseRawOut
    let outs := raw.filterMap fun o => (kindOf o.cls).map fun k =>
      ({ value := o.value, kind := k, cltv := o.cltv, hash := o.hid } : Out)
    some { chain := if side == "L" then .loc else .rem, pos := natD pos, raw := raw,
           oidx := hs.filterMap parseOutIdx,
           cm := { height := (kvNat? hdr "h").getD 0, our := (kvNat? hdr "our").getD 0,
                   their := (kvNat? hdr "their").getD 0, fee := (kvNat? hdr "fee").getD 0,
                   feePerKw := (kvNat? hdr "fpk").getD 0, ourMsg := mi.1, theirMsg := mi.2,
                   ourHtlc := hi.1, theirHtlc := hi.2, htlcs := hs.filterMap parseHtlc,
                   outs := outs } }
  | _ => none

/-! ### driver state -/

inductive Res where
  | settled | failed
deriving BEq, Repr

structure St where
  caseId : String := "0"
  lines : Nat := 0
  cases : Nat := 0
  ops : Nat := 0
  mismatches : Nat := 0
  monitorFails : Nat := 0
  caseMismatch : Nat := 0   -- mismatches in the current case (limits the output)
  caseMonitor : Nat := 0
  -- model
  inited : Bool := false
  modelOk : Bool := true    -- model replay still in step with the implementation
  cap : Nat := 0
  anchors : Bool := false
  cfgA : Cfg := default
  mA : Node := default
  mB : Node := default
  qab : List Msg := []
  qba : List Msg := []
  /-- durable state of each node (C02's model of the channel database), kept next to the memory
      model so that a restart (`R` line) can be mirrored by C02's `restore`. -/
  kA : LndModel.C02.Disk := default
  kB : LndModel.C02.Disk := default
  restarts : Nat := 0
  restartsPending : Nat := 0
  -- implementation view
  dA : NDump := {}
  dB : NDump := {}
  cur : Option String := none      -- node whose dump is being read
  dirty : List String := []
  qlenAB : Nat := 0
  qlenBA : Nat := 0
  dead : Bool := false
  /-- (adder node, htlc index) ↦ how it was resolved, from the op history. -/
  resolved : List ((String × Nat) × Res) := []
  /-- (node, chain, height) ↦ commitment seen in an earlier dump. -/
  hist : List ((String × Chain × Nat) × Commit) := []
  /-- signer's state right before each signature still in flight (per direction). -/
  snapAB : List NDump := []
  snapBA : List NDump := []
  /-- (signature position, digest) of the signer's second-level transactions, per signature in flight. -/
  jobsAB : List (List (Int × String)) := []
  jobsBA : List (List (Int × String)) := []
  /-- the jobs of the commitment_signed that has just been delivered (for the `V` line). -/
  curJobs : Option (List (Int × String)) := none
  secondChecked : Nat := 0
  verifyJobsChecked : Nat := 0
  digestsCompared : Nat := 0
  agreeChecks : Nat := 0
  badSigs : Nat := 0
  outIdxChecked : Nat := 0
  -- statistics
  signs : Nat := 0
  sigsVerified : Nat := 0
  idleChecks : Nat := 0
  mirrorSigned : Nat := 0
  commitsChecked : Nat := 0
  balanceMoves : Nat := 0
  dustHtlcs : Nat := 0
  nondustHtlcs : Nat := 0
  maxHtlcsOnCommit : Nat := 0
  errKinds : List (String × Nat) := []
  samples : Nat := 0

def bump (l : List (String × Nat)) (k : String) : List (String × Nat) :=
  match l.find? (·.1 == k) with
  | some _ => l.map fun (a, n) => if a == k then (a, n + 1) else (a, n)
  | none => l ++ [(k, 1)]

def mismatch (s : St) (detail : String) : IO St := do
  if s.caseMismatch < 3 then
    IO.println s!"MISMATCH case={s.caseId} line={s.lines} {detail}"
  return { s with mismatches := s.mismatches + 1, caseMismatch := s.caseMismatch + 1, modelOk := false }

def monitor (s : St) (clause detail : String) : IO St := do
  if s.caseMonitor < 4 then
    IO.println s!"MONITOR case={s.caseId} clause={clause} line={s.lines} {detail}"
  return { s with monitorFails := s.monitorFails + 1, caseMonitor := s.caseMonitor + 1 }

def resOf (ws : List String) : String :=
  match ws.dropWhile (· ≠ "=>") with
  | _ :: r :: _ => r
  | _ => "?"

def afterArrow (ws : List String) : List String := (ws.dropWhile (· ≠ "=>")).drop 1

/-! ### model ↔ dump comparison -/

def oweLocal (n : Node) : Bool :=
  n.logL.logIndex != n.chainR.tip.ourMsg || n.chainL.tip.theirMsg != n.chainR.tip.theirMsg
def oweRemote (n : Node) : Bool :=
  n.logR.logIndex != n.chainL.tip.theirMsg || n.chainR.tip.ourMsg != n.chainL.tip.ourMsg

def entryEq (m d : Entry) : Bool :=
  m.ty == d.ty && m.amt == d.amt && m.logIndex == d.logIndex && m.htlcIndex == d.htlcIndex &&
  m.parent == d.parent && m.addL == d.addL && m.addR == d.addR && m.rmvL == d.rmvL && m.rmvR == d.rmvR &&
  (m.ty != .add || (m.expiry == d.expiry && m.hash == d.hash))

def listEqBy {α : Type} (f : α → α → Bool) : List α → List α → Bool
  | [], [] => true
  | a :: as, b :: bs => f a b && listEqBy f as bs
  | _, _ => false

def sortNat (l : List Nat) : List Nat := l.mergeSort (· ≤ ·)

def commitDiff (m : Commit) (d : CDump) : Option String :=
  let c := d.cm
  if m.height != c.height then some s!"height {m.height}/{c.height}"
  else if m.our != c.our || m.their != c.their then some s!"h={c.height} balances model={m.our},{m.their} impl={c.our},{c.their}"
  else if m.fee != c.fee || m.feePerKw != c.feePerKw then some s!"h={c.height} fee model={m.fee}@{m.feePerKw} impl={c.fee}@{c.feePerKw}"
  else if m.ourMsg != c.ourMsg || m.theirMsg != c.theirMsg || m.ourHtlc != c.ourHtlc || m.theirHtlc != c.theirHtlc then
    some s!"h={c.height} indices model={m.ourMsg},{m.theirMsg},{m.ourHtlc},{m.theirHtlc} impl={c.ourMsg},{c.theirMsg},{c.ourHtlc},{c.theirHtlc}"
  else if m.htlcs != c.htlcs then some s!"h={c.height} htlcs model={repr m.htlcs} impl={repr c.htlcs}"
  else if c.height != 0 && sortOuts m.outs != sortOuts c.outs then
    some s!"h={c.height} outputs model={repr (sortOuts m.outs)} impl={repr (sortOuts c.outs)}"
  else if c.height != 0 && sortedTx (oracle d.raw) m.outs != d.raw.map rawTx then
    some s!"h={c.height} sorted transaction: commitSort of the model's outputs with the real scripts = {repr ((sortedTx (oracle d.raw) m.outs).map fun o => (o.value, o.cltv))} impl={repr (d.raw.map fun r => (r.value, r.cltv))}"
  else if c.height != 0 && !d.oidx.isEmpty &&
      populate (d.raw.map rawTx) (Htlc.ht (oracle d.raw) d.chain) (fun _ => []) m.htlcs != some (oidxOpt d.oidx) then
    some s!"h={c.height} htlc output indices model={repr (populate (d.raw.map rawTx) (Htlc.ht (oracle d.raw) d.chain) (fun _ => []) m.htlcs)} impl={repr (oidxOpt d.oidx)}"
  else none

def chainDiff (name : String) (m : CChain) (ds : List CDump) : Option String :=
  if m.all.length != ds.length then some s!"{name}: chain length model={m.all.length} impl={ds.length}"
  else (m.all.zip ds).findSome? fun (a, b) => (commitDiff a b).map (s!"{name}: " ++ ·)

def nodeDiff (m : Node) (d : NDump) : Option String :=
  if m.logL.logIndex != d.ll || m.logL.htlcCounter != d.lc || m.logR.logIndex != d.rl || m.logR.htlcCounter != d.rc then
    some s!"counters model={m.logL.logIndex},{m.logL.htlcCounter},{m.logR.logIndex},{m.logR.htlcCounter} impl={d.ll},{d.lc},{d.rl},{d.rc}"
  else if sortNat m.logL.modified != d.lmod || sortNat m.logR.modified != d.rmod then
    some s!"modified sets model={sortNat m.logL.modified}/{sortNat m.logR.modified} impl={d.lmod}/{d.rmod}"
  else if !listEqBy entryEq m.logL.entries d.logL then
    some s!"local log model={repr m.logL.entries} impl={repr d.logL}"
  else if !listEqBy entryEq m.logR.entries d.logR then
    some s!"remote log model={repr m.logR.entries} impl={repr d.logR}"
  else if oweLocal m != d.owe || oweRemote m != d.need then
    some s!"owe/need model={oweLocal m},{oweRemote m} impl={d.owe},{d.need}"
  else if d.pend != [m.logL.logIndex - m.chainL.tip.ourMsg, m.logL.logIndex - m.chainR.tip.ourMsg,
                     m.logR.logIndex - m.chainL.tip.theirMsg, m.logR.logIndex - m.chainR.tip.theirMsg] then
    some s!"NumPendingUpdates impl={d.pend}"
  else (chainDiff "local" m.chainL (d.chainOf .loc)).orElse fun _ => chainDiff "remote" m.chainR (d.chainOf .rem)

def chainOfDump (ds : List CDump) : CChain :=
  match ds.map (·.cm) with
  | [] => default
  | c :: rest => { tail := c, pend := rest }

def nodeOfDump (cfg : Cfg) (d : NDump) : Node :=
  { cfg := cfg
    logL := { entries := d.logL, logIndex := d.ll, htlcCounter := d.lc, modified := d.lmod }
    logR := { entries := d.logR, logIndex := d.rl, htlcCounter := d.rc, modified := d.rmod }
    chainL := chainOfDump (d.chainOf .loc), chainR := chainOfDump (d.chainOf .rem) }

/-! ### monitors on the implementation's dumps -/

def htlcKey (h : Htlc) : Bool × Nat := (h.incoming, h.idx)

def scriptLe (a b : String) : Bool := a ≤ b

/-- BIP69 + CLTV order of the real outputs: (value, pkScript, cltv) lexicographic. -/
def rawSorted : List RawOut → Bool
  | a :: b :: rest =>
    (a.value < b.value || (a.value == b.value &&
      (a.script < b.script || (a.script == b.script && a.cltv ≤ b.cltv)))) && rawSorted (b :: rest)
  | _ => true

def checkCommit (s : St) (node : String) (d : CDump) : IO St := do
  let c := d.cm
  let tag := s!"node={node} chain={if d.chain == .loc then "local" else "remote"} h={c.height}"
  let mut s := { s with commitsChecked := s.commitsChecked + 1 }
  let htlcSum := sumBy Htlc.amt c.htlcs
  let anch := if s.anchors then 660000 else 0
  if c.our + c.their + htlcSum + 1000 * c.fee + anch != 1000 * s.cap then
    s ← monitor s "conservation" s!"{tag} our={c.our} their={c.their} htlcs={htlcSum} fee={c.fee} anchors_msat={anch} capacity_msat={1000 * s.cap}"
  if c.height != 0 then
    let total := sumBy RawOut.value d.raw
    if total + c.fee > s.cap then
      s ← monitor s "capacity" s!"{tag} outputs={total} fee={c.fee} capacity={s.cap}"
    -- every output accounted for
    let nd := c.htlcs.filter (fun h => !h.dust)
    let ownerBal := if d.chain == .loc then c.our else c.their
    let otherBal := if d.chain == .loc then c.their else c.our
    let bad := d.raw.find? fun o =>
      match o.cls with
      | "tl" => o.value != ownerBal / 1000
      | "tr" => o.value != otherBal / 1000
      | "al" | "ar" => o.value != 330 || !s.anchors
      | "ho" | "hr" => false
      | _ => true
    if let some o := bad then
      s ← monitor s "tx-outputs" s!"{tag} unexpected output value={o.value} class={o.cls}"
    let hv := sortNat ((d.raw.filter fun o => o.cls == "ho" || o.cls == "hr").map (·.value))
    if hv != sortNat (nd.map (·.amt / 1000)) then
      s ← monitor s "tx-outputs" s!"{tag} htlc outputs {hv} vs non-dust htlcs {sortNat (nd.map (·.amt / 1000))}"
    if (d.raw.filter (·.cls == "tl")).length > 1 || (d.raw.filter (·.cls == "tr")).length > 1 then
      s ← monitor s "tx-outputs" s!"{tag} duplicated balance output"
    if !rawSorted d.raw then
      s ← monitor s "tx-outputs" s!"{tag} outputs not in BIP69+CLTV order"
    -- the recorded HTLC → output index assignment
    if !d.oidx.isEmpty then
      for h in c.htlcs do
        match d.oidx.find? (fun x => x.1 == h.incoming && x.2.1 == h.idx) with
        | none => s ← monitor s "htlc-output-index" s!"{tag} htlc idx={h.idx} incoming={h.incoming} has no recorded output index"
        | some (_, _, oi) =>
          if h.dust then
            if oi ≥ 0 then
              s ← monitor s "htlc-output-index" s!"{tag} dust htlc idx={h.idx} incoming={h.incoming} recorded at output {oi}"
          else
            -- offered by the owner of this commitment?
            let cls := if h.incoming == (d.chain == .rem) then "ho" else "hr"
            match (if oi < 0 then none else d.raw[oi.toNat]?) with
            | none => s ← monitor s "htlc-output-index" s!"{tag} htlc idx={h.idx} incoming={h.incoming} recorded output index {oi} is not an output"
            | some o =>
              if o.value != h.amt / 1000 || o.cls != cls || o.cltv != h.expiry || o.hid != h.hash then
                s ← monitor s "htlc-output-index" s!"{tag} htlc idx={h.idx} incoming={h.incoming} amt_sat={h.amt / 1000} exp={h.expiry} recorded at output {oi} with value={o.value} class={o.cls} cltv={o.cltv}"
      let used := (d.oidx.filter (fun x => x.2.2 ≥ 0)).map (·.2.2)
      if used.eraseDups.length != used.length then
        s ← monitor s "htlc-output-index" s!"{tag} two HTLCs share an output index: {used}"
      s := { s with outIdxChecked := s.outIdxChecked + c.htlcs.length }
  s := { s with dustHtlcs := s.dustHtlcs + (c.htlcs.filter (·.dust)).length,
                nondustHtlcs := s.nondustHtlcs + (c.htlcs.filter (!·.dust)).length,
                maxHtlcsOnCommit := max s.maxHtlcsOnCommit c.htlcs.length }
  return s

/-- balance-moves: `old`, `new` consecutive commitments of one chain of `node`. -/
def checkMoves (s : St) (node : String) (initiator : Bool) (chain : Chain) (old new : Commit) : IO St := do
  let peer := if node == "A" then "B" else "A"
  let added := new.htlcs.filter fun h => !(old.htlcs.map htlcKey).contains (htlcKey h)
  let removed := old.htlcs.filter fun h => !(new.htlcs.map htlcKey).contains (htlcKey h)
  let resOfH (h : Htlc) : Option Res :=
    (s.resolved.find? (·.1 == (if h.incoming then peer else node, h.idx))).map (·.2)
  let sumIf (p : Htlc → Bool) (l : List Htlc) : Nat := sumBy Htlc.amt (l.filter p)
  let unk := removed.find? fun h => (resOfH h).isNone
  let tag := s!"node={node} chain={if chain == .loc then "local" else "remote"} h={old.height}->{new.height}"
  if let some h := unk then
    return (← monitor s "balance-moves" s!"{tag} htlc idx={h.idx} incoming={h.incoming} disappeared without a settle/fail")
  let feeOld := if initiator then 1000 * old.fee else 0
  let feeNew := if initiator then 1000 * new.fee else 0
  let feeOld' := if initiator then 0 else 1000 * old.fee
  let feeNew' := if initiator then 0 else 1000 * new.fee
  let ourExp := old.our + feeOld + sumIf (fun h => !h.incoming && resOfH h == some .failed) removed
                  + sumIf (fun h => h.incoming && resOfH h == some .settled) removed
  let ourGot := new.our + feeNew + sumIf (fun h => !h.incoming) added
  let theirExp := old.their + feeOld' + sumIf (fun h => h.incoming && resOfH h == some .failed) removed
                  + sumIf (fun h => !h.incoming && resOfH h == some .settled) removed
  let theirGot := new.their + feeNew' + sumIf (fun h => h.incoming) added
  let s := { s with balanceMoves := s.balanceMoves + 1 }
  if ourExp != ourGot || theirExp != theirGot then
    monitor s "balance-moves" s!"{tag} our: {old.our}->{new.our} their: {old.their}->{new.their} fee: {old.fee}->{new.fee} added={repr (added.map fun h => (h.incoming, h.idx, h.amt))} removed={repr (removed.map fun h => (h.incoming, h.idx, h.amt))}"
  else pure s

def mirrorHtlc (h : Htlc) : Htlc := { h with incoming := !h.incoming }

def htlcLe (a b : Htlc) : Bool :=
  (a.incoming, a.idx) == (b.incoming, b.idx) || (!a.incoming && b.incoming) || (a.incoming == b.incoming && a.idx ≤ b.idx)

/-- `x` (on one node) and `y` (same commitment as seen by the peer) are mirror images. -/
def mirrorDiff (x y : CDump) (bytes : Bool) : Option String :=
  let a := x.cm
  let b := y.cm
  if a.height != b.height then some s!"height {a.height}/{b.height}"
  else if a.our != b.their || a.their != b.our then some s!"balances {a.our},{a.their} vs {b.our},{b.their}"
  else if a.fee != b.fee || a.feePerKw != b.feePerKw then some s!"fee {a.fee}@{a.feePerKw} vs {b.fee}@{b.feePerKw}"
  else if a.htlcs.mergeSort htlcLe != (b.htlcs.map mirrorHtlc).mergeSort htlcLe then
    some s!"htlc sets differ {repr a.htlcs} vs {repr b.htlcs}"
  else if a.ourMsg != b.theirMsg || a.theirMsg != b.ourMsg || a.ourHtlc != b.theirHtlc || a.theirHtlc != b.ourHtlc then
    some s!"log indices {a.ourMsg},{a.theirMsg},{a.ourHtlc},{a.theirHtlc} vs {b.ourMsg},{b.theirMsg},{b.ourHtlc},{b.theirHtlc}"
  else if a.height != 0 && bytes && x.raw != y.raw then some s!"transactions differ at height {a.height}"
  else none

def nodeIdle (d : NDump) : Bool :=
  !d.owe && !d.need && d.pend.all (· == 0) && (d.chainOf .loc).length == 1 && (d.chainOf .rem).length == 1

def systemMonitors (s : St) : IO St := do
  let mut s := s
  if !(s.dA.seen && s.dB.seen) || s.dead then return s
  -- signed commitments: A's remote chain vs B's local chain and vice versa
  for (x, y, nm) in [(s.dA.chainOf .rem, s.dB.chainOf .loc, "A.remote/B.local"),
                     (s.dB.chainOf .rem, s.dA.chainOf .loc, "B.remote/A.local")] do
    for cx in x do
      for cy in y do
        if cx.cm.height == cy.cm.height then
          s := { s with mirrorSigned := s.mirrorSigned + 1 }
          if let some d := mirrorDiff cx cy true then
            s ← monitor s "mirror-signed" s!"{nm} {d}"
  if s.qlenAB == 0 && s.qlenBA == 0 && nodeIdle s.dA && nodeIdle s.dB then
    s := { s with idleChecks := s.idleChecks + 1 }
    match s.dA.chainOf .loc, s.dA.chainOf .rem, s.dB.chainOf .loc, s.dB.chainOf .rem with
    | [al], [ar], [bl], [br] =>
      if let some d := mirrorDiff al br true then
        s ← monitor s "mirror-idle" s!"A.local vs B.remote: {d}"
      if let some d := mirrorDiff bl ar true then
        s ← monitor s "mirror-idle" s!"B.local vs A.remote: {d}"
      -- when idle both of a node's own commitments carry the same balances and HTLCs
      if al.cm.our + (if s.cfgA.initiator then 1000 * al.cm.fee else 0) !=
         ar.cm.our + (if s.cfgA.initiator then 1000 * ar.cm.fee else 0) then
        s ← monitor s "mirror-idle" s!"A's balance differs between its two commitments: {al.cm.our}+fee {al.cm.fee} vs {ar.cm.our}+fee {ar.cm.fee}"
    | _, _, _, _ => pure ()
  return s

/-- finish the dumps read since the last operation: compare with the model, run the monitors. -/
def flush (s : St) : IO St := do
  let mut s := { s with cur := none }
  if s.dirty.isEmpty then return s
  if !s.inited then
    if s.dA.seen && s.dB.seen then
      s := { s with inited := true, mA := nodeOfDump s.cfgA s.dA, mB := nodeOfDump (s.cfgA.mirror) s.dB }
      s := { s with kA := (LndModel.C02.St.init s.mA).disk, kB := (LndModel.C02.St.init s.mB).disk }
    else return s
  for node in s.dirty.eraseDups do
    let d := if node == "A" then s.dA else s.dB
    let m := if node == "A" then s.mA else s.mB
    if s.modelOk then
      if let some diff := nodeDiff m d then
        s ← mismatch s s!"node={node} {diff.take 600}"
    for c in d.commits do
      let key := (node, c.chain, c.cm.height)
      match s.hist.find? (·.1 == key) with
      | some (_, old) =>
        if old != c.cm then
          s ← monitor s "commit-stable" s!"node={node} commitment at height {c.cm.height} changed after it was created"
      | none =>
        s ← checkCommit s node c
        if c.cm.height > 0 then
          if let some (_, prev) := s.hist.find? (·.1 == (node, c.chain, c.cm.height - 1)) then
            s ← checkMoves s node (if node == "A" then s.cfgA.initiator else !s.cfgA.initiator) c.chain prev c.cm
        s := { s with hist := (key, c.cm) :: s.hist }
  s ← systemMonitors s
  return { s with dirty := [] }

/-! ### operations -/

def constraintErr (r : String) : Bool :=
  ["ok", "belowReserve", "invalidAmt", "belowMin", "maxPending", "maxHtlcs", "feeFloor", "noWindow",
   "feeUnaffordable", "notInitiator", "feeAsInitiator"].contains r

def internalErr (r : String) : Bool :=
  r == "overCapacity" || r == "lowEffFee" || r == "panic" || r == "txSanity" || r.startsWith "other"

def setNode (s : St) (node : String) (n : Node) : St :=
  if node == "A" then { s with mA := n } else { s with mB := n }

/-- the database writes of `SignNextCommitment` / `RevokeCurrentCommitment` / `ReceiveRevocation`
    (C02's model), applied to the durable state of `node`; `n` = memory before the call. -/
def diskStep (s : St) (node : String) (n : Node) (o : Op) : St :=
  let dk := if node == "A" then s.kA else s.kB
  let st : LndModel.C02.St := { mem := n, cur := n.chainL.tail.height, disk := dk }
  let dk' := (st.apiStep o).2.disk
  if node == "A" then { s with kA := dk' } else { s with kB := dk' }

def pushMsg (s : St) (node : String) (m : Msg) : St :=
  if node == "A" then { s with qab := s.qab ++ [m] } else { s with qba := s.qba ++ [m] }

def readQ (s : St) (ws : List String) : St :=
  match (kv? ws "q").map pairNat with
  | some (a, b) => { s with qlenAB := a, qlenBA := b }
  | none => s

def opLine (s : St) (node : String) (ws : List String) : IO St := do
  let mut s ← flush s
  s := readQ { s with ops := s.ops + 1, dirty := [node] } ws
  let impl := resOf ws
  s := { s with errKinds := bump s.errKinds impl }
  let op := ws[1]?.getD ""
  let n := if node == "A" then s.mA else s.mB
  -- monitor: nothing inside the state machine may blow up
  if internalErr impl then
    s ← monitor s "internal-error" s!"node={node} {op} => {impl}"
  if op == "sign" && impl == "parent" then
    s ← monitor s "internal-error" s!"node={node} sign => {impl} (resolution of an HTLC that is locked in)"
  -- op history for balance-moves
  if impl == "ok" then
    let idx := (kvNat? ws "idx").getD 0
    let peer := if node == "A" then "B" else "A"
    if op == "settle" then s := { s with resolved := ((peer, idx), .settled) :: s.resolved }
    if op == "fail" || op == "malformed" then s := { s with resolved := ((peer, idx), .failed) :: s.resolved }
    if op == "sign" then
      s := { s with signs := s.signs + 1 }
      s := if node == "A" then { s with snapAB := s.snapAB ++ [s.dA] } else { s with snapBA := s.snapBA ++ [s.dB] }
  if !s.modelOk then return s
  let chk (s : St) (e : Err) (n' : Node) (msg : Option Msg) : IO St := do
    if e.toString != impl then
      mismatch s s!"node={node} {op}: model={e.toString} impl={impl}"
    else
      let s := setNode s node n'
      match msg with
      | some m => if e == .ok then pure (pushMsg s node m) else pure s
      | none => pure s
  match op with
  | "add" =>
    let (e, n') := n.addHTLC ((kvNat? ws "amt").getD 0) ((kvNat? ws "exp").getD 0) ((kvNat? ws "hash").getD 0)
    let s2 ← chk s e n' (some (.add n.logL.htlcCounter ((kvNat? ws "amt").getD 0) ((kvNat? ws "exp").getD 0) ((kvNat? ws "hash").getD 0)))
    if e == .ok && impl == "ok" && (kvNat? (afterArrow ws) "idx") != some n.logL.htlcCounter then
      mismatch s2 s!"add: htlc index model={n.logL.htlcCounter}"
    else pure s2
  | "rawrecv" =>
    let (e, n') := n.receiveHTLC ((kvNat? ws "id").getD 0) ((kvNat? ws "amt").getD 0) ((kvNat? ws "exp").getD 0) ((kvNat? ws "hash").getD 0)
    chk s e n' none
  | "settle" =>
    let i := (kvNat? ws "idx").getD 0
    let (e, n') := n.resolveLocal .settle i true
    chk s e n' (some (.settle i))
  | "settlebad" =>
    let i := (kvNat? ws "idx").getD 0
    let (e, n') := n.resolveLocal .settle i false
    chk s e n' (some (.settle i))
  | "fail" =>
    let i := (kvNat? ws "idx").getD 0
    let (e, n') := n.resolveLocal .fail i true
    chk s e n' (some (.fail i))
  | "malformed" =>
    let i := (kvNat? ws "idx").getD 0
    let (e, n') := n.resolveLocal .malformed i true
    chk s e n' (some (.fail i))
  | "fee" =>
    let f := (kvNat? ws "fpk").getD 0
    let (e, n') := n.updateFee f
    chk s e n' (some (.fee f))
  | "sign" =>
    let (e, n', sv) := n.sign
    chk (diskStep s node n .sign) e n' (sv.map Msg.commitSig)
  | "revoke" =>
    let (e, n') := n.revoke
    chk (diskStep s node n .revoke) e n' (some .revoke)
  | _ => mismatch s s!"unknown op {op}"

def msgKind : Msg → String
  | .add .. => "add" | .settle _ => "settle" | .fail _ => "fail" | .fee _ => "fee"
  | .commitSig _ => "commitsig" | .revoke => "revoke"

/-- a corrupted commitment_signed (the harness flipped a bit of one signature): it must be
    rejected; the model (Go-faithful `receiveCommitGo`) predicts the state left behind. -/
def badSigLine (s : St) (ws : List String) : IO St := do
  let mut s ← flush s
  let dir := ws[1]?.getD ""
  let impl0 := resOf ws
  let impl := if impl0.startsWith "other:invalid_partial_sig" then "invalidSig" else impl0
  let recv := if dir == "AB" then "B" else "A"
  s := readQ { s with ops := s.ops + 1, dirty := [recv], dead := true, badSigs := s.badSigs + 1 } ws
  s := { s with errKinds := bump s.errKinds ("badsig_" ++ impl) }
  if dir == "AB" then s := { s with snapAB := s.snapAB.drop 1, jobsAB := s.jobsAB.drop 1 }
  else s := { s with snapBA := s.snapBA.drop 1, jobsBA := s.jobsBA.drop 1 }
  if impl == "ok" then
    s ← monitor s "forged-sig-accepted" s!"{dir}: a commitment_signed with a corrupted signature was accepted"
  else if internalErr impl then
    s ← monitor s "internal-error" s!"{dir} commitsig-bad => {impl}"
  if !s.modelOk then return s
  let q := if dir == "AB" then s.qab else s.qba
  match q with
  | .commitSig sv :: rest =>
    let n := if recv == "A" then s.mA else s.mB
    let (e, n') := n.receiveCommitGo { sv with height := sv.height + 1000 }
    let s2 := if dir == "AB" then { s with qab := rest } else { s with qba := rest }
    if e.toString != impl then
      mismatch s2 s!"deliver {dir} commitsig-bad: model={e.toString} impl={impl}"
    else pure (setNode s2 recv n')
  | _ => mismatch s s!"deliver {dir} commitsig-bad: model queue head is not a commitSig"

def deliverLine (s : St) (ws : List String) : IO St := do
  if ws[2]? == some "commitsig-bad" then return (← badSigLine s ws)
  let mut s ← flush s
  let dir := ws[1]?.getD ""
  let kind := ws[2]?.getD ""
  let impl := resOf ws
  let recv := if dir == "AB" then "B" else "A"
  s := readQ { s with ops := s.ops + 1, dirty := [recv] } ws
  s := { s with errKinds := bump s.errKinds ("recv_" ++ impl) }
  -- monitor: honest peers never reject each other's signatures or updates
  s := { s with curJobs := none }
  if kind == "commitsig" then
    if dir == "AB" then s := { s with curJobs := s.jobsAB.head?, jobsAB := s.jobsAB.drop 1 }
    else s := { s with curJobs := s.jobsBA.head?, jobsBA := s.jobsBA.drop 1 }
    -- hypothesis of `honest_sig_verifies_partial`: LogAgreement(signer when signing, receiver now),
    -- evaluated on the implementation's own states
    let snaps := if dir == "AB" then s.snapAB else s.snapBA
    if let snap :: rest := snaps then
      s := if dir == "AB" then { s with snapAB := rest } else { s with snapBA := rest }
      let (cfgS, cfgR) := if dir == "AB" then (s.cfgA, s.cfgA.mirror) else (s.cfgA.mirror, s.cfgA)
      let recvDump := if dir == "AB" then s.dB else s.dA
      s := { s with agreeChecks := s.agreeChecks + 1 }
      if !agreeCheck (nodeOfDump cfgS snap) (nodeOfDump cfgR recvDump) then
        let a := nodeOfDump cfgS snap
        let b := nodeOfDump cfgR recvDump
        let vLa := viewOf a.logL a.logL.logIndex
        let vRa := viewOf a.logR a.chainL.tail.theirMsg
        let vLb := viewOf b.logL b.chainR.tail.ourMsg
        let vRb := viewOf b.logR b.logR.logIndex
        let det := [decide (b.cfg = a.cfg.mirror), decide (b.chainL.tip.height = a.chainR.tip.height),
          decide (b.chainL.tip.our = a.chainR.tip.their), decide (b.chainL.tip.their = a.chainR.tip.our),
          decide (b.chainL.tip.fee = a.chainR.tip.fee), decide (b.chainL.tip.feePerKw = a.chainR.tip.feePerKw),
          decide ((liveAdds vLa (resolutions vRa)).map (absE .rem) = (liveAdds vRb (resolutions vLb)).map (absE .loc)),
          decide ((liveAdds vRa (resolutions vLa)).map (absE .rem) = (liveAdds vLb (resolutions vRb)).map (absE .loc)),
          decide ((newRes .rem vLa).map (absE .rem) = (newRes .loc vRb).map (absE .loc)),
          decide ((newRes .rem vRa).map (absE .rem) = (newRes .loc vLb).map (absE .loc)),
          decide (viewFeePerKw (if a.cfg.initiator then vLa else vRa) a.chainR.tip.feePerKw =
                  viewFeePerKw (if a.cfg.initiator then vRb else vLb) b.chainL.tip.feePerKw)]
        s ← monitor s "log-agreement" s!"{dir}: signer (when signing) and receiver (at delivery) disagree on the inputs of the commitment: [cfg,height,our,their,fee,feePerKw,liveOurs,liveTheirs,newResOurs,newResTheirs,feeRate]={det}"
    if impl == "invalidSig" then
      s ← monitor s "sig-verifies" s!"{dir}: commitment signature of an honest peer rejected"
    else if impl == "ok" then s := { s with sigsVerified := s.sigsVerified + 1 }
  if internalErr impl then
    s ← monitor s "internal-error" s!"{dir} {kind} => {impl}"
  else if impl != "invalidSig" && !constraintErr impl then
    s ← monitor s "delivery-rejected" s!"{dir} {kind} => {impl}"
  if impl != "ok" then s := { s with dead := true }
  if !s.modelOk then return s
  let q := if dir == "AB" then s.qab else s.qba
  match q with
  | [] => mismatch s s!"deliver {dir}: model queue empty, impl delivered {kind}"
  | m :: rest =>
    if msgKind m != kind then
      mismatch s s!"deliver {dir}: model queue head {msgKind m}, impl delivered {kind}"
    else
      let n := if recv == "A" then s.mA else s.mB
      let (e, n') := n.deliver m
      let s1 := match m with
        | .revoke => diskStep s recv n .receiveRevocation
        | _ => s
      let s2 := if dir == "AB" then { s1 with qab := rest } else { s1 with qba := rest }
      if e.toString != impl then
        mismatch s2 s!"deliver {dir} {kind}: model={e.toString} impl={impl}"
      else pure (setNode s2 recv n')

/-- `R X pending=… => res`: node X alone is restarted (live object replaced by one rebuilt from
    its database), the transport keeps running.  Model: C02's `restore` on the modelled durable
    state.  The monitor goes on unchanged: the restarted node must behave like the old one. -/
def reloadLine (s : St) (ws : List String) : IO St := do
  let mut s ← flush s
  let node := ws[1]?.getD ""
  let impl := resOf ws
  s := readQ { s with ops := s.ops + 1, restarts := s.restarts + 1, dirty := [node],
                      restartsPending := s.restartsPending + (kvNat? ws "pending").getD 0 } ws
  s := { s with errKinds := bump s.errKinds ("restart_" ++ impl) }
  if impl != "ok" then
    s ← monitor s "internal-error" s!"node={node} restart => {impl}"
    return { s with dead := true, dirty := [] }
  if !s.modelOk then return s
  let n := if node == "A" then s.mA else s.mB
  let dk := if node == "A" then s.kA else s.kB
  match LndModel.C02.restore n.cfg dk with
  | .error e => mismatch s s!"node={node} model restore fails ({e.toString}), implementation restarts fine"
  | .ok n' => pure (setNode s node n')

def lastOf (ds : List CDump) : Option CDump := ds.getLast?

/-- `J X h= n= err= | T:…`: X has just signed; the second-level transactions the production code
    derives for its new remote commitment, each with the position of the HTLC signature that signs
    it.  Model: `signJobs` over `populate` on TxOrder's `commitSort` of the model's outputs. -/
def jobsLine (s : St) (ws : List String) : IO St := do
  let node := ws[1]?.getD ""
  let toks := ((ws.dropWhile (· ≠ "|")).drop 1).filterMap parseJobTok
  let nSigs := (kvNat? ws "n").getD 0
  let jq := toks.map fun t => (t.pos, t.digest)
  let mut s := if node == "A" then { s with jobsAB := s.jobsAB ++ [jq] } else { s with jobsBA := s.jobsBA ++ [jq] }
  if !s.modelOk then return s
  let n := if node == "A" then s.mA else s.mB
  let d := if node == "A" then s.dA else s.dB
  if (kv? ws "err").getD "" != "ok" then
    return (← mismatch s s!"node={node} second-level jobs: harness could not derive them")
  match lastOf (d.chainOf .rem) with
  | none => mismatch s s!"node={node} second-level jobs: no remote commitment dumped"
  | some cd =>
    let P := n.chainR.tip
    let idx := (populate (cd.raw.map rawTx) (Htlc.ht (oracle cd.raw) .rem) (fun _ => []) P.htlcs).getD (oidxOpt cd.oidx)
    let want := signJobs n.cfg P idx
    let got := (toks.mergeSort fun a b => a.pos ≤ b.pos)
    s := { s with secondChecked := s.secondChecked + got.length }
    let wantHT := if n.cfg.anchors then 131 else 1
    if got.map (·.tx) != want then
      mismatch s s!"node={node} h={P.height} second-level transactions in signature order: model={repr want} impl={repr (got.map (·.tx))}"
    else if nSigs != want.length || got.map (·.pos) != (List.range want.length).map Int.ofNat then
      mismatch s s!"node={node} h={P.height} htlc signature positions: {nSigs} signatures, jobs signed by positions {got.map (·.pos)}, model expects 0..{want.length}-1 in output order"
    else if got.any fun t => t.version != 2 || t.nIn != 1 || t.nOut != 1 || t.prevIndex != t.tx.outIndex || !t.prevHashOk || t.hashType != wantHT then
      mismatch s s!"node={node} h={P.height} second-level transaction shape (version 2, 1 input spending the HTLC output of this commitment, 1 output, sighash type {wantHT}): impl={repr got}"
    else pure s

/-- `V Y h= n= err= | K:… Q:…`: Y has just accepted a commitment_signed. -/
def verifyLine (s : St) (ws : List String) : IO St := do
  let node := ws[1]?.getD ""
  let toks := (ws.dropWhile (· ≠ "|")).drop 1
  let ks := toks.filterMap fun t => match t.splitOn ":" with
    | ["K", pos, dir, hi, oi] => some (pos.toInt?.getD (-2), dir == "i", hi.toNat?.getD 0, oi.toInt?.getD (-2))
    | _ => none
  let qs := toks.filterMap fun t => match t.splitOn ":" with
    | ["Q", pos, hi, dg] => some (pos.toNat?.getD 0, hi.toNat?.getD 0, dg)
    | _ => none
  let mut s := s
  -- monitor: both peers derive the identical second-level transaction for every signature
  if let some jq := s.curJobs then
    if (kv? ws "err").getD "" == "ok" then
      for (qpos, hi, dg) in qs do
        s := { s with digestsCompared := s.digestsCompared + 1 }
        match jq.find? (fun j => j.1 == Int.ofNat qpos) with
        | some (_, dj) =>
          if dj != dg then
            s ← monitor s "htlc-tx-identical" s!"node={node} htlc signature {qpos} (htlc index {hi}): the signer signed a second-level transaction with digest {dj}, the receiver derives {dg}"
        | none =>
          -- the harness found no signer job whose digest that signature verifies for: reported as a
          -- broken tie, not as a property violation (the pairing is the harness's own verification)
          s ← mismatch s s!"node={node} htlc signature {qpos} (htlc index {hi}): no signer job is signed by that signature"
  s := { s with curJobs := none }
  if !s.modelOk then return s
  let n := if node == "A" then s.mA else s.mB
  let d := if node == "A" then s.dA else s.dB
  if (kv? ws "err").getD "" != "ok" then
    return (← mismatch s s!"node={node} verification jobs: harness could not derive them")
  match lastOf (d.chainOf .loc) with
  | none => mismatch s s!"node={node} verification jobs: no local commitment dumped"
  | some cd =>
    let cm := n.chainL.tip
    let idx := (populate (cd.raw.map rawTx) (Htlc.ht (oracle cd.raw) .loc) (fun _ => []) cm.htlcs).getD (oidxOpt cd.oidx)
    let want := verifyJobs n.cfg cm idx cd.raw.length
    s := { s with verifyJobsChecked := s.verifyJobsChecked + want.length }
    let wantQ := want.zipIdx.map fun (j, i) => (i, j.1)
    let wantK := want.zipIdx.map fun (j, i) => (Int.ofNat i, j.2.1, j.1, Int.ofNat j.2.2.outIndex)
    let le4 (a b : Int × Bool × Nat × Int) : Bool := a.1 ≤ b.1
    if qs.map (fun q => (q.1, q.2.1)) != wantQ then
      mismatch s s!"node={node} h={cm.height} verification jobs (position, htlc index): model={repr wantQ} impl={repr (qs.map fun q => (q.1, q.2.1))}"
    else if ks.mergeSort le4 != wantK then
      mismatch s s!"node={node} h={cm.height} signatures stored with the HTLCs (sig position, incoming, htlc index, output index): model={repr wantK} impl={repr (ks.mergeSort le4)}"
    else pure s

def b01 (ws : List String) (k : String) : Bool := (kvNat? ws k).getD 0 == 1

def step (s : St) (line : String) : IO St := do
  let s := { s with lines := s.lines + 1 }
  let ws := words line
  match ws with
  | "FACT" :: rest =>
    let chk (s : St) (key : String) (v : Nat) : IO St :=
      if kvNat? rest key == some v then pure s
      else mismatch s s!"fact {key}: model={v} impl={(kv? rest key).getD "?"}"
    let s ← chk s "commitWeight" commitWeightLegacy
    let s ← chk s "anchorCommitWeight" commitWeightAnchor
    let s ← chk s "taprootCommitWeight" commitWeightTaproot
    let s ← chk s "htlcWeight" htlcWeight
    let s ← chk s "htlcTimeoutWeight" htlcTimeoutWeight
    let s ← chk s "htlcSuccessWeight" htlcSuccessWeight
    let s ← chk s "htlcTimeoutWeightConf" htlcTimeoutWeightConf
    let s ← chk s "htlcSuccessWeightConf" htlcSuccessWeightConf
    let s ← chk s "anchorSize" anchorSize
    chk s "feeFloor" feePerKwFloor
  | "CASE" :: id :: rest =>
    let openerA := b01 rest "openerA"
    let g (k : String) : Nat := (kvNat? rest k).getD 0
    let cfgA : Cfg :=
      { capacity := g "cap", initiator := openerA, anchors := b01 rest "anchors", zeroFee := b01 rest "zerofee",
        taproot := b01 rest "taproot", dustL := g "dustA", dustR := g "dustB", resL := g "resA", resR := g "resB",
        minL := g "minA", minR := g "minB", maxPendL := g "mpA", maxPendR := g "mpB",
        maxAccL := g "maA", maxAccR := g "maB" }
    let s := { s with caseId := id, cases := s.cases + 1, inited := false, modelOk := true, caseMismatch := 0,
                      caseMonitor := 0, cap := cfgA.capacity, anchors := cfgA.anchors, cfgA := cfgA,
                      qab := [], qba := [], dA := {}, dB := {}, cur := none, dirty := [], qlenAB := 0, qlenBA := 0,
                      dead := false, resolved := [], hist := [], snapAB := [], snapBA := [],
                      jobsAB := [], jobsBA := [], curJobs := none }
    if s.samples < 4 then
      IO.println s!"SAMPLE {line}"
      return { s with samples := s.samples + 1 }
    return s
  | ["END"] => flush s
  | "N" :: node :: rest =>
    let pend := ((kv? rest "pend").getD "").splitOn "," |>.map natD
    let d : NDump :=
      { ll := (kvNat? rest "ll").getD 0, lc := (kvNat? rest "lc").getD 0, rl := (kvNat? rest "rl").getD 0,
        rc := (kvNat? rest "rc").getD 0, owe := b01 rest "owe", need := b01 rest "need", pend := pend,
        lmod := parseSet ((kv? rest "lmod").getD "-"), rmod := parseSet ((kv? rest "rmod").getD "-"),
        seen := true }
    let s := if node == "A" then { s with dA := d } else { s with dB := d }
    return { s with cur := some node, dirty := if s.dirty.contains node then s.dirty else s.dirty ++ [node] }
  | "G" :: node :: side :: toks =>
    let es := toks.filterMap parseEntry
    let upd (d : NDump) : NDump := if side == "L" then { d with logL := es } else { d with logR := es }
    return if node == "A" then { s with dA := upd s.dA } else { s with dB := upd s.dB }
  | "C" :: node :: _ =>
    match parseCommit ws with
    | some c =>
      let upd (d : NDump) : NDump := { d with commits := d.commits ++ [c] }
      return if node == "A" then { s with dA := upd s.dA } else { s with dB := upd s.dB }
    | none => mismatch s s!"unparsed commitment line"
  | "D" :: _ => deliverLine s ws
  | "J" :: _ => jobsLine s ws
  | "V" :: _ => verifyLine s ws
  | "R" :: _ => reloadLine s ws
  | "A" :: _ => opLine s "A" ws
  | "B" :: _ => opLine s "B" ws
  | "HSTAT" :: kvs =>
    for w in kvs do IO.println s!"STAT h_{w}"
    return s
  | [] => return s
  | _ => mismatch s s!"unparsed line: {line.take 60}"

end LndModel.C01.Driver

open LndModel.C01.Driver in
def main (args : List String) : IO Unit := do
  let s ← LndModel.Lines.foldStdin step {}
  let s ← flush s
  -- bounded exhaustive exploration of the model's two-party system (not a proof; see Bounded.lean)
  let depth := (args.findSome? fun a => if a.startsWith "--bounded=" then (a.drop 10).toNat? else none).getD 0
  let depth := if depth > 0 && s.cases > 400 then depth + 2 else depth
  let s ← if depth == 0 then pure s else do
    let b := LndModel.C01.Bounded.run depth
    IO.println s!"STAT bounded_depth={depth}"
    IO.println s!"STAT bounded_states={b.states}"
    IO.println s!"STAT bounded_sig_deliveries={b.sigDeliveries}"
    IO.println s!"STAT bounded_idle_states={b.idleStates}"
    IO.println s!"STAT bounded_dead_branches={b.deadBranches}"
    IO.println s!"STAT bounded_failures={b.failures}"
    if b.failures > 0 then
      mismatch { s with caseId := "bounded", caseMismatch := 0 } s!"bounded exploration of the model's System: {b.firstFailure.getD ""}"
    else pure s
  IO.println s!"STAT lines={s.lines}"
  IO.println s!"STAT cases={s.cases}"
  IO.println s!"STAT evaluations={s.ops}"
  IO.println s!"STAT nontrivial={s.commitsChecked + s.sigsVerified + s.idleChecks}"
  IO.println s!"STAT commitments_checked={s.commitsChecked}"
  IO.println s!"STAT balance_moves_checked={s.balanceMoves}"
  IO.println s!"STAT signatures_made={s.signs}"
  IO.println s!"STAT signatures_verified={s.sigsVerified}"
  IO.println s!"STAT mirror_signed_checks={s.mirrorSigned}"
  IO.println s!"STAT log_agreement_checks={s.agreeChecks}"
  IO.println s!"STAT corrupted_signatures_delivered={s.badSigs}"
  IO.println s!"STAT restarts={s.restarts}"
  IO.println s!"STAT restarts_with_pending_commitment={s.restartsPending}"
  IO.println s!"STAT htlc_output_indices_checked={s.outIdxChecked}"
  IO.println s!"STAT second_level_txs_checked={s.secondChecked}"
  IO.println s!"STAT verify_jobs_checked={s.verifyJobsChecked}"
  IO.println s!"STAT second_level_digests_compared={s.digestsCompared}"
  IO.println s!"STAT idle_mirror_checks={s.idleChecks}"
  IO.println s!"STAT dust_htlcs_on_commitments={s.dustHtlcs}"
  IO.println s!"STAT nondust_htlcs_on_commitments={s.nondustHtlcs}"
  IO.println s!"STAT max_htlcs_on_a_commitment={s.maxHtlcsOnCommit}"
  for (k, v) in s.errKinds do
    IO.println s!"STAT result_{k}={v}"
  IO.println s!"STAT mismatches={s.mismatches}"
  IO.println s!"STAT monitor_failures={s.monitorFails}"
