/-
C01 — the capacity assertion of `createUnsignedCommitmentTx` is a consequence of
conservation: it can never fire in a reachable state.
-/
import LndModel.C01.Inv3
import LndModel.C01.Mirror
set_option linter.unusedSimpArgs false

namespace LndModel.C01

theorem outsTotal_append (a b : List Out) : outsTotal (a ++ b) = outsTotal a + outsTotal b := by
  unfold outsTotal; exact sumBy_append _ _ _

theorem htlcOuts_le (k : OKind) (hs : List Htlc) : 1000 * outsTotal (htlcOuts k hs) ≤ sumBy Htlc.amt hs := by
  unfold htlcOuts outsTotal
  induction hs with
  | nil => simp [sumBy]
  | cons h t ih =>
    simp only [List.filter]
    cases h.dust
    · simp only [Bool.not_false, List.map_cons, sumBy]; omega
    · simp only [Bool.not_true, sumBy]; omega

/-- the outputs of a commitment transaction never exceed what they are made from. -/
theorem buildOuts_le (cfg : Cfg) (d x y : Nat) (off rcv : List Htlc) :
    1000 * outsTotal (buildOuts cfg d x y off rcv) ≤
      x + y + anchorsMsat cfg + sumBy Htlc.amt off + sumBy Htlc.amt rcv := by
  unfold buildOuts
  simp only [outsTotal_append]
  have h1 := htlcOuts_le .offered off
  have h2 := htlcOuts_le .received rcv
  have hA : ∀ (b : Bool) (v : Nat), 1000 * outsTotal (if b then [(⟨v / 1000, .toLocal, 0, 0⟩ : Out)] else []) ≤ v := by
    intro b v; cases b <;> simp [outsTotal, sumBy]; omega
  have hB : ∀ (b : Bool) (v : Nat), 1000 * outsTotal (if b then [(⟨v / 1000, .toRemote, 0, 0⟩ : Out)] else []) ≤ v := by
    intro b v; cases b <;> simp [outsTotal, sumBy]; omega
  have hC : ∀ (b : Bool) (k : OKind), 1000 * outsTotal (if cfg.anchors && b then [(⟨anchorSize, k, 0, 0⟩ : Out)] else []) ≤
      anchorsMsat cfg / 2 := by
    intro b k
    unfold anchorsMsat anchorSize
    cases cfg.anchors <;> cases b <;> simp [outsTotal, sumBy, anchorSize]
  have a1 := hA (decide (x / 1000 ≥ d)) x
  have a2 := hB (decide (y / 1000 ≥ d)) y
  have a3 := hC (decide (x / 1000 ≥ d) || decide ((off.filter (fun h => !h.dust)).length + (rcv.filter (fun h => !h.dust)).length > 0)) .anchorLocal
  have a4 := hC (decide (y / 1000 ≥ d) || decide ((off.filter (fun h => !h.dust)).length + (rcv.filter (fun h => !h.dust)).length > 0)) .anchorRemote
  have : anchorsMsat cfg / 2 + anchorsMsat cfg / 2 ≤ anchorsMsat cfg := by omega
  omega


/-- what an evaluated view distributes is exactly the channel capacity (before the fee is taken
    from the opener): balances + live HTLCs (+ anchors) = capacity. -/
theorem view_total {n : Node} {c : Chain} {iL iR : Nat} {r : ViewResult}
    (hLL : LogOK n.logL n.logR) (hLR : LogOK n.logR n.logL)
    (covL : ∀ e ∈ n.logL.entries, e.onChain c = true → e.logIndex < iL)
    (covR : ∀ e ∈ n.logR.entries, e.onChain c = true → e.logIndex < iR)
    (j1 : J1 n c)
    (hcv : computeView n c (viewOf n.logL iL) (viewOf n.logR iR) = .ok r) :
    r.our + r.their + sumBy Entry.amt r.liveL + sumBy Entry.amt r.liveR + anchorsMsat n.cfg =
      1000 * n.cfg.capacity := by
  have vf := computeView_ok hcv
  have hh : (n.chain c).tip.height + 1 ≠ 0 := by omega
  have dL : addDebit c r.liveL = newlyAdded c iL n.logL.entries := by
    rw [vf.liveL]; exact debit_eq iL hLL.uniq vf.pR
  have dR : addDebit c r.liveR = newlyAdded c iR n.logR.entries := by
    rw [vf.liveR]; exact debit_eq iR hLR.uniq vf.pL
  have cL := credit_eq c n.logL.entries iL
  have cR := credit_eq c n.logR.entries iR
  have aL := addsOn_commitLog_same c ((n.chain c).tip.height + 1) iL hh n.logL.entries
  have aR := addsOn_commitLog_same c ((n.chain c).tip.height + 1) iR hh n.logR.entries
  have rL := resOn_commitLog_same c ((n.chain c).tip.height + 1) iL hh n.logL.entries
  have rR := resOn_commitLog_same c ((n.chain c).tip.height + 1) iR hh n.logR.entries
  have aL' := addsOn_after (c := c) (E := n.logL.entries) (h := (n.chain c).tip.height + 1) iL hh
    (fun e he ha h0 => covL e he (by simp [Entry.onChain, h0]))
  have aR' := addsOn_after (c := c) (E := n.logR.entries) (h := (n.chain c).tip.height + 1) iR hh
    (fun e he ha h0 => covR e he (by simp [Entry.onChain, h0]))
  have rL' := resOn_after (c := c) (E := n.logL.entries) (h := (n.chain c).tip.height + 1) iL hh
    (fun e he ha h0 => covL e he (by simp [Entry.onChain, h0]))
  have rR' := resOn_after (c := c) (E := n.logR.entries) (h := (n.chain c).tip.height + 1) iR hh
    (fun e he ha h0 => covR e he (by simp [Entry.onChain, h0]))
  have vbL := view_balance (v := viewOf n.logL iL) (rs := resolutions (viewOf n.logR iR))
    (uniqueAdds_filter _ hLL.uniq) (nodup_parents_view iR hLR.resPar)
    (parents_in_view hLR hLL covL vf.pR)
  have vbR := view_balance (v := viewOf n.logR iR) (rs := resolutions (viewOf n.logL iL))
    (uniqueAdds_filter _ hLR.uniq) (nodup_parents_view iL hLL.resPar)
    (parents_in_view hLL hLR covR vf.pL)
  have hour := vf.our
  have htheir := vf.their
  rw [vf.liveL, vf.liveR]
  unfold J1 at j1
  rw [addsOn_append, resOn_append] at j1
  unfold newlyAdded at dL dR
  unfold viewOf at hour htheir
  unfold adds viewOf resolutions at vbL vbR
  simp only [List.filter_filter] at vbL vbR
  have e1 : sumBy Entry.amt (n.logL.entries.filter (fun e => e.isAdd && decide (e.logIndex < iL))) =
      sumBy Entry.amt (n.logL.entries.filter (fun e => decide (e.logIndex < iL) && e.isAdd)) :=
    sumBy_filter_congr _ _ _ _ (fun e _ => Bool.and_comm _ _)
  have e2 : sumBy Entry.amt (n.logR.entries.filter (fun e => e.isAdd && decide (e.logIndex < iR))) =
      sumBy Entry.amt (n.logR.entries.filter (fun e => decide (e.logIndex < iR) && e.isAdd)) :=
    sumBy_filter_congr _ _ _ _ (fun e _ => Bool.and_comm _ _)
  have e3 : sumBy Entry.amt (n.logL.entries.filter (fun e => e.isRes && decide (e.logIndex < iL))) =
      sumBy Entry.amt (n.logL.entries.filter (fun e => decide (e.logIndex < iL) && e.isRes)) :=
    sumBy_filter_congr _ _ _ _ (fun e _ => Bool.and_comm _ _)
  have e4 : sumBy Entry.amt (n.logR.entries.filter (fun e => e.isRes && decide (e.logIndex < iR))) =
      sumBy Entry.amt (n.logR.entries.filter (fun e => decide (e.logIndex < iR) && e.isRes)) :=
    sumBy_filter_congr _ _ _ _ (fun e _ => Bool.and_comm _ _)
  unfold viewOf resolutions
  simp only [List.filter_filter]
  cases hi : n.cfg.initiator <;> simp only [hi, Bool.false_eq_true, if_true, if_false] at hour htheir <;> omega

/-- the capacity assertion of `createUnsignedCommitmentTx` can never fire when the evaluated
    view distributes exactly the capacity and the opener can pay the fee. -/
theorem buildCommit_not_overCapacity {cfg : Cfg} {c : Chain} {tip : Commit} {r : ViewResult} {a b d e : Nat}
    (hw : r.weight = commitWeight cfg + htlcWeight *
      (countNonDust cfg false c r.feePerKw r.liveL + countNonDust cfg true c r.feePerKw r.liveR))
    (hpaid : (cfg.initiator = true → 1000 * feeForWeight r.feePerKw r.weight < r.our) ∧
             (cfg.initiator = false → 1000 * feeForWeight r.feePerKw r.weight < r.their))
    (htot : r.our + r.their + sumBy Entry.amt r.liveL + sumBy Entry.amt r.liveR + anchorsMsat cfg =
      1000 * cfg.capacity) :
    buildCommit cfg c tip r a b d e ≠ .error .overCapacity := by
  unfold buildCommit
  simp only [nonDust_count]
  rw [← hw]
  generalize hfee : feeForWeight r.feePerKw r.weight = fee at hpaid
  intro h
  have key : ∀ (x y : Nat), x + y + 1000 * fee = r.our + r.their →
      outsTotal (commitOuts cfg c x y (r.liveL.map (htlcOf cfg false c r.feePerKw))
        (r.liveR.map (htlcOf cfg true c r.feePerKw))) + fee ≤ cfg.capacity := by
    intro x y hxy
    have s1 := htlcTotal_map cfg false c r.feePerKw r.liveL
    have s2 := htlcTotal_map cfg true c r.feePerKw r.liveR
    cases c
    · have := buildOuts_le cfg cfg.dustL x y (r.liveL.map (htlcOf cfg false .loc r.feePerKw))
        (r.liveR.map (htlcOf cfg true .loc r.feePerKw))
      simp only [commitOuts]; omega
    · have := buildOuts_le cfg cfg.dustR y x (r.liveR.map (htlcOf cfg true .rem r.feePerKw))
        (r.liveL.map (htlcOf cfg false .rem r.feePerKw))
      simp only [commitOuts]; omega
  cases hi : cfg.initiator
  · have hp := hpaid.2 hi
    have hnc : ¬ fee > r.their / 1000 := by omega
    simp only [hi, Bool.false_eq_true, if_false, hnc] at h
    have hk := key r.our (r.their - 1000 * fee) (by omega)
    split at h
    · cases h
    · split at h
      · omega
      · cases h
  · have hp := hpaid.1 hi
    have hnc : ¬ fee > r.our / 1000 := by omega
    simp only [hi, if_true, hnc, if_false] at h
    have hk := key (r.our - 1000 * fee) r.their (by omega)
    split at h
    · cases h
    · split at h
      · omega
      · cases h

/-- error classes `validateCommitmentSanity` can answer with. -/
def Err.isSanityClass : Err → Bool
  | .ok | .belowReserve | .feeFloor | .invalidAmt | .belowMin | .maxPending | .maxHtlcs | .parent => true
  | _ => false

theorem computeView_err_class {n : Node} {c : Chain} {vL vR : List Entry} {e : Err}
    (h : computeView n c vL vR = .error e) : e.isSanityClass = true := by
  unfold computeView at h
  simp only at h
  generalize (n.chain c).tip.our + (if n.cfg.initiator then 1000 * (n.chain c).tip.fee else 0) = our0 at h
  generalize (n.chain c).tip.their + (if n.cfg.initiator then 0 else 1000 * (n.chain c).tip.fee) = their0 at h
  generalize viewFeePerKw (if n.cfg.initiator = true then vL else vR) (n.chain c).tip.feePerKw = f at h
  split at h
  · cases h; rfl
  · split at h
    · cases h; rfl
    · split at h
      · cases h; rfl
      · cases h

theorem validateUpdates_class (l : List Entry) (a b c : Nat) : (validateUpdates l a b c).isSanityClass = true := by
  unfold validateUpdates
  split
  · split <;> rfl
  · split
    · rfl
    · split <;> rfl

theorem sanityOfView_class (n : Node) (c : Chain) (b : Buffer) (r : ViewResult) :
    (sanityOfView n c b r).isSanityClass = true := by
  unfold sanityOfView
  simp only
  by_cases hf : r.feePerKw < feePerKwFloor
  · simp [hf, Err.isSanityClass]
  · simp only [hf, if_false]
    generalize (if n.cfg.initiator = true then applyCommitFee r.our r.weight r.feePerKw b
      else applyCommitFee r.their r.weight r.feePerKw Buffer.none) = paid
    cases paid with
    | none => rfl
    | some bal =>
      simp only
      generalize (if n.cfg.initiator = true then bal else r.our) = our
      generalize (if n.cfg.initiator = true then r.their else bal) = their
      by_cases h1 : our < (n.chain c).tip.our ∧ our < 1000 * n.cfg.resL
      · simp [h1, Err.isSanityClass]
      · simp only [h1, if_false]
        by_cases h2 : their < (n.chain c).tip.their ∧ their < 1000 * n.cfg.resR
        · simp [h2, Err.isSanityClass]
        · simp only [h2, if_false]
          split
          · exact validateUpdates_class _ _ _ _
          · exact validateUpdates_class _ _ _ _

theorem sanity_class (n : Node) (i j : Nat) (c : Chain) (b : Buffer) (p q : List Entry) :
    (sanity n i j c b p q).isSanityClass = true := by
  unfold sanity
  split
  · rename_i h; exact computeView_err_class h
  · exact sanityOfView_class _ _ _ _

/-- with the invariant, a commitment that passed the sanity check is never refused by the
    capacity assertion. -/
theorem fetch_not_overCapacity {n : Node} {c : Chain} {iL hL iR hR : Nat}
    (hLL : LogOK n.logL n.logR) (hLR : LogOK n.logR n.logL)
    (covL : ∀ e ∈ n.logL.entries, e.onChain c = true → e.logIndex < iL)
    (covR : ∀ e ∈ n.logR.entries, e.onChain c = true → e.logIndex < iR)
    (j1 : J1 n c) (hs : sanity n iR iL c .none [] [] = .ok) :
    fetchCommitmentView n c iL hL iR hR ≠ .error .overCapacity := by
  unfold sanity at hs
  simp only [List.append_nil] at hs
  unfold fetchCommitmentView
  cases hcv : computeView n c (viewOf n.logL iL) (viewOf n.logR iR) with
  | error e =>
    simp only [hcv] at hs
    exact absurd hs (computeView_err hcv)
  | ok r =>
    simp only [hcv] at hs ⊢
    have vf := computeView_ok hcv
    have paid := sanityOfView_fee_paid hs
    have tot := view_total hLL hLR covL covR j1 hcv
    have := buildCommit_not_overCapacity (tip := (n.chain c).tip) (a := iL) (b := hL) (d := iR) (e := hR)
      vf.weight paid tot
    cases hbc : buildCommit n.cfg c (n.chain c).tip r iL hL iR hR with
    | error e =>
      simp only
      intro h
      simp only [Except.error.injEq] at h
      subst h
      exact this hbc
    | ok cm => simp

end LndModel.C01
