/-
C01 — the inductive invariant of the commitment state machine and its
preservation by `fetchCommitmentView` (the step that creates a commitment).
-/
import LndModel.C01.Lemmas
set_option linter.unusedSimpArgs false

namespace LndModel.C01

/-! ### view sums -/

theorem debit_eq {c : Chain} {E rs : List Entry} (i : Nat) (hu : UniqueAdds E)
    (hp : parentsOk c E rs = true) :
    addDebit c (liveAdds (E.filter (fun e => decide (e.logIndex < i))) rs) =
      sumBy Entry.amt (E.filter (fun e => decide (e.logIndex < i) && e.isAdd && e.addH c == 0)) := by
  unfold addDebit liveAdds
  simp only [List.filter_filter]
  apply sumBy_filter_congr
  intro e he
  by_cases h1 : e.logIndex < i <;> by_cases h2 : e.isAdd = true <;> by_cases h3 : e.addH c = 0 <;>
    simp [h1, h2, h3]
  have := live_of_uncommitted hu (fun _ h => h) hp e he h2 h3
  simpa using this

theorem credit_eq (c : Chain) (E : List Entry) (i : Nat) :
    settleCredit c (resolutions (E.filter (fun e => decide (e.logIndex < i)))) +
      failCredit c (resolutions (E.filter (fun e => decide (e.logIndex < i)))) =
      sumBy Entry.amt (E.filter (fun e => decide (e.logIndex < i) && e.isRes && e.rmvH c == 0)) := by
  unfold settleCredit failCredit resolutions
  simp only [List.filter_filter]
  rw [sumBy_filter_split Entry.amt (fun e => e.ty == .settle)
    (E.filter (fun e => decide (e.logIndex < i) && e.isRes && e.rmvH c == 0))]
  simp only [List.filter_filter]
  congr 1
  · apply sumBy_filter_congr
    intro e _
    cases h1 : decide (e.logIndex < i) <;> cases h2 : e.isRes <;> cases h3 : (e.ty == ETy.settle) <;> simp
  · apply sumBy_filter_congr
    intro e _
    cases h1 : decide (e.logIndex < i) <;> cases h2 : e.isRes <;> cases h3 : (e.ty == ETy.settle) <;> simp [bne, h3]

theorem addsOn_after {c : Chain} {E : List Entry} {h : Nat} (i : Nat) (hh : h ≠ 0)
    (cov : ∀ e ∈ E, e.isAdd = true → e.addH c ≠ 0 → e.logIndex < i) :
    addsOn c (commitLog c h i E) = sumBy Entry.amt (E.filter (fun e => decide (e.logIndex < i) && e.isAdd)) := by
  rw [addsOn_commitLog_same c h i hh]
  rw [sumBy_filter_split Entry.amt (fun e => e.addH c == 0) (E.filter (fun e => decide (e.logIndex < i) && e.isAdd))]
  simp only [List.filter_filter]
  have h1 : addsOn c E = sumBy Entry.amt (E.filter (fun e => (!(e.addH c == 0)) && (decide (e.logIndex < i) && e.isAdd))) := by
    unfold addsOn
    apply sumBy_filter_congr
    intro e he
    by_cases ha : e.isAdd = true <;> by_cases h0 : e.addH c = 0 <;> simp [ha, h0, bne]
    exact cov e he ha h0
  have h2 : sumBy Entry.amt (E.filter (fun e => decide (e.logIndex < i) && e.isAdd && e.addH c == 0)) =
      sumBy Entry.amt (E.filter (fun e => (e.addH c == 0) && (decide (e.logIndex < i) && e.isAdd))) := by
    apply sumBy_filter_congr
    intro e _
    cases decide (e.logIndex < i) <;> cases e.isAdd <;> cases (e.addH c == 0) <;> rfl
  omega

theorem resOn_after {c : Chain} {E : List Entry} {h : Nat} (i : Nat) (hh : h ≠ 0)
    (cov : ∀ e ∈ E, e.isRes = true → e.rmvH c ≠ 0 → e.logIndex < i) :
    resOn c (commitLog c h i E) = sumBy Entry.amt (E.filter (fun e => decide (e.logIndex < i) && e.isRes)) := by
  rw [resOn_commitLog_same c h i hh]
  rw [sumBy_filter_split Entry.amt (fun e => e.rmvH c == 0) (E.filter (fun e => decide (e.logIndex < i) && e.isRes))]
  simp only [List.filter_filter]
  have h1 : resOn c E = sumBy Entry.amt (E.filter (fun e => (!(e.rmvH c == 0)) && (decide (e.logIndex < i) && e.isRes))) := by
    unfold resOn
    apply sumBy_filter_congr
    intro e he
    by_cases ha : e.isRes = true <;> by_cases h0 : e.rmvH c = 0 <;> simp [ha, h0, bne]
    exact cov e he ha h0
  have h2 : sumBy Entry.amt (E.filter (fun e => decide (e.logIndex < i) && e.isRes && e.rmvH c == 0)) =
      sumBy Entry.amt (E.filter (fun e => (e.rmvH c == 0) && (decide (e.logIndex < i) && e.isRes))) := by
    apply sumBy_filter_congr
    intro e _
    cases decide (e.logIndex < i) <;> cases e.isRes <;> cases (e.rmvH c == 0) <;> rfl
  omega

theorem uniqueAdds_filter {E : List Entry} (p : Entry → Bool) (hu : UniqueAdds E) : UniqueAdds (E.filter p) := by
  unfold UniqueAdds adds at *
  have : (List.filter Entry.isAdd (List.filter p E)).Sublist (List.filter Entry.isAdd E) :=
    List.Sublist.filter _ List.filter_sublist
  exact List.Nodup.sublist (List.Sublist.map _ this) hu

/-- the adds of a view split into the live ones and the ones removed by `rs`, whose total is `rs`'s. -/
theorem view_balance {v rs : List Entry} (hu : UniqueAdds v) (hR : (rs.map Entry.parent).Nodup)
    (hP : ∀ r ∈ rs, ∃ a ∈ v, a.isAdd = true ∧ a.htlcIndex = r.parent ∧ a.amt = r.amt) :
    sumBy Entry.amt (adds v) = sumBy Entry.amt (liveAdds v rs) + sumBy Entry.amt rs := by
  rw [sumBy_filter_split Entry.amt (fun a => (rs.map Entry.parent).contains a.htlcIndex) (adds v)]
  rw [sum_skipped (adds v) rs hu hR (by
    intro r hr
    obtain ⟨a, ha, hadd, hi, hamt⟩ := hP r hr
    exact ⟨a, List.mem_filter.mpr ⟨ha, hadd⟩, hi, hamt⟩)]
  have : liveAdds v rs = (adds v).filter (fun a => !(rs.map Entry.parent).contains a.htlcIndex) := by
    unfold liveAdds adds
    rw [List.filter_filter]
    apply List.filter_congr
    intro e _
    cases e.isAdd <;> simp
  rw [this]; omega

/-! ### the commitment-creating step -/

/-- the conservation identity of one commitment, to the millisatoshi. -/
def Conserved (cfg : Cfg) (cm : Commit) : Prop :=
  cm.our + cm.their + htlcTotal cm + 1000 * cm.fee + anchorsMsat cfg = 1000 * cfg.capacity

/-- well-formedness of one update log w.r.t. the other one. -/
structure LogOK (own other : Log) : Prop where
  idxBound : ∀ e ∈ own.entries, e.logIndex < own.logIndex
  uniq : UniqueAdds own.entries
  addLt : ∀ e ∈ own.entries, e.isAdd = true → e.htlcIndex < own.htlcCounter
  resPar : ((resolutions own.entries).map Entry.parent).Nodup
  resMod : ∀ r ∈ own.entries, r.isRes = true → r.parent ∈ other.modified
  resAdd : ∀ r ∈ own.entries, r.isRes = true → ∃ a ∈ other.entries, a.isAdd = true ∧
    a.htlcIndex = r.parent ∧ a.amt = r.amt ∧ ∀ c, r.rmvH c ≠ 0 → a.addH c ≠ 0

/-- balance equation of the tip of chain `c` against the logs. -/
def J1 (n : Node) (c : Chain) : Prop :=
  (n.chain c).tip.our + (n.chain c).tip.their + 1000 * (n.chain c).tip.fee + anchorsMsat n.cfg +
    addsOn c (n.logL.entries ++ n.logR.entries) =
  1000 * n.cfg.capacity + resOn c (n.logL.entries ++ n.logR.entries)

def newlyAdded (c : Chain) (i : Nat) (E : List Entry) : Nat :=
  sumBy Entry.amt (E.filter (fun e => decide (e.logIndex < i) && e.isAdd && e.addH c == 0))
def newlyResolved (c : Chain) (i : Nat) (E : List Entry) : Nat :=
  sumBy Entry.amt (E.filter (fun e => decide (e.logIndex < i) && e.isRes && e.rmvH c == 0))

structure FetchFacts (n : Node) (c : Chain) (iL hL iR hR : Nat) (cm : Commit) (n' : Node) : Prop where
  node : n' = { n with
    logL := { n.logL with entries := commitLog c ((n.chain c).tip.height + 1) iL n.logL.entries },
    logR := { n.logR with entries := commitLog c ((n.chain c).tip.height + 1) iR n.logR.entries } }
  height : cm.height = (n.chain c).tip.height + 1
  idx : cm.ourMsg = iL ∧ cm.theirMsg = iR ∧ cm.ourHtlc = hL ∧ cm.theirHtlc = hR
  j1 : cm.our + cm.their + 1000 * cm.fee + anchorsMsat n.cfg +
      addsOn c (n'.logL.entries ++ n'.logR.entries) =
    1000 * n.cfg.capacity + resOn c (n'.logL.entries ++ n'.logR.entries)
  cons : Conserved n.cfg cm
  cap : outsTotal cm.outs + cm.fee ≤ n.cfg.capacity
  pL : parentsOk c n.logR.entries (resolutions (viewOf n.logL iL)) = true
  pR : parentsOk c n.logL.entries (resolutions (viewOf n.logR iR)) = true
  /-- balance moves: fee added back to the opener, a balance changes by exactly the HTLCs
      newly added by that party, the settles it made and the fails the other party made. -/
  ourMove : cm.our + (if n.cfg.initiator then 1000 * cm.fee else 0) + newlyAdded c iL n.logL.entries =
    (n.chain c).tip.our + (if n.cfg.initiator then 1000 * (n.chain c).tip.fee else 0) +
      (settleCredit c (resolutions (viewOf n.logL iL)) + failCredit c (resolutions (viewOf n.logR iR)))
  theirMove : cm.their + (if n.cfg.initiator then 0 else 1000 * cm.fee) + newlyAdded c iR n.logR.entries =
    (n.chain c).tip.their + (if n.cfg.initiator then 0 else 1000 * (n.chain c).tip.fee) +
      (settleCredit c (resolutions (viewOf n.logR iR)) + failCredit c (resolutions (viewOf n.logL iL)))

theorem nodup_parents_view {E : List Entry} (i : Nat) (h : ((resolutions E).map Entry.parent).Nodup) :
    ((resolutions (E.filter (fun e => decide (e.logIndex < i)))).map Entry.parent).Nodup := by
  unfold resolutions at *
  have : (List.filter Entry.isRes (List.filter (fun e => decide (e.logIndex < i)) E)).Sublist
      (List.filter Entry.isRes E) := List.Sublist.filter _ List.filter_sublist
  exact List.Nodup.sublist (List.Sublist.map _ this) h

/-- parents of the resolutions in a view are adds inside the other party's view. -/
theorem parents_in_view {c : Chain} {own other : Log} {iOwn iOther : Nat}
    (hOwn : LogOK own other) (hOther : LogOK other own)
    (cov : ∀ e ∈ other.entries, e.onChain c = true → e.logIndex < iOther)
    (hp : parentsOk c other.entries (resolutions (viewOf own iOwn)) = true) :
    ∀ r ∈ resolutions (viewOf own iOwn), ∃ a ∈ viewOf other iOther,
      a.isAdd = true ∧ a.htlcIndex = r.parent ∧ a.amt = r.amt := by
  intro r hr
  have hr' := List.mem_filter.mp hr
  have hr'' := List.mem_filter.mp hr'.1
  obtain ⟨a, ha, hadd, hi, hamt, _⟩ := hOwn.resAdd r hr''.1 hr'.2
  obtain ⟨a', hl, hne⟩ := parentsOk_spec hp hr
  have : a' = a := lookupHtlc_unique hOther.uniq hl ha hadd hi
  subst this
  refine ⟨a', ?_, hadd, hi, hamt⟩
  apply List.mem_filter.mpr
  refine ⟨ha, ?_⟩
  have := cov a' ha (by simp [Entry.onChain, hne])
  simpa using this

theorem fetch_step {n : Node} {c : Chain} {iL hL iR hR : Nat} {cm : Commit} {n' : Node}
    (hLL : LogOK n.logL n.logR) (hLR : LogOK n.logR n.logL)
    (covL : ∀ e ∈ n.logL.entries, e.onChain c = true → e.logIndex < iL)
    (covR : ∀ e ∈ n.logR.entries, e.onChain c = true → e.logIndex < iR)
    (j1 : J1 n c)
    (hs : sanity n iR iL c .none [] [] = .ok)
    (hf : fetchCommitmentView n c iL hL iR hR = .ok (cm, n')) :
    FetchFacts n c iL hL iR hR cm n' := by
  unfold sanity at hs
  simp only [List.append_nil] at hs
  unfold fetchCommitmentView at hf
  cases hcv : computeView n c (viewOf n.logL iL) (viewOf n.logR iR) with
  | error e => simp [hcv] at hf
  | ok r =>
    simp only [hcv] at hs hf
    have vf := computeView_ok hcv
    have paid := sanityOfView_fee_paid hs
    cases hbc : buildCommit n.cfg c (n.chain c).tip r iL hL iR hR with
    | error e => simp [hbc] at hf
    | ok cm' =>
      simp only [hbc, Except.ok.injEq, Prod.mk.injEq] at hf
      obtain ⟨rfl, rfl⟩ := hf
      have cf := buildCommit_ok vf.weight paid hbc
      have hidx := cf.idx
      have hh : (n.chain c).tip.height + 1 ≠ 0 := by omega
      -- debits / credits in terms of the log
      have dL : addDebit c r.liveL = newlyAdded c iL n.logL.entries := by
        rw [vf.liveL]; exact debit_eq iL hLL.uniq vf.pR
      have dR : addDebit c r.liveR = newlyAdded c iR n.logR.entries := by
        rw [vf.liveR]; exact debit_eq iR hLR.uniq vf.pL
      have cL := credit_eq c n.logL.entries iL
      have cR := credit_eq c n.logR.entries iR
      have aL := addsOn_commitLog_same c ((n.chain c).tip.height + 1) iL hh n.logL.entries
      have aR := addsOn_commitLog_same c ((n.chain c).tip.height + 1) iR hh n.logR.entries
      have rL := resOn_commitLog_same c ((n.chain c).tip.height + 1) iL hh n.logL.entries
      have rR := resOn_commitLog_same c ((n.chain c).tip.height + 1) iR hh n.logR.entries
      have hour := vf.our
      have htheir := vf.their
      have hbal := cf.bal
      have hj1 : cm'.our + cm'.their + 1000 * cm'.fee + anchorsMsat n.cfg +
          addsOn c (commitLog c ((n.chain c).tip.height + 1) iL n.logL.entries ++
                    commitLog c ((n.chain c).tip.height + 1) iR n.logR.entries) =
          1000 * n.cfg.capacity +
          resOn c (commitLog c ((n.chain c).tip.height + 1) iL n.logL.entries ++
                   commitLog c ((n.chain c).tip.height + 1) iR n.logR.entries) := by
        unfold J1 at j1
        rw [addsOn_append, resOn_append] at j1 ⊢
        unfold newlyAdded at dL dR
        unfold viewOf at hour htheir
        cases hi : n.cfg.initiator <;> simp only [hi, Bool.false_eq_true, if_true, if_false] at hour htheir <;> omega
      -- J2': htlc total of the new commitment against the updated logs
      have aL' := addsOn_after (c := c) (E := n.logL.entries) (h := (n.chain c).tip.height + 1) iL hh
        (fun e he ha h0 => covL e he (by simp [Entry.onChain, h0]))
      have aR' := addsOn_after (c := c) (E := n.logR.entries) (h := (n.chain c).tip.height + 1) iR hh
        (fun e he ha h0 => covR e he (by simp [Entry.onChain, h0]))
      have rL' := resOn_after (c := c) (E := n.logL.entries) (h := (n.chain c).tip.height + 1) iL hh
        (fun e he ha h0 => covL e he (by simp [Entry.onChain, h0]))
      have rR' := resOn_after (c := c) (E := n.logR.entries) (h := (n.chain c).tip.height + 1) iR hh
        (fun e he ha h0 => covR e he (by simp [Entry.onChain, h0]))
      have vbL := view_balance (v := viewOf n.logL iL) (rs := resolutions (viewOf n.logR iR))
        (uniqueAdds_filter _ hLL.uniq) (nodup_parents_view iR hLR.resPar)
        (parents_in_view hLR hLL covL vf.pR)
      have vbR := view_balance (v := viewOf n.logR iR) (rs := resolutions (viewOf n.logL iL))
        (uniqueAdds_filter _ hLR.uniq) (nodup_parents_view iL hLL.resPar)
        (parents_in_view hLL hLR covR vf.pL)
      have hcons : Conserved n.cfg cm' := by
        unfold Conserved
        have hht := cf.htlcs
        rw [vf.liveL, vf.liveR] at hht
        rw [addsOn_append, resOn_append] at hj1
        unfold adds viewOf resolutions at vbL vbR
        simp only [List.filter_filter] at vbL vbR
        have e1 : sumBy Entry.amt (n.logL.entries.filter (fun e => e.isAdd && decide (e.logIndex < iL))) =
            sumBy Entry.amt (n.logL.entries.filter (fun e => decide (e.logIndex < iL) && e.isAdd)) :=
          sumBy_filter_congr _ _ _ _ (fun e _ => Bool.and_comm _ _)
        have e2 : sumBy Entry.amt (n.logR.entries.filter (fun e => e.isAdd && decide (e.logIndex < iR))) =
            sumBy Entry.amt (n.logR.entries.filter (fun e => decide (e.logIndex < iR) && e.isAdd)) :=
          sumBy_filter_congr _ _ _ _ (fun e _ => Bool.and_comm _ _)
        have e3 : sumBy Entry.amt (n.logL.entries.filter (fun e => e.isRes && decide (e.logIndex < iL))) =
            sumBy Entry.amt (n.logL.entries.filter (fun e => decide (e.logIndex < iL) && e.isRes)) :=
          sumBy_filter_congr _ _ _ _ (fun e _ => Bool.and_comm _ _)
        have e4 : sumBy Entry.amt (n.logR.entries.filter (fun e => e.isRes && decide (e.logIndex < iR))) =
            sumBy Entry.amt (n.logR.entries.filter (fun e => decide (e.logIndex < iR) && e.isRes)) :=
          sumBy_filter_congr _ _ _ _ (fun e _ => Bool.and_comm _ _)
        unfold viewOf resolutions at hht
        simp only [List.filter_filter] at hht
        omega
      refine ⟨rfl, cf.height, hidx, hj1, hcons, cf.cap, vf.pL, vf.pR, ?_, ?_⟩
      · have := cf.our; rw [← dL]; omega
      · have := cf.their; rw [← dR]; omega

/-! ### `commitLog` and log well-formedness -/

/-- the per-entry map of `commitLog`. -/
def cm1 (c : Chain) (h i : Nat) (e : Entry) : Entry := if e.logIndex < i then e.commitAt c h else e

theorem commitLog_eq (c : Chain) (h i : Nat) (E : List Entry) : commitLog c h i E = E.map (cm1 c h i) := rfl

section cm1
variable (c : Chain) (h i : Nat) (e : Entry)
@[simp] theorem cm1_ty : (cm1 c h i e).ty = e.ty := by unfold cm1; split <;> simp
@[simp] theorem cm1_amt : (cm1 c h i e).amt = e.amt := by unfold cm1; split <;> simp
@[simp] theorem cm1_logIndex : (cm1 c h i e).logIndex = e.logIndex := by unfold cm1; split <;> simp
@[simp] theorem cm1_htlcIndex : (cm1 c h i e).htlcIndex = e.htlcIndex := by unfold cm1; split <;> simp
@[simp] theorem cm1_parent : (cm1 c h i e).parent = e.parent := by unfold cm1; split <;> simp
@[simp] theorem cm1_isAdd : (cm1 c h i e).isAdd = e.isAdd := by simp [Entry.isAdd]
@[simp] theorem cm1_isRes : (cm1 c h i e).isRes = e.isRes := by simp [Entry.isRes]
@[simp] theorem cm1_isFee : (cm1 c h i e).isFee = e.isFee := by simp [Entry.isFee]
end cm1

theorem commitAt_heights (c c' : Chain) (h : Nat) (e : Entry) :
    ((e.commitAt c h).addH c' = e.addH c' ∨ (c' = c ∧ e.addH c = 0 ∧ (e.commitAt c h).addH c' = h)) ∧
    ((e.commitAt c h).rmvH c' = e.rmvH c' ∨ (c' = c ∧ e.rmvH c = 0 ∧ (e.commitAt c h).rmvH c' = h) ∨
      (c' = c ∧ e.isFee = true ∧ e.addH c = 0 ∧ (e.commitAt c h).rmvH c' = h)) := by
  unfold Entry.commitAt
  cases c <;> cases c' <;> cases hty : e.ty <;>
    simp [Entry.addH, Entry.rmvH, Entry.setAdd, Entry.setRmv, Entry.isFee, hty] <;>
    (split <;> simp_all [Entry.addH, Entry.rmvH])

theorem cm1_addH_ne (c c' : Chain) (h i : Nat) (e : Entry) (hne : e.addH c' ≠ 0) : (cm1 c h i e).addH c' ≠ 0 := by
  unfold cm1; split
  · rcases (commitAt_heights c c' h e).1 with h1 | ⟨_, h0, _⟩
    · rw [h1]; exact hne
    · subst_vars; exact absurd h0 hne
  · exact hne

theorem cm1_addH_other (c c' : Chain) (h i : Nat) (e : Entry) (hc : c' ≠ c) : (cm1 c h i e).addH c' = e.addH c' := by
  unfold cm1; split
  · rcases (commitAt_heights c c' h e).1 with h1 | ⟨h0, _⟩
    · exact h1
    · exact absurd h0 hc
  · rfl

theorem cm1_rmvH_other (c c' : Chain) (h i : Nat) (e : Entry) (hc : c' ≠ c) : (cm1 c h i e).rmvH c' = e.rmvH c' := by
  unfold cm1; split
  · rcases (commitAt_heights c c' h e).2 with h1 | ⟨h0, _⟩ | ⟨h0, _⟩
    · exact h1
    · exact absurd h0 hc
    · exact absurd h0 hc
  · rfl

theorem cm1_onChain_other (c c' : Chain) (h i : Nat) (e : Entry) (hc : c' ≠ c) :
    (cm1 c h i e).onChain c' = e.onChain c' := by
  unfold Entry.onChain; rw [cm1_addH_other c c' h i e hc, cm1_rmvH_other c c' h i e hc]

theorem cm1_onChain_same (c : Chain) (h i : Nat) (e : Entry) (ho : (cm1 c h i e).onChain c = true) :
    e.onChain c = true ∨ e.logIndex < i := by
  unfold cm1 at ho
  split at ho
  · right; assumption
  · left; exact ho

/-- a resolution newly put on chain `c` was inside the view. -/
theorem cm1_rmvH_new (c c' : Chain) (h i : Nat) (e : Entry) (h0 : e.rmvH c' = 0) (h1 : (cm1 c h i e).rmvH c' ≠ 0) :
    c' = c ∧ e.logIndex < i := by
  unfold cm1 at h1
  split at h1
  · rename_i hlt
    rcases (commitAt_heights c c' h e).2 with h2 | ⟨hc, _⟩ | ⟨hc, _⟩
    · rw [h2] at h1; exact absurd h0 h1
    · exact ⟨hc, hlt⟩
    · exact ⟨hc, hlt⟩
  · exact absurd h0 h1


theorem filter_map_pres {p : Entry → Bool} {m : Entry → Entry} (hm : ∀ e, p (m e) = p e) (E : List Entry) :
    (E.map m).filter p = (E.filter p).map m := by
  rw [List.filter_map]
  congr 1
  apply List.filter_congr
  intro e _; simp [hm]

/-- `LogOK` survives setting the commit heights of a view, given `fetchParent` succeeded. -/
theorem logOK_commit {c : Chain} {h iOwn iOther : Nat} {own other : Log}
    (hOwn : LogOK own other) (hOther : LogOK other own)
    (hp : parentsOk c other.entries (resolutions (viewOf own iOwn)) = true) :
    LogOK { own with entries := commitLog c h iOwn own.entries }
          { other with entries := commitLog c h iOther other.entries } := by
  constructor
  · intro e he
    simp only [commitLog_eq, List.mem_map] at he
    obtain ⟨e0, he0, rfl⟩ := he
    simpa using hOwn.idxBound e0 he0
  · show UniqueAdds (commitLog c h iOwn own.entries)
    unfold UniqueAdds adds
    rw [commitLog_eq, filter_map_pres (cm1_isAdd c h iOwn), List.map_map]
    have : (Entry.htlcIndex ∘ cm1 c h iOwn) = Entry.htlcIndex := by funext e; simp
    rw [this]; exact hOwn.uniq
  · intro e he hadd
    simp only [commitLog_eq, List.mem_map] at he
    obtain ⟨e0, he0, rfl⟩ := he
    simpa using hOwn.addLt e0 he0 (by simpa using hadd)
  · show ((resolutions (commitLog c h iOwn own.entries)).map Entry.parent).Nodup
    unfold resolutions
    rw [commitLog_eq, filter_map_pres (cm1_isRes c h iOwn), List.map_map]
    have : (Entry.parent ∘ cm1 c h iOwn) = Entry.parent := by funext e; simp
    rw [this]; exact hOwn.resPar
  · intro r hr hres
    simp only [commitLog_eq, List.mem_map] at hr
    obtain ⟨r0, hr0, rfl⟩ := hr
    simpa using hOwn.resMod r0 hr0 (by simpa using hres)
  · intro r hr hres
    simp only [commitLog_eq, List.mem_map] at hr
    obtain ⟨r0, hr0, rfl⟩ := hr
    have hres0 : r0.isRes = true := by simpa using hres
    obtain ⟨a, ha, hadd, hi, hamt, hh⟩ := hOwn.resAdd r0 hr0 hres0
    refine ⟨cm1 c h iOther a, ?_, by simpa using hadd, by simpa using hi, by simpa using hamt, ?_⟩
    · simp only [commitLog_eq]; exact List.mem_map_of_mem ha
    · intro c' hne
      by_cases h0 : r0.rmvH c' = 0
      · obtain ⟨hc, hlt⟩ := cm1_rmvH_new c c' h iOwn r0 h0 hne
        subst hc
        have hrv : r0 ∈ resolutions (viewOf own iOwn) := by
          unfold resolutions viewOf
          exact List.mem_filter.mpr ⟨List.mem_filter.mpr ⟨hr0, by simpa using hlt⟩, hres0⟩
        obtain ⟨a', hl, hne'⟩ := parentsOk_spec hp hrv
        have : a' = a := lookupHtlc_unique hOther.uniq hl ha hadd hi
        subst this
        exact cm1_addH_ne _ _ _ _ _ hne'
      · exact cm1_addH_ne _ _ _ _ _ (hh c' h0)

end LndModel.C01
