/-
C01 — the two-party `System` under the discipline of lnd's link (a received commitment_signed
is revoked for in the same handler; a rejected message fails the channel), projected onto the
sync skeleton of C03, whose index-level cross-node invariant then holds in every reachable
state of the C01 system: for all interleavings, the indices and the height the receiver of a
commitment_signed uses for its own construction are the ones the signer used.
-/
import LndModel.C01.Mirror
import LndModel.C03.Props
set_option linter.unusedSimpArgs false

namespace LndModel.C01

/-! ### what each operation does to the log counters and the chains -/

/-- the part of a node the commitment dance indexes by: log counters and the two chains. -/
structure Skel (n n' : Node) (dL dR : Nat) : Prop where
  lIdx : n'.logL.logIndex = n.logL.logIndex + dL
  rIdx : n'.logR.logIndex = n.logR.logIndex + dR
  chainL : n'.chainL = n.chainL
  chainR : n'.chainR = n.chainR

theorem addHTLC_skel (n : Node) (a e h : Nat) :
    ((n.addHTLC a e h).1 = .ok → Skel n (n.addHTLC a e h).2 1 0) ∧
    ((n.addHTLC a e h).1 ≠ .ok → (n.addHTLC a e h).2 = n) := by
  unfold Node.addHTLC
  simp only
  split
  · split
    · exact ⟨fun _ => ⟨rfl, rfl, rfl, rfl⟩, fun h => absurd rfl h⟩
    · rename_i hne; exact ⟨fun h => absurd h hne, fun _ => rfl⟩
  · rename_i hne; exact ⟨fun h => absurd h hne, fun _ => rfl⟩

theorem receiveHTLC_skel (n : Node) (i a e h : Nat) :
    ((n.receiveHTLC i a e h).1 = .ok → Skel n (n.receiveHTLC i a e h).2 0 1) := by
  unfold Node.receiveHTLC
  simp only
  split
  · intro h; cases h
  · split
    · exact fun _ => ⟨rfl, rfl, rfl, rfl⟩
    · rename_i hne; exact fun h => absurd h hne

theorem resolveLocal_skel (n : Node) (ty : ETy) (i : Nat) (p : Bool) :
    ((n.resolveLocal ty i p).1 = .ok → Skel n (n.resolveLocal ty i p).2 1 0) ∧
    ((n.resolveLocal ty i p).1 ≠ .ok → (n.resolveLocal ty i p).2 = n) := by
  unfold Node.resolveLocal
  split
  · exact ⟨fun h => (nomatch h), fun _ => rfl⟩
  · simp only
    split
    · exact ⟨fun h => (nomatch h), fun _ => rfl⟩
    · split
      · exact ⟨fun h => (nomatch h), fun _ => rfl⟩
      · exact ⟨fun _ => ⟨rfl, rfl, rfl, rfl⟩, fun h => absurd rfl h⟩

theorem resolveRemote_skel (n : Node) (ty : ETy) (i : Nat) (p : Bool) :
    ((n.resolveRemote ty i p).1 = .ok → Skel n (n.resolveRemote ty i p).2 0 1) := by
  unfold Node.resolveRemote
  split
  · exact fun h => nomatch h
  · simp only
    split
    · exact fun h => nomatch h
    · split
      · exact fun h => nomatch h
      · exact fun _ => ⟨rfl, rfl, rfl, rfl⟩

/-- indices and height recorded in a commitment built by `fetchCommitmentView`. -/
theorem fetch_idx {n : Node} {c : Chain} {a b d e : Nat} {cm : Commit} {n' : Node}
    (h : fetchCommitmentView n c a b d e = .ok (cm, n')) :
    cm.height = (n.chain c).tip.height + 1 ∧ cm.ourMsg = a ∧ cm.theirMsg = d ∧
    n'.logL.logIndex = n.logL.logIndex ∧ n'.logR.logIndex = n.logR.logIndex ∧
    n'.chainL = n.chainL ∧ n'.chainR = n.chainR := by
  obtain ⟨r, _, hb⟩ := fetch_ok_parts h
  unfold fetchCommitmentView at h
  split at h
  · cases h
  · simp only at h
    split at h
    · cases h
    · simp only [Except.ok.injEq, Prod.mk.injEq] at h
      obtain ⟨rfl, rfl⟩ := h
      have h1 := (buildCommit_eq hb).1
      refine ⟨h1, ?_, ?_, rfl, rfl, rfl, rfl⟩
      all_goals
        unfold buildCommit at hb
        simp only at hb
        generalize commitOuts _ _ _ _ _ _ = outs at hb
        split at hb
        · cases hb
        · split at hb
          · cases hb
          · simp only [Except.ok.injEq] at hb
            rw [← hb]


theorem sign_skel (n : Node) :
    ((n.sign).1 = .ok → ∃ cm, n.chainR.pend = [] ∧ (n.sign).2.2 = some cm.sigView ∧
      (n.sign).2.1.chainR = { tail := n.chainR.tail, pend := [cm] } ∧
      cm.height = n.chainR.tail.height + 1 ∧ cm.ourMsg = n.logL.logIndex ∧
      cm.theirMsg = n.chainL.tail.theirMsg ∧
      (n.sign).2.1.logL.logIndex = n.logL.logIndex ∧ (n.sign).2.1.logR.logIndex = n.logR.logIndex ∧
      (n.sign).2.1.chainL = n.chainL) ∧
    ((n.sign).1 ≠ .ok → (n.sign).2.1 = n ∧ (n.sign).2.2 = none) := by
  unfold Node.sign
  split
  · exact ⟨fun h => (nomatch h), fun _ => ⟨rfl, rfl⟩⟩
  · rename_i hun
    have hp : n.chainR.pend = [] := by
      simp only [CChain.hasUnacked, Bool.not_eq_true, Bool.not_eq_false', List.isEmpty_iff] at hun
      exact hun
    simp only
    split
    · split
      · rename_i e hfe
        exact ⟨fun h => absurd h (fetch_err hfe), fun _ => ⟨rfl, rfl⟩⟩
      · rename_i cm n' hf
        obtain ⟨h1, h2, h3, h4, h5, h6, h7⟩ := fetch_idx hf
        refine ⟨fun _ => ⟨cm, hp, rfl, ?_, ?_, h2, h3, h4, h5, h6⟩, fun h => absurd rfl h⟩
        · simp only [h7, hp, List.nil_append]
        · rw [h1]; simp [Node.chain, CChain.tip, hp]
    · rename_i hne
      exact ⟨fun h => absurd h hne, fun _ => ⟨rfl, rfl⟩⟩

theorem receiveCommitGo_skel (n : Node) (sv : SigView) :
    (n.receiveCommitGo sv).1 = .ok → ∃ cm, cm.sigView = sv ∧
      (n.receiveCommitGo sv).2.chainL = { tail := n.chainL.tail, pend := n.chainL.pend ++ [cm] } ∧
      cm.height = n.chainL.tip.height + 1 ∧ cm.ourMsg = n.chainR.tail.ourMsg ∧
      cm.theirMsg = n.logR.logIndex ∧
      (n.receiveCommitGo sv).2.logL.logIndex = n.logL.logIndex ∧
      (n.receiveCommitGo sv).2.logR.logIndex = n.logR.logIndex ∧
      (n.receiveCommitGo sv).2.chainR = n.chainR := by
  unfold Node.receiveCommitGo
  simp only
  split
  · split
    · rename_i e hfe
      exact fun h => absurd h (fetch_err hfe)
    · rename_i cm n' hf
      obtain ⟨h1, h2, h3, h4, h5, h6, h7⟩ := fetch_idx hf
      split
      · rename_i hsv
        refine fun _ => ⟨cm, hsv, ?_, h1, h2, h3, h4, h5, h7⟩
        simp only [h6]
      · exact fun h => (nomatch h)
  · rename_i hne
    exact fun h => absurd h hne

theorem compactPass_logIndex (lt rt : Nat) (a b : Log) :
    (compactPass lt rt a b).1.logIndex = a.logIndex ∧ (compactPass lt rt a b).2.logIndex = b.logIndex := by
  unfold compactPass; exact ⟨rfl, rfl⟩

theorem compactLogs_logIndex (lt rt : Nat) (a b : Log) :
    (compactLogs lt rt a b).1.logIndex = a.logIndex ∧ (compactLogs lt rt a b).2.logIndex = b.logIndex := by
  unfold compactLogs
  simp only
  have h1 := compactPass_logIndex lt rt a b
  have h2 := compactPass_logIndex lt rt (compactPass lt rt a b).2 (compactPass lt rt a b).1
  exact ⟨by rw [h2.2, h1.1], by rw [h2.1, h1.2]⟩

theorem revoke_skel (n : Node) (c : Commit) (rest : List Commit) (hp : n.chainL.pend = c :: rest) :
    n.revoke = (.ok, { n with chainL := { tail := c, pend := rest } }) := by
  unfold Node.revoke; rw [hp]

theorem receiveRevocation_skel (n : Node) (c : Commit) (rest : List Commit) (hp : n.chainR.pend = c :: rest) :
    (n.receiveRevocation).1 = .ok ∧ (n.receiveRevocation).2.chainR = { tail := c, pend := rest } ∧
    (n.receiveRevocation).2.chainL = n.chainL ∧
    (n.receiveRevocation).2.logL.logIndex = n.logL.logIndex ∧
    (n.receiveRevocation).2.logR.logIndex = n.logR.logIndex := by
  unfold Node.receiveRevocation
  rw [hp]
  simp only
  have := compactLogs_logIndex n.chainL.tail.height (n.chainR.tail.height + 1) n.logL n.logR
  exact ⟨trivial, trivial, trivial, this.1, this.2⟩

theorem receiveRevocation_none (n : Node) (hp : n.chainR.pend = []) : (n.receiveRevocation).1 = .noPending := by
  unfold Node.receiveRevocation; rw [hp]

open LndModel.C03 (SNode SMsg SSys LStep Idx idxOf SAct)

/-! ### the link-disciplined two-party system -/

/-- local actions of a protocol-following node (update_fee is not covered by the cross-node
    theorem yet; revocations are sent by the delivery step). -/
inductive LAct where
  | add (amt expiry hash : Nat)
  | settle (idx : Nat)
  | fail (idx : Nat)
  | malformedFail (idx : Nat)
  | sign
deriving Repr

def LAct.toAct : LAct → Act
  | .add a e h => .add a e h
  | .settle i => .settle i
  | .fail i => .fail i
  | .malformedFail i => .malformedFail i
  | .sign => .sign

inductive LSysStep where
  | actA (x : LAct) | actB (x : LAct) | dlvAB | dlvBA
deriving Repr

/-- delivery under the link's discipline: `none` = the message is rejected and the link fails
    the channel; an accepted commitment_signed is answered with the revocation at once. -/
def Node.ldeliver (n : Node) (m : Msg) : Option (Node × List Msg) :=
  if (n.deliver m).1 ≠ .ok then none else
  match m with
  | .commitSig _ =>
    if ((n.deliver m).2.revoke).1 = .ok then some (((n.deliver m).2.revoke).2, [Msg.revoke]) else none
  | _ => some ((n.deliver m).2, [])

def System.lstep (s : System) : LSysStep → Option System
  | .actA x => some { s with a := (s.a.act x.toAct).2.1, ab := s.ab ++ (s.a.act x.toAct).2.2.toList }
  | .actB x => some { s with b := (s.b.act x.toAct).2.1, ba := s.ba ++ (s.b.act x.toAct).2.2.toList }
  | .dlvAB =>
    match s.ab with
    | [] => some s
    | m :: rest => (s.b.ldeliver m).map fun r => { s with b := r.1, ab := rest, ba := s.ba ++ r.2 }
  | .dlvBA =>
    match s.ba with
    | [] => some s
    | m :: rest => (s.a.ldeliver m).map fun r => { s with a := r.1, ba := rest, ab := s.ab ++ r.2 }

/-- a run in which no delivery was rejected (`none` otherwise). -/
def System.lrun (s : System) : List LSysStep → Option System
  | [] => some s
  | x :: xs => (s.lstep x).bind (fun s' => s'.lrun xs)

/-! ### simulation by the sync skeleton -/

def msgSim : Msg → SMsg → Prop
  | .add .., .upd (some _) => True
  | .settle _, .upd (some _) => True
  | .fail _, .upd (some _) => True
  | .commitSig _, .sig _ _ => True
  | .revoke, .rev _ => True
  | _, _ => False

def qSim : List Msg → List SMsg → Prop
  | [], [] => True
  | m :: q, k :: r => msgSim m k ∧ qSim q r
  | _, _ => False

theorem qSim_snoc {q : List Msg} {r : List SMsg} {m : Msg} {k : SMsg} (h : qSim q r) (hm : msgSim m k) :
    qSim (q ++ [m]) (r ++ [k]) := by
  induction q generalizing r with
  | nil => cases r with
    | nil => exact ⟨hm, trivial⟩
    | cons _ _ => cases h
  | cons x q ih => cases r with
    | nil => cases h
    | cons y r => exact ⟨h.1, ih h.2⟩

structure NodeSim (n : Node) (k : SNode) : Prop where
  lt : k.lt = n.chainL.tail.height
  ltIdx : k.ltIdx = idxOf n.chainL.tail
  lp : n.chainL.pend = [] ∧ k.lp = []
  rt : k.rt = n.chainR.tail.height
  rtIdx : k.rtIdx = idxOf n.chainR.tail
  rp : k.rp = (n.chainR.pend.head?).map idxOf
  lIdx : k.lIdx = n.logL.logIndex
  rIdx : k.rIdx = n.logR.logIndex
  win : n.chainR.pend.length ≤ 1
  ph : ∀ c ∈ n.chainR.pend, c.height = n.chainR.tail.height + 1

structure Sim (s : System) (k : SSys) : Prop where
  a : NodeSim s.a k.a
  b : NodeSim s.b k.b
  ab : qSim s.ab k.ab
  ba : qSim s.ba k.ba

theorem nodeSim_skel {n n' : Node} {k : SNode} {dL dR : Nat} (h : NodeSim n k) (hs : Skel n n' dL dR) :
    NodeSim n' { k with lIdx := k.lIdx + dL, rIdx := k.rIdx + dR } := by
  obtain ⟨h1, h2, h3, h4, h5, h6, h7, h8, h9, h10⟩ := h
  obtain ⟨s1, s2, s3, s4⟩ := hs
  refine ⟨?_, ?_, ?_, ?_, ?_, ?_, ?_, ?_, ?_, ?_⟩ <;> simp only [s1, s2, s3, s4] <;> first | assumption | omega

theorem nodeSim_sign {n : Node} {k : SNode} (h : NodeSim n k) (hok : (n.sign).1 = .ok) :
    NodeSim (n.sign).2.1 (k.doSign).1 ∧ ∃ hh ix, (k.doSign).2 = some (.sig hh ix) ∧
      ∃ sv, (n.sign).2.2 = some sv := by
  obtain ⟨cm, hp, hsv, hch, hh, ho, ht, hl, hr, hcl⟩ := (sign_skel n).1 hok
  have hrp : k.rp = none := by rw [h.rp, hp]; rfl
  unfold SNode.doSign
  rw [hrp]
  simp only
  refine ⟨⟨?_, ?_, ?_, ?_, ?_, ?_, ?_, ?_, ?_, ?_⟩, _, _, rfl, _, hsv⟩
  · simp only [hcl]; exact h.lt
  · simp only [hcl]; exact h.ltIdx
  · simp only [hcl]; exact h.lp
  · simp only [hch]; exact h.rt
  · simp only [hch]; exact h.rtIdx
  · simp only [hch, List.head?_cons, Option.map_some, idxOf, ho, ht, h.lIdx, h.ltIdx]
  · simp only [hl]; exact h.lIdx
  · simp only [hr]; exact h.rIdx
  · simp only [hch, List.length_cons, List.length_nil]; omega
  · intro c hc
    simp only [hch, List.mem_singleton] at hc ⊢
    subst hc; exact hh

theorem nodeSim_recvSig {n : Node} {k : SNode} {sv : SigView} {hh : Nat} {ix : Idx} (h : NodeSim n k)
    (hok : (n.receiveCommitGo sv).1 = .ok) :
    ((n.receiveCommitGo sv).2.revoke).1 = .ok ∧
    NodeSim ((n.receiveCommitGo sv).2.revoke).2 ((k.recv (.sig hh ix)).doRevoke).1 ∧
    ∃ g, ((k.recv (.sig hh ix)).doRevoke).2 = some (.rev g) := by
  obtain ⟨cm, _, hch, hht, ho, ht, hl, hr, hcr⟩ := receiveCommitGo_skel n sv hok
  have hp : (n.receiveCommitGo sv).2.chainL.pend = cm :: [] := by rw [hch, h.lp.1]; rfl
  rw [revoke_skel _ cm [] hp]
  have hkl : (k.recv (.sig hh ix)).lp = ⟨k.rtIdx.our, k.rIdx⟩ :: [] := by
    simp [SNode.recv, h.lp.2]
  unfold SNode.doRevoke
  rw [hkl]
  simp only
  refine ⟨trivial, ⟨?_, ?_, ⟨rfl, rfl⟩, ?_, ?_, ?_, ?_, ?_, ?_, ?_⟩, _, rfl⟩
  · simp only [SNode.recv, hht, h.lt, CChain.tip, h.lp.1, List.getLast?_nil, Option.getD_none]
  · simp only [idxOf, ho, ht, h.rtIdx, h.rIdx]
  · simp only [SNode.recv, hcr]; exact h.rt
  · simp only [SNode.recv, hcr]; exact h.rtIdx
  · simp only [SNode.recv, hcr]; exact h.rp
  · simp only [SNode.recv, hl]; exact h.lIdx
  · simp only [SNode.recv, hr]; exact h.rIdx
  · simp only [hcr]; exact h.win
  · simp only [hcr]; exact h.ph

theorem nodeSim_recvRev {n : Node} {k : SNode} (h : NodeSim n k) (hok : (n.receiveRevocation).1 = .ok) :
    NodeSim (n.receiveRevocation).2 k.recvRev := by
  cases hp : n.chainR.pend with
  | nil => rw [receiveRevocation_none n hp] at hok; cases hok
  | cons c rest =>
    obtain ⟨_, hcr, hcl, hl, hr⟩ := receiveRevocation_skel n c rest hp
    have hrest : rest = [] := by
      have := h.win; rw [hp] at this
      cases rest with
      | nil => rfl
      | cons _ _ => simp at this
    subst hrest
    have hkrp : k.rp = some (idxOf c) := by rw [h.rp, hp]; rfl
    unfold SNode.recvRev
    rw [hkrp]
    simp only
    refine ⟨?_, ?_, ?_, ?_, ?_, ?_, ?_, ?_, ?_, ?_⟩
    · simp only [hcl]; exact h.lt
    · simp only [hcl]; exact h.ltIdx
    · simp only [hcl]; exact h.lp
    · simp only [hcr]; rw [h.rt, h.ph c (by rw [hp]; exact List.mem_cons_self)]
    · simp only [hcr]
    · simp only [hcr]; rfl
    · simp only [hl]; exact h.lIdx
    · simp only [hr]; exact h.rIdx
    · simp only [hcr]; simp
    · simp only [hcr]; intro c' hc'; cases hc'


theorem lrun_one (k : SSys) (x : LStep) : k.lrun [x] = k.lstep x := rfl
theorem lrun_nil (k : SSys) : k.lrun [] = k := rfl

theorem nodeSim_updSend {n n' : Node} {k : SNode} (h : NodeSim n k) (hs : Skel n n' 1 0) :
    NodeSim n' (k.act (.upd true)).1 := by
  have := nodeSim_skel h hs
  simpa [SNode.act] using this

theorem nodeSim_updRecv {n n' : Node} {k : SNode} (i : Nat) (h : NodeSim n k) (hs : Skel n n' 0 1) :
    NodeSim n' (k.recv (.upd (some i))) := by
  have := nodeSim_skel h hs
  simpa [SNode.recv] using this

/-- local action of one node: the effect on that node and the message sent, simulated by at most
    one skeleton action. -/
theorem nodeSim_act {n : Node} {k : SNode} (h : NodeSim n k) (x : LAct) :
    (NodeSim (n.act x.toAct).2.1 k ∧ (n.act x.toAct).2.2 = none) ∨
    (∃ y : SAct, (y = .upd true ∨ y = .sign) ∧ NodeSim (n.act x.toAct).2.1 (k.act y).1 ∧
      ∃ m mk, (n.act x.toAct).2.2 = some m ∧ (k.act y).2 = some mk ∧ msgSim m mk) := by
  cases x with
  | add a e hh =>
    simp only [LAct.toAct, Node.act]
    by_cases hok : (n.addHTLC a e hh).1 = .ok
    · right
      exact ⟨.upd true, Or.inl rfl, nodeSim_updSend h ((addHTLC_skel n a e hh).1 hok),
        .add n.logL.htlcCounter a e hh, _, by simp [hok], rfl, trivial⟩
    · left
      rw [(addHTLC_skel n a e hh).2 hok]
      exact ⟨h, by simp [hok]⟩
  | settle i =>
    simp only [LAct.toAct, Node.act]
    by_cases hok : (n.resolveLocal .settle i true).1 = .ok
    · right
      exact ⟨.upd true, Or.inl rfl, nodeSim_updSend h ((resolveLocal_skel n _ i true).1 hok),
        .settle i, _, by simp [hok], rfl, trivial⟩
    · left
      rw [(resolveLocal_skel n _ i true).2 hok]
      exact ⟨h, by simp [hok]⟩
  | fail i =>
    simp only [LAct.toAct, Node.act]
    by_cases hok : (n.resolveLocal .fail i true).1 = .ok
    · right
      exact ⟨.upd true, Or.inl rfl, nodeSim_updSend h ((resolveLocal_skel n _ i true).1 hok),
        .fail i, _, by simp [hok], rfl, trivial⟩
    · left
      rw [(resolveLocal_skel n _ i true).2 hok]
      exact ⟨h, by simp [hok]⟩
  | malformedFail i =>
    simp only [LAct.toAct, Node.act]
    by_cases hok : (n.resolveLocal .malformed i true).1 = .ok
    · right
      exact ⟨.upd true, Or.inl rfl, nodeSim_updSend h ((resolveLocal_skel n _ i true).1 hok),
        .fail i, _, by simp [hok], rfl, trivial⟩
    · left
      rw [(resolveLocal_skel n _ i true).2 hok]
      exact ⟨h, by simp [hok]⟩
  | sign =>
    simp only [LAct.toAct, Node.act]
    by_cases hok : (n.sign).1 = .ok
    · right
      obtain ⟨hn, hh, ix, hk, sv, hsv⟩ := nodeSim_sign h hok
      exact ⟨.sign, Or.inr rfl, hn, .commitSig sv, _, by rw [hsv]; rfl, hk, trivial⟩
    · left
      obtain ⟨h1, h2⟩ := (sign_skel n).2 hok
      rw [h1, h2]
      exact ⟨h, rfl⟩


/-- an accepted delivery, simulated by the skeleton's `recv` (+ immediate `revoke` for a
    commitment_signed). -/
theorem nodeSim_ldeliver {n n' : Node} {k : SNode} {m : Msg} {mk : SMsg} {reply : List Msg}
    (h : NodeSim n k) (hm : msgSim m mk) (hd : n.ldeliver m = some (n', reply)) :
    (mk.isSig = false ∧ reply = [] ∧ NodeSim n' (k.recv mk)) ∨
    (mk.isSig = true ∧ NodeSim n' ((k.recv mk).act .revoke).1 ∧
      ∃ g, ((k.recv mk).act .revoke).2 = some (.rev g) ∧ reply = [Msg.revoke]) := by
  unfold Node.ldeliver at hd
  split at hd
  · cases hd
  · rename_i hok
    have hok' : (n.deliver m).1 = .ok := by simpa using hok
    cases m with
    | add i a e hh =>
      cases mk with
      | upd o => cases o with
        | some j =>
          simp only [Option.some.injEq, Prod.mk.injEq] at hd
          obtain ⟨rfl, rfl⟩ := hd
          exact Or.inl ⟨rfl, rfl, nodeSim_updRecv j h (receiveHTLC_skel n i a e hh hok')⟩
        | none => cases hm
      | sig _ _ => cases hm
      | rev _ => cases hm
    | settle i =>
      cases mk with
      | upd o => cases o with
        | some j =>
          simp only [Option.some.injEq, Prod.mk.injEq] at hd
          obtain ⟨rfl, rfl⟩ := hd
          exact Or.inl ⟨rfl, rfl, nodeSim_updRecv j h (resolveRemote_skel n _ i true hok')⟩
        | none => cases hm
      | sig _ _ => cases hm
      | rev _ => cases hm
    | fail i =>
      cases mk with
      | upd o => cases o with
        | some j =>
          simp only [Option.some.injEq, Prod.mk.injEq] at hd
          obtain ⟨rfl, rfl⟩ := hd
          exact Or.inl ⟨rfl, rfl, nodeSim_updRecv j h (resolveRemote_skel n _ i true hok')⟩
        | none => cases hm
      | sig _ _ => cases hm
      | rev _ => cases hm
    | fee f => cases mk <;> first | cases hm | (rename_i o; cases o <;> cases hm)
    | commitSig sv =>
      cases mk with
      | sig hh ix =>
        obtain ⟨h1, h2, g, h3⟩ := nodeSim_recvSig (hh := hh) (ix := ix) h hok'
        simp only [Node.deliver] at hd h1
        simp only [h1, if_true, Option.some.injEq, Prod.mk.injEq] at hd
        obtain ⟨rfl, rfl⟩ := hd
        exact Or.inr ⟨rfl, h2, g, h3, rfl⟩
      | upd o => cases o <;> cases hm
      | rev _ => cases hm
    | revoke =>
      cases mk with
      | rev g =>
        simp only [Option.some.injEq, Prod.mk.injEq] at hd
        obtain ⟨rfl, rfl⟩ := hd
        exact Or.inl ⟨rfl, rfl, nodeSim_recvRev h hok'⟩
      | upd o => cases o <;> cases hm
      | sig _ _ => cases hm

/-- **simulation.**  Every step of the link-disciplined C01 system in which no message is rejected
    is matched by zero or one step of the sync skeleton. -/
theorem sim_step {s s' : System} {k : SSys} (h : Sim s k) (x : LSysStep) (hs : s.lstep x = some s') :
    ∃ xs : List LStep, Sim s' (k.lrun xs) := by
  cases x with
  | actA y =>
    simp only [System.lstep, Option.some.injEq] at hs
    subst hs
    rcases nodeSim_act h.a y with ⟨hn, hnone⟩ | ⟨z, hz, hn, m, mk, hm, hmk, hsim⟩
    · exact ⟨[], by rw [lrun_nil]; exact ⟨hn, h.b, by simpa [hnone] using h.ab, h.ba⟩⟩
    · rcases hz with rfl | rfl
      · refine ⟨[.updA true], ?_⟩
        rw [lrun_one]
        simp only [SSys.lstep, SSys.actA]
        exact ⟨hn, h.b, by rw [hm, hmk]; exact qSim_snoc h.ab hsim, h.ba⟩
      · refine ⟨[.signA], ?_⟩
        rw [lrun_one]
        simp only [SSys.lstep, SSys.actA]
        exact ⟨hn, h.b, by rw [hm, hmk]; exact qSim_snoc h.ab hsim, h.ba⟩
  | actB y =>
    simp only [System.lstep, Option.some.injEq] at hs
    subst hs
    rcases nodeSim_act h.b y with ⟨hn, hnone⟩ | ⟨z, hz, hn, m, mk, hm, hmk, hsim⟩
    · exact ⟨[], by rw [lrun_nil]; exact ⟨h.a, hn, h.ab, by simpa [hnone] using h.ba⟩⟩
    · rcases hz with rfl | rfl
      · refine ⟨[.updB true], ?_⟩
        rw [lrun_one]
        simp only [SSys.lstep, SSys.actB]
        exact ⟨h.a, hn, h.ab, by rw [hm, hmk]; exact qSim_snoc h.ba hsim⟩
      · refine ⟨[.signB], ?_⟩
        rw [lrun_one]
        simp only [SSys.lstep, SSys.actB]
        exact ⟨h.a, hn, h.ab, by rw [hm, hmk]; exact qSim_snoc h.ba hsim⟩
  | dlvAB =>
    simp only [System.lstep] at hs
    cases hq : s.ab with
    | nil =>
      simp only [hq, Option.some.injEq] at hs
      subst hs
      exact ⟨[], by rw [lrun_nil]; exact h⟩
    | cons m rest =>
      simp only [hq] at hs
      cases hd : s.b.ldeliver m with
      | none => simp [hd] at hs
      | some r =>
        simp only [hd, Option.map_some, Option.some.injEq] at hs
        subst hs
        have hab := h.ab
        rw [hq] at hab
        cases hkq : k.ab with
        | nil => rw [hkq] at hab; cases hab
        | cons mk krest =>
          rw [hkq] at hab
          obtain ⟨hm, hrest⟩ := hab
          refine ⟨[.dlvAB], ?_⟩
          rw [lrun_one]
          simp only [SSys.lstep, SSys.dlvRevAB, hkq]
          rcases nodeSim_ldeliver (reply := r.2) h.b hm (by rw [hd]) with ⟨hns, hrep, hn⟩ | ⟨hsg, hn, g, hg, hrep⟩
          · simp only [hns, Bool.false_eq_true, if_false, SSys.dlvAB, hkq]
            exact ⟨h.a, hn, hrest, by rw [hrep, List.append_nil]; exact h.ba⟩
          · simp only [hsg, if_true, SSys.dlvAB, hkq, SSys.actB]
            refine ⟨h.a, hn, hrest, ?_⟩
            rw [hrep, hg]
            exact qSim_snoc h.ba trivial
  | dlvBA =>
    simp only [System.lstep] at hs
    cases hq : s.ba with
    | nil =>
      simp only [hq, Option.some.injEq] at hs
      subst hs
      exact ⟨[], by rw [lrun_nil]; exact h⟩
    | cons m rest =>
      simp only [hq] at hs
      cases hd : s.a.ldeliver m with
      | none => simp [hd] at hs
      | some r =>
        simp only [hd, Option.map_some, Option.some.injEq] at hs
        subst hs
        have hba := h.ba
        rw [hq] at hba
        cases hkq : k.ba with
        | nil => rw [hkq] at hba; cases hba
        | cons mk krest =>
          rw [hkq] at hba
          obtain ⟨hm, hrest⟩ := hba
          refine ⟨[.dlvBA], ?_⟩
          rw [lrun_one]
          simp only [SSys.lstep, SSys.dlvRevBA, hkq]
          rcases nodeSim_ldeliver (reply := r.2) h.a hm (by rw [hd]) with ⟨hns, hrep, hn⟩ | ⟨hsg, hn, g, hg, hrep⟩
          · simp only [hns, Bool.false_eq_true, if_false, SSys.dlvBA, hkq]
            exact ⟨hn, h.b, by rw [hrep, List.append_nil]; exact h.ab, hrest⟩
          · simp only [hsg, if_true, SSys.dlvBA, hkq, SSys.actA]
            refine ⟨hn, h.b, ?_, hrest⟩
            rw [hrep, hg]
            exact qSim_snoc h.ab trivial


theorem sslrun_append (k : SSys) (xs ys : List LStep) : k.lrun (xs ++ ys) = (k.lrun xs).lrun ys := by
  simp [SSys.lrun, List.foldl_append]

theorem sim_run {s s' : System} {k : SSys} (h : Sim s k) (steps : List LSysStep) (hs : s.lrun steps = some s') :
    ∃ xs : List LStep, Sim s' (k.lrun xs) := by
  induction steps generalizing s k with
  | nil =>
    simp only [System.lrun, Option.some.injEq] at hs
    subst hs
    exact ⟨[], h⟩
  | cons x rest ih =>
    simp only [System.lrun] at hs
    cases h1 : s.lstep x with
    | none => simp [h1] at hs
    | some s1 =>
      simp only [h1, Option.bind_some] at hs
      obtain ⟨xs, hx⟩ := sim_step h x h1
      obtain ⟨ys, hy⟩ := ih hx hs
      exact ⟨xs ++ ys, by rw [sslrun_append]; exact hy⟩

/-- a freshly opened channel: nothing sent, both chains at height 0 covering no updates. -/
structure NodeFresh (n : Node) : Prop where
  pendL : n.chainL.pend = []
  pendR : n.chainR.pend = []
  hL : n.chainL.tail.height = 0
  hR : n.chainR.tail.height = 0
  iL : n.chainL.tail.ourMsg = 0 ∧ n.chainL.tail.theirMsg = 0
  iR : n.chainR.tail.ourMsg = 0 ∧ n.chainR.tail.theirMsg = 0
  lIdx : n.logL.logIndex = 0
  rIdx : n.logR.logIndex = 0

structure SysFresh (s : System) : Prop where
  a : NodeFresh s.a
  b : NodeFresh s.b
  ab : s.ab = []
  ba : s.ba = []

theorem sim_init {s : System} (h : SysFresh s) : Sim s SSys.init := by
  have hn : ∀ n, NodeFresh n → NodeSim n {} := by
    intro n f
    refine ⟨f.hL.symm, ?_, ⟨f.pendL, rfl⟩, f.hR.symm, ?_, ?_, f.lIdx.symm, f.rIdx.symm, ?_, ?_⟩
    · simp [idxOf, f.iL.1, f.iL.2]
    · simp [idxOf, f.iR.1, f.iR.2]
    · simp [f.pendR]
    · simp [f.pendR]
    · simp [f.pendR]
  refine ⟨hn _ h.a, hn _ h.b, ?_, ?_⟩
  · rw [h.ab]; exact trivial
  · rw [h.ba]; exact trivial

/-- from the skeleton's invariant: a commitment_signed at the head of the queue is the sender's
    pending one and the receiver's counters are exactly the ones it covers. -/
theorem head_sig_skeleton {k : SSys} (hI : LndModel.C03.Inv2 k) {hh : Nat} {ix : Idx} {rest : List SMsg}
    (hq : k.ab = .sig hh ix :: rest) :
    k.a.rp = some ix ∧ hh = k.a.rt + 1 ∧ hh = k.b.lt + k.b.lp.length + 1 ∧ ix.our = k.b.rIdx ∧
    ix.their = k.b.rtIdx.our := by
  have hacc := (LndModel.C03.inv2_dlvRevAB k hI).2 _ _ hq
  obtain ⟨_, _, _, hm, _, _, _⟩ := hI
  have hshape := hm.shape
  rw [hq] at hshape
  simp only [SNode.accepts, Bool.and_eq_true, beq_iff_eq] at hacc
  obtain ⟨⟨a1, a2⟩, a3⟩ := hacc
  simp only [List.filter, LndModel.C03.SMsg.notUpd, LndModel.C03.SMsg.isSig, Bool.true_or] at hshape
  unfold LndModel.C03.owed LndModel.C03.csOf LndModel.C03.rvOf at hshape
  cases hrp : k.a.rp with
  | none =>
    simp only [hrp] at hshape
    split at hshape <;> split at hshape <;> simp at hshape
  | some ix' =>
    simp only [hrp] at hshape
    split at hshape <;> split at hshape <;> (try split at hshape) <;> simp at hshape <;>
      (obtain ⟨⟨e1, e2⟩, _⟩ := hshape; subst e1; subst e2; exact ⟨rfl, rfl, a1, a2, a3⟩)


theorem head_sig_skeleton_ba {k : SSys} (hI : LndModel.C03.Inv2 k) {hh : Nat} {ix : Idx} {rest : List SMsg}
    (hq : k.ba = .sig hh ix :: rest) :
    k.b.rp = some ix ∧ hh = k.b.rt + 1 ∧ hh = k.a.lt + k.a.lp.length + 1 ∧ ix.our = k.a.rIdx ∧
    ix.their = k.a.rtIdx.our := by
  have hacc := (LndModel.C03.inv2_dlvRevBA k hI).2 _ _ hq
  obtain ⟨_, _, _, _, hm, _, _⟩ := hI
  have hshape := hm.shape
  rw [hq] at hshape
  simp only [SNode.accepts, Bool.and_eq_true, beq_iff_eq] at hacc
  obtain ⟨⟨a1, a2⟩, a3⟩ := hacc
  simp only [List.filter, LndModel.C03.SMsg.notUpd, LndModel.C03.SMsg.isSig, Bool.true_or] at hshape
  unfold LndModel.C03.owed LndModel.C03.csOf LndModel.C03.rvOf at hshape
  cases hrp : k.b.rp with
  | none =>
    simp only [hrp] at hshape
    split at hshape <;> split at hshape <;> simp at hshape
  | some ix' =>
    simp only [hrp] at hshape
    split at hshape <;> split at hshape <;> (try split at hshape) <;> simp at hshape <;>
      (obtain ⟨⟨e1, e2⟩, _⟩ := hshape; subst e1; subst e2; exact ⟨rfl, rfl, a1, a2, a3⟩)

/-- what `NodeSim` says about the sender's pending commitment and the receiver's counters. -/
theorem pending_of_sim {x y : Node} {kx ky : SNode} (hx : NodeSim x kx) (hy : NodeSim y ky) {hh : Nat} {ix : Idx}
    (h1 : kx.rp = some ix) (h2 : hh = kx.rt + 1) (h3 : hh = ky.lt + ky.lp.length + 1)
    (h4 : ix.our = ky.rIdx) (h5 : ix.their = ky.rtIdx.our) :
    ∃ P, x.chainR.pend = [P] ∧ P.ourMsg = y.logR.logIndex ∧ P.theirMsg = y.chainR.tail.ourMsg ∧
      P.height = y.chainL.tip.height + 1 := by
  have hrp := hx.rp
  rw [h1] at hrp
  cases hp : x.chainR.pend with
  | nil => rw [hp] at hrp; cases hrp
  | cons P rest =>
    have hrest : rest = [] := by
      have := hx.win; rw [hp] at this
      cases rest with
      | nil => rfl
      | cons _ _ => simp at this
    subst hrest
    rw [hp] at hrp
    simp only [List.head?_cons, Option.map_some, Option.some.injEq] at hrp
    have hPh := hx.ph P (by rw [hp]; exact List.mem_cons_self)
    refine ⟨P, rfl, ?_, ?_, ?_⟩
    · have : ix.our = P.ourMsg := by rw [hrp]; rfl
      rw [← this, h4, hy.rIdx]
    · have : ix.their = P.theirMsg := by rw [hrp]; rfl
      rw [← this, h5, hy.rtIdx]; rfl
    · rw [hPh, ← hx.rt, ← h2, h3, hy.lp.2, hy.lt]
      simp [CChain.tip, hy.lp.1]

end LndModel.C01
