/-
C01 — what a commitment construction reads from the (compacted) logs, expressed on the ghost logs:
pure functions of the entries' shared fields and of log indices only.
-/
import LndModel.C01.GhostNode
set_option linter.unusedSimpArgs false
set_option linter.unusedVariables false

namespace LndModel.C01

/-- adds of `H` below `i` that no resolution of `O` below `j` removes; "already on the chain" =
    below `t`. -/
def gLive (H O : List Entry) (i j t : Nat) : List AEntry :=
  (H.filter (fun e => decide (e.logIndex < i) && e.isAdd &&
    !((O.filter (fun r => decide (r.logIndex < j) && r.isRes)).map Entry.parent).contains e.htlcIndex)).map (absI t)

/-- resolutions of `H` below `i` that are not yet on the chain (`t ≤ index`). -/
def gNew (H : List Entry) (i t : Nat) : List AEntry :=
  (H.filter (fun e => decide (e.logIndex < i) && e.isRes && decide (t ≤ e.logIndex))).map (absI t)

theorem kept_filter_map {β : Type} {G : GLog} {p q : Entry → Bool} {f g : Entry → β}
    (h : ∀ e k, (e, k) ∈ G → ((k && p e) = q e) ∧ (q e = true → f e = g e)) :
    ((GLog.kept G).filter p).map f = ((GLog.all G).filter q).map g := by
  induction G with
  | nil => rfl
  | cons x G ih =>
    have ih' := ih (fun e k hm => h e k (List.mem_cons_of_mem _ hm))
    obtain ⟨h1, h2⟩ := h x.1 x.2 (by simp)
    have hk : GLog.kept (x :: G) = if x.2 then x.1 :: GLog.kept G else GLog.kept G := by
      unfold GLog.kept; cases hx : x.2 <;> simp [List.filter, hx]
    have ha : GLog.all (x :: G) = x.1 :: GLog.all G := rfl
    rw [hk, ha]
    cases hx : x.2
    · simp only [Bool.false_eq_true, if_false]
      rw [hx] at h1
      have hq : q x.1 = false := by simpa using h1.symm
      simp only [List.filter, hq]
      exact ih'
    · simp only [if_true]
      rw [hx] at h1
      simp only [Bool.true_and] at h1
      cases hq : q x.1
      · rw [hq] at h1
        simp only [List.filter, hq, h1]
        exact ih'
      · rw [hq] at h1
        simp only [List.filter, hq, h1, List.map_cons]
        rw [h2 hq, ih']

/-- live adds of a view: real logs = ghost logs, provided the view of the other log reaches the
    bound below which the resolutions of dropped adds lie. -/
theorem live_ghost {G O : GLog} {log olog : Log} {oc oc' : Nat} {tip tip' : Chain → Nat} {b b' : Nat}
    (hG : GSide G O log oc tip b) (hO : GSide O G olog oc' tip' b') (c : Chain) (I J : Nat) (hb : b ≤ J) :
    (liveAdds (viewOf log I) (resolutions (viewOf olog J))).map (absE c) =
      gLive G.all O.all I J (tip c) := by
  unfold liveAdds viewOf gLive
  rw [List.filter_filter, hG.act]
  apply kept_filter_map
  intro e k hm
  have hRS : ∀ r, r ∈ resolutions (List.filter (fun e => decide (e.logIndex < J)) olog.entries) ↔
      ((r, true) ∈ O ∧ r.logIndex < J ∧ r.isRes = true) := by
    intro r
    unfold resolutions
    rw [List.mem_filter, List.mem_filter, hO.act, GLog.mem_kept]
    simp [and_assoc]
  constructor
  · by_cases ha : e.isAdd = true
    · by_cases hi : e.logIndex < I
      · simp only [ha, hi, decide_true, Bool.true_and, Bool.and_true]
        cases k with
        | true =>
          simp only [Bool.true_and]
          congr 1
          apply Bool.eq_iff_iff.mpr
          simp only [List.contains_iff_mem, List.mem_map]
          constructor
          · rintro ⟨r, hr, hp⟩
            obtain ⟨r1, r2, r3⟩ := (hRS r).mp hr
            exact ⟨r, List.mem_filter.mpr ⟨GLog.mem_all r1, by simp [r2, r3]⟩, hp⟩
          · rintro ⟨r, hr, hp⟩
            obtain ⟨r1, r2⟩ := List.mem_filter.mp hr
            simp only [Bool.and_eq_true, decide_eq_true_eq] at r2
            obtain ⟨kr, hkr⟩ := GLog.mem_all_iff.mp r1
            cases kr with
            | true => exact ⟨r, (hRS r).mpr ⟨hkr, r2.1, r2.2⟩, hp⟩
            | false =>
              have := (hO.deadR r hkr r2.2).2.2 e true hm ha hp.symm
              cases this
        | false =>
          simp only [Bool.false_and]
          obtain ⟨r, r1, r2, r3, r4⟩ := hG.deadA e hm ha
          symm
          simp only [Bool.not_eq_false', List.contains_iff_mem, List.mem_map]
          exact ⟨r, List.mem_filter.mpr ⟨GLog.mem_all r1, by simp [r2]; omega⟩, r3⟩
      · simp [hi]
    · simp [ha]
  · intro _
    exact absE_eq_absI (hG.wf e (GLog.mem_all hm)) (hG.hc e (GLog.mem_all hm) c)

/-- not-yet-committed resolutions of a view: real log = ghost log. -/
theorem new_ghost {G O : GLog} {log : Log} {oc : Nat} {tip : Chain → Nat} {b : Nat}
    (hG : GSide G O log oc tip b) (c : Chain) (I : Nat) :
    (newRes c (viewOf log I)).map (absE c) = gNew G.all I (tip c) := by
  unfold newRes resolutions viewOf gNew
  rw [List.filter_filter, List.filter_filter, hG.act]
  apply kept_filter_map
  intro e k hm
  have hc := hG.hc e (GLog.mem_all hm) c
  constructor
  · by_cases hr : e.isRes = true
    · have hna : e.isAdd = false := isRes_not_isAdd e hr
      have hon : e.onC c = (e.rmvH c != 0) := by simp [Entry.onC, hna]
      by_cases hi : e.logIndex < I
      · simp only [hr, hi, decide_true, Bool.and_true, Bool.true_and]
        cases k with
        | true =>
          simp only [Bool.true_and]
          apply Bool.eq_iff_iff.mpr
          simp only [beq_iff_eq, decide_eq_true_eq]
          constructor
          · intro h0
            have : e.onC c = false := by rw [hon]; simp [h0]
            have : ¬ e.logIndex < tip c := fun hh => by rw [hc.mpr hh] at this; cases this
            omega
          · intro hle
            have : e.onC c = false := by
              cases ho : e.onC c
              · rfl
              · have := hc.mp ho; omega
            rw [hon] at this
            simpa using this
        | false =>
          simp only [Bool.false_and]
          obtain ⟨d1, d2, _⟩ := hG.deadR e hm hr
          have : e.onC c = true := by
            rw [hon]; cases c
            · simpa [Entry.rmvH] using d1
            · simpa [Entry.rmvH] using d2
          have := hc.mp this
          symm
          simp only [decide_eq_false_iff_not]
          omega
      · simp [hi]
    · simp [hr]
  · intro _
    exact absE_eq_absI (hG.wf e (GLog.mem_all hm)) hc

/-- without fee updates in the logs the fee rate of a view is the tip's. -/
theorem viewFee_noFee {v : List Entry} (dflt : Nat) (h : ∀ e ∈ v, e.isFee = false) : viewFeePerKw v dflt = dflt := by
  unfold viewFeePerKw
  have : v.filter Entry.isFee = [] := by
    apply List.filter_eq_nil_iff.mpr
    intro e he; simp [h e he]
  rw [this]; rfl

theorem view_noFee {G O : GLog} {log : Log} {oc : Nat} {tip : Chain → Nat} {b : Nat}
    (hG : GSide G O log oc tip b) (I : Nat) : ∀ e ∈ viewOf log I, e.isFee = false := by
  intro e he
  unfold viewOf at he
  have := (List.mem_filter.mp he).1
  rw [hG.act] at this
  exact (hG.wf e (GLog.mem_all (GLog.mem_kept.mp this))).noFee

/-! ### an evaluated view, stated on what both peers see -/

/-- the result `r` of `computeView` on chain `c` over the tip `T`, in terms of the live adds
    `LL`/`LR` and the not-yet-committed resolutions `NL`/`NR` as seen by the construction. -/
structure VEq (c : Chain) (init : Bool) (T : Commit) (r : ViewResult) (LL LR NL NR : List AEntry) : Prop where
  liveL : r.liveL.map (absE c) = LL
  liveR : r.liveR.map (absE c) = LR
  fee : r.feePerKw = T.feePerKw
  our : r.our + sumBy AEntry.amt (LL.filter (fun a => !a.added)) =
    T.our + (if init then 1000 * T.fee else 0) +
      (sumBy AEntry.amt (NL.filter (fun a => a.ty == .settle)) + sumBy AEntry.amt (NR.filter (fun a => a.ty != .settle)))
  their : r.their + sumBy AEntry.amt (LR.filter (fun a => !a.added)) =
    T.their + (if init then 0 else 1000 * T.fee) +
      (sumBy AEntry.amt (NR.filter (fun a => a.ty == .settle)) + sumBy AEntry.amt (NL.filter (fun a => a.ty != .settle)))

theorem veq_of_computeView {n : Node} {c : Chain} {vL vR : List Entry} {r : ViewResult}
    {LL LR NL NR : List AEntry}
    (h : computeView n c vL vR = .ok r)
    (h1 : (liveAdds vL (resolutions vR)).map (absE c) = LL)
    (h2 : (liveAdds vR (resolutions vL)).map (absE c) = LR)
    (h3 : (newRes c vL).map (absE c) = NL) (h4 : (newRes c vR).map (absE c) = NR)
    (hfL : ∀ e ∈ vL, e.isFee = false) (hfR : ∀ e ∈ vR, e.isFee = false) :
    VEq c n.cfg.initiator (n.chain c).tip r LL LR NL NR := by
  have f := computeView_ok h
  have ho := f.our; have ht := f.their
  rw [settleCredit_newRes, failCredit_newRes, addDebit_abs, f.liveL, h1, h3, h4] at ho
  rw [settleCredit_newRes, failCredit_newRes, addDebit_abs, f.liveR, h2, h3, h4] at ht
  refine ⟨by rw [f.liveL]; exact h1, by rw [f.liveR]; exact h2, ?_, ho, ht⟩
  rw [f.fee]
  cases n.cfg.initiator
  · exact viewFee_noFee _ hfR
  · exact viewFee_noFee _ hfL

/-- mirrored views over mirrored tips give mirrored evaluations. -/
theorem veq_mirror {ia : Bool} {Ta Tb : Commit} {ra rb : ViewResult} {LL LR NL NR : List AEntry}
    (ha : VEq .rem ia Ta ra LL LR NL NR) (hb : VEq .loc (!ia) Tb rb LR LL NR NL) (ht : TipMirror Ta Tb) :
    rb.our = ra.their ∧ rb.their = ra.our ∧ rb.feePerKw = ra.feePerKw ∧
    rb.liveL.map (absE .loc) = ra.liveR.map (absE .rem) ∧
    rb.liveR.map (absE .loc) = ra.liveL.map (absE .rem) := by
  have a1 := ha.our; have a2 := ha.their; have b1 := hb.our; have b2 := hb.their
  rw [ht.our, ht.fee] at b1
  rw [ht.their, ht.fee] at b2
  refine ⟨?_, ?_, by rw [ha.fee, hb.fee, ht.feePerKw], by rw [hb.liveL, ha.liveR], by rw [hb.liveR, ha.liveL]⟩
  · cases ia <;> simp only [Bool.not_true, Bool.not_false, Bool.false_eq_true, if_true, if_false] at a1 a2 b1 b2 <;> omega
  · cases ia <;> simp only [Bool.not_true, Bool.not_false, Bool.false_eq_true, if_true, if_false] at a1 a2 b1 b2 <;> omega

/-- the receiver's construction over a mirrored evaluation is the signer's, mirrored. -/
theorem build_mirror {ca cb : Cfg} (hcfg : cb = ca.mirror) {Ta Tb : Commit} {ra rb : ViewResult}
    {a1 a2 a3 a4 b1 b2 b3 b4 : Nat} {cma cmb : Commit} (hth : Tb.height = Ta.height)
    (m1 : rb.our = ra.their) (m2 : rb.their = ra.our) (m3 : rb.feePerKw = ra.feePerKw)
    (m4 : rb.liveL.map (absE .loc) = ra.liveR.map (absE .rem))
    (m5 : rb.liveR.map (absE .loc) = ra.liveL.map (absE .rem))
    (hba : buildCommit ca .rem Ta ra a1 a2 a3 a4 = .ok cma)
    (hbb : buildCommit cb .loc Tb rb b1 b2 b3 b4 = .ok cmb) :
    cmb.sigView = cma.sigView ∧ TipMirror cma cmb ∧
    (∃ o i, cma.htlcs = o ++ i ∧ cmb.htlcs.map mirrorHtlc = i ++ o) := by
  obtain ⟨c1, c2, c3, c4, c5, c6⟩ := mirror_cfg_facts hcfg
  have hhtlc : ∃ o i, cma.htlcs = o ++ i ∧ cmb.htlcs.map mirrorHtlc = i ++ o := by
    refine ⟨_, _, buildCommit_htlcs hba, ?_⟩
    rw [buildCommit_htlcs hbb, List.map_append, htlcOf_abs, htlcOf_abs, map_mirror_htlcOfA, map_mirror_htlcOfA,
        htlcOf_abs, htlcOf_abs, m3, m4, m5]
    simp only [secondFee, Cfg.dust, c1, c5, c6, Bool.not_true, Bool.not_false]
  have hsig : cmb.sigView = cma.sigView := by
    rw [buildCommit_sig_loc hbb, buildCommit_sig_rem hba]
    rw [hth, m1, m2, m3, m4, m5, c1, c2]
    unfold sigOfView
    simp only [c3, c4, c5, c6]
  obtain ⟨fa, oa, ta⟩ := buildCommit_bal hba
  obtain ⟨fb, ob, tb⟩ := buildCommit_bal hbb
  have hfee : cmb.fee = cma.fee := by
    rw [fa, fb]
    have e1 := houts_abs cb false .loc rb.feePerKw .offered rb.liveL
    have e2 := houts_abs cb true .loc rb.feePerKw .received rb.liveR
    have e3 := houts_abs ca true .rem ra.feePerKw .offered ra.liveR
    have e4 := houts_abs ca false .rem ra.feePerKw .received ra.liveL
    simp only [houts, secondFee, Cfg.dust] at e1 e2 e3 e4
    rw [nondust_len .offered (List.map (htlcOf cb false Chain.loc rb.feePerKw) rb.liveL),
        nondust_len .received (List.map (htlcOf cb true Chain.loc rb.feePerKw) rb.liveR),
        nondust_len .received (List.map (htlcOf ca false Chain.rem ra.feePerKw) ra.liveL),
        nondust_len .offered (List.map (htlcOf ca true Chain.rem ra.feePerKw) ra.liveR),
        e1, e2, e3, e4, m3, m4, m5, c1, c4, c5, c6]
    rw [Nat.add_comm (houtsA (htlcTimeoutFee ca ra.feePerKw) ca.dustR OKind.offered
      (List.map (absE Chain.rem) ra.liveR)).length]
  have h1 : cmb.sigView.height = cma.sigView.height := by rw [hsig]
  have h2 : cmb.sigView.feePerKw = cma.sigView.feePerKw := by rw [hsig]
  refine ⟨hsig, ⟨h1, ?_, ?_, hfee, h2⟩, hhtlc⟩
  · rw [ob, ta, ← fb, ← fa, hfee, m1, c2]
  · rw [tb, oa, ← fb, ← fa, hfee, m2, c2, Bool.not_not]

end LndModel.C01
