/-
C14 — part 6: operations issued BETWEEN `ConnectTip` and its `NotifyHeight`.

Parts 2–4 take `ConnectTip(h, b)` + `NotifyHeight(h)` as one step (`WOp.tip`).  The chain
backends call the two functions one after the other from the same goroutine, but registrations,
cancellations and historical-rescan completions come from other goroutines and can take the
notifier's mutex in between.  This module splits `tip` into `connect` and `notify` and admits
register / cancel / update in the intermediate ("mid") state.

What is different in the mid state: the notifier's `currentHeight` is already the new height
`cc + 1`, but the clients queued at `cc + 1` have not been served yet.  A registration for a request
whose details are known runs `dispatchConfDetails` for EVERY live client of the request with the new
height, so a client queued at `cc + 1` is handed its `Confirmed` by the registration of another
client and stays in `ntfnsByConfirmHeight[cc + 1]` until `NotifyHeight(cc + 1)` skips it (because
of the `dispatched` flag) and deletes the queue.  `CoreM` is `Core` with exactly this extra case.
-/
import LndModel.C14.Chain

namespace LndModel.C14

/-- bookkeeping of one client between `ConnectTip(cc + 1)` and `NotifyHeight(cc + 1)` -/
def CoreM (cc limit : Nat) (det : Option ConfDetails) (n : ConfNtfn) : Prop :=
  n.stuck = false ∧ 1 ≤ n.numConfs ∧ n.numConfs ≤ limit ∧
  (n.live = true → n.closed = false) ∧ (n.live = false → n.queuedAt = []) ∧
  (n.live = true →
    match det with
    | none => n.dispatched = false ∧ n.queuedAt = []
    | some d =>
      (n.dispatched = true →
        n.queuedAt = [] ∨ (n.queuedAt = [cc + 1] ∧ d.height + n.numConfs - 1 = cc + 1)) ∧
      (n.dispatched = false →
        n.queuedAt = [d.height + n.numConfs - 1] ∧ cc < d.height + n.numConfs - 1))

theorem Core.toM {cc cur limit : Nat} {det : Option ConfDetails} {n : ConfNtfn}
    (h : Core cur limit det n) (hc : cc ≤ cur) : CoreM cc limit det n := by
  obtain ⟨h1, h2, h3, h4, h5, h6⟩ := h
  refine ⟨h1, h2, h3, h4, h5, fun hl => ?_⟩
  have := h6 hl
  cases det with
  | none => exact this
  | some d =>
    simp only at this ⊢
    exact ⟨fun hd => Or.inl (this.1 hd), fun hd => ⟨(this.2 hd).1, by have := (this.2 hd).2; omega⟩⟩

theorem CoreM.none {cc cur limit : Nat} {n : ConfNtfn} (h : CoreM cc limit none n) :
    Core cur limit none n := h

theorem CoreM.dead {cc cc' limit : Nat} {det det' : Option ConfDetails} {n : ConfNtfn}
    (h : CoreM cc limit det n) (hl : n.live = false) : CoreM cc' limit det' n := by
  obtain ⟨h1, h2, h3, h4, h5, h6⟩ := h
  exact ⟨h1, h2, h3, h4, h5, fun hl' => by simp [hl] at hl'⟩

theorem CoreM.congr {cc limit : Nat} {det : Option ConfDetails} {n n' : ConfNtfn}
    (e1 : n'.stuck = n.stuck) (e2 : n'.numConfs = n.numConfs) (e3 : n'.live = n.live)
    (e4 : n'.closed = n.closed) (e5 : n'.queuedAt = n.queuedAt) (e6 : n'.dispatched = n.dispatched)
    (h : CoreM cc limit det n) : CoreM cc limit det n' := by
  unfold CoreM at *
  rw [e1, e2, e3, e4, e5, e6]; exact h

theorem CoreM.of_dead {cc limit : Nat} {det : Option ConfDetails} {n : ConfNtfn}
    (h1 : n.stuck = false) (h2 : 1 ≤ n.numConfs) (h3 : n.numConfs ≤ limit)
    (h4 : n.live = false) (h5 : n.queuedAt = []) : CoreM cc limit det n :=
  ⟨h1, h2, h3, fun h => by simp [h4] at h, fun _ => h5, fun h => by simp [h4] at h⟩

/-- `dispatchConfDetails` with the new height on a client that is consistent with the details:
    a client queued at `cc + 1` is confirmed here and stays in the queue -/
theorem dispatch_sameM {cc limit : Nat} {n : ConfNtfn} (d : ConfDetails)
    (hc : Chan n) (h : CoreM cc limit (some d) n) (hl : n.live = true) :
    CoreM cc limit (some d) (n.dispatch (cc + 1) d) := by
  have h0 := h
  obtain ⟨h1, h2, h3, h4, h5, h6⟩ := h
  obtain ⟨hd1, hd2⟩ := h6 hl
  obtain ⟨c1, c2, c3, c4⟩ := hc (h4 hl)
  unfold ConfNtfn.dispatch ConfNtfn.sendUpdate ConfNtfn.sendConfirmed
  cases hdd : n.dispatched with
  | true => simpa using h0
  | false =>
    obtain ⟨hq, hlt⟩ := hd2 hdd
    simp only [Bool.false_eq_true, ↓reduceIte]
    have hnc : ¬ (n.numConfs ≤ 0) := by omega
    split
    · rename_i hle
      have hch : d.height + n.numConfs - 1 = cc + 1 := by omega
      split
      · simp [CoreM, h1, h2, h3, h4, hl, c2, hq, hch]
      · simp [CoreM, h1, h2, h3, h4, hl, c1, c2, hq, hch, hnc]
    · split
      · simp [CoreM, h1, h2, h3, h4, hl, hdd, hq, addH_self]; omega
      · simp [CoreM, h1, h2, h3, h4, hl, hdd, hq, addH_self, c1, hnc]; omega

theorem cancelled_coreM {cc limit : Nat} {det : Option ConfDetails} {n : ConfNtfn}
    (h : CoreM cc limit det n) (hl : n.live = true) : CoreM cc limit det (n.cancelled det) := by
  obtain ⟨h1, h2, h3, h4, h5, h6⟩ := h
  have := h6 hl
  refine CoreM.of_dead (by simpa [ConfNtfn.cancelled] using h1) (by simpa [ConfNtfn.cancelled] using h2)
    (by simpa [ConfNtfn.cancelled] using h3) (by simp [ConfNtfn.cancelled]) ?_
  cases det with
  | none => simpa [ConfNtfn.cancelled] using this.2
  | some d =>
    simp only at this
    cases hdd : n.dispatched with
    | true =>
      rcases this.1 hdd with hq | ⟨hq, hch⟩
      · simp [ConfNtfn.cancelled, hq, delH_nil]
      · simp [ConfNtfn.cancelled, hq, hch, delH_self]
    | false => simp [ConfNtfn.cancelled, (this.2 hdd).1, delH_self]

theorem drained_coreM {cc limit : Nat} {det : Option ConfDetails} {n : ConfNtfn}
    (h : CoreM cc limit det n) : CoreM cc limit det (if n.closed then n else n.drained) := by
  split
  · exact h
  · exact CoreM.congr rfl rfl rfl rfl rfl rfl h

theorem updateAt_coreM {cc limit height : Nat} {det : Option ConfDetails} {d : ConfDetails}
    {n : ConfNtfn} (hc : Chan n) (h : CoreM cc limit det n) (hl : n.live = true) :
    CoreM cc limit det (n.updateAt d height) ∧
      ((n.updateAt d height).closed = false → (n.updateAt d height).confirmed = []) := by
  obtain ⟨c1, c2, c3, c4⟩ := hc (h.2.2.2.1 hl)
  unfold ConfNtfn.updateAt
  simp only
  split
  · exact ⟨h, fun _ => c2⟩
  · obtain ⟨f1, f2, f3, f4, f5, f6, f7⟩ :=
      sendUpdate_fields n (d.height + n.numConfs - 1 - height) d.height c1 h.2.1
    exact ⟨CoreM.congr f1 f2 f3 f4 f5 f6 h, fun _ => by rw [f7]; exact c2⟩

/-- second and third pass of `NotifyHeight(cc + 1)` over one client in the mid state: a client that
    a mid-state registration has already confirmed is skipped and leaves the queue -/
theorem confirm_unqueue_coreM {cc limit : Nat} {d : ConfDetails} {n : ConfNtfn}
    (h : CoreM cc limit (some d) n) (hc : n.closed = false → n.confirmed = []) :
    Core (cc + 1) limit (some d) ((n.confirmAt d (cc + 1)).unqueue (cc + 1)) := by
  obtain ⟨h1, h2, h3, h4, h5, h6⟩ := h
  unfold ConfNtfn.confirmAt ConfNtfn.unqueue
  cases hl : n.live with
  | false =>
    have hq := h5 hl
    simp [hl, hq, delH_nil, Core, h1, h2, h3]
  | true =>
    have c2 := hc (h4 hl)
    obtain ⟨hd1, hd2⟩ := h6 hl
    cases hdd : n.dispatched with
    | true =>
      rcases hd1 hdd with hq | ⟨hq, _⟩
      · simp [hdd, hq, delH_nil, Core, h1, h2, h3, h4, hl]
      · simp [hdd, hq, delH_self, Core, h1, h2, h3, h4, hl]
    | false =>
      obtain ⟨hq, hlt⟩ := hd2 hdd
      by_cases hH : d.height + n.numConfs - 1 = cc + 1
      · simp [hdd, hq, hH, ConfNtfn.sendConfirmed, c2, delH_self, Core, h1, h2, h3, h4, hl]
      · have hne' : ([d.height + n.numConfs - 1].contains (cc + 1)) = false := by
          simp; omega
        have hdl : delH (cc + 1) [d.height + n.numConfs - 1] = [d.height + n.numConfs - 1] :=
          delH_other hH
        simp only [hdd, hq, hne', Bool.false_and, Bool.false_eq_true, ↓reduceIte, hdl]
        refine ⟨h1, h2, h3, h4, fun x => by simp [hl] at x, fun _ => ?_⟩
        simp only [hdd, Bool.false_eq_true, false_implies, true_and, forall_const]
        omega

/-! ## request level -/

/-- the request invariant in the mid state: `Pre0` at the new height, clients as in `CoreM` -/
def PreM (cc limit maxTip cover : Nat) (chain : List Block) (r : ConfReq) : Prop :=
  Pre0 (cc + 1) limit maxTip cover chain r ∧ ∀ n ∈ r.ntfns, CoreM cc limit r.details n

theorem Pre.toM {cc limit maxTip cover : Nat} {chain : List Block} {r : ConfReq}
    (h : Pre cc (cc + 1) limit maxTip cover chain r) : PreM cc limit maxTip cover chain r :=
  ⟨h.1, fun n hn => (h.2 n hn).toM (Nat.le_refl _)⟩

theorem Pre.toM' {cc limit maxTip cover : Nat} {chain : List Block} {r : ConfReq}
    (h : Pre (cc + 1) (cc + 1) limit maxTip cover chain r) : PreM cc limit maxTip cover chain r :=
  ⟨h.1, fun n hn => (h.2 n hn).toM (Nat.le_succ _)⟩

/-- with no details known the mid state is an ordinary state -/
theorem PreM.ri_of_none {cc limit maxTip cover : Nat} {chain : List Block} {r : ConfReq}
    (h : PreM cc limit maxTip cover chain r) (hch : ∀ n ∈ r.ntfns, Chan n) (hd : r.details = none) :
    RI (cc + 1) limit maxTip cover chain r :=
  ⟨⟨h.1, fun n hn => by have := h.2 n hn; rw [hd] at this ⊢; exact this.none⟩, hch⟩

theorem drainR_M {cc limit maxTip cover : Nat} {chain : List Block} {r : ConfReq}
    (h : PreM cc limit maxTip cover chain r) :
    PreM cc limit maxTip cover chain (drainR r) ∧ ∀ n ∈ (drainR r).ntfns, Chan n := by
  obtain ⟨h0, hcl⟩ := h
  refine ⟨⟨h0.congr rfl rfl rfl rfl rfl (fun _ => rfl) ?_, ?_⟩, ?_⟩
  · intro c
    refine all_map (P := fun n => n.live = false) (fun n hn => ?_) c
    split
    · exact hn
    · exact hn
  · exact all_map (P := CoreM cc limit r.details) (fun n hn => drained_coreM hn) hcl
  · intro n hn
    simp only [drainR, List.mem_map] at hn
    obtain ⟨m, _, rfl⟩ := hn
    exact drained_chan m

/-! ### CancelConf in the mid state -/

theorem cancel_preM {cc limit maxTip cover reg : Nat} {chain : List Block} {r : ConfReq}
    (h : PreM cc limit maxTip cover chain r) :
    PreM cc limit maxTip cover chain (r.cancel reg) := by
  obtain ⟨h0, hcl⟩ := h
  unfold ConfReq.cancel
  split
  · exact ⟨h0, hcl⟩
  · refine ⟨h0.congr rfl rfl rfl rfl rfl (fun _ => rfl) ?_, ?_⟩
    · intro c
      refine all_map (P := fun n => n.live = false) (fun n hn => ?_) c
      split
      · rfl
      · exact hn
    · refine all_map (P := CoreM cc limit r.details) (fun n hn => ?_) hcl
      split
      · rename_i hc
        have hl : n.live = true := by simp at hc; exact hc.2
        exact cancelled_coreM hn hl
      · exact hn

/-! ### UpdateConfDetails in the mid state -/

theorem update_preM {cc limit maxTip cover a b : Nat} {chain : List Block} {r : ConfReq}
    {d : Option ConfDetails} (h : PreM cc limit maxTip cover chain r) (hch : ∀ n ∈ r.ntfns, Chan n)
    (hok : match d with
      | some d => OnChain chain r.key d ∧ ∃ n ∈ r.ntfns, n.live = true
      | none => ∀ (h : Nat) (bl : Block), a ≤ h → h ≤ b → 1 ≤ h → chain[h - 1]? = some bl →
          ¬ bl.has r.key) :
    PreM cc limit maxTip (coverAfter cover (some (a, b))) chain (r.update (cc + 1) limit d).1 := by
  cases hd : r.details with
  | none => exact (update_pre (h.ri_of_none hch hd) hok).toM'
  | some x =>
    have hcv : coverAfter cover (some (a, b)) ≤ cover := by
      simp only [coverAfter]; split <;> omega
    have he : (r.update (cc + 1) limit d).1 = r := by
      unfold ConfReq.update
      split
      · rfl
      · simp [hd]
    rw [he]
    refine ⟨h.1.cover_le (fun _ hd' => ?_), h.2⟩
    rw [hd] at hd'; cases hd'

/-! ### RegisterConf in the mid state -/

theorem dispatchAll_preM {cc limit maxTip cover : Nat} {chain : List Block} {r : ConfReq}
    {d : ConfDetails} (h0 : Pre0 (cc + 1) limit maxTip cover chain r) (hd : r.details = some d)
    (hcl : ∀ n ∈ r.ntfns, Chan n ∧ (CoreM cc limit (some d) n ∨ Core (cc + 1) limit none n)) :
    PreM cc limit maxTip cover chain (r.dispatchAll (cc + 1) limit) := by
  unfold ConfReq.dispatchAll
  simp only [hd]
  constructor
  · refine ⟨h0.len, h0.tip, h0.valid, h0.nopanic, ?_, ?_, ?_, ?_⟩
    · intro hs
      obtain ⟨a, _, _⟩ := h0.unset hs
      rw [hd] at a; cases a
    · intro d' hd'
      simp only [hd, Option.some.injEq] at hd'
      subst hd'
      obtain ⟨a, b, c⟩ := h0.det d hd
      refine ⟨a, b, ?_⟩
      rcases c with c | ⟨c1, c2⟩
      · left; simp only [c]; split <;> simp [addH_self]
      · simp only [c1]
        split
        · left; exact addH_nil _
        · right; exact ⟨rfl, c2⟩
    · intro hn; simp [hd] at hn
    · intro _ hn; simp [hd] at hn
  · simp only [hd]
    refine all_map (P := fun n => Chan n ∧ (CoreM cc limit (some d) n ∨ Core (cc + 1) limit none n))
      (fun n hn => ?_) hcl
    obtain ⟨hc, hco⟩ := hn
    cases hl : n.live with
    | false =>
      simp only [Bool.false_eq_true, ↓reduceIte]
      rcases hco with hco | hco
      · exact hco
      · exact (hco.dead (cur' := cc + 1) (det' := some d) hl).toM (Nat.le_succ _)
    | true =>
      simp only [↓reduceIte]
      rcases hco with hco | hco
      · exact dispatch_sameM d hc hco hl
      · exact (dispatch_fresh d hc hco hl).toM (Nat.le_succ _)

theorem register_preM {cc limit maxTip cover reg n hint : Nat} {chain : List Block} {r : ConfReq}
    (h : PreM cc limit maxTip cover chain r) (hch : ∀ n ∈ r.ntfns, Chan n)
    (hn1 : 1 ≤ n) (hn2 : n ≤ limit) :
    PreM cc limit maxTip (if r.set then cover else cc + 1 + 1) chain
      (r.register (cc + 1) limit reg n hint).1 := by
  cases hd : r.details with
  | none => exact (register_pre (h.ri_of_none hch hd) hn1 hn2).toM'
  | some d =>
    obtain ⟨h0, hcl⟩ := h
    have hset : r.set = true := by
      cases hs : r.set with
      | true => rfl
      | false => have := (h0.unset hs).1; rw [hd] at this; cases this
    have hres : r.rescan = .complete := (h0.det d hd).2.1
    have he : (r.register (cc + 1) limit reg n hint).1 =
        (r.addNtfn { reg := reg, numConfs := n, left := n }).dispatchAll (cc + 1) limit := by
      unfold ConfReq.register ConfReq.opened
      simp only [hset, ↓reduceIte]
      unfold ConfReq.registered
      simp [ConfReq.addNtfn, hres]
    rw [he]
    simp only [hset, ↓reduceIte]
    have h1 : Pre0 (cc + 1) limit maxTip cover chain
        (r.addNtfn { reg := reg, numConfs := n, left := n }) := by
      refine ⟨h0.len, h0.tip, h0.valid, h0.nopanic, ?_, ?_, h0.nodet, h0.cov⟩
      · intro hs; simp [ConfReq.addNtfn, hset] at hs
      · intro d' hd'; exact h0.det d' hd'
    refine dispatchAll_preM h1 hd (fun m hm => ?_)
    simp only [ConfReq.addNtfn, List.mem_append, List.mem_singleton] at hm
    rcases hm with hm | rfl
    · have := hcl m hm
      rw [hd] at this
      exact ⟨hch m hm, Or.inl this⟩
    · exact ⟨new_chan, Or.inr (new_core hn1 hn2)⟩

/-! ### NotifyHeight from the mid state -/

def Q1M (cc limit : Nat) (det : Option ConfDetails) (n : ConfNtfn) : Prop :=
  CoreM cc limit det n ∧ (n.closed = false → n.confirmed = [])

theorem notifyUpdates_preM {cc limit maxTip cover height : Nat} {chain : List Block} {r : ConfReq}
    (hp : PreM cc limit maxTip cover chain r) (hch : ∀ n ∈ r.ntfns, Chan n) :
    Pre0 (cc + 1) limit maxTip cover chain (r.notifyUpdates height) ∧
      (r.notifyUpdates height).details = r.details ∧
      ∀ n ∈ (r.notifyUpdates height).ntfns, Q1M cc limit r.details n := by
  obtain ⟨h0, hcl⟩ := hp
  have base : ∀ n ∈ r.ntfns, Q1M cc limit r.details n := fun n hn =>
    ⟨hcl n hn, fun hc => (hch n hn hc).2.1⟩
  unfold ConfReq.notifyUpdates
  split
  · exact ⟨h0, rfl, base⟩
  · rename_i hemp
    have hne : r.initialAt ≠ [] := by simpa using hemp
    have hset : r.set = true := by
      cases hs : r.set with
      | true => rfl
      | false => exact absurd (h0.unset hs).2.1 hne
    obtain ⟨d, hd⟩ : ∃ d, r.details = some d := by
      cases hd : r.details with
      | none => exact absurd (h0.nodet hd) hne
      | some d => exact ⟨d, rfl⟩
    have hcl' : ∀ n ∈ r.ntfns, CoreM cc limit (some d) n := fun n hn => by
      have := hcl n hn; rw [hd] at this; exact this
    simp only [hset, hd]
    refine ⟨h0.congr rfl hset.symm hd.symm rfl rfl (fun _ => rfl) ?_, trivial, ?_⟩
    · intro c
      refine all_map (P := fun n => n.live = false) (fun n hn => ?_) c
      simp [hn]
    · refine all_map (P := fun n => Chan n ∧ CoreM cc limit (some d) n) (fun n hn => ?_)
        (fun n hn => ⟨hch n hn, hcl' n hn⟩)
      cases hl : n.live with
      | true =>
        simp only [↓reduceIte]
        exact updateAt_coreM hn.1 hn.2 hl
      | false =>
        simp only [Bool.false_eq_true, ↓reduceIte]
        exact ⟨hn.2, fun hc => (hn.1 hc).2.1⟩

theorem notify_preM {cc limit maxTip cover : Nat} {chain : List Block} {r : ConfReq}
    (hp : PreM cc limit maxTip cover chain r) (hch : ∀ n ∈ r.ntfns, Chan n) :
    Pre (cc + 1) (cc + 1) limit maxTip cover chain (r.notify (cc + 1)) := by
  cases hd : r.details with
  | none =>
    -- ordinary state: the macro-step lemma applies
    have hri := hp.ri_of_none hch hd
    exact notify_pre ⟨hri.1.1, fun n hn => (hri.1.2 n hn).mono (Nat.le_succ _)⟩ hch
  | some d =>
    obtain ⟨g0, gd, gq⟩ := notifyUpdates_preM (height := cc + 1) hp hch
    unfold ConfReq.notify
    generalize r.notifyUpdates (cc + 1) = r1 at g0 gd gq
    simp only
    rw [hd] at gq
    have hd1 : r1.details = some d := by rw [gd, hd]
    have hset : r1.set = true := by
      cases hs : r1.set with
      | true => rfl
      | false => have := (g0.unset hs).1; rw [hd1] at this; cases this
    have hfinal : ∀ n ∈ r1.ntfns,
        Core (cc + 1) limit (some d) ((n.confirmAt d (cc + 1)).unqueue (cc + 1)) :=
      fun n hn => confirm_unqueue_coreM (gq n hn).1 (gq n hn).2
    unfold ConfReq.notifyDue
    split
    · rename_i hnone
      have hnone' : ∀ n ∈ r1.ntfns, n.queuedAt.contains (cc + 1) = false := by
        have : (r1.ntfns.any fun n => n.queuedAt.contains (cc + 1)) = false := by simpa using hnone
        rw [List.any_eq_false] at this
        intro n hn; simpa using this n hn
      refine ⟨g0.congr rfl rfl rfl rfl rfl (fun _ => rfl) ?_, ?_⟩
      · intro c
        refine all_map (P := fun n => n.live = false) (fun n hn => ?_) c
        simpa [ConfNtfn.unqueue] using hn
      · simp only [hd1]
        intro m hm
        simp only [List.mem_map] at hm
        obtain ⟨n, hn, rfl⟩ := hm
        have := hfinal n hn
        rw [confirmAt_noop (hnone' n hn)] at this
        exact this
    · simp only [hset, hd1]
      have hnopanic : (r1.ntfns.any fun n =>
          n.queuedAt.contains (cc + 1) && !n.dispatched && n.closed) = false := by
        rw [List.any_eq_false]
        intro n hn
        obtain ⟨⟨h1, h2, h3, h4, h5, h6⟩, _⟩ := gq n hn
        cases hl : n.live with
        | false => simp [h5 hl]
        | true => simp [h4 hl]
      simp only [hnopanic, Bool.false_eq_true, ↓reduceIte]
      refine ⟨g0.congr rfl hset.symm hd1.symm rfl rfl (fun _ => rfl) ?_, ?_⟩
      · intro c m hm
        simp only [List.mem_map] at hm
        obtain ⟨n1, ⟨n, hn, rfl⟩, rfl⟩ := hm
        have := c n hn
        simp only [ConfNtfn.unqueue, ConfNtfn.confirmAt]
        split <;> simp [ConfNtfn.sendConfirmed, this] <;> (split <;> simp [this])
      · simp only [hd1]
        intro m hm
        simp only [List.mem_map] at hm
        obtain ⟨n1, ⟨n, hn, rfl⟩, rfl⟩ := hm
        exact hfinal n hn

end LndModel.C14
