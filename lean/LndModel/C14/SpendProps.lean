/-
C14 — property theorems, part 3: what a SPEND client holds vs. the active chain ("the same holds
for spends of watched outpoints"), and the persisted spend hint.

Setting (see `SpendChain.lean`): one spend request for outpoint `key` of a notifier started at
height `chain0.length`; arbitrary lists of operations register / cancel / rescan-completes /
`tip b` (= `ConnectTip` followed by its `NotifyHeight`) / `untip` (= `DisconnectTip`), every client
emptying its channels after each notifier call.  Environment assumptions (`SOk`, per operation):

  * a historical rescan reports the truth about the active chain at the moment it completes,
    restricted to the dispatched range (found ⇒ the details are on the chain; not found ⇒ no block
    of the range spends the outpoint), and — this excludes the known finding
    F-c14-orphan-details — a *found* result arrives while the request still has a live client;
  * the chain stays valid (a connected block spends the outpoint only if no other block of the
    active chain does: conflicting spenders are on competing branches);
  * reorg depth below the safety limit: `untip` only while `cur + limit > highest tip ever seen`.
-/
import LndModel.C14.SpendHint
import LndModel.C14.SpendPayload
import LndModel.C14.Props

namespace LndModel.C14

/-! ### the history invariant of part 1, for the single-request world -/

theorem drainS_B {r : SpendReq} (h : r.AllA) : (drainS r).AllB := by
  refine all_map (P := SpendNtfn.A) (fun n hn => ?_) h
  split
  · rename_i hcl; exact SpendNtfn.closed_B hn hcl
  · rename_i hcl; exact SpendNtfn.drained_B hn (by simpa using hcl)

theorem swstep_B {w : SWorld} (op : SOp) (h : w.r.AllB) : (swstep w op).r.AllB := by
  cases op with
  | register reg hint => exact drainS_B (SpendReq.register_A _ _ _ _ h)
  | cancel reg => exact drainS_B (SpendReq.cancel_A _ h)
  | update d => exact drainS_B (SpendReq.update_A _ _ _ h)
  | tip b => exact drainS_B (SpendReq.notify_A _ _ _ (drainS_B (SpendReq.connect_B _ _ b h).toA))
  | untip => exact drainS_B (SpendReq.disconnect_A _ _ h)

theorem srun_wB {w : SWorld} (ops : List SOp) (h : w.r.AllB) : (ops.foldl swstep w).r.AllB := by
  induction ops generalizing w with
  | nil => exact h
  | cons op rest ih => exact ih (swstep_B op h)

/-! ### headline theorems -/

section
variable (key limit : Nat) (chain0 : List Block) (hv : ValidS chain0 key)
variable (ops : List SOp) (hok : SOkRun (SWorld.init key limit chain0) ops)
include hv hok

/-- `spend_only_if_on_active_chain`: after any admissible history, a client whose event history
    says "spent, not retracted" (`holdsSpend seen`) is backed by details that name a block of the
    ACTIVE chain in which the reported input of the reported transaction spends the outpoint. -/
theorem spend_only_if_on_active_chain :
    let w := ops.foldl swstep (SWorld.init key limit chain0)
    ∀ n ∈ w.r.ntfns, n.live = true → holdsSpend n.seen = true →
      ∃ d, w.r.details = some d ∧ OnChainS w.chain key d := by
  intro w n hn hl hh
  have hinv : SWInv w := srun_inv (sinit_inv key limit chain0 hv) hok
  have hB : w.r.AllB := srun_wB ops (fun n hn => by simp [SWorld.init] at hn)
  obtain ⟨b, hb, hcl⟩ := hB n hn
  have hclosed : n.closed = false := (hinv.1.2 n hn).2.1 hl
  obtain ⟨_, _, hbd⟩ := hcl hclosed
  have hd : n.dispatched = true := by
    rw [← hbd, holds_of_okFromS hb]; exact hh
  obtain ⟨d, h1, h2⟩ := sinv_sound hinv hn hl hd
  have hk : w.r.key = key := srun_key _ _
  exact ⟨d, h1, by rw [← hk]; exact h2⟩

/-- the payload the client actually read: the last `Spend` event in the history of a client that
    holds a spend notification carries exactly the request's details, which name a block of the
    ACTIVE chain (height, spending transaction and input index are those of the active chain — in
    particular, after a reorg that replaced the spender by a conflicting one, the new spender). -/
theorem spend_payload_on_active_chain :
    let w := ops.foldl swstep (SWorld.init key limit chain0)
    ∀ n ∈ w.r.ntfns, n.live = true → holdsSpend n.seen = true →
      ∃ d, lastSpendD n.seen = some d ∧ w.r.details = some d ∧ OnChainS w.chain key d := by
  intro w n hn hl hh
  have hinv : SWInv w := srun_inv (sinit_inv key limit chain0 hv) hok
  have hB : w.r.AllB := srun_wB ops (fun n hn => by simp [SWorld.init] at hn)
  have hP : SPayAll w.r := srun_pay (sinit_inv key limit chain0 hv) hok
    (fun n hn => by simp [SWorld.init] at hn)
  obtain ⟨b, hb, hcl⟩ := hB n hn
  have hclosed : n.closed = false := (hinv.1.2 n hn).2.1 hl
  obtain ⟨_, _, hbd⟩ := hcl hclosed
  have hd : n.dispatched = true := by
    rw [← hbd, holds_of_okFromS hb]; exact hh
  obtain ⟨d, h1, h2⟩ := sinv_sound hinv hn hl hd
  have hk : w.r.key = key := srun_key _ _
  have hpay := hP n hn hl hd
  have hsp : n.spend = [] := (hinv.2 n hn hclosed).1
  rw [hsp] at hpay
  refine ⟨d, ?_, h1, by rw [← hk]; exact h2⟩
  rw [← h1]; simpa [lastFromS] using hpay

/-- `spend_if_on_active_chain`: when the outpoint is spent on the active chain at a height `h`
    that the request has examined (`cover ≤ h`: seen at tip, or covered by a completed rescan),
    every live client's history says "spent, not retracted", and the request's details are the
    ones at height `h` on the active chain.  (No depth condition: spends are reported at one
    confirmation.) -/
theorem spend_if_on_active_chain :
    let w := ops.foldl swstep (SWorld.init key limit chain0)
    w.r.set = true →
    ∀ (h : Nat) (b : Block), 1 ≤ h → w.chain[h - 1]? = some b → b.spent key → w.cover ≤ h →
    ∀ n ∈ w.r.ntfns, n.live = true →
      holdsSpend n.seen = true ∧
      ∃ d, w.r.details = some d ∧ d.height = h ∧ OnChainS w.chain key d := by
  intro w hs h b h1 hb hhas hcov n hn hl
  have hinv : SWInv w := srun_inv (sinit_inv key limit chain0 hv) hok
  have hk : w.r.key = key := srun_key _ _
  obtain ⟨hd, d, e1, e2, e3⟩ :=
    sinv_complete hinv hs h1 hb (by rw [hk]; exact hhas) hcov hn hl
  have hB : w.r.AllB := srun_wB ops (fun n hn => by simp [SWorld.init] at hn)
  obtain ⟨b', hb', hcl⟩ := hB n hn
  have hclosed : n.closed = false := (hinv.1.2 n hn).2.1 hl
  obtain ⟨_, _, hbd⟩ := hcl hclosed
  refine ⟨?_, d, e1, e2, by rw [← hk]; exact e3⟩
  unfold holdsSpend
  rw [← holds_of_okFromS hb', hbd]; exact hd

/-- a live client that has not (or no longer) been told "spent": the request knows of no spend,
    hence (by `spend_if_on_active_chain`) no examined block of the active chain spends the
    outpoint -/
theorem spend_pending_means_unknown :
    let w := ops.foldl swstep (SWorld.init key limit chain0)
    ∀ n ∈ w.r.ntfns, n.live = true → holdsSpend n.seen = false → w.r.details = none := by
  intro w n hn hl hh
  have hinv : SWInv w := srun_inv (sinit_inv key limit chain0 hv) hok
  have hB : w.r.AllB := srun_wB ops (fun n hn => by simp [SWorld.init] at hn)
  obtain ⟨b, hb, hcl⟩ := hB n hn
  have hclosed : n.closed = false := (hinv.1.2 n hn).2.1 hl
  obtain ⟨_, _, hbd⟩ := hcl hclosed
  have hd : n.dispatched = false := by
    rw [← hbd, holds_of_okFromS hb]; exact hh
  cases hdet : w.r.details with
  | none => rfl
  | some d =>
    have hc := (hinv.1.2 n hn).2.2 hl
    rw [hdet] at hc
    have hle := (hinv.1.1.det d hdet).1.le
    rw [hinv.1.1.len] at hle
    rw [hc hle.2] at hd; cases hd

/-- under the assumptions no channel send ever blocks and no nil dereference happens -/
theorem spend_never_blocks_never_panics :
    let w := ops.foldl swstep (SWorld.init key limit chain0)
    w.r.panicked = false ∧ ∀ n ∈ w.r.ntfns, n.stuck = false :=
  sinv_live (srun_inv (sinit_inv key limit chain0 hv) hok)

end

/-! ### reorg notice -/

theorem unspend_seen {n : SpendNtfn} (hc : SChan n) (hcl : n.closed = false)
    (hd : n.dispatched = true) :
    n.unspend.closed = false ∧ n.unspend.drained.seen = n.seen ++ [.reorg] ∧
    n.unspend.drained.reg = n.reg := by
  obtain ⟨c1, c2, c3⟩ := hc hcl
  unfold SpendNtfn.unspend SpendNtfn.drained SpendNtfn.pending
  simp [hd, c1, c2, c3, hcl]

/-- `spend_reorg_notice_sent`: when the block that contains the spender known to the request is
    disconnected (within the reorg safety limit), the details are dropped and EVERY live client
    reads a `Reorg` in that very operation — before any renewed `Spend` (which can only follow a
    later `tip`). -/
theorem spend_reorg_notice_sent {w : SWorld} (h : SWInv w) (hok : SOk w .untip) {d : SpendDetails}
    (hdet : w.r.details = some d) (hh : d.height = w.cur) :
    (swstep w .untip).r.details = none ∧
    ∀ n ∈ w.r.ntfns, n.live = true →
      ∃ n' ∈ (swstep w .untip).r.ntfns, n'.reg = n.reg ∧ n'.seen = n.seen ++ [.reorg] := by
  obtain ⟨⟨h0, hcl⟩, hch⟩ := h
  obtain ⟨hc1, hlim⟩ := hok
  obtain ⟨hon, _, hini⟩ := h0.det d hdet
  have hini : w.r.spentAt = [d.height] := by
    rcases hini with c | ⟨_, c⟩
    · exact c
    · have := h0.tip; omega
  have hset : w.r.set = true := by
    cases hs : w.r.set with
    | true => rfl
    | false => have := (h0.unset hs).1; rw [hdet] at this; cases this
  obtain ⟨u1, u2, u3, u4, u5, u6, u7⟩ := supdateHint_fields (w.cur - 1) w.cur w.r
  simp only [swstep, drainS, SpendReq.disconnect]
  generalize w.r.updateHint (w.cur - 1) w.cur = r0 at u1 u2 u3 u4 u5 u6 u7
  have e1 : (!r0.spentAt.contains w.cur) = false := by rw [u4, hini]; simp [hh]
  have e2 : (!r0.set) = false := by rw [u2, hset]; rfl
  simp only [e1, e2, Bool.false_eq_true, ↓reduceIte]
  refine ⟨trivial, fun n hn hl => ?_⟩
  have hclosed : n.closed = false := (hcl n hn).2.1 hl
  have hdisp : n.dispatched = true := by
    have := (hcl n hn).2.2 hl
    rw [hdet] at this
    exact this (by omega)
  obtain ⟨a, b, c⟩ := unspend_seen (hch n hn) hclosed hdisp
  refine ⟨n.unspend.drained, ?_, c, b⟩
  simp only [List.mem_map]
  refine ⟨n.unspend, ⟨n, by rw [u7]; exact hn, by simp [hl]⟩, ?_⟩
  simp [a]

/-- a `Spend` is put into a client's channel only by `dispatchSpendDetails`, with the request's
    current details as payload (function level; the two callers pass `r.details`) -/
theorem spend_sent_only_by_dispatch (n : SpendNtfn) (d : SpendDetails) :
    (n.dispatch d).spend = n.spend ∨ (n.dispatch d).spend = n.spend ++ [d] := by
  unfold SpendNtfn.dispatch
  split
  · exact Or.inl rfl
  · split
    · exact Or.inl rfl
    · exact Or.inr rfl

/-- for clients that do not read their channels after every call: an unread `Reorg` is removed
    only by `handleSpendDetailsAtTip` (a renewed spend at tip), never by any other function -/
theorem spend_reorg_kept (n : SpendNtfn) :
    (∀ d, n.reorg ≤ (n.dispatch d).reorg) ∧ n.reorg ≤ n.unspend.reorg ∧ n.reorg ≤ n.sendDone.reorg := by
  refine ⟨fun d => ?_, ?_, ?_⟩
  · unfold SpendNtfn.dispatch; split <;> (try split) <;> simp
  · unfold SpendNtfn.unspend; split
    · exact Nat.le_refl _
    · simp only; split <;> simp
  · unfold SpendNtfn.sendDone; split <;> simp

/-! ### hints move with the tip only for requests whose rescan is complete -/

theorem spend_hint_moves_only_when_complete_untip {w : SWorld} (h : SWInv w) :
    (swstep w .untip).r.hint = w.r.hint ∨
    ((swstep w .untip).r.hint = some (swstep w .untip).cur ∧ w.r.rescan = .complete) := by
  obtain ⟨⟨h0, _⟩, _⟩ := h
  simp only [swstep, drainS, sdisconnect_hint]
  rcases supdateHint_hint w.r (w.cur - 1) w.cur with e | ⟨e, c⟩
  · exact Or.inl e
  · refine Or.inr ⟨e, ?_⟩
    rcases c with ⟨_, b, _⟩ | c
    · exact b
    · cases hd : w.r.details with
      | none => rw [h0.nodet hd] at c; cases c
      | some d => exact (h0.det d hd).2.1

theorem spend_hint_moves_only_when_complete_tip {w : SWorld} (h : SWInv w) (b : Block) :
    (swstep w (.tip b)).r.hint = w.r.hint ∨
    ((swstep w (.tip b)).r.hint = some (swstep w (.tip b)).cur ∧
      (w.r.rescan = .complete ∨ b.spent w.r.key)) := by
  obtain ⟨⟨h0, _⟩, _⟩ := h
  obtain ⟨a1, a2, a3⟩ := satTip_spec w.r (w.cur + 1) (b.spendHits w.r.key)
  have hh : (swstep w (.tip b)).r.hint =
      (((b.spendHits w.r.key).foldl (fun r p => r.atTip ⟨w.cur + 1, p.1, p.2⟩) w.r).updateHint
        (w.cur + 1) (w.cur + 1)).hint := by
    simp only [swstep, drainS, (snotify_fields _ _ _ _).2.2.2, SpendReq.connect, smature_hint]
  rw [hh]
  generalize (b.spendHits w.r.key).foldl (fun r p => r.atTip ⟨w.cur + 1, p.1, p.2⟩) w.r = r1
    at a1 a2 a3
  rcases supdateHint_hint r1 (w.cur + 1) (w.cur + 1) with e | ⟨e, c⟩
  · left; rw [e, a1]
  · refine Or.inr ⟨e, ?_⟩
    rcases a3 with ⟨q, _⟩ | ⟨q1, _, _, _, _⟩
    · rw [q] at c
      left
      rcases c with ⟨_, x, _⟩ | c
      · exact x
      · cases hd : w.r.details with
        | none => rw [h0.nodet hd] at c; cases c
        | some d => exact (h0.det d hd).2.1
    · exact Or.inr q1

/-! ### the single-request world is the projection of the notifier model -/

theorem bridge_tip_spend (s : State) (b : Block) :
    (eager (eager s (.connect (s.cur + 1) b)) (.notify (s.cur + 1))).spends =
      s.spends.map (fun r => drainS ((drainS (r.connect (s.cur + 1) s.limit b)).notify
        (s.cur + 1) s.limit (s.cur + 1))) := by
  simp [eager, step, State.drain, drainS, List.map_map, Function.comp_def]

theorem bridge_untip_spend (s : State) :
    (eager s (.disconnect s.cur)).spends =
      s.spends.map (fun r => drainS (r.disconnect (s.cur - 1) s.cur)) := by
  simp [eager, step, State.drain, drainS, List.map_map, Function.comp_def]

theorem bridge_cancel_spend (s : State) (reg : Nat) :
    (eager s (.cancel reg)).spends = s.spends.map (fun r => drainS (r.cancel reg)) := by
  simp [eager, step, State.drain, drainS, List.map_map, Function.comp_def]

/-! ### non-vacuity: a concrete admissible history with a reorg and a conflicting spender -/

def Block.spentb (b : Block) (key : Nat) : Bool := !(b.spendHits key).isEmpty

theorem spentb_false {b : Block} {key : Nat} (h : b.spentb key = false) : ¬ b.spent key := by
  intro hh
  apply hh
  simpa [Block.spentb] using h

def sokb (w : SWorld) : SOp → Bool
  | .register _ _ => true
  | .cancel _ => true
  | .update d =>
    match w.range with
    | none => false
    | some (a, b0) =>
      match d with
      | some d =>
        decide (1 ≤ d.height) &&
        (match w.chain[d.height - 1]? with
         | some b => (b.spendHits w.r.key).contains (d.spender, d.input)
         | none => false) &&
        w.r.ntfns.any (·.live)
      | none => w.chain.zipIdx.all fun p =>
          !(decide (a ≤ p.2 + 1) && decide (p.2 + 1 ≤ b0)) || !p.1.spentb w.r.key
  | .tip b => !b.spentb w.r.key || w.chain.all (fun b' => !b'.spentb w.r.key)
  | .untip => decide (1 ≤ w.cur) && decide (w.cur + w.limit > w.maxTip)

theorem sokb_sound {w : SWorld} {op : SOp} (h : sokb w op = true) : SOk w op := by
  cases op with
  | register reg hint => trivial
  | cancel reg => trivial
  | update d =>
    simp only [sokb] at h
    cases hr : w.range with
    | none => simp [hr] at h
    | some ab =>
      obtain ⟨a, b0⟩ := ab
      simp only [hr] at h
      refine ⟨a, b0, hr, ?_⟩
      cases d with
      | some d =>
        simp only [Bool.and_eq_true, decide_eq_true_eq, List.any_eq_true] at h
        obtain ⟨⟨h1, h2⟩, n, hn, hl⟩ := h
        refine ⟨⟨h1, ?_⟩, n, hn, hl⟩
        cases hb : w.chain[d.height - 1]? with
        | none => simp [hb] at h2
        | some b =>
          simp only [hb, List.contains_iff_mem] at h2
          exact ⟨b, rfl, h2⟩
      | none =>
        simp only [List.all_eq_true] at h
        intro hh b hge hle h1 hb
        have hm : (b, hh - 1) ∈ w.chain.zipIdx := List.mk_mem_zipIdx_iff_getElem?.mpr hb
        have := h (b, hh - 1) hm
        simp only [Bool.or_eq_true, Bool.not_eq_true', Bool.and_eq_false_iff,
          decide_eq_false_iff_not] at this
        rcases this with (x | x) | x
        · omega
        · omega
        · exact spentb_false x
  | tip b =>
    simp only [sokb, Bool.or_eq_true, Bool.not_eq_true', List.all_eq_true] at h
    intro hb j b' hj
    rcases h with x | x
    · exact absurd hb (spentb_false x)
    · exact spentb_false (x b' (List.mem_of_getElem? hj))
  | untip => simpa [sokb, SOk] using h

def sokRunb : SWorld → List SOp → Bool
  | _, [] => true
  | w, op :: rest => sokb w op && sokRunb (swstep w op) rest

theorem sokRunb_sound {w : SWorld} {ops : List SOp} (h : sokRunb w ops = true) : SOkRun w ops := by
  induction ops generalizing w with
  | nil => trivial
  | cons op rest ih =>
    simp only [sokRunb, Bool.and_eq_true] at h
    exact ⟨sokb_sound h.1, ih h.2⟩

/-- outpoint 5 is spent by tx 7 (input 0) at height 2; that block and the next are reorged out;
    on the new branch the conflicting tx 8 spends it with its input 1 at height 2. -/
def sdemoOps : List SOp :=
  [.register 0 1, .update none,
   .tip ⟨11, [⟨7, [5]⟩]⟩, .tip ⟨12, []⟩, .untip, .untip,
   .tip ⟨13, [⟨3, [9]⟩, ⟨8, [4, 5]⟩]⟩, .tip ⟨14, []⟩]

def sdemoChain0 : List Block := [⟨10, []⟩]

theorem sdemo_valid : ValidS sdemoChain0 5 := by
  intro i j bi bj hi hj hbi _
  have : bi = ⟨10, []⟩ := by
    cases i with
    | zero => simpa [sdemoChain0] using hi.symm
    | succ k => simp [sdemoChain0] at hi
  subst this
  exact absurd rfl hbi

/-- the assumptions of the headline theorems are satisfiable by a history with a reorg ... -/
theorem sdemo_ok : SOkRun (SWorld.init 5 4 sdemoChain0) sdemoOps := sokRunb_sound (by decide)

/-- ... in which the client reads spend – reorg – spend (by the conflicting transaction). -/
example : (sdemoOps.foldl swstep (SWorld.init 5 4 sdemoChain0)).r.ntfns.map (·.seen) =
    [[.spend ⟨2, 7, 0⟩, .reorg, .spend ⟨2, 8, 1⟩]] := by
  decide

/-! ### `hint_safe_spend` -/

/-- `hint_safe_spend`: after any admissible history with honest client hints, the cached spend
    hint is at most the height of the block of the ACTIVE chain that spends the outpoint, so a
    rescan from the hint (e.g. after a restart) cannot start above the spending block. -/
theorem hint_safe_spend (key limit : Nat) (chain0 : List Block) (hv : ValidS chain0 key)
    (hl : 1 ≤ limit) (ops : List SOp) (hok : SOkRunH (SWorld.init key limit chain0) ops) :
    let w := ops.foldl swstep (SWorld.init key limit chain0)
    ∀ v, w.r.hint = some v → ∀ (h : Nat) (b : Block), 1 ≤ h → w.chain[h - 1]? = some b →
      b.spent key → v ≤ h := by
  intro w v hv' h b h1 hb hhas
  obtain ⟨_, hi⟩ := srun_hinv (sinit_inv key limit chain0 hv) (sinit_hinv key limit chain0) hl hok
  have hk : w.r.key = key := srun_key _ _
  exact hi.hint_ok v hv' h b h1 hb (by rw [hk]; exact hhas)

/-- executable `SHonest` -/
def shonestb (w : SWorld) : SOp → Bool
  | .register _ hint => w.chain.zipIdx.all fun p => !(decide (p.2 + 1 < hint)) || !p.1.spentb w.r.key
  | .tip b => !b.spentb w.r.key || decide (w.lo ≤ w.cur + 1)
  | _ => true

theorem shonestb_sound {w : SWorld} {op : SOp} (h : shonestb w op = true) : SHonest w op := by
  cases op with
  | register reg hint =>
    simp only [shonestb, List.all_eq_true] at h
    intro hh b h1 hlt hb
    have hm : (b, hh - 1) ∈ w.chain.zipIdx := List.mk_mem_zipIdx_iff_getElem?.mpr hb
    have := h (b, hh - 1) hm
    simp only [Bool.or_eq_true, Bool.not_eq_true', decide_eq_false_iff_not] at this
    rcases this with x | x
    · omega
    · exact spentb_false x
  | tip b =>
    simp only [shonestb, Bool.or_eq_true, Bool.not_eq_true', decide_eq_true_eq] at h
    intro hb
    rcases h with x | x
    · exact absurd hb (spentb_false x)
    · exact x
  | cancel reg => trivial
  | update d => trivial
  | untip => trivial

def sokRunHb : SWorld → List SOp → Bool
  | _, [] => true
  | w, op :: rest => sokb w op && shonestb w op && sokRunHb (swstep w op) rest

theorem sokRunHb_sound {w : SWorld} {ops : List SOp} (h : sokRunHb w ops = true) : SOkRunH w ops := by
  induction ops generalizing w with
  | nil => trivial
  | cons op rest ih =>
    simp only [sokRunHb, Bool.and_eq_true] at h
    exact ⟨sokb_sound h.1.1, shonestb_sound h.1.2, ih h.2⟩

/-- the reorg history above and a late "not found" answer are admissible with honest hints … -/
theorem sdemo_okH : SOkRunH (SWorld.init 5 4 sdemoChain0) sdemoOps := sokRunHb_sound (by decide)

def slateOps : List SOp :=
  [.register 0 1, .tip ⟨11, [⟨7, [5]⟩]⟩, .tip ⟨12, []⟩, .update none]

theorem slate_ok : SOkRunH (SWorld.init 5 4 sdemoChain0) slateOps := sokRunHb_sound (by decide)

/-- … and the model keeps the hint at the spending height 2 -/
example : (slateOps.foldl swstep (SWorld.init 5 4 sdemoChain0)).r.hint = some 2 := by decide
example : (sdemoOps.foldl swstep (SWorld.init 5 4 sdemoChain0)).r.hint = some 2 := by decide

/-! ### the model variant with seeded bug C14_2 violates the statement

`DisconnectTip` without the rollback `spendSet.details = nil` (everything else — reorg notices,
height index — unchanged). -/

def SpendReq.disconnectBuggy (cur : Nat) (r : SpendReq) (height : Nat) : SpendReq :=
  let r := r.updateHint cur height
  if !r.spentAt.contains height then r
  else if !r.set then { r with panicked := true }
  else
    { r with
      ntfns := r.ntfns.map (fun n => if n.live then n.unspend else n),
      spentAt := delH height r.spentAt }

def swstepBuggy (w : SWorld) : SOp → SWorld
  | .untip =>
    { w with cur := w.cur - 1,
             r := drainS (w.r.disconnectBuggy (w.cur - 1) w.cur),
             chain := w.chain.dropLast, cover := min w.cover w.cur }
  | op => swstep w op

/-- the spender is reorged out and a second client registers afterwards -/
def sstaleOps : List SOp :=
  [.register 0 1, .update none, .tip ⟨11, [⟨7, [5]⟩]⟩, .untip, .register 1 1]

theorem sstale_ok : SOkRun (SWorld.init 5 4 sdemoChain0) sstaleOps := sokRunb_sound (by decide)

/-- in the correct model the late client is told nothing (the outpoint is unspent on the active
    chain) … -/
example : ((sstaleOps.foldl swstep (SWorld.init 5 4 sdemoChain0)).r.ntfns.map (·.seen)) =
    [[.spend ⟨2, 7, 0⟩, .reorg], []] := by decide

/-- … in the variant it is handed the stale spend: it holds a spend notification although the
    request's details name no block of the active chain — the conclusion of
    `spend_only_if_on_active_chain` is false for that model. -/
theorem buggy_disconnect_breaks_spend_on_chain :
    let w := sstaleOps.foldl swstepBuggy (SWorld.init 5 4 sdemoChain0)
    w.r.ntfns.map (fun n => (n.live, holdsSpend n.seen)) = [(true, false), (true, true)] ∧
    w.r.details = some ⟨2, 7, 0⟩ ∧ w.chain = sdemoChain0 ∧
    ¬ OnChainS w.chain 5 ⟨2, 7, 0⟩ := by
  refine ⟨by decide, by decide, by decide, ?_⟩
  intro h
  obtain ⟨_, b, hb, _⟩ := h
  have : (sstaleOps.foldl swstepBuggy (SWorld.init 5 4 sdemoChain0)).chain = sdemoChain0 := by decide
  rw [this] at hb
  simp [sdemoChain0] at hb

/-! ### the historical rescan handed to the caller -/

theorem sstartHeight_eq (cached : Option Nat) (hint : Nat) :
    startHeight cached hint = max hint (cached.getD 0) := by
  unfold startHeight
  cases cached with
  | none => simp
  | some c => simp only [Option.getD_some]; split <;> omega

/-- `rescan_range` (spend): `RegisterSpend` hands out a historical dispatch only for a request set
    whose rescan has not started; its range is exactly [max(client hint, cached hint), current
    height] (non-empty), and the set is `pending` afterwards … -/
theorem rescan_range_spend (cur limit reg hint : Nat) (r : SpendReq) (a b : Nat)
    (h : (r.register cur limit reg hint).2 = .hist a b) :
    a = max hint (r.hint.getD 0) ∧ b = cur ∧ a ≤ b ∧ (r.set = false ∨ r.rescan = .notStarted) ∧
    (r.register cur limit reg hint).1.rescan = .pending := by
  obtain ⟨_, _, _, e4⟩ := sregister_spec cur limit reg hint r
  rw [h] at e4
  rcases e4 with ⟨q1, q2, q3, q4⟩ | ⟨q, _⟩ | ⟨q, _⟩
  · simp only [Res.hist.injEq] at q1
    refine ⟨by rw [q1.1, sstartHeight_eq], q1.2, by rw [q1.1, q1.2]; exact q3, ?_, q2⟩
    cases hs : r.set with
    | false => exact Or.inl rfl
    | true => simp only [hs, ↓reduceIte] at q4; exact Or.inr q4
  · cases q
  · cases q

/-- … so there is at most one rescan per request set. -/
theorem no_second_rescan_spend (cur limit reg hint : Nat) (r : SpendReq) (hs : r.set = true)
    (hr : r.rescan ≠ .notStarted) : (r.register cur limit reg hint).2 = .ok := by
  obtain ⟨_, _, _, e4⟩ := sregister_spec cur limit reg hint r
  simp only [hs, ↓reduceIte] at e4
  rcases e4 with ⟨_, _, _, q⟩ | ⟨q, _⟩ | ⟨q, _⟩
  · exact absurd q hr
  · exact q
  · exact q

end LndModel.C14
