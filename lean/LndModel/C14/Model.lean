/-
C14 — model of lnd's `chainntnfs.TxNotifier` (chainntnfs/txnotifier.go) together
with the two hint caches (`ConfirmHintCache` / `SpendHintCache`, implemented by
channeldb/height_hint.go as last-write-wins maps).

Hand-written; tied to the code by the behavioural correspondence check
(harness/overlay/chainntnfs/zz_c14_verif_test.go → drv_c14), which replays every
harness operation on these definitions and compares result, drained events,
the complete internal state and the hint caches after every operation.

Data layout.  The Go code keeps three height-indexed maps
(`confsByInitialHeight`, `ntfnsByConfirmHeight`, `spendsByHeight`).  The model
stores the same relations by row instead of by column:

  * `ConfReq.initialAt`  = { h | req ∈ confsByInitialHeight[h] }
  * `ConfNtfn.queuedAt`  = { h | ntfn ∈ ntfnsByConfirmHeight[h] }
  * `SpendReq.spentAt`   = { h | req ∈ spendsByHeight[h] }

so that every operation is "global scalars + an independent step per request".
Notification clients that were cancelled (or whose set was deleted at maturity)
are kept as tomb-stones (`live = false`) because the Go maps may still hold
pointers to them.

Channels are modelled as bounded FIFO lists with the capacities of
`NewConfirmationEvent` / `NewSpendEvent`; a send on a full channel sets `stuck`
(the real call blocks forever holding the mutex), a nil dereference / send on a
closed channel sets `panicked`.
-/
namespace LndModel.C14

/-! ## chain data -/

structure Tx where
  id : Nat
  /-- outpoints spent by the inputs, in input order -/
  spends : List Nat
  deriving Repr, DecidableEq, Inhabited

structure Block where
  /-- stands for the block hash -/
  id : Nat
  txs : List Tx
  deriving Repr, DecidableEq, Inhabited

inductive Rescan where
  | notStarted | pending | complete
  deriving Repr, DecidableEq, Inhabited

/-- `TxConfirmation` (height, block hash, tx index). -/
structure ConfDetails where
  height : Nat
  block : Nat
  txIndex : Nat
  deriving Repr, DecidableEq, Inhabited

/-- `SpendDetail` (spending height, spender tx, input index). -/
structure SpendDetails where
  height : Nat
  spender : Nat
  input : Nat
  deriving Repr, DecidableEq, Inhabited

/-- `TxUpdateInfo`. -/
structure Update where
  left : Nat
  height : Nat
  deriving Repr, DecidableEq, Inhabited

/-- what a confirmation client can read from its `ConfirmationEvent` channels -/
inductive CEv where
  | upd (u : Update)
  | conf (d : ConfDetails)
  | neg (depth : Nat)
  | done
  deriving Repr, DecidableEq, Inhabited

/-- what a spend client can read from its `SpendEvent` channels -/
inductive SEv where
  | spend (d : SpendDetails)
  | reorg
  | done
  deriving Repr, DecidableEq, Inhabited

/-- insert into a height set (Go `map[uint32]…` key). -/
def addH (h : Nat) (l : List Nat) : List Nat := if l.contains h then l else l ++ [h]
/-- delete from a height set. -/
def delH (h : Nat) (l : List Nat) : List Nat := l.filter (· != h)

/-! ## confirmation side -/

/-- `ConfNtfn` plus its `ConfirmationEvent` channels. -/
structure ConfNtfn where
  reg : Nat
  numConfs : Nat
  live : Bool := true
  closed : Bool := false
  dispatched : Bool := false
  /-- `numConfsLeft` -/
  left : Nat
  queuedAt : List Nat := []
  updates : List Update := []
  confirmed : List ConfDetails := []
  negConf : List Nat := []
  done : Nat := 0
  stuck : Bool := false
  /-- ghost: everything the client has read so far (only written by `drained`) -/
  seen : List CEv := []
  deriving Repr, DecidableEq, Inhabited

/-- `notifyNumConfsLeft`. `Updates` has capacity `numConfs`. -/
def ConfNtfn.sendUpdate (n : ConfNtfn) (left height : Nat) : ConfNtfn :=
  if left ≥ n.left then n
  else if n.updates.length ≥ n.numConfs then { n with left := left, stuck := true }
  else { n with left := left, updates := n.updates ++ [⟨left, height⟩] }

/-- `ntfn.Event.Confirmed <- details; ntfn.dispatched = true` (capacity 1). -/
def ConfNtfn.sendConfirmed (n : ConfNtfn) (d : ConfDetails) : ConfNtfn :=
  if n.confirmed.length ≥ 1 then { n with stuck := true }
  else { n with confirmed := n.confirmed ++ [d], dispatched := true }

/-- `ntfn.Event.NegativeConf <- reorgDepth` (capacity 1). -/
def ConfNtfn.sendNeg (n : ConfNtfn) (depth : Nat) : ConfNtfn :=
  if n.negConf.length ≥ 1 then { n with stuck := true }
  else { n with negConf := n.negConf ++ [depth] }

/-- `ntfn.Event.Done <- struct{}{}` (capacity 1). -/
def ConfNtfn.sendDone (n : ConfNtfn) : ConfNtfn :=
  if n.done ≥ 1 then { n with stuck := true } else { n with done := n.done + 1 }

/-- `dispatchConfDetails` for one client, details non-nil (the part that touches the client). -/
def ConfNtfn.dispatch (cur : Nat) (n : ConfNtfn) (d : ConfDetails) : ConfNtfn :=
  if n.dispatched then n
  else
    let ch := d.height + n.numConfs - 1
    if ch ≤ cur then (n.sendUpdate 0 d.height).sendConfirmed d
    else ({ n with queuedAt := addH ch n.queuedAt }).sendUpdate (ch - cur) d.height

/-- `dispatchConfReorg`. -/
def ConfNtfn.reorg (n : ConfNtfn) (h depth : Nat) : ConfNtfn :=
  if !n.dispatched then
    { n.sendNeg depth with queuedAt := delH (h + n.numConfs - 1) n.queuedAt }
  else
    ({ n with confirmed := n.confirmed.drop 1, dispatched := false }).sendNeg depth

/-- per-client part of `CancelConf`: close the channels, leave the set, and leave the queue the
    client is in if the request has details. -/
def ConfNtfn.cancelled (det : Option ConfDetails) (n : ConfNtfn) : ConfNtfn :=
  { n with live := false, closed := true,
           queuedAt := match det with
             | some d => delH (d.height + n.numConfs - 1) n.queuedAt
             | none => n.queuedAt }

/-- per-client part of `handleConfDetailsAtTip`: consume a stale reorg notice, queue the client
    at its confirmation height. -/
def ConfNtfn.tipped (height : Nat) (n : ConfNtfn) : ConfNtfn :=
  { n with negConf := n.negConf.drop 1, queuedAt := addH (height + n.numConfs - 1) n.queuedAt }

/-- per-client part of the maturity clause of `ConnectTip`. -/
def ConfNtfn.matured (n : ConfNtfn) : ConfNtfn := { n.sendDone with live := false }

/-- first loop of `NotifyHeight`: number of confirmations left at `height`. -/
def ConfNtfn.updateAt (d : ConfDetails) (height : Nat) (n : ConfNtfn) : ConfNtfn :=
  let tch := d.height + n.numConfs - 1
  if tch < height then n else n.sendUpdate (tch - height) d.height

/-- second loop of `NotifyHeight`: clients queued at `height` that were not yet dispatched. -/
def ConfNtfn.confirmAt (d : ConfDetails) (height : Nat) (n : ConfNtfn) : ConfNtfn :=
  if n.queuedAt.contains height && !n.dispatched then n.sendConfirmed d else n

/-- `delete(n.ntfnsByConfirmHeight, height)`. -/
def ConfNtfn.unqueue (height : Nat) (n : ConfNtfn) : ConfNtfn :=
  { n with queuedAt := delH height n.queuedAt }

/-- per-client part of `DisconnectTip(height)`: `k` watched heights each drain one update; reset
    `numConfsLeft`; reorg notice if the request was confirmed in the disconnected block. -/
def ConfNtfn.disconnected (k : Nat) (hit : Bool) (height depth : Nat) (n : ConfNtfn) : ConfNtfn :=
  let n := { n with updates := n.updates.drop k, left := n.numConfs }
  if hit then n.reorg height depth else n

/-- One entry of `confNotifications` (+ its hint-cache entry + its rows of the height maps). -/
structure ConfReq where
  key : Nat
  /-- `confNotifications` has an entry for the request -/
  set : Bool := false
  /-- every client ever created for the request; those with `live` are `confSet.ntfns` -/
  ntfns : List ConfNtfn := []
  rescan : Rescan := .notStarted
  details : Option ConfDetails := none
  initialAt : List Nat := []
  /-- `ConfirmHintCache` entry -/
  hint : Option Nat := none
  panicked : Bool := false
  deriving Repr, DecidableEq, Inhabited

/-- Dispatch `r.details` to every live client (loops of `RegisterConf` / `UpdateConfDetails`). -/
def ConfReq.dispatchAll (cur limit : Nat) (r : ConfReq) : ConfReq :=
  match r.details with
  | none => r
  | some d =>
    let fresh := r.ntfns.any (fun n => n.live && !n.dispatched)
    { r with
      ntfns := r.ntfns.map (fun n => if n.live then n.dispatch cur d else n),
      initialAt := if fresh && d.height + limit > cur then addH d.height r.initialAt
                   else r.initialAt }

/-- Result of a registration: the historical dispatch handed to the caller. -/
inductive Res where
  | ok
  | hist (start stop : Nat)
  | errOrder
  | errNumConfs
  | errNoHint
  | errNotFound
  deriving Repr, DecidableEq, Inhabited

/-- effective start height of a rescan: the larger of the caller's hint and the cached hint. -/
def startHeight (cached : Option Nat) (hint : Nat) : Nat :=
  match cached with
  | some c => if c > hint then c else hint
  | none => hint

/-- make sure `confNotifications` has an entry (a fresh `confNtfnSet` if not). -/
def ConfReq.opened (r : ConfReq) : ConfReq :=
  if r.set then r else { r with set := true, rescan := .notStarted, details := none }

def ConfReq.addNtfn (r : ConfReq) (n : ConfNtfn) : ConfReq := { r with ntfns := r.ntfns ++ [n] }

/-- the `switch confSet.rescanStatus` of `RegisterConf`. -/
def ConfReq.registered (cur limit start : Nat) (r : ConfReq) : ConfReq × Res :=
  match r.rescan with
  | .complete => (r.dispatchAll cur limit, .ok)
  | .pending => (r, .ok)
  | .notStarted =>
    if start > cur then ({ r with rescan := .complete }, .ok)
    else ({ r with rescan := .pending }, .hist start cur)

/-- `RegisterConf` after validation. -/
def ConfReq.register (cur limit : Nat) (r : ConfReq) (reg n hint : Nat) : ConfReq × Res :=
  (r.opened.addNtfn { reg := reg, numConfs := n, left := n }).registered cur limit
    (startHeight r.hint hint)

/-- `CancelConf` for client `reg` (no-op when unknown / not live / set deleted). -/
def ConfReq.cancel (r : ConfReq) (reg : Nat) : ConfReq :=
  if !r.set then r else
  { r with ntfns := r.ntfns.map fun n =>
      if n.reg == reg && n.live then n.cancelled r.details else n }

/-- `UpdateConfDetails`. -/
def ConfReq.update (cur limit : Nat) (r : ConfReq) (d : Option ConfDetails) : ConfReq × Res :=
  if !r.set then (r, .errNotFound)
  else if r.details.isSome then (r, .ok)
  else
    let r := { r with rescan := .complete }
    match d with
    | none => ({ r with hint := some cur }, .ok)
    | some d =>
      if d.height > cur then (r, .ok)
      else (({ r with hint := some d.height, details := some d }).dispatchAll cur limit, .ok)

/-- `handleConfDetailsAtTip`. -/
def ConfReq.atTip (r : ConfReq) (d : ConfDetails) : ConfReq :=
  if !r.set then r
  else if r.details.isSome then r
  else
    { r with
      rescan := .complete, details := some d,
      ntfns := r.ntfns.map (fun n => if n.live then n.tipped d.height else n),
      initialAt := addH d.height r.initialAt }

/-- positions at which a block contains transaction `key`. -/
def Block.confHits (b : Block) (key : Nat) : List Nat :=
  (b.txs.zipIdx.filter (fun p => p.1.id == key)).map (·.2)

/-- `updateHints` (confirmation half): `height` is the block being connected/disconnected,
    `cur` the already-adjusted current height. -/
def ConfReq.updateHint (cur height : Nat) (r : ConfReq) : ConfReq :=
  if (r.set && r.rescan == .complete && r.details.isNone) || r.initialAt.contains height then
    { r with hint := some cur }
  else r

/-- maturity clause at the end of `ConnectTip`. -/
def ConfReq.mature (height limit : Nat) (r : ConfReq) : ConfReq :=
  if height ≥ limit && r.initialAt.contains (height - limit) then
    if !r.set then { r with panicked := true }
    else
      { r with
        ntfns := r.ntfns.map (fun n => if n.live then n.matured else n),
        set := false, rescan := .notStarted, details := none,
        initialAt := delH (height - limit) r.initialAt }
  else r

/-- `ConnectTip` as seen by one confirmation request (`cur` = new height). -/
def ConfReq.connect (cur limit : Nat) (r : ConfReq) (b : Block) : ConfReq :=
  let r := (b.confHits r.key).foldl (fun r i => r.atTip ⟨cur, b.id, i⟩) r
  let r := r.updateHint cur cur
  r.mature cur limit

/-- first loop of `NotifyHeight` (updates for every watched request). -/
def ConfReq.notifyUpdates (r : ConfReq) (height : Nat) : ConfReq :=
  if r.initialAt.isEmpty then r else
  match r.set, r.details with
  | true, some d =>
    { r with ntfns := r.ntfns.map fun n => if n.live then n.updateAt d height else n }
  | true, none => if r.ntfns.any (·.live) then { r with panicked := true } else r
  | false, _ => { r with panicked := true }

/-- second loop of `NotifyHeight` (confirmations that became due). -/
def ConfReq.notifyDue (r : ConfReq) (height : Nat) : ConfReq :=
  if !r.ntfns.any (fun n => n.queuedAt.contains height) then r else
  match r.set, r.details with
  | true, some d =>
    if r.ntfns.any (fun n => n.queuedAt.contains height && !n.dispatched && n.closed) then
      { r with panicked := true }
    else { r with ntfns := r.ntfns.map (·.confirmAt d height) }
  | _, _ => { r with panicked := true }

/-- `NotifyHeight` as seen by one confirmation request. -/
def ConfReq.notify (r : ConfReq) (height : Nat) : ConfReq :=
  let r := (r.notifyUpdates height).notifyDue height
  { r with ntfns := r.ntfns.map (·.unqueue height) }

/-- `DisconnectTip` as seen by one confirmation request (`cur` = new height = `height - 1`). -/
def ConfReq.disconnect (cur depth : Nat) (r : ConfReq) (height : Nat) : ConfReq :=
  let r := r.updateHint cur height
  if r.initialAt.isEmpty then r
  else if !r.set then { r with panicked := true }
  else
    let hit := r.initialAt.contains height
    { r with
      details := if hit then none else r.details,
      ntfns := r.ntfns.map (fun n =>
        if n.live then n.disconnected r.initialAt.length hit height depth else n),
      initialAt := delH height r.initialAt }

/-! ## spend side -/

structure SpendNtfn where
  reg : Nat
  live : Bool := true
  closed : Bool := false
  dispatched : Bool := false
  spend : List SpendDetails := []
  reorg : Nat := 0
  done : Nat := 0
  stuck : Bool := false
  /-- ghost: everything the client has read so far (only written by `drained`) -/
  seen : List SEv := []
  deriving Repr, DecidableEq, Inhabited

structure SpendReq where
  key : Nat
  set : Bool := false
  ntfns : List SpendNtfn := []
  rescan : Rescan := .notStarted
  details : Option SpendDetails := none
  spentAt : List Nat := []
  hint : Option Nat := none
  panicked : Bool := false
  deriving Repr, DecidableEq, Inhabited

/-- `dispatchSpendDetails` (client part), details non-nil. -/
def SpendNtfn.dispatch (n : SpendNtfn) (d : SpendDetails) : SpendNtfn :=
  if n.dispatched then n
  else if n.spend.length ≥ 1 then { n with stuck := true }
  else { n with spend := n.spend ++ [d], dispatched := true }

/-- `dispatchSpendReorg`. -/
def SpendNtfn.unspend (n : SpendNtfn) : SpendNtfn :=
  if !n.dispatched then n
  else
    let n := { n with spend := n.spend.drop 1 }
    if n.reorg ≥ 1 then { n with stuck := true }
    else { n with reorg := n.reorg + 1, dispatched := false }

def SpendNtfn.sendDone (n : SpendNtfn) : SpendNtfn :=
  if n.done ≥ 1 then { n with stuck := true } else { n with done := n.done + 1 }

/-- dispatch `r.details` to the clients selected by `sel` (live ones only). -/
def SpendReq.dispatchTo (cur limit : Nat) (r : SpendReq) (sel : SpendNtfn → Bool) : SpendReq :=
  match r.details with
  | none => r
  | some d =>
    let fresh := r.ntfns.any (fun n => n.live && sel n && !n.dispatched)
    { r with
      ntfns := r.ntfns.map (fun n => if n.live && sel n then n.dispatch d else n),
      spentAt := if fresh && d.height + limit > cur then addH d.height r.spentAt else r.spentAt }

def SpendReq.opened (r : SpendReq) : SpendReq :=
  if r.set then r else { r with set := true, rescan := .notStarted, details := none }

def SpendReq.addNtfn (r : SpendReq) (n : SpendNtfn) : SpendReq := { r with ntfns := r.ntfns ++ [n] }

/-- the `switch spendSet.rescanStatus` of `RegisterSpend`. -/
def SpendReq.registered (cur limit start reg : Nat) (r : SpendReq) : SpendReq × Res :=
  match r.rescan with
  | .complete => (r.dispatchTo cur limit (fun n => n.reg == reg), .ok)
  | .pending => (r, .ok)
  | .notStarted =>
    if start > cur then ({ r with rescan := .complete }, .ok)
    else ({ r with rescan := .pending }, .hist start cur)

/-- `RegisterSpend` after validation. -/
def SpendReq.register (cur limit : Nat) (r : SpendReq) (reg hint : Nat) : SpendReq × Res :=
  (r.opened.addNtfn { reg := reg }).registered cur limit (startHeight r.hint hint) reg

/-- `CancelSpend`. -/
def SpendReq.cancel (r : SpendReq) (reg : Nat) : SpendReq :=
  if !r.set then r else
  { r with ntfns := r.ntfns.map fun n =>
      if n.reg == reg && n.live then { n with live := false, closed := true } else n }

/-- `updateSpendDetails` (the spender always carries a witness in the harness). -/
def SpendReq.update (cur limit : Nat) (r : SpendReq) (d : Option SpendDetails) : SpendReq × Res :=
  if !r.set then (r, .errNotFound)
  else if r.details.isSome then (r, .ok)
  else
    let r := { r with rescan := .complete }
    match d with
    | none => ({ r with hint := some cur }, .ok)
    | some d =>
      if d.height > cur then (r, .ok)
      else (({ r with hint := some d.height, details := some d }).dispatchTo cur limit
              (fun _ => true), .ok)

/-- `handleSpendDetailsAtTip`. -/
def SpendReq.atTip (r : SpendReq) (d : SpendDetails) : SpendReq :=
  if !r.set then r
  else
    { r with
      rescan := .complete, details := some d,
      ntfns := r.ntfns.map (fun n => if n.live then { n with reorg := n.reorg - 1 } else n),
      spentAt := addH d.height r.spentAt }

/-- (spender id, input index) of every input of the block that spends outpoint `key`,
    in `filterTx` order. -/
def Block.spendHits (b : Block) (key : Nat) : List (Nat × Nat) :=
  b.txs.flatMap fun tx =>
    (tx.spends.zipIdx.filter (fun p => p.1 == key)).map (fun p => (tx.id, p.2))

def SpendReq.updateHint (cur height : Nat) (r : SpendReq) : SpendReq :=
  if (r.set && r.rescan == .complete && r.details.isNone) || r.spentAt.contains height then
    { r with hint := some cur }
  else r

def SpendReq.mature (height limit : Nat) (r : SpendReq) : SpendReq :=
  if height ≥ limit && r.spentAt.contains (height - limit) then
    if !r.set then { r with panicked := true }
    else
      { r with
        ntfns := r.ntfns.map (fun n => if n.live then { n.sendDone with live := false } else n),
        set := false, rescan := .notStarted, details := none,
        spentAt := delH (height - limit) r.spentAt }
  else r

def SpendReq.connect (cur limit : Nat) (r : SpendReq) (b : Block) : SpendReq :=
  let r := (b.spendHits r.key).foldl (fun r p => r.atTip ⟨cur, p.1, p.2⟩) r
  let r := r.updateHint cur cur
  r.mature cur limit

def SpendReq.notify (cur limit : Nat) (r : SpendReq) (height : Nat) : SpendReq :=
  if !r.spentAt.contains height then r
  else if !r.set then { r with panicked := true }
  else r.dispatchTo cur limit (fun _ => true)

def SpendReq.disconnect (cur : Nat) (r : SpendReq) (height : Nat) : SpendReq :=
  let r := r.updateHint cur height
  if !r.spentAt.contains height then r
  else if !r.set then { r with panicked := true }
  else
    { r with
      details := none,
      ntfns := r.ntfns.map (fun n => if n.live then n.unspend else n),
      spentAt := delH height r.spentAt }

/-! ## the notifier -/

structure State where
  cur : Nat
  limit : Nat
  reorgDepth : Nat := 0
  nextReg : Nat := 0
  confs : List ConfReq := []
  spends : List SpendReq := []
  deriving Repr, Inhabited

inductive Op where
  | seedConf (key hint : Nat)
  | seedSpend (key hint : Nat)
  | regConf (key numConfs hint : Nat)
  | regSpend (key hint : Nat)
  | cancel (reg : Nat)
  | connect (height : Nat) (b : Block)
  | notify (height : Nat)
  | disconnect (height : Nat)
  | updConf (key : Nat) (d : Option ConfDetails)
  | updSpend (key : Nat) (d : Option SpendDetails)
  deriving Repr, Inhabited

/-- apply `f` to the request with key `key`, creating an empty record first if needed. -/
def onConf (l : List ConfReq) (key : Nat) (f : ConfReq → ConfReq × Res) : List ConfReq × Res :=
  match l with
  | [] => let (r, res) := f { key := key }; ([r], res)
  | r :: rest =>
    if r.key == key then let (r', res) := f r; (r' :: rest, res)
    else let (rest', res) := onConf rest key f; (r :: rest', res)

def onSpend (l : List SpendReq) (key : Nat) (f : SpendReq → SpendReq × Res) : List SpendReq × Res :=
  match l with
  | [] => let (r, res) := f { key := key }; ([r], res)
  | r :: rest =>
    if r.key == key then let (r', res) := f r; (r' :: rest, res)
    else let (rest', res) := onSpend rest key f; (r :: rest', res)

def step (s : State) : Op → State × Res
  | .seedConf key h =>
    let (c, _) := onConf s.confs key (fun r => ({ r with hint := some h }, .ok))
    ({ s with confs := c }, .ok)
  | .seedSpend key h =>
    let (c, _) := onSpend s.spends key (fun r => ({ r with hint := some h }, .ok))
    ({ s with spends := c }, .ok)
  | .regConf key n hint =>
    if n == 0 || n > s.limit then (s, .errNumConfs)
    else if hint == 0 then (s, .errNoHint)
    else
      let (c, res) := onConf s.confs key (fun r => r.register s.cur s.limit s.nextReg n hint)
      ({ s with confs := c, nextReg := s.nextReg + 1 }, res)
  | .regSpend key hint =>
    if hint == 0 then (s, .errNoHint)
    else
      let (c, res) := onSpend s.spends key (fun r => r.register s.cur s.limit s.nextReg hint)
      ({ s with spends := c, nextReg := s.nextReg + 1 }, res)
  | .cancel reg =>
    ({ s with confs := s.confs.map (·.cancel reg), spends := s.spends.map (·.cancel reg) }, .ok)
  | .connect height b =>
    if height != s.cur + 1 then (s, .errOrder)
    else
      ({ s with cur := height, reorgDepth := 0,
                confs := s.confs.map (·.connect height s.limit b),
                spends := s.spends.map (·.connect height s.limit b) }, .ok)
  | .notify height =>
    ({ s with confs := s.confs.map (·.notify height),
              spends := s.spends.map (·.notify s.cur s.limit height) }, .ok)
  | .disconnect height =>
    if height != s.cur then (s, .errOrder)
    else
      let cur := s.cur - 1
      let depth := s.reorgDepth + 1
      ({ s with cur := cur, reorgDepth := depth,
                confs := s.confs.map (·.disconnect cur depth height),
                spends := s.spends.map (·.disconnect cur height) }, .ok)
  | .updConf key d =>
    let (c, res) := onConf s.confs key (fun r => r.update s.cur s.limit d)
    ({ s with confs := c }, res)
  | .updSpend key d =>
    let (c, res) := onSpend s.spends key (fun r => r.update s.cur s.limit d)
    ({ s with spends := c }, res)

/-- some send blocked (the real call never returns). -/
def State.stuck (s : State) : Bool :=
  s.confs.any (fun r => r.ntfns.any (·.stuck)) || s.spends.any (fun r => r.ntfns.any (·.stuck))

/-- nil dereference / send on closed channel. -/
def State.panicked (s : State) : Bool :=
  s.confs.any (·.panicked) || s.spends.any (·.panicked)

/-! ## clients reading their channels -/

/-- what one client reads when it empties its channels -/
structure ConfEvents where
  reg : Nat
  updates : List Update
  confirmed : List ConfDetails
  negConf : List Nat
  done : Nat
  deriving Repr, DecidableEq

structure SpendEvents where
  reg : Nat
  spend : List SpendDetails
  reorg : Nat
  done : Nat
  deriving Repr, DecidableEq

def ConfNtfn.events (n : ConfNtfn) : ConfEvents := ⟨n.reg, n.updates, n.confirmed, n.negConf, n.done⟩
/-- the order in which a client looks at its channels within one read -/
def ConfNtfn.pending (n : ConfNtfn) : List CEv :=
  n.negConf.map .neg ++ n.confirmed.map .conf ++ n.updates.map .upd ++ List.replicate n.done .done
def ConfNtfn.drained (n : ConfNtfn) : ConfNtfn :=
  { n with updates := [], confirmed := [], negConf := [], done := 0, seen := n.seen ++ n.pending }
def SpendNtfn.events (n : SpendNtfn) : SpendEvents := ⟨n.reg, n.spend, n.reorg, n.done⟩
def SpendNtfn.pending (n : SpendNtfn) : List SEv :=
  List.replicate n.reorg .reorg ++ n.spend.map .spend ++ List.replicate n.done .done
def SpendNtfn.drained (n : SpendNtfn) : SpendNtfn :=
  { n with spend := [], reorg := 0, done := 0, seen := n.seen ++ n.pending }

/-- every client that has not been cancelled empties all of its channels. -/
def State.drain (s : State) : State × List ConfEvents × List SpendEvents :=
  ({ s with confs := s.confs.map (fun r => { r with ntfns := r.ntfns.map (fun n => if n.closed then n else n.drained) }),
            spends := s.spends.map (fun r => { r with ntfns := r.ntfns.map (fun n => if n.closed then n else n.drained) }) },
   s.confs.flatMap (fun r => (r.ntfns.filter (!·.closed)).map (·.events)),
   s.spends.flatMap (fun r => (r.ntfns.filter (!·.closed)).map (·.events)))

end LndModel.C14
