/-
C14 — part 3b: the persisted SPEND hint never exceeds the height at which the outpoint is spent on
the active chain (`hint_safe_spend`).  Layered on top of `SWInv` (SpendChain.lean); the spend-side
mirror of `Hint.lean`.

Additional environment assumption (`SHonest`): client-supplied height hints are lower bounds —
when a client registers with hint `g` the outpoint is spent in no block below `g`, and a block
that spends the outpoint is never connected below a hint supplied earlier.
-/
import LndModel.C14.SpendChain

namespace LndModel.C14

/-! ### the request keeps its key -/

theorem satTip_key (r : SpendReq) (d : SpendDetails) : (r.atTip d).key = r.key := by
  unfold SpendReq.atTip; split <;> rfl

theorem foldl_satTip_key (c : Nat) (hits : List (Nat × Nat)) (r : SpendReq) :
    (hits.foldl (fun r p => r.atTip ⟨c, p.1, p.2⟩) r).key = r.key := by
  induction hits generalizing r with
  | nil => rfl
  | cons p t ih => simp only [List.foldl_cons]; rw [ih, satTip_key]

theorem smature_key (r : SpendReq) (h l : Nat) : (r.mature h l).key = r.key := by
  unfold SpendReq.mature; split <;> (try split) <;> rfl

theorem sconnect_key (r : SpendReq) (c l : Nat) (b : Block) : (r.connect c l b).key = r.key := by
  unfold SpendReq.connect
  rw [smature_key, (supdateHint_fields _ _ _).1, foldl_satTip_key]

theorem dispatchTo_key (r : SpendReq) (cur limit : Nat) (sel : SpendNtfn → Bool) :
    (r.dispatchTo cur limit sel).key = r.key := by
  unfold SpendReq.dispatchTo; split <;> rfl

theorem snotify_key (r : SpendReq) (c l h : Nat) : (r.notify c l h).key = r.key := by
  unfold SpendReq.notify; split <;> (try split) <;> (try exact dispatchTo_key _ _ _ _) <;> rfl

theorem sdisconnect_key (r : SpendReq) (c h : Nat) : (r.disconnect c h).key = r.key := by
  unfold SpendReq.disconnect
  have := (supdateHint_fields c h r).1
  simp only
  split <;> (try split) <;> simp [this]

theorem sregister_key (cur limit reg hint : Nat) (r : SpendReq) :
    (r.register cur limit reg hint).1.key = r.key := by
  unfold SpendReq.register SpendReq.registered SpendReq.addNtfn SpendReq.opened SpendReq.dispatchTo
  split <;> (try split) <;> (try split) <;> (try split) <;> simp_all

theorem scancel_key (reg : Nat) (r : SpendReq) : (r.cancel reg).key = r.key := by
  unfold SpendReq.cancel; split <;> rfl

theorem supdate_key (cur limit : Nat) (d : Option SpendDetails) (r : SpendReq) :
    (r.update cur limit d).1.key = r.key := by
  unfold SpendReq.update SpendReq.dispatchTo
  split <;> (try split) <;> (try split) <;> (try split) <;> (try split) <;> simp_all

theorem drainS_key (r : SpendReq) : (drainS r).key = r.key := rfl

/-- the request keeps its key -/
theorem swstep_key (w : SWorld) (op : SOp) : (swstep w op).r.key = w.r.key := by
  cases op with
  | register reg hint => exact sregister_key _ _ _ _ _
  | cancel reg => exact scancel_key _ _
  | update d => exact supdate_key _ _ _ _
  | tip b =>
    simp only [swstep, drainS_key, snotify_key, sconnect_key]
  | untip =>
    simp only [swstep, drainS_key, sdisconnect_key]

theorem srun_key (w : SWorld) (ops : List SOp) : (ops.foldl swstep w).r.key = w.r.key := by
  induction ops generalizing w with
  | nil => rfl
  | cons op rest ih => rw [List.foldl_cons, ih, swstep_key]

/-! ### what the operations do to `set / rescan / details / hint` -/

theorem supdateHint_hint (r : SpendReq) (c ht : Nat) :
    (r.updateHint c ht).hint = r.hint ∨
    ((r.updateHint c ht).hint = some c ∧
      ((r.set = true ∧ r.rescan = .complete ∧ r.details = none) ∨ ht ∈ r.spentAt)) := by
  unfold SpendReq.updateHint
  split
  · rename_i hc
    right
    refine ⟨rfl, ?_⟩
    simp only [Bool.or_eq_true, Bool.and_eq_true, beq_iff_eq, Option.isNone_iff_eq_none,
      List.contains_iff_mem] at hc
    rcases hc with ⟨⟨a, b⟩, c⟩ | c
    · exact Or.inl ⟨a, b, c⟩
    · exact Or.inr c
  · left; rfl

theorem sdisconnect_hint (r : SpendReq) (c h : Nat) :
    (r.disconnect c h).hint = (r.updateHint c h).hint := by
  unfold SpendReq.disconnect
  simp only
  split <;> (try split) <;> rfl

theorem smature_hint (r : SpendReq) (h l : Nat) : (r.mature h l).hint = r.hint := by
  unfold SpendReq.mature; split <;> (try split) <;> rfl

theorem dispatchTo_same (cur limit : Nat) (sel : SpendNtfn → Bool) (r : SpendReq) :
    (r.dispatchTo cur limit sel).set = r.set ∧ (r.dispatchTo cur limit sel).rescan = r.rescan ∧
    (r.dispatchTo cur limit sel).details = r.details ∧ (r.dispatchTo cur limit sel).hint = r.hint := by
  unfold SpendReq.dispatchTo; split <;> simp

@[simp] theorem dispatchTo_set (cur limit : Nat) (sel : SpendNtfn → Bool) (r : SpendReq) :
    (r.dispatchTo cur limit sel).set = r.set := (dispatchTo_same cur limit sel r).1
@[simp] theorem dispatchTo_rescan (cur limit : Nat) (sel : SpendNtfn → Bool) (r : SpendReq) :
    (r.dispatchTo cur limit sel).rescan = r.rescan := (dispatchTo_same cur limit sel r).2.1
@[simp] theorem dispatchTo_details (cur limit : Nat) (sel : SpendNtfn → Bool) (r : SpendReq) :
    (r.dispatchTo cur limit sel).details = r.details := (dispatchTo_same cur limit sel r).2.2.1
@[simp] theorem dispatchTo_hint (cur limit : Nat) (sel : SpendNtfn → Bool) (r : SpendReq) :
    (r.dispatchTo cur limit sel).hint = r.hint := (dispatchTo_same cur limit sel r).2.2.2

theorem snotify_fields (r : SpendReq) (c l h : Nat) :
    (r.notify c l h).set = r.set ∧ (r.notify c l h).rescan = r.rescan ∧
    (r.notify c l h).details = r.details ∧ (r.notify c l h).hint = r.hint := by
  unfold SpendReq.notify
  split
  · simp
  · split
    · simp
    · exact dispatchTo_same _ _ _ _

theorem satTip_hint (r : SpendReq) (d : SpendDetails) : (r.atTip d).hint = r.hint := by
  unfold SpendReq.atTip; split <;> rfl

/-- result of `RegisterSpend` on the request record -/
theorem sregister_spec (cur limit reg hint : Nat) (r : SpendReq) :
    let q := r.register cur limit reg hint
    let start := startHeight r.hint hint
    let rs0 := if r.set then r.rescan else Rescan.notStarted
    q.1.set = true ∧ q.1.hint = r.hint ∧ q.1.details = (if r.set then r.details else none) ∧
    ((q.2 = .hist start cur ∧ q.1.rescan = .pending ∧ start ≤ cur ∧ rs0 = .notStarted) ∨
     (q.2 = .ok ∧ q.1.rescan = .complete ∧ (rs0 = .complete ∨ (rs0 = .notStarted ∧ start > cur))) ∨
     (q.2 = .ok ∧ q.1.rescan = .pending ∧ rs0 = .pending)) := by
  obtain ⟨d1, d2, d3, d4⟩ := dispatchTo_same cur limit (fun n => n.reg == reg)
    (r.opened.addNtfn { reg := reg })
  unfold SpendReq.register SpendReq.registered
  cases hs : r.set <;> cases hr : r.rescan <;>
    simp_all [SpendReq.opened, SpendReq.addNtfn] <;> (try split) <;> simp_all <;> omega

/-- result of `UpdateSpendDetails` on the request record -/
theorem supdate_spec (cur limit : Nat) (d : Option SpendDetails) (r : SpendReq) :
    let q := (r.update cur limit d).1
    q.set = r.set ∧
    ((q.rescan = r.rescan ∧ q.details = r.details ∧ q.hint = r.hint ∧
        (r.set = false ∨ r.details.isSome)) ∨
     (r.set = true ∧ r.details = none ∧ q.rescan = .complete ∧
        ((d = none ∧ q.details = none ∧ q.hint = some cur) ∨
         (∃ x, d = some x ∧ x.height > cur ∧ q.details = none ∧ q.hint = r.hint) ∨
         (∃ x, d = some x ∧ x.height ≤ cur ∧ q.details = some x ∧ q.hint = some x.height)))) := by
  unfold SpendReq.update
  cases hs : r.set with
  | false => simp [hs]
  | true =>
    cases hd : r.details with
    | some y => simp [hs, hd]
    | none =>
      cases d with
      | none => simp [hs, hd]
      | some x =>
        by_cases hx : x.height > cur
        · simp [hs, hd, hx]
        · simp [hs, hd, hx]; omega

theorem addH_idem (c : Nat) (l : List Nat) : addH c (addH c l) = addH c l := by
  have : (addH c l).contains c = true := by simpa using addH_mem c l
  show (if (addH c l).contains c then addH c l else addH c l ++ [c]) = addH c l
  rw [this]; rfl

/-- `handleSpendDetailsAtTip` for the spending inputs of one block -/
theorem satTip_spec (r : SpendReq) (c : Nat) (hits : List (Nat × Nat)) :
    let r1 := hits.foldl (fun r p => r.atTip ⟨c, p.1, p.2⟩) r
    r1.hint = r.hint ∧ r1.set = r.set ∧
    ((r1 = r ∧ (hits = [] ∨ r.set = false)) ∨
     (hits ≠ [] ∧ r.set = true ∧ r1.rescan = .complete ∧
        (∃ p : Nat × Nat, r1.details = some ⟨c, p.1, p.2⟩) ∧ r1.spentAt = addH c r.spentAt)) := by
  induction hits generalizing r with
  | nil => simp
  | cons p t ih =>
    simp only [List.foldl_cons]
    cases hs : r.set with
    | false =>
      have : r.atTip ⟨c, p.1, p.2⟩ = r := by simp [SpendReq.atTip, hs]
      rw [this, foldl_satTip_unset _ _ _ hs]
      simp [hs]
    | true =>
      have hs' : (r.atTip ⟨c, p.1, p.2⟩).set = true := by simp [SpendReq.atTip, hs]
      have hh' : (r.atTip ⟨c, p.1, p.2⟩).hint = r.hint := satTip_hint _ _
      have hat' : (r.atTip ⟨c, p.1, p.2⟩).spentAt = addH c r.spentAt := by simp [SpendReq.atTip, hs]
      obtain ⟨i1, i2, i3⟩ := ih (r.atTip ⟨c, p.1, p.2⟩)
      refine ⟨by rw [i1, hh'], by rw [i2, hs'], Or.inr ⟨by simp, rfl, ?_⟩⟩
      rcases i3 with ⟨q, _⟩ | ⟨_, _, q1, q2, q3⟩
      · rw [q]
        exact ⟨by simp [SpendReq.atTip, hs], ⟨p, by simp [SpendReq.atTip, hs]⟩, hat'⟩
      · exact ⟨q1, q2, by rw [q3, hat', addH_idem]⟩

theorem smature_spec (r : SpendReq) (h l : Nat) :
    (r.mature h l).hint = r.hint ∧
    (((r.mature h l).set = false ∧ r.set = true ∧ (h - l) ∈ r.spentAt ∧ h ≥ l) ∨
     ((r.mature h l).set = r.set ∧ (r.mature h l).rescan = r.rescan ∧
      (r.mature h l).details = r.details)) := by
  unfold SpendReq.mature
  split
  · rename_i hf
    simp only [Bool.and_eq_true, decide_eq_true_eq, List.contains_iff_mem] at hf
    cases hs : r.set with
    | false => simp [hs]
    | true => simp [hs, hf.1, hf.2]
  · simp

theorem supdateHint_spec (r : SpendReq) (c ht : Nat) :
    (r.updateHint c ht).hint =
      (if (r.set && r.rescan == .complete && r.details.isNone) || r.spentAt.contains ht
       then some c else r.hint) := by
  unfold SpendReq.updateHint; split <;> simp_all

theorem sdisconnect_spec (r : SpendReq) (c h : Nat) :
    (r.disconnect c h).set = r.set ∧ (r.disconnect c h).rescan = r.rescan ∧
    ((r.disconnect c h).details = r.details ∨
      ((r.disconnect c h).details = none ∧ h ∈ r.spentAt)) := by
  obtain ⟨u1, u2, u3, u4, u5, u6, u7⟩ := supdateHint_fields c h r
  unfold SpendReq.disconnect
  simp only
  split
  · exact ⟨u2, u6, Or.inl u3⟩
  · rename_i hc
    split
    · exact ⟨u2, u6, Or.inl u3⟩
    · refine ⟨u2, u6, Or.inr ⟨rfl, ?_⟩⟩
      rw [u4] at hc; simpa using hc

theorem scancel_fields (r : SpendReq) (reg : Nat) :
    (r.cancel reg).set = r.set ∧ (r.cancel reg).rescan = r.rescan ∧
    (r.cancel reg).details = r.details ∧ (r.cancel reg).hint = r.hint := by
  unfold SpendReq.cancel; split <;> simp

/-! ### the hint invariant -/

/-- no block of the chain at a height satisfying `P` spends the outpoint -/
def NoSpend (chain : List Block) (key : Nat) (P : Nat → Prop) : Prop :=
  ∀ (h : Nat) (b : Block), 1 ≤ h → P h → chain[h - 1]? = some b → ¬ b.spent key

structure SHInv (w : SWorld) : Prop where
  cov_le : w.cover ≤ w.cur + 1
  lo_ok : NoSpend w.chain w.r.key (· < w.lo)
  /-- `hint_safe_spend`: the cached hint is at most the height of any block of the active chain
      that spends the outpoint -/
  hint_ok : ∀ v, w.r.hint = some v → ∀ (h : Nat) (b : Block), 1 ≤ h → w.chain[h - 1]? = some b →
      b.spent w.r.key → v ≤ h
  below : w.r.set = true → w.r.details = none → ∀ a b0, w.range = some (a, b0) →
      NoSpend w.chain w.r.key (· < a)
  rcov : w.r.set = true → ∀ a b0, w.range = some (a, b0) → w.cover ≤ b0 + 1
  cnone : w.r.set = true → w.r.rescan = .complete → w.r.details = none →
      NoSpend w.chain w.r.key (fun _ => True)
  unset : w.r.set = false → ∀ v, w.r.hint = some v → ∃ (h : Nat) (b : Block), v ≤ h ∧ 1 ≤ h ∧
      w.chain[h - 1]? = some b ∧ b.spent w.r.key ∧ h + w.limit ≤ w.maxTip

/-- honest height hints: lower bounds for the height at which the outpoint can be spent -/
def SHonest (w : SWorld) : SOp → Prop
  | .register _ hint => NoSpend w.chain w.r.key (· < hint)
  | .tip b => b.spent w.r.key → w.lo ≤ w.cur + 1
  | _ => True

theorem sbelow_start {chain : List Block} {key : Nat} {cached : Option Nat} {hint : Nat}
    (hh : NoSpend chain key (· < hint))
    (hc : ∀ v, cached = some v → ∀ (h : Nat) (b : Block), 1 ≤ h → chain[h - 1]? = some b →
      b.spent key → v ≤ h) :
    NoSpend chain key (· < startHeight cached hint) := by
  intro h b h1 hlt hb hhas
  unfold startHeight at hlt
  cases hcd : cached with
  | none => rw [hcd] at hlt; exact hh h b h1 hlt hb hhas
  | some c =>
    rw [hcd] at hlt
    simp only at hlt
    split at hlt
    · have := hc c hcd h b h1 hb hhas; omega
    · exact hh h b h1 hlt hb hhas

/-! ### preservation -/

theorem shstep_register {w : SWorld} {reg hint : Nat} (hw : SWInv w)
    (hh : SHonest w (.register reg hint)) (hi : SHInv w) :
    SHInv (swstep w (.register reg hint)) := by
  obtain ⟨e1, e2, e3, e4⟩ := sregister_spec w.cur w.limit reg hint w.r
  have hk : (swstep w (.register reg hint)).r.key = w.r.key := by
    simp only [swstep, drainS_key]; exact sregister_key _ _ _ _ _
  have hlen := hw.1.1.len
  have hbs := sbelow_start (cached := w.r.hint) hh hi.hint_ok
  simp only [swstep] at hk ⊢
  refine ⟨?_, ?_, ?_, ?_, ?_, ?_, ?_⟩
  · have := hi.cov_le; simp only; split <;> omega
  · intro h b h1 hlt hb
    rw [hk]
    simp only at hlt
    by_cases hx : h < w.lo
    · exact hi.lo_ok h b h1 hx hb
    · exact hh h b h1 (by omega) hb
  · intro v hv
    simp only [drainS] at hv
    rw [e2] at hv
    rw [hk]; exact hi.hint_ok v hv
  · intro _ hd a b0 hr
    simp only [drainS] at hd
    rw [hk]
    rw [e3] at hd
    simp only at hr
    rcases e4 with ⟨q, _, _, _⟩ | ⟨q, _, _⟩ | ⟨q, _, _⟩
    · rw [q] at hr; simp only [rangeOf, Option.some.injEq, Prod.mk.injEq] at hr
      rw [← hr.1]; exact hbs
    · rw [q] at hr; simp only [rangeOf] at hr
      cases hs : w.r.set with
      | false => simp [hs] at hr
      | true => simp only [hs, ↓reduceIte] at hr hd; exact hi.below hs hd a b0 hr
    · rw [q] at hr; simp only [rangeOf] at hr
      cases hs : w.r.set with
      | false => simp [hs] at hr
      | true => simp only [hs, ↓reduceIte] at hr hd; exact hi.below hs hd a b0 hr
  · intro _ a b0 hr
    simp only at hr ⊢
    have hc := hi.cov_le
    rcases e4 with ⟨q, _, _, _⟩ | ⟨q, _, _⟩ | ⟨q, _, _⟩
    · rw [q] at hr; simp only [rangeOf, Option.some.injEq, Prod.mk.injEq] at hr
      split <;> omega
    · rw [q] at hr; simp only [rangeOf] at hr
      cases hs : w.r.set with
      | false => simp [hs] at hr
      | true => simp only [hs, ↓reduceIte] at hr ⊢; exact hi.rcov hs a b0 hr
    · rw [q] at hr; simp only [rangeOf] at hr
      cases hs : w.r.set with
      | false => simp [hs] at hr
      | true => simp only [hs, ↓reduceIte] at hr ⊢; exact hi.rcov hs a b0 hr
  · intro _ hrs hd
    simp only [drainS] at hrs hd
    rw [hk]
    rw [e3] at hd
    rcases e4 with ⟨_, q, _, _⟩ | ⟨_, _, q⟩ | ⟨_, q, _⟩
    · rw [q] at hrs; cases hrs
    · rcases q with q | ⟨_, q⟩
      · cases hs : w.r.set with
        | false => simp [hs] at q
        | true =>
          simp only [hs, ↓reduceIte] at q hd
          exact hi.cnone hs q hd
      · intro h b h1 _ hb
        have hb' : w.chain[h - 1]? = some b := hb
        have := lookup_le hb' h1
        exact hbs h b h1 (by omega) hb' 
    · rw [q] at hrs; cases hrs
  · intro hs
    simp only [drainS] at hs
    rw [e1] at hs; cases hs

theorem shstep_cancel {w : SWorld} {reg : Nat} (hi : SHInv w) : SHInv (swstep w (.cancel reg)) := by
  obtain ⟨c1, c2, c3, c4⟩ := scancel_fields w.r reg
  have hk : (w.r.cancel reg).key = w.r.key := scancel_key _ _
  simp only [swstep]
  refine ⟨hi.cov_le, ?_, ?_, ?_, ?_, ?_, ?_⟩
  · simp only [drainS_key, hk]; exact hi.lo_ok
  · simp only [drainS_key, hk, drainS, c4]; exact hi.hint_ok
  · simp only [drainS_key, hk, drainS, c1, c3]; exact hi.below
  · simp only [drainS, c1]; exact hi.rcov
  · simp only [drainS_key, hk, drainS, c1, c2, c3]; exact hi.cnone
  · simp only [drainS_key, hk, drainS, c1, c4]; exact hi.unset

theorem shstep_update {w : SWorld} {d : Option SpendDetails} (hw : SWInv w) (hok : SOk w (.update d))
    (hi : SHInv w) : SHInv (swstep w (.update d)) := by
  obtain ⟨a, b0, hr, hok⟩ := hok
  obtain ⟨e1, e2⟩ := supdate_spec w.cur w.limit d w.r
  have hk : (w.r.update w.cur w.limit d).1.key = w.r.key := supdate_key _ _ _ _
  have hcl := coverAfter_le w.cover w.range
  have hlen := hw.1.1.len
  simp only [swstep]
  rcases e2 with ⟨q1, q2, q3, _⟩ | ⟨hs, hd, q1, q⟩
  · -- nothing but `cover` changes
    refine ⟨by show coverAfter w.cover w.range ≤ w.cur + 1; have := hi.cov_le; omega, ?_, ?_, ?_, ?_, ?_, ?_⟩
    · simp only [drainS_key, hk]; exact hi.lo_ok
    · simp only [drainS_key, hk, drainS, q3]; exact hi.hint_ok
    · simp only [drainS_key, hk, drainS, e1, q2]; exact hi.below
    · simp only [drainS, e1]
      intro hs a' b' hr'
      have := hi.rcov hs a' b' hr'; omega
    · simp only [drainS_key, hk, drainS, e1, q1, q2]; exact hi.cnone
    · simp only [drainS_key, hk, drainS, e1, q3]; exact hi.unset
  · have hrc := hi.rcov hs a b0 hr
    rcases q with ⟨rfl, qd, qh⟩ | ⟨x, rfl, hx, _, _⟩ | ⟨x, rfl, hx, qd, qh⟩
    · -- "not found": the outpoint is spent nowhere on the chain
      have hnone : NoSpend w.chain w.r.key (fun _ => True) := by
        intro h b h1 _ hb
        by_cases hlt : h < a
        · exact hi.below hs hd a b0 hr h b h1 hlt hb
        · by_cases hle : h ≤ b0
          · exact hok h b (by omega) hle h1 hb
          · exact hw.1.1.cov hs hd h b (by omega) h1 hb
      refine ⟨by show coverAfter w.cover w.range ≤ w.cur + 1; have := hi.cov_le; omega, ?_, ?_, ?_, ?_, ?_, ?_⟩
      · simp only [drainS_key, hk]; exact hi.lo_ok
      · simp only [drainS_key, hk]
        intro v _ h b h1 hb hhas
        exact absurd hhas (hnone h b h1 trivial hb)
      · simp only [drainS_key, hk]
        intro _ _ a' b' _ h b h1 _ hb
        exact hnone h b h1 trivial hb
      · simp only [drainS, e1]
        intro hs' a' b' hr'
        have := hi.rcov hs' a' b' hr'; omega
      · simp only [drainS_key, hk]
        intro _ _ _; exact hnone
      · simp only [drainS, e1]
        intro hs'; rw [hs] at hs'; cases hs'
    · have := hok.1.le; omega
    · -- found: cached and committed as hint
      obtain ⟨hon, _⟩ := hok
      refine ⟨by show coverAfter w.cover w.range ≤ w.cur + 1; have := hi.cov_le; omega, ?_, ?_, ?_, ?_, ?_, ?_⟩
      · simp only [drainS_key, hk]; exact hi.lo_ok
      · simp only [drainS_key, hk, drainS, qh]
        intro v hv h b h1 hb hhas
        simp only [Option.some.injEq] at hv
        obtain ⟨bd, hbd, hbdhas⟩ := hon.spent
        have := hw.1.1.valid (h - 1) (x.height - 1) b bd hb hbd hhas hbdhas
        have := hon.le
        omega
      · simp only [drainS, qd]
        intro _ hx'; cases hx'
      · simp only [drainS, e1]
        intro hs' a' b' hr'
        have := hi.rcov hs' a' b' hr'; omega
      · simp only [drainS, qd]
        intro _ _ hx'; cases hx'
      · simp only [drainS, e1]
        intro hs'; rw [hs] at hs'; cases hs'

theorem shstep_untip {w : SWorld} (hw : SWInv w) (hok : SOk w .untip) (hi : SHInv w) :
    SHInv (swstep w .untip) := by
  obtain ⟨hc1, hlim⟩ := hok
  obtain ⟨e1, e2, e3⟩ := sdisconnect_spec w.r (w.cur - 1) w.cur
  have hk : (w.r.disconnect (w.cur - 1) w.cur).key = w.r.key := by
    unfold SpendReq.disconnect
    have := (supdateHint_fields (w.cur - 1) w.cur w.r).1
    simp only
    split <;> (try split) <;> simp [this]
  have hhint : (w.r.disconnect (w.cur - 1) w.cur).hint =
      (if (w.r.set && w.r.rescan == .complete && w.r.details.isNone) || w.r.spentAt.contains w.cur
       then some (w.cur - 1) else w.r.hint) := by
    rw [sdisconnect_hint, supdateHint_spec]
  have hlen := hw.1.1.len
  -- a block of the shortened chain is in the old chain, below the tip
  have sub : ∀ {h : Nat} {b : Block}, w.chain.dropLast[h - 1]? = some b → 1 ≤ h →
      w.chain[h - 1]? = some b ∧ h < w.cur := by
    intro h b hb h1
    obtain ⟨x, y⟩ := dropLast_some hb
    exact ⟨x, by omega⟩
  -- if the request is indexed at the disconnected height, no other block spends the outpoint
  have gone : w.cur ∈ w.r.spentAt → NoSpend w.chain.dropLast w.r.key (fun _ => True) := by
    intro hm h b h1 _ hb hhas
    obtain ⟨x, y⟩ := sub hb h1
    cases hd : w.r.details with
    | none => rw [hw.1.1.nodet hd] at hm; cases hm
    | some d =>
      obtain ⟨hon, _, hini⟩ := hw.1.1.det d hd
      have hdh : d.height = w.cur := by
        rcases hini with c | ⟨c, _⟩
        · rw [c] at hm; simp at hm; omega
        · rw [c] at hm; cases hm
      obtain ⟨bd, hbd, hbdhas⟩ := hon.spent
      have := hw.1.1.valid (h - 1) (d.height - 1) b bd x hbd hhas hbdhas
      omega
  simp only [swstep]
  refine ⟨?_, ?_, ?_, ?_, ?_, ?_, ?_⟩
  · show min w.cover w.cur ≤ w.cur - 1 + 1; omega
  · simp only [drainS_key, hk]
    intro h b h1 hlt hb
    exact hi.lo_ok h b h1 hlt (sub hb h1).1
  · simp only [drainS_key, hk, drainS, hhint]
    intro v hv h b h1 hb hhas
    obtain ⟨x, y⟩ := sub hb h1
    split at hv
    · rename_i hc
      simp only [Bool.or_eq_true, Bool.and_eq_true, beq_iff_eq, Option.isNone_iff_eq_none,
        List.contains_iff_mem] at hc
      rcases hc with ⟨⟨a, b'⟩, c⟩ | c
      · exact absurd hhas (hi.cnone a b' c h b h1 trivial x)
      · exact absurd hhas (gone c h b h1 trivial hb)
    · exact hi.hint_ok v hv h b h1 x hhas
  · simp only [drainS_key, hk, drainS, e1]
    intro hs hd a b0 hr h b h1 hlt hb
    rcases e3 with q | ⟨_, q⟩
    · rw [q] at hd
      exact hi.below hs hd a b0 hr h b h1 hlt (sub hb h1).1
    · exact gone q h b h1 trivial hb
  · simp only [drainS, e1]
    intro hs a b0 hr
    have := hi.rcov hs a b0 hr
    show min w.cover w.cur ≤ b0 + 1; omega
  · simp only [drainS_key, hk, drainS, e1, e2]
    intro hs hrs hd h b h1 _ hb
    rcases e3 with q | ⟨_, q⟩
    · rw [q] at hd
      exact hi.cnone hs hrs hd h b h1 trivial (sub hb h1).1
    · exact gone q h b h1 trivial hb
  · simp only [drainS_key, hk, drainS, e1, hhint]
    intro hs v hv
    have hini : w.r.spentAt = [] := (hw.1.1.unset hs).2.1
    simp only [hs, hini, Bool.false_and, List.contains_nil, Bool.or_self, Bool.false_eq_true,
      ↓reduceIte] at hv
    obtain ⟨h, b, a1, a2, a3, a4, a5⟩ := hi.unset hs v hv
    have := lookup_le a3 a2
    refine ⟨h, b, a1, a2, ?_, a4, a5⟩
    rw [dropLast_of_lt (by omega)]; exact a3

theorem shstep_tip {w : SWorld} {b : Block} (hw : SWInv w) (hw' : SWInv (swstep w (.tip b)))
    (hok : SOk w (.tip b)) (hh : SHonest w (.tip b)) (hi : SHInv w) (hl : 1 ≤ w.limit) :
    SHInv (swstep w (.tip b)) := by
  have hk : (swstep w (.tip b)).r.key = w.r.key := swstep_key w (.tip b)
  have hvalid' : ValidS (w.chain ++ [b]) w.r.key := by
    have := hw'.1.1.valid; rw [hk] at this; exact this
  have hlen := hw.1.1.len
  -- the request record after the block, in terms of the intermediate records
  obtain ⟨a1, a2, a3⟩ := satTip_spec w.r (w.cur + 1) (b.spendHits w.r.key)
  generalize hr1 : (b.spendHits w.r.key).foldl (fun r p => r.atTip ⟨w.cur + 1, p.1, p.2⟩) w.r = r1
    at a1 a2 a3
  obtain ⟨u1, u2, u3, u4, u5, u6, u7⟩ := supdateHint_fields (w.cur + 1) (w.cur + 1) r1
  have uh := supdateHint_spec r1 (w.cur + 1) (w.cur + 1)
  obtain ⟨m1, m2⟩ := smature_spec (r1.updateHint (w.cur + 1) (w.cur + 1)) (w.cur + 1) w.limit
  have hrc : w.r.connect (w.cur + 1) w.limit b =
      (r1.updateHint (w.cur + 1) (w.cur + 1)).mature (w.cur + 1) w.limit := by
    simp only [SpendReq.connect]; rw [hr1]
  obtain ⟨n1, n2, n3, n4⟩ :=
    snotify_fields (drainS (w.r.connect (w.cur + 1) w.limit b)) (w.cur + 1) w.limit (w.cur + 1)
  have fset : (swstep w (.tip b)).r.set = ((r1.updateHint (w.cur + 1) (w.cur + 1)).mature (w.cur + 1) w.limit).set := by
    show ((drainS (w.r.connect (w.cur + 1) w.limit b)).notify (w.cur + 1) w.limit (w.cur + 1)).set = _
    rw [n1]; show (w.r.connect (w.cur + 1) w.limit b).set = _; rw [hrc]
  have fres : (swstep w (.tip b)).r.rescan = ((r1.updateHint (w.cur + 1) (w.cur + 1)).mature (w.cur + 1) w.limit).rescan := by
    show ((drainS (w.r.connect (w.cur + 1) w.limit b)).notify (w.cur + 1) w.limit (w.cur + 1)).rescan = _
    rw [n2]; show (w.r.connect (w.cur + 1) w.limit b).rescan = _; rw [hrc]
  have fdet : (swstep w (.tip b)).r.details = ((r1.updateHint (w.cur + 1) (w.cur + 1)).mature (w.cur + 1) w.limit).details := by
    show ((drainS (w.r.connect (w.cur + 1) w.limit b)).notify (w.cur + 1) w.limit (w.cur + 1)).details = _
    rw [n3]; show (w.r.connect (w.cur + 1) w.limit b).details = _; rw [hrc]
  have fhint : (swstep w (.tip b)).r.hint =
      (if (r1.set && r1.rescan == .complete && r1.details.isNone) || r1.spentAt.contains (w.cur + 1)
       then some (w.cur + 1) else w.r.hint) := by
    show ((drainS (w.r.connect (w.cur + 1) w.limit b)).notify (w.cur + 1) w.limit (w.cur + 1)).hint = _
    rw [n4]; show (w.r.connect (w.cur + 1) w.limit b).hint = _; rw [hrc, m1, uh, a1]
  -- where a block of the extended chain sits
  have look : ∀ {h : Nat} {bb : Block}, 1 ≤ h → (w.chain ++ [b])[h - 1]? = some bb →
      (h ≤ w.cur ∧ w.chain[h - 1]? = some bb) ∨ (h = w.cur + 1 ∧ bb = b) := by
    intro h bb h1 hb
    have := append_lookup h1 hb
    rw [hlen] at this; exact this
  -- a block of the old chain that spends the outpoint excludes the new block spending it
  have excl : ∀ {h : Nat} {bb : Block}, 1 ≤ h → w.chain[h - 1]? = some bb → bb.spent w.r.key →
      ¬ b.spent w.r.key := by
    intro h bb h1 hb hhas hbhas
    exact hok hbhas (h - 1) bb hb hhas
  have hits_spent : b.spendHits w.r.key ≠ [] → b.spent w.r.key := fun hne => hne
  -- if the new block spends the outpoint, no spend was known
  have hdn : b.spent w.r.key → w.r.details = none := by
    intro hbs
    cases hd : w.r.details with
    | none => rfl
    | some d =>
      obtain ⟨bd, hbd, hbdhas⟩ := (hw.1.1.det d hd).1.spent
      exact absurd hbs (excl (hw.1.1.det d hd).1.1 hbd hbdhas)
  -- the outpoint is spent in the new block and the request is watching: indexed at the new height
  have sight : w.r.set = true → b.spent w.r.key →
      (w.cur + 1) ∈ r1.spentAt ∧ r1.details.isSome := by
    intro hs hbhas
    rcases a3 with ⟨_, q⟩ | ⟨_, _, _, ⟨p, q4⟩, q5⟩
    · rcases q with q | q
      · exact absurd q hbhas
      · rw [hs] at q; cases q
    · exact ⟨by rw [q5]; exact addH_mem _ _, by rw [q4]; rfl⟩
  -- hint clause first
  have hintok : ∀ v, (swstep w (.tip b)).r.hint = some v → ∀ (h : Nat) (bb : Block), 1 ≤ h →
      (w.chain ++ [b])[h - 1]? = some bb → bb.spent w.r.key → v ≤ h := by
    intro v hv h bb h1 hb hhas
    rw [fhint] at hv
    split at hv
    · rename_i hc
      simp only [Option.some.injEq] at hv
      simp only [Bool.or_eq_true, Bool.and_eq_true, beq_iff_eq, Option.isNone_iff_eq_none,
        List.contains_iff_mem] at hc
      rcases look h1 hb with ⟨hle, hb0⟩ | ⟨he, _⟩
      · -- the spender would be in an old block: impossible in both cases
        exfalso
        rcases hc with ⟨⟨c1, c2⟩, c3⟩ | c
        · rcases a3 with ⟨q, _⟩ | ⟨_, _, _, ⟨p, q4⟩, _⟩
          · rw [q] at c1 c2 c3
            exact hi.cnone c1 c2 c3 h bb h1 trivial hb0 hhas
          · rw [q4] at c3; cases c3
        · rcases a3 with ⟨q, _⟩ | ⟨q1, _, _, _, _⟩
          · rw [q] at c
            cases hd : w.r.details with
            | none => rw [hw.1.1.nodet hd] at c; cases c
            | some d =>
              obtain ⟨hon, _, hini⟩ := hw.1.1.det d hd
              have := hon.le
              rcases hini with x | ⟨x, _⟩
              · rw [x] at c; simp at c; omega
              · rw [x] at c; cases c
          · exact excl h1 hb0 hhas (hits_spent q1)
      · omega
    · rename_i hc
      rcases look h1 hb with ⟨hle, hb0⟩ | ⟨he, hbb⟩
      · exact hi.hint_ok v hv h bb h1 hb0 hhas
      · -- the hint was not moved although the new block spends the outpoint
        subst hbb
        exfalso
        cases hs : w.r.set with
        | false =>
          obtain ⟨h0, b0, _, x2, x3, x4, _⟩ := hi.unset hs v hv
          exact excl x2 x3 x4 hhas
        | true =>
          obtain ⟨x, _⟩ := sight hs hhas
          apply hc
          simp only [Bool.or_eq_true, List.contains_iff_mem]
          exact Or.inr x
  refine ⟨?_, ?_, ?_, ?_, ?_, ?_, ?_⟩
  · show w.cover ≤ w.cur + 1 + 1; have := hi.cov_le; omega
  · rw [hk]
    intro h bb h1 hlt hb
    rcases look h1 hb with ⟨_, hb0⟩ | ⟨he, hbb⟩
    · exact hi.lo_ok h bb h1 hlt hb0
    · subst hbb
      intro hbhas
      have := hh hbhas
      have hlt' : h < w.lo := hlt
      omega
  · rw [hk]; exact hintok
  · rw [hk, fset, fdet]
    intro hs hd a b0 hr h bb h1 hlt hb
    have hr' : w.range = some (a, b0) := hr
    rcases m2 with ⟨x, _⟩ | ⟨x1, _, x3⟩
    · rw [x] at hs; cases hs
    · rw [x1, u2, a2] at hs
      rw [x3, u3] at hd
      rcases a3 with ⟨q, qq⟩ | ⟨_, _, _, ⟨p, q4⟩, _⟩
      · rw [q] at hd
        rcases look h1 hb with ⟨_, hb0⟩ | ⟨_, hbb⟩
        · exact hi.below hs hd a b0 hr' h bb h1 hlt hb0
        · subst hbb
          rcases qq with qq | qq
          · simp [Block.spent, qq]
          · rw [hs] at qq; cases qq
      · rw [q4] at hd; cases hd
  · rw [fset]
    intro hs a b0 hr
    have hr' : w.range = some (a, b0) := hr
    rcases m2 with ⟨x, _⟩ | ⟨x1, _, _⟩
    · rw [x] at hs; cases hs
    · rw [x1, u2, a2] at hs
      exact hi.rcov hs a b0 hr'
  · rw [hk, fset, fres, fdet]
    intro hs hrs hd h bb h1 _ hb
    rcases m2 with ⟨x, _⟩ | ⟨x1, x2, x3⟩
    · rw [x] at hs; cases hs
    · rw [x1, u2, a2] at hs
      rw [x2, u6] at hrs
      rw [x3, u3] at hd
      rcases a3 with ⟨q, qq⟩ | ⟨_, _, _, ⟨p, q4⟩, _⟩
      · rw [q] at hd hrs
        rcases look h1 hb with ⟨_, hb0⟩ | ⟨_, hbb⟩
        · exact hi.cnone hs hrs hd h bb h1 trivial hb0
        · subst hbb
          rcases qq with qq | qq
          · simp [Block.spent, qq]
          · rw [hs] at qq; cases qq
      · rw [q4] at hd; cases hd
  · rw [hk, fset]
    intro hs v hv
    rcases m2 with ⟨_, x2, x3, x4⟩ | ⟨x1, _, _⟩
    · -- the request matured in this block
      rw [u2, a2] at x2
      rw [u4] at x3
      -- the matured record is the one spent `limit` blocks below
      have hd : ∃ d, w.r.details = some d ∧ d.height = w.cur + 1 - w.limit := by
        rcases a3 with ⟨q, _⟩ | ⟨q1, _, _, _, q5⟩
        · rw [q] at x3
          cases hd : w.r.details with
          | none => rw [hw.1.1.nodet hd] at x3; cases x3
          | some d =>
            obtain ⟨_, _, hini⟩ := hw.1.1.det d hd
            rcases hini with y | ⟨y, _⟩
            · rw [y] at x3; simp at x3; exact ⟨d, rfl, by omega⟩
            · rw [y] at x3; cases x3
        · rw [q5, hw.1.1.nodet (hdn (hits_spent q1)), addH_nil] at x3
          simp at x3; omega
      obtain ⟨d, hd, hdh⟩ := hd
      obtain ⟨hon, _, _⟩ := hw.1.1.det d hd
      obtain ⟨bd, hbd, hbdhas⟩ := hon.spent
      have hle := hon.le
      have hbd' : (w.chain ++ [b])[d.height - 1]? = some bd := by
        rw [List.getElem?_append_left (by omega)]; exact hbd
      refine ⟨d.height, bd, hintok v hv d.height bd hon.1 hbd' hbdhas, hon.1, hbd', hbdhas, ?_⟩
      show d.height + w.limit ≤ max w.maxTip (w.cur + 1)
      omega
    · rw [x1, u2, a2] at hs
      have hini : w.r.spentAt = [] := (hw.1.1.unset hs).2.1
      have hr1eq : r1 = w.r := by
        rcases a3 with ⟨q, _⟩ | ⟨_, q, _⟩
        · exact q
        · rw [hs] at q; cases q
      rw [fhint, hr1eq] at hv
      simp only [hs, hini, Bool.false_and, List.contains_nil, Bool.or_self, Bool.false_eq_true,
        ↓reduceIte] at hv
      obtain ⟨h0, b0, y1, y2, y3, y4, y5⟩ := hi.unset hs v hv
      have := lookup_le y3 y2
      refine ⟨h0, b0, y1, y2, ?_, y4, ?_⟩
      · show (w.chain ++ [b])[h0 - 1]? = some b0
        rw [List.getElem?_append_left (by omega)]; exact y3
      · show h0 + w.limit ≤ max w.maxTip (w.cur + 1); omega

theorem shstep {w : SWorld} {op : SOp} (hw : SWInv w) (hok : SOk w op) (hh : SHonest w op)
    (hi : SHInv w) (hl : 1 ≤ w.limit) : SHInv (swstep w op) := by
  cases op with
  | register reg hint => exact shstep_register hw hh hi
  | cancel reg => exact shstep_cancel hi
  | update d => exact shstep_update hw hok hi
  | tip b => exact shstep_tip hw (swstep_inv hw hok) hok hh hi hl
  | untip => exact shstep_untip hw hok hi

theorem sinit_hinv (key limit : Nat) (chain0 : List Block) : SHInv (SWorld.init key limit chain0) := by
  refine ⟨Nat.le_refl _, ?_, ?_, ?_, ?_, ?_, ?_⟩
  · intro h b _ hlt; simp [SWorld.init] at hlt
  · intro v hv; simp [SWorld.init] at hv
  · intro hs; simp [SWorld.init] at hs
  · intro hs; simp [SWorld.init] at hs
  · intro hs; simp [SWorld.init] at hs
  · intro _ v hv; simp [SWorld.init] at hv

theorem swstep_limit (w : SWorld) (op : SOp) : (swstep w op).limit = w.limit := by
  cases op <;> rfl

/-- operation lists that satisfy `Ok` and `SHonest` at every step -/
def SOkRunH : SWorld → List SOp → Prop
  | _, [] => True
  | w, op :: rest => SOk w op ∧ SHonest w op ∧ SOkRunH (swstep w op) rest

theorem srun_hinv {w : SWorld} {ops : List SOp} (hw : SWInv w) (hi : SHInv w) (hl : 1 ≤ w.limit)
    (hok : SOkRunH w ops) : SWInv (ops.foldl swstep w) ∧ SHInv (ops.foldl swstep w) := by
  induction ops generalizing w with
  | nil => exact ⟨hw, hi⟩
  | cons op rest ih =>
    exact ih (swstep_inv hw hok.1) (shstep hw hok.1 hok.2.1 hi hl)
      (by rw [swstep_limit]; exact hl) hok.2.2

end LndModel.C14
