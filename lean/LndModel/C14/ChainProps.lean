/-
C14 — property theorems, part 2: what a confirmation client holds vs. the active chain.

Setting (see `Chain.lean`): one confirmation request `key` of a notifier started at height
`chain0.length`; arbitrary lists of operations register / cancel / rescan-completes / `tip b`
(= `ConnectTip` followed by its `NotifyHeight`) / `untip` (= `DisconnectTip`), every client
emptying its channels after each notifier call.  Environment assumptions (`Ok`, per operation):

  * registrations ask for `1 ≤ numConfs ≤ reorgSafetyLimit` (others are rejected by `step`);
  * a historical rescan reports the truth about the active chain at the moment it completes
    (found ⇒ the details are on the chain; not found ⇒ the transaction is in no block at a height
    ≥ the rescan's start height), and — this excludes the known finding F-c14-orphan-details —
    a *found* result arrives while the request still has a live client;
  * the chain stays valid (a connected block contains the transaction only if no other block of
    the active chain does);
  * reorg depth below the safety limit: `untip` only while `cur + limit > highest tip ever seen`.
-/
import LndModel.C14.Hint
import LndModel.C14.Payload
import LndModel.C14.Props

namespace LndModel.C14

/-! ### the history invariant of part 1, for the single-request world -/

theorem drainR_B {r : ConfReq} (h : r.AllA) : (drainR r).AllB := by
  refine all_map (P := ConfNtfn.A) (fun n hn => ?_) h
  split
  · rename_i hcl; exact ConfNtfn.closed_B hn hcl
  · rename_i hcl; exact ConfNtfn.drained_B hn (by simpa using hcl)

theorem wstep_B {w : World} (op : WOp) (h : w.r.AllB) : (wstep w op).r.AllB := by
  cases op with
  | register reg n hint => exact drainR_B (ConfReq.register_A _ _ _ _ _ h)
  | cancel reg => exact drainR_B (ConfReq.cancel_A _ h)
  | update d => exact drainR_B (ConfReq.update_A _ _ _ h)
  | tip b => exact drainR_B (ConfReq.notify_A _ (drainR_B (ConfReq.connect_B _ _ b h).toA))
  | untip => exact drainR_B (ConfReq.disconnect_A _ _ _ h)

theorem run_wB {w : World} (ops : List WOp) (h : w.r.AllB) : (ops.foldl wstep w).r.AllB := by
  induction ops generalizing w with
  | nil => exact h
  | cons op rest ih => exact ih (wstep_B op h)

/-! ### headline theorems -/

section
variable (key limit : Nat) (chain0 : List Block) (hv : Valid chain0 key)
variable (ops : List WOp) (hok : OkRun (World.init key limit chain0) ops)
include hv hok

/-- `conf_iff_N_on_active_chain`, only-if direction and "details from the active chain":
    after any admissible history, a client whose event history says "confirmed, not retracted"
    (`holdsConf seen`) is backed by details that name a block of the ACTIVE chain containing the
    transaction at the reported index. -/
theorem conf_only_if_on_active_chain :
    let w := ops.foldl wstep (World.init key limit chain0)
    ∀ n ∈ w.r.ntfns, n.live = true → holdsConf n.seen = true →
      ∃ d, w.r.details = some d ∧ OnChain w.chain key d := by
  intro w n hn hl hh
  have hinv : WInv w := run_inv (init_inv key limit chain0 hv) hok
  have hB : w.r.AllB := run_wB ops (fun n hn => by simp [World.init] at hn)
  obtain ⟨b, hb, hcl⟩ := hB n hn
  have hclosed : n.closed = false := (hinv.1.2 n hn).2.2.2.1 hl
  obtain ⟨_, _, hbd⟩ := hcl hclosed
  have hd : n.dispatched = true := by
    rw [← hbd, holds_of_okFrom hb]; exact hh
  obtain ⟨d, h1, h2⟩ := inv_sound hinv hn hl hd
  have hk : w.r.key = key := run_key _ _
  exact ⟨d, h1, by rw [← hk]; exact h2⟩

/-- the payload the client actually read: the last `Confirmed` event in the history of a client
    that holds a confirmation carries exactly the request's details, which name a block of the
    ACTIVE chain containing the transaction at that index (block id, height and tx index of the
    delivered event are those of the active chain). -/
theorem conf_payload_on_active_chain :
    let w := ops.foldl wstep (World.init key limit chain0)
    ∀ n ∈ w.r.ntfns, n.live = true → holdsConf n.seen = true →
      ∃ d, lastConfD n.seen = some d ∧ w.r.details = some d ∧ OnChain w.chain key d := by
  intro w n hn hl hh
  have hinv : WInv w := run_inv (init_inv key limit chain0 hv) hok
  have hB : w.r.AllB := run_wB ops (fun n hn => by simp [World.init] at hn)
  have hP : PayAll w.r := run_pay (init_inv key limit chain0 hv) hok
    (fun n hn => by simp [World.init] at hn)
  obtain ⟨b, hb, hcl⟩ := hB n hn
  have hclosed : n.closed = false := (hinv.1.2 n hn).2.2.2.1 hl
  obtain ⟨_, _, hbd⟩ := hcl hclosed
  have hd : n.dispatched = true := by
    rw [← hbd, holds_of_okFrom hb]; exact hh
  obtain ⟨d, h1, h2⟩ := inv_sound hinv hn hl hd
  have hk : w.r.key = key := run_key _ _
  have hpay := hP n hn hl hd
  have hconf : n.confirmed = [] := (hinv.2 n hn hclosed).2.1
  rw [hconf] at hpay
  refine ⟨d, ?_, h1, by rw [← hk]; exact h2⟩
  rw [← h1]; simpa [lastFrom] using hpay

/-- `conf_iff_N_on_active_chain`, if direction: when the transaction is on the active chain at a
    height `h` that the request has examined (`cover ≤ h`: seen at tip, or covered by a completed
    rescan) and has at least `numConfs` confirmations (`h + numConfs ≤ cur + 1`), every live client's
    history says "confirmed, not retracted", and the request's details are the ones at height `h`
    on the active chain. -/
theorem conf_if_N_on_active_chain :
    let w := ops.foldl wstep (World.init key limit chain0)
    w.r.set = true →
    ∀ (h : Nat) (b : Block), 1 ≤ h → w.chain[h - 1]? = some b → b.has key → w.cover ≤ h →
    ∀ n ∈ w.r.ntfns, n.live = true → h + n.numConfs ≤ w.cur + 1 →
      holdsConf n.seen = true ∧
      ∃ d, w.r.details = some d ∧ d.height = h ∧ OnChain w.chain key d := by
  intro w hs h b h1 hb hhas hcov n hn hl hdeep
  have hinv : WInv w := run_inv (init_inv key limit chain0 hv) hok
  have hk : w.r.key = key := run_key _ _
  obtain ⟨hd, d, e1, e2, e3⟩ :=
    inv_complete hinv hs h1 hb (by rw [hk]; exact hhas) hcov hn hl hdeep
  have hB : w.r.AllB := run_wB ops (fun n hn => by simp [World.init] at hn)
  obtain ⟨b', hb', hcl⟩ := hB n hn
  have hclosed : n.closed = false := (hinv.1.2 n hn).2.2.2.1 hl
  obtain ⟨_, _, hbd⟩ := hcl hclosed
  refine ⟨?_, d, e1, e2, by rw [← hk]; exact e3⟩
  unfold holdsConf
  rw [← holds_of_okFrom hb', hbd]; exact hd

/-- a client that has not (or no longer) been told "confirmed" although the request knows the
    transaction's block is queued at exactly `height + numConfs - 1`, and that height has not been
    reached: no off-by-one in the confirmation height. -/
theorem conf_pending_exact_height :
    let w := ops.foldl wstep (World.init key limit chain0)
    ∀ n ∈ w.r.ntfns, n.live = true → ∀ d, w.r.details = some d → holdsConf n.seen = false →
      n.queuedAt = [d.height + n.numConfs - 1] ∧ w.cur < d.height + n.numConfs - 1 := by
  intro w n hn hl d hdet hh
  have hinv : WInv w := run_inv (init_inv key limit chain0 hv) hok
  have hB : w.r.AllB := run_wB ops (fun n hn => by simp [World.init] at hn)
  obtain ⟨b, hb, hcl⟩ := hB n hn
  have hclosed : n.closed = false := (hinv.1.2 n hn).2.2.2.1 hl
  obtain ⟨_, _, hbd⟩ := hcl hclosed
  have hd : n.dispatched = false := by
    rw [← hbd, holds_of_okFrom hb]; exact hh
  exact inv_queued hinv hn hl hdet hd

/-- under the assumptions no channel send ever blocks and no nil dereference happens -/
theorem never_blocks_never_panics :
    let w := ops.foldl wstep (World.init key limit chain0)
    w.r.panicked = false ∧ ∀ n ∈ w.r.ntfns, n.stuck = false :=
  inv_live (run_inv (init_inv key limit chain0 hv) hok)

end

/-! ### depth at the moment of delivery

`sendConfirmed` is called in exactly two places of the model: `ConfNtfn.dispatch`
(`dispatchConfDetails`, used by RegisterConf / UpdateConfDetails) and `ConfNtfn.confirmAt`
(`NotifyHeight`).  In both the transaction has at least `numConfs` confirmations. -/

theorem delivered_only_when_deep_dispatch (n : ConfNtfn) (cur : Nat) (d : ConfDetails)
    (h0 : n.dispatched = false) (h1 : (n.dispatch cur d).dispatched = true) :
    d.height + n.numConfs ≤ cur + 1 := by
  unfold ConfNtfn.dispatch at h1
  simp only [h0, Bool.false_eq_true, ↓reduceIte] at h1
  split at h1
  · omega
  · rw [(sendUpdate_same _ _ _).2.2.1] at h1
    simp [h0] at h1

theorem delivered_only_when_deep_notify {cur limit : Nat} {d : ConfDetails} {n : ConfNtfn}
    (hc : Core cur limit (some d) n) (hl : n.live = true) (h0 : n.dispatched = false)
    (h1 : (n.confirmAt d (cur + 1)).dispatched = true) :
    d.height + n.numConfs = cur + 1 + 1 := by
  obtain ⟨hq, hlt⟩ := (hc.2.2.2.2.2 hl).2 h0
  unfold ConfNtfn.confirmAt at h1
  split at h1
  · rename_i hcond
    simp only [hq, Bool.and_eq_true, List.contains_iff_mem, List.mem_singleton] at hcond
    have := hc.2.1
    omega
  · rw [h0] at h1; cases h1

/-! ### reorg notice -/

theorem disconnected_hit_seen {n : ConfNtfn} (k cur depth : Nat) (hc : Chan n) (hcl : n.closed = false) :
    (n.disconnected k true cur depth).closed = false ∧
    (n.disconnected k true cur depth).drained.seen = n.seen ++ [.neg depth] ∧
    (n.disconnected k true cur depth).drained.reg = n.reg := by
  obtain ⟨c1, c2, c3, c4⟩ := hc hcl
  unfold ConfNtfn.disconnected ConfNtfn.reorg ConfNtfn.sendNeg ConfNtfn.drained ConfNtfn.pending
  cases hd : n.dispatched <;> simp [hd, c1, c2, c3, c4, hcl]

/-- second half of `reorg_notice_before_reconfirm`: when the block that contains the request's
    transaction is disconnected (within the reorg safety limit), the details are dropped and EVERY
    live client — whether or not it had already been told "confirmed" — reads a `NegativeConf`
    carrying the current reorg depth, in that very operation. -/
theorem reorg_notice_sent {w : World} (h : WInv w) (hok : Ok w .untip) {d : ConfDetails}
    (hdet : w.r.details = some d) (hh : d.height = w.cur) :
    (wstep w .untip).r.details = none ∧
    ∀ n ∈ w.r.ntfns, n.live = true →
      ∃ n' ∈ (wstep w .untip).r.ntfns, n'.reg = n.reg ∧ n'.seen = n.seen ++ [.neg (w.depth + 1)] := by
  obtain ⟨⟨h0, hcl⟩, hch⟩ := h
  obtain ⟨hc1, hlim⟩ := hok
  obtain ⟨hon, _, hini⟩ := h0.det d hdet
  have hini : w.r.initialAt = [d.height] := by
    rcases hini with c | ⟨_, c⟩
    · exact c
    · have := h0.tip; omega
  have hset : w.r.set = true := by
    cases hs : w.r.set with
    | true => rfl
    | false => have := (h0.unset hs).1; rw [hdet] at this; cases this
  obtain ⟨u1, u2, u3, u4, u5, u6, u7⟩ := updateHint_fields (w.cur - 1) w.cur w.r
  simp only [wstep, drainR, ConfReq.disconnect]
  generalize w.r.updateHint (w.cur - 1) w.cur = r0 at u1 u2 u3 u4 u5 u6 u7
  have e1 : r0.initialAt.isEmpty = false := by rw [u4, hini]; rfl
  have e2 : (!r0.set) = false := by rw [u2, hset]; rfl
  have e3 : r0.initialAt.contains w.cur = true := by rw [u4, hini]; simp [hh]
  simp only [e1, e2, e3, Bool.false_eq_true, ↓reduceIte]
  refine ⟨trivial, fun n hn hl => ?_⟩
  have hclosed : n.closed = false := (hcl n hn).2.2.2.1 hl
  obtain ⟨a, b, c⟩ := disconnected_hit_seen r0.initialAt.length w.cur (w.depth + 1) (hch n hn) hclosed
  refine ⟨(n.disconnected r0.initialAt.length true w.cur (w.depth + 1)).drained, ?_, c, b⟩
  simp only [List.mem_map]
  refine ⟨n.disconnected r0.initialAt.length true w.cur (w.depth + 1), ⟨n, by rw [u7]; exact hn, by simp [hl]⟩, ?_⟩
  simp [a]

/-! ### an unread NegativeConf is removed only by a re-confirmation (or by the client reading it)

For clients that do NOT read their channels after every call the property's "reorg notice before
any renewed confirmation" is only true in this weaker form (see `assumptions` in C14.json): the
notice is sent (`reorg_notice_sent`), every notifier function except `ConfNtfn.tipped` leaves the
content of the NegativeConf channel in place, and `tipped` is applied by `handleConfDetailsAtTip`
only when the request's details go from none to the new block (a re-confirmation). -/

theorem negConf_kept (n : ConfNtfn) :
    (∀ l h, n.negConf <+: (n.sendUpdate l h).negConf) ∧
    (∀ d, n.negConf <+: (n.sendConfirmed d).negConf) ∧
    (∀ x, n.negConf <+: (n.sendNeg x).negConf) ∧
    n.negConf <+: n.sendDone.negConf ∧
    (∀ cur d, n.negConf <+: (n.dispatch cur d).negConf) ∧
    (∀ h depth, n.negConf <+: (n.reorg h depth).negConf) ∧
    (∀ det, n.negConf <+: (n.cancelled det).negConf) ∧
    n.negConf <+: n.matured.negConf ∧
    (∀ d h, n.negConf <+: (n.updateAt d h).negConf) ∧
    (∀ d h, n.negConf <+: (n.confirmAt d h).negConf) ∧
    (∀ h, n.negConf <+: (n.unqueue h).negConf) ∧
    (∀ k hit h depth, n.negConf <+: (n.disconnected k hit h depth).negConf) := by
  have su : ∀ (m : ConfNtfn) l h, (m.sendUpdate l h).negConf = m.negConf := by
    intro m l h; unfold ConfNtfn.sendUpdate; split <;> (try split) <;> rfl
  have sc : ∀ (m : ConfNtfn) d, (m.sendConfirmed d).negConf = m.negConf := by
    intro m d; unfold ConfNtfn.sendConfirmed; split <;> rfl
  have sn : ∀ (m : ConfNtfn) x, m.negConf <+: (m.sendNeg x).negConf := by
    intro m x; unfold ConfNtfn.sendNeg; split
    · exact List.prefix_refl _
    · exact List.prefix_append _ _
  have sd : ∀ (m : ConfNtfn), m.sendDone.negConf = m.negConf := by
    intro m; unfold ConfNtfn.sendDone; split <;> rfl
  have rf : ∀ (l : List Nat), l <+: l := fun l => List.prefix_refl l
  have rg : ∀ (m : ConfNtfn) h depth, m.negConf <+: (m.reorg h depth).negConf := by
    intro m h depth
    unfold ConfNtfn.reorg
    split
    · exact sn m depth
    · exact sn ({ m with confirmed := m.confirmed.drop 1, dispatched := false }) depth
  refine ⟨fun l h => by rw [su]; exact rf _, fun d => by rw [sc]; exact rf _, sn n,
    by rw [sd]; exact rf _, ?_, rg n, fun _ => rf _, ?_, ?_, ?_, fun _ => rf _, ?_⟩
  · intro cur d
    unfold ConfNtfn.dispatch
    split
    · exact rf _
    · simp only; split
      · rw [sc, su]; exact rf _
      · rw [su]; exact rf _
  · unfold ConfNtfn.matured; simp only; rw [sd]; exact rf _
  · intro d h
    unfold ConfNtfn.updateAt; simp only; split
    · exact rf _
    · rw [su]; exact rf _
  · intro d h
    unfold ConfNtfn.confirmAt; split
    · rw [sc]; exact rf _
    · exact rf _
  · intro k hit h depth
    unfold ConfNtfn.disconnected
    simp only
    split
    · exact rg ({ n with updates := n.updates.drop k, left := n.numConfs }) h depth
    · exact rf _

theorem atTip_drains_only_on_reconfirm (r : ConfReq) (d : ConfDetails)
    (h : (r.atTip d).ntfns ≠ r.ntfns) : r.details = none ∧ (r.atTip d).details = some d := by
  unfold ConfReq.atTip at h ⊢
  cases hs : r.set with
  | false => simp [hs] at h
  | true =>
    cases hd : r.details with
    | some x => simp [hs, hd] at h
    | none => simp [hs, hd]

/-! ### hints move with the tip only for requests whose rescan is complete -/

/-- `hint_safe`, second half, for `DisconnectTip`: the cached hint changes only if the request's
    rescan is complete, and then it becomes the new current height. -/
theorem hint_moves_only_when_complete_untip {w : World} (h : WInv w) :
    (wstep w .untip).r.hint = w.r.hint ∨
    ((wstep w .untip).r.hint = some (wstep w .untip).cur ∧ w.r.rescan = .complete) := by
  obtain ⟨⟨h0, _⟩, _⟩ := h
  simp only [wstep, drainR, disconnect_hint]
  rcases updateHint_hint w.r (w.cur - 1) w.cur with e | ⟨e, c⟩
  · exact Or.inl e
  · refine Or.inr ⟨e, ?_⟩
    rcases c with ⟨_, b, _⟩ | c
    · exact b
    · cases hd : w.r.details with
      | none => rw [h0.nodet hd] at c; cases c
      | some d => exact (h0.det d hd).2.1

/-- ... and for `ConnectTip`: the hint changes only if the rescan was complete or the transaction
    is sighted in the connected block (which completes it); it becomes the new height. -/
theorem hint_moves_only_when_complete_tip {w : World} (h : WInv w) (b : Block) :
    (wstep w (.tip b)).r.hint = w.r.hint ∨
    ((wstep w (.tip b)).r.hint = some (wstep w (.tip b)).cur ∧
      (w.r.rescan = .complete ∨ b.has w.r.key)) := by
  obtain ⟨⟨h0, _⟩, _⟩ := h
  simp only [wstep, drainR, notify_hint, ConfReq.connect, mature_hint]
  rw [foldl_atTip]
  cases hhits : b.confHits w.r.key with
  | nil =>
    simp only
    rcases updateHint_hint w.r (w.cur + 1) (w.cur + 1) with e | ⟨e, c⟩
    · exact Or.inl e
    · refine Or.inr ⟨e, Or.inl ?_⟩
      rcases c with ⟨_, x, _⟩ | c
      · exact x
      · cases hd : w.r.details with
        | none => rw [h0.nodet hd] at c; cases c
        | some d => exact (h0.det d hd).2.1
  | cons i t =>
    simp only
    rcases updateHint_hint (w.r.atTip ⟨w.cur + 1, b.id, i⟩) (w.cur + 1) (w.cur + 1) with e | ⟨e, _⟩
    · left; rw [e, atTip_hint]
    · exact Or.inr ⟨e, Or.inr (by simp [Block.has, hhits])⟩

/-! ### the single-request world is the projection of the notifier model

For the operations that are not addressed to one request the notifier model applies exactly the
per-request functions used by `wstep` to every entry of `State.confs`. -/

theorem bridge_tip (s : State) (b : Block) :
    (eager (eager s (.connect (s.cur + 1) b)) (.notify (s.cur + 1))).confs =
      s.confs.map (fun r => drainR ((drainR (r.connect (s.cur + 1) s.limit b)).notify (s.cur + 1))) := by
  simp [eager, step, State.drain, drainR, List.map_map, Function.comp_def]

theorem bridge_untip (s : State) :
    (eager s (.disconnect s.cur)).confs =
      s.confs.map (fun r => drainR (r.disconnect (s.cur - 1) (s.reorgDepth + 1) s.cur)) := by
  simp [eager, step, State.drain, drainR, List.map_map, Function.comp_def]

theorem bridge_cancel (s : State) (reg : Nat) :
    (eager s (.cancel reg)).confs = s.confs.map (fun r => drainR (r.cancel reg)) := by
  simp [eager, step, State.drain, drainR, List.map_map, Function.comp_def]

/-! ### non-vacuity: a concrete admissible history with a reorg -/

/-- executable version of the environment assumptions -/
def Block.hasb (b : Block) (key : Nat) : Bool := !(b.confHits key).isEmpty

theorem hasb_false {b : Block} {key : Nat} (h : b.hasb key = false) : ¬ b.has key := by
  intro hh
  apply hh
  simpa [Block.hasb] using h

def okb (w : World) : WOp → Bool
  | .register _ n _ => decide (1 ≤ n) && decide (n ≤ w.limit)
  | .cancel _ => true
  | .update d =>
    match w.range with
    | none => false
    | some (a, b0) =>
      match d with
      | some d =>
        decide (1 ≤ d.height) &&
        (match w.chain[d.height - 1]? with
         | some b => b.id == d.block && (b.confHits w.r.key).contains d.txIndex
         | none => false) &&
        w.r.ntfns.any (·.live)
      | none => w.chain.zipIdx.all fun p =>
          !(decide (a ≤ p.2 + 1) && decide (p.2 + 1 ≤ b0)) || !p.1.hasb w.r.key
  | .tip b => !b.hasb w.r.key || w.chain.all (fun b' => !b'.hasb w.r.key)
  | .untip => decide (1 ≤ w.cur) && decide (w.cur + w.limit > w.maxTip)

theorem okb_sound {w : World} {op : WOp} (h : okb w op = true) : Ok w op := by
  cases op with
  | register reg n hint => simpa [okb, Ok] using h
  | cancel reg => trivial
  | update d =>
    simp only [okb] at h
    cases hr : w.range with
    | none => simp [hr] at h
    | some ab =>
      obtain ⟨a, b0⟩ := ab
      simp only [hr] at h
      refine ⟨a, b0, hr, ?_⟩
      cases d with
      | some d =>
        simp only [Bool.and_eq_true, decide_eq_true_eq, List.any_eq_true] at h
        obtain ⟨⟨h1, h2⟩, n, hn, hl⟩ := h
        refine ⟨⟨h1, ?_⟩, n, hn, hl⟩
        cases hb : w.chain[d.height - 1]? with
        | none => simp [hb] at h2
        | some b =>
          simp only [hb, Bool.and_eq_true, beq_iff_eq, List.contains_iff_mem] at h2
          exact ⟨b, rfl, h2.1, h2.2⟩
      | none =>
        simp only [List.all_eq_true] at h
        intro hh b hge hle h1 hb
        have hm : (b, hh - 1) ∈ w.chain.zipIdx := List.mk_mem_zipIdx_iff_getElem?.mpr hb
        have := h (b, hh - 1) hm
        simp only [Bool.or_eq_true, Bool.not_eq_true', Bool.and_eq_false_iff,
          decide_eq_false_iff_not] at this
        rcases this with (x | x) | x
        · omega
        · omega
        · exact hasb_false x
  | tip b =>
    simp only [okb, Bool.or_eq_true, Bool.not_eq_true', List.all_eq_true] at h
    intro hb j b' hj
    rcases h with x | x
    · exact absurd hb (hasb_false x)
    · exact hasb_false (x b' (List.mem_of_getElem? hj))
  | untip => simpa [okb, Ok] using h

def okRunb : World → List WOp → Bool
  | _, [] => true
  | w, op :: rest => okb w op && okRunb (wstep w op) rest

theorem okRunb_sound {w : World} {ops : List WOp} (h : okRunb w ops = true) : OkRun w ops := by
  induction ops generalizing w with
  | nil => trivial
  | cons op rest ih =>
    simp only [okRunb, Bool.and_eq_true] at h
    exact ⟨okb_sound h.1, ih h.2⟩

/-- tx 7 is mined at height 2, confirmed for a 2-conf client at height 3, reorged out
    (two blocks), and re-mined at height 2 in another block. -/
def demoOps : List WOp :=
  [.register 0 2 1, .update none,
   .tip ⟨11, [⟨7, []⟩]⟩, .tip ⟨12, []⟩, .untip, .untip, .tip ⟨13, [⟨3, []⟩, ⟨7, []⟩]⟩, .tip ⟨14, []⟩]

def demoChain0 : List Block := [⟨10, []⟩]

theorem demo_valid : Valid demoChain0 7 := by
  intro i j bi bj hi hj hbi _
  have : bi = ⟨10, []⟩ := by
    cases i with
    | zero => simpa [demoChain0] using hi.symm
    | succ k => simp [demoChain0] at hi
  subst this
  exact absurd rfl hbi

/-- the assumptions of the headline theorems are satisfiable by a history with a reorg ... -/
theorem demo_ok : OkRun (World.init 7 4 demoChain0) demoOps := okRunb_sound (by decide)

/-- ... in which the client reads confirm – reorg notice – confirm (other block). -/
example : (demoOps.foldl wstep (World.init 7 4 demoChain0)).r.ntfns.map (·.seen) =
    [[.upd ⟨1, 2⟩, .conf ⟨2, 11, 0⟩, .upd ⟨0, 2⟩, .neg 2, .upd ⟨1, 2⟩, .conf ⟨2, 13, 1⟩, .upd ⟨0, 2⟩]] := by
  decide

/-! ### `hint_safe` and the model variant with seeded bug C14_1 -/

/-- `hint_safe`: after any admissible history with honest client hints, the cached confirm hint
    is at most the height of the block of the ACTIVE chain that contains the transaction, so a
    rescan from the hint (e.g. after a restart) cannot start above the confirming block. -/
theorem hint_safe (key limit : Nat) (chain0 : List Block) (hv : Valid chain0 key) (hl : 1 ≤ limit)
    (ops : List WOp) (hok : OkRunH (World.init key limit chain0) ops) :
    let w := ops.foldl wstep (World.init key limit chain0)
    ∀ v, w.r.hint = some v → ∀ (h : Nat) (b : Block), 1 ≤ h → w.chain[h - 1]? = some b →
      b.has key → v ≤ h := by
  intro w v hv' h b h1 hb hhas
  obtain ⟨_, hi⟩ := run_hinv (init_inv key limit chain0 hv) (init_hinv key limit chain0) hl hok
  have hk : w.r.key = key := run_key _ _
  exact hi.hint_ok v hv' h b h1 hb (by rw [hk]; exact hhas)

/-- executable `Honest` -/
def honestb (w : World) : WOp → Bool
  | .register _ _ hint => w.chain.zipIdx.all fun p => !(decide (p.2 + 1 < hint)) || !p.1.hasb w.r.key
  | .tip b => !b.hasb w.r.key || decide (w.lo ≤ w.cur + 1)
  | _ => true

theorem honestb_sound {w : World} {op : WOp} (h : honestb w op = true) : Honest w op := by
  cases op with
  | register reg n hint =>
    simp only [honestb, List.all_eq_true] at h
    intro hh b h1 hlt hb
    have hm : (b, hh - 1) ∈ w.chain.zipIdx := List.mk_mem_zipIdx_iff_getElem?.mpr hb
    have := h (b, hh - 1) hm
    simp only [Bool.or_eq_true, Bool.not_eq_true', decide_eq_false_iff_not] at this
    rcases this with x | x
    · omega
    · exact hasb_false x
  | tip b =>
    simp only [honestb, Bool.or_eq_true, Bool.not_eq_true', decide_eq_true_eq] at h
    intro hb
    rcases h with x | x
    · exact absurd hb (hasb_false x)
    · exact x
  | cancel reg => trivial
  | update d => trivial
  | untip => trivial

def okRunHb : World → List WOp → Bool
  | _, [] => true
  | w, op :: rest => okb w op && honestb w op && okRunHb (wstep w op) rest

theorem okRunHb_sound {w : World} {ops : List WOp} (h : okRunHb w ops = true) : OkRunH w ops := by
  induction ops generalizing w with
  | nil => trivial
  | cons op rest ih =>
    simp only [okRunHb, Bool.and_eq_true] at h
    exact ⟨okb_sound h.1.1, honestb_sound h.1.2, ih h.2⟩

/-- `UpdateConfDetails` with seeded bug C14_1: the early exit "details already found at tip" is
    taken only after the "rescan found nothing" branch. -/
def ConfReq.updateBuggy (cur limit : Nat) (r : ConfReq) (d : Option ConfDetails) : ConfReq × Res :=
  if !r.set then (r, .errNotFound)
  else
    let r' := { r with rescan := .complete }
    match d with
    | none => ({ r' with hint := some cur }, .ok)
    | some d =>
      if d.height > cur then (r', .ok)
      else if r.details.isSome then (r', .ok)
      else (({ r' with hint := some d.height, details := some d }).dispatchAll cur limit, .ok)

def wstepBuggy (w : World) : WOp → World
  | .update d =>
    { w with r := drainR (w.r.updateBuggy w.cur w.limit d).1, cover := coverAfter w.cover w.range }
  | op => wstep w op

/-- a rescan for `[1, 1]` is dispatched, the transaction is mined at tip in block 2, one more
    block follows, and only then the rescan answers "not found" (truthfully, for its range) -/
def lateOps : List WOp :=
  [.register 0 1 1, .tip ⟨11, [⟨7, []⟩]⟩, .tip ⟨12, []⟩, .update none]

/-- the history is admissible (`Ok` and `Honest` at every step) … -/
theorem late_ok : OkRunH (World.init 7 4 demoChain0) lateOps := okRunHb_sound (by decide)

/-- … the model keeps the hint at the confirmation height 2 (as `hint_safe` demands) … -/
example : (lateOps.foldl wstep (World.init 7 4 demoChain0)).r.hint = some 2 := by decide

/-- … while in the variant with the seeded bug the same admissible history (every step also
    passes the checks along the buggy run) ends with hint 3 above the block at height 2 that
    contains the transaction: the conclusion of `hint_safe` is false for that model, i.e. the
    invariant `HInv` is not preserved by `updateBuggy`. -/
theorem buggy_update_breaks_hint_safe :
    let w := lateOps.foldl wstepBuggy (World.init 7 4 demoChain0)
    w.r.hint = some 3 ∧ w.chain[2 - 1]? = some ⟨11, [⟨7, []⟩]⟩ ∧
      (⟨11, [⟨7, []⟩]⟩ : Block).hasb 7 = true ∧
    ¬ (∀ v, w.r.hint = some v → ∀ (h : Nat) (b : Block), 1 ≤ h → w.chain[h - 1]? = some b →
        b.hasb 7 = true → v ≤ h) := by
  refine ⟨by decide, by decide, by decide, fun hall => ?_⟩
  have := hall 3 (by decide) 2 ⟨11, [⟨7, []⟩]⟩ (by decide) (by decide) (by decide)
  omega

/-! ### the historical rescan handed to the caller -/

theorem startHeight_eq (cached : Option Nat) (hint : Nat) :
    startHeight cached hint = max hint (cached.getD 0) := by
  unfold startHeight
  cases cached with
  | none => simp
  | some c => simp only [Option.getD_some]; split <;> omega

/-- `rescan_range`: `RegisterConf` hands out a historical dispatch only for a request set whose
    rescan has not started; its range is exactly [max(client hint, cached hint), current height]
    (non-empty), and the set is `pending` afterwards … -/
theorem rescan_range_conf (cur limit reg n hint : Nat) (r : ConfReq) (a b : Nat)
    (h : (r.register cur limit reg n hint).2 = .hist a b) :
    a = max hint (r.hint.getD 0) ∧ b = cur ∧ a ≤ b ∧ (r.set = false ∨ r.rescan = .notStarted) ∧
    (r.register cur limit reg n hint).1.rescan = .pending := by
  obtain ⟨_, _, _, e4⟩ := register_spec cur limit reg n hint r
  rw [h] at e4
  rcases e4 with ⟨q1, q2, q3, q4⟩ | ⟨q, _⟩ | ⟨q, _⟩
  · simp only [Res.hist.injEq] at q1
    refine ⟨by rw [q1.1, startHeight_eq], q1.2, by rw [q1.1, q1.2]; exact q3, ?_, q2⟩
    cases hs : r.set with
    | false => exact Or.inl rfl
    | true => simp only [hs, ↓reduceIte] at q4; exact Or.inr q4
  · cases q
  · cases q

/-- … so there is at most one rescan per request set: while a rescan is pending or complete no
    further one is handed out. -/
theorem no_second_rescan_conf (cur limit reg n hint : Nat) (r : ConfReq) (hs : r.set = true)
    (hr : r.rescan ≠ .notStarted) : (r.register cur limit reg n hint).2 = .ok := by
  obtain ⟨_, _, _, e4⟩ := register_spec cur limit reg n hint r
  simp only [hs, ↓reduceIte] at e4
  rcases e4 with ⟨_, _, _, q⟩ | ⟨q, _⟩ | ⟨q, _⟩
  · exact absurd q hr
  · exact q
  · exact q

end LndModel.C14
