/-
C14 — part 2c: the payload of the `Confirmed` event a client holds is the request's `details`
(which `WInv` ties to the active chain).  Without this a model that put stale details into the
event, but kept `r.details` correct, would satisfy `conf_only_if_on_active_chain`.
-/
import LndModel.C14.Chain

namespace LndModel.C14

/-- payload of the last `Confirmed` event, scanning on from `acc` -/
def lastFrom (acc : Option ConfDetails) (l : List CEv) : Option ConfDetails :=
  l.foldl (fun acc e => match e with | .conf d => some d | _ => acc) acc

/-- payload of the last `Confirmed` event of a history -/
def lastConfD (l : List CEv) : Option ConfDetails := lastFrom none l

theorem lastFrom_append (acc : Option ConfDetails) (l l' : List CEv) :
    lastFrom acc (l ++ l') = lastFrom (lastFrom acc l) l' := by
  simp [lastFrom, List.foldl_append]

theorem lastFrom_negs (acc : Option ConfDetails) (l : List Nat) :
    lastFrom acc (l.map .neg) = acc := by
  induction l with
  | nil => rfl
  | cons x t ih => simpa [lastFrom] using ih

theorem lastFrom_upds (acc : Option ConfDetails) (l : List Update) :
    lastFrom acc (l.map .upd) = acc := by
  induction l with
  | nil => rfl
  | cons x t ih => simpa [lastFrom] using ih

theorem lastFrom_dones (acc : Option ConfDetails) (k : Nat) :
    lastFrom acc (List.replicate k .done) = acc := by
  induction k with
  | zero => rfl
  | succ k ih => simpa [lastFrom, List.replicate_succ] using ih

/-- the event a live, dispatched client holds (already read, or still in its `Confirmed`
    channel) carries exactly `det` -/
def Pay (det : Option ConfDetails) (n : ConfNtfn) : Prop :=
  n.live = true → n.dispatched = true →
    lastFrom (lastConfD n.seen) (n.confirmed.map .conf) = det

theorem Pay.congr {det : Option ConfDetails} {n n' : ConfNtfn} (e1 : n'.seen = n.seen)
    (e2 : n'.confirmed = n.confirmed) (e3 : n'.dispatched = n.dispatched) (e4 : n'.live = n.live)
    (h : Pay det n) : Pay det n' := by
  unfold Pay at *; rw [e1, e2, e3, e4]; exact h

theorem Pay.of_not_dispatched {det : Option ConfDetails} {n : ConfNtfn}
    (h : n.live = true → n.dispatched = false) : Pay det n := by
  intro hl hd; rw [h hl] at hd; cases hd

theorem sendUpdate_same (n : ConfNtfn) (l h : Nat) :
    (n.sendUpdate l h).seen = n.seen ∧ (n.sendUpdate l h).confirmed = n.confirmed ∧
    (n.sendUpdate l h).dispatched = n.dispatched ∧ (n.sendUpdate l h).live = n.live := by
  unfold ConfNtfn.sendUpdate; split <;> (try split) <;> simp

theorem pay_sendConfirmed {n : ConfNtfn} (d : ConfDetails) (hd : n.dispatched = false) :
    Pay (some d) (n.sendConfirmed d) := by
  unfold ConfNtfn.sendConfirmed
  split
  · exact Pay.of_not_dispatched (fun _ => hd)
  · intro _ _
    simp [lastFrom, List.foldl_append]

theorem pay_dispatch {n : ConfNtfn} (cur : Nat) (d : ConfDetails)
    (h : Pay (some d) n ∨ (n.live = true → n.dispatched = false)) :
    Pay (some d) (n.dispatch cur d) := by
  unfold ConfNtfn.dispatch
  cases hdd : n.dispatched with
  | true =>
    simp only [↓reduceIte]
    rcases h with h | h
    · exact h
    · exact Pay.of_not_dispatched (fun hl => by have := h hl; rw [hdd] at this; cases this)
  | false =>
    simp only [Bool.false_eq_true, ↓reduceIte]
    obtain ⟨s1, s2, s3, s4⟩ := sendUpdate_same n 0 d.height
    split
    · exact pay_sendConfirmed d (by rw [s3]; exact hdd)
    · apply Pay.of_not_dispatched
      intro _
      simpa [(sendUpdate_same _ _ _).2.2.1] using hdd

theorem pay_reorg {det : Option ConfDetails} (n : ConfNtfn) (h depth : Nat) :
    Pay det (n.reorg h depth) := by
  apply Pay.of_not_dispatched
  intro _
  unfold ConfNtfn.reorg ConfNtfn.sendNeg
  cases hd : n.dispatched <;> simp [hd] <;> split <;> simp [hd]

theorem pay_confirmAt {n : ConfNtfn} (d : ConfDetails) (height : Nat) (h : Pay (some d) n) :
    Pay (some d) (n.confirmAt d height) := by
  unfold ConfNtfn.confirmAt
  split
  · rename_i hc
    simp only [Bool.and_eq_true, Bool.not_eq_true'] at hc
    exact pay_sendConfirmed d hc.2
  · exact h

theorem pay_drained {det : Option ConfDetails} {n : ConfNtfn} (h : Pay det n) :
    Pay det (if n.closed then n else n.drained) := by
  split
  · exact h
  · intro hl hd
    have := h hl hd
    simp only [ConfNtfn.drained, ConfNtfn.pending, List.map_nil, lastConfD] at this ⊢
    simp only [lastFrom_append, lastFrom_negs, lastFrom_upds, lastFrom_dones]
    simpa [lastFrom, lastConfD] using this

/-! ### request level -/

def PayAll (r : ConfReq) : Prop := ∀ n ∈ r.ntfns, Pay r.details n

/-- while the request has no details no live client is dispatched; without a set no client is
    live (both are consequences of `WInv`) -/
def Quiet (r : ConfReq) : Prop :=
  (r.details = none → ∀ n ∈ r.ntfns, n.live = true → n.dispatched = false) ∧
  (r.set = false → ∀ n ∈ r.ntfns, n.live = false)

theorem quiet_of_ri {cur limit maxTip cover : Nat} {chain : List Block} {r : ConfReq}
    (h : RI cur limit maxTip cover chain r) : Quiet r := by
  obtain ⟨⟨h0, hcl⟩, _⟩ := h
  refine ⟨fun hd n hn hl => ?_, fun hs => (h0.unset hs).2.2⟩
  have := (hcl n hn).2.2.2.2.2 hl
  rw [hd] at this; exact this.1

theorem pay_dispatchAll {r : ConfReq} (cur limit : Nat)
    (h : ∀ n ∈ r.ntfns, Pay r.details n ∨ (n.live = true → n.dispatched = false)) :
    PayAll (r.dispatchAll cur limit) := by
  unfold ConfReq.dispatchAll
  cases hd : r.details with
  | none =>
    simp only
    intro n hn
    rcases h n hn with x | x
    · exact x
    · exact Pay.of_not_dispatched x
  | some d =>
    simp only
    refine all_map (P := fun n => Pay (some d) n ∨ (n.live = true → n.dispatched = false))
      (Q := Pay (some d)) (fun n hn => ?_) (fun n hn => by have := h n hn; rw [hd] at this; exact this)
    cases hl : n.live with
    | true => simp only [↓reduceIte]; exact pay_dispatch cur d hn
    | false =>
      simp only [Bool.false_eq_true, ↓reduceIte]
      intro hl'; rw [hl] at hl'; cases hl' 

theorem pay_register {r : ConfReq} (cur limit reg n hint : Nat) (h : PayAll r) (hq : Quiet r) :
    PayAll (r.register cur limit reg n hint).1 := by
  -- every client of the opened set plus the new one is fine for `dispatchAll`
  let r1 := r.opened.addNtfn { reg := reg, numConfs := n, left := n }
  have h1 : ∀ m ∈ r1.ntfns, Pay r1.details m ∨ (m.live = true → m.dispatched = false) := by
    intro m hm
    simp only [r1, ConfReq.addNtfn, ConfReq.opened] at hm ⊢
    cases hs : r.set with
    | true =>
      simp only [hs, ↓reduceIte, List.mem_append, List.mem_singleton] at hm ⊢
      rcases hm with hm | rfl
      · exact Or.inl (h m hm)
      · exact Or.inr (fun _ => rfl)
    | false =>
      simp only [hs, Bool.false_eq_true, ↓reduceIte, List.mem_append, List.mem_singleton] at hm ⊢
      rcases hm with hm | rfl
      · exact Or.inr (fun hl => by rw [hq.2 hs m hm] at hl; cases hl)
      · exact Or.inr (fun _ => rfl)
  have hall : PayAll r1 := fun m hm => by
    rcases h1 m hm with x | x
    · exact x
    · exact Pay.of_not_dispatched x
  show PayAll (r1.registered cur limit (startHeight r.hint hint)).1
  unfold ConfReq.registered
  split
  · exact pay_dispatchAll cur limit h1
  · exact hall
  · split <;> exact hall

theorem pay_cancel {r : ConfReq} (reg : Nat) (h : PayAll r) : PayAll (r.cancel reg) := by
  unfold ConfReq.cancel
  split
  · exact h
  · refine all_map (P := Pay r.details) (fun n hn => ?_) h
    split
    · intro hl; simp [ConfNtfn.cancelled] at hl
    · exact hn

theorem pay_update {r : ConfReq} (cur limit : Nat) (d : Option ConfDetails) (h : PayAll r)
    (hq : Quiet r) : PayAll (r.update cur limit d).1 := by
  unfold ConfReq.update
  split
  · exact h
  · split
    · exact h
    · rename_i hd
      have hdn : r.details = none := by
        cases hx : r.details with
        | none => rfl
        | some x => simp [hx] at hd
      have hnd : ∀ n ∈ r.ntfns, n.live = true → n.dispatched = false := hq.1 hdn
      cases d with
      | none =>
        intro n hn
        exact Pay.of_not_dispatched (hnd n hn)
      | some d =>
        simp only
        split
        · intro n hn
          exact Pay.of_not_dispatched (hnd n hn)
        · exact pay_dispatchAll cur limit (fun n hn => Or.inr (hnd n hn))

theorem pay_atTip {r : ConfReq} (d : ConfDetails) (h : PayAll r) (hq : Quiet r) :
    PayAll (r.atTip d) := by
  unfold ConfReq.atTip
  split
  · exact h
  · split
    · exact h
    · rename_i hd
      have hdn : r.details = none := by
        cases hx : r.details with
        | none => rfl
        | some x => simp [hx] at hd
      refine all_map (P := fun n => n.live = true → n.dispatched = false) (fun n hn => ?_)
        (hq.1 hdn)
      split
      · exact Pay.of_not_dispatched (fun hl => by simpa [ConfNtfn.tipped] using hn hl)
      · exact Pay.of_not_dispatched hn

theorem quiet_atTip {r : ConfReq} (d : ConfDetails) (hq : Quiet r) : Quiet (r.atTip d) := by
  unfold ConfReq.atTip
  split
  · exact hq
  · split
    · exact hq
    · rename_i hs _
      refine ⟨fun hx => (by cases hx), fun hx => ?_⟩
      have hs' : r.set = true := by simpa using hs
      have hx' : r.set = false := hx
      rw [hs'] at hx'; cases hx' 

theorem pay_updateHint {r : ConfReq} (c h : Nat) (hp : PayAll r) : PayAll (r.updateHint c h) := by
  unfold ConfReq.updateHint; split <;> exact hp

theorem pay_mature {r : ConfReq} (height limit : Nat) (h : PayAll r) :
    PayAll (r.mature height limit) := by
  unfold ConfReq.mature
  split
  · split
    · exact h
    · refine all_map (P := Pay r.details) (fun n hn => ?_) h
      split
      · intro hl; simp [ConfNtfn.matured] at hl
      · rename_i hl
        intro hl'; rw [hl'] at hl; exact absurd rfl hl
  · exact h

theorem pay_connect {r : ConfReq} (cur limit : Nat) (b : Block) (h : PayAll r) (hq : Quiet r) :
    PayAll (r.connect cur limit b) := by
  unfold ConfReq.connect
  apply pay_mature
  apply pay_updateHint
  generalize b.confHits r.key = hits
  induction hits generalizing r with
  | nil => exact h
  | cons i t ih => exact ih (pay_atTip _ h hq) (quiet_atTip _ hq)

theorem pay_notifyUpdates {r : ConfReq} (height : Nat) (h : PayAll r) :
    PayAll (r.notifyUpdates height) := by
  unfold ConfReq.notifyUpdates
  split
  · exact h
  · split
    · rename_i d hs hd
      refine all_map (P := Pay r.details) (fun n hn => ?_) h
      split
      · unfold ConfNtfn.updateAt
        simp only
        split
        · exact hn
        · obtain ⟨s1, s2, s3, s4⟩ := sendUpdate_same n (d.height + n.numConfs - 1 - height) d.height
          exact Pay.congr s1 s2 s3 s4 hn
      · exact hn
    · split <;> exact h
    · exact h

theorem pay_notifyDue {r : ConfReq} (height : Nat) (h : PayAll r) :
    PayAll (r.notifyDue height) := by
  unfold ConfReq.notifyDue
  split
  · exact h
  · split
    · rename_i d hs hd
      split
      · exact h
      · refine all_map (P := Pay r.details) (fun n hn => ?_) h
        rw [hd] at hn ⊢
        exact pay_confirmAt d height hn
    · exact h

theorem pay_notify {r : ConfReq} (height : Nat) (h : PayAll r) : PayAll (r.notify height) := by
  unfold ConfReq.notify
  exact all_map (P := Pay ((r.notifyUpdates height).notifyDue height).details)
    (fun n hn => Pay.congr rfl rfl rfl rfl hn) (pay_notifyDue height (pay_notifyUpdates height h))

theorem pay_disconnect {r : ConfReq} (cur depth height : Nat) (h : PayAll r) :
    PayAll (r.disconnect cur depth height) := by
  unfold ConfReq.disconnect
  have h0 := pay_updateHint cur height h
  generalize r.updateHint cur height = r0 at h0
  simp only
  split
  · exact h0
  · split
    · exact h0
    · cases hhit : r0.initialAt.contains height with
      | true =>
        simp only [↓reduceIte]
        intro m hm
        simp only [List.mem_map] at hm
        obtain ⟨n, hn, rfl⟩ := hm
        split
        · unfold ConfNtfn.disconnected
          simp only [↓reduceIte]
          exact pay_reorg _ _ _
        · rename_i hl
          intro hl'; rw [hl'] at hl; exact absurd rfl hl
      | false =>
        simp only [Bool.false_eq_true, ↓reduceIte]
        refine all_map (P := Pay r0.details) (fun n hn => ?_) h0
        split
        · unfold ConfNtfn.disconnected
          simp only [Bool.false_eq_true, ↓reduceIte]
          exact Pay.congr rfl rfl rfl rfl hn
        · exact hn

theorem pay_drainR {r : ConfReq} (h : PayAll r) : PayAll (drainR r) :=
  all_map (P := Pay r.details) (fun _ hn => pay_drained hn) h

/-- the payload invariant is preserved by every world operation -/
theorem wstep_pay {w : World} (op : WOp) (hw : WInv w) (hok : Ok w op) (h : PayAll w.r) :
    PayAll (wstep w op).r := by
  have hq : Quiet w.r := quiet_of_ri hw
  cases op with
  | register reg n hint => exact pay_drainR (pay_register _ _ _ _ _ h hq)
  | cancel reg => exact pay_drainR (pay_cancel _ h)
  | update d => exact pay_drainR (pay_update _ _ _ h hq)
  | tip b => exact pay_drainR (pay_notify _ (pay_drainR (pay_connect _ _ b h hq)))
  | untip => exact pay_drainR (pay_disconnect _ _ _ h)

theorem run_pay {w : World} {ops : List WOp} (hw : WInv w) (hok : OkRun w ops) (h : PayAll w.r) :
    PayAll (ops.foldl wstep w).r := by
  induction ops generalizing w with
  | nil => exact h
  | cons op rest ih => exact ih (wstep_inv hw hok.1) hok.2 (wstep_pay op hw hok.1 h)

end LndModel.C14
