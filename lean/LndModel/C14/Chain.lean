/-
C14 — part 2: one confirmation request against the active chain.

Every notifier operation acts on each request independently (`step` maps the
per-request functions over `State.confs`), so the relation between what a
request's clients are told and the active chain is stated for one `ConfReq`
together with ghost state: the active chain itself, the highest tip ever seen and
`cover` = the height from which upward every block of the active chain has been
examined for this request (at tip or by a completed historical rescan).

Operations (`WOp`): register / cancel / historical rescan completes / `tip b` =
`ConnectTip(cur+1, b)` followed by its `NotifyHeight(cur+1)` / `untip` =
`DisconnectTip(cur)`; clients empty their channels after every notifier call.
-/
import LndModel.C14.Lemmas

namespace LndModel.C14

/-- what `State.drain` does to one request -/
def drainR (r : ConfReq) : ConfReq :=
  { r with ntfns := r.ntfns.map (fun n => if n.closed then n else n.drained) }

structure World where
  cur : Nat
  limit : Nat
  depth : Nat
  r : ConfReq
  /-- active chain: `chain[h-1]` is the block at height `h`, `chain.length = cur` -/
  chain : List Block
  maxTip : Nat
  cover : Nat

inductive WOp where
  | register (reg n hint : Nat)
  | cancel (reg : Nat)
  /-- the historical rescan that scanned from height `from_` reports `d` -/
  | update (from_ : Nat) (d : Option ConfDetails)
  | tip (b : Block)
  | untip

def wstep (w : World) : WOp → World
  | .register reg n hint =>
    { w with r := drainR (w.r.register w.cur w.limit reg n hint).1,
             cover := if w.r.set then w.cover else w.cur + 1 }
  | .cancel reg => { w with r := drainR (w.r.cancel reg) }
  | .update from_ d =>
    { w with r := drainR (w.r.update w.cur w.limit d).1, cover := min w.cover from_ }
  | .tip b =>
    { w with cur := w.cur + 1, depth := 0,
             r := drainR ((drainR (w.r.connect (w.cur + 1) w.limit b)).notify (w.cur + 1)),
             chain := w.chain ++ [b], maxTip := max w.maxTip (w.cur + 1) }
  | .untip =>
    { w with cur := w.cur - 1, depth := w.depth + 1,
             r := drainR (w.r.disconnect (w.cur - 1) (w.depth + 1) w.cur),
             chain := w.chain.dropLast, cover := min w.cover w.cur }

/-- block `b` (as the notifier's `filterTx` sees it) contains the watched transaction -/
def Block.has (b : Block) (key : Nat) : Prop := b.confHits key ≠ []

/-- `d` names a block of the chain that contains the transaction at that index -/
def OnChain (chain : List Block) (key : Nat) (d : ConfDetails) : Prop :=
  1 ≤ d.height ∧ ∃ b, chain[d.height - 1]? = some b ∧ b.id = d.block ∧ d.txIndex ∈ b.confHits key

/-- the transaction occurs in at most one block of the chain -/
def Valid (chain : List Block) (key : Nat) : Prop :=
  ∀ (i j : Nat) (bi bj : Block), chain[i]? = some bi → chain[j]? = some bj → bi.has key → bj.has key → i = j

/-- environment assumptions for one operation -/
def Ok (w : World) : WOp → Prop
  | .register _ n _ => 1 ≤ n ∧ n ≤ w.limit
  | .cancel _ => True
  | .update from_ d =>
    match d with
    | some d => OnChain w.chain w.r.key d ∧ ∃ n ∈ w.r.ntfns, n.live = true
    | none => ∀ (h : Nat) (b : Block), from_ ≤ h → 1 ≤ h → w.chain[h - 1]? = some b → ¬ b.has w.r.key
  | .tip b => b.has w.r.key → ∀ (j : Nat) (b' : Block), w.chain[j]? = some b' → ¬ b'.has w.r.key
  | .untip => 1 ≤ w.cur ∧ w.cur + w.limit > w.maxTip

/-! ## per-client invariant -/

/-- the channels of a client that has not cancelled are empty (between operations) -/
def Chan (n : ConfNtfn) : Prop :=
  n.closed = false → n.updates = [] ∧ n.confirmed = [] ∧ n.negConf = [] ∧ n.done = 0

/-- bookkeeping of one client relative to the request's `details` -/
def Core (cur limit : Nat) (det : Option ConfDetails) (n : ConfNtfn) : Prop :=
  n.stuck = false ∧ 1 ≤ n.numConfs ∧ n.numConfs ≤ limit ∧
  (n.live = true → n.closed = false) ∧ (n.live = false → n.queuedAt = []) ∧
  (n.live = true →
    match det with
    | none => n.dispatched = false ∧ n.queuedAt = []
    | some d =>
      (n.dispatched = true → n.queuedAt = []) ∧
      (n.dispatched = false →
        n.queuedAt = [d.height + n.numConfs - 1] ∧ cur < d.height + n.numConfs - 1))

theorem Core.mono {cur cur' limit : Nat} {det : Option ConfDetails} {n : ConfNtfn}
    (h : Core cur limit det n) (hc : cur' ≤ cur) : Core cur' limit det n := by
  obtain ⟨h1, h2, h3, h4, h5, h6⟩ := h
  refine ⟨h1, h2, h3, h4, h5, fun hl => ?_⟩
  have := h6 hl
  cases det with
  | none => exact this
  | some d =>
    simp only at this ⊢
    exact ⟨this.1, fun hd => ⟨(this.2 hd).1, by have := (this.2 hd).2; omega⟩⟩

theorem addH_nil (h : Nat) : addH h [] = [h] := by simp [addH]
theorem addH_self (h : Nat) : addH h [h] = [h] := by simp [addH]
theorem delH_nil (h : Nat) : delH h [] = [] := by simp [delH]
theorem delH_self (h : Nat) : delH h [h] = [] := by simp [delH]
theorem delH_other {h k : Nat} (hk : k ≠ h) : delH h [k] = [k] := by simp [delH, hk]

/-- `dispatchConfDetails` on a client that is consistent with "no details yet" -/
theorem dispatch_fresh {cur limit : Nat} {n : ConfNtfn} (d : ConfDetails)
    (hc : Chan n) (h : Core cur limit none n) (hl : n.live = true) :
    Core cur limit (some d) (n.dispatch cur d) := by
  obtain ⟨h1, h2, h3, h4, h5, h6⟩ := h
  obtain ⟨hd, hq⟩ := h6 hl
  obtain ⟨c1, c2, c3, c4⟩ := hc (h4 hl)
  unfold ConfNtfn.dispatch ConfNtfn.sendUpdate ConfNtfn.sendConfirmed
  simp only [hd, Bool.false_eq_true, ↓reduceIte]
  split
  · split
    · simp [Core, h1, h2, h3, h4, hl, c2, hq]
    · have : ¬ (n.numConfs ≤ 0) := by omega
      simp [Core, h1, h2, h3, h4, hl, c1, c2, hq, this]
  · rename_i hgt
    split
    · simp [Core, h1, h2, h3, h4, hl, hd, hq, addH_nil]; omega
    · have : ¬ (n.numConfs ≤ 0) := by omega
      simp [Core, h1, h2, h3, h4, hl, hd, hq, addH_nil, c1, this]; omega

/-- `dispatchConfDetails` on a client that is already consistent with the details -/
theorem dispatch_same {cur limit : Nat} {n : ConfNtfn} (d : ConfDetails)
    (hc : Chan n) (h : Core cur limit (some d) n) (hl : n.live = true) :
    Core cur limit (some d) (n.dispatch cur d) := by
  have h0 := h
  obtain ⟨h1, h2, h3, h4, h5, h6⟩ := h
  obtain ⟨hd1, hd2⟩ := h6 hl
  obtain ⟨c1, c2, c3, c4⟩ := hc (h4 hl)
  unfold ConfNtfn.dispatch ConfNtfn.sendUpdate ConfNtfn.sendConfirmed
  cases hdd : n.dispatched with
  | true => simpa using h0
  | false =>
    obtain ⟨hq, hlt⟩ := hd2 hdd
    simp only [Bool.false_eq_true, ↓reduceIte]
    split
    · omega
    · have : ¬ (n.numConfs ≤ 0) := by omega
      split
      · simp [Core, h1, h2, h3, h4, hl, hdd, hq, addH_self]; omega
      · simp [Core, h1, h2, h3, h4, hl, hdd, hq, addH_self, c1, this]; omega

theorem Core.congr {cur limit : Nat} {det : Option ConfDetails} {n n' : ConfNtfn}
    (e1 : n'.stuck = n.stuck) (e2 : n'.numConfs = n.numConfs) (e3 : n'.live = n.live)
    (e4 : n'.closed = n.closed) (e5 : n'.queuedAt = n.queuedAt) (e6 : n'.dispatched = n.dispatched)
    (h : Core cur limit det n) : Core cur limit det n' := by
  unfold Core at *
  rw [e1, e2, e3, e4, e5, e6]; exact h

/-- a client that is not live and in no queue satisfies `Core` whatever the details -/
theorem Core.of_dead {cur limit : Nat} {det : Option ConfDetails} {n : ConfNtfn}
    (h1 : n.stuck = false) (h2 : 1 ≤ n.numConfs) (h3 : n.numConfs ≤ limit)
    (h4 : n.live = false) (h5 : n.queuedAt = []) : Core cur limit det n :=
  ⟨h1, h2, h3, fun h => by simp [h4] at h, fun _ => h5, fun h => by simp [h4] at h⟩

/-- `CancelConf` removes the client from the queue it is in -/
theorem cancel_queue {cur limit : Nat} {det : Option ConfDetails} {n : ConfNtfn}
    (h : Core cur limit det n) (hl : n.live = true) :
    (match det with
     | some d => delH (d.height + n.numConfs - 1) n.queuedAt
     | none => n.queuedAt) = [] := by
  obtain ⟨h1, h2, h3, h4, h5, h6⟩ := h
  have := h6 hl
  cases det with
  | none => exact this.2
  | some d =>
    simp only at this ⊢
    cases hdd : n.dispatched with
    | true => rw [this.1 hdd, delH_nil]
    | false => rw [(this.2 hdd).1, delH_self]

/-- the per-client part of `handleConfDetailsAtTip` (new height `cur + 1`) -/
theorem atTip_core {cur limit : Nat} {n : ConfNtfn} (blk i : Nat)
    (h : Core cur limit none n) (hl : n.live = true) :
    Core cur limit (some ⟨cur + 1, blk, i⟩)
      { n with negConf := n.negConf.drop 1,
               queuedAt := addH (cur + 1 + n.numConfs - 1) n.queuedAt } := by
  obtain ⟨h1, h2, h3, h4, h5, h6⟩ := h
  obtain ⟨hd, hq⟩ := h6 hl
  simp [Core, h1, h2, h3, h4, hl, hd, hq, addH_nil]; omega

/-- at maturity every live client has been dispatched -/
theorem mature_dispatched {cur limit : Nat} {d : ConfDetails} {n : ConfNtfn}
    (h : Core cur limit (some d) n) (hl : n.live = true) (hm : d.height + limit ≤ cur + 1) :
    n.dispatched = true ∧ n.queuedAt = [] := by
  obtain ⟨h1, h2, h3, h4, h5, h6⟩ := h
  obtain ⟨hd1, hd2⟩ := h6 hl
  cases hdd : n.dispatched with
  | true => exact ⟨rfl, hd1 hdd⟩
  | false => have := (hd2 hdd).2; omega

theorem mature_core {cur limit : Nat} {d : ConfDetails} {n : ConfNtfn}
    (hc : Chan n) (h : Core cur limit (some d) n) (hl : n.live = true)
    (hm : d.height + limit ≤ cur + 1) :
    Core cur limit none { n.sendDone with live := false } := by
  obtain ⟨_, hq⟩ := mature_dispatched h hl hm
  obtain ⟨h1, h2, h3, h4, h5, h6⟩ := h
  obtain ⟨c1, c2, c3, c4⟩ := hc (h4 hl)
  unfold ConfNtfn.sendDone
  simp [Core, h1, h2, h3, c4, hq]

/-- a client that is not live is not touched by the details -/
theorem Core.dead {cur cur' limit : Nat} {det det' : Option ConfDetails} {n : ConfNtfn}
    (h : Core cur limit det n) (hl : n.live = false) : Core cur' limit det' n := by
  obtain ⟨h1, h2, h3, h4, h5, h6⟩ := h
  exact ⟨h1, h2, h3, h4, h5, fun hl' => by simp [hl] at hl'⟩

/-- the three passes of `NotifyHeight(cur + 1)` over one client -/
def notifyN (d : ConfDetails) (height : Nat) (n : ConfNtfn) : ConfNtfn :=
  let n1 := if n.live then
      (if d.height + n.numConfs - 1 < height then n
       else n.sendUpdate (d.height + n.numConfs - 1 - height) d.height)
    else n
  let n2 := if n1.queuedAt.contains height && !n1.dispatched then n1.sendConfirmed d else n1
  { n2 with queuedAt := delH height n2.queuedAt }

theorem sendUpdate_fields (n : ConfNtfn) (l h : Nat) (hu : n.updates = []) (hn : 1 ≤ n.numConfs) :
    (n.sendUpdate l h).stuck = n.stuck ∧ (n.sendUpdate l h).numConfs = n.numConfs ∧
    (n.sendUpdate l h).live = n.live ∧ (n.sendUpdate l h).closed = n.closed ∧
    (n.sendUpdate l h).queuedAt = n.queuedAt ∧ (n.sendUpdate l h).dispatched = n.dispatched ∧
    (n.sendUpdate l h).confirmed = n.confirmed := by
  unfold ConfNtfn.sendUpdate
  split
  · simp
  · have : ¬ (n.numConfs ≤ 0) := by omega
    simp [hu, this]

theorem notifyN_core {cur limit : Nat} {d : ConfDetails} {n : ConfNtfn}
    (hc : Chan n) (h : Core cur limit (some d) n) :
    Core (cur + 1) limit (some d) (notifyN d (cur + 1) n) := by
  cases hl : n.live with
  | false =>
    obtain ⟨h1, h2, h3, h4, h5, h6⟩ := h
    have hq := h5 hl
    simp [notifyN, hl, hq, delH_nil, Core, h1, h2, h3]
  | true =>
    obtain ⟨h1, h2, h3, h4, h5, h6⟩ := h
    obtain ⟨c1, c2, c3, c4⟩ := hc (h4 hl)
    obtain ⟨hd1, hd2⟩ := h6 hl
    -- first pass
    have hn1 : ∃ n1 : ConfNtfn, (if n.live then
        (if d.height + n.numConfs - 1 < cur + 1 then n
         else n.sendUpdate (d.height + n.numConfs - 1 - (cur + 1)) d.height) else n) = n1 ∧
        n1.stuck = n.stuck ∧ n1.numConfs = n.numConfs ∧ n1.live = n.live ∧ n1.closed = n.closed ∧
        n1.queuedAt = n.queuedAt ∧ n1.dispatched = n.dispatched ∧ n1.confirmed = n.confirmed := by
      refine ⟨_, rfl, ?_⟩
      simp only [hl, ↓reduceIte]
      split
      · simp [hl]
      · have := sendUpdate_fields n (d.height + n.numConfs - 1 - (cur + 1)) d.height c1 h2
        simpa [hl] using this
    obtain ⟨n1, hn1e, f1, f2, f3, f4, f5, f6, f7⟩ := hn1
    unfold notifyN
    simp only [hn1e]
    cases hdd : n.dispatched with
    | true =>
      have hq := hd1 hdd
      simp [f5, f6, hdd, hq, delH_nil, Core, f1, f2, f3, f4, h1, h2, h3, h4, hl]
    | false =>
      obtain ⟨hq, hlt⟩ := hd2 hdd
      by_cases hH : d.height + n.numConfs - 1 = cur + 1
      · simp [f5, f6, hdd, hq, hH, ConfNtfn.sendConfirmed, f7, c2, delH_self, Core, f1, f2, f3, f4,
          h1, h2, h3, h4, hl]
      · have hne : (d.height + n.numConfs - 1 == cur + 1) = false := by simpa using hH
        have hne' : ([d.height + n.numConfs - 1].contains (cur + 1)) = false := by
          simp; omega
        have hdl : delH (cur + 1) [d.height + n.numConfs - 1] = [d.height + n.numConfs - 1] :=
          delH_other hH
        simp only [f5, f6, hdd, hq, hne', Bool.false_and, Bool.false_eq_true, ↓reduceIte, hdl]
        refine ⟨by simp [f1, h1], by simp [f2, h2], by simp [f2, h3], by simp [f3, f4, h4 hl],
          by simp [f3, hl], fun _ => ?_⟩
        simp only [hdd, Bool.false_eq_true, false_implies, true_and, forall_const, f2]
        omega

/-- the per-client part of `DisconnectTip(cur)` for a request confirmed in the disconnected block -/
theorem reorg_core {cur limit depth k : Nat} {d : ConfDetails} {n : ConfNtfn}
    (hc : Chan n) (h : Core cur limit (some d) n) (hl : n.live = true) (hh : d.height = cur) :
    Core (cur - 1) limit none
      (({ n with updates := n.updates.drop k, left := n.numConfs } : ConfNtfn).reorg cur depth) := by
  obtain ⟨h1, h2, h3, h4, h5, h6⟩ := h
  obtain ⟨c1, c2, c3, c4⟩ := hc (h4 hl)
  obtain ⟨hd1, hd2⟩ := h6 hl
  unfold ConfNtfn.reorg ConfNtfn.sendNeg
  cases hdd : n.dispatched with
  | true =>
    have hq := hd1 hdd
    simp [hdd, c3, Core, h1, h2, h3, h4, hl, hq]
  | false =>
    obtain ⟨hq, hlt⟩ := hd2 hdd
    simp [hdd, c3, Core, h1, h2, h3, h4, hl, hq, hh, delH_self]

theorem drained_core {cur limit : Nat} {det : Option ConfDetails} {n : ConfNtfn}
    (h : Core cur limit det n) : Core cur limit det (if n.closed then n else n.drained) := by
  split
  · exact h
  · exact Core.congr rfl rfl rfl rfl rfl rfl h

theorem drained_chan (n : ConfNtfn) : Chan (if n.closed then n else n.drained) := by
  cases hcl : n.closed with
  | true => intro hc; simp [hcl] at hc
  | false => intro _; simp [ConfNtfn.drained]

/-! ## request-level invariant -/

/-- Invariant of one request against the ghost chain.  `cc` is the height used in the clients'
    queue bookkeeping (`cur`, except between `ConnectTip` and its `NotifyHeight`). -/
structure Pre (cc cur limit maxTip cover : Nat) (chain : List Block) (r : ConfReq) : Prop where
  len : chain.length = cur
  tip : cur ≤ maxTip
  valid : Valid chain r.key
  nopanic : r.panicked = false
  unset : r.set = false → r.details = none ∧ r.initialAt = [] ∧ ∀ n ∈ r.ntfns, n.live = false
  det : ∀ d, r.details = some d → OnChain chain r.key d ∧
          (r.initialAt = [d.height] ∨ (r.initialAt = [] ∧ d.height + limit ≤ maxTip))
  nodet : r.details = none → r.initialAt = []
  cov : r.set = true → r.details = none → ∀ (h : Nat) (b : Block), cover ≤ h → 1 ≤ h →
          chain[h - 1]? = some b → ¬ b.has r.key
  cl : ∀ n ∈ r.ntfns, Core cc limit r.details n

/-- between operations: additionally all channels have been emptied -/
def RI (cur limit maxTip cover : Nat) (chain : List Block) (r : ConfReq) : Prop :=
  Pre cur cur limit maxTip cover chain r ∧ ∀ n ∈ r.ntfns, Chan n

theorem drainR_RI {cc cur limit maxTip cover : Nat} {chain : List Block} {r : ConfReq}
    (h : Pre cc cur limit maxTip cover chain r) :
    Pre cc cur limit maxTip cover chain (drainR r) ∧ ∀ n ∈ (drainR r).ntfns, Chan n := by
  refine ⟨⟨h.len, h.tip, h.valid, h.nopanic, ?_, h.det, h.nodet, h.cov, ?_⟩, ?_⟩
  · intro hs
    obtain ⟨a, b, c⟩ := h.unset hs
    refine ⟨a, b, ?_⟩
    refine all_map (P := fun n => n.live = false) (fun n hn => ?_) c
    split
    · exact hn
    · exact hn
  · exact all_map (P := Core cc limit r.details) (fun n hn => drained_core hn) h.cl
  · intro n hn
    simp only [drainR, List.mem_map] at hn
    obtain ⟨m, _, rfl⟩ := hn
    exact drained_chan m

/-- a height on the chain -/
theorem OnChain.le {chain : List Block} {key : Nat} {d : ConfDetails} (h : OnChain chain key d) :
    1 ≤ d.height ∧ d.height ≤ chain.length := by
  obtain ⟨h1, b, hb, _⟩ := h
  have := (List.getElem?_eq_some_iff.mp hb).1
  omega

/-! ### cancel -/

theorem cancel_pre {cur limit maxTip cover reg : Nat} {chain : List Block} {r : ConfReq}
    (h : RI cur limit maxTip cover chain r) :
    Pre cur cur limit maxTip cover chain (r.cancel reg) := by
  obtain ⟨h, hch⟩ := h
  unfold ConfReq.cancel
  split
  · exact h
  · refine ⟨h.len, h.tip, h.valid, h.nopanic, ?_, h.det, h.nodet, h.cov, ?_⟩
    · intro hs
      obtain ⟨a, b, c⟩ := h.unset hs
      refine ⟨a, b, ?_⟩
      refine all_map (P := fun n => n.live = false) (fun n hn => ?_) c
      split
      · split <;> rfl
      · exact hn
    · refine all_map (P := Core cur limit r.details) (fun n hn => ?_) h.cl
      split
      · rename_i hc
        have hl : n.live = true := by simp at hc; exact hc.2
        have hq := cancel_queue hn hl
        obtain ⟨h1, h2, h3, _, _, _⟩ := hn
        cases hd : r.details with
        | none =>
          rw [hd] at hq
          exact Core.of_dead h1 h2 h3 rfl hq
        | some d =>
          rw [hd] at hq
          exact Core.of_dead h1 h2 h3 rfl hq
      · exact hn

end LndModel.C14
