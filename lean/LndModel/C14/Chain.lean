/-
C14 — part 2: one confirmation request against the active chain.

Every notifier operation acts on each request independently (`step` maps the
per-request functions over `State.confs`), so the relation between what a
request's clients are told and the active chain is stated for one `ConfReq`
together with ghost state: the active chain itself, the highest tip ever seen and
`cover` = the height from which upward every block of the active chain has been
examined for this request (at tip or by a completed historical rescan).

Operations (`WOp`): register / cancel / historical rescan completes / `tip b` =
`ConnectTip(cur+1, b)` followed by its `NotifyHeight(cur+1)` / `untip` =
`DisconnectTip(cur)`; clients empty their channels after every notifier call.
-/
import LndModel.C14.Lemmas

namespace LndModel.C14

/-- what `State.drain` does to one request -/
def drainR (r : ConfReq) : ConfReq :=
  { r with ntfns := r.ntfns.map (fun n => if n.closed then n else n.drained) }

structure World where
  cur : Nat
  limit : Nat
  depth : Nat
  r : ConfReq
  /-- active chain: `chain[h-1]` is the block at height `h`, `chain.length = cur` -/
  chain : List Block
  maxTip : Nat
  cover : Nat
  /-- ghost: the range `[StartHeight, EndHeight]` of the historical dispatch the notifier handed
      out for the current request set (taken from the model's own `Res.hist` answer) -/
  range : Option (Nat × Nat) := none
  /-- ghost: the largest height hint any client has supplied so far -/
  lo : Nat := 0

/-- the height range a completing rescan has looked at -/
def rangeOf (res : Res) (old : Option (Nat × Nat)) : Option (Nat × Nat) :=
  match res with
  | .hist a b => some (a, b)
  | _ => old

/-- new `cover` after a rescan over `range` completed: the examined region grows downwards to the
    rescan's start only if the rescanned range reaches the region examined so far -/
def coverAfter (cover : Nat) (range : Option (Nat × Nat)) : Nat :=
  match range with
  | some (a, b) => if cover ≤ b + 1 then min cover a else cover
  | none => cover

inductive WOp where
  | register (reg n hint : Nat)
  | cancel (reg : Nat)
  /-- the historical rescan that was dispatched for `World.range` reports `d` (possibly late) -/
  | update (d : Option ConfDetails)
  | tip (b : Block)
  | untip

def wstep (w : World) : WOp → World
  | .register reg n hint =>
    { w with r := drainR (w.r.register w.cur w.limit reg n hint).1,
             cover := if w.r.set then w.cover else w.cur + 1,
             range := rangeOf (w.r.register w.cur w.limit reg n hint).2
                        (if w.r.set then w.range else none),
             lo := max w.lo hint }
  | .cancel reg => { w with r := drainR (w.r.cancel reg) }
  | .update d =>
    { w with r := drainR (w.r.update w.cur w.limit d).1, cover := coverAfter w.cover w.range }
  | .tip b =>
    { w with cur := w.cur + 1, depth := 0,
             r := drainR ((drainR (w.r.connect (w.cur + 1) w.limit b)).notify (w.cur + 1)),
             chain := w.chain ++ [b], maxTip := max w.maxTip (w.cur + 1) }
  | .untip =>
    { w with cur := w.cur - 1, depth := w.depth + 1,
             r := drainR (w.r.disconnect (w.cur - 1) (w.depth + 1) w.cur),
             chain := w.chain.dropLast, cover := min w.cover w.cur }

/-- block `b` (as the notifier's `filterTx` sees it) contains the watched transaction -/
def Block.has (b : Block) (key : Nat) : Prop := b.confHits key ≠ []

/-- `d` names a block of the chain that contains the transaction at that index -/
def OnChain (chain : List Block) (key : Nat) (d : ConfDetails) : Prop :=
  1 ≤ d.height ∧ ∃ b, chain[d.height - 1]? = some b ∧ b.id = d.block ∧ d.txIndex ∈ b.confHits key

/-- the transaction occurs in at most one block of the chain -/
def Valid (chain : List Block) (key : Nat) : Prop :=
  ∀ (i j : Nat) (bi bj : Block), chain[i]? = some bi → chain[j]? = some bj → bi.has key → bj.has key → i = j

/-- environment assumptions for one operation -/
def Ok (w : World) : WOp → Prop
  | .register _ n _ => 1 ≤ n ∧ n ≤ w.limit
  | .cancel _ => True
  | .update d =>
    -- a rescan was dispatched, and its answer is the truth about the active chain now,
    -- restricted to the dispatched range `[a, b]` (a late answer says nothing about blocks > b)
    ∃ a b, w.range = some (a, b) ∧
    match d with
    | some d => OnChain w.chain w.r.key d ∧ ∃ n ∈ w.r.ntfns, n.live = true
    | none => ∀ (h : Nat) (bl : Block), a ≤ h → h ≤ b → 1 ≤ h → w.chain[h - 1]? = some bl →
        ¬ bl.has w.r.key
  | .tip b => b.has w.r.key → ∀ (j : Nat) (b' : Block), w.chain[j]? = some b' → ¬ b'.has w.r.key
  | .untip => 1 ≤ w.cur ∧ w.cur + w.limit > w.maxTip

/-! ## per-client invariant -/

/-- the channels of a client that has not cancelled are empty (between operations) -/
def Chan (n : ConfNtfn) : Prop :=
  n.closed = false → n.updates = [] ∧ n.confirmed = [] ∧ n.negConf = [] ∧ n.done = 0

/-- bookkeeping of one client relative to the request's `details` -/
def Core (cur limit : Nat) (det : Option ConfDetails) (n : ConfNtfn) : Prop :=
  n.stuck = false ∧ 1 ≤ n.numConfs ∧ n.numConfs ≤ limit ∧
  (n.live = true → n.closed = false) ∧ (n.live = false → n.queuedAt = []) ∧
  (n.live = true →
    match det with
    | none => n.dispatched = false ∧ n.queuedAt = []
    | some d =>
      (n.dispatched = true → n.queuedAt = []) ∧
      (n.dispatched = false →
        n.queuedAt = [d.height + n.numConfs - 1] ∧ cur < d.height + n.numConfs - 1))

theorem Core.mono {cur cur' limit : Nat} {det : Option ConfDetails} {n : ConfNtfn}
    (h : Core cur limit det n) (hc : cur' ≤ cur) : Core cur' limit det n := by
  obtain ⟨h1, h2, h3, h4, h5, h6⟩ := h
  refine ⟨h1, h2, h3, h4, h5, fun hl => ?_⟩
  have := h6 hl
  cases det with
  | none => exact this
  | some d =>
    simp only at this ⊢
    exact ⟨this.1, fun hd => ⟨(this.2 hd).1, by have := (this.2 hd).2; omega⟩⟩

theorem addH_nil (h : Nat) : addH h [] = [h] := by simp [addH]
theorem addH_self (h : Nat) : addH h [h] = [h] := by simp [addH]
theorem delH_nil (h : Nat) : delH h [] = [] := by simp [delH]
theorem delH_self (h : Nat) : delH h [h] = [] := by simp [delH]
theorem delH_other {h k : Nat} (hk : k ≠ h) : delH h [k] = [k] := by simp [delH, hk]

/-- `dispatchConfDetails` on a client that is consistent with "no details yet" -/
theorem dispatch_fresh {cur limit : Nat} {n : ConfNtfn} (d : ConfDetails)
    (hc : Chan n) (h : Core cur limit none n) (hl : n.live = true) :
    Core cur limit (some d) (n.dispatch cur d) := by
  obtain ⟨h1, h2, h3, h4, h5, h6⟩ := h
  obtain ⟨hd, hq⟩ := h6 hl
  obtain ⟨c1, c2, c3, c4⟩ := hc (h4 hl)
  unfold ConfNtfn.dispatch ConfNtfn.sendUpdate ConfNtfn.sendConfirmed
  simp only [hd, Bool.false_eq_true, ↓reduceIte]
  split
  · split
    · simp [Core, h1, h2, h3, h4, hl, c2, hq]
    · have : ¬ (n.numConfs ≤ 0) := by omega
      simp [Core, h1, h2, h3, h4, hl, c1, c2, hq, this]
  · rename_i hgt
    split
    · simp [Core, h1, h2, h3, h4, hl, hd, hq, addH_nil]; omega
    · have : ¬ (n.numConfs ≤ 0) := by omega
      simp [Core, h1, h2, h3, h4, hl, hd, hq, addH_nil, c1, this]; omega

/-- `dispatchConfDetails` on a client that is already consistent with the details -/
theorem dispatch_same {cur limit : Nat} {n : ConfNtfn} (d : ConfDetails)
    (hc : Chan n) (h : Core cur limit (some d) n) (hl : n.live = true) :
    Core cur limit (some d) (n.dispatch cur d) := by
  have h0 := h
  obtain ⟨h1, h2, h3, h4, h5, h6⟩ := h
  obtain ⟨hd1, hd2⟩ := h6 hl
  obtain ⟨c1, c2, c3, c4⟩ := hc (h4 hl)
  unfold ConfNtfn.dispatch ConfNtfn.sendUpdate ConfNtfn.sendConfirmed
  cases hdd : n.dispatched with
  | true => simpa using h0
  | false =>
    obtain ⟨hq, hlt⟩ := hd2 hdd
    simp only [Bool.false_eq_true, ↓reduceIte]
    split
    · omega
    · have : ¬ (n.numConfs ≤ 0) := by omega
      split
      · simp [Core, h1, h2, h3, h4, hl, hdd, hq, addH_self]; omega
      · simp [Core, h1, h2, h3, h4, hl, hdd, hq, addH_self, c1, this]; omega

theorem Core.congr {cur limit : Nat} {det : Option ConfDetails} {n n' : ConfNtfn}
    (e1 : n'.stuck = n.stuck) (e2 : n'.numConfs = n.numConfs) (e3 : n'.live = n.live)
    (e4 : n'.closed = n.closed) (e5 : n'.queuedAt = n.queuedAt) (e6 : n'.dispatched = n.dispatched)
    (h : Core cur limit det n) : Core cur limit det n' := by
  unfold Core at *
  rw [e1, e2, e3, e4, e5, e6]; exact h

/-- a client that is not live and in no queue satisfies `Core` whatever the details -/
theorem Core.of_dead {cur limit : Nat} {det : Option ConfDetails} {n : ConfNtfn}
    (h1 : n.stuck = false) (h2 : 1 ≤ n.numConfs) (h3 : n.numConfs ≤ limit)
    (h4 : n.live = false) (h5 : n.queuedAt = []) : Core cur limit det n :=
  ⟨h1, h2, h3, fun h => by simp [h4] at h, fun _ => h5, fun h => by simp [h4] at h⟩

/-- `CancelConf` removes the client from the queue it is in -/
theorem cancelled_core {cur limit : Nat} {det : Option ConfDetails} {n : ConfNtfn}
    (h : Core cur limit det n) (hl : n.live = true) : Core cur limit det (n.cancelled det) := by
  obtain ⟨h1, h2, h3, h4, h5, h6⟩ := h
  have := h6 hl
  refine Core.of_dead (by simpa [ConfNtfn.cancelled] using h1) (by simpa [ConfNtfn.cancelled] using h2)
    (by simpa [ConfNtfn.cancelled] using h3) (by simp [ConfNtfn.cancelled]) ?_
  cases det with
  | none => simpa [ConfNtfn.cancelled] using this.2
  | some d =>
    simp only at this
    cases hdd : n.dispatched with
    | true => simp [ConfNtfn.cancelled, this.1 hdd, delH_nil]
    | false => simp [ConfNtfn.cancelled, (this.2 hdd).1, delH_self]

/-- the per-client part of `handleConfDetailsAtTip` (new height `cur + 1`) -/
theorem tipped_core {cur limit : Nat} {n : ConfNtfn} (blk i : Nat)
    (h : Core cur limit none n) (hl : n.live = true) :
    Core cur limit (some ⟨cur + 1, blk, i⟩) (n.tipped (cur + 1)) := by
  obtain ⟨h1, h2, h3, h4, h5, h6⟩ := h
  obtain ⟨hd, hq⟩ := h6 hl
  simp [ConfNtfn.tipped, Core, h1, h2, h3, h4, hl, hd, hq, addH_nil]; omega

/-- at maturity every live client has been dispatched -/
theorem mature_dispatched {cur limit : Nat} {d : ConfDetails} {n : ConfNtfn}
    (h : Core cur limit (some d) n) (hl : n.live = true) (hm : d.height + limit ≤ cur + 1) :
    n.dispatched = true ∧ n.queuedAt = [] := by
  obtain ⟨h1, h2, h3, h4, h5, h6⟩ := h
  obtain ⟨hd1, hd2⟩ := h6 hl
  cases hdd : n.dispatched with
  | true => exact ⟨rfl, hd1 hdd⟩
  | false => have := (hd2 hdd).2; omega

theorem matured_core {cur limit : Nat} {d : ConfDetails} {n : ConfNtfn}
    (hc : Chan n) (h : Core cur limit (some d) n) (hl : n.live = true)
    (hm : d.height + limit ≤ cur + 1) : Core cur limit none n.matured := by
  obtain ⟨_, hq⟩ := mature_dispatched h hl hm
  obtain ⟨h1, h2, h3, h4, h5, h6⟩ := h
  obtain ⟨c1, c2, c3, c4⟩ := hc (h4 hl)
  unfold ConfNtfn.matured ConfNtfn.sendDone
  simp [Core, h1, h2, h3, c4, hq]

/-- a client that is not live is not touched by the details -/
theorem Core.dead {cur cur' limit : Nat} {det det' : Option ConfDetails} {n : ConfNtfn}
    (h : Core cur limit det n) (hl : n.live = false) : Core cur' limit det' n := by
  obtain ⟨h1, h2, h3, h4, h5, h6⟩ := h
  exact ⟨h1, h2, h3, h4, h5, fun hl' => by simp [hl] at hl'⟩

theorem sendUpdate_fields (n : ConfNtfn) (l h : Nat) (hu : n.updates = []) (hn : 1 ≤ n.numConfs) :
    (n.sendUpdate l h).stuck = n.stuck ∧ (n.sendUpdate l h).numConfs = n.numConfs ∧
    (n.sendUpdate l h).live = n.live ∧ (n.sendUpdate l h).closed = n.closed ∧
    (n.sendUpdate l h).queuedAt = n.queuedAt ∧ (n.sendUpdate l h).dispatched = n.dispatched ∧
    (n.sendUpdate l h).confirmed = n.confirmed := by
  unfold ConfNtfn.sendUpdate
  split
  · simp
  · have : ¬ (n.numConfs ≤ 0) := by omega
    simp [hu, this]

/-- second and third pass of `NotifyHeight(cur + 1)` over one client -/
theorem confirm_unqueue_core {cur limit : Nat} {d : ConfDetails} {n : ConfNtfn}
    (h : Core cur limit (some d) n) (hc : n.closed = false → n.confirmed = []) :
    Core (cur + 1) limit (some d) ((n.confirmAt d (cur + 1)).unqueue (cur + 1)) := by
  obtain ⟨h1, h2, h3, h4, h5, h6⟩ := h
  unfold ConfNtfn.confirmAt ConfNtfn.unqueue
  cases hl : n.live with
  | false =>
    have hq := h5 hl
    simp [hl, hq, delH_nil, Core, h1, h2, h3]
  | true =>
    have c2 := hc (h4 hl)
    obtain ⟨hd1, hd2⟩ := h6 hl
    cases hdd : n.dispatched with
    | true =>
      have hq := hd1 hdd
      simp [hdd, hq, delH_nil, Core, h1, h2, h3, h4, hl]
    | false =>
      obtain ⟨hq, hlt⟩ := hd2 hdd
      by_cases hH : d.height + n.numConfs - 1 = cur + 1
      · simp [hdd, hq, hH, ConfNtfn.sendConfirmed, c2, delH_self, Core, h1, h2, h3, h4, hl]
      · have hne' : ([d.height + n.numConfs - 1].contains (cur + 1)) = false := by
          simp; omega
        have hdl : delH (cur + 1) [d.height + n.numConfs - 1] = [d.height + n.numConfs - 1] :=
          delH_other hH
        simp only [hdd, hq, hne', Bool.false_and, Bool.false_eq_true, ↓reduceIte, hdl]
        refine ⟨h1, h2, h3, h4, fun x => by simp [hl] at x, fun _ => ?_⟩
        simp only [hdd, Bool.false_eq_true, false_implies, true_and, forall_const]
        omega

theorem unqueue_core_none {cur cur' limit height : Nat} {n : ConfNtfn} (h : Core cur limit none n) :
    Core cur' limit none (n.unqueue height) := by
  obtain ⟨h1, h2, h3, h4, h5, h6⟩ := h
  unfold ConfNtfn.unqueue
  cases hl : n.live with
  | false => simp [Core, h1, h2, h3, hl, h5 hl, delH_nil]
  | true =>
    obtain ⟨a, b⟩ := h6 hl
    simp [Core, h1, h2, h3, h4, hl, a, b, delH_nil]

theorem confirmAt_noop {d : ConfDetails} {height : Nat} {n : ConfNtfn}
    (h : n.queuedAt.contains height = false) : n.confirmAt d height = n := by
  unfold ConfNtfn.confirmAt
  rw [h]; simp

/-- first pass of `NotifyHeight` over one live client -/
theorem updateAt_core {cur limit height : Nat} {det : Option ConfDetails} {d : ConfDetails}
    {n : ConfNtfn} (hc : Chan n) (h : Core cur limit det n) (hl : n.live = true) :
    Core cur limit det (n.updateAt d height) ∧
      ((n.updateAt d height).closed = false → (n.updateAt d height).confirmed = []) := by
  obtain ⟨c1, c2, c3, c4⟩ := hc (h.2.2.2.1 hl)
  unfold ConfNtfn.updateAt
  simp only
  split
  · exact ⟨h, fun _ => c2⟩
  · obtain ⟨f1, f2, f3, f4, f5, f6, f7⟩ :=
      sendUpdate_fields n (d.height + n.numConfs - 1 - height) d.height c1 h.2.1
    exact ⟨Core.congr f1 f2 f3 f4 f5 f6 h, fun _ => by rw [f7]; exact c2⟩

/-- the per-client part of `DisconnectTip(cur)` for a request confirmed in the disconnected block -/
theorem disconnected_hit {cur limit depth k : Nat} {d : ConfDetails} {n : ConfNtfn}
    (hc : Chan n) (h : Core cur limit (some d) n) (hl : n.live = true) (hh : d.height = cur) :
    Core (cur - 1) limit none (n.disconnected k true cur depth) := by
  obtain ⟨h1, h2, h3, h4, h5, h6⟩ := h
  obtain ⟨c1, c2, c3, c4⟩ := hc (h4 hl)
  obtain ⟨hd1, hd2⟩ := h6 hl
  unfold ConfNtfn.disconnected ConfNtfn.reorg ConfNtfn.sendNeg
  cases hdd : n.dispatched with
  | true =>
    have hq := hd1 hdd
    simp [hdd, c3, Core, h1, h2, h3, h4, hl, hq]
  | false =>
    obtain ⟨hq, hlt⟩ := hd2 hdd
    simp [hdd, c3, Core, h1, h2, h3, h4, hl, hq, hh, delH_self]

/-- ... and for a request confirmed elsewhere -/
theorem disconnected_miss {cur limit depth k height : Nat} {det : Option ConfDetails} {n : ConfNtfn}
    (h : Core cur limit det n) : Core (cur - 1) limit det (n.disconnected k false height depth) := by
  have : Core cur limit det (n.disconnected k false height depth) :=
    Core.congr rfl rfl rfl rfl rfl rfl h
  exact this.mono (by omega)

theorem drained_core {cur limit : Nat} {det : Option ConfDetails} {n : ConfNtfn}
    (h : Core cur limit det n) : Core cur limit det (if n.closed then n else n.drained) := by
  split
  · exact h
  · exact Core.congr rfl rfl rfl rfl rfl rfl h

theorem drained_chan (n : ConfNtfn) : Chan (if n.closed then n else n.drained) := by
  cases hcl : n.closed with
  | true => intro hc; simp [hcl] at hc
  | false => intro _; simp [ConfNtfn.drained]

/-! ## request-level invariant -/

/-- Invariant of one request against the ghost chain (everything except the clients). -/
structure Pre0 (cur limit maxTip cover : Nat) (chain : List Block) (r : ConfReq) : Prop where
  len : chain.length = cur
  tip : cur ≤ maxTip
  valid : Valid chain r.key
  nopanic : r.panicked = false
  unset : r.set = false → r.details = none ∧ r.initialAt = [] ∧ ∀ n ∈ r.ntfns, n.live = false
  det : ∀ d, r.details = some d → OnChain chain r.key d ∧ r.rescan = .complete ∧
          (r.initialAt = [d.height] ∨ (r.initialAt = [] ∧ d.height + limit ≤ maxTip))
  nodet : r.details = none → r.initialAt = []
  cov : r.set = true → r.details = none → ∀ (h : Nat) (b : Block), cover ≤ h → 1 ≤ h →
          chain[h - 1]? = some b → ¬ b.has r.key

/-- `cc` is the height used in the clients' queue bookkeeping (`cur`, except between
    `ConnectTip` and its `NotifyHeight`). -/
def Pre (cc cur limit maxTip cover : Nat) (chain : List Block) (r : ConfReq) : Prop :=
  Pre0 cur limit maxTip cover chain r ∧ ∀ n ∈ r.ntfns, Core cc limit r.details n

/-- between operations: additionally all channels have been emptied -/
def RI (cur limit maxTip cover : Nat) (chain : List Block) (r : ConfReq) : Prop :=
  Pre cur cur limit maxTip cover chain r ∧ ∀ n ∈ r.ntfns, Chan n

theorem Pre0.congr {cur limit maxTip cover : Nat} {chain : List Block} {r r' : ConfReq}
    (h : Pre0 cur limit maxTip cover chain r)
    (e1 : r'.key = r.key) (e2 : r'.set = r.set) (e3 : r'.details = r.details)
    (e4 : r'.initialAt = r.initialAt) (e5 : r'.panicked = r.panicked)
    (e6 : r.details.isSome → r'.rescan = r.rescan)
    (hl : (∀ n ∈ r.ntfns, n.live = false) → ∀ n ∈ r'.ntfns, n.live = false) :
    Pre0 cur limit maxTip cover chain r' := by
  refine ⟨h.len, h.tip, by rw [e1]; exact h.valid, by rw [e5]; exact h.nopanic, ?_, ?_, ?_, ?_⟩
  · intro hs
    rw [e2] at hs
    obtain ⟨a, b, c⟩ := h.unset hs
    exact ⟨by rw [e3]; exact a, by rw [e4]; exact b, hl c⟩
  · intro d hd
    rw [e3] at hd
    obtain ⟨a, b, c⟩ := h.det d hd
    refine ⟨by rw [e1]; exact a, ?_, by rw [e4]; exact c⟩
    rw [e6 (by simp [hd])]; exact b
  · intro hd
    rw [e3] at hd; rw [e4]; exact h.nodet hd
  · intro hs hd
    rw [e2] at hs; rw [e3] at hd; rw [e1]; exact h.cov hs hd

theorem drainR_RI {cc cur limit maxTip cover : Nat} {chain : List Block} {r : ConfReq}
    (h : Pre cc cur limit maxTip cover chain r) :
    Pre cc cur limit maxTip cover chain (drainR r) ∧ ∀ n ∈ (drainR r).ntfns, Chan n := by
  obtain ⟨h0, hcl⟩ := h
  refine ⟨⟨h0.congr rfl rfl rfl rfl rfl (fun _ => rfl) ?_, ?_⟩, ?_⟩
  · intro c
    refine all_map (P := fun n => n.live = false) (fun n hn => ?_) c
    split
    · exact hn
    · exact hn
  · exact all_map (P := Core cc limit r.details) (fun n hn => drained_core hn) hcl
  · intro n hn
    simp only [drainR, List.mem_map] at hn
    obtain ⟨m, _, rfl⟩ := hn
    exact drained_chan m

/-- a height on the chain -/
theorem OnChain.le {chain : List Block} {key : Nat} {d : ConfDetails} (h : OnChain chain key d) :
    1 ≤ d.height ∧ d.height ≤ chain.length := by
  obtain ⟨h1, b, hb, _⟩ := h
  have := (List.getElem?_eq_some_iff.mp hb).1
  omega

/-! ### cancel -/

theorem cancel_pre {cur limit maxTip cover reg : Nat} {chain : List Block} {r : ConfReq}
    (h : RI cur limit maxTip cover chain r) :
    Pre cur cur limit maxTip cover chain (r.cancel reg) := by
  obtain ⟨⟨h0, hcl⟩, hch⟩ := h
  unfold ConfReq.cancel
  split
  · exact ⟨h0, hcl⟩
  · refine ⟨h0.congr rfl rfl rfl rfl rfl (fun _ => rfl) ?_, ?_⟩
    · intro c
      refine all_map (P := fun n => n.live = false) (fun n hn => ?_) c
      split
      · rfl
      · exact hn
    · refine all_map (P := Core cur limit r.details) (fun n hn => ?_) hcl
      split
      · rename_i hc
        have hl : n.live = true := by simp at hc; exact hc.2
        exact cancelled_core hn hl
      · exact hn

/-! ### register -/

theorem new_core {cur limit reg n : Nat} (h1 : 1 ≤ n) (h2 : n ≤ limit) :
    Core cur limit none ({ reg := reg, numConfs := n, left := n } : ConfNtfn) := by
  simp [Core, h1, h2]

theorem new_chan {reg n : Nat} : Chan ({ reg := reg, numConfs := n, left := n } : ConfNtfn) := by
  intro _; simp

theorem dispatchAll_cl {cur limit : Nat} {r : ConfReq} {d : ConfDetails} (hd : r.details = some d)
    (hcl : ∀ n ∈ r.ntfns, Chan n ∧ (Core cur limit (some d) n ∨ Core cur limit none n)) :
    ∀ n ∈ (r.dispatchAll cur limit).ntfns, Core cur limit (r.dispatchAll cur limit).details n := by
  unfold ConfReq.dispatchAll
  simp only [hd]
  refine all_map (P := fun n => Chan n ∧ (Core cur limit (some d) n ∨ Core cur limit none n))
    (fun n hn => ?_) hcl
  obtain ⟨hc, hco⟩ := hn
  cases hl : n.live with
  | false =>
    simp only [Bool.false_eq_true, ↓reduceIte]
    rcases hco with hco | hco
    · exact hco
    · exact hco.dead hl
  | true =>
    simp only [↓reduceIte]
    rcases hco with hco | hco
    · exact dispatch_same d hc hco hl
    · exact dispatch_fresh d hc hco hl

theorem dispatchAll_fields {cur limit : Nat} {r : ConfReq} {d : ConfDetails} (hd : r.details = some d) :
    (r.dispatchAll cur limit).key = r.key ∧ (r.dispatchAll cur limit).set = r.set ∧
    (r.dispatchAll cur limit).details = r.details ∧ (r.dispatchAll cur limit).panicked = r.panicked ∧
    (r.dispatchAll cur limit).rescan = r.rescan ∧
    (r.dispatchAll cur limit).initialAt =
      (if (r.ntfns.any fun n => n.live && !n.dispatched) && decide (d.height + limit > cur)
       then addH d.height r.initialAt else r.initialAt) := by
  unfold ConfReq.dispatchAll
  simp [hd]

/-- `dispatchAll` when every client is consistent either with the details or with "none yet" -/
theorem dispatchAll_pre {cur limit maxTip cover : Nat} {chain : List Block} {r : ConfReq}
    {d : ConfDetails} (h0 : Pre0 cur limit maxTip cover chain r) (hd : r.details = some d)
    (hcl : ∀ n ∈ r.ntfns, Chan n ∧ (Core cur limit (some d) n ∨ Core cur limit none n)) :
    Pre cur cur limit maxTip cover chain (r.dispatchAll cur limit) := by
  unfold ConfReq.dispatchAll
  simp only [hd]
  constructor
  · refine ⟨h0.len, h0.tip, h0.valid, h0.nopanic, ?_, ?_, ?_, ?_⟩
    · intro hs
      obtain ⟨a, _, _⟩ := h0.unset hs
      rw [hd] at a; cases a
    · intro d' hd'
      simp only [hd, Option.some.injEq] at hd'
      subst hd'
      obtain ⟨a, b, c⟩ := h0.det d hd
      refine ⟨a, b, ?_⟩
      rcases c with c | ⟨c1, c2⟩
      · left; simp only [c]; split <;> simp [addH_self]
      · simp only [c1]
        split
        · left; exact addH_nil _
        · right; exact ⟨rfl, c2⟩
    · intro hn; simp [hd] at hn
    · intro _ hn; simp [hd] at hn
  · simp only [hd]
    refine all_map (P := fun n => Chan n ∧ (Core cur limit (some d) n ∨ Core cur limit none n))
      (fun n hn => ?_) hcl
    obtain ⟨hc, hco⟩ := hn
    cases hl : n.live with
    | false =>
      simp only [Bool.false_eq_true, ↓reduceIte]
      rcases hco with hco | hco
      · exact hco
      · exact hco.dead hl
    | true =>
      simp only [↓reduceIte]
      rcases hco with hco | hco
      · exact dispatch_same d hc hco hl
      · exact dispatch_fresh d hc hco hl

theorem register_pre {cur limit maxTip cover reg n hint : Nat} {chain : List Block} {r : ConfReq}
    (h : RI cur limit maxTip cover chain r) (hn1 : 1 ≤ n) (hn2 : n ≤ limit) :
    Pre cur cur limit maxTip (if r.set then cover else cur + 1) chain
      (r.register cur limit reg n hint).1 := by
  obtain ⟨⟨h0, hcl⟩, hch⟩ := h
  -- after `opened` and `addNtfn`
  let r1 := r.opened.addNtfn { reg := reg, numConfs := n, left := n }
  have e_key : r1.key = r.key := by simp only [r1, ConfReq.addNtfn, ConfReq.opened]; split <;> rfl
  have e_det : r1.details = r.details := by
    simp only [r1, ConfReq.addNtfn, ConfReq.opened]
    split
    · rfl
    · rename_i hs
      exact ((h0.unset (by simpa using hs)).1).symm
  have e_ini : r1.initialAt = r.initialAt := by
    simp only [r1, ConfReq.addNtfn, ConfReq.opened]; split <;> rfl
  have e_pan : r1.panicked = r.panicked := by
    simp only [r1, ConfReq.addNtfn, ConfReq.opened]; split <;> rfl
  have e_set : r1.set = true := by
    simp only [r1, ConfReq.addNtfn, ConfReq.opened]; split
    · rename_i hs; exact hs
    · rfl
  have e_res : r.details.isSome → r1.rescan = r.rescan := by
    intro hd
    simp only [r1, ConfReq.addNtfn, ConfReq.opened]; split
    · rfl
    · rename_i hs
      rw [(h0.unset (by simpa using hs)).1] at hd; simp at hd
  have e_nt : r1.ntfns = r.ntfns ++ [{ reg := reg, numConfs := n, left := n }] := by
    simp only [r1, ConfReq.addNtfn, ConfReq.opened]; split <;> rfl
  have h1 : Pre0 cur limit maxTip (if r.set then cover else cur + 1) chain r1 := by
    refine ⟨h0.len, h0.tip, by rw [e_key]; exact h0.valid, by rw [e_pan]; exact h0.nopanic, ?_, ?_, ?_, ?_⟩
    · intro hs; rw [e_set] at hs; cases hs
    · intro d hd
      rw [e_det] at hd
      obtain ⟨a, b, c⟩ := h0.det d hd
      exact ⟨by rw [e_key]; exact a, by rw [e_res (by simp [hd])]; exact b, by rw [e_ini]; exact c⟩
    · intro hd; rw [e_det] at hd; rw [e_ini]; exact h0.nodet hd
    · intro _ hd hh b hge h1 hb
      rw [e_det] at hd; rw [e_key]
      cases hs : r.set with
      | true =>
        simp only [hs, ↓reduceIte] at hge
        exact h0.cov hs hd hh b hge h1 hb
      | false =>
        simp only [hs, Bool.false_eq_true, ↓reduceIte] at hge
        have := (List.getElem?_eq_some_iff.mp hb).1
        have := h0.len
        omega
  have hnew1 : ∀ m ∈ r1.ntfns, Chan m ∧ (Core cur limit r.details m ∨ Core cur limit none m) := by
    intro m hm
    rw [e_nt] at hm
    simp only [List.mem_append, List.mem_singleton] at hm
    rcases hm with hm | rfl
    · exact ⟨hch m hm, Or.inl (hcl m hm)⟩
    · exact ⟨new_chan, Or.inr (new_core hn1 hn2)⟩
  show Pre cur cur limit maxTip _ chain (r1.registered cur limit (startHeight r.hint hint)).1
  cases hd : r.details with
  | some d =>
    have hrs : r1.rescan = .complete := by
      rw [e_res (by simp [hd])]; exact (h0.det d hd).2.1
    unfold ConfReq.registered
    simp only [hrs]
    exact dispatchAll_pre h1 (by rw [e_det, hd]) (fun m hm => by simpa [hd] using hnew1 m hm)
  | none =>
    have hc1 : ∀ m ∈ r1.ntfns, Core cur limit r1.details m := by
      intro m hm
      rw [e_det, hd]
      rcases (hnew1 m hm).2 with x | x
      · rw [hd] at x; exact x
      · exact x
    have hd1 : r1.details = none := by rw [e_det, hd]
    generalize (if r.set = true then cover else cur + 1) = cv at h1 ⊢
    unfold ConfReq.registered
    cases hrs : r1.rescan with
    | complete =>
      simp only
      unfold ConfReq.dispatchAll
      simp only [hd1]
      exact ⟨h1, hc1⟩
    | pending => exact ⟨h1, hc1⟩
    | notStarted =>
      simp only
      split
      · exact ⟨h1.congr rfl rfl rfl rfl rfl (fun x => by simp [hd1] at x) (fun c => c), hc1⟩
      · exact ⟨h1.congr rfl rfl rfl rfl rfl (fun x => by simp [hd1] at x) (fun c => c), hc1⟩

/-! ### historical rescan completes -/

theorem Pre0.cover_le {cur limit maxTip cover cover' : Nat} {chain : List Block} {r : ConfReq}
    (h : Pre0 cur limit maxTip cover chain r)
    (hc : r.set = true → r.details = none → ∀ (h : Nat) (b : Block), cover' ≤ h → h < cover → 1 ≤ h →
          chain[h - 1]? = some b → ¬ b.has r.key) :
    Pre0 cur limit maxTip cover' chain r := by
  refine ⟨h.len, h.tip, h.valid, h.nopanic, h.unset, h.det, h.nodet, ?_⟩
  intro hs hd hh b hge h1 hb
  by_cases hlt : hh < cover
  · exact hc hs hd hh b hge hlt h1 hb
  · exact h.cov hs hd hh b (by omega) h1 hb

theorem update_pre {cur limit maxTip cover a b : Nat} {chain : List Block} {r : ConfReq}
    {d : Option ConfDetails} (h : RI cur limit maxTip cover chain r)
    (hok : match d with
      | some d => OnChain chain r.key d ∧ ∃ n ∈ r.ntfns, n.live = true
      | none => ∀ (h : Nat) (bl : Block), a ≤ h → h ≤ b → 1 ≤ h → chain[h - 1]? = some bl →
          ¬ bl.has r.key) :
    Pre cur cur limit maxTip (coverAfter cover (some (a, b))) chain (r.update cur limit d).1 := by
  have hcv : coverAfter cover (some (a, b)) ≤ cover ∧
      ∀ hh, coverAfter cover (some (a, b)) ≤ hh → hh < cover → a ≤ hh ∧ hh ≤ b := by
    simp only [coverAfter]
    split
    · exact ⟨by omega, fun hh h1 h2 => by omega⟩
    · exact ⟨by omega, fun hh h1 h2 => by omega⟩
  generalize coverAfter cover (some (a, b)) = cv at hcv ⊢
  obtain ⟨⟨h0, hcl⟩, hch⟩ := h
  unfold ConfReq.update
  split
  · rename_i hs
    refine ⟨h0.cover_le (fun hs' => ?_), hcl⟩
    simp [hs'] at hs
  · rename_i hs
    have hset : r.set = true := by simpa using hs
    split
    · rename_i hd
      refine ⟨h0.cover_le (fun _ hd' => ?_), hcl⟩
      simp [hd'] at hd
    · rename_i hd
      have hdn : r.details = none := by
        cases hx : r.details with
        | none => rfl
        | some x => simp [hx] at hd
      cases d with
      | none =>
        simp only
        refine ⟨?_, by simpa using hcl⟩
        have h0' : Pre0 cur limit maxTip cover chain
            { r with rescan := .complete, hint := some cur } :=
          h0.congr rfl rfl rfl rfl rfl (fun x => by simp [hdn] at x) (fun c => c)
        refine h0'.cover_le (fun _ _ hh bl hge hlt h1 hb => ?_)
        obtain ⟨x, y⟩ := hcv.2 hh hge hlt
        exact hok hh bl x y h1 hb
      | some d =>
        obtain ⟨hon, m, hm, hml⟩ := hok
        have hle := hon.le
        rw [h0.len] at hle
        simp only
        split
        · omega
        · -- the details are cached and dispatched
          have hfresh : (r.ntfns.any fun n => n.live && !n.dispatched) = true := by
            rw [List.any_eq_true]
            refine ⟨m, hm, ?_⟩
            have := (hcl m hm).2.2.2.2.2 hml
            rw [hdn] at this
            simp [hml, this.1]
          let r2 : ConfReq := { r with rescan := .complete, hint := some d.height, details := some d }
          have hd2 : r2.details = some d := rfl
          obtain ⟨f1, f2, f3, f4, f5, f6⟩ := dispatchAll_fields (cur := cur) (limit := limit) hd2
          have hcl2 : ∀ n ∈ r2.ntfns, Chan n ∧ (Core cur limit (some d) n ∨ Core cur limit none n) := by
            intro n hn
            refine ⟨hch n hn, Or.inr ?_⟩
            have := hcl n hn
            rw [hdn] at this; exact this
          refine ⟨?_, dispatchAll_cl hd2 hcl2⟩
          refine ⟨h0.len, h0.tip, by rw [f1]; exact h0.valid, by rw [f4]; exact h0.nopanic, ?_, ?_, ?_, ?_⟩
          · intro hs'; rw [f2] at hs'; simp [r2, hset] at hs'
          · intro d' hd'
            rw [f3] at hd'
            simp only [r2, Option.some.injEq] at hd'
            subst hd'
            refine ⟨by rw [f1]; exact hon, by rw [f5], ?_⟩
            rw [f6]
            have hini : r2.initialAt = [] := h0.nodet hdn
            have hf2 : (r2.ntfns.any fun n => n.live && !n.dispatched) = true := hfresh
            rw [hini, hf2]
            by_cases hlim : d.height + limit > cur
            · left; simp [hlim, addH_nil]
            · right; simp [hlim]; have := h0.tip; omega
          · intro hx; rw [f3] at hx; simp [r2] at hx
          · intro _ hx; rw [f3] at hx; simp [r2] at hx

/-! ### DisconnectTip -/

theorem dropLast_some {l : List Block} {i : Nat} {b : Block} (h : l.dropLast[i]? = some b) :
    l[i]? = some b ∧ i + 1 < l.length := by
  rw [List.getElem?_dropLast] at h
  split at h
  · exact ⟨h, by omega⟩
  · cases h

theorem dropLast_of_lt {l : List Block} {i : Nat} (h : i + 1 < l.length) :
    l.dropLast[i]? = l[i]? := by
  rw [List.getElem?_dropLast]; simp; omega

theorem Valid.dropLast {chain : List Block} {key : Nat} (h : Valid chain key) :
    Valid chain.dropLast key := by
  intro i j bi bj hi hj
  exact h i j bi bj (dropLast_some hi).1 (dropLast_some hj).1

theorem OnChain.dropLast {chain : List Block} {key : Nat} {d : ConfDetails}
    (h : OnChain chain key d) (hlt : d.height < chain.length) : OnChain chain.dropLast key d := by
  obtain ⟨h1, b, hb, rest⟩ := h
  exact ⟨h1, b, by rw [dropLast_of_lt (by omega)]; exact hb, rest⟩

theorem OnChain.has {chain : List Block} {key : Nat} {d : ConfDetails} (h : OnChain chain key d) :
    ∃ b, chain[d.height - 1]? = some b ∧ b.has key := by
  obtain ⟨_, b, hb, _, hi⟩ := h
  exact ⟨b, hb, fun hn => by simp [hn] at hi⟩

theorem updateHint_fields (cur height : Nat) (r : ConfReq) :
    (r.updateHint cur height).key = r.key ∧ (r.updateHint cur height).set = r.set ∧
    (r.updateHint cur height).details = r.details ∧ (r.updateHint cur height).initialAt = r.initialAt ∧
    (r.updateHint cur height).panicked = r.panicked ∧ (r.updateHint cur height).rescan = r.rescan ∧
    (r.updateHint cur height).ntfns = r.ntfns := by
  unfold ConfReq.updateHint; split <;> simp

theorem disconnect_pre {cur limit maxTip cover depth : Nat} {chain : List Block} {r : ConfReq}
    (h : RI cur limit maxTip cover chain r) (hc1 : 1 ≤ cur) (hlim : cur + limit > maxTip) :
    Pre (cur - 1) (cur - 1) limit maxTip (min cover cur) chain.dropLast
      (r.disconnect (cur - 1) depth cur) := by
  obtain ⟨⟨h0, hcl⟩, hch⟩ := h
  obtain ⟨u1, u2, u3, u4, u5, u6, u7⟩ := updateHint_fields (cur - 1) cur r
  unfold ConfReq.disconnect
  generalize r.updateHint (cur - 1) cur = r0 at u1 u2 u3 u4 u5 u6 u7
  have hlen := h0.len
  -- facts about the shortened chain that do not depend on the branch
  have hvalid : Valid chain.dropLast r.key := h0.valid.dropLast
  have hcov : ∀ (hh : Nat) (b : Block), min cover cur ≤ hh → 1 ≤ hh →
      chain.dropLast[hh - 1]? = some b → cover ≤ hh ∧ chain[hh - 1]? = some b ∧ hh < cur := by
    intro hh b hge h1 hb
    obtain ⟨hb', hlt⟩ := dropLast_some hb
    refine ⟨?_, hb', by omega⟩
    have : hh < cur := by omega
    omega
  simp only
  split
  · -- the request is not watched at any height: nothing but the hint changes
    rename_i hemp
    have hini : r.initialAt = [] := by
      rw [u4] at hemp; simpa using hemp
    refine ⟨⟨by rw [List.length_dropLast]; omega, by have := h0.tip; omega, by rw [u1]; exact hvalid,
      by rw [u5]; exact h0.nopanic, ?_, ?_, ?_, ?_⟩, ?_⟩
    · intro hs; rw [u2] at hs
      obtain ⟨a, b, c⟩ := h0.unset hs
      exact ⟨by rw [u3]; exact a, by rw [u4]; exact b, by rw [u7]; exact c⟩
    · intro d hd; rw [u3] at hd
      obtain ⟨a, b, c⟩ := h0.det d hd
      have hle := a.le
      rcases c with c | ⟨_, c2⟩
      · rw [hini] at c; cases c
      · refine ⟨by rw [u1]; exact a.dropLast (by omega), by rw [u6]; exact b, ?_⟩
        right; exact ⟨by rw [u4]; exact hini, c2⟩
    · intro hd; rw [u4]; exact hini
    · intro hs hd hh b hge h1 hb
      rw [u2] at hs; rw [u3] at hd; rw [u1]
      obtain ⟨x, y, _⟩ := hcov hh b hge h1 hb
      exact h0.cov hs hd hh b x h1 y
    · rw [u7, u3]
      intro n hn
      exact (hcl n hn).mono (by omega)
  · rename_i hemp
    have hne : r.initialAt ≠ [] := by
      rw [u4] at hemp; simpa using hemp
    have hset : r.set = true := by
      cases hs : r.set with
      | true => rfl
      | false => exact absurd (h0.unset hs).2.1 hne
    have hdsome : ∃ d, r.details = some d := by
      cases hd : r.details with
      | none => exact absurd (h0.nodet hd) hne
      | some d => exact ⟨d, rfl⟩
    obtain ⟨d, hd⟩ := hdsome
    obtain ⟨hon, hrs, hini⟩ := h0.det d hd
    have hini : r.initialAt = [d.height] := by
      rcases hini with c | ⟨c, _⟩
      · exact c
      · exact absurd c hne
    have hle := hon.le
    split
    · rename_i hs; rw [u2] at hs; simp [hset] at hs
    · by_cases hhit : d.height = cur
      · -- confirmed in the disconnected block
        have hcont : r0.initialAt.contains cur = true := by rw [u4, hini]; simp [hhit]
        simp only [hcont, ↓reduceIte]
        refine ⟨⟨by rw [List.length_dropLast]; omega, by have := h0.tip; omega, by rw [u1]; exact hvalid,
          by rw [u5]; exact h0.nopanic, ?_, ?_, ?_, ?_⟩, ?_⟩
        · intro hs; rw [u2] at hs; simp [hset] at hs
        · intro d' hd'; cases hd'
        · intro _; rw [u4, hini, hhit]; exact delH_self cur
        · intro _ _ hh b hge h1 hb hhas
          rw [u1] at hhas
          obtain ⟨_, y, z⟩ := hcov hh b hge h1 hb
          obtain ⟨bd, hbd, hbdhas⟩ := hon.has
          have := h0.valid (hh - 1) (d.height - 1) b bd y hbd hhas hbdhas
          omega
        · simp only [u7]
          refine all_map (P := fun n => Chan n ∧ Core cur limit (some d) n) (fun n hn => ?_)
            (fun n hn => ⟨hch n hn, by have := hcl n hn; rw [hd] at this; exact this⟩)
          cases hl : n.live with
          | true =>
            simp only [↓reduceIte]
            exact disconnected_hit hn.1 hn.2 hl hhit
          | false =>
            simp only [Bool.false_eq_true, ↓reduceIte]
            exact hn.2.dead hl
      · -- confirmed below
        have hcont : r0.initialAt.contains cur = false := by
          rw [u4, hini]; simp; omega
        simp only [hcont, Bool.false_eq_true, ↓reduceIte]
        refine ⟨⟨by rw [List.length_dropLast]; omega, by have := h0.tip; omega, by rw [u1]; exact hvalid,
          by rw [u5]; exact h0.nopanic, ?_, ?_, ?_, ?_⟩, ?_⟩
        · intro hs; rw [u2] at hs; simp [hset] at hs
        · intro d' hd'
          rw [u3, hd] at hd'
          simp only [Option.some.injEq] at hd'; subst hd'
          refine ⟨by rw [u1]; exact hon.dropLast (by omega), by rw [u6]; exact hrs, ?_⟩
          left; rw [u4, hini]; exact delH_other (by omega)
        · intro hx; rw [u3, hd] at hx; cases hx
        · intro _ hx; rw [u3, hd] at hx; cases hx
        · simp only [u7, u3]
          refine all_map (P := fun n => Core cur limit r.details n) (fun n hn => ?_) hcl
          cases hl : n.live with
          | true =>
            simp only [↓reduceIte]
            exact disconnected_miss hn
          | false =>
            simp only [Bool.false_eq_true, ↓reduceIte]
            exact hn.mono (by omega)

/-! ### ConnectTip -/

theorem atTip_atTip (r : ConfReq) (d d' : ConfDetails) : (r.atTip d).atTip d' = r.atTip d := by
  unfold ConfReq.atTip
  cases hs : r.set with
  | false => simp [hs]
  | true =>
    cases hd : r.details with
    | some x => simp [hs, hd]
    | none => simp [hs, hd]

theorem foldl_atTip (r : ConfReq) (c bid : Nat) (hits : List Nat) :
    hits.foldl (fun r i => r.atTip ⟨c, bid, i⟩) r =
      match hits with
      | [] => r
      | i :: _ => r.atTip ⟨c, bid, i⟩ := by
  cases hits with
  | nil => rfl
  | cons i t =>
    simp only [List.foldl_cons]
    induction t with
    | nil => rfl
    | cons j t ih => simp only [List.foldl_cons, atTip_atTip]; exact ih

theorem Valid.append {chain : List Block} {key : Nat} {b : Block} (h : Valid chain key)
    (hb : b.has key → ∀ (j : Nat) (b' : Block), chain[j]? = some b' → ¬ b'.has key) :
    Valid (chain ++ [b]) key := by
  intro i j bi bj hi hj hbi hbj
  by_cases hil : i < chain.length
  · rw [List.getElem?_append_left hil] at hi
    by_cases hjl : j < chain.length
    · rw [List.getElem?_append_left hjl] at hj
      exact h i j bi bj hi hj hbi hbj
    · rw [List.getElem?_append_right (by omega)] at hj
      have : bj = b := by
        cases hx : j - chain.length with
        | zero => simp [hx] at hj; exact hj.symm
        | succ k => simp [hx] at hj
      subst this
      exact absurd hbi (hb hbj i bi hi)
  · rw [List.getElem?_append_right (by omega)] at hi
    have hib : bi = b ∧ i = chain.length := by
      cases hx : i - chain.length with
      | zero => simp [hx] at hi; exact ⟨hi.symm, by omega⟩
      | succ k => simp [hx] at hi
    obtain ⟨rfl, hie⟩ := hib
    by_cases hjl : j < chain.length
    · rw [List.getElem?_append_left hjl] at hj
      exact absurd hbj (hb hbi j bj hj)
    · rw [List.getElem?_append_right (by omega)] at hj
      have : j = chain.length := by
        cases hx : j - chain.length with
        | zero => omega
        | succ k => simp [hx] at hj
      omega

theorem OnChain.append {chain : List Block} {key : Nat} {d : ConfDetails} (b : Block)
    (h : OnChain chain key d) : OnChain (chain ++ [b]) key d := by
  have hle := h.le
  obtain ⟨h1, b', hb, rest⟩ := h
  exact ⟨h1, b', by rw [List.getElem?_append_left (by omega)]; exact hb, rest⟩

/-- the `handleConfDetailsAtTip` part of `ConnectTip(cur + 1, b)` -/
theorem atTip_pre {cur limit maxTip cover : Nat} {chain : List Block} {r : ConfReq} {b : Block}
    (h : RI cur limit maxTip cover chain r)
    (hok : b.has r.key → ∀ (j : Nat) (b' : Block), chain[j]? = some b' → ¬ b'.has r.key) :
    let r1 := match b.confHits r.key with
      | [] => r
      | i :: _ => r.atTip ⟨cur + 1, b.id, i⟩
    Pre cur (cur + 1) limit (max maxTip (cur + 1)) cover (chain ++ [b]) r1 ∧ ∀ n ∈ r1.ntfns, Chan n := by
  obtain ⟨⟨h0, hcl⟩, hch⟩ := h
  have hlen : (chain ++ [b]).length = cur + 1 := by simp [h0.len]
  have hvalid : Valid (chain ++ [b]) r.key := h0.valid.append hok
  -- the request does not change
  have same : (¬ b.has r.key ∨ r.set = false ∨ r.details.isSome) →
      Pre cur (cur + 1) limit (max maxTip (cur + 1)) cover (chain ++ [b]) r := by
    intro hcase
    refine ⟨⟨hlen, by omega, hvalid, h0.nopanic, h0.unset, ?_, h0.nodet, ?_⟩, hcl⟩
    · intro d hd
      obtain ⟨a, x, c⟩ := h0.det d hd
      refine ⟨a.append b, x, ?_⟩
      rcases c with c | ⟨c1, c2⟩
      · exact Or.inl c
      · exact Or.inr ⟨c1, by omega⟩
    · intro hs hd hh bb hge h1 hb
      by_cases hlt : hh - 1 < chain.length
      · rw [List.getElem?_append_left hlt] at hb
        exact h0.cov hs hd hh bb hge h1 hb
      · rw [List.getElem?_append_right (by omega)] at hb
        have : bb = b := by
          cases hx : hh - 1 - chain.length with
          | zero => simp [hx] at hb; exact hb.symm
          | succ k => simp [hx] at hb
        subst this
        rcases hcase with c | c | c
        · exact c
        · rw [hs] at c; cases c
        · rw [hd] at c; cases c
  cases hhits : b.confHits r.key with
  | nil =>
    simp only
    exact ⟨same (Or.inl (by simp [Block.has, hhits])), hch⟩
  | cons i t =>
    simp only
    unfold ConfReq.atTip
    cases hs : r.set with
    | false => simp only [Bool.not_false, ↓reduceIte]; exact ⟨same (Or.inr (Or.inl hs)), hch⟩
    | true =>
      cases hd : r.details with
      | some x =>
        simp only [Bool.not_true, Bool.false_eq_true, ↓reduceIte, Option.isSome_some]
        exact ⟨same (Or.inr (Or.inr (by simp [hd]))), hch⟩
      | none =>
        simp only [Bool.not_true, Bool.false_eq_true, ↓reduceIte, Option.isSome_none]
        have hini : r.initialAt = [] := h0.nodet hd
        refine ⟨⟨⟨hlen, by omega, hvalid, h0.nopanic, ?_, ?_, ?_, ?_⟩, ?_⟩, ?_⟩
        · intro hs'; simp [hs] at hs'
        · intro d' hd'
          simp only [Option.some.injEq] at hd'
          subst hd'
          refine ⟨⟨by simp, b, ?_, rfl, by simp [hhits]⟩, rfl, Or.inl ?_⟩
          · simp only [Nat.add_sub_cancel]
            rw [← h0.len]; exact List.getElem?_concat_length
          · simp [hini, addH_nil]
        · intro hx; cases hx
        · intro _ hx; cases hx
        · simp only
          refine all_map (P := Core cur limit r.details) (fun n hn => ?_) hcl
          cases hl : n.live with
          | true =>
            simp only [↓reduceIte]
            rw [hd] at hn
            exact tipped_core b.id i hn hl
          | false =>
            simp only [Bool.false_eq_true, ↓reduceIte]
            exact hn.dead hl
        · refine all_map (P := Chan) (fun n hn => ?_) hch
          split
          · intro hc
            obtain ⟨c1, c2, c3, c4⟩ := hn hc
            simp [ConfNtfn.tipped, c1, c2, c3, c4]
          · exact hn

theorem updateHint_pre {cc cur limit maxTip cover c h : Nat} {chain : List Block} {r : ConfReq}
    (hp : Pre cc cur limit maxTip cover chain r) (hch : ∀ n ∈ r.ntfns, Chan n) :
    Pre cc cur limit maxTip cover chain (r.updateHint c h) ∧
      ∀ n ∈ (r.updateHint c h).ntfns, Chan n := by
  obtain ⟨u1, u2, u3, u4, u5, u6, u7⟩ := updateHint_fields c h r
  obtain ⟨h0, hcl⟩ := hp
  refine ⟨⟨h0.congr u1 u2 u3 u4 u5 (fun _ => u6) (fun x => by rw [u7]; exact x), ?_⟩, ?_⟩
  · rw [u7, u3]; exact hcl
  · rw [u7]; exact hch

/-- the maturity clause of `ConnectTip(cc + 1, ·)` -/
theorem mature_pre {cc limit maxTip cover : Nat} {chain : List Block} {r : ConfReq}
    (hp : Pre cc (cc + 1) limit maxTip cover chain r) (hch : ∀ n ∈ r.ntfns, Chan n) :
    Pre cc (cc + 1) limit maxTip cover chain (r.mature (cc + 1) limit) := by
  obtain ⟨h0, hcl⟩ := hp
  unfold ConfReq.mature
  split
  · rename_i hfire
    simp only [Bool.and_eq_true, decide_eq_true_eq] at hfire
    obtain ⟨hge, hcont⟩ := hfire
    have hne : r.initialAt ≠ [] := by
      intro hx; rw [hx] at hcont; simp at hcont
    have hset : r.set = true := by
      cases hs : r.set with
      | true => rfl
      | false => exact absurd (h0.unset hs).2.1 hne
    obtain ⟨d, hd⟩ : ∃ d, r.details = some d := by
      cases hd : r.details with
      | none => exact absurd (h0.nodet hd) hne
      | some d => exact ⟨d, rfl⟩
    obtain ⟨hon, hrs, hini⟩ := h0.det d hd
    have hini : r.initialAt = [d.height] := by
      rcases hini with c | ⟨c, _⟩
      · exact c
      · exact absurd c hne
    have hdh : d.height = cc + 1 - limit := by
      rw [hini] at hcont; simp at hcont; omega
    simp only [hset, Bool.not_true, Bool.false_eq_true, ↓reduceIte]
    refine ⟨⟨h0.len, h0.tip, h0.valid, h0.nopanic, ?_, ?_, ?_, ?_⟩, ?_⟩
    · intro _
      refine ⟨rfl, ?_, ?_⟩
      · simp only [hini, hdh]; exact delH_self _
      · intro n hn
        simp only [List.mem_map] at hn
        obtain ⟨m, _, rfl⟩ := hn
        cases hl : m.live with
        | true => simp [ConfNtfn.matured]
        | false => simp [hl]
    · intro d' hd'; cases hd'
    · intro _; simp only [hini, hdh]; exact delH_self _
    · intro hs; cases hs
    · simp only
      refine all_map (P := fun n => Chan n ∧ Core cc limit (some d) n) (fun n hn => ?_)
        (fun n hn => ⟨hch n hn, by have := hcl n hn; rw [hd] at this; exact this⟩)
      cases hl : n.live with
      | true =>
        simp only [↓reduceIte]
        exact matured_core hn.1 hn.2 hl (by omega)
      | false =>
        simp only [Bool.false_eq_true, ↓reduceIte]
        exact hn.2.dead hl
  · exact ⟨h0, hcl⟩

theorem connect_pre {cur limit maxTip cover : Nat} {chain : List Block} {r : ConfReq} {b : Block}
    (h : RI cur limit maxTip cover chain r)
    (hok : b.has r.key → ∀ (j : Nat) (b' : Block), chain[j]? = some b' → ¬ b'.has r.key) :
    Pre cur (cur + 1) limit (max maxTip (cur + 1)) cover (chain ++ [b])
      (r.connect (cur + 1) limit b) := by
  unfold ConfReq.connect
  rw [foldl_atTip]
  obtain ⟨hp, hch⟩ := atTip_pre h hok
  obtain ⟨hp2, hch2⟩ := updateHint_pre (c := cur + 1) (h := cur + 1) hp hch
  exact mature_pre hp2 hch2

/-! ### NotifyHeight -/

/-- per-client summary between the passes of `NotifyHeight` -/
def Q1 (cur limit : Nat) (det : Option ConfDetails) (n : ConfNtfn) : Prop :=
  Core cur limit det n ∧ (n.closed = false → n.confirmed = [])

theorem notifyUpdates_pre {cur limit maxTip cover height : Nat} {chain : List Block} {r : ConfReq}
    (hp : Pre cur (cur + 1) limit maxTip cover chain r) (hch : ∀ n ∈ r.ntfns, Chan n) :
    Pre0 (cur + 1) limit maxTip cover chain (r.notifyUpdates height) ∧
      (r.notifyUpdates height).details = r.details ∧
      ∀ n ∈ (r.notifyUpdates height).ntfns, Q1 cur limit r.details n := by
  obtain ⟨h0, hcl⟩ := hp
  have base : ∀ n ∈ r.ntfns, Q1 cur limit r.details n := fun n hn =>
    ⟨hcl n hn, fun hc => (hch n hn hc).2.1⟩
  unfold ConfReq.notifyUpdates
  split
  · exact ⟨h0, rfl, base⟩
  · rename_i hemp
    have hne : r.initialAt ≠ [] := by simpa using hemp
    have hset : r.set = true := by
      cases hs : r.set with
      | true => rfl
      | false => exact absurd (h0.unset hs).2.1 hne
    obtain ⟨d, hd⟩ : ∃ d, r.details = some d := by
      cases hd : r.details with
      | none => exact absurd (h0.nodet hd) hne
      | some d => exact ⟨d, rfl⟩
    have hcl' : ∀ n ∈ r.ntfns, Core cur limit (some d) n := fun n hn => by
      have := hcl n hn; rw [hd] at this; exact this
    simp only [hset, hd]
    refine ⟨h0.congr rfl hset.symm hd.symm rfl rfl (fun _ => rfl) ?_, trivial, ?_⟩
    · intro c
      refine all_map (P := fun n => n.live = false) (fun n hn => ?_) c
      simp [hn]
    · refine all_map (P := fun n => Chan n ∧ Core cur limit (some d) n) (fun n hn => ?_)
        (fun n hn => ⟨hch n hn, hcl' n hn⟩)
      cases hl : n.live with
      | true =>
        simp only [↓reduceIte]
        exact updateAt_core hn.1 hn.2 hl
      | false =>
        simp only [Bool.false_eq_true, ↓reduceIte]
        exact ⟨hn.2, fun hc => (hn.1 hc).2.1⟩

theorem Q1.not_queued_dead {cur limit height : Nat} {n : ConfNtfn}
    (h : Q1 cur limit none n) : n.queuedAt.contains height = false := by
  obtain ⟨⟨h1, h2, h3, h4, h5, h6⟩, _⟩ := h
  cases hl : n.live with
  | false => simp [h5 hl]
  | true => simp [(h6 hl).2]

theorem notify_pre {cur limit maxTip cover : Nat} {chain : List Block} {r : ConfReq}
    (hp : Pre cur (cur + 1) limit maxTip cover chain r) (hch : ∀ n ∈ r.ntfns, Chan n) :
    Pre (cur + 1) (cur + 1) limit maxTip cover chain (r.notify (cur + 1)) := by
  obtain ⟨g0, gd, gq⟩ := notifyUpdates_pre (height := cur + 1) hp hch
  unfold ConfReq.notify
  generalize r.notifyUpdates (cur + 1) = r1 at g0 gd gq
  simp only
  cases hd : r.details with
  | none =>
    rw [hd] at gq
    have hd1 : r1.details = none := by rw [gd, hd]
    have hnone : (r1.ntfns.any fun n => n.queuedAt.contains (cur + 1)) = false := by
      rw [List.any_eq_false]
      intro n hn
      have := (gq n hn).not_queued_dead (height := cur + 1)
      simpa using this
    unfold ConfReq.notifyDue
    simp only [hnone, Bool.not_false, ↓reduceIte]
    refine ⟨g0.congr rfl rfl rfl rfl rfl (fun _ => rfl) ?_, ?_⟩
    · intro c
      refine all_map (P := fun n => n.live = false) (fun n hn => ?_) c
      simpa [ConfNtfn.unqueue] using hn
    · simp only [hd1]
      exact all_map (P := Q1 cur limit none) (fun n hn => unqueue_core_none hn.1) gq
  | some d =>
    rw [hd] at gq
    have hd1 : r1.details = some d := by rw [gd, hd]
    have hset : r1.set = true := by
      cases hs : r1.set with
      | true => rfl
      | false => have := (g0.unset hs).1; rw [hd1] at this; cases this
    -- every client ends up as `unqueue (confirmAt n)`
    have hfinal : ∀ n ∈ r1.ntfns,
        Core (cur + 1) limit (some d) ((n.confirmAt d (cur + 1)).unqueue (cur + 1)) :=
      fun n hn => confirm_unqueue_core (gq n hn).1 (gq n hn).2
    unfold ConfReq.notifyDue
    split
    · -- nobody is due
      rename_i hnone
      have hnone' : ∀ n ∈ r1.ntfns, n.queuedAt.contains (cur + 1) = false := by
        have : (r1.ntfns.any fun n => n.queuedAt.contains (cur + 1)) = false := by simpa using hnone
        rw [List.any_eq_false] at this
        intro n hn; simpa using this n hn
      refine ⟨g0.congr rfl rfl rfl rfl rfl (fun _ => rfl) ?_, ?_⟩
      · intro c
        refine all_map (P := fun n => n.live = false) (fun n hn => ?_) c
        simpa [ConfNtfn.unqueue] using hn
      · simp only [hd1]
        intro m hm
        simp only [List.mem_map] at hm
        obtain ⟨n, hn, rfl⟩ := hm
        have := hfinal n hn
        rw [confirmAt_noop (hnone' n hn)] at this
        exact this
    · simp only [hset, hd1]
      have hnopanic : (r1.ntfns.any fun n =>
          n.queuedAt.contains (cur + 1) && !n.dispatched && n.closed) = false := by
        rw [List.any_eq_false]
        intro n hn
        obtain ⟨⟨h1, h2, h3, h4, h5, h6⟩, _⟩ := gq n hn
        cases hl : n.live with
        | false => simp [h5 hl]
        | true => simp [h4 hl]
      simp only [hnopanic, Bool.false_eq_true, ↓reduceIte]
      refine ⟨g0.congr rfl hset.symm hd1.symm rfl rfl (fun _ => rfl) ?_, ?_⟩
      · intro c m hm
        simp only [List.mem_map] at hm
        obtain ⟨n1, ⟨n, hn, rfl⟩, rfl⟩ := hm
        have := c n hn
        simp only [ConfNtfn.unqueue, ConfNtfn.confirmAt]
        split <;> simp [ConfNtfn.sendConfirmed, this] <;> (split <;> simp [this])
      · simp only [hd1]
        intro m hm
        simp only [List.mem_map] at hm
        obtain ⟨n1, ⟨n, hn, rfl⟩, rfl⟩ := hm
        exact hfinal n hn

/-! ## the invariant is inductive -/

def WInv (w : World) : Prop := RI w.cur w.limit w.maxTip w.cover w.chain w.r

theorem drainR_key (r : ConfReq) : (drainR r).key = r.key := rfl

theorem register_key (cur limit reg n hint : Nat) (r : ConfReq) :
    (r.register cur limit reg n hint).1.key = r.key := by
  unfold ConfReq.register ConfReq.registered ConfReq.addNtfn ConfReq.opened ConfReq.dispatchAll
  split <;> (try split) <;> (try split) <;> (try split) <;> simp_all

theorem cancel_key (reg : Nat) (r : ConfReq) : (r.cancel reg).key = r.key := by
  unfold ConfReq.cancel; split <;> rfl

theorem update_key (cur limit : Nat) (d : Option ConfDetails) (r : ConfReq) :
    (r.update cur limit d).1.key = r.key := by
  unfold ConfReq.update ConfReq.dispatchAll
  split <;> (try split) <;> (try split) <;> (try split) <;> (try split) <;> simp_all

theorem wstep_inv {w : World} {op : WOp} (h : WInv w) (hok : Ok w op) : WInv (wstep w op) := by
  unfold WInv at *
  cases op with
  | register reg n hint =>
    obtain ⟨h1, h2⟩ := hok
    exact drainR_RI (register_pre h h1 h2)
  | cancel reg => exact drainR_RI (cancel_pre h)
  | update d =>
    obtain ⟨a, b, hr, hok⟩ := hok
    simp only [wstep, hr]
    exact drainR_RI (update_pre h hok)
  | tip b =>
    have hc := connect_pre (b := b) h hok
    obtain ⟨hp, hch⟩ := drainR_RI hc
    exact drainR_RI (notify_pre hp hch)
  | untip =>
    obtain ⟨h1, h2⟩ := hok
    exact drainR_RI (disconnect_pre h h1 h2)

/-- a freshly started notifier at height `chain0.length` that knows nothing about request `key` -/
def World.init (key limit : Nat) (chain0 : List Block) : World :=
  { cur := chain0.length, limit := limit, depth := 0, r := { key := key }, chain := chain0,
    maxTip := chain0.length, cover := chain0.length + 1 }

theorem init_inv (key limit : Nat) (chain0 : List Block) (hv : Valid chain0 key) :
    WInv (World.init key limit chain0) := by
  refine ⟨⟨⟨rfl, Nat.le_refl _, hv, rfl, fun _ => ⟨rfl, rfl, fun n hn => by simp [World.init] at hn⟩,
    fun d hd => by simp [World.init] at hd, fun _ => rfl, fun hs => by simp [World.init] at hs⟩,
    fun n hn => by simp [World.init] at hn⟩, fun n hn => by simp [World.init] at hn⟩

/-- operation lists whose every operation satisfies the environment assumptions -/
def OkRun : World → List WOp → Prop
  | _, [] => True
  | w, op :: rest => Ok w op ∧ OkRun (wstep w op) rest

theorem run_inv {w : World} {ops : List WOp} (h : WInv w) (hok : OkRun w ops) :
    WInv (ops.foldl wstep w) := by
  induction ops generalizing w with
  | nil => exact h
  | cons op rest ih => exact ih (wstep_inv h hok.1) hok.2

/-! ## consequences -/

/-- only-if: a client that holds a confirmation (delivered, not retracted) — the request's details
    name a block of the ACTIVE chain that contains the transaction. -/
theorem inv_sound {w : World} (h : WInv w) {n : ConfNtfn} (hn : n ∈ w.r.ntfns)
    (hl : n.live = true) (hd : n.dispatched = true) :
    ∃ d, w.r.details = some d ∧ OnChain w.chain w.r.key d := by
  obtain ⟨⟨h0, hcl⟩, _⟩ := h
  have hc := (hcl n hn).2.2.2.2.2 hl
  cases hdet : w.r.details with
  | none => rw [hdet] at hc; rw [hc.1] at hd; cases hd
  | some d => exact ⟨d, rfl, (h0.det d hdet).1⟩

/-- if: the transaction is on the active chain at height `h`, the request has examined that
    height (`cover ≤ h`), and it has `numConfs` confirmations — then every live client holds the
    confirmation, with details at that height. -/
theorem inv_complete {w : World} (h : WInv w) (hs : w.r.set = true) {hh : Nat} {b : Block}
    (h1 : 1 ≤ hh) (hb : w.chain[hh - 1]? = some b) (hhas : b.has w.r.key) (hcov : w.cover ≤ hh)
    {n : ConfNtfn} (hn : n ∈ w.r.ntfns) (hl : n.live = true) (hdeep : hh + n.numConfs ≤ w.cur + 1) :
    n.dispatched = true ∧ ∃ d, w.r.details = some d ∧ d.height = hh ∧ OnChain w.chain w.r.key d := by
  obtain ⟨⟨h0, hcl⟩, _⟩ := h
  cases hdet : w.r.details with
  | none => exact absurd hhas (h0.cov hs hdet hh b hcov h1 hb)
  | some d =>
    obtain ⟨hon, _, _⟩ := h0.det d hdet
    obtain ⟨bd, hbd, hbdhas⟩ := hon.has
    have heq := h0.valid (hh - 1) (d.height - 1) b bd hb hbd hhas hbdhas
    have hle := hon.le
    have hdh : d.height = hh := by omega
    have hc := (hcl n hn).2.2.2.2.2 hl
    rw [hdet] at hc
    refine ⟨?_, d, rfl, hdh, hon⟩
    cases hdd : n.dispatched with
    | true => rfl
    | false => have := (hc.2 hdd).2; omega

/-- a client that does not hold a confirmation is queued exactly at its confirmation height,
    which has not been reached yet (so it will be dispatched by that height's `NotifyHeight`). -/
theorem inv_queued {w : World} (h : WInv w) {n : ConfNtfn} (hn : n ∈ w.r.ntfns)
    (hl : n.live = true) {d : ConfDetails} (hdet : w.r.details = some d) (hd : n.dispatched = false) :
    n.queuedAt = [d.height + n.numConfs - 1] ∧ w.cur < d.height + n.numConfs - 1 := by
  obtain ⟨⟨h0, hcl⟩, _⟩ := h
  have hc := (hcl n hn).2.2.2.2.2 hl
  rw [hdet] at hc
  exact hc.2 hd

/-- no send ever blocks and nothing panics -/
theorem inv_live {w : World} (h : WInv w) :
    w.r.panicked = false ∧ ∀ n ∈ w.r.ntfns, n.stuck = false :=
  ⟨h.1.1.nopanic, fun n hn => (h.1.2 n hn).1⟩

end LndModel.C14
