/-
C14 driver, stream `tracker`: replays the trace of zz_c14_tracker_verif_test.go.

(X) the model (`TrackerModel.lean`: epochs are queued by `send`, the tracker settles at `sync`)
    must report the same view as the real `BestBlockTracker` at every `sync`, and the same
    results for Start/Stop.
(S) the monitor never looks at the model: it rebuilds the active chain from the `base`/`conn`/
    `disc` lines and remembers the last `send` line; at every `sync` of a running tracker the view
    must be the last epoch delivered (`view_last_epoch`), which — when no block has been
    disconnected since it was connected — is the tip of the active chain (`view_active_tip`), and
    height and header must belong to the same epoch (`view_height_header`).
-/
import LndModel.Prelude.Lines
import LndModel.C14.TrackerModel

open LndModel LndModel.Lines LndModel.C14.Tracker

namespace LndModel.C14.TrackerDriver

structure St where
  caseId : String := "?"
  inCase : Bool := false
  -- model
  m : TState := { running := false }
  started : Bool := false
  stopped : Bool := false
  cancels : Nat := 0
  -- monitor: active chain (height, block id), tip last
  chain : List (Nat × Nat) := []
  lastSent : Option (Nat × Nat) := none
  /-- every epoch sent to the current tracker since the last sync -/
  burst : List (Nat × Nat) := []
  /-- the last chain event was a connect whose epoch has been sent -/
  tipSent : Bool := false
  running : Bool := false
  -- counters
  lines : Nat := 0
  cases : Nat := 0
  ops : Nat := 0
  syncs : Nat := 0
  cLast : Nat := 0
  cTip : Nat := 0
  cBacklog : Nat := 0
  cSameHeight : Nat := 0
  cLowerThanStale : Nat := 0
  cNone : Nat := 0
  timeouts : Nat := 0
  mismatches : Nat := 0
  monitorFails : Nat := 0
  sampled : Nat := 0

def mismatch (s : St) (msg : String) : IO St := do
  if s.mismatches < 40 then IO.println s!"MISMATCH case={s.caseId} {msg}"
  return { s with mismatches := s.mismatches + 1 }

def monitor (s : St) (clause msg : String) : IO St := do
  if s.monitorFails < 40 then IO.println s!"MONITOR case={s.caseId} clause={clause} {msg}"
  return { s with monitorFails := s.monitorFails + 1 }

def renderView : Option Epoch → String
  | none => "none"
  | some e => s!"h={e.height} b={e.block} hh={e.height}"

def okErr (b : Bool) : String := if b then "ok" else "err"

def step (s : St) (line : String) : IO St := do
  let s := { s with lines := s.lines + 1 }
  let ws := words line
  match ws with
  | "CASE" :: id :: _ =>
    return { s with caseId := id, inCase := true, cases := s.cases + 1, chain := [],
                    m := { running := false }, started := false, stopped := false, cancels := 0,
                    lastSent := none, burst := [], tipSent := false, running := false }
  | ["END"] => return { s with inCase := false }
  | "HSTAT" :: _ => return s
  | "FACT" :: _ => return s
  | "base" :: rest =>
    match kvNat? rest "h", kvNat? rest "b" with
    | some h, some b => return { s with chain := [(h, b)], tipSent := true }
    | _, _ => mismatch s s!"unparsable line: {line}"
  | ["new"] =>
    return { s with m := { running := false }, started := false, stopped := false, cancels := 0,
                    lastSent := none, burst := [], running := false, ops := s.ops + 1 }
  | "conn" :: rest =>
    match kvNat? rest "h", kvNat? rest "b", kvNat? rest "prev" with
    | some h, some b, some p =>
      let s := { s with ops := s.ops + 1 }
      match s.chain.getLast? with
      | some (th, tb) =>
        if tb != p || th + 1 != h then mismatch s s!"harness chain broken at: {line}"
        else return { s with chain := s.chain ++ [(h, b)], tipSent := false }
      | none => mismatch s s!"conn without base: {line}"
    | _, _, _ => mismatch s s!"unparsable line: {line}"
  | "disc" :: rest =>
    match kvNat? rest "h", kvNat? rest "b" with
    | some h, some b =>
      let s := { s with ops := s.ops + 1 }
      match s.chain.getLast? with
      | some (th, tb) =>
        if tb != b || th != h || s.chain.length < 2 then mismatch s s!"harness chain broken at: {line}"
        else return { s with chain := s.chain.dropLast, tipSent := false }
      | none => mismatch s s!"disc without base: {line}"
    | _, _ => mismatch s s!"unparsable line: {line}"
  | "send" :: rest =>
    match kvNat? rest "h", kvNat? rest "b" with
    | some h, some b =>
      let tipSent := s.chain.getLast? == some (h, b)
      return { s with m := tstep s.m (.send ⟨h, b⟩), lastSent := some (h, b),
                      burst := s.burst ++ [(h, b)], tipSent := tipSent, ops := s.ops + 1 }
    | _, _ => mismatch s s!"unparsable line: {line}"
  | "start" :: "=>" :: res =>
    let s := { s with ops := s.ops + 1 }
    let exp := okErr (!s.started)
    let s ← if " ".intercalate res != exp then
        mismatch s s!"Start: model {exp}, implementation {" ".intercalate res}" else pure s
    if s.started then return s
    return { s with started := true, running := true, m := { s.m with running := true } }
  | "stop" :: "=>" :: res =>
    let s := { s with ops := s.ops + 1 }
    let can := s.started && !s.stopped
    let cancels := if can then s.cancels + 1 else s.cancels
    let exp := s!"{okErr can} cancel={cancels}"
    let s ← if " ".intercalate res != exp then
        mismatch s s!"Stop: model {exp}, implementation {" ".intercalate res}" else pure s
    if !can then return s
    return { s with stopped := true, running := false, cancels := cancels, m := tstep s.m .stop }
  | "sync" :: "=>" :: res =>
    let s := { s with ops := s.ops + 1, syncs := s.syncs + 1 }
    let timeout := res.contains "timeout=1"
    let res := res.filter (· != "timeout=1")
    let got := " ".intercalate res
    let s := if timeout then { s with timeouts := s.timeouts + 1 } else s
    -- (X) model
    let m := settle s.m
    let s := { s with m := m }
    let s ← if renderView (view m) != got then
        mismatch s s!"view: model {renderView (view m)}, implementation {got}" else pure s
    -- (S) monitor
    let s ← if !s.running then pure s else
      match s.lastSent with
      | none =>
        let s := { s with cNone := s.cNone + 1 }
        if got != "none" then
          monitor s "view_last_epoch" s!"no epoch has been delivered but the view reports {got}"
        else pure s
      | some (lh, lb) =>
        let s := { s with cLast := s.cLast + 1 }
        let gh := kvNat? res "h"
        let gb := kvNat? res "b"
        let ghh := kvNat? res "hh"
        let s ← if gh != some lh || gb != some lb then
            monitor s "view_last_epoch"
              s!"view reports {got} but the last epoch delivered is h={lh} b={lb} (burst {s.burst})"
          else pure s
        let s ← if got != "none" && gh != ghh then
            monitor s "view_height_header" s!"BestHeight and BestBlockHeader disagree: {got}"
          else pure s
        let s ← if s.tipSent then
            match s.chain.getLast? with
            | some (th, tb) =>
              let s := { s with cTip := s.cTip + 1 }
              if gh != some th || gb != some tb then
                monitor s "view_active_tip"
                  s!"view reports {got} but the tip of the active chain is h={th} b={tb} (chain {s.chain.drop (s.chain.length - 4)})"
              else pure s
            | none => pure s
          else pure s
        -- input distribution
        let older := s.burst.dropLast
        let s := if s.burst.length ≥ 2 then { s with cBacklog := s.cBacklog + 1 } else s
        let s := if older.any (fun p => p.1 == lh && p.2 != lb) then
            { s with cSameHeight := s.cSameHeight + 1 } else s
        let s := if older.any (fun p => p.1 > lh) then
            { s with cLowerThanStale := s.cLowerThanStale + 1 } else s
        pure s
    let s ← if s.sampled < 2 && s.burst.length ≥ 3 then do
        IO.println s!"SAMPLE tracker case={s.caseId} burst={s.burst} view={got}"
        pure { s with sampled := s.sampled + 1 }
      else pure s
    return { s with burst := [] }
  | [] => return s
  | _ => mismatch s s!"unknown line: {line}"

def main : IO Unit := do
  let s ← LndModel.Lines.foldStdin step {}
  IO.println s!"STAT lines={s.lines}"
  IO.println s!"STAT cases={s.cases}"
  IO.println s!"STAT evaluations={s.ops}"
  IO.println s!"STAT nontrivial={s.cLast + s.cTip}"
  IO.println s!"STAT tracker_syncs={s.syncs}"
  IO.println s!"STAT chk_view_is_last_epoch={s.cLast}"
  IO.println s!"STAT chk_view_is_active_tip={s.cTip}"
  IO.println s!"STAT chk_view_none_before_first={s.cNone}"
  IO.println s!"STAT tracker_syncs_after_backlog={s.cBacklog}"
  IO.println s!"STAT tracker_backlog_same_height_replacement={s.cSameHeight}"
  IO.println s!"STAT tracker_backlog_new_tip_lower_than_stale={s.cLowerThanStale}"
  IO.println s!"STAT tracker_sync_timeouts={s.timeouts}"
  IO.println s!"STAT mismatches={s.mismatches}"
  IO.println s!"STAT monitor_failures={s.monitorFails}"

end LndModel.C14.TrackerDriver
