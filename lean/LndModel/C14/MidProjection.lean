/-
C14 — part 8: the fine operation language on the GLOBAL notifier model.

`FGOp` = the operations of the notifier itself with `ConnectTip` and `NotifyHeight` separate
(any number of confirmation and spend requests, clients reading after every call).  The record of
confirmation request `k` after ANY `FGOp` list equals the fine single-request world (`fstep`,
MidProps.lean) on the projected list (`fine_conf_projection`), so the theorems of parts 6/7 hold
for the global model with registrations, cancellations and rescan completions for ANY request
issued between `ConnectTip` and `NotifyHeight`.
-/
import LndModel.C14.MidDeliver
import LndModel.C14.Projection

namespace LndModel.C14

inductive FGOp where
  | regConf (key numConfs hint : Nat)
  | regSpend (key hint : Nat)
  | cancel (reg : Nat)
  | connect (b : Block)
  | notify
  | untip
  | updConf (key : Nat) (d : Option ConfDetails)
  | updSpend (key : Nat) (d : Option SpendDetails)

def fgstep (s : State) : FGOp → State
  | .regConf k n h => eager s (.regConf k n h)
  | .regSpend k h => eager s (.regSpend k h)
  | .cancel reg => eager s (.cancel reg)
  | .connect b => eager s (.connect (s.cur + 1) b)
  | .notify => eager s (.notify s.cur)
  | .untip => eager s (.disconnect s.cur)
  | .updConf k d => eager s (.updConf k d)
  | .updSpend k d => eager s (.updSpend k d)

/-- the macro operation of part 4 is `connect` followed by `notify` -/
theorem fgstep_tip (s : State) (b : Block) :
    fgstep (fgstep s (.connect b)) .notify = gstep s (.tip b) := by
  have : (eager s (.connect (s.cur + 1) b)).cur = s.cur + 1 := by
    simp [eager, State.drain, step]
  simp only [fgstep, gstep, this]

/-- the fine single-request operations that `g` amounts to for confirmation request `k` -/
def fopsOf (s : State) (k : Nat) : FGOp → List FOp
  | .regConf k' n h => if k' = k ∧ validC s n h = true then [.register s.nextReg n h] else []
  | .regSpend _ _ => []
  | .cancel reg => [.cancel reg]
  | .connect b => [.connect b]
  | .notify => [.notify]
  | .untip => [.untip]
  | .updConf k' d => if k' = k then [.update d] else []
  | .updSpend _ _ => []

theorem bridge_connect (s : State) (b : Block) :
    (eager s (.connect (s.cur + 1) b)).confs =
      s.confs.map (fun r => drainR (r.connect (s.cur + 1) s.limit b)) := by
  simp [eager, step, State.drain, drainR, List.map_map, Function.comp_def]

theorem bridge_notify (s : State) :
    (eager s (.notify s.cur)).confs = s.confs.map (fun r => drainR (r.notify s.cur)) := by
  simp [eager, step, State.drain, drainR, List.map_map, Function.comp_def]

theorem fcsim_step {s : State} {f : FWorld} {k : Nat} (g : FGOp) (h : CSim s f.w k) :
    CSim (fgstep s g) ((fopsOf s k g).foldl fstep f).w k := by
  cases g with
  | regConf k' n hint =>
    have := csim_step (.regConf k' n hint) h
    simp only [gstep, wopsOf] at this
    simp only [fgstep, fopsOf]
    split
    · rename_i hc; simp only [hc, and_self, ↓reduceIte, List.foldl_cons, List.foldl_nil] at this ⊢
      exact this
    · rename_i hc; simp only [hc, ↓reduceIte, List.foldl_nil] at this ⊢
      exact this
  | regSpend k' hint => exact csim_step (.regSpend k' hint) h
  | cancel reg => exact csim_step (.cancel reg) h
  | untip => exact csim_step .untip h
  | updConf k' d =>
    have := csim_step (.updConf k' d) h
    simp only [gstep, wopsOf] at this
    simp only [fgstep, fopsOf]
    split
    · rename_i hc; simp only [hc, ↓reduceIte, List.foldl_cons, List.foldl_nil] at this ⊢
      exact this
    · rename_i hc; simp only [hc, ↓reduceIte, List.foldl_nil] at this ⊢
      exact this
  | updSpend k' d => exact csim_step (.updSpend k' d) h
  | connect b =>
    simp only [fgstep, fopsOf, List.foldl_cons, List.foldl_nil, fstep]
    have hsc : (eager s (.connect (s.cur + 1) b)).cur = s.cur + 1 ∧
        (eager s (.connect (s.cur + 1) b)).limit = s.limit ∧
        (eager s (.connect (s.cur + 1) b)).reorgDepth = 0 := by
      simp [eager, State.drain, step]
    refine ⟨by rw [hsc.1]; show f.w.cur + 1 = _; rw [h.cur], by rw [hsc.2.1]; exact h.limit,
      by rw [hsc.2.2]; rfl, ?_, drainR_idem _⟩
    show drainR (f.w.r.connect (f.w.cur + 1) f.w.limit b) =
      (findC (eager s (.connect (s.cur + 1) b)).confs k).getD _
    rw [bridge_connect, cproj_map _ (fun r => drainR (r.connect (s.cur + 1) s.limit b))
      (fun r => by rw [drainR_key, connect_key]) k (by rw [connect_empty, drainR_empty])]
    rw [h.req, h.cur, h.limit]; rfl
  | notify =>
    simp only [fgstep, fopsOf, List.foldl_cons, List.foldl_nil, fstep]
    have hsc : (eager s (.notify s.cur)).cur = s.cur ∧
        (eager s (.notify s.cur)).limit = s.limit ∧
        (eager s (.notify s.cur)).reorgDepth = s.reorgDepth := by
      simp [eager, State.drain, step]
    refine ⟨by rw [hsc.1]; exact h.cur, by rw [hsc.2.1]; exact h.limit,
      by rw [hsc.2.2]; exact h.depth, ?_, drainR_idem _⟩
    show drainR (f.w.r.notify f.w.cur) = (findC (eager s (.notify s.cur)).confs k).getD _
    rw [bridge_notify, cproj_map _ (fun r => drainR (r.notify s.cur))
      (fun r => by rw [drainR_key, notify_key]) k (by rw [notify_empty, drainR_empty])]
    rw [h.req, h.cur]; rfl

def fopsRun (s : State) (k : Nat) : List FGOp → List FOp
  | [] => []
  | g :: t => fopsOf s k g ++ fopsRun (fgstep s g) k t

/-- `fine_conf_projection`: after ANY list of fine operations of the global model the record of
    confirmation request `k` is the record of the fine single-request world after the projected
    list. -/
theorem fine_conf_projection {s : State} {f : FWorld} {k : Nat} (gops : List FGOp)
    (h : CSim s f.w k) :
    CSim (gops.foldl fgstep s) ((fopsRun s k gops).foldl fstep f).w k := by
  induction gops generalizing s f with
  | nil => exact h
  | cons g t ih =>
    simp only [List.foldl_cons, fopsRun, List.foldl_append]
    exact ih (fcsim_step g h)

/-- the active chain after a fine operation list -/
def chainAfterF (chain : List Block) : List FGOp → List Block
  | [] => chain
  | .connect b :: t => chainAfterF (chain ++ [b]) t
  | .untip :: t => chainAfterF chain.dropLast t
  | _ :: t => chainAfterF chain t

theorem chain_fopsRun (s : State) (f : FWorld) (k : Nat) (gops : List FGOp) :
    ((fopsRun s k gops).foldl fstep f).w.chain = chainAfterF f.w.chain gops := by
  induction gops generalizing s f with
  | nil => rfl
  | cons g t ih =>
    simp only [fopsRun, List.foldl_append]
    rw [ih]
    cases g with
    | regConf k' n h => simp only [fopsOf]; split <;> rfl
    | regSpend k' h => rfl
    | cancel reg => rfl
    | connect b => rfl
    | notify => rfl
    | untip => rfl
    | updConf k' d => simp only [fopsOf]; split <;> rfl
    | updSpend k' d => rfl

/-- `conf_only_if_on_active_chain` for the global model and the fine operation language: in every
    state reached by fine operations (any number of requests; registrations, cancellations and
    rescan completions for any request between `ConnectTip` and `NotifyHeight`) whose projection
    to request `k` is admissible, a client of `k` whose history says "confirmed, not retracted" is
    backed by details on the ACTIVE chain, and the last `Confirmed` it read carries them. -/
theorem global_mid_conf_only_if_on_active_chain (k limit : Nat) (chain0 : List Block)
    (hv : Valid chain0 k) (gops : List FGOp)
    (hok : FOkRun (FWorld.init k limit chain0) (fopsRun (State.init chain0.length limit) k gops)) :
    let s := gops.foldl fgstep (State.init chain0.length limit)
    ∀ n ∈ (cproj s k).ntfns, n.live = true → holdsConf n.seen = true →
      ∃ d, (cproj s k).details = some d ∧ lastConfD n.seen = some d ∧
        OnChain (chainAfterF chain0 gops) k d := by
  intro s n hn hl hh
  have hsim := fine_conf_projection (f := FWorld.init k limit chain0) gops (csim_init k limit chain0)
  have hc : _ = chainAfterF chain0 gops :=
    chain_fopsRun (State.init chain0.length limit) (FWorld.init k limit chain0) k gops
  rw [← hsim.req] at hn ⊢
  obtain ⟨d, h1, h2, h3⟩ := mid_conf_only_if_on_active_chain k limit chain0 hv _ hok n hn hl hh
  exact ⟨d, h2, h1, by rw [← hc]; exact h3⟩

/-- `conf_depth` / `done_early` for the global model: whatever fine operation `g` the notifier
    executes next in such a state, every `Confirmed x` it sends to a client of request `k` names a
    block of the active chain after the call with at least `numConfs` confirmations, and a `Done`
    is only sent by `ConnectTip` to clients holding the confirmation. -/
theorem global_conf_delivered_deep (k limit : Nat) (chain0 : List Block)
    (hv : Valid chain0 k) (gops : List FGOp) (op : FOp)
    (hok : FOkRun (FWorld.init k limit chain0)
      (fopsRun (State.init chain0.length limit) k gops ++ [op])) :
    let f := (fopsRun (State.init chain0.length limit) k gops).foldl fstep (FWorld.init k limit chain0)
    f.w.r = cproj (gops.foldl fgstep (State.init chain0.length limit)) k ∧
    ∀ n ∈ (fpre f op).ntfns, n.closed = false →
      (∀ x ∈ n.confirmed, OnChain (fstep f op).w.chain k x ∧
        x.height + n.numConfs ≤ (fstep f op).w.cur + 1) ∧
      (n.done ≠ 0 → (∃ b, op = .connect b) ∧ n.dispatched = true) := by
  intro f
  have hsim := fine_conf_projection (f := FWorld.init k limit chain0) gops (csim_init k limit chain0)
  refine ⟨hsim.req, fun n hn hc => ?_⟩
  -- split the admissible run into the prefix and the last operation
  have hsplit : ∀ (f0 : FWorld) (l : List FOp), FOkRun f0 (l ++ [op]) →
      FOkRun f0 l ∧ FOk (l.foldl fstep f0) op := by
    intro f0 l
    induction l generalizing f0 with
    | nil => intro h; exact ⟨trivial, h.1⟩
    | cons a t ih =>
      intro h
      obtain ⟨h1, h2⟩ := ih (fstep f0 a) h.2
      exact ⟨⟨h.1, h1⟩, h2⟩
  obtain ⟨hpre, hop⟩ := hsplit _ _ hok
  have hinv : FInv f := frun_inv (finit_inv k limit chain0 hv) hpre
  have hk : f.w.r.key = k := frun_key _ _
  refine ⟨fun x hx => ?_, fun hd => ?_⟩
  · obtain ⟨_, e2, e3⟩ := conf_delivered_deep hinv hop n hn hc x hx
    exact ⟨by rw [← hk]; exact e2, e3⟩
  · obtain ⟨b, e1, _, _, e4, _⟩ := done_only_at_maturity hinv hop n hn hc hd
    exact ⟨⟨b, e1⟩, e4⟩

/-- two confirmation requests and a spend request; the registration of the second client of
    request 7 and a registration for request 3 fall between `ConnectTip(3)` and `NotifyHeight(3)` -/
def fgdemo : List FGOp :=
  [.regConf 7 2 1, .updConf 7 none, .regSpend 5 1,
   .connect ⟨11, [⟨7, []⟩]⟩, .notify,
   .connect ⟨12, []⟩, .regConf 7 1 1, .regConf 3 1 1, .notify,
   .untip, .untip, .connect ⟨13, [⟨3, []⟩, ⟨7, []⟩]⟩, .notify, .connect ⟨14, []⟩, .notify]

example : FOkRun (FWorld.init 7 4 demoChain0) (fopsRun (State.init demoChain0.length 4) 7 fgdemo) :=
  fokRunb_sound (by decide)

example :
    (cproj (fgdemo.foldl fgstep (State.init demoChain0.length 4)) 7).ntfns.map
      (fun n => (n.reg, n.seen.filter (fun e => match e with | .upd _ => false | _ => true))) =
    [(0, [.conf ⟨2, 11, 0⟩, .neg 2, .conf ⟨2, 13, 1⟩]),
     (2, [.conf ⟨2, 11, 0⟩, .neg 2, .conf ⟨2, 13, 1⟩])] := by decide

end LndModel.C14
