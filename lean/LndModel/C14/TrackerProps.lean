/-
C14 — property theorems about `BestBlockTracker` (the `BestBlockView` consumers read):
the view is the LAST epoch the notifier delivered — the active chain tip — whatever the schedule of
notifier sends and tracker receives, i.e. however the epochs are batched into queued bursts; it is
never an earlier (stale) epoch, even when the newest tip has the same or a lower height than an
earlier one (same-height tip replacement, reorg onto a shorter-so-far branch).

Two variants of the update loop ("skip an epoch of equal height", "drain the backlog keeping the
greatest height") are shown to violate the statement on concrete schedules.
-/
import LndModel.C14.TrackerModel

namespace LndModel.C14.Tracker

/-- everything the tracker has stored or still has to consume, oldest first -/
def allEpochs (s : TState) : List Epoch := s.current.toList ++ s.queue

def noStop (ops : List TOp) : Prop := ∀ op ∈ ops, op ≠ .stop

theorem getLast?_append_cons {α : Type} (l : List α) (a : α) (t : List α) :
    (l ++ a :: t).getLast? = (a :: t).getLast? := by
  induction l with
  | nil => rfl
  | cons x l ih =>
    cases l with
    | nil => simp [List.getLast?_cons_cons]
    | cons y l => simpa [List.getLast?_cons_cons] using ih

theorem tstep_running {s : TState} {op : TOp} (hr : s.running = true) (hop : op ≠ .stop) :
    (tstep s op).running = true := by
  cases op with
  | send e => exact hr
  | recv =>
    simp only [tstep, hr, Bool.not_true, Bool.false_eq_true, ↓reduceIte]
    split <;> simp [hr]
  | stop => exact absurd rfl hop

/-- one step: the newest epoch "in the system" is the newest one sent -/
theorem tstep_last {s : TState} {op : TOp} (hr : s.running = true) (hop : op ≠ .stop) :
    (allEpochs (tstep s op)).getLast? = (allEpochs s ++ sentOf [op]).getLast? := by
  cases op with
  | send e => simp [tstep, allEpochs, sentOf]
  | recv =>
    simp only [tstep, hr, Bool.not_true, Bool.false_eq_true, ↓reduceIte, sentOf, List.append_nil]
    cases hq : s.queue with
    | nil => simp [allEpochs, hq]
    | cons e q =>
      simp only [allEpochs, hq, store, Option.toList_some]
      rw [getLast?_append_cons]
      rfl
  | stop => exact absurd rfl hop

theorem sentOf_cons (op : TOp) (t : List TOp) : sentOf (op :: t) = sentOf [op] ++ sentOf t := by
  cases op <;> simp [sentOf]

theorem getLast?_append_congr {α : Type} {l l' : List α} (m : List α)
    (h : l.getLast? = l'.getLast?) : (l ++ m).getLast? = (l' ++ m).getLast? := by
  cases m with
  | nil => simpa using h
  | cons a t => rw [getLast?_append_cons, getLast?_append_cons]

/-- INVARIANT over all schedules: the newest of (stored epoch, queued epochs) is the newest epoch
    sent so far -/
theorem trun_last {s : TState} (ops : List TOp) (hr : s.running = true) (hns : noStop ops) :
    (trun s ops).running = true ∧
    (allEpochs (trun s ops)).getLast? = (allEpochs s ++ sentOf ops).getLast? := by
  induction ops generalizing s with
  | nil => simp [trun, sentOf, hr]
  | cons op t ih =>
    have hop : op ≠ .stop := hns op (by simp)
    have ht : noStop t := fun o ho => hns o (by simp [ho])
    obtain ⟨h1, h2⟩ := ih (s := tstep s op) (tstep_running hr hop) ht
    refine ⟨h1, ?_⟩
    show (allEpochs (trun (tstep s op) t)).getLast? = _
    rw [h2, sentOf_cons, ← List.append_assoc]
    exact getLast?_append_congr _ (tstep_last hr hop)

/-- `view_is_last_delivered`: for EVERY schedule of notifier sends and tracker receives, at every
    quiescent point (nothing queued) the view is the last epoch the notifier sent — never an
    earlier one, whatever the heights. (Every prefix of a schedule is a schedule, so this holds at
    each intermediate quiescent point as well.) -/
theorem view_is_last_delivered (ops : List TOp) (hns : noStop ops)
    (hq : (trun {} ops).queue = []) (hne : sentOf ops ≠ []) :
    view (trun {} ops) = (sentOf ops).getLast? := by
  obtain ⟨_, h⟩ := trun_last (s := {}) ops rfl hns
  simp only [allEpochs, hq, List.append_nil, Option.toList_none, List.nil_append] at h
  unfold view
  cases hc : (trun {} ops).current with
  | none =>
    rw [hc] at h
    cases hs : sentOf ops with
    | nil => exact absurd hs hne
    | cons a t => rw [hs] at h; simp at h; exact absurd h.symm (by simp [List.getLast?_eq_none_iff])
  | some e => rw [hc] at h; simpa using h

/-- nothing sent yet: the view answers "not yet known" -/
theorem view_none_before_first (ops : List TOp) (hns : noStop ops) (hne : sentOf ops = []) :
    view (trun {} ops) = none := by
  obtain ⟨_, h⟩ := trun_last (s := {}) ops rfl hns
  simp only [allEpochs, hne, List.append_nil, Option.toList_none] at h
  unfold view
  cases hc : (trun {} ops).current with
  | none => rfl
  | some e =>
    rw [hc] at h
    have : (e :: (trun {} ops).queue).getLast? = none := by simp at h
    simp [List.getLast?_eq_none_iff] at this

/-! ### the same in "batching" form -/

theorem settle_aux (n : Nat) (s : TState) (hr : s.running = true) (hn : s.queue.length = n) :
    (trun s (List.replicate n .recv)).queue = [] ∧
    (trun s (List.replicate n .recv)).running = true ∧
    (trun s (List.replicate n .recv)).current = (s.current.toList ++ s.queue).getLast? := by
  induction n generalizing s with
  | zero =>
    have hq : s.queue = [] := List.eq_nil_of_length_eq_zero hn
    refine ⟨hq, hr, ?_⟩
    simp only [List.replicate_zero, trun, List.foldl_nil, hq, List.append_nil]
    cases s.current <;> rfl
  | succ n ih =>
    cases hq : s.queue with
    | nil => rw [hq] at hn; cases hn
    | cons e q =>
      have hstep : tstep s .recv = { s with current := some e, queue := q } := by
        simp [tstep, hr, hq, store]
      simp only [List.replicate_succ, trun, List.foldl_cons, hstep]
      obtain ⟨a, b, c⟩ := ih { s with current := some e, queue := q } hr
        (by rw [hq] at hn; simpa using hn)
      refine ⟨a, b, ?_⟩
      simp only [trun] at c
      rw [c]
      simp only [Option.toList_some, List.singleton_append]
      rw [getLast?_append_cons]

theorem send_all (s : TState) (b : List Epoch) :
    trun s (b.map .send) = { s with queue := s.queue ++ b } := by
  induction b generalizing s with
  | nil => simp [trun]
  | cons e t ih =>
    simp only [List.map_cons, trun, List.foldl_cons, tstep]
    have := ih { s with queue := s.queue ++ [e] }
    simp only [trun] at this
    rw [this]; simp

/-- a burst: the notifier queues the epochs of `b`, then the tracker consumes all of them -/
def burst (s : TState) (b : List Epoch) : TState := settle (trun s (b.map .send))

theorem burst_spec (s : TState) (b : List Epoch) (hr : s.running = true) (hq : s.queue = []) :
    (burst s b).queue = [] ∧ (burst s b).running = true ∧
    (burst s b).current = (s.current.toList ++ b).getLast? := by
  unfold burst settle
  rw [send_all]
  have := settle_aux (s.queue ++ b).length { s with queue := s.queue ++ b } hr rfl
  simpa [hq] using this

/-- `view_independent_of_batching`: for every epoch list and EVERY way of cutting it into queued
    bursts, the final view is the last epoch of the list (the view after each burst is the last
    epoch delivered so far: apply the theorem to the prefix). -/
theorem view_independent_of_batching (bursts : List (List Epoch)) :
    view (bursts.foldl burst {}) = bursts.flatten.getLast? := by
  have key : ∀ (bs : List (List Epoch)) (s : TState), s.running = true → s.queue = [] →
      (bs.foldl burst s).current = (s.current.toList ++ bs.flatten).getLast? := by
    intro bs
    induction bs with
    | nil => intro s _ _; cases hc : s.current <;> simp [hc]
    | cons b t ih =>
      intro s hr hq
      obtain ⟨a1, a2, a3⟩ := burst_spec s b hr hq
      rw [List.foldl_cons, ih _ a2 a1, a3, List.flatten_cons, ← List.append_assoc]
      apply getLast?_append_congr
      cases hx : (s.current.toList ++ b).getLast? with
      | none => simp
      | some e => simp
  have := key bursts {} rfl rfl
  simpa [view] using this

/-! ### tie to the active chain -/

theorem epochsOf_append (c : List Nat) (h h' : List ChainOp) :
    epochsOf c (h ++ h') = epochsOf c h ++ epochsOf (chainAfter c h) h' := by
  induction h generalizing c with
  | nil => rfl
  | cons op t ih => cases op <;> simp [epochsOf, chainAfter, ih]

theorem chainAfter_append (c : List Nat) (h h' : List ChainOp) :
    chainAfter c (h ++ h') = chainAfter (chainAfter c h) h' := by
  induction h generalizing c with
  | nil => rfl
  | cons op t ih => cases op <;> simp [chainAfter, ih]

/-- `view_is_active_tip`: the notifier emits one epoch per connected block; after any chain
    history (connects, disconnects to any depth, reconnects — including a new tip at the same or a
    lower height than an earlier one) whose last event is a connect, and ANY schedule that
    delivers those epochs and lets the tracker catch up, the view names the tip of the ACTIVE
    chain: its height is the chain length and its block is the last block. -/
theorem view_is_active_tip (c0 : List Nat) (h : List ChainOp) (b : Nat) (ops : List TOp)
    (hns : noStop ops) (hsent : sentOf ops = epochsOf c0 (h ++ [.connect b]))
    (hq : (trun {} ops).queue = []) :
    let chain := chainAfter c0 (h ++ [.connect b])
    view (trun {} ops) = some ⟨chain.length, b⟩ ∧ chain.getLast? = some b := by
  have he : epochsOf c0 (h ++ [.connect b]) =
      epochsOf c0 h ++ [⟨(chainAfter c0 h).length + 1, b⟩] := by
    rw [epochsOf_append]; rfl
  have hc : chainAfter c0 (h ++ [.connect b]) = chainAfter c0 h ++ [b] := by
    rw [chainAfter_append]; rfl
  have hv := view_is_last_delivered ops hns hq (by rw [hsent, he]; simp)
  rw [hsent, he] at hv
  simp only [hc]
  exact ⟨by rw [hv]; simp, by simp⟩

/-! ### non-vacuity and the two counter-models -/

/-- tip 101a is replaced by 101b (same height); three blocks of a stale branch and two of the
    new one are found queued in one burst -/
example : view ([[⟨100, 1⟩, ⟨101, 2⟩], [⟨101, 5⟩], [⟨102, 3⟩, ⟨103, 4⟩, ⟨101, 5⟩, ⟨102, 6⟩]].foldl burst {})
    = some ⟨102, 6⟩ := by decide

example : noStop [.send ⟨101, 2⟩, .recv, .send ⟨101, 5⟩, .recv] := by
  intro op hop; simp at hop; rcases hop with rfl | rfl | rfl | rfl <;> simp

/-- a loop that skips an epoch whose height equals the stored tip's height keeps reporting the
    replaced block after a same-height tip replacement 101a → 101b: the conclusion of
    `view_is_last_delivered` is false for that loop -/
theorem skip_equal_height_violates :
    let ops : List TOp := [.send ⟨101, 2⟩, .recv, .send ⟨101, 5⟩, .recv]
    let s := ops.foldl tstepSkipEq {}
    s.queue = [] ∧ view s = some ⟨101, 2⟩ ∧ (sentOf ops).getLast? = some ⟨101, 5⟩ ∧
      view s ≠ (sentOf ops).getLast? := by decide

/-- a loop that coalesces the queued backlog keeping the greatest height reports the stale 103a
    when the backlog [103a, 101b, 102b] spans a reorg -/
theorem keep_max_height_violates :
    let ops : List TOp := [.send ⟨103, 4⟩, .send ⟨101, 5⟩, .send ⟨102, 6⟩, .recv]
    let s := ops.foldl tstepMax {}
    s.queue = [] ∧ view s = some ⟨103, 4⟩ ∧ (sentOf ops).getLast? = some ⟨102, 6⟩ ∧
      view s ≠ (sentOf ops).getLast? := by decide

/-- the real loop on the same two schedules -/
example : view (trun {} [.send ⟨101, 2⟩, .recv, .send ⟨101, 5⟩, .recv]) = some ⟨101, 5⟩ := by decide
example : view (trun {} [.send ⟨103, 4⟩, .send ⟨101, 5⟩, .send ⟨102, 6⟩, .recv, .recv, .recv])
    = some ⟨102, 6⟩ := by decide

/-- a chain history with a reorg to a shorter-so-far branch, satisfying the hypotheses of
    `view_is_active_tip` -/
example :
    let h : List ChainOp := [.connect 2, .connect 3, .connect 4, .disconnect, .disconnect, .disconnect, .connect 5]
    epochsOf [1] (h ++ [.connect 6]) = [⟨2, 2⟩, ⟨3, 3⟩, ⟨4, 4⟩, ⟨2, 5⟩, ⟨3, 6⟩] ∧
    chainAfter [1] (h ++ [.connect 6]) = [1, 5, 6] := by decide

end LndModel.C14.Tracker
