/-
C14 — property theorems, part 1 (histories; no assumption on the operation list).

`eager s op` = one notifier operation (`step`) followed by every client emptying
its channels (`State.drain`, which appends what was read to the client's ghost
history `seen`).  The theorems quantify over ALL operation lists — including
out-of-order connects, missing `NotifyHeight`, lying rescans, cancellations —
and over all registrations of all requests.

Part 2 (`LndModel.C14.Chain`) relates what is delivered to the active chain.
-/
import LndModel.C14.Lemmas

namespace LndModel.C14

/-- In a confirmation client's history, between two `Confirmed` events there is a
    `NegativeConf`. -/
def NoDoubleConf (l : List CEv) : Prop :=
  ∀ l1 l2 l3 d1 d2, l = l1 ++ CEv.conf d1 :: (l2 ++ CEv.conf d2 :: l3) → ∃ x, CEv.neg x ∈ l2

/-- In a spend client's history, between two `Spend` events there is a `Reorg`. -/
def NoDoubleSpend (l : List SEv) : Prop :=
  ∀ l1 l2 l3 d1 d2, l = l1 ++ SEv.spend d1 :: (l2 ++ SEv.spend d2 :: l3) → SEv.reorg ∈ l2

/-- the belief a client is left with: `true` iff the last of its `Confirmed`/`NegativeConf`
    events is a `Confirmed` ("confirmed has been delivered and not since retracted"). -/
def holdsConf (l : List CEv) : Bool :=
  l.foldl (fun b e => match e with | .conf _ => true | .neg _ => false | _ => b) false

def holdsSpend (l : List SEv) : Bool :=
  l.foldl (fun b e => match e with | .spend _ => true | .reorg => false | _ => b) false

theorem noDoubleConf_of_okFrom {b b' : Bool} {l : List CEv} (h : okFrom b l = some b') :
    NoDoubleConf l := by
  intro l1 l2 l3 d1 d2 hl
  refine Classical.byContradiction fun hne => ?_
  have hno : ∀ x, CEv.neg x ∉ l2 := fun x hx => hne ⟨x, hx⟩
  rw [hl, okFrom_append] at h
  cases h1 : okFrom b l1 with
  | none => simp [h1] at h
  | some b1 =>
    simp only [h1, Option.bind_some, okFrom] at h
    split at h
    · cases h
    · rw [okFrom_true_noneg l2 l3 d2 hno] at h; cases h

theorem noDoubleSpend_of_okFromS {b b' : Bool} {l : List SEv} (h : okFromS b l = some b') :
    NoDoubleSpend l := by
  intro l1 l2 l3 d1 d2 hl
  refine Classical.byContradiction fun hne => ?_
  rw [hl, okFromS_append] at h
  cases h1 : okFromS b l1 with
  | none => simp [h1] at h
  | some b1 =>
    simp only [h1, Option.bind_some, okFromS] at h
    split at h
    · cases h
    · rw [okFromS_true_noreorg l2 l3 d2 hne] at h; cases h

theorem holds_of_okFrom {b b' : Bool} {l : List CEv} (h : okFrom b l = some b') :
    b' = l.foldl (fun b e => match e with | .conf _ => true | .neg _ => false | _ => b) b := by
  induction l generalizing b with
  | nil => simpa [okFrom] using h.symm
  | cons x t ih =>
    cases x with
    | conf d =>
      simp only [okFrom] at h
      split at h
      · cases h
      · simpa using ih h
    | neg y => simpa [okFrom] using ih (by simpa [okFrom] using h)
    | upd u => simpa [okFrom] using ih (by simpa [okFrom] using h)
    | done => simpa [okFrom] using ih (by simpa [okFrom] using h)

theorem holds_of_okFromS {b b' : Bool} {l : List SEv} (h : okFromS b l = some b') :
    b' = l.foldl (fun b e => match e with | .spend _ => true | .reorg => false | _ => b) b := by
  induction l generalizing b with
  | nil => simpa [okFromS] using h.symm
  | cons x t ih =>
    cases x with
    | spend d =>
      simp only [okFromS] at h
      split at h
      · cases h
      · simpa using ih h
    | reorg => simpa [okFromS] using ih (by simpa [okFromS] using h)
    | done => simpa [okFromS] using ih (by simpa [okFromS] using h)

/-- a freshly created notifier -/
def State.init (start limit : Nat) : State := { cur := start, limit := limit }

theorem init_B (start limit : Nat) : (State.init start limit).AllB :=
  ⟨fun r hr => by simp [State.init] at hr, fun r hr => by simp [State.init] at hr⟩

/-- `dispatch_once` / first half of `reorg_notice_before_reconfirm`: whatever the operation
    list, no confirmation client is ever handed two `Confirmed` without a `NegativeConf` in
    between (across connect / disconnect / reconnect of the confirmation-height block,
    re-registrations, rescan completions, …). -/
theorem dispatch_once (start limit : Nat) (ops : List Op) :
    ∀ r ∈ (ops.foldl eager (State.init start limit)).confs, ∀ n ∈ r.ntfns, NoDoubleConf n.seen := by
  intro r hr n hn
  obtain ⟨b, hb, _⟩ := (run_B ops (init_B start limit)).1 r hr n hn
  exact noDoubleConf_of_okFrom hb

/-- the notifier's `dispatched` flag of a client that has not cancelled is exactly
    "confirmed has been delivered and not since retracted". -/
theorem dispatched_iff_history (start limit : Nat) (ops : List Op) :
    ∀ r ∈ (ops.foldl eager (State.init start limit)).confs, ∀ n ∈ r.ntfns,
      n.closed = false → n.dispatched = holdsConf n.seen := by
  intro r hr n hn hc
  obtain ⟨b, hb, hcl⟩ := (run_B ops (init_B start limit)).1 r hr n hn
  obtain ⟨_, _, hbd⟩ := hcl hc
  rw [← hbd]; exact holds_of_okFrom hb

/-- `spend_analogue` of `dispatch_once`: no spend client is handed two `Spend` without a
    `Reorg` in between (incl. replacement by a conflicting spend after a reorg). -/
theorem spend_dispatch_once (start limit : Nat) (ops : List Op) :
    ∀ r ∈ (ops.foldl eager (State.init start limit)).spends, ∀ n ∈ r.ntfns,
      NoDoubleSpend n.seen := by
  intro r hr n hn
  obtain ⟨b, hb, _⟩ := (run_B ops (init_B start limit)).2 r hr n hn
  exact noDoubleSpend_of_okFromS hb

theorem spend_dispatched_iff_history (start limit : Nat) (ops : List Op) :
    ∀ r ∈ (ops.foldl eager (State.init start limit)).spends, ∀ n ∈ r.ntfns,
      n.closed = false → n.dispatched = holdsSpend n.seen := by
  intro r hr n hn hc
  obtain ⟨b, hb, hcl⟩ := (run_B ops (init_B start limit)).2 r hr n hn
  obtain ⟨_, _, hbd⟩ := hcl hc
  rw [← hbd]; exact holds_of_okFromS hb

/-- non-vacuity: a history with confirm – reorg – confirm is accepted, one with a double
    confirmation is not. -/
example : NoDoubleConf [.conf ⟨5, 1, 0⟩, .neg 1, .conf ⟨5, 2, 0⟩] :=
  noDoubleConf_of_okFrom (b := false) (b' := true) (by simp [okFrom])
example : ¬ NoDoubleConf [.conf ⟨5, 1, 0⟩, .upd ⟨0, 5⟩, .conf ⟨5, 2, 0⟩] := by
  intro h
  obtain ⟨x, hx⟩ := h [] [.upd ⟨0, 5⟩] [] ⟨5, 1, 0⟩ ⟨5, 2, 0⟩ rfl
  simp at hx

end LndModel.C14
