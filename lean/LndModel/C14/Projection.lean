/-
C14 — part 4: the single-request worlds (`World`/`wstep` of Chain.lean, `SWorld`/`swstep` of
SpendChain.lean) are exact projections of the global notifier model `State`/`step` with any number
of interacting requests.

`gstep` runs the global model on "macro" operations (`GOp`): RegisterConf / RegisterSpend /
CancelConf+CancelSpend / UpdateConfDetails / UpdateSpendDetails for ANY request, `tip b` =
ConnectTip(cur+1, b) followed by NotifyHeight(cur+1), `untip` = DisconnectTip(cur); every client
of every request empties its channels after each notifier call (`eager`).

`conf_projection` / `spend_projection`: for every list of macro operations and every key `k`, the
record of request `k` in the global state equals the record reached by the single-request world
on the projected operation list (`wopsRun` / `sopsRun`: the operations addressed to `k` that pass
the notifier's validation — with the registration ids the notifier hands out —, every
cancel/tip/untip, nothing for operations addressed to other requests).  Hence requests do not
interact, and every part-2 / part-3 theorem transfers to the global model
(`global_conf_only_if_on_active_chain`, `global_spend_only_if_on_active_chain`, …).
-/
import LndModel.C14.ChainProps
import LndModel.C14.SpendProps

namespace LndModel.C14

/-! ### macro operations of the global model -/

inductive GOp where
  | regConf (key numConfs hint : Nat)
  | regSpend (key hint : Nat)
  | cancel (reg : Nat)
  | tip (b : Block)
  | untip
  | updConf (key : Nat) (d : Option ConfDetails)
  | updSpend (key : Nat) (d : Option SpendDetails)

def gstep (s : State) : GOp → State
  | .regConf k n h => eager s (.regConf k n h)
  | .regSpend k h => eager s (.regSpend k h)
  | .cancel reg => eager s (.cancel reg)
  | .tip b => eager (eager s (.connect (s.cur + 1) b)) (.notify (s.cur + 1))
  | .untip => eager s (.disconnect s.cur)
  | .updConf k d => eager s (.updConf k d)
  | .updSpend k d => eager s (.updSpend k d)

/-! ### looking up one request -/

def findC (l : List ConfReq) (k : Nat) : Option ConfReq := l.find? (fun r => r.key == k)
def findS (l : List SpendReq) (k : Nat) : Option SpendReq := l.find? (fun r => r.key == k)

/-- the record of confirmation request `k` (the empty record if the notifier has none) -/
def cproj (s : State) (k : Nat) : ConfReq := (findC s.confs k).getD { key := k }
def sproj (s : State) (k : Nat) : SpendReq := (findS s.spends k).getD { key := k }

theorem findC_map (l : List ConfReq) (f : ConfReq → ConfReq) (hf : ∀ r, (f r).key = r.key)
    (k : Nat) : findC (l.map f) k = (findC l k).map f := by
  induction l with
  | nil => rfl
  | cons r t ih =>
    simp only [findC, List.map_cons, List.find?_cons, hf] at ih ⊢
    split
    · rfl
    · exact ih

theorem findS_map (l : List SpendReq) (f : SpendReq → SpendReq) (hf : ∀ r, (f r).key = r.key)
    (k : Nat) : findS (l.map f) k = (findS l k).map f := by
  induction l with
  | nil => rfl
  | cons r t ih =>
    simp only [findS, List.map_cons, List.find?_cons, hf] at ih ⊢
    split
    · rfl
    · exact ih

theorem findC_onConf_same (l : List ConfReq) (k : Nat) (g : ConfReq → ConfReq × Res)
    (hg : ∀ r, (g r).1.key = r.key) :
    findC (onConf l k g).1 k = some (g ((findC l k).getD { key := k })).1 := by
  induction l with
  | nil => simp [onConf, findC, hg]
  | cons r t ih =>
    simp only [onConf]
    by_cases hk : (r.key == k) = true
    · simp [findC, hk, hg]
    · simp only [hk, Bool.false_eq_true, ↓reduceIte]
      simp only [findC, List.find?_cons, hk] at ih ⊢
      exact ih

theorem findC_onConf_other (l : List ConfReq) (k k' : Nat) (g : ConfReq → ConfReq × Res)
    (hg : ∀ r, (g r).1.key = r.key) (hne : k' ≠ k) :
    findC (onConf l k' g).1 k = findC l k := by
  induction l with
  | nil =>
    have : ((g { key := k' }).1.key == k) = false := by rw [hg]; simpa using hne
    simp [onConf, findC, this]
  | cons r t ih =>
    simp only [onConf]
    by_cases hk : (r.key == k') = true
    · have h1 : (r.key == k) = false := by
        have : r.key = k' := by simpa using hk
        simpa [this] using hne
      have h2 : ((g r).1.key == k) = false := by rw [hg]; exact h1
      simp [findC, hk, h1, h2]
    · simp only [hk, Bool.false_eq_true, ↓reduceIte]
      simp only [findC, List.find?_cons] at ih ⊢
      split
      · rfl
      · exact ih

theorem findS_onSpend_same (l : List SpendReq) (k : Nat) (g : SpendReq → SpendReq × Res)
    (hg : ∀ r, (g r).1.key = r.key) :
    findS (onSpend l k g).1 k = some (g ((findS l k).getD { key := k })).1 := by
  induction l with
  | nil => simp [onSpend, findS, hg]
  | cons r t ih =>
    simp only [onSpend]
    by_cases hk : (r.key == k) = true
    · simp [findS, hk, hg]
    · simp only [hk, Bool.false_eq_true, ↓reduceIte]
      simp only [findS, List.find?_cons, hk] at ih ⊢
      exact ih

theorem findS_onSpend_other (l : List SpendReq) (k k' : Nat) (g : SpendReq → SpendReq × Res)
    (hg : ∀ r, (g r).1.key = r.key) (hne : k' ≠ k) :
    findS (onSpend l k' g).1 k = findS l k := by
  induction l with
  | nil =>
    have : ((g { key := k' }).1.key == k) = false := by rw [hg]; simpa using hne
    simp [onSpend, findS, this]
  | cons r t ih =>
    simp only [onSpend]
    by_cases hk : (r.key == k') = true
    · have h1 : (r.key == k) = false := by
        have : r.key = k' := by simpa using hk
        simpa [this] using hne
      have h2 : ((g r).1.key == k) = false := by rw [hg]; exact h1
      simp [findS, hk, h1, h2]
    · simp only [hk, Bool.false_eq_true, ↓reduceIte]
      simp only [findS, List.find?_cons] at ih ⊢
      split
      · rfl
      · exact ih

/-! ### draining is idempotent -/

theorem drained_idem_c (n : ConfNtfn) :
    (fun n : ConfNtfn => if n.closed then n else n.drained) (if n.closed then n else n.drained) =
      (if n.closed then n else n.drained) := by
  cases hc : n.closed with
  | true => simp [hc]
  | false => simp [hc, ConfNtfn.drained, ConfNtfn.pending]

theorem drainR_idem (r : ConfReq) : drainR (drainR r) = drainR r := by
  simp only [drainR, List.map_map]
  congr 1
  apply List.map_congr_left
  intro n _
  exact drained_idem_c n

theorem drained_idem_s (n : SpendNtfn) :
    (fun n : SpendNtfn => if n.closed then n else n.drained) (if n.closed then n else n.drained) =
      (if n.closed then n else n.drained) := by
  cases hc : n.closed with
  | true => simp [hc]
  | false => simp [hc, SpendNtfn.drained, SpendNtfn.pending]

theorem drainS_idem (r : SpendReq) : drainS (drainS r) = drainS r := by
  simp only [drainS, List.map_map]
  congr 1
  apply List.map_congr_left
  intro n _
  exact drained_idem_s n

/-! ### the global state after `eager` -/

theorem eager_confs (s : State) (op : Op) : (eager s op).confs = (step s op).1.confs.map drainR := rfl
theorem eager_spends (s : State) (op : Op) : (eager s op).spends = (step s op).1.spends.map drainS := rfl

theorem cproj_map (l : List ConfReq) (f : ConfReq → ConfReq) (hf : ∀ r, (f r).key = r.key)
    (k : Nat) (he : f { key := k } = { key := k }) :
    (findC (l.map f) k).getD { key := k } = f ((findC l k).getD { key := k }) := by
  rw [findC_map l f hf]
  cases findC l k with
  | none => simp [he]
  | some r => rfl

theorem sproj_map (l : List SpendReq) (f : SpendReq → SpendReq) (hf : ∀ r, (f r).key = r.key)
    (k : Nat) (he : f { key := k } = { key := k }) :
    (findS (l.map f) k).getD { key := k } = f ((findS l k).getD { key := k }) := by
  rw [findS_map l f hf]
  cases findS l k with
  | none => simp [he]
  | some r => rfl

/-! ### the per-request functions leave the empty record alone -/

theorem cancel_empty (k reg : Nat) : ({ key := k } : ConfReq).cancel reg = { key := k } := rfl

theorem connect_empty (k c l : Nat) (b : Block) : ({ key := k } : ConfReq).connect c l b = { key := k } := by
  have h0 : (b.confHits k).foldl (fun r i => r.atTip ⟨c, b.id, i⟩) ({ key := k } : ConfReq) =
      { key := k } := by
    rw [foldl_atTip]; split <;> rfl
  show ConfReq.mature c l (ConfReq.updateHint c c
    ((b.confHits k).foldl (fun r i => r.atTip ⟨c, b.id, i⟩) { key := k })) = _
  rw [h0]; simp [ConfReq.updateHint, ConfReq.mature]

theorem notify_empty (k h : Nat) : ({ key := k } : ConfReq).notify h = { key := k } := by
  simp [ConfReq.notify, ConfReq.notifyUpdates, ConfReq.notifyDue]

theorem disconnect_empty (k c d h : Nat) : ({ key := k } : ConfReq).disconnect c d h = { key := k } := by
  simp [ConfReq.disconnect, ConfReq.updateHint]

theorem drainR_empty (k : Nat) : drainR { key := k } = { key := k } := rfl

theorem scancel_empty (k reg : Nat) : ({ key := k } : SpendReq).cancel reg = { key := k } := rfl

theorem sconnect_empty (k c l : Nat) (b : Block) :
    ({ key := k } : SpendReq).connect c l b = { key := k } := by
  unfold SpendReq.connect
  rw [foldl_satTip_unset _ _ _ rfl]
  simp [SpendReq.updateHint, SpendReq.mature]

theorem snotify_empty (k c l h : Nat) : ({ key := k } : SpendReq).notify c l h = { key := k } := by
  simp [SpendReq.notify]

theorem sdisconnect_empty (k c h : Nat) : ({ key := k } : SpendReq).disconnect c h = { key := k } := by
  simp [SpendReq.disconnect, SpendReq.updateHint]

theorem drainS_empty (k : Nat) : drainS { key := k } = { key := k } := rfl

/-! ### confirmation requests -/

/-- RegisterConf's validation -/
def validC (s : State) (n h : Nat) : Bool := !(n == 0 || decide (n > s.limit)) && !(h == 0)

/-- the single-request operations that macro operation `g` amounts to for confirmation request `k` -/
def wopsOf (s : State) (k : Nat) : GOp → List WOp
  | .regConf k' n h => if k' = k ∧ validC s n h = true then [.register s.nextReg n h] else []
  | .regSpend _ _ => []
  | .cancel reg => [.cancel reg]
  | .tip b => [.tip b]
  | .untip => [.untip]
  | .updConf k' d => if k' = k then [.update d] else []
  | .updSpend _ _ => []

/-- request `k` of the global state and the single-request world agree -/
structure CSim (s : State) (w : World) (k : Nat) : Prop where
  cur : w.cur = s.cur
  limit : w.limit = s.limit
  depth : w.depth = s.reorgDepth
  req : w.r = cproj s k
  drained : drainR w.r = w.r

theorem cproj_drain_only {s : State} {w : World} {k : Nat} (h : CSim s w k) :
    (findC (s.confs.map drainR) k).getD { key := k } = w.r := by
  rw [cproj_map _ _ drainR_key k (drainR_empty k)]
  show drainR (cproj s k) = w.r
  rw [← h.req, h.drained]

theorem csim_step {s : State} {w : World} {k : Nat} (g : GOp) (h : CSim s w k) :
    CSim (gstep s g) ((wopsOf s k g).foldl wstep w) k := by
  cases g with
  | regConf k' n hint =>
    simp only [gstep, wopsOf, validC]
    by_cases hn : (n == 0 || decide (n > s.limit)) = true
    · have hs : (step s (.regConf k' n hint)).1 = s := by simp [step, hn]
      simp only [hn, Bool.not_true, Bool.false_and, Bool.false_eq_true, and_false, ↓reduceIte,
        List.foldl_nil]
      have hsc : (eager s (.regConf k' n hint)).cur = s.cur ∧
          (eager s (.regConf k' n hint)).limit = s.limit ∧
          (eager s (.regConf k' n hint)).reorgDepth = s.reorgDepth := by
        simp [eager, State.drain, hs]
      exact ⟨by rw [hsc.1]; exact h.cur, by rw [hsc.2.1]; exact h.limit,
        by rw [hsc.2.2]; exact h.depth, by
        show w.r = (findC (eager s _).confs k).getD _
        rw [eager_confs, hs]; exact (cproj_drain_only h).symm, h.drained⟩
    · by_cases hh : (hint == 0) = true
      · have hs : (step s (.regConf k' n hint)).1 = s := by simp [step, hn, hh]
        simp only [hh, Bool.not_true, Bool.and_false, Bool.false_eq_true, and_false, ↓reduceIte,
          List.foldl_nil]
        have hsc : (eager s (.regConf k' n hint)).cur = s.cur ∧
            (eager s (.regConf k' n hint)).limit = s.limit ∧
            (eager s (.regConf k' n hint)).reorgDepth = s.reorgDepth := by
          simp [eager, State.drain, hs]
        exact ⟨by rw [hsc.1]; exact h.cur, by rw [hsc.2.1]; exact h.limit,
          by rw [hsc.2.2]; exact h.depth, by
          show w.r = (findC (eager s _).confs k).getD _
          rw [eager_confs, hs]; exact (cproj_drain_only h).symm, h.drained⟩
      · have hc : (step s (.regConf k' n hint)).1.confs =
            (onConf s.confs k' (fun r => r.register s.cur s.limit s.nextReg n hint)).1 := by
          simp [step, hn, hh]
        have hsc : (eager s (.regConf k' n hint)).cur = s.cur ∧
            (eager s (.regConf k' n hint)).limit = s.limit ∧
            (eager s (.regConf k' n hint)).reorgDepth = s.reorgDepth := by
          simp [eager, State.drain, step, hn, hh]
        have hv : (!(n == 0 || decide (n > s.limit)) && !(hint == 0)) = true := by
          simp only [Bool.not_eq_true] at hn hh
          simp [hn, hh]
        by_cases hk : k' = k
        · subst hk
          simp only [hv, and_self, ↓reduceIte, List.foldl_cons, List.foldl_nil]
          refine ⟨by rw [hsc.1]; exact h.cur, by rw [hsc.2.1]; exact h.limit,
            by rw [hsc.2.2]; exact h.depth, ?_, drainR_idem _⟩
          show drainR (w.r.register w.cur w.limit s.nextReg n hint).1 =
            (findC (eager s _).confs k').getD _
          rw [eager_confs, hc, cproj_map _ _ drainR_key k' (drainR_empty k'),
            findC_onConf_same _ _ _ (fun r => register_key _ _ _ _ _ r)]
          simp only [Option.getD_some]
          rw [h.req, h.cur, h.limit]; rfl
        · simp only [hk, false_and, ↓reduceIte, List.foldl_nil]
          refine ⟨by rw [hsc.1]; exact h.cur, by rw [hsc.2.1]; exact h.limit,
            by rw [hsc.2.2]; exact h.depth, ?_, h.drained⟩
          show w.r = (findC (eager s _).confs k).getD _
          rw [eager_confs, hc, cproj_map _ _ drainR_key k (drainR_empty k),
            findC_onConf_other _ _ _ _ (fun r => register_key _ _ _ _ _ r) hk]
          show w.r = drainR (cproj s k)
          rw [← h.req, h.drained]
  | regSpend k' hint =>
    simp only [gstep, wopsOf, List.foldl_nil]
    have hc : (step s (.regSpend k' hint)).1.confs = s.confs := by
      simp only [step]; split <;> rfl
    have hsc : (eager s (.regSpend k' hint)).cur = s.cur ∧
        (eager s (.regSpend k' hint)).limit = s.limit ∧
        (eager s (.regSpend k' hint)).reorgDepth = s.reorgDepth := by
      simp only [eager, State.drain, step]; split <;> simp
    exact ⟨by rw [hsc.1]; exact h.cur, by rw [hsc.2.1]; exact h.limit, by rw [hsc.2.2]; exact h.depth,
      by show w.r = (findC (eager s _).confs k).getD _
         rw [eager_confs, hc]; exact (cproj_drain_only h).symm, h.drained⟩
  | cancel reg =>
    simp only [gstep, wopsOf, List.foldl_cons, List.foldl_nil]
    refine ⟨h.cur, h.limit, h.depth, ?_, drainR_idem _⟩
    show drainR (w.r.cancel reg) = (findC (eager s (.cancel reg)).confs k).getD _
    rw [bridge_cancel, cproj_map _ (fun r => drainR (r.cancel reg))
      (fun r => by rw [drainR_key, cancel_key]) k (by rw [cancel_empty, drainR_empty])]
    rw [h.req]; rfl
  | tip b =>
    simp only [gstep, wopsOf, List.foldl_cons, List.foldl_nil]
    have hsc : (eager (eager s (.connect (s.cur + 1) b)) (.notify (s.cur + 1))).cur = s.cur + 1 ∧
        (eager (eager s (.connect (s.cur + 1) b)) (.notify (s.cur + 1))).limit = s.limit ∧
        (eager (eager s (.connect (s.cur + 1) b)) (.notify (s.cur + 1))).reorgDepth = 0 := by
      simp [eager, State.drain, step]
    refine ⟨by rw [hsc.1]; show w.cur + 1 = _; rw [h.cur], by rw [hsc.2.1]; exact h.limit,
      by rw [hsc.2.2]; rfl, ?_, drainR_idem _⟩
    show drainR ((drainR (w.r.connect (w.cur + 1) w.limit b)).notify (w.cur + 1)) =
      (findC (eager (eager s (.connect (s.cur + 1) b)) (.notify (s.cur + 1))).confs k).getD _
    rw [bridge_tip, cproj_map _
      (fun r => drainR ((drainR (r.connect (s.cur + 1) s.limit b)).notify (s.cur + 1)))
      (fun r => by rw [drainR_key, notify_key, drainR_key, connect_key]) k
      (by rw [connect_empty, drainR_empty, notify_empty, drainR_empty])]
    rw [h.req, h.cur, h.limit]; rfl
  | untip =>
    simp only [gstep, wopsOf, List.foldl_cons, List.foldl_nil]
    have hsc : (eager s (.disconnect s.cur)).cur = s.cur - 1 ∧
        (eager s (.disconnect s.cur)).limit = s.limit ∧
        (eager s (.disconnect s.cur)).reorgDepth = s.reorgDepth + 1 := by
      simp [eager, State.drain, step]
    refine ⟨by rw [hsc.1]; show w.cur - 1 = _; rw [h.cur], by rw [hsc.2.1]; exact h.limit,
      by rw [hsc.2.2]; show w.depth + 1 = _; rw [h.depth], ?_, drainR_idem _⟩
    show drainR (w.r.disconnect (w.cur - 1) (w.depth + 1) w.cur) =
      (findC (eager s (.disconnect s.cur)).confs k).getD _
    rw [bridge_untip, cproj_map _
      (fun r => drainR (r.disconnect (s.cur - 1) (s.reorgDepth + 1) s.cur))
      (fun r => by rw [drainR_key, disconnect_key]) k
      (by rw [disconnect_empty, drainR_empty])]
    rw [h.req, h.cur, h.depth]; rfl
  | updConf k' d =>
    simp only [gstep, wopsOf]
    have hc : (step s (.updConf k' d)).1.confs =
        (onConf s.confs k' (fun r => r.update s.cur s.limit d)).1 := by
      simp [step]
    have hsc : (eager s (.updConf k' d)).cur = s.cur ∧
        (eager s (.updConf k' d)).limit = s.limit ∧
        (eager s (.updConf k' d)).reorgDepth = s.reorgDepth := by
      simp [eager, State.drain, step]
    by_cases hk : k' = k
    · subst hk
      simp only [↓reduceIte, List.foldl_cons, List.foldl_nil]
      refine ⟨by rw [hsc.1]; exact h.cur, by rw [hsc.2.1]; exact h.limit,
        by rw [hsc.2.2]; exact h.depth, ?_, drainR_idem _⟩
      show drainR (w.r.update w.cur w.limit d).1 = (findC (eager s _).confs k').getD _
      rw [eager_confs, hc, cproj_map _ _ drainR_key k' (drainR_empty k'),
        findC_onConf_same _ _ _ (fun r => update_key _ _ _ r)]
      simp only [Option.getD_some]
      rw [h.req, h.cur, h.limit]; rfl
    · simp only [hk, ↓reduceIte, List.foldl_nil]
      refine ⟨by rw [hsc.1]; exact h.cur, by rw [hsc.2.1]; exact h.limit,
        by rw [hsc.2.2]; exact h.depth, ?_, h.drained⟩
      show w.r = (findC (eager s _).confs k).getD _
      rw [eager_confs, hc, cproj_map _ _ drainR_key k (drainR_empty k),
        findC_onConf_other _ _ _ _ (fun r => update_key _ _ _ r) hk]
      show w.r = drainR (cproj s k)
      rw [← h.req, h.drained]
  | updSpend k' d =>
    simp only [gstep, wopsOf, List.foldl_nil]
    have hc : (step s (.updSpend k' d)).1.confs = s.confs := by simp [step]
    have hsc : (eager s (.updSpend k' d)).cur = s.cur ∧
        (eager s (.updSpend k' d)).limit = s.limit ∧
        (eager s (.updSpend k' d)).reorgDepth = s.reorgDepth := by
      simp [eager, State.drain, step]
    exact ⟨by rw [hsc.1]; exact h.cur, by rw [hsc.2.1]; exact h.limit, by rw [hsc.2.2]; exact h.depth,
      by show w.r = (findC (eager s _).confs k).getD _
         rw [eager_confs, hc]; exact (cproj_drain_only h).symm, h.drained⟩

/-- operations of the global model for confirmation request `k`, along a run -/
def wopsRun (s : State) (k : Nat) : List GOp → List WOp
  | [] => []
  | g :: t => wopsOf s k g ++ wopsRun (gstep s g) k t

/-- `conf_projection`: after ANY list of macro operations (any number of confirmation and spend
    requests, registrations, cancellations, rescan completions, blocks), the record of
    confirmation request `k` in the global state is the record of the single-request world after
    the projected operation list; `cur`, `limit` and the reorg depth agree as well. -/
theorem conf_projection {s : State} {w : World} {k : Nat} (gops : List GOp) (h : CSim s w k) :
    CSim (gops.foldl gstep s) ((wopsRun s k gops).foldl wstep w) k := by
  induction gops generalizing s w with
  | nil => exact h
  | cons g t ih =>
    simp only [List.foldl_cons, wopsRun, List.foldl_append]
    exact ih (csim_step g h)

theorem csim_init (k limit : Nat) (chain0 : List Block) :
    CSim (State.init chain0.length limit) (World.init k limit chain0) k :=
  ⟨rfl, rfl, rfl, rfl, rfl⟩

/-! ### spend requests -/

/-- the single-request operations that macro operation `g` amounts to for spend request `k` -/
def sopsOf (s : State) (k : Nat) : GOp → List SOp
  | .regConf _ _ _ => []
  | .regSpend k' h => if k' = k ∧ (h == 0) = false then [.register s.nextReg h] else []
  | .cancel reg => [.cancel reg]
  | .tip b => [.tip b]
  | .untip => [.untip]
  | .updConf _ _ => []
  | .updSpend k' d => if k' = k then [.update d] else []

structure SSim (s : State) (w : SWorld) (k : Nat) : Prop where
  cur : w.cur = s.cur
  limit : w.limit = s.limit
  req : w.r = sproj s k
  drained : drainS w.r = w.r

theorem sproj_drain_only {s : State} {w : SWorld} {k : Nat} (h : SSim s w k) :
    (findS (s.spends.map drainS) k).getD { key := k } = w.r := by
  rw [sproj_map _ _ drainS_key k (drainS_empty k)]
  show drainS (sproj s k) = w.r
  rw [← h.req, h.drained]

theorem ssim_step {s : State} {w : SWorld} {k : Nat} (g : GOp) (h : SSim s w k) :
    SSim (gstep s g) ((sopsOf s k g).foldl swstep w) k := by
  cases g with
  | regConf k' n hint =>
    simp only [gstep, sopsOf, List.foldl_nil]
    have hc : (step s (.regConf k' n hint)).1.spends = s.spends := by
      simp only [step]; split <;> (try split) <;> rfl
    have hsc : (eager s (.regConf k' n hint)).cur = s.cur ∧
        (eager s (.regConf k' n hint)).limit = s.limit := by
      simp only [eager, State.drain, step]; split <;> (try split) <;> simp
    exact ⟨by rw [hsc.1]; exact h.cur, by rw [hsc.2]; exact h.limit,
      by show w.r = (findS (eager s _).spends k).getD _
         rw [eager_spends, hc]; exact (sproj_drain_only h).symm, h.drained⟩
  | regSpend k' hint =>
    simp only [gstep, sopsOf]
    by_cases hh : (hint == 0) = true
    · have hs : (step s (.regSpend k' hint)).1 = s := by simp [step, hh]
      have hsc : (eager s (.regSpend k' hint)).cur = s.cur ∧
          (eager s (.regSpend k' hint)).limit = s.limit := by
        simp [eager, State.drain, hs]
      simp only [hh, Bool.true_eq_false, and_false, ↓reduceIte, List.foldl_nil]
      exact ⟨by rw [hsc.1]; exact h.cur, by rw [hsc.2]; exact h.limit, by
        show w.r = (findS (eager s _).spends k).getD _
        rw [eager_spends, hs]; exact (sproj_drain_only h).symm, h.drained⟩
    · have hc : (step s (.regSpend k' hint)).1.spends =
          (onSpend s.spends k' (fun r => r.register s.cur s.limit s.nextReg hint)).1 := by
        simp [step, hh]
      have hsc : (eager s (.regSpend k' hint)).cur = s.cur ∧
          (eager s (.regSpend k' hint)).limit = s.limit := by
        simp [eager, State.drain, step, hh]
      have hh' : (hint == 0) = false := by simpa using hh
      by_cases hk : k' = k
      · subst hk
        simp only [hh', and_self, ↓reduceIte, List.foldl_cons, List.foldl_nil]
        refine ⟨by rw [hsc.1]; exact h.cur, by rw [hsc.2]; exact h.limit, ?_, drainS_idem _⟩
        show drainS (w.r.register w.cur w.limit s.nextReg hint).1 =
          (findS (eager s _).spends k').getD _
        rw [eager_spends, hc, sproj_map _ _ drainS_key k' (drainS_empty k'),
          findS_onSpend_same _ _ _ (fun r => sregister_key _ _ _ _ r)]
        simp only [Option.getD_some]
        rw [h.req, h.cur, h.limit]; rfl
      · simp only [hk, false_and, ↓reduceIte, List.foldl_nil]
        refine ⟨by rw [hsc.1]; exact h.cur, by rw [hsc.2]; exact h.limit, ?_, h.drained⟩
        show w.r = (findS (eager s _).spends k).getD _
        rw [eager_spends, hc, sproj_map _ _ drainS_key k (drainS_empty k),
          findS_onSpend_other _ _ _ _ (fun r => sregister_key _ _ _ _ r) hk]
        show w.r = drainS (sproj s k)
        rw [← h.req, h.drained]
  | cancel reg =>
    simp only [gstep, sopsOf, List.foldl_cons, List.foldl_nil]
    refine ⟨h.cur, h.limit, ?_, drainS_idem _⟩
    show drainS (w.r.cancel reg) = (findS (eager s (.cancel reg)).spends k).getD _
    rw [bridge_cancel_spend, sproj_map _ (fun r => drainS (r.cancel reg))
      (fun r => by rw [drainS_key, scancel_key]) k (by rw [scancel_empty, drainS_empty])]
    rw [h.req]; rfl
  | tip b =>
    simp only [gstep, sopsOf, List.foldl_cons, List.foldl_nil]
    have hsc : (eager (eager s (.connect (s.cur + 1) b)) (.notify (s.cur + 1))).cur = s.cur + 1 ∧
        (eager (eager s (.connect (s.cur + 1) b)) (.notify (s.cur + 1))).limit = s.limit := by
      simp [eager, State.drain, step]
    refine ⟨by rw [hsc.1]; show w.cur + 1 = _; rw [h.cur], by rw [hsc.2]; exact h.limit, ?_,
      drainS_idem _⟩
    show drainS ((drainS (w.r.connect (w.cur + 1) w.limit b)).notify (w.cur + 1) w.limit (w.cur + 1)) =
      (findS (eager (eager s (.connect (s.cur + 1) b)) (.notify (s.cur + 1))).spends k).getD _
    rw [bridge_tip_spend, sproj_map _
      (fun r => drainS ((drainS (r.connect (s.cur + 1) s.limit b)).notify
        (s.cur + 1) s.limit (s.cur + 1)))
      (fun r => by rw [drainS_key, snotify_key, drainS_key, sconnect_key]) k
      (by rw [sconnect_empty, drainS_empty, snotify_empty, drainS_empty])]
    rw [h.req, h.cur, h.limit]; rfl
  | untip =>
    simp only [gstep, sopsOf, List.foldl_cons, List.foldl_nil]
    have hsc : (eager s (.disconnect s.cur)).cur = s.cur - 1 ∧
        (eager s (.disconnect s.cur)).limit = s.limit := by
      simp [eager, State.drain, step]
    refine ⟨by rw [hsc.1]; show w.cur - 1 = _; rw [h.cur], by rw [hsc.2]; exact h.limit, ?_,
      drainS_idem _⟩
    show drainS (w.r.disconnect (w.cur - 1) w.cur) =
      (findS (eager s (.disconnect s.cur)).spends k).getD _
    rw [bridge_untip_spend, sproj_map _
      (fun r => drainS (r.disconnect (s.cur - 1) s.cur))
      (fun r => by rw [drainS_key, sdisconnect_key]) k
      (by rw [sdisconnect_empty, drainS_empty])]
    rw [h.req, h.cur]; rfl
  | updConf k' d =>
    simp only [gstep, sopsOf, List.foldl_nil]
    have hc : (step s (.updConf k' d)).1.spends = s.spends := by simp [step]
    have hsc : (eager s (.updConf k' d)).cur = s.cur ∧
        (eager s (.updConf k' d)).limit = s.limit := by
      simp [eager, State.drain, step]
    exact ⟨by rw [hsc.1]; exact h.cur, by rw [hsc.2]; exact h.limit,
      by show w.r = (findS (eager s _).spends k).getD _
         rw [eager_spends, hc]; exact (sproj_drain_only h).symm, h.drained⟩
  | updSpend k' d =>
    simp only [gstep, sopsOf]
    have hc : (step s (.updSpend k' d)).1.spends =
        (onSpend s.spends k' (fun r => r.update s.cur s.limit d)).1 := by
      simp [step]
    have hsc : (eager s (.updSpend k' d)).cur = s.cur ∧
        (eager s (.updSpend k' d)).limit = s.limit := by
      simp [eager, State.drain, step]
    by_cases hk : k' = k
    · subst hk
      simp only [↓reduceIte, List.foldl_cons, List.foldl_nil]
      refine ⟨by rw [hsc.1]; exact h.cur, by rw [hsc.2]; exact h.limit, ?_, drainS_idem _⟩
      show drainS (w.r.update w.cur w.limit d).1 = (findS (eager s _).spends k').getD _
      rw [eager_spends, hc, sproj_map _ _ drainS_key k' (drainS_empty k'),
        findS_onSpend_same _ _ _ (fun r => supdate_key _ _ _ r)]
      simp only [Option.getD_some]
      rw [h.req, h.cur, h.limit]; rfl
    · simp only [hk, ↓reduceIte, List.foldl_nil]
      refine ⟨by rw [hsc.1]; exact h.cur, by rw [hsc.2]; exact h.limit, ?_, h.drained⟩
      show w.r = (findS (eager s _).spends k).getD _
      rw [eager_spends, hc, sproj_map _ _ drainS_key k (drainS_empty k),
        findS_onSpend_other _ _ _ _ (fun r => supdate_key _ _ _ r) hk]
      show w.r = drainS (sproj s k)
      rw [← h.req, h.drained]

def sopsRun (s : State) (k : Nat) : List GOp → List SOp
  | [] => []
  | g :: t => sopsOf s k g ++ sopsRun (gstep s g) k t

/-- `spend_projection`: the same for spend request `k`. -/
theorem spend_projection {s : State} {w : SWorld} {k : Nat} (gops : List GOp) (h : SSim s w k) :
    SSim (gops.foldl gstep s) ((sopsRun s k gops).foldl swstep w) k := by
  induction gops generalizing s w with
  | nil => exact h
  | cons g t ih =>
    simp only [List.foldl_cons, sopsRun, List.foldl_append]
    exact ih (ssim_step g h)

theorem ssim_init (k limit : Nat) (chain0 : List Block) :
    SSim (State.init chain0.length limit) (SWorld.init k limit chain0) k :=
  ⟨rfl, rfl, rfl, rfl⟩

/-! ### the part-2 / part-3 theorems, stated on the global model -/

/-- the ghost active chain after a run of macro operations -/
def chainAfterG (chain : List Block) : List GOp → List Block
  | [] => chain
  | .tip b :: t => chainAfterG (chain ++ [b]) t
  | .untip :: t => chainAfterG chain.dropLast t
  | _ :: t => chainAfterG chain t

theorem wstep_chain_register (w : World) (a b c : Nat) : (wstep w (.register a b c)).chain = w.chain := rfl

theorem chain_wopsRun (s : State) (w : World) (k : Nat) (gops : List GOp) :
    ((wopsRun s k gops).foldl wstep w).chain = chainAfterG w.chain gops := by
  induction gops generalizing s w with
  | nil => rfl
  | cons g t ih =>
    simp only [wopsRun, List.foldl_append]
    rw [ih]
    cases g with
    | regConf k' n h => simp only [wopsOf]; split <;> rfl
    | regSpend k' h => rfl
    | cancel reg => rfl
    | tip b => rfl
    | untip => rfl
    | updConf k' d => simp only [wopsOf]; split <;> rfl
    | updSpend k' d => rfl

theorem chain_sopsRun (s : State) (w : SWorld) (k : Nat) (gops : List GOp) :
    ((sopsRun s k gops).foldl swstep w).chain = chainAfterG w.chain gops := by
  induction gops generalizing s w with
  | nil => rfl
  | cons g t ih =>
    simp only [sopsRun, List.foldl_append]
    rw [ih]
    cases g with
    | regConf k' n h => rfl
    | regSpend k' h => simp only [sopsOf]; split <;> rfl
    | cancel reg => rfl
    | tip b => rfl
    | untip => rfl
    | updConf k' d => rfl
    | updSpend k' d => simp only [sopsOf]; split <;> rfl

/-- `conf_only_if_on_active_chain` for the global model with any number of interacting requests:
    if the operations that concern request `k` satisfy the environment assumptions, then a client
    of `k` that holds a confirmation is backed by details on the ACTIVE chain. -/
theorem global_conf_only_if_on_active_chain (k limit : Nat) (chain0 : List Block)
    (hv : Valid chain0 k) (gops : List GOp)
    (hok : OkRun (World.init k limit chain0) (wopsRun (State.init chain0.length limit) k gops)) :
    let s := gops.foldl gstep (State.init chain0.length limit)
    ∀ n ∈ (cproj s k).ntfns, n.live = true → holdsConf n.seen = true →
      ∃ d, (cproj s k).details = some d ∧ lastConfD n.seen = some d ∧
        OnChain (chainAfterG chain0 gops) k d := by
  intro s n hn hl hh
  have hsim := conf_projection gops (csim_init k limit chain0)
  have hc : _ = chainAfterG chain0 gops :=
    chain_wopsRun (State.init chain0.length limit) (World.init k limit chain0) k gops
  rw [← hsim.req] at hn ⊢
  obtain ⟨d, h1, h2, h3⟩ := conf_payload_on_active_chain k limit chain0 hv _ hok n hn hl hh
  exact ⟨d, h2, h1, by rw [← hc]; exact h3⟩

/-- … and every live client of `k` holds the confirmation once the transaction has `numConfs`
    confirmations on the active chain at an examined height. -/
theorem global_conf_if_N_on_active_chain (k limit : Nat) (chain0 : List Block)
    (hv : Valid chain0 k) (gops : List GOp)
    (hok : OkRun (World.init k limit chain0) (wopsRun (State.init chain0.length limit) k gops)) :
    let s := gops.foldl gstep (State.init chain0.length limit)
    let w := (wopsRun (State.init chain0.length limit) k gops).foldl wstep (World.init k limit chain0)
    (cproj s k).set = true →
    ∀ (h : Nat) (b : Block), 1 ≤ h → (chainAfterG chain0 gops)[h - 1]? = some b → b.has k →
      w.cover ≤ h → ∀ n ∈ (cproj s k).ntfns, n.live = true → h + n.numConfs ≤ s.cur + 1 →
      holdsConf n.seen = true := by
  intro s w hs h b h1 hb hhas hcov n hn hl hdeep
  have hsim := conf_projection gops (csim_init k limit chain0)
  have hc : _ = chainAfterG chain0 gops :=
    chain_wopsRun (State.init chain0.length limit) (World.init k limit chain0) k gops
  rw [← hsim.req] at hn hs
  rw [← hsim.cur] at hdeep
  exact (conf_if_N_on_active_chain k limit chain0 hv _ hok hs h b h1 (by rw [hc]; exact hb) hhas hcov
    n hn hl hdeep).1

/-- `spend_only_if_on_active_chain` / `spend_payload_on_active_chain` for the global model. -/
theorem global_spend_only_if_on_active_chain (k limit : Nat) (chain0 : List Block)
    (hv : ValidS chain0 k) (gops : List GOp)
    (hok : SOkRun (SWorld.init k limit chain0) (sopsRun (State.init chain0.length limit) k gops)) :
    let s := gops.foldl gstep (State.init chain0.length limit)
    ∀ n ∈ (sproj s k).ntfns, n.live = true → holdsSpend n.seen = true →
      ∃ d, (sproj s k).details = some d ∧ lastSpendD n.seen = some d ∧
        OnChainS (chainAfterG chain0 gops) k d := by
  intro s n hn hl hh
  have hsim := spend_projection gops (ssim_init k limit chain0)
  have hc : _ = chainAfterG chain0 gops :=
    chain_sopsRun (State.init chain0.length limit) (SWorld.init k limit chain0) k gops
  rw [← hsim.req] at hn ⊢
  obtain ⟨d, h1, h2, h3⟩ := spend_payload_on_active_chain k limit chain0 hv _ hok n hn hl hh
  exact ⟨d, h2, h1, by rw [← hc]; exact h3⟩

theorem global_spend_if_on_active_chain (k limit : Nat) (chain0 : List Block)
    (hv : ValidS chain0 k) (gops : List GOp)
    (hok : SOkRun (SWorld.init k limit chain0) (sopsRun (State.init chain0.length limit) k gops)) :
    let s := gops.foldl gstep (State.init chain0.length limit)
    let w := (sopsRun (State.init chain0.length limit) k gops).foldl swstep (SWorld.init k limit chain0)
    (sproj s k).set = true →
    ∀ (h : Nat) (b : Block), 1 ≤ h → (chainAfterG chain0 gops)[h - 1]? = some b → b.spent k →
      w.cover ≤ h → ∀ n ∈ (sproj s k).ntfns, n.live = true → holdsSpend n.seen = true := by
  intro s w hs h b h1 hb hhas hcov n hn hl
  have hsim := spend_projection gops (ssim_init k limit chain0)
  have hc : _ = chainAfterG chain0 gops :=
    chain_sopsRun (State.init chain0.length limit) (SWorld.init k limit chain0) k gops
  rw [← hsim.req] at hn hs
  exact (spend_if_on_active_chain k limit chain0 hv _ hok hs h b h1 (by rw [hc]; exact hb) hhas hcov
    n hn hl).1

/-! ### non-vacuity: two confirmation requests and a spend request interleaved -/

def gdemo : List GOp :=
  [.regConf 7 2 1, .regSpend 5 1, .regConf 3 1 1, .updConf 7 none, .updSpend 5 none, .updConf 3 none,
   .tip ⟨11, [⟨7, [5]⟩]⟩, .tip ⟨12, [⟨3, []⟩]⟩, .untip, .untip,
   .tip ⟨13, [⟨3, []⟩, ⟨8, [4, 5]⟩]⟩, .tip ⟨14, [⟨7, [6]⟩]⟩]

/-- the projected operation lists: registration ids are the ones the notifier handed out -/
example : wopsRun (State.init 1 4) 7 gdemo =
    [.register 0 2 1, .update none, .tip ⟨11, [⟨7, [5]⟩]⟩, .tip ⟨12, [⟨3, []⟩]⟩, .untip, .untip,
     .tip ⟨13, [⟨3, []⟩, ⟨8, [4, 5]⟩]⟩, .tip ⟨14, [⟨7, [6]⟩]⟩] := by rfl

example : OkRun (World.init 7 4 demoChain0) (wopsRun (State.init demoChain0.length 4) 7 gdemo) :=
  okRunb_sound (by decide)
example : OkRun (World.init 3 4 demoChain0) (wopsRun (State.init demoChain0.length 4) 3 gdemo) :=
  okRunb_sound (by decide)
example : SOkRun (SWorld.init 5 4 sdemoChain0) (sopsRun (State.init sdemoChain0.length 4) 5 gdemo) :=
  sokRunb_sound (by decide)

/-- what the three clients read in the global run -/
example :
    let s := gdemo.foldl gstep (State.init 1 4)
    ((cproj s 7).ntfns.map (·.seen), (cproj s 3).ntfns.map (·.seen), (sproj s 5).ntfns.map (·.seen)) =
    ([[.upd ⟨1, 2⟩, .conf ⟨2, 11, 0⟩, .upd ⟨0, 2⟩, .neg 2, .upd ⟨1, 3⟩]],
     [[.conf ⟨3, 12, 0⟩, .upd ⟨0, 3⟩, .neg 1, .conf ⟨2, 13, 0⟩, .upd ⟨0, 2⟩]],
     [[.spend ⟨2, 7, 0⟩, .reorg, .spend ⟨2, 8, 1⟩]]) := by decide

end LndModel.C14
