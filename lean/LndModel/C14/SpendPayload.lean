/-
C14 — part 3c: the payload of the `Spend` event a client holds is the request's `details` (which
`SWInv` ties to the active chain).  Spend-side mirror of `Payload.lean`.
-/
import LndModel.C14.SpendChain

namespace LndModel.C14

/-- payload of the last `Spend` event, scanning on from `acc` -/
def lastFromS (acc : Option SpendDetails) (l : List SEv) : Option SpendDetails :=
  l.foldl (fun acc e => match e with | .spend d => some d | _ => acc) acc

/-- payload of the last `Spend` event of a history -/
def lastSpendD (l : List SEv) : Option SpendDetails := lastFromS none l

theorem lastFromS_append (acc : Option SpendDetails) (l l' : List SEv) :
    lastFromS acc (l ++ l') = lastFromS (lastFromS acc l) l' := by
  simp [lastFromS, List.foldl_append]

theorem lastFromS_reorgs (acc : Option SpendDetails) (k : Nat) :
    lastFromS acc (List.replicate k .reorg) = acc := by
  induction k with
  | zero => rfl
  | succ k ih => simpa [lastFromS, List.replicate_succ] using ih

theorem lastFromS_dones (acc : Option SpendDetails) (k : Nat) :
    lastFromS acc (List.replicate k .done) = acc := by
  induction k with
  | zero => rfl
  | succ k ih => simpa [lastFromS, List.replicate_succ] using ih

/-- the event a live, dispatched client holds (already read, or still in its `Spend` channel)
    carries exactly `det` -/
def SPay (det : Option SpendDetails) (n : SpendNtfn) : Prop :=
  n.live = true → n.dispatched = true →
    lastFromS (lastSpendD n.seen) (n.spend.map .spend) = det

theorem SPay.of_not_dispatched {det : Option SpendDetails} {n : SpendNtfn}
    (h : n.live = true → n.dispatched = false) : SPay det n := by
  intro hl hd; rw [h hl] at hd; cases hd

theorem spay_dispatch {n : SpendNtfn} (d : SpendDetails)
    (h : SPay (some d) n ∨ (n.live = true → n.dispatched = false)) :
    SPay (some d) (n.dispatch d) := by
  unfold SpendNtfn.dispatch
  cases hdd : n.dispatched with
  | true =>
    simp only [↓reduceIte]
    rcases h with h | h
    · exact h
    · exact SPay.of_not_dispatched (fun hl => by have := h hl; rw [hdd] at this; cases this)
  | false =>
    simp only [Bool.false_eq_true, ↓reduceIte]
    split
    · exact SPay.of_not_dispatched (fun _ => by simp [hdd])
    · intro _ _
      simp [lastFromS, List.foldl_append]

/-- `dispatchSpendReorg` on a client whose `Reorg` channel is empty -/
theorem spay_unspend {det : Option SpendDetails} {n : SpendNtfn} (hr : n.reorg = 0) :
    SPay det n.unspend := by
  apply SPay.of_not_dispatched
  intro _
  unfold SpendNtfn.unspend
  cases hd : n.dispatched <;> simp [hd, hr]

theorem spay_drained {det : Option SpendDetails} {n : SpendNtfn} (h : SPay det n) :
    SPay det (if n.closed then n else n.drained) := by
  split
  · exact h
  · intro hl hd
    have := h hl hd
    simp only [SpendNtfn.drained, SpendNtfn.pending, List.map_nil, lastSpendD] at this ⊢
    simp only [lastFromS_append, lastFromS_reorgs, lastFromS_dones]
    simpa [lastFromS, lastSpendD] using this

/-! ### request level -/

def SPayAll (r : SpendReq) : Prop := ∀ n ∈ r.ntfns, SPay r.details n

/-- while the request has no details no live client is dispatched; without a set no client is
    live; the `Reorg` channel of every client that has not cancelled is empty (consequences of
    `SWInv`) -/
def SQuiet (r : SpendReq) : Prop :=
  (r.details = none → ∀ n ∈ r.ntfns, n.live = true → n.dispatched = false) ∧
  (r.set = false → ∀ n ∈ r.ntfns, n.live = false) ∧
  (∀ n ∈ r.ntfns, n.live = true → n.reorg = 0)

theorem squiet_of_ri {cur limit maxTip cover : Nat} {chain : List Block} {r : SpendReq}
    (h : SRI cur limit maxTip cover chain r) : SQuiet r := by
  obtain ⟨⟨h0, hcl⟩, hch⟩ := h
  refine ⟨fun hd n hn hl => ?_, fun hs => (h0.unset hs).2.2, fun n hn hl => ?_⟩
  · have := (hcl n hn).2.2 hl
    rw [hd] at this; exact this
  · exact (hch n hn ((hcl n hn).2.1 hl)).2.1

theorem spay_dispatchTo {r : SpendReq} (cur limit : Nat) (sel : SpendNtfn → Bool)
    (h : ∀ n ∈ r.ntfns, SPay r.details n ∨ (n.live = true → n.dispatched = false)) :
    SPayAll (r.dispatchTo cur limit sel) := by
  unfold SpendReq.dispatchTo
  cases hd : r.details with
  | none =>
    simp only
    intro n hn
    rcases h n hn with x | x
    · exact x
    · exact SPay.of_not_dispatched x
  | some d =>
    simp only
    refine all_map (P := fun n => SPay (some d) n ∨ (n.live = true → n.dispatched = false))
      (Q := SPay (some d)) (fun n hn => ?_) (fun n hn => by have := h n hn; rw [hd] at this; exact this)
    split
    · exact spay_dispatch d hn
    · rcases hn with x | x
      · exact x
      · exact SPay.of_not_dispatched x

theorem spay_register {r : SpendReq} (cur limit reg hint : Nat) (h : SPayAll r) (hq : SQuiet r) :
    SPayAll (r.register cur limit reg hint).1 := by
  let r1 := r.opened.addNtfn { reg := reg }
  have h1 : ∀ m ∈ r1.ntfns, SPay r1.details m ∨ (m.live = true → m.dispatched = false) := by
    intro m hm
    simp only [r1, SpendReq.addNtfn, SpendReq.opened] at hm ⊢
    cases hs : r.set with
    | true =>
      simp only [hs, ↓reduceIte, List.mem_append, List.mem_singleton] at hm ⊢
      rcases hm with hm | rfl
      · exact Or.inl (h m hm)
      · exact Or.inr (fun _ => rfl)
    | false =>
      simp only [hs, Bool.false_eq_true, ↓reduceIte, List.mem_append, List.mem_singleton] at hm ⊢
      rcases hm with hm | rfl
      · exact Or.inr (fun hl => by rw [hq.2.1 hs m hm] at hl; cases hl)
      · exact Or.inr (fun _ => rfl)
  have hall : SPayAll r1 := fun m hm => by
    rcases h1 m hm with x | x
    · exact x
    · exact SPay.of_not_dispatched x
  show SPayAll (r1.registered cur limit (startHeight r.hint hint) reg).1
  unfold SpendReq.registered
  split
  · exact spay_dispatchTo cur limit _ h1
  · exact hall
  · split <;> exact hall

theorem spay_cancel {r : SpendReq} (reg : Nat) (h : SPayAll r) : SPayAll (r.cancel reg) := by
  unfold SpendReq.cancel
  split
  · exact h
  · refine all_map (P := SPay r.details) (fun n hn => ?_) h
    split
    · intro hl; simp at hl
    · exact hn

theorem spay_update {r : SpendReq} (cur limit : Nat) (d : Option SpendDetails) (h : SPayAll r)
    (hq : SQuiet r) : SPayAll (r.update cur limit d).1 := by
  unfold SpendReq.update
  split
  · exact h
  · split
    · exact h
    · rename_i hd
      have hdn : r.details = none := by
        cases hx : r.details with
        | none => rfl
        | some x => simp [hx] at hd
      have hnd : ∀ n ∈ r.ntfns, n.live = true → n.dispatched = false := hq.1 hdn
      cases d with
      | none =>
        intro n hn
        exact SPay.of_not_dispatched (hnd n hn)
      | some d =>
        simp only
        split
        · intro n hn
          exact SPay.of_not_dispatched (hnd n hn)
        · exact spay_dispatchTo cur limit _ (fun n hn => Or.inr (hnd n hn))

/-- `handleSpendDetailsAtTip` while nobody has been told about a spend -/
theorem spay_atTip {r : SpendReq} (d : SpendDetails)
    (hnd : ∀ n ∈ r.ntfns, n.live = true → n.dispatched = false) :
    SPayAll (r.atTip d) ∧ ∀ n ∈ (r.atTip d).ntfns, n.live = true → n.dispatched = false := by
  have key : ∀ n ∈ (r.atTip d).ntfns, n.live = true → n.dispatched = false := by
    unfold SpendReq.atTip
    split
    · exact hnd
    · refine all_map (P := fun n => n.live = true → n.dispatched = false) (fun n hn => ?_) hnd
      split
      · exact fun hl => hn hl
      · exact hn
  exact ⟨fun n hn => SPay.of_not_dispatched (key n hn), key⟩

theorem spay_updateHint {r : SpendReq} (c h : Nat) (hp : SPayAll r) : SPayAll (r.updateHint c h) := by
  unfold SpendReq.updateHint; split <;> exact hp

theorem spay_mature {r : SpendReq} (height limit : Nat) (h : SPayAll r) :
    SPayAll (r.mature height limit) := by
  unfold SpendReq.mature
  split
  · split
    · exact h
    · refine all_map (P := SPay r.details) (fun n hn => ?_) h
      split
      · intro hl; simp at hl
      · rename_i hl
        intro hl'; rw [hl'] at hl; exact absurd rfl hl
  · exact h

/-- `ConnectTip`: either the block does not touch the request, or nobody had been told about a
    spend (`hq`, a consequence of `SWInv` and the validity of the chain) -/
theorem spay_connect {r : SpendReq} (cur limit : Nat) (b : Block) (h : SPayAll r)
    (hq : b.spendHits r.key ≠ [] → r.set = true →
      ∀ n ∈ r.ntfns, n.live = true → n.dispatched = false) :
    SPayAll (r.connect cur limit b) := by
  unfold SpendReq.connect
  apply spay_mature
  apply spay_updateHint
  cases hhits : b.spendHits r.key with
  | nil => exact h
  | cons p t =>
    cases hs : r.set with
    | false => rw [foldl_satTip_unset _ _ _ hs]; exact h
    | true =>
      have hnd := hq (by rw [hhits]; simp) hs
      have : ∀ (hits : List (Nat × Nat)) (r' : SpendReq), SPayAll r' →
          (∀ n ∈ r'.ntfns, n.live = true → n.dispatched = false) →
          SPayAll (hits.foldl (fun r p => r.atTip ⟨cur, p.1, p.2⟩) r') := by
        intro hits
        induction hits with
        | nil => intro r' h' _; exact h'
        | cons q t' ih =>
          intro r' _ hnd'
          obtain ⟨x, y⟩ := spay_atTip (r := r') ⟨cur, q.1, q.2⟩ hnd'
          exact ih _ x y
      exact this _ _ h hnd

theorem spay_notify {r : SpendReq} (cur limit height : Nat) (h : SPayAll r) :
    SPayAll (r.notify cur limit height) := by
  unfold SpendReq.notify
  split
  · exact h
  · split
    · exact h
    · exact spay_dispatchTo cur limit _ (fun n hn => Or.inl (h n hn))

theorem spay_disconnect {r : SpendReq} (cur height : Nat) (h : SPayAll r)
    (hr : ∀ n ∈ r.ntfns, n.live = true → n.reorg = 0) :
    SPayAll (r.disconnect cur height) := by
  unfold SpendReq.disconnect
  have h0 := spay_updateHint cur height h
  have hr0 : ∀ n ∈ (r.updateHint cur height).ntfns, n.live = true → n.reorg = 0 := by
    rw [(supdateHint_fields cur height r).2.2.2.2.2.2]; exact hr
  generalize r.updateHint cur height = r0 at h0 hr0
  simp only
  split
  · exact h0
  · split
    · exact h0
    · intro m hm
      simp only [List.mem_map] at hm
      obtain ⟨n, hn, rfl⟩ := hm
      split
      · rename_i hl
        exact spay_unspend (hr0 n hn hl)
      · rename_i hl
        intro hl'; rw [hl'] at hl; exact absurd rfl hl

theorem spay_drainS {r : SpendReq} (h : SPayAll r) : SPayAll (drainS r) :=
  all_map (P := SPay r.details) (fun _ hn => spay_drained hn) h

/-- the payload invariant is preserved by every world operation -/
theorem swstep_pay {w : SWorld} (op : SOp) (hw : SWInv w) (hok : SOk w op) (h : SPayAll w.r) :
    SPayAll (swstep w op).r := by
  have hq : SQuiet w.r := squiet_of_ri hw
  cases op with
  | register reg hint => exact spay_drainS (spay_register _ _ _ _ h hq)
  | cancel reg => exact spay_drainS (spay_cancel _ h)
  | update d => exact spay_drainS (spay_update _ _ _ h hq)
  | tip b =>
    refine spay_drainS (spay_notify _ _ _ (spay_drainS (spay_connect _ _ b h ?_)))
    intro hne _
    -- the block spends the outpoint, so no block of the old chain does: no details were known
    have hdn : w.r.details = none := by
      cases hd : w.r.details with
      | none => rfl
      | some d =>
        obtain ⟨bd, hbd, hbdhas⟩ := (hw.1.1.det d hd).1.spent
        exact absurd hbdhas (hok hne _ bd hbd)
    exact hq.1 hdn
  | untip => exact spay_drainS (spay_disconnect _ _ h hq.2.2)

theorem srun_pay {w : SWorld} {ops : List SOp} (hw : SWInv w) (hok : SOkRun w ops) (h : SPayAll w.r) :
    SPayAll (ops.foldl swstep w).r := by
  induction ops generalizing w with
  | nil => exact h
  | cons op rest ih => exact ih (swstep_inv hw hok.1) hok.2 (swstep_pay op hw hok.1 h)

end LndModel.C14
