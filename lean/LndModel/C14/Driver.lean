/-
C14 driver: replays a harness trace on the model (correspondence, `MISMATCH`)
and evaluates the property monitor on the implementation's answers (`MONITOR`).

(X) after every operation the model's result, the events the clients read, the
    complete notifier state and both hint caches must equal what the real
    `TxNotifier` produced.
(S) the monitor never looks at the model: it rebuilds the active chain from the
    `pre`/`conn`/`disc` lines and checks the clauses of the property on the
    events / hints printed by the implementation.
-/
import LndModel.Prelude.Lines
import LndModel.C14.Model
import LndModel.C14.TrackerDriver

open LndModel LndModel.Lines LndModel.C14

namespace LndModel.C14.Driver

/-! ### rendering (must match zz_c14_verif_test.go) -/

def pad2 (n : Nat) : String := if n < 10 then s!"0{n}" else toString n
def joinOr (sep : String) (l : List String) : String :=
  if l.isEmpty then "-" else sep.intercalate l
def sortStr (l : List String) : List String := (l.toArray.qsort (· < ·)).toList
def sortNat (l : List Nat) : List Nat := (l.toArray.qsort (· < ·)).toList
def heights (l : List Nat) : String := joinOr "." ((sortNat l).map toString)
def b01 (b : Bool) : Nat := if b then 1 else 0
def rescanNum : Rescan → Nat
  | .notStarted => 0 | .pending => 1 | .complete => 2
def optNat : Option Nat → String
  | some n => toString n | none => "-"

def renderConf (r : ConfReq) : String :=
  let det := match r.set, r.details with
    | true, some d => s!"{d.height}/{d.block}/{d.txIndex}" | _, _ => "-"
  let rs := if r.set then rescanNum r.rescan else 0
  let nts := if r.set then (r.ntfns.filter (·.live)).map
      (fun n => s!"r{pad2 n.reg}:{n.numConfs}:{b01 n.dispatched}:{n.left}") else []
  let q := r.ntfns.flatMap (fun n => n.queuedAt.map (fun h => s!"{pad2 h}:r{n.reg}"))
  s!"stc {r.key} set={b01 r.set} rs={rs} det={det} ini={heights r.initialAt} hint={optNat r.hint} nt={joinOr "," (sortStr nts)} q={joinOr "," (sortStr q)}"

def renderSpend (r : SpendReq) : String :=
  let det := match r.set, r.details with
    | true, some d => s!"{d.height}/{d.spender}/{d.input}" | _, _ => "-"
  let rs := if r.set then rescanNum r.rescan else 0
  let nts := if r.set then (r.ntfns.filter (·.live)).map
      (fun n => s!"r{pad2 n.reg}:{b01 n.dispatched}") else []
  s!"sts {r.key} set={b01 r.set} rs={rs} det={det} at={heights r.spentAt} hint={optNat r.hint} nt={joinOr "," (sortStr nts)}"

def renderConfEv (e : ConfEvents) : Option String :=
  let parts : List String :=
    (if e.updates.isEmpty then [] else
      ["U=" ++ ",".intercalate (e.updates.map fun u => s!"{u.left}@{u.height}")]) ++
    (if e.confirmed.isEmpty then [] else
      ["C=" ++ ",".intercalate (e.confirmed.map fun d => s!"{d.height}/{d.block}/{d.txIndex}")]) ++
    (if e.negConf.isEmpty then [] else ["N=" ++ ",".intercalate (e.negConf.map toString)]) ++
    (if e.done == 0 then [] else [s!"D={e.done}"])
  if parts.isEmpty then none else some (s!"ev r{e.reg} " ++ " ".intercalate parts)

def renderSpendEv (e : SpendEvents) : Option String :=
  let parts : List String :=
    (e.spend.map fun d => s!"S={d.height}/{d.spender}/{d.input}") ++
    (if e.reorg == 0 then [] else ["R=1"]) ++
    (if e.done == 0 then [] else ["D=1"])
  if parts.isEmpty then none else some (s!"ev r{e.reg} " ++ " ".intercalate parts)

def renderRes : Res → String
  | .ok => "ok"
  | .hist a b => s!"hist {a} {b}"
  | .errOrder => "err order"
  | .errNumConfs => "err numconfs"
  | .errNoHint => "err nohint"
  | .errNotFound => "err notfound"

/-! ### parsing -/

def parseTriple (s : String) : Option (Nat × Nat × Nat) :=
  match s.splitOn "/" with
  | [a, b, c] =>
    let c := if c.endsWith "!" then (c.dropEnd 1).toString else c
    match a.toNat?, b.toNat?, c.toNat? with
    | some a, some b, some c => some (a, b, c)
    | _, _, _ => none
  | _ => none

def parseTx (s : String) : Option Tx :=
  match s.splitOn ":" with
  | [i, sp] =>
    match i.toNat? with
    | some i =>
      if sp == "-" then some ⟨i, []⟩
      else some ⟨i, (sp.splitOn ".").filterMap (·.toNat?)⟩
    | none => none
  | _ => none

def parseBlock (ws : List String) : Option Block :=
  match ws with
  | b :: txs =>
    if b.startsWith "b" then
      match (b.drop 1).toString.toNat? with
      | some id => some ⟨id, txs.filterMap parseTx⟩
      | none => none
    else none
  | [] => none

def parseReg (s : String) : Option Nat :=
  if s.startsWith "r" then (s.drop 1).toString.toNat? else none

inductive POp where
  | op (o : Op)
  | drain
  /-- `HandleMissedBlocks`/`RewindChain`: the backend switched to a fork `k` blocks deep -/
  | rewind (k : Nat)
  /-- a new TxNotifier on the same (persisted) hint caches -/
  | restart
  deriving Inhabited

/-- the words before `=>` and the result after it -/
def splitArrow (ws : List String) : List String × String :=
  (ws.takeWhile (· ≠ "=>"), " ".intercalate ((ws.dropWhile (· ≠ "=>")).drop 1))

def parseOp (ws : List String) : Option (POp × Nat) :=
  -- second component: the scanned range of an upd op, encoded as `from * 1000 + to`
  match ws with
  | ["seedc", k, h] => do some (.op (.seedConf (← k.toNat?) (← h.toNat?)), 0)
  | ["seeds", k, h] => do some (.op (.seedSpend (← k.toNat?) (← h.toNat?)), 0)
  | ["regc", k, n, h] => do some (.op (.regConf (← k.toNat?) (← n.toNat?) (← h.toNat?)), 0)
  | ["regs", k, h] => do some (.op (.regSpend (← k.toNat?) (← h.toNat?)), 0)
  | ["cancel", r] => do some (.op (.cancel (← parseReg r)), 0)
  | "conn" :: h :: rest => do some (.op (.connect (← h.toNat?) (← parseBlock rest)), 0)
  | ["ntfy", h] => do some (.op (.notify (← h.toNat?)), 0)
  | ["disc", h] => do some (.op (.disconnect (← h.toNat?)), 0)
  | ["updc", k, f, t, d] => do
    let f ← kvNat? [f] "from"
    let t ← kvNat? [t] "to"
    let f := f * 1000 + t
    let k ← k.toNat?
    if d == "none" then some (.op (.updConf k none), f)
    else
      let (a, b, c) ← parseTriple d
      some (.op (.updConf k (some ⟨a, b, c⟩)), f)
  | ["upds", k, f, t, d] => do
    let f ← kvNat? [f] "from"
    let t ← kvNat? [t] "to"
    let f := f * 1000 + t
    let k ← k.toNat?
    if d == "none" then some (.op (.updSpend k none), f)
    else
      let (a, b, c) ← parseTriple d
      some (.op (.updSpend k (some ⟨a, b, c⟩)), f)
  | ["drain"] => some (.drain, 0)
  | ["rewind", k] => do some (.rewind (← k.toNat?), 0)
  | ["restart"] => some (.restart, 0)
  | _ => none

/-- one client's events as printed by the harness -/
structure Ev where
  reg : Nat
  conf : List (Nat × Nat × Nat) := []   -- C / S payloads
  bad : Bool := false                   -- payload flagged `!` by the harness
  neg : Bool := false                   -- N / R
  done : Bool := false
  isSpend : Bool := false
  deriving Inhabited

def parseEv (ws : List String) : Option Ev :=
  match ws with
  | "ev" :: r :: parts => do
    let reg ← parseReg r
    let mut e : Ev := { reg := reg }
    for p in parts do
      if p.startsWith "C=" then
        let body := (p.drop 2).toString
        e := { e with conf := (body.splitOn ",").filterMap parseTriple, bad := e.bad || body.contains '!' }
      else if p.startsWith "S=" then
        let body := (p.drop 2).toString
        e := { e with conf := (body.splitOn ",").filterMap parseTriple, bad := e.bad || body.contains '!',
                      isSpend := true }
      else if p.startsWith "N=" then e := { e with neg := true }
      else if p.startsWith "R=" then e := { e with neg := true, isSpend := true }
      else if p.startsWith "D=" then e := { e with done := true }
      else pure ()
    some e
  | _ => none

/-! ### monitor state (independent of the model) -/

structure MBlock where
  height : Nat
  id : Nat
  txs : List Tx
  t : Nat
  deriving Inhabited

structure MReg where
  reg : Nat
  conf : Bool
  key : Nat
  n : Nat
  live : Bool := true
  status : Option (Nat × Nat × Nat) := none
  deriving Inhabited

structure MKey where
  conf : Bool
  key : Nat
  active : Bool := false
  created : Nat := 0
  rescanDone : Bool := false
  upds : List (Nat × Nat × Nat) := []
  hints : List Nat := []
  tainted : Bool := false
  hint : Option Nat := none
  prevHint : Option Nat := none
  /-- a rescan reported details at this height while the request had no client left -/
  orphan : Option Nat := none
  /-- ... and that block has been disconnected since (finding: the notifier keeps the details) -/
  stale : Bool := false
  /-- hint value cached while `stale` -/
  staleHint : Option Nat := none
  /-- after a restart, until somebody registers again: nobody maintains the persisted hint -/
  unwatched : Bool := false
  deriving Inhabited

/-- clause name: failures on a request in the known "orphan details" situation are attributed to it -/
def explainedByOrphan : List String :=
  ["conf_missing", "hint_safe_conf", "reorg_notice", "spend_missing", "hint_safe_spend", "done_early"]

/-- Failures the recorded defect explains for a request whose stale details are still cached by the
    notifier (i.e. until the request set is deleted).  Everything else keeps its own clause. -/
def MKey.cl (k : MKey) (clause : String) : String :=
  if k.stale && explainedByOrphan.contains clause then s!"orphan_details sub={clause}" else clause

/-- the same for a failure about delivered/believed details at height `h`: only if these are the
    orphaned details themselves -/
def MKey.clAt (k : MKey) (clause : String) (h : Nat) : String :=
  if k.stale && k.orphan == some h then s!"orphan_details sub={clause}" else clause

/-- the hint clause: also after the set was deleted, as long as the cache still holds the value
    written while the stale details were cached -/
def MKey.clHint (k : MKey) (clause : String) : String :=
  if k.stale || (k.staleHint.isSome && k.staleHint == k.hint) then s!"orphan_details sub={clause}"
  else clause

structure Mon where
  on : Bool := false
  limit : Nat := 0
  cur : Nat := 0
  maxTip : Nat := 0
  t : Nat := 0
  pendingNotify : Nat := 0
  chain : List MBlock := []
  regs : List MReg := []
  keys : List MKey := []
  nextReg : Nat := 0
  deriving Inhabited

def Mon.key (m : Mon) (conf : Bool) (k : Nat) : MKey :=
  (m.keys.find? (fun x => x.conf == conf && x.key == k)).getD { conf := conf, key := k }

def Mon.setKey (m : Mon) (k : MKey) : Mon :=
  if m.keys.any (fun x => x.conf == k.conf && x.key == k.key) then
    { m with keys := m.keys.map (fun x => if x.conf == k.conf && x.key == k.key then k else x) }
  else { m with keys := m.keys ++ [k] }

/-- inclusion of conf key on the active chain: (height, block id, index, connect time) -/
def Mon.incConf (m : Mon) (k : Nat) : Option (Nat × Nat × Nat × Nat) :=
  m.chain.findSome? fun b =>
    match (b.txs.zipIdx.find? (fun p => p.1.id == k)) with
    | some p => some (b.height, b.id, p.2, b.t)
    | none => none

/-- spend of outpoint on the active chain: (height, spender, input, connect time) -/
def Mon.incSpend (m : Mon) (k : Nat) : Option (Nat × Nat × Nat × Nat) :=
  m.chain.findSome? fun b =>
    b.txs.findSome? fun tx =>
      match tx.spends.zipIdx.find? (fun p => p.1 == k) with
      | some p => some (b.height, tx.id, p.2, b.t)
      | none => none

def Mon.inc (m : Mon) (conf : Bool) (k : Nat) : Option (Nat × Nat × Nat × Nat) :=
  if conf then m.incConf k else m.incSpend k

/-- must the notifier be aware of the inclusion at height `h` in a block connected at `tb`? -/
def MKey.knows (k : MKey) (h tb : Nat) : Bool :=
  k.active && (tb > k.created || k.upds.any (fun (tu, from_, to_) => tu > tb && from_ ≤ h && h ≤ to_))

/-- is the active chain valid (no tx twice, no outpoint spent twice)? -/
def Mon.chainValid (m : Mon) : Bool :=
  let ids := m.chain.flatMap (fun b => b.txs.map (·.id))
  let ops := m.chain.flatMap (fun b => b.txs.flatMap (·.spends))
  ids.eraseDups.length == ids.length && ops.eraseDups.length == ops.length

/-! ### driver state -/

structure St where
  caseId : String := "0"
  m : State := { cur := 0, limit := 0 }
  lazy : Bool := false
  dead : Bool := false
  last : List (String × String) := []
  /-- persisted-cache stream: only hints are printed by the harness -/
  ext : Bool := false
  lastHint : List (String × String) := []
  /-- changed full state lines of the MODEL (used for set-deletion detection in `ext` mode) -/
  modelSet : List String := []
  expect : List String := []
  got : List String := []
  haveOp : Bool := false
  opLine : String := ""
  pop : Option POp := none
  opFrom : Nat := 0
  opRes : String := ""
  evs : List Ev := []
  mon : Mon := {}
  lines : Nat := 0
  cases : Nat := 0
  ops : Nat := 0
  mismatches : Nat := 0
  monitorFails : Nat := 0
  samples : Nat := 0
  sampleLeft : Nat := 0
  seen : List String := []
  -- monitor statistics
  cSound : Nat := 0
  cComplete : Nat := 0
  cRetract : Nat := 0
  cReorgNotice : Nat := 0
  cHint : Nat := 0
  cHintMove : Nat := 0
  cRange : Nat := 0
  cDone : Nat := 0
  cOnce : Nat := 0
  monCases : Nat := 0
  /-- lazy stream: per client, "the last Confirmed/Spend it read has not been followed by a notice" -/
  lazyHold : List (Nat × Bool) := []
  lazyDoubleConf : Nat := 0
  lazyDoubleSpend : Nat := 0
  lazyCasesWithDouble : Nat := 0
  lazyCaseFlag : Bool := false
  blockedOps : Nat := 0
  panicOps : Nat := 0
  invalidCases : Nat := 0
  /-- `ConnectTip` has been answered `ok` and its `NotifyHeight` has not been issued yet -/
  midState : Bool := false
  midOps : Nat := 0
  midRegs : Nat := 0
  midUpds : Nat := 0
  midCancels : Nat := 0
  /-- mid-state registrations after which some client is dispatched AND still queued (it was
      served by another client's registration; `CoreM` of Mid.lean) -/
  midServedQueued : Nat := 0

def mismatch (s : St) (detail : String) : IO St := do
  if s.mismatches < 40 then
    IO.println s!"MISMATCH case={s.caseId} line={s.lines} {detail}"
  return { s with mismatches := s.mismatches + 1 }

def monitor (s : St) (clause detail : String) : IO St := do
  let n := (s.seen.filter (· == clause)).length
  if n < 3 then
    IO.println s!"MONITOR case={s.caseId} clause={clause} line={s.lines} op=[{s.opLine}] {detail}"
  return { s with monitorFails := s.monitorFails + 1, seen := if n < 3 then clause :: s.seen else s.seen }

/-- make sure the model has a record for a key the harness has mentioned -/
def touchConf (m : State) (k : Nat) : State :=
  if m.confs.any (·.key == k) then m else { m with confs := m.confs ++ [{ key := k }] }
def touchSpend (m : State) (k : Nat) : State :=
  if m.spends.any (·.key == k) then m else { m with spends := m.spends ++ [{ key := k }] }

def touch (m : State) : Op → State
  | .seedConf k _ | .regConf k _ _ | .updConf k _ => touchConf m k
  | .seedSpend k _ | .regSpend k _ | .updSpend k _ => touchSpend m k
  | _ => m

/-- all state lines of the model, keyed -/
def stateLines (m : State) : List (String × String) :=
  [("g", s!"stg cur={m.cur} rd={m.reorgDepth}")] ++
  m.confs.map (fun r => (s!"c{r.key}", renderConf r)) ++
  m.spends.map (fun r => (s!"s{r.key}", renderSpend r))

/-- the hint lines of the persisted-cache stream -/
def hintLines (m : State) : List (String × String) :=
  m.confs.map (fun r => (s!"c{r.key}", s!"hic {r.key} hint={optNat r.hint}")) ++
  m.spends.map (fun r => (s!"s{r.key}", s!"his {r.key} hint={optNat r.hint}"))

/-- lines that changed w.r.t. `last`, and the new `last` -/
def changed (last cur : List (String × String)) : List String × List (String × String) :=
  let ch := cur.filter (fun (k, v) => (last.lookup k) != some v)
  let last' := cur ++ last.filter (fun (k, _) => (cur.lookup k).isNone)
  (ch.map (·.2), last')

/-! ### the monitor -/

def tripleStr (x : Nat × Nat × Nat) : String := s!"{x.1}/{x.2.1}/{x.2.2}"

/-- A reorg while a request is not registered at all (after a restart): its persisted hint is
    not maintained by anybody, so from now on it counts like a client-supplied hint (the hint
    clause is only claimed for inclusions at or above it). -/
def Mon.voidUnwatched (m : Mon) : Mon :=
  { m with keys := m.keys.map fun k =>
      match k.unwatched, k.hint with
      | true, some v => { k with hints := v :: k.hints }
      | _, _ => k }

/-- a successful registration -/
def monReg (s : St) (conf : Bool) (k n hint : Nat) : IO St := do
  let mut s := s
  let mut m := s.mon
  let t := m.t
  let mk := m.key conf k
  let start := match mk.hint with
    | some c => if c > hint then c else hint
    | none => hint
  let mut mk := { mk with hints := hint :: mk.hints, orphan := if mk.stale then mk.orphan else none,
                          unwatched := false }
  if !mk.tainted then
    s := { s with cRange := s.cRange + 1 }
  if !mk.active then
    mk := { mk with active := true, created := t, rescanDone := false, upds := [] }
    if start > m.cur then
      mk := { mk with rescanDone := true }
      if s.opRes != "ok" && !mk.tainted then
        s ← monitor s (mk.cl "rescan_range") s!"start={start} > cur={m.cur} but a rescan was requested: {s.opRes}"
    else
      if s.opRes != s!"hist {start} {m.cur}" && !mk.tainted then
        s ← monitor s (mk.cl "rescan_range") s!"first registration must request rescan [{start},{m.cur}] (hint={hint}, cached={optNat mk.hint}), got: {s.opRes}"
  else
    if s.opRes != "ok" && !mk.tainted then
      s ← monitor s (mk.cl "rescan_range") s!"second rescan requested: {s.opRes}"
  m := m.setKey mk
  m := { m with regs := m.regs ++ [{ reg := m.nextReg, conf := conf, key := k, n := n }],
                nextReg := m.nextReg + 1 }
  return { s with mon := m }

/-- a historical rescan reported `claim` for the range `[s.opFrom / 1000, s.opFrom % 1000]`.
    The answer is truthful iff it is what the active chain says about that RANGE now: a
    transaction confirmed later at tip, above the range, makes "not found" a truthful late answer. -/
def monUpd (s : St) (conf : Bool) (k : Nat) (claim : Option (Nat × Nat × Nat)) : St :=
  let m := s.mon
  let mk := m.key conf k
  if mk.active then
    let from_ := s.opFrom / 1000
    let to_ := s.opFrom % 1000
    let truth := match m.inc conf k with
      | some (ih, x, i, _) => if ih ≥ from_ && ih ≤ to_ then some (ih, x, i) else none
      | none => none
    if truth != claim then
      { s with mon := m.setKey { mk with tainted := true, rescanDone := true } }
    else
      let noClient := !(m.regs.any (fun r => r.live && r.conf == conf && r.key == k))
      let wasKnown := match m.inc conf k with
        | some (ih, _, _, tb) => mk.knows ih tb
        | none => false
      let orphan := match claim with
        | some c => if noClient && !wasKnown then some c.1 else mk.orphan
        | none => mk.orphan
      { s with mon := m.setKey { mk with upds := (m.t, from_, to_) :: mk.upds, rescanDone := true,
                                         orphan := orphan } }
  else s

/-- details of a Confirmed / Spend event name the active chain? -/
def detailsOnChain (m : Mon) (conf : Bool) (key : Nat) (c : Nat × Nat × Nat) : Bool :=
  match m.chain.find? (·.height == c.1) with
  | some b =>
    if conf then b.id == c.2.1 && ((b.txs[c.2.2]?).map (·.id)) == some key
    else b.txs.any (fun tx => tx.id == c.2.1 && tx.spends[c.2.2]? == some key)
  | none => false

/-- process the finished operation on the monitor side -/
def monitorOp (s : St) : IO St := do
  let some pop := s.pop | return s
  let mut s := s
  if !s.mon.on then return s
  s := { s with mon := { s.mon with t := s.mon.t + 1 } }
  let t := s.mon.t
  let resOk := s.opRes == "ok" || s.opRes.startsWith "hist"
  let mut doneExpected : List Nat := []
  let mut negExpected : List Nat := []
  -- requests the implementation dropped in this operation
  let ended : List (Bool × Nat) := (if s.ext then s.modelSet else s.got).filterMap fun line =>
    match words line with
    | tag :: k :: rest =>
      if (tag == "stc" || tag == "sts") && kv? rest "set" == some "0" then
        match k.toNat? with
        | some k => if (s.mon.key (tag == "stc") k).active then some (tag == "stc", k) else none
        | none => none
      else none
    | _ => none
  let isConn := match pop with
    | .op (.connect ..) => true
    | _ => false
  let isRestart := match pop with
    | .restart => true
    | _ => false
  let ended := if isRestart then [] else ended
  if !isConn then
    for (kc, kk) in ended do
      s ← monitor s "done_early" s!"{if kc then "conf" else "spend"} key={kk} dropped outside ConnectTip"
  match pop with
  | .drain => pure ()
  | .restart =>
    let m := s.mon
    s := { s with mon := { m with
      regs := m.regs.map (fun r => { r with live := false }),
      pendingNotify := 0,
      keys := m.keys.map (fun k => { k with active := false, rescanDone := false, upds := [],
                                            stale := false, orphan := none, tainted := false,
                                            unwatched := true }) } }
  | .rewind k =>
    -- the backend's main chain lost its top `k` blocks, whatever the notifier did
    s := { s with mon := s.mon.voidUnwatched }
    for i in List.range k do
      let m := s.mon
      let h := m.cur - i
      if resOk then
        for mk in m.keys do
          if mk.active && mk.conf && !mk.tainted then
            match m.incConf mk.key with
            | some (ih, _, _, tb) =>
              if ih == h && mk.knows ih tb then
                for r in m.regs do
                  if r.live && r.conf && r.key == mk.key then negExpected := r.reg :: negExpected
            | none => pure ()
      s := { s with mon := { m with chain := m.chain.filter (·.height != h),
                                    keys := m.keys.map (fun x => if x.orphan == some h then { x with stale := true } else x) } }
    s := { s with cReorgNotice := s.cReorgNotice + negExpected.length,
                  mon := { s.mon with cur := s.mon.cur - k, pendingNotify := 0 } }
  | .op o =>
    match o with
    | .seedConf k h =>
      let mk := s.mon.key true k
      s := { s with mon := s.mon.setKey { mk with hints := h :: mk.hints, hint := some h } }
    | .seedSpend k h =>
      let mk := s.mon.key false k
      s := { s with mon := s.mon.setKey { mk with hints := h :: mk.hints, hint := some h } }
    | .regConf k n hint => if resOk then s ← monReg s true k n hint
    | .regSpend k hint => if resOk then s ← monReg s false k 1 hint
    | .cancel r =>
      s := { s with mon := { s.mon with regs := s.mon.regs.map (fun x => if x.reg == r then { x with live := false } else x) } }
    | .connect h b =>
      if resOk then
        let mut m := s.mon
        m := { m with cur := h, maxTip := max m.maxTip h, pendingNotify := h,
                      chain := m.chain ++ [{ height := h, id := b.id, txs := b.txs, t := t }] }
        -- sightings at tip complete the rescan
        m := { m with keys := m.keys.map fun k =>
          if k.active && ((k.conf && b.txs.any (·.id == k.key)) ||
                          (!k.conf && b.txs.any (fun tx => tx.spends.contains k.key))) then
            { k with rescanDone := true } else k }
        -- maturity: the implementation reports (state line, `set=0`) that it dropped the request
        for (kc, kk) in ended do
          let k := m.key kc kk
          if k.active then
            let final := match m.inc kc kk with
              | some (ih, _, _, _) => ih + m.limit ≤ h
              | none => false
            if !final && !k.tainted then
              s ← monitor s (k.cl "done_early") s!"{if kc then "conf" else "spend"} key={kk} dropped although it is not beyond the reorg safety limit"
            -- the notifier dropped the set: stale details / untruthful rescan answers are gone
            m := m.setKey { k with active := false, stale := false, orphan := none, tainted := false }
            for r in m.regs do
              if r.live && r.conf == kc && r.key == kk && !k.tainted then
                doneExpected := r.reg :: doneExpected
            m := { m with regs := m.regs.map (fun r =>
              if r.conf == kc && r.key == kk then { r with live := false } else r) }
        s := { s with mon := m }
    | .notify h =>
      if h == s.mon.pendingNotify then s := { s with mon := { s.mon with pendingNotify := 0 } }
    | .disconnect h =>
      if resOk then
        let m := s.mon.voidUnwatched
        -- every live client of a known confirmation in the disconnected block gets a reorg notice
        for k in m.keys do
          if k.active && k.conf && !k.tainted then
            match m.incConf k.key with
            | some (ih, _, _, tb) =>
              if ih == h && k.knows ih tb then
                for r in m.regs do
                  if r.live && r.conf && r.key == k.key then negExpected := r.reg :: negExpected
            | none => pure ()
        s := { s with cReorgNotice := s.cReorgNotice + negExpected.length,
                      mon := { m with cur := h - 1, pendingNotify := 0, chain := m.chain.filter (·.height != h),
                                      keys := m.keys.map (fun k => if k.orphan == some h then { k with stale := true } else k) } }
    | .updConf k d =>
      if resOk then s := monUpd s true k (d.map fun d => (d.height, d.block, d.txIndex))
    | .updSpend k d =>
      if resOk then s := monUpd s false k (d.map fun d => (d.height, d.spender, d.input))
  -- events
  for e in s.evs do
    match s.mon.regs.find? (·.reg == e.reg) with
    | none => s ← monitor s "unknown_client" s!"event for unknown client r{e.reg}"
    | some r0 =>
      let m := s.mon
      let mk := m.key r0.conf r0.key
      let mut r := r0
      if e.neg then
        let inDisc := match pop with
          | .op (.disconnect ..) => true
          | .drain => true
          | .rewind _ => true
          | _ => false
        if !inDisc && !mk.tainted then
          s ← monitor s (mk.cl "reorg_spurious") s!"r{r.reg} got a reorg notice outside DisconnectTip"
        r := { r with status := none }
      for c in e.conf do
        if !mk.tainted then
          s := { s with cSound := s.cSound + 1 }
          if r.status.isSome then
            s ← monitor s (mk.cl "dispatch_once") s!"r{r.reg} got {tripleStr c} while {(r.status.map tripleStr).getD ""} was not retracted"
          if e.bad then
            s ← monitor s (mk.cl "details") s!"r{r.reg} got details for another transaction/outpoint"
          if !detailsOnChain m r.conf r.key c then
            s ← monitor s (mk.clAt (if r.conf then "conf_active_chain" else "spend_active_chain") c.1)
              s!"r{r.reg} key={r.key} told {tripleStr c} which is not on the active chain (cur={m.cur})"
          else if r.conf && c.1 + r.n > m.cur + 1 then
            s ← monitor s (mk.cl "conf_depth") s!"r{r.reg} told confirmed at {c.1} with N={r.n} but cur={m.cur}"
        r := { r with status := some c }
      if e.done then
        s := { s with cDone := s.cDone + 1 }
        if doneExpected.contains r.reg then
          doneExpected := doneExpected.erase r.reg
        else if !mk.tainted then
          s ← monitor s (mk.cl "done_early") s!"r{r.reg} got Done although its request is not beyond the reorg safety limit"
      if negExpected.contains r.reg && e.neg then
        negExpected := negExpected.erase r.reg
      s := { s with mon := { s.mon with regs := s.mon.regs.map (fun x => if x.reg == r.reg then { r with live := x.live } else x) } }
  if !s.lazy then
    let keyOf (r : Nat) : MKey := match s.mon.regs.find? (·.reg == r) with
      | some x => s.mon.key x.conf x.key
      | none => { conf := true, key := 0 }
    for r in doneExpected do
      s ← monitor s ((keyOf r).cl "done_missing") s!"r{r} did not get Done at maturity"
    for r in negExpected do
      s ← monitor s ((keyOf r).cl "reorg_notice") s!"r{r}: the block containing its transaction was disconnected but no NegativeConf was sent"
  return s

/-- hint values printed by the implementation after the operation -/
def monitorHints (s : St) : St :=
  let m := s.mon
  let upd (m : Mon) (line : String) : Mon :=
    let ws := words line
    match ws with
    | tag :: k :: rest =>
      if tag == "stc" || tag == "sts" || tag == "hic" || tag == "his" then
        match k.toNat? with
        | some k =>
          let mk := m.key (tag == "stc" || tag == "hic") k
          m.setKey { mk with hint := (kv? rest "hint").bind (·.toNat?) }
        | none => m
      else m
    | _ => m
  { s with mon := s.got.foldl upd m }

/-- clauses evaluated on the state after the operation -/
def monitorState (s : St) (activeBefore staleBefore : List (Bool × Nat)) : IO St := do
  let mut s := s
  let m := s.mon
  if !m.on then return s
  if !m.chainValid then
    -- the harness marks such histories `invalid`; be safe
    return { s with mon := { m with on := false } }
  let isTip := match s.pop with
    | some (.op (.connect ..)) | some (.op (.disconnect ..)) => s.opRes == "ok"
    | some (.rewind _) => s.opRes == "ok"
    | _ => false
  for r in m.regs do
    let mk := m.key r.conf r.key
    if r.live && !mk.tainted then
      -- retraction: a delivered confirmation/spend still names the active chain
      match r.status with
      | some c =>
        s := { s with cRetract := s.cRetract + 1 }
        let still :=
          match m.chain.find? (·.height == c.1) with
          | some b => if r.conf then b.id == c.2.1 else b.txs.any (fun tx => tx.id == c.2.1 && tx.spends[c.2.2]? == some r.key)
          | none => false
        if !still then
          s ← monitor s (mk.clAt (if r.conf then "conf_retract" else "spend_retract") c.1)
            s!"r{r.reg} key={r.key} still believes {tripleStr c} which left the active chain without a reorg notice"
      | none => pure ()
      -- completeness
      if m.pendingNotify == 0 && mk.active then
        match m.inc r.conf r.key with
        | some (ih, x, i, tb) =>
          if mk.knows ih tb && (!r.conf || m.cur + 1 ≥ ih + r.n) then
            s := { s with cComplete := s.cComplete + 1 }
            if r.status != some (ih, x, i) then
              s ← monitor s (mk.cl (if r.conf then "conf_missing" else "spend_missing"))
                s!"r{r.reg} key={r.key} N={r.n}: on the active chain at {ih}/{x}/{i}, cur={m.cur}, but the client was told {(r.status.map tripleStr).getD "nothing"}"
        | none => pure ()
  -- hints
  for mk0 in m.keys do
    -- the set may have been dropped in this very operation: the hint written by it still stems
    -- from the stale period
    let mk := if staleBefore.contains (mk0.conf, mk0.key) && !mk0.stale
      then { mk0 with staleHint := mk0.hint } else mk0
    if !mk.tainted then
      match mk.hint, m.inc mk.conf mk.key with
      | some v, some (ih, _, _, _) =>
        if mk.hints.all (· ≤ ih) then
          s := { s with cHint := s.cHint + 1 }
          if v > ih then
            s ← monitor s (mk.clHint (if mk.conf then "hint_safe_conf" else "hint_safe_spend"))
              s!"key={mk.key}: cached hint {v} > actual height {ih} on the active chain"
      | _, _ => pure ()
      if isTip && mk.hint != mk.prevHint then
        s := { s with cHintMove := s.cHintMove + 1 }
        if !(activeBefore.contains (mk.conf, mk.key) && mk.rescanDone) then
          s ← monitor s (mk.cl "hint_moved_pending") s!"{if mk.conf then "conf" else "spend"} key={mk.key}: hint moved {optNat mk.prevHint}→{optNat mk.hint} with the tip although the rescan is not complete"
  s := { s with mon := { s.mon with keys := s.mon.keys.map (fun k =>
    { k with prevHint := k.hint,
             staleHint := if k.stale || staleBefore.contains (k.conf, k.key) then k.hint
                          else if k.staleHint == k.hint then k.staleHint else none }) } }
  return s

/-! ### per-operation bookkeeping -/

/-- close the current operation: compare the collected implementation lines with the model's
    and run the monitor. -/
def finishOp (s : St) : IO St := do
  if !s.haveOp then return s
  let mut s := s
  -- (X) sets of event/state lines
  let exp := sortStr s.expect
  let got := sortStr s.got
  if exp != got && !s.dead then
    let missing := exp.filter (fun l => !got.contains l)
    let extra := got.filter (fun l => !exp.contains l)
    s ← mismatch s s!"after [{s.opLine}]: model-only={missing} impl-only={extra}"
  -- (S)
  let activeBefore := s.mon.keys.filter (·.active) |>.map (fun k => (k.conf, k.key))
  let staleBefore := s.mon.keys.filter (·.stale) |>.map (fun k => (k.conf, k.key))
  s ← monitorOp s
  s := monitorHints s
  s ← monitorState s activeBefore staleBefore
  return { s with haveOp := false, expect := [], got := [], evs := [], pop := none }

/-- expectations after the model reached `m2` having emitted `evl` -/
def expectAfter (s : St) (m2 : State) (evl : List String) : St :=
  let (ch, last') := changed s.last (stateLines m2)
  if s.ext then
    let (hch, lh') := changed s.lastHint (hintLines m2)
    { s with m := m2, expect := evl ++ hch, last := last', lastHint := lh', modelSet := ch }
  else
    { s with m := m2, expect := evl ++ ch, last := last', modelSet := [] }

def step (s : St) (line : String) : IO St := do
  let s := { s with lines := s.lines + 1 }
  let ws := words line
  match ws with
  | [] => return s
  | "FACT" :: rest =>
    -- constants of the package (the notifier under test gets its limit per case)
    if kvNat? rest "maxNumConfs" != kvNat? rest "reorgSafetyLimit" then
      mismatch s "MaxNumConfs ≠ ReorgSafetyLimit"
    else return s
  | "HSTAT" :: kv :: _ =>
    IO.println s!"STAT gen_{kv}"
    return s
  | "CASE" :: id :: rest =>
    let s ← finishOp s
    let limit := (kvNat? rest "limit").getD 0
    let start := (kvNat? rest "start").getD 0
    let lazy := (kvNat? rest "lazy").getD 0 == 1
    let kind := (kv? rest "kind").getD ""
    let monOn := kind == "valid" || kind == "story" || kind == "persist"
    let ext := (kvNat? rest "ext").getD 0 == 1
    let s := { s with lazyHold := [], lazyCaseFlag := false, ext := ext, lastHint := [], modelSet := [],
                       midState := false }
    let s := { s with caseId := id, m := { cur := start, limit := limit }, lazy := lazy, dead := false,
                       last := [], expect := [], got := [], haveOp := false, evs := [],
                       mon := { on := monOn, limit := limit, cur := start, maxTip := start },
                       cases := s.cases + 1, monCases := s.monCases + (if monOn then 1 else 0) }
    if s.samples < 3 then
      IO.println s!"SAMPLE {line}"
      return { s with samples := s.samples + 1, sampleLeft := 6 }
    return s
  | ["END"] => finishOp s
  | "pre" :: h :: rest =>
    match h.toNat?, parseBlock rest with
    | some h, some b =>
      return { s with mon := { s.mon with chain := s.mon.chain ++ [{ height := h, id := b.id, txs := b.txs, t := 0 }] } }
    | _, _ => mismatch s s!"unparsed line: {line.take 60}"
  | "invalid" :: _ =>
    let s ← finishOp s
    return { s with mon := { s.mon with on := false }, invalidCases := s.invalidCases + 1 }
  | "ev" :: _ =>
    match parseEv ws with
    | some e =>
      let mut s := { s with got := line :: s.got, evs := s.evs ++ [e] }
      if s.lazy then
        -- what an asynchronous client reads: two Confirmed (Spend) without a notice in between?
        let hold0 := (s.lazyHold.lookup e.reg).getD false
        let hold1 := if e.neg then false else hold0
        let mut hold := hold1
        for _ in e.conf do
          if hold then
            if e.isSpend then s := { s with lazyDoubleSpend := s.lazyDoubleSpend + 1 }
            else s := { s with lazyDoubleConf := s.lazyDoubleConf + 1 }
            if !s.lazyCaseFlag then
              s := { s with lazyCaseFlag := true, lazyCasesWithDouble := s.lazyCasesWithDouble + 1 }
              if s.lazyCasesWithDouble ≤ 2 then
                IO.println s!"SAMPLE lazy client r{e.reg} in case {s.caseId} read two {if e.isSpend then "Spend" else "Confirmed"} events without a reorg notice in between (second: [{line}])"
          hold := true
        s := { s with lazyHold := (e.reg, hold) :: s.lazyHold.filter (·.1 != e.reg) }
      return s
    | none => mismatch s s!"unparsed line: {line.take 60}"
  | "stg" :: _ | "stc" :: _ | "sts" :: _ | "hic" :: _ | "his" :: _ =>
    return { s with got := line :: s.got }
  | _ =>
    let (lhs, res) := splitArrow ws
    let some (pop, from_) := parseOp lhs | mismatch s s!"unparsed line: {line.take 60}"
    let s ← finishOp s
    let mut s := { s with ops := s.ops + 1, haveOp := true, opLine := line, pop := some pop,
                          opFrom := from_, opRes := res }
    if s.sampleLeft > 0 then
      IO.println s!"SAMPLE   {line}"
      s := { s with sampleLeft := s.sampleLeft - 1 }
    if s.dead then return s
    -- (X) model
    match pop with
    | .drain =>
      let (m', ce, se) := s.m.drain
      let evl := ce.filterMap renderConfEv ++ se.filterMap renderSpendEv
      return expectAfter s m' evl
    | .restart =>
      -- everything but the hint caches is gone
      let m' : State :=
        { cur := s.m.cur, limit := s.m.limit, nextReg := s.m.nextReg,
          confs := s.m.confs.map (fun r => { key := r.key, hint := r.hint }),
          spends := s.m.spends.map (fun r => { key := r.key, hint := r.hint }) }
      return expectAfter s m' []
    | .rewind k =>
      -- RewindChain: `k` successive DisconnectTip calls, clients read afterwards
      let (m1, r) := (List.range k).foldl (fun (acc : State × Res) _ =>
        if acc.2 == .ok then C14.step acc.1 (.disconnect acc.1.cur) else acc) (s.m, .ok)
      let modelRes :=
        if m1.panicked then "panic" else if m1.stuck then "blocked" else renderRes r
      if modelRes != res then
        s ← mismatch s s!"[{line}]: model={modelRes} impl={res}"
      if res != "ok" || modelRes != "ok" then
        -- the harness ends the case here; the monitor still judges this operation
        let (m2, _, _) := m1.drain
        return { s with m := m2, dead := true }
      let (m2, ce, se) := m1.drain
      let evl := ce.filterMap renderConfEv ++ se.filterMap renderSpendEv
      return expectAfter s m2 evl
    | .op o =>
      let m0 := touch s.m o
      let (m1, r) := C14.step m0 o
      let modelRes :=
        if m1.panicked then "panic" else if m1.stuck then "blocked" else renderRes r
      let implRes := res
      if implRes == "blocked" then s := { s with blockedOps := s.blockedOps + 1 }
      if implRes == "panic" then s := { s with panicOps := s.panicOps + 1 }
      let bothBad := m1.panicked && m1.stuck && (implRes == "panic" || implRes == "blocked")
      if modelRes != implRes && !bothBad then
        s ← mismatch s s!"[{line}]: model={modelRes} impl={implRes}"
      if implRes == "blocked" || implRes == "panic" || modelRes == "blocked" || modelRes == "panic" then
        -- the harness ends the case here
        return { s with dead := true, mon := { s.mon with on := false } }
      -- input-distribution statistics: operations issued between ConnectTip and NotifyHeight
      let wasMid := s.midState
      let mid' := match o with
        | .connect _ _ => r == .ok
        | .notify _ => false
        | .disconnect _ => false
        | _ => wasMid
      s := { s with midState := mid' }
      if wasMid then
        match o with
        | .regConf _ _ _ =>
          let served := m1.confs.any fun r => r.ntfns.any fun n =>
            n.live && n.dispatched && !n.queuedAt.isEmpty
          s := { s with midOps := s.midOps + 1, midRegs := s.midRegs + 1,
                        midServedQueued := s.midServedQueued + (if served then 1 else 0) }
        | .regSpend _ _ => s := { s with midOps := s.midOps + 1, midRegs := s.midRegs + 1 }
        | .updConf _ _ | .updSpend _ _ => s := { s with midOps := s.midOps + 1, midUpds := s.midUpds + 1 }
        | .cancel _ => s := { s with midOps := s.midOps + 1, midCancels := s.midCancels + 1 }
        | _ => pure ()
      let (m2, evl) :=
        if s.lazy then (m1, [])
        else
          let (m2, ce, se) := m1.drain
          (m2, ce.filterMap renderConfEv ++ se.filterMap renderSpendEv)
      return expectAfter s m2 evl

end LndModel.C14.Driver

open LndModel.C14.Driver in
def main (args : List String) : IO Unit := do
  -- stream `tracker` (BestBlockTracker) has its own trace language, model and monitor
  if args.contains "tracker" then
    LndModel.C14.TrackerDriver.main
    return
  let s ← LndModel.Lines.foldStdin step {}
  let s ← finishOp s
  let nontrivial := s.cSound + s.cComplete + s.cRetract + s.cReorgNotice + s.cHint + s.cHintMove + s.cRange + s.cDone
  IO.println s!"STAT lines={s.lines}"
  IO.println s!"STAT cases={s.cases}"
  IO.println s!"STAT evaluations={s.ops}"
  IO.println s!"STAT nontrivial={nontrivial}"
  IO.println s!"STAT monitored_cases={s.monCases}"
  IO.println s!"STAT cases_turned_invalid={s.invalidCases}"
  IO.println s!"STAT chk_delivered_details_on_active_chain={s.cSound}"
  IO.println s!"STAT chk_confirmed_when_deep_enough={s.cComplete}"
  IO.println s!"STAT chk_belief_still_on_chain={s.cRetract}"
  IO.println s!"STAT chk_reorg_notice_due={s.cReorgNotice}"
  IO.println s!"STAT chk_hint_le_actual_height={s.cHint}"
  IO.println s!"STAT chk_hint_moves={s.cHintMove}"
  IO.println s!"STAT chk_rescan_range={s.cRange}"
  IO.println s!"STAT chk_done={s.cDone}"
  IO.println s!"STAT lazy_clients_read_double_confirmed_without_notice={s.lazyDoubleConf}"
  IO.println s!"STAT lazy_clients_read_double_spend_without_notice={s.lazyDoubleSpend}"
  IO.println s!"STAT mid_state_ops={s.midOps}"
  IO.println s!"STAT mid_state_registrations={s.midRegs}"
  IO.println s!"STAT mid_state_rescan_completions={s.midUpds}"
  IO.println s!"STAT mid_state_cancels={s.midCancels}"
  IO.println s!"STAT mid_state_reg_served_queued_client={s.midServedQueued}"
  IO.println s!"STAT impl_blocked_ops={s.blockedOps}"
  IO.println s!"STAT impl_panic_ops={s.panicOps}"
  IO.println s!"STAT mismatches={s.mismatches}"
  IO.println s!"STAT monitor_failures={s.monitorFails}"
