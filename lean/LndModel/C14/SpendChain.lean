/-
C14 — part 3: one SPEND request against the active chain (the spend-side mirror of `Chain.lean`).

The notifier acts on every spend request independently (`step` maps the per-request functions
over `State.spends`), so the relation between what the clients watching an outpoint are told and
the active chain is stated for one `SpendReq` together with ghost state: the active chain, the
highest tip ever seen and `cover` = the height from which upward every block of the active chain
has been examined for a spender of the outpoint (at tip or by a completed historical rescan).

Operations (`SOp`): register / cancel / historical rescan completes / `tip b` = `ConnectTip(cur+1,
b)` followed by its `NotifyHeight(cur+1)` (spend notifications are dispatched by `NotifyHeight`) /
`untip` = `DisconnectTip(cur)`; clients empty their channels after every notifier call.

Differences to the confirmation side that the proofs have to deal with: no confirmation depth
(a spend is delivered as soon as it is known); `handleSpendDetailsAtTip` overwrites the details
without an "already known" guard; between `ConnectTip` and `NotifyHeight` the details are known but
not yet delivered; only clients that were told about the spend get a `Reorg`.
-/
import LndModel.C14.Hint

namespace LndModel.C14

/-- what `State.drain` does to one spend request -/
def drainS (r : SpendReq) : SpendReq :=
  { r with ntfns := r.ntfns.map (fun n => if n.closed then n else n.drained) }

structure SWorld where
  cur : Nat
  limit : Nat
  r : SpendReq
  /-- active chain: `chain[h-1]` is the block at height `h`, `chain.length = cur` -/
  chain : List Block
  maxTip : Nat
  cover : Nat
  /-- ghost: range of the historical dispatch handed out for the current request set -/
  range : Option (Nat × Nat) := none
  /-- ghost: the largest height hint any client has supplied so far -/
  lo : Nat := 0

inductive SOp where
  | register (reg hint : Nat)
  | cancel (reg : Nat)
  /-- the historical rescan dispatched for `SWorld.range` reports `d` (possibly late) -/
  | update (d : Option SpendDetails)
  | tip (b : Block)
  | untip

def swstep (w : SWorld) : SOp → SWorld
  | .register reg hint =>
    { w with r := drainS (w.r.register w.cur w.limit reg hint).1,
             cover := if w.r.set then w.cover else w.cur + 1,
             range := rangeOf (w.r.register w.cur w.limit reg hint).2
                        (if w.r.set then w.range else none),
             lo := max w.lo hint }
  | .cancel reg => { w with r := drainS (w.r.cancel reg) }
  | .update d =>
    { w with r := drainS (w.r.update w.cur w.limit d).1, cover := coverAfter w.cover w.range }
  | .tip b =>
    { w with cur := w.cur + 1,
             r := drainS ((drainS (w.r.connect (w.cur + 1) w.limit b)).notify
                    (w.cur + 1) w.limit (w.cur + 1)),
             chain := w.chain ++ [b], maxTip := max w.maxTip (w.cur + 1) }
  | .untip =>
    { w with cur := w.cur - 1,
             r := drainS (w.r.disconnect (w.cur - 1) w.cur),
             chain := w.chain.dropLast, cover := min w.cover w.cur }

/-- block `b` (as the notifier's `filterTx` sees it) contains an input spending the outpoint -/
def Block.spent (b : Block) (key : Nat) : Prop := b.spendHits key ≠ []

/-- `d` names a block of the chain in which input `d.input` of transaction `d.spender` spends
    the outpoint -/
def OnChainS (chain : List Block) (key : Nat) (d : SpendDetails) : Prop :=
  1 ≤ d.height ∧ ∃ b, chain[d.height - 1]? = some b ∧ (d.spender, d.input) ∈ b.spendHits key

/-- the outpoint is spent in at most one block of the chain -/
def ValidS (chain : List Block) (key : Nat) : Prop :=
  ∀ (i j : Nat) (bi bj : Block), chain[i]? = some bi → chain[j]? = some bj →
    bi.spent key → bj.spent key → i = j

/-- environment assumptions for one operation -/
def SOk (w : SWorld) : SOp → Prop
  | .register _ _ => True
  | .cancel _ => True
  | .update d =>
    ∃ a b, w.range = some (a, b) ∧
    match d with
    | some d => OnChainS w.chain w.r.key d ∧ ∃ n ∈ w.r.ntfns, n.live = true
    | none => ∀ (h : Nat) (bl : Block), a ≤ h → h ≤ b → 1 ≤ h → w.chain[h - 1]? = some bl →
        ¬ bl.spent w.r.key
  | .tip b => b.spent w.r.key → ∀ (j : Nat) (b' : Block), w.chain[j]? = some b' → ¬ b'.spent w.r.key
  | .untip => 1 ≤ w.cur ∧ w.cur + w.limit > w.maxTip

/-! ## per-client invariant -/

/-- the channels of a client that has not cancelled are empty (between operations) -/
def SChan (n : SpendNtfn) : Prop :=
  n.closed = false → n.spend = [] ∧ n.reorg = 0 ∧ n.done = 0

/-- bookkeeping of one client relative to the request's `details`; `cc` is the last height whose
    `NotifyHeight` has run (`cur`, except between `ConnectTip` and its `NotifyHeight`) -/
def SCore (cc : Nat) (det : Option SpendDetails) (n : SpendNtfn) : Prop :=
  n.stuck = false ∧ (n.live = true → n.closed = false) ∧
  (n.live = true →
    match det with
    | none => n.dispatched = false
    | some d => d.height ≤ cc → n.dispatched = true)

theorem SCore.mono {cc cc' : Nat} {det : Option SpendDetails} {n : SpendNtfn}
    (h : SCore cc det n) (hc : cc' ≤ cc) : SCore cc' det n := by
  obtain ⟨h1, h2, h3⟩ := h
  refine ⟨h1, h2, fun hl => ?_⟩
  have := h3 hl
  cases det with
  | none => exact this
  | some d => exact fun hd => this (by omega)

theorem SCore.congr {cc : Nat} {det : Option SpendDetails} {n n' : SpendNtfn}
    (e1 : n'.stuck = n.stuck) (e2 : n'.live = n.live) (e3 : n'.closed = n.closed)
    (e4 : n'.dispatched = n.dispatched) (h : SCore cc det n) : SCore cc det n' := by
  unfold SCore at *
  rw [e1, e2, e3, e4]; exact h

/-- a client that is not live satisfies `SCore` whatever the details -/
theorem SCore.dead {cc cc' : Nat} {det det' : Option SpendDetails} {n : SpendNtfn}
    (h : SCore cc det n) (hl : n.live = false) : SCore cc' det' n :=
  ⟨h.1, h.2.1, fun hl' => by rw [hl] at hl'; cases hl'⟩

/-- `dispatchSpendDetails` on a live client with empty channels -/
theorem sdispatch_core {cc cc' : Nat} {det : Option SpendDetails} {n : SpendNtfn} (d : SpendDetails)
    (hc : SChan n) (h : SCore cc det n) (hl : n.live = true) :
    SCore cc' (some d) (n.dispatch d) ∧ (n.dispatch d).dispatched = true := by
  obtain ⟨h1, h2, _⟩ := h
  obtain ⟨c1, _, _⟩ := hc (h2 hl)
  unfold SpendNtfn.dispatch
  cases hd : n.dispatched with
  | true => simp [SCore, h1, h2, hl, hd]
  | false => simp [SCore, h1, h2, hl, c1]

theorem sdrained_core {cc : Nat} {det : Option SpendDetails} {n : SpendNtfn}
    (h : SCore cc det n) : SCore cc det (if n.closed then n else n.drained) := by
  split
  · exact h
  · exact SCore.congr rfl rfl rfl rfl h

theorem sdrained_chan (n : SpendNtfn) : SChan (if n.closed then n else n.drained) := by
  cases hcl : n.closed with
  | true => intro hc; simp [hcl] at hc
  | false => intro _; simp [SpendNtfn.drained]

/-! ## request-level invariant -/

structure SPre0 (cur limit maxTip cover : Nat) (chain : List Block) (r : SpendReq) : Prop where
  len : chain.length = cur
  tip : cur ≤ maxTip
  valid : ValidS chain r.key
  nopanic : r.panicked = false
  unset : r.set = false → r.details = none ∧ r.spentAt = [] ∧ ∀ n ∈ r.ntfns, n.live = false
  det : ∀ d, r.details = some d → OnChainS chain r.key d ∧ r.rescan = .complete ∧
          (r.spentAt = [d.height] ∨ (r.spentAt = [] ∧ d.height + limit ≤ maxTip))
  nodet : r.details = none → r.spentAt = []
  cov : r.set = true → r.details = none → ∀ (h : Nat) (b : Block), cover ≤ h → 1 ≤ h →
          chain[h - 1]? = some b → ¬ b.spent r.key

def SPre (cc cur limit maxTip cover : Nat) (chain : List Block) (r : SpendReq) : Prop :=
  SPre0 cur limit maxTip cover chain r ∧ ∀ n ∈ r.ntfns, SCore cc r.details n

/-- between operations: additionally all channels have been emptied -/
def SRI (cur limit maxTip cover : Nat) (chain : List Block) (r : SpendReq) : Prop :=
  SPre cur cur limit maxTip cover chain r ∧ ∀ n ∈ r.ntfns, SChan n

theorem SPre0.congr {cur limit maxTip cover : Nat} {chain : List Block} {r r' : SpendReq}
    (h : SPre0 cur limit maxTip cover chain r)
    (e1 : r'.key = r.key) (e2 : r'.set = r.set) (e3 : r'.details = r.details)
    (e4 : r'.spentAt = r.spentAt) (e5 : r'.panicked = r.panicked)
    (e6 : r.details.isSome → r'.rescan = r.rescan)
    (hl : (∀ n ∈ r.ntfns, n.live = false) → ∀ n ∈ r'.ntfns, n.live = false) :
    SPre0 cur limit maxTip cover chain r' := by
  refine ⟨h.len, h.tip, by rw [e1]; exact h.valid, by rw [e5]; exact h.nopanic, ?_, ?_, ?_, ?_⟩
  · intro hs
    rw [e2] at hs
    obtain ⟨a, b, c⟩ := h.unset hs
    exact ⟨by rw [e3]; exact a, by rw [e4]; exact b, hl c⟩
  · intro d hd
    rw [e3] at hd
    obtain ⟨a, b, c⟩ := h.det d hd
    refine ⟨by rw [e1]; exact a, ?_, by rw [e4]; exact c⟩
    rw [e6 (by simp [hd])]; exact b
  · intro hd
    rw [e3] at hd; rw [e4]; exact h.nodet hd
  · intro hs hd
    rw [e2] at hs; rw [e3] at hd; rw [e1]; exact h.cov hs hd

theorem drainS_SRI {cc cur limit maxTip cover : Nat} {chain : List Block} {r : SpendReq}
    (h : SPre cc cur limit maxTip cover chain r) :
    SPre cc cur limit maxTip cover chain (drainS r) ∧ ∀ n ∈ (drainS r).ntfns, SChan n := by
  obtain ⟨h0, hcl⟩ := h
  refine ⟨⟨h0.congr rfl rfl rfl rfl rfl (fun _ => rfl) ?_, ?_⟩, ?_⟩
  · intro c
    refine all_map (P := fun n => n.live = false) (fun n hn => ?_) c
    split
    · exact hn
    · exact hn
  · exact all_map (P := SCore cc r.details) (fun n hn => sdrained_core hn) hcl
  · intro n hn
    simp only [drainS, List.mem_map] at hn
    obtain ⟨m, _, rfl⟩ := hn
    exact sdrained_chan m

theorem OnChainS.le {chain : List Block} {key : Nat} {d : SpendDetails} (h : OnChainS chain key d) :
    1 ≤ d.height ∧ d.height ≤ chain.length := by
  obtain ⟨h1, b, hb, _⟩ := h
  have := (List.getElem?_eq_some_iff.mp hb).1
  omega

theorem OnChainS.spent {chain : List Block} {key : Nat} {d : SpendDetails}
    (h : OnChainS chain key d) : ∃ b, chain[d.height - 1]? = some b ∧ b.spent key := by
  obtain ⟨_, b, hb, hi⟩ := h
  exact ⟨b, hb, fun hn => by simp [hn] at hi⟩

/-! ### cancel -/

theorem scancel_pre {cur limit maxTip cover reg : Nat} {chain : List Block} {r : SpendReq}
    (h : SRI cur limit maxTip cover chain r) :
    SPre cur cur limit maxTip cover chain (r.cancel reg) := by
  obtain ⟨⟨h0, hcl⟩, _⟩ := h
  unfold SpendReq.cancel
  split
  · exact ⟨h0, hcl⟩
  · refine ⟨h0.congr rfl rfl rfl rfl rfl (fun _ => rfl) ?_, ?_⟩
    · intro c
      refine all_map (P := fun n => n.live = false) (fun n hn => ?_) c
      split
      · rfl
      · exact hn
    · refine all_map (P := SCore cur r.details) (fun n hn => ?_) hcl
      split
      · exact ⟨hn.1, fun hl => by simp at hl, fun hl => by simp at hl⟩
      · exact hn

/-! ### dispatching the cached details -/

theorem dispatchTo_fields {cur limit : Nat} {r : SpendReq} {d : SpendDetails}
    (sel : SpendNtfn → Bool) (hd : r.details = some d) :
    (r.dispatchTo cur limit sel).key = r.key ∧ (r.dispatchTo cur limit sel).set = r.set ∧
    (r.dispatchTo cur limit sel).details = r.details ∧
    (r.dispatchTo cur limit sel).panicked = r.panicked ∧
    (r.dispatchTo cur limit sel).rescan = r.rescan ∧
    (r.dispatchTo cur limit sel).spentAt =
      (if (r.ntfns.any fun n => n.live && sel n && !n.dispatched) && decide (d.height + limit > cur)
       then addH d.height r.spentAt else r.spentAt) ∧
    (r.dispatchTo cur limit sel).ntfns =
      r.ntfns.map (fun n => if n.live && sel n then n.dispatch d else n) := by
  unfold SpendReq.dispatchTo
  simp [hd]

/-- `dispatchTo` keeps the request-level invariant (whatever the clients look like) -/
theorem dispatchTo_pre0 {cur limit maxTip cover : Nat} {chain : List Block} {r : SpendReq}
    {d : SpendDetails} (sel : SpendNtfn → Bool) (h0 : SPre0 cur limit maxTip cover chain r)
    (hd : r.details = some d) :
    SPre0 cur limit maxTip cover chain (r.dispatchTo cur limit sel) := by
  obtain ⟨f1, f2, f3, f4, f5, f6, f7⟩ := dispatchTo_fields (cur := cur) (limit := limit) sel hd
  refine ⟨h0.len, h0.tip, by rw [f1]; exact h0.valid, by rw [f4]; exact h0.nopanic, ?_, ?_, ?_, ?_⟩
  · intro hs
    rw [f2] at hs
    obtain ⟨a, _, _⟩ := h0.unset hs
    rw [hd] at a; cases a
  · intro d' hd'
    rw [f3, hd] at hd'
    simp only [Option.some.injEq] at hd'
    subst hd'
    obtain ⟨a, b, c⟩ := h0.det d hd
    refine ⟨by rw [f1]; exact a, by rw [f5]; exact b, ?_⟩
    rw [f6]
    rcases c with c | ⟨c1, c2⟩
    · left; simp only [c]; split <;> simp [addH_self]
    · simp only [c1]
      split
      · left; exact addH_nil _
      · right; exact ⟨rfl, c2⟩
  · intro hn; rw [f3, hd] at hn; cases hn
  · intro _ hn; rw [f3, hd] at hn; cases hn

/-! ### register -/

theorem sregister_pre {cur limit maxTip cover reg hint : Nat} {chain : List Block} {r : SpendReq}
    (h : SRI cur limit maxTip cover chain r) :
    SPre cur cur limit maxTip (if r.set then cover else cur + 1) chain
      (r.register cur limit reg hint).1 := by
  obtain ⟨⟨h0, hcl⟩, hch⟩ := h
  let r1 := r.opened.addNtfn { reg := reg }
  have e_key : r1.key = r.key := by simp only [r1, SpendReq.addNtfn, SpendReq.opened]; split <;> rfl
  have e_det : r1.details = r.details := by
    simp only [r1, SpendReq.addNtfn, SpendReq.opened]
    split
    · rfl
    · rename_i hs
      exact ((h0.unset (by simpa using hs)).1).symm
  have e_at : r1.spentAt = r.spentAt := by
    simp only [r1, SpendReq.addNtfn, SpendReq.opened]; split <;> rfl
  have e_pan : r1.panicked = r.panicked := by
    simp only [r1, SpendReq.addNtfn, SpendReq.opened]; split <;> rfl
  have e_set : r1.set = true := by
    simp only [r1, SpendReq.addNtfn, SpendReq.opened]; split
    · rename_i hs; exact hs
    · rfl
  have e_res : r.details.isSome → r1.rescan = r.rescan := by
    intro hd
    simp only [r1, SpendReq.addNtfn, SpendReq.opened]; split
    · rfl
    · rename_i hs
      rw [(h0.unset (by simpa using hs)).1] at hd; simp at hd
  have e_nt : r1.ntfns = r.ntfns ++ [{ reg := reg }] := by
    simp only [r1, SpendReq.addNtfn, SpendReq.opened]; split <;> rfl
  have h1 : SPre0 cur limit maxTip (if r.set then cover else cur + 1) chain r1 := by
    refine ⟨h0.len, h0.tip, by rw [e_key]; exact h0.valid, by rw [e_pan]; exact h0.nopanic, ?_, ?_, ?_, ?_⟩
    · intro hs; rw [e_set] at hs; cases hs
    · intro d hd
      rw [e_det] at hd
      obtain ⟨a, b, c⟩ := h0.det d hd
      exact ⟨by rw [e_key]; exact a, by rw [e_res (by simp [hd])]; exact b, by rw [e_at]; exact c⟩
    · intro hd; rw [e_det] at hd; rw [e_at]; exact h0.nodet hd
    · intro _ hd hh b hge h1 hb
      rw [e_det] at hd; rw [e_key]
      cases hs : r.set with
      | true =>
        simp only [hs, ↓reduceIte] at hge
        exact h0.cov hs hd hh b hge h1 hb
      | false =>
        simp only [hs, Bool.false_eq_true, ↓reduceIte] at hge
        have := (List.getElem?_eq_some_iff.mp hb).1
        have := h0.len
        omega
  -- the old clients are consistent with the details, the new one with "none"
  have hold : ∀ m ∈ r.ntfns, SChan m ∧ SCore cur r.details m := fun m hm => ⟨hch m hm, hcl m hm⟩
  have hnewc : SChan ({ reg := reg } : SpendNtfn) := by intro _; simp
  have hnew : SCore cur none ({ reg := reg } : SpendNtfn) := by simp [SCore]
  show SPre cur cur limit maxTip _ chain (r1.registered cur limit (startHeight r.hint hint) reg).1
  cases hd : r.details with
  | some d =>
    have hrs : r1.rescan = .complete := by
      rw [e_res (by simp [hd])]; exact (h0.det d hd).2.1
    have hd1 : r1.details = some d := by rw [e_det, hd]
    have hle : d.height ≤ cur := by
      have := (h0.det d hd).1.le; rw [h0.len] at this; exact this.2
    unfold SpendReq.registered
    simp only [hrs]
    obtain ⟨f1, f2, f3, f4, f5, f6, f7⟩ :=
      dispatchTo_fields (cur := cur) (limit := limit) (fun n => n.reg == reg) hd1
    refine ⟨dispatchTo_pre0 _ h1 hd1, ?_⟩
    rw [f3, hd1, f7]
    intro m hm
    simp only [List.mem_map] at hm
    obtain ⟨n, hn, rfl⟩ := hm
    rw [e_nt] at hn
    simp only [List.mem_append, List.mem_singleton] at hn
    rcases hn with hn | rfl
    · obtain ⟨hc, hco⟩ := hold n hn
      rw [hd] at hco
      split
      · rename_i hsel
        simp only [Bool.and_eq_true] at hsel
        exact (sdispatch_core d hc hco hsel.1).1
      · exact hco
    · simp only [beq_self_eq_true, Bool.and_self, ↓reduceIte]
      exact (sdispatch_core d hnewc hnew rfl).1
  | none =>
    have hc1 : ∀ m ∈ r1.ntfns, SCore cur r1.details m := by
      intro m hm
      rw [e_det, hd]
      rw [e_nt] at hm
      simp only [List.mem_append, List.mem_singleton] at hm
      rcases hm with hm | rfl
      · have := (hold m hm).2; rw [hd] at this; exact this
      · exact hnew
    have hd1 : r1.details = none := by rw [e_det, hd]
    generalize (if r.set = true then cover else cur + 1) = cv at h1 ⊢
    unfold SpendReq.registered
    cases hrs : r1.rescan with
    | complete =>
      simp only
      unfold SpendReq.dispatchTo
      simp only [hd1]
      exact ⟨h1, hc1⟩
    | pending => exact ⟨h1, hc1⟩
    | notStarted =>
      simp only
      split
      · exact ⟨h1.congr rfl rfl rfl rfl rfl (fun x => by simp [hd1] at x) (fun c => c), hc1⟩
      · exact ⟨h1.congr rfl rfl rfl rfl rfl (fun x => by simp [hd1] at x) (fun c => c), hc1⟩

/-! ### historical rescan completes -/

theorem SPre0.cover_le {cur limit maxTip cover cover' : Nat} {chain : List Block} {r : SpendReq}
    (h : SPre0 cur limit maxTip cover chain r)
    (hc : r.set = true → r.details = none → ∀ (h : Nat) (b : Block), cover' ≤ h → h < cover → 1 ≤ h →
          chain[h - 1]? = some b → ¬ b.spent r.key) :
    SPre0 cur limit maxTip cover' chain r := by
  refine ⟨h.len, h.tip, h.valid, h.nopanic, h.unset, h.det, h.nodet, ?_⟩
  intro hs hd hh b hge h1 hb
  by_cases hlt : hh < cover
  · exact hc hs hd hh b hge hlt h1 hb
  · exact h.cov hs hd hh b (by omega) h1 hb

theorem supdate_pre {cur limit maxTip cover a b : Nat} {chain : List Block} {r : SpendReq}
    {d : Option SpendDetails} (h : SRI cur limit maxTip cover chain r)
    (hok : match d with
      | some d => OnChainS chain r.key d ∧ ∃ n ∈ r.ntfns, n.live = true
      | none => ∀ (h : Nat) (bl : Block), a ≤ h → h ≤ b → 1 ≤ h → chain[h - 1]? = some bl →
          ¬ bl.spent r.key) :
    SPre cur cur limit maxTip (coverAfter cover (some (a, b))) chain (r.update cur limit d).1 := by
  have hcv : coverAfter cover (some (a, b)) ≤ cover ∧
      ∀ hh, coverAfter cover (some (a, b)) ≤ hh → hh < cover → a ≤ hh ∧ hh ≤ b := by
    simp only [coverAfter]
    split
    · exact ⟨by omega, fun hh h1 h2 => by omega⟩
    · exact ⟨by omega, fun hh h1 h2 => by omega⟩
  generalize coverAfter cover (some (a, b)) = cv at hcv ⊢
  obtain ⟨⟨h0, hcl⟩, hch⟩ := h
  unfold SpendReq.update
  split
  · rename_i hs
    refine ⟨h0.cover_le (fun hs' => ?_), hcl⟩
    simp [hs'] at hs
  · rename_i hs
    have hset : r.set = true := by simpa using hs
    split
    · rename_i hd
      refine ⟨h0.cover_le (fun _ hd' => ?_), hcl⟩
      simp [hd'] at hd
    · rename_i hd
      have hdn : r.details = none := by
        cases hx : r.details with
        | none => rfl
        | some x => simp [hx] at hd
      cases d with
      | none =>
        simp only
        refine ⟨?_, by simpa using hcl⟩
        have h0' : SPre0 cur limit maxTip cover chain
            { r with rescan := .complete, hint := some cur } :=
          h0.congr rfl rfl rfl rfl rfl (fun x => by simp [hdn] at x) (fun c => c)
        refine h0'.cover_le (fun _ _ hh bl hge hlt h1 hb => ?_)
        obtain ⟨x, y⟩ := hcv.2 hh hge hlt
        exact hok hh bl x y h1 hb
      | some d =>
        obtain ⟨hon, m, hm, hml⟩ := hok
        have hle := hon.le
        rw [h0.len] at hle
        simp only
        split
        · omega
        · -- the details are cached and dispatched to every live client
          have hfresh : (r.ntfns.any fun n => n.live && true && !n.dispatched) = true := by
            rw [List.any_eq_true]
            refine ⟨m, hm, ?_⟩
            have := (hcl m hm).2.2 hml
            rw [hdn] at this
            simp [hml, this]
          let r2 : SpendReq := { r with rescan := .complete, hint := some d.height, details := some d }
          have hd2 : r2.details = some d := rfl
          obtain ⟨f1, f2, f3, f4, f5, f6, f7⟩ :=
            dispatchTo_fields (cur := cur) (limit := limit) (fun _ => true) hd2
          refine ⟨?_, ?_⟩
          · refine ⟨h0.len, h0.tip, by rw [f1]; exact h0.valid, by rw [f4]; exact h0.nopanic, ?_, ?_, ?_, ?_⟩
            · intro hs'; rw [f2] at hs'; simp [r2, hset] at hs'
            · intro d' hd'
              rw [f3] at hd'
              simp only [r2, Option.some.injEq] at hd'
              subst hd'
              refine ⟨by rw [f1]; exact hon, by rw [f5], ?_⟩
              rw [f6]
              have hini : r2.spentAt = [] := h0.nodet hdn
              have hf2 : (r2.ntfns.any fun n => n.live && true && !n.dispatched) = true := hfresh
              rw [hini, hf2]
              by_cases hlim : d.height + limit > cur
              · left; simp [hlim, addH_nil]
              · right; simp [hlim]; have := h0.tip; omega
            · intro hx; rw [f3] at hx; simp [r2] at hx
            · intro _ hx; rw [f3] at hx; simp [r2] at hx
          · rw [f3, hd2, f7]
            intro m' hm'
            simp only [List.mem_map] at hm'
            obtain ⟨n, hn, rfl⟩ := hm'
            have hco := hcl n hn
            cases hl : n.live with
            | true =>
              simp only [Bool.and_self, ↓reduceIte]
              exact (sdispatch_core d (hch n hn) hco hl).1
            | false =>
              simp only [Bool.false_and, Bool.false_eq_true, ↓reduceIte]
              exact hco.dead hl

/-! ### DisconnectTip -/

theorem ValidS.dropLast {chain : List Block} {key : Nat} (h : ValidS chain key) :
    ValidS chain.dropLast key := by
  intro i j bi bj hi hj
  exact h i j bi bj (dropLast_some hi).1 (dropLast_some hj).1

theorem OnChainS.dropLast {chain : List Block} {key : Nat} {d : SpendDetails}
    (h : OnChainS chain key d) (hlt : d.height < chain.length) : OnChainS chain.dropLast key d := by
  obtain ⟨h1, b, hb, rest⟩ := h
  exact ⟨h1, b, by rw [dropLast_of_lt (by omega)]; exact hb, rest⟩

theorem supdateHint_fields (cur height : Nat) (r : SpendReq) :
    (r.updateHint cur height).key = r.key ∧ (r.updateHint cur height).set = r.set ∧
    (r.updateHint cur height).details = r.details ∧ (r.updateHint cur height).spentAt = r.spentAt ∧
    (r.updateHint cur height).panicked = r.panicked ∧ (r.updateHint cur height).rescan = r.rescan ∧
    (r.updateHint cur height).ntfns = r.ntfns := by
  unfold SpendReq.updateHint; split <;> simp

/-- `dispatchSpendReorg` on a live client with empty channels -/
theorem unspend_core {cc cc' : Nat} {det : Option SpendDetails} {n : SpendNtfn}
    (hc : SChan n) (h : SCore cc det n) (hl : n.live = true) : SCore cc' none n.unspend := by
  obtain ⟨h1, h2, _⟩ := h
  obtain ⟨_, c2, _⟩ := hc (h2 hl)
  unfold SpendNtfn.unspend
  cases hd : n.dispatched with
  | true => simp [SCore, h1, h2, hl, c2]
  | false => simp [SCore, h1, h2, hl, hd]

theorem sdisconnect_pre {cur limit maxTip cover : Nat} {chain : List Block} {r : SpendReq}
    (h : SRI cur limit maxTip cover chain r) (hc1 : 1 ≤ cur) (hlim : cur + limit > maxTip) :
    SPre (cur - 1) (cur - 1) limit maxTip (min cover cur) chain.dropLast
      (r.disconnect (cur - 1) cur) := by
  obtain ⟨⟨h0, hcl⟩, hch⟩ := h
  obtain ⟨u1, u2, u3, u4, u5, u6, u7⟩ := supdateHint_fields (cur - 1) cur r
  unfold SpendReq.disconnect
  generalize r.updateHint (cur - 1) cur = r0 at u1 u2 u3 u4 u5 u6 u7
  have hlen := h0.len
  have hvalid : ValidS chain.dropLast r.key := h0.valid.dropLast
  have hcov : ∀ (hh : Nat) (b : Block), min cover cur ≤ hh → 1 ≤ hh →
      chain.dropLast[hh - 1]? = some b → cover ≤ hh ∧ chain[hh - 1]? = some b ∧ hh < cur := by
    intro hh b hge h1 hb
    obtain ⟨hb', hlt⟩ := dropLast_some hb
    refine ⟨?_, hb', by omega⟩
    have : hh < cur := by omega
    omega
  simp only
  split
  · -- the request is not indexed at the disconnected height: nothing but the hint changes
    rename_i hnc
    have hnc' : r.spentAt.contains cur = false := by rw [u4] at hnc; simpa using hnc
    refine ⟨⟨by rw [List.length_dropLast]; omega, by have := h0.tip; omega, by rw [u1]; exact hvalid,
      by rw [u5]; exact h0.nopanic, ?_, ?_, ?_, ?_⟩, ?_⟩
    · intro hs; rw [u2] at hs
      obtain ⟨a, b, c⟩ := h0.unset hs
      exact ⟨by rw [u3]; exact a, by rw [u4]; exact b, by rw [u7]; exact c⟩
    · intro d hd; rw [u3] at hd
      obtain ⟨a, b, c⟩ := h0.det d hd
      have hle := a.le
      have hlt : d.height < chain.length := by
        rcases c with c | ⟨_, c2⟩
        · rw [c] at hnc'; simp at hnc'; omega
        · omega
      exact ⟨by rw [u1]; exact a.dropLast hlt, by rw [u6]; exact b, by rw [u4]; exact c⟩
    · intro hd; rw [u3] at hd; rw [u4]; exact h0.nodet hd
    · intro hs hd hh b hge h1 hb
      rw [u2] at hs; rw [u3] at hd; rw [u1]
      obtain ⟨x, y, _⟩ := hcov hh b hge h1 hb
      exact h0.cov hs hd hh b x h1 y
    · rw [u7, u3]
      intro n hn
      exact (hcl n hn).mono (by omega)
  · rename_i hcont
    have hcont' : r.spentAt.contains cur = true := by rw [u4] at hcont; simpa using hcont
    have hne : r.spentAt ≠ [] := by
      intro hx; rw [hx] at hcont'; simp at hcont'
    have hset : r.set = true := by
      cases hs : r.set with
      | true => rfl
      | false => exact absurd (h0.unset hs).2.1 hne
    obtain ⟨d, hd⟩ : ∃ d, r.details = some d := by
      cases hd : r.details with
      | none => exact absurd (h0.nodet hd) hne
      | some d => exact ⟨d, rfl⟩
    obtain ⟨hon, hrs, hini⟩ := h0.det d hd
    have hini : r.spentAt = [d.height] := by
      rcases hini with c | ⟨c, _⟩
      · exact c
      · exact absurd c hne
    have hhit : d.height = cur := by
      rw [hini] at hcont'; simp at hcont'; omega
    split
    · rename_i hs; rw [u2] at hs; simp [hset] at hs
    · refine ⟨⟨by rw [List.length_dropLast]; omega, by have := h0.tip; omega, by rw [u1]; exact hvalid,
        by rw [u5]; exact h0.nopanic, ?_, ?_, ?_, ?_⟩, ?_⟩
      · intro hs; rw [u2] at hs; simp [hset] at hs
      · intro d' hd'; cases hd'
      · intro _; rw [u4, hini, hhit]; exact delH_self cur
      · intro _ _ hh b hge h1 hb hhas
        rw [u1] at hhas
        obtain ⟨_, y, z⟩ := hcov hh b hge h1 hb
        obtain ⟨bd, hbd, hbdhas⟩ := hon.spent
        have := h0.valid (hh - 1) (d.height - 1) b bd y hbd hhas hbdhas
        omega
      · simp only [u7]
        refine all_map (P := fun n => SChan n ∧ SCore cur r.details n) (fun n hn => ?_)
          (fun n hn => ⟨hch n hn, hcl n hn⟩)
        cases hl : n.live with
        | true =>
          simp only [↓reduceIte]
          exact unspend_core hn.1 hn.2 hl
        | false =>
          simp only [Bool.false_eq_true, ↓reduceIte]
          exact hn.2.dead hl

/-! ### ConnectTip -/

theorem ValidS.append {chain : List Block} {key : Nat} {b : Block} (h : ValidS chain key)
    (hb : b.spent key → ∀ (j : Nat) (b' : Block), chain[j]? = some b' → ¬ b'.spent key) :
    ValidS (chain ++ [b]) key := by
  intro i j bi bj hi hj hbi hbj
  by_cases hil : i < chain.length
  · rw [List.getElem?_append_left hil] at hi
    by_cases hjl : j < chain.length
    · rw [List.getElem?_append_left hjl] at hj
      exact h i j bi bj hi hj hbi hbj
    · rw [List.getElem?_append_right (by omega)] at hj
      have : bj = b := by
        cases hx : j - chain.length with
        | zero => simp [hx] at hj; exact hj.symm
        | succ k => simp [hx] at hj
      subst this
      exact absurd hbi (hb hbj i bi hi)
  · rw [List.getElem?_append_right (by omega)] at hi
    have hib : bi = b ∧ i = chain.length := by
      cases hx : i - chain.length with
      | zero => simp [hx] at hi; exact ⟨hi.symm, by omega⟩
      | succ k => simp [hx] at hi
    obtain ⟨rfl, hie⟩ := hib
    by_cases hjl : j < chain.length
    · rw [List.getElem?_append_left hjl] at hj
      exact absurd hbj (hb hbi j bj hj)
    · rw [List.getElem?_append_right (by omega)] at hj
      have : j = chain.length := by
        cases hx : j - chain.length with
        | zero => omega
        | succ k => simp [hx] at hj
      omega

theorem OnChainS.append {chain : List Block} {key : Nat} {d : SpendDetails} (b : Block)
    (h : OnChainS chain key d) : OnChainS (chain ++ [b]) key d := by
  have hle := h.le
  obtain ⟨h1, b', hb, rest⟩ := h
  exact ⟨h1, b', by rw [List.getElem?_append_left (by omega)]; exact hb, rest⟩

/-- state of the request while `ConnectTip(cur+1, b)` runs `handleSpendDetailsAtTip` for the
    inputs of `b` that spend the outpoint: indexed at the new height, nothing delivered yet -/
structure Tipped (cur limit maxTip cover : Nat) (chain : List Block) (b : Block) (key : Nat)
    (r : SpendReq) : Prop where
  pre : SPre cur (cur + 1) limit (max maxTip (cur + 1)) cover (chain ++ [b]) r
  chan : ∀ n ∈ r.ntfns, SChan n
  key : r.key = key
  set : r.set = true
  det : ∃ d, r.details = some d ∧ d.height = cur + 1
  idx : r.spentAt = [cur + 1]

/-- one call of `handleSpendDetailsAtTip` for an input of the connected block -/
theorem satTip_tipped {cur limit maxTip cover : Nat} {chain : List Block} {b : Block} {r : SpendReq}
    {p : Nat × Nat} (hlen : chain.length = cur)
    (hvalid : ValidS (chain ++ [b]) r.key) (hnp : r.panicked = false) (hset : r.set = true)
    (hat : r.spentAt = [] ∨ r.spentAt = [cur + 1])
    (hcl : ∀ n ∈ r.ntfns, SChan n ∧ n.stuck = false ∧ (n.live = true → n.closed = false))
    (hp : p ∈ b.spendHits r.key) :
    Tipped cur limit maxTip cover chain b r.key (r.atTip ⟨cur + 1, p.1, p.2⟩) := by
  have hat' : addH (cur + 1) r.spentAt = [cur + 1] := by
    rcases hat with c | c
    · rw [c]; exact addH_nil _
    · rw [c]; exact addH_self _
  unfold SpendReq.atTip
  simp only [hset, Bool.not_true, Bool.false_eq_true, ↓reduceIte]
  refine ⟨⟨⟨by simp [hlen], by omega, hvalid, hnp, ?_, ?_, ?_, ?_⟩, ?_⟩, ?_, rfl, rfl,
    ⟨_, rfl, rfl⟩, hat'⟩
  · intro hs; cases hs
  · intro d' hd'
    simp only [Option.some.injEq] at hd'
    subst hd'
    refine ⟨⟨by simp, b, ?_, hp⟩, rfl, Or.inl hat'⟩
    simp only [Nat.add_sub_cancel]
    rw [← hlen]; exact List.getElem?_concat_length
  · intro hx; cases hx
  · intro _ hx; cases hx
  · simp only
    refine all_map (P := fun n => SChan n ∧ n.stuck = false ∧ (n.live = true → n.closed = false))
      (fun n hn => ?_) hcl
    obtain ⟨_, h1, h2⟩ := hn
    split
    · exact ⟨h1, h2, fun _ hh => by simp at hh; omega⟩
    · exact ⟨h1, h2, fun _ hh => by simp at hh; omega⟩
  · refine all_map (P := fun n => SChan n ∧ n.stuck = false ∧ (n.live = true → n.closed = false))
      (fun n hn => ?_) hcl
    split
    · intro hc
      obtain ⟨c1, c2, c3⟩ := hn.1 hc
      simp [c1, c2, c3]
    · exact hn.1

theorem Tipped.again {cur limit maxTip cover : Nat} {chain : List Block} {b : Block} {key : Nat}
    {r : SpendReq} {p : Nat × Nat} (h : Tipped cur limit maxTip cover chain b key r)
    (hp : p ∈ b.spendHits key) :
    Tipped cur limit maxTip cover chain b key (r.atTip ⟨cur + 1, p.1, p.2⟩) := by
  obtain ⟨⟨h0, hcl⟩, hch, hk, hs, _, hat⟩ := h
  have hlen : chain.length = cur := by have := h0.len; simp at this; exact this
  have := satTip_tipped (cur := cur) (limit := limit) (maxTip := maxTip) (cover := cover)
    (chain := chain) (b := b) (r := r) (p := p) hlen h0.valid h0.nopanic hs (Or.inr hat)
    (fun n hn => ⟨hch n hn, (hcl n hn).1, (hcl n hn).2.1⟩) (by rw [hk]; exact hp)
  rw [hk] at this; exact this

theorem foldl_tipped {cur limit maxTip cover : Nat} {chain : List Block} {b : Block} {key : Nat}
    (hits : List (Nat × Nat)) {r : SpendReq} (h : Tipped cur limit maxTip cover chain b key r)
    (hh : ∀ p ∈ hits, p ∈ b.spendHits key) :
    Tipped cur limit maxTip cover chain b key
      (hits.foldl (fun r p => r.atTip ⟨cur + 1, p.1, p.2⟩) r) := by
  induction hits generalizing r with
  | nil => exact h
  | cons p t ih =>
    simp only [List.foldl_cons]
    exact ih (h.again (hh p (by simp))) (fun q hq => hh q (by simp [hq]))

theorem foldl_satTip_unset (c : Nat) (hits : List (Nat × Nat)) (r : SpendReq) (hs : r.set = false) :
    hits.foldl (fun r p => r.atTip ⟨c, p.1, p.2⟩) r = r := by
  induction hits with
  | nil => rfl
  | cons p t ih =>
    simp only [List.foldl_cons]
    have : r.atTip ⟨c, p.1, p.2⟩ = r := by simp [SpendReq.atTip, hs]
    rw [this]; exact ih

/-- the `handleSpendDetailsAtTip` part of `ConnectTip(cur + 1, b)`.  The third component says
    that details at the new height are indexed at that height (so that `NotifyHeight` finds them). -/
theorem satTip_pre {cur limit maxTip cover : Nat} {chain : List Block} {r : SpendReq} {b : Block}
    (h : SRI cur limit maxTip cover chain r)
    (hok : b.spent r.key → ∀ (j : Nat) (b' : Block), chain[j]? = some b' → ¬ b'.spent r.key) :
    let r1 := (b.spendHits r.key).foldl (fun r p => r.atTip ⟨cur + 1, p.1, p.2⟩) r
    SPre cur (cur + 1) limit (max maxTip (cur + 1)) cover (chain ++ [b]) r1 ∧
      (∀ n ∈ r1.ntfns, SChan n) ∧
      (∀ d, r1.details = some d → d.height = cur + 1 → r1.spentAt = [cur + 1]) := by
  obtain ⟨⟨h0, hcl⟩, hch⟩ := h
  have hlen : (chain ++ [b]).length = cur + 1 := by simp [h0.len]
  have hvalid : ValidS (chain ++ [b]) r.key := h0.valid.append hok
  -- the request does not change
  have same : (¬ b.spent r.key ∨ r.set = false) →
      SPre cur (cur + 1) limit (max maxTip (cur + 1)) cover (chain ++ [b]) r ∧
      (∀ d, r.details = some d → d.height = cur + 1 → r.spentAt = [cur + 1]) := by
    intro hcase
    refine ⟨⟨⟨hlen, by omega, hvalid, h0.nopanic, h0.unset, ?_, h0.nodet, ?_⟩, hcl⟩, ?_⟩
    · intro d hd
      obtain ⟨a, x, c⟩ := h0.det d hd
      refine ⟨a.append b, x, ?_⟩
      rcases c with c | ⟨c1, c2⟩
      · exact Or.inl c
      · exact Or.inr ⟨c1, by omega⟩
    · intro hs hd hh bb hge h1 hb
      by_cases hlt : hh - 1 < chain.length
      · rw [List.getElem?_append_left hlt] at hb
        exact h0.cov hs hd hh bb hge h1 hb
      · rw [List.getElem?_append_right (by omega)] at hb
        have : bb = b := by
          cases hx : hh - 1 - chain.length with
          | zero => simp [hx] at hb; exact hb.symm
          | succ k => simp [hx] at hb
        subst this
        rcases hcase with c | c
        · exact c
        · rw [hs] at c; cases c
    · intro d hd hdh
      have := (h0.det d hd).1.le
      rw [h0.len] at this; omega
  intro r1
  cases hhits : b.spendHits r.key with
  | nil =>
    have hr1 : r1 = r := by simp only [r1, hhits, List.foldl_nil]
    rw [hr1]
    obtain ⟨x, y⟩ := same (Or.inl (by simp [Block.spent, hhits]))
    exact ⟨x, hch, y⟩
  | cons p t =>
    cases hs : r.set with
    | false =>
      have hr1 : r1 = r := foldl_satTip_unset _ _ _ hs
      rw [hr1]
      obtain ⟨x, y⟩ := same (Or.inr hs)
      exact ⟨x, hch, y⟩
    | true =>
      have hbs : b.spent r.key := by simp [Block.spent, hhits]
      -- the outpoint was not known to be spent (it is spent in no block of the old chain)
      have hdn : r.details = none := by
        cases hd : r.details with
        | none => rfl
        | some d =>
          obtain ⟨bd, hbd, hbdhas⟩ := (h0.det d hd).1.spent
          exact absurd hbdhas (hok hbs _ bd hbd)
      have hfirst : Tipped cur limit maxTip cover chain b r.key (r.atTip ⟨cur + 1, p.1, p.2⟩) :=
        satTip_tipped h0.len hvalid h0.nopanic hs (Or.inl (h0.nodet hdn))
          (fun n hn => ⟨hch n hn, (hcl n hn).1, (hcl n hn).2.1⟩) (by rw [hhits]; simp)
      have hall : Tipped cur limit maxTip cover chain b r.key r1 := by
        have : r1 = t.foldl (fun r p => r.atTip ⟨cur + 1, p.1, p.2⟩) (r.atTip ⟨cur + 1, p.1, p.2⟩) := by
          simp only [r1, hhits, List.foldl_cons]
        rw [this]
        exact foldl_tipped t hfirst (fun q hq => by rw [hhits]; simp [hq])
      exact ⟨hall.pre, hall.chan, fun _ _ _ => hall.idx⟩

theorem supdateHint_pre {cc cur limit maxTip cover c h : Nat} {chain : List Block} {r : SpendReq}
    (hp : SPre cc cur limit maxTip cover chain r) (hch : ∀ n ∈ r.ntfns, SChan n) :
    SPre cc cur limit maxTip cover chain (r.updateHint c h) ∧
      ∀ n ∈ (r.updateHint c h).ntfns, SChan n := by
  obtain ⟨u1, u2, u3, u4, u5, u6, u7⟩ := supdateHint_fields c h r
  obtain ⟨h0, hcl⟩ := hp
  refine ⟨⟨h0.congr u1 u2 u3 u4 u5 (fun _ => u6) (fun x => by rw [u7]; exact x), ?_⟩, ?_⟩
  · rw [u7, u3]; exact hcl
  · rw [u7]; exact hch

/-- the maturity clause of `ConnectTip(cc + 1, ·)` -/
theorem smature_pre {cc limit maxTip cover : Nat} {chain : List Block} {r : SpendReq}
    (hp : SPre cc (cc + 1) limit maxTip cover chain r) (hch : ∀ n ∈ r.ntfns, SChan n) :
    SPre cc (cc + 1) limit maxTip cover chain (r.mature (cc + 1) limit) ∧
    ((r.mature (cc + 1) limit).details = r.details ∧ (r.mature (cc + 1) limit).spentAt = r.spentAt ∨
     (r.mature (cc + 1) limit).details = none) := by
  obtain ⟨h0, hcl⟩ := hp
  unfold SpendReq.mature
  split
  · rename_i hfire
    simp only [Bool.and_eq_true, decide_eq_true_eq] at hfire
    obtain ⟨hge, hcont⟩ := hfire
    have hne : r.spentAt ≠ [] := by
      intro hx; rw [hx] at hcont; simp at hcont
    have hset : r.set = true := by
      cases hs : r.set with
      | true => rfl
      | false => exact absurd (h0.unset hs).2.1 hne
    obtain ⟨d, hd⟩ : ∃ d, r.details = some d := by
      cases hd : r.details with
      | none => exact absurd (h0.nodet hd) hne
      | some d => exact ⟨d, rfl⟩
    obtain ⟨hon, hrs, hini⟩ := h0.det d hd
    have hini : r.spentAt = [d.height] := by
      rcases hini with c | ⟨c, _⟩
      · exact c
      · exact absurd c hne
    have hdh : d.height = cc + 1 - limit := by
      rw [hini] at hcont; simp at hcont; omega
    simp only [hset, Bool.not_true, Bool.false_eq_true, ↓reduceIte]
    refine ⟨⟨⟨h0.len, h0.tip, h0.valid, h0.nopanic, ?_, ?_, ?_, ?_⟩, ?_⟩, Or.inr trivial⟩
    · intro _
      refine ⟨rfl, ?_, ?_⟩
      · simp only [hini, hdh]; exact delH_self _
      · intro n hn
        simp only [List.mem_map] at hn
        obtain ⟨m, _, rfl⟩ := hn
        cases hl : m.live with
        | true => simp
        | false => simp [hl]
    · intro d' hd'; cases hd'
    · intro _; simp only [hini, hdh]; exact delH_self _
    · intro hs; cases hs
    · simp only
      refine all_map (P := fun n => SChan n ∧ SCore cc r.details n) (fun n hn => ?_)
        (fun n hn => ⟨hch n hn, hcl n hn⟩)
      obtain ⟨hc, h1, h2, _⟩ := hn
      cases hl : n.live with
      | true =>
        simp only [↓reduceIte]
        obtain ⟨_, _, c3⟩ := hc (h2 hl)
        unfold SpendNtfn.sendDone
        simp [SCore, c3, h1]
      | false =>
        simp only [Bool.false_eq_true, ↓reduceIte]
        exact ⟨h1, h2, fun hl' => by rw [hl] at hl'; cases hl'⟩
  · exact ⟨⟨h0, hcl⟩, Or.inl ⟨rfl, rfl⟩⟩

/-- `ConnectTip(cur + 1, b)` as seen by one spend request -/
theorem sconnect_pre {cur limit maxTip cover : Nat} {chain : List Block} {r : SpendReq} {b : Block}
    (h : SRI cur limit maxTip cover chain r)
    (hok : b.spent r.key → ∀ (j : Nat) (b' : Block), chain[j]? = some b' → ¬ b'.spent r.key) :
    SPre cur (cur + 1) limit (max maxTip (cur + 1)) cover (chain ++ [b])
      (r.connect (cur + 1) limit b) ∧
    (∀ d, (r.connect (cur + 1) limit b).details = some d → d.height = cur + 1 →
      (r.connect (cur + 1) limit b).spentAt = [cur + 1]) := by
  unfold SpendReq.connect
  obtain ⟨hp, hch, hx⟩ := satTip_pre h hok
  simp only at hp hch hx ⊢
  generalize (b.spendHits r.key).foldl (fun r p => r.atTip ⟨cur + 1, p.1, p.2⟩) r = r1
    at hp hch hx
  obtain ⟨u1, u2, u3, u4, u5, u6, u7⟩ := supdateHint_fields (cur + 1) (cur + 1) r1
  obtain ⟨hp2, hch2⟩ := supdateHint_pre (c := cur + 1) (h := cur + 1) hp hch
  obtain ⟨hp3, hm⟩ := smature_pre hp2 hch2
  refine ⟨hp3, fun d hd hdh => ?_⟩
  rcases hm with ⟨m1, m2⟩ | m1
  · rw [m1, u3] at hd
    rw [m2, u4]; exact hx d hd hdh
  · rw [m1] at hd; cases hd

/-! ### NotifyHeight -/

/-- `NotifyHeight(cur + 1)` as seen by one spend request: the spend found in the connected block
    is delivered to every live client -/
theorem snotify_pre {cur limit maxTip cover : Nat} {chain : List Block} {r : SpendReq}
    (hp : SPre cur (cur + 1) limit maxTip cover chain r) (hch : ∀ n ∈ r.ntfns, SChan n)
    (hx : ∀ d, r.details = some d → d.height = cur + 1 → r.spentAt = [cur + 1]) :
    SPre (cur + 1) (cur + 1) limit maxTip cover chain (r.notify (cur + 1) limit (cur + 1)) := by
  obtain ⟨h0, hcl⟩ := hp
  unfold SpendReq.notify
  split
  · -- not indexed at the new height: nothing to deliver, and nothing is owed
    rename_i hnc
    refine ⟨h0, fun n hn => ?_⟩
    obtain ⟨h1, h2, h3⟩ := hcl n hn
    refine ⟨h1, h2, fun hl => ?_⟩
    have := h3 hl
    cases hd : r.details with
    | none => rw [hd] at this; exact this
    | some d =>
      rw [hd] at this
      intro hle
      by_cases hlt : d.height ≤ cur
      · exact this hlt
      · have hdh : d.height = cur + 1 := by omega
        rw [hx d hd hdh] at hnc
        simp at hnc
  · rename_i hcont
    have hcont' : r.spentAt.contains (cur + 1) = true := by simpa using hcont
    have hne : r.spentAt ≠ [] := by
      intro hx'; rw [hx'] at hcont'; simp at hcont'
    have hset : r.set = true := by
      cases hs : r.set with
      | true => rfl
      | false => exact absurd (h0.unset hs).2.1 hne
    obtain ⟨d, hd⟩ : ∃ d, r.details = some d := by
      cases hd : r.details with
      | none => exact absurd (h0.nodet hd) hne
      | some d => exact ⟨d, rfl⟩
    simp only [hset, Bool.not_true, Bool.false_eq_true, ↓reduceIte]
    obtain ⟨f1, f2, f3, f4, f5, f6, f7⟩ :=
      dispatchTo_fields (cur := cur + 1) (limit := limit) (fun _ => true) hd
    refine ⟨dispatchTo_pre0 _ h0 hd, ?_⟩
    rw [f3, hd, f7]
    intro m hm
    simp only [List.mem_map] at hm
    obtain ⟨n, hn, rfl⟩ := hm
    have hco := hcl n hn
    cases hl : n.live with
    | true =>
      simp only [Bool.and_self, ↓reduceIte]
      exact (sdispatch_core d (hch n hn) hco hl).1
    | false =>
      simp only [Bool.false_and, Bool.false_eq_true, ↓reduceIte]
      exact hco.dead hl

/-! ## the invariant is inductive -/

def SWInv (w : SWorld) : Prop := SRI w.cur w.limit w.maxTip w.cover w.chain w.r

theorem swstep_inv {w : SWorld} {op : SOp} (h : SWInv w) (hok : SOk w op) : SWInv (swstep w op) := by
  unfold SWInv at *
  cases op with
  | register reg hint => exact drainS_SRI (sregister_pre h)
  | cancel reg => exact drainS_SRI (scancel_pre h)
  | update d =>
    obtain ⟨a, b, hr, hok⟩ := hok
    simp only [swstep, hr]
    exact drainS_SRI (supdate_pre h hok)
  | tip b =>
    obtain ⟨hc, hx⟩ := sconnect_pre (b := b) h hok
    obtain ⟨hp, hch⟩ := drainS_SRI hc
    exact drainS_SRI (snotify_pre hp hch hx)
  | untip =>
    obtain ⟨h1, h2⟩ := hok
    exact drainS_SRI (sdisconnect_pre h h1 h2)

/-- a freshly started notifier at height `chain0.length` that knows nothing about outpoint `key` -/
def SWorld.init (key limit : Nat) (chain0 : List Block) : SWorld :=
  { cur := chain0.length, limit := limit, r := { key := key }, chain := chain0,
    maxTip := chain0.length, cover := chain0.length + 1 }

theorem sinit_inv (key limit : Nat) (chain0 : List Block) (hv : ValidS chain0 key) :
    SWInv (SWorld.init key limit chain0) := by
  refine ⟨⟨⟨rfl, Nat.le_refl _, hv, rfl, fun _ => ⟨rfl, rfl, fun n hn => by simp [SWorld.init] at hn⟩,
    fun d hd => by simp [SWorld.init] at hd, fun _ => rfl, fun hs => by simp [SWorld.init] at hs⟩,
    fun n hn => by simp [SWorld.init] at hn⟩, fun n hn => by simp [SWorld.init] at hn⟩

/-- operation lists whose every operation satisfies the environment assumptions -/
def SOkRun : SWorld → List SOp → Prop
  | _, [] => True
  | w, op :: rest => SOk w op ∧ SOkRun (swstep w op) rest

theorem srun_inv {w : SWorld} {ops : List SOp} (h : SWInv w) (hok : SOkRun w ops) :
    SWInv (ops.foldl swstep w) := by
  induction ops generalizing w with
  | nil => exact h
  | cons op rest ih => exact ih (swstep_inv h hok.1) hok.2

/-! ## consequences -/

/-- only-if: a client that holds a spend notification (delivered, not retracted) — the request's
    details name a block of the ACTIVE chain in which the outpoint is spent. -/
theorem sinv_sound {w : SWorld} (h : SWInv w) {n : SpendNtfn} (hn : n ∈ w.r.ntfns)
    (hl : n.live = true) (hd : n.dispatched = true) :
    ∃ d, w.r.details = some d ∧ OnChainS w.chain w.r.key d := by
  obtain ⟨⟨h0, hcl⟩, _⟩ := h
  have hc := (hcl n hn).2.2 hl
  cases hdet : w.r.details with
  | none => rw [hdet] at hc; rw [hc] at hd; cases hd
  | some d => exact ⟨d, rfl, (h0.det d hdet).1⟩

/-- if: the outpoint is spent on the active chain at a height the request has examined
    (`cover ≤ h`) — then every live client holds the spend notification, with details at that
    height (no confirmation depth: a spend is delivered as soon as its block is connected). -/
theorem sinv_complete {w : SWorld} (h : SWInv w) (hs : w.r.set = true) {hh : Nat} {b : Block}
    (h1 : 1 ≤ hh) (hb : w.chain[hh - 1]? = some b) (hhas : b.spent w.r.key) (hcov : w.cover ≤ hh)
    {n : SpendNtfn} (hn : n ∈ w.r.ntfns) (hl : n.live = true) :
    n.dispatched = true ∧ ∃ d, w.r.details = some d ∧ d.height = hh ∧ OnChainS w.chain w.r.key d := by
  obtain ⟨⟨h0, hcl⟩, _⟩ := h
  cases hdet : w.r.details with
  | none => exact absurd hhas (h0.cov hs hdet hh b hcov h1 hb)
  | some d =>
    obtain ⟨hon, _, _⟩ := h0.det d hdet
    obtain ⟨bd, hbd, hbdhas⟩ := hon.spent
    have heq := h0.valid (hh - 1) (d.height - 1) b bd hb hbd hhas hbdhas
    have hle := hon.le
    have hdh : d.height = hh := by omega
    have hc := (hcl n hn).2.2 hl
    rw [hdet] at hc
    exact ⟨hc (by rw [h0.len] at hle; exact hle.2), d, rfl, hdh, hon⟩

/-- no send ever blocks and nothing panics -/
theorem sinv_live {w : SWorld} (h : SWInv w) :
    w.r.panicked = false ∧ ∀ n ∈ w.r.ntfns, n.stuck = false :=
  ⟨h.1.1.nopanic, fun n hn => (h.1.2 n hn).1⟩

end LndModel.C14
