/-
C14 — part 2b: the persisted confirm hint never exceeds the height at which the transaction is
confirmed on the active chain (`hint_safe`).  Layered on top of `WInv` (Chain.lean).

Additional environment assumption (`Honest`): client-supplied height hints are lower bounds —
when a client registers with hint `g` the transaction is in no block below `g`, and a block that
contains the transaction is never connected below a hint supplied earlier.
-/
import LndModel.C14.Chain

namespace LndModel.C14

/-! ### the request keeps its key -/

theorem atTip_key (r : ConfReq) (d : ConfDetails) : (r.atTip d).key = r.key := by
  unfold ConfReq.atTip; split <;> (try split) <;> rfl

theorem mature_key (r : ConfReq) (h l : Nat) : (r.mature h l).key = r.key := by
  unfold ConfReq.mature; split <;> (try split) <;> rfl

theorem connect_key (r : ConfReq) (c l : Nat) (b : Block) : (r.connect c l b).key = r.key := by
  unfold ConfReq.connect
  rw [foldl_atTip, mature_key, (updateHint_fields _ _ _).1]
  split
  · rfl
  · exact atTip_key _ _

theorem notifyUpdates_key (r : ConfReq) (h : Nat) : (r.notifyUpdates h).key = r.key := by
  unfold ConfReq.notifyUpdates; split <;> (try split) <;> (try split) <;> rfl

theorem notifyDue_key (r : ConfReq) (h : Nat) : (r.notifyDue h).key = r.key := by
  unfold ConfReq.notifyDue; split <;> (try split) <;> (try split) <;> rfl

theorem notify_key (r : ConfReq) (h : Nat) : (r.notify h).key = r.key := by
  unfold ConfReq.notify
  simp only [notifyDue_key, notifyUpdates_key]

theorem disconnect_key (r : ConfReq) (c d h : Nat) : (r.disconnect c d h).key = r.key := by
  unfold ConfReq.disconnect
  have := (updateHint_fields c h r).1
  simp only
  split <;> (try split) <;> simp [this]

/-- the request keeps its key -/
theorem wstep_key (w : World) (op : WOp) : (wstep w op).r.key = w.r.key := by
  cases op with
  | register reg n hint => exact register_key _ _ _ _ _ _
  | cancel reg => exact cancel_key _ _
  | update d => exact update_key _ _ _ _
  | tip b =>
    simp only [wstep, drainR_key, notify_key, connect_key]
  | untip =>
    simp only [wstep, drainR_key, disconnect_key]

theorem run_key (w : World) (ops : List WOp) : (ops.foldl wstep w).r.key = w.r.key := by
  induction ops generalizing w with
  | nil => rfl
  | cons op rest ih => rw [List.foldl_cons, ih, wstep_key]

/-! ### what the operations do to `set / rescan / details / hint` -/

theorem updateHint_hint (r : ConfReq) (c ht : Nat) :
    (r.updateHint c ht).hint = r.hint ∨
    ((r.updateHint c ht).hint = some c ∧
      ((r.set = true ∧ r.rescan = .complete ∧ r.details = none) ∨ ht ∈ r.initialAt)) := by
  unfold ConfReq.updateHint
  split
  · rename_i hc
    right
    refine ⟨rfl, ?_⟩
    simp only [Bool.or_eq_true, Bool.and_eq_true, beq_iff_eq, Option.isNone_iff_eq_none,
      List.contains_iff_mem] at hc
    rcases hc with ⟨⟨a, b⟩, c⟩ | c
    · exact Or.inl ⟨a, b, c⟩
    · exact Or.inr c
  · left; rfl

theorem disconnect_hint (r : ConfReq) (c d h : Nat) :
    (r.disconnect c d h).hint = (r.updateHint c h).hint := by
  unfold ConfReq.disconnect
  simp only
  split <;> (try split) <;> rfl

theorem mature_hint (r : ConfReq) (h l : Nat) : (r.mature h l).hint = r.hint := by
  unfold ConfReq.mature; split <;> (try split) <;> rfl

theorem notify_hint (r : ConfReq) (h : Nat) : (r.notify h).hint = r.hint := by
  unfold ConfReq.notify ConfReq.notifyDue ConfReq.notifyUpdates
  simp only
  split <;> (try split) <;> (try split) <;> (try split) <;> (try split) <;> (try split) <;> rfl

theorem atTip_hint (r : ConfReq) (d : ConfDetails) : (r.atTip d).hint = r.hint := by
  unfold ConfReq.atTip; split <;> (try split) <;> rfl


theorem notify_fields (r : ConfReq) (h : Nat) :
    (r.notify h).set = r.set ∧ (r.notify h).rescan = r.rescan ∧ (r.notify h).details = r.details ∧
    (r.notify h).hint = r.hint := by
  unfold ConfReq.notify ConfReq.notifyDue ConfReq.notifyUpdates
  simp only
  split <;> (try split) <;> (try split) <;> (try split) <;> (try split) <;> (try split) <;> simp_all

theorem dispatchAll_same (cur limit : Nat) (r : ConfReq) :
    (r.dispatchAll cur limit).set = r.set ∧ (r.dispatchAll cur limit).rescan = r.rescan ∧
    (r.dispatchAll cur limit).details = r.details ∧ (r.dispatchAll cur limit).hint = r.hint := by
  unfold ConfReq.dispatchAll; split <;> simp

@[simp] theorem dispatchAll_set (cur limit : Nat) (r : ConfReq) :
    (r.dispatchAll cur limit).set = r.set := (dispatchAll_same cur limit r).1
@[simp] theorem dispatchAll_rescan (cur limit : Nat) (r : ConfReq) :
    (r.dispatchAll cur limit).rescan = r.rescan := (dispatchAll_same cur limit r).2.1
@[simp] theorem dispatchAll_details (cur limit : Nat) (r : ConfReq) :
    (r.dispatchAll cur limit).details = r.details := (dispatchAll_same cur limit r).2.2.1
@[simp] theorem dispatchAll_hint (cur limit : Nat) (r : ConfReq) :
    (r.dispatchAll cur limit).hint = r.hint := (dispatchAll_same cur limit r).2.2.2

/-- result of `RegisterConf` on the request record -/
theorem register_spec (cur limit reg n hint : Nat) (r : ConfReq) :
    let q := r.register cur limit reg n hint
    let start := startHeight r.hint hint
    let rs0 := if r.set then r.rescan else Rescan.notStarted
    q.1.set = true ∧ q.1.hint = r.hint ∧ q.1.details = (if r.set then r.details else none) ∧
    ((q.2 = .hist start cur ∧ q.1.rescan = .pending ∧ start ≤ cur ∧ rs0 = .notStarted) ∨
     (q.2 = .ok ∧ q.1.rescan = .complete ∧ (rs0 = .complete ∨ (rs0 = .notStarted ∧ start > cur))) ∨
     (q.2 = .ok ∧ q.1.rescan = .pending ∧ rs0 = .pending)) := by
  obtain ⟨d1, d2, d3, d4⟩ := dispatchAll_same cur limit
    (r.opened.addNtfn { reg := reg, numConfs := n, left := n })
  unfold ConfReq.register ConfReq.registered
  cases hs : r.set <;> cases hr : r.rescan <;>
    simp_all [ConfReq.opened, ConfReq.addNtfn] <;> (try split) <;> simp_all <;> omega

/-- result of `UpdateConfDetails` on the request record -/
theorem update_spec (cur limit : Nat) (d : Option ConfDetails) (r : ConfReq) :
    let q := (r.update cur limit d).1
    q.set = r.set ∧
    ((q.rescan = r.rescan ∧ q.details = r.details ∧ q.hint = r.hint ∧
        (r.set = false ∨ r.details.isSome)) ∨
     (r.set = true ∧ r.details = none ∧ q.rescan = .complete ∧
        ((d = none ∧ q.details = none ∧ q.hint = some cur) ∨
         (∃ x, d = some x ∧ x.height > cur ∧ q.details = none ∧ q.hint = r.hint) ∨
         (∃ x, d = some x ∧ x.height ≤ cur ∧ q.details = some x ∧ q.hint = some x.height)))) := by
  unfold ConfReq.update
  cases hs : r.set with
  | false => simp [hs]
  | true =>
    cases hd : r.details with
    | some y => simp [hs, hd]
    | none =>
      cases d with
      | none => simp [hs, hd]
      | some x =>
        by_cases hx : x.height > cur
        · simp [hs, hd, hx]
        · simp [hs, hd, hx]; omega

/-- `handleConfDetailsAtTip` for the hits of one block -/
theorem atTip_spec (r : ConfReq) (c bid : Nat) (hits : List Nat) :
    let r1 := hits.foldl (fun r i => r.atTip ⟨c, bid, i⟩) r
    r1.hint = r.hint ∧ r1.set = r.set ∧
    ((r1 = r ∧ (hits = [] ∨ r.set = false ∨ r.details.isSome)) ∨
     (∃ i t, hits = i :: t ∧ r.set = true ∧ r.details = none ∧ r1.rescan = .complete ∧
        r1.details = some ⟨c, bid, i⟩ ∧ r1.initialAt = addH c r.initialAt)) := by
  simp only [foldl_atTip]
  cases hits with
  | nil => simp
  | cons i t =>
    simp only
    unfold ConfReq.atTip
    cases hs : r.set with
    | false => simp [hs]
    | true =>
      cases hd : r.details with
      | some y => simp [hs, hd]
      | none => simp [hs, hd]

theorem mature_spec (r : ConfReq) (h l : Nat) :
    (r.mature h l).hint = r.hint ∧
    (((r.mature h l).set = false ∧ r.set = true ∧ (h - l) ∈ r.initialAt ∧ h ≥ l) ∨
     ((r.mature h l).set = r.set ∧ (r.mature h l).rescan = r.rescan ∧
      (r.mature h l).details = r.details)) := by
  unfold ConfReq.mature
  split
  · rename_i hf
    simp only [Bool.and_eq_true, decide_eq_true_eq, List.contains_iff_mem] at hf
    cases hs : r.set with
    | false => simp [hs]
    | true => simp [hs, hf.1, hf.2]
  · simp

theorem updateHint_spec (r : ConfReq) (c ht : Nat) :
    (r.updateHint c ht).hint =
      (if (r.set && r.rescan == .complete && r.details.isNone) || r.initialAt.contains ht
       then some c else r.hint) := by
  unfold ConfReq.updateHint; split <;> simp_all

theorem disconnect_spec (r : ConfReq) (c d h : Nat) :
    (r.disconnect c d h).set = r.set ∧ (r.disconnect c d h).rescan = r.rescan ∧
    ((r.disconnect c d h).details = r.details ∨
      ((r.disconnect c d h).details = none ∧ h ∈ r.initialAt)) := by
  obtain ⟨u1, u2, u3, u4, u5, u6, u7⟩ := updateHint_fields c h r
  unfold ConfReq.disconnect
  simp only
  split
  · exact ⟨u2, u6, Or.inl u3⟩
  · split
    · exact ⟨u2, u6, Or.inl u3⟩
    · refine ⟨u2, u6, ?_⟩
      simp only
      split
      · rename_i hc
        right; refine ⟨rfl, ?_⟩
        rw [u4] at hc; simpa using hc
      · left; exact u3

theorem cancel_fields (r : ConfReq) (reg : Nat) :
    (r.cancel reg).set = r.set ∧ (r.cancel reg).rescan = r.rescan ∧
    (r.cancel reg).details = r.details ∧ (r.cancel reg).hint = r.hint := by
  unfold ConfReq.cancel; split <;> simp

/-! ### the hint invariant -/

/-- no block of the chain at a height satisfying `P` contains the transaction -/
def NoTx (chain : List Block) (key : Nat) (P : Nat → Prop) : Prop :=
  ∀ (h : Nat) (b : Block), 1 ≤ h → P h → chain[h - 1]? = some b → ¬ b.has key

structure HInv (w : World) : Prop where
  cov_le : w.cover ≤ w.cur + 1
  lo_ok : NoTx w.chain w.r.key (· < w.lo)
  /-- `hint_safe`: the cached hint is at most the height of any block of the active chain that
      contains the transaction -/
  hint_ok : ∀ v, w.r.hint = some v → ∀ (h : Nat) (b : Block), 1 ≤ h → w.chain[h - 1]? = some b →
      b.has w.r.key → v ≤ h
  below : w.r.set = true → w.r.details = none → ∀ a b0, w.range = some (a, b0) →
      NoTx w.chain w.r.key (· < a)
  rcov : w.r.set = true → ∀ a b0, w.range = some (a, b0) → w.cover ≤ b0 + 1
  cnone : w.r.set = true → w.r.rescan = .complete → w.r.details = none →
      NoTx w.chain w.r.key (fun _ => True)
  unset : w.r.set = false → ∀ v, w.r.hint = some v → ∃ (h : Nat) (b : Block), v ≤ h ∧ 1 ≤ h ∧
      w.chain[h - 1]? = some b ∧ b.has w.r.key ∧ h + w.limit ≤ w.maxTip

/-- honest height hints: lower bounds for the height at which the transaction can be mined -/
def Honest (w : World) : WOp → Prop
  | .register _ _ hint => NoTx w.chain w.r.key (· < hint)
  | .tip b => b.has w.r.key → w.lo ≤ w.cur + 1
  | _ => True

theorem below_start {chain : List Block} {key : Nat} {cached : Option Nat} {hint : Nat}
    (hh : NoTx chain key (· < hint))
    (hc : ∀ v, cached = some v → ∀ (h : Nat) (b : Block), 1 ≤ h → chain[h - 1]? = some b →
      b.has key → v ≤ h) :
    NoTx chain key (· < startHeight cached hint) := by
  intro h b h1 hlt hb hhas
  unfold startHeight at hlt
  cases hcd : cached with
  | none => rw [hcd] at hlt; exact hh h b h1 hlt hb hhas
  | some c =>
    rw [hcd] at hlt
    simp only at hlt
    split at hlt
    · have := hc c hcd h b h1 hb hhas; omega
    · exact hh h b h1 hlt hb hhas

theorem append_lookup {chain : List Block} {b bb : Block} {h : Nat} (h1 : 1 ≤ h)
    (hb : (chain ++ [b])[h - 1]? = some bb) :
    (h ≤ chain.length ∧ chain[h - 1]? = some bb) ∨ (h = chain.length + 1 ∧ bb = b) := by
  by_cases hl : h - 1 < chain.length
  · left; rw [List.getElem?_append_left hl] at hb; exact ⟨by omega, hb⟩
  · right
    rw [List.getElem?_append_right (by omega)] at hb
    cases hx : h - 1 - chain.length with
    | zero => simp [hx] at hb; exact ⟨by omega, hb.symm⟩
    | succ k => simp [hx] at hb

theorem lookup_le {chain : List Block} {bb : Block} {h : Nat} (hb : chain[h - 1]? = some bb)
    (h1 : 1 ≤ h) : h ≤ chain.length := by
  have := (List.getElem?_eq_some_iff.mp hb).1; omega

theorem addH_mem (h : Nat) (l : List Nat) : h ∈ addH h l := by
  unfold addH; split
  · rename_i hc; simpa using hc
  · simp

/-! ### preservation -/

theorem hstep_register0 {w : World} {reg n hint : Nat} (h0 : Pre0 w.cur w.limit w.maxTip w.cover w.chain w.r)
    (hh : Honest w (.register reg n hint)) (hi : HInv w) :
    HInv (wstep w (.register reg n hint)) := by
  obtain ⟨e1, e2, e3, e4⟩ := register_spec w.cur w.limit reg n hint w.r
  have hk : (wstep w (.register reg n hint)).r.key = w.r.key := by
    simp only [wstep, drainR_key]; exact register_key _ _ _ _ _ _
  have hlen := h0.len
  have hbs := below_start (cached := w.r.hint) hh hi.hint_ok
  simp only [wstep] at hk ⊢
  refine ⟨?_, ?_, ?_, ?_, ?_, ?_, ?_⟩
  · have := hi.cov_le; simp only; split <;> omega
  · intro h b h1 hlt hb
    rw [hk]
    simp only at hlt
    by_cases hx : h < w.lo
    · exact hi.lo_ok h b h1 hx hb
    · exact hh h b h1 (by omega) hb
  · intro v hv
    simp only [drainR] at hv
    rw [e2] at hv
    rw [hk]; exact hi.hint_ok v hv
  · intro _ hd a b0 hr
    simp only [drainR] at hd
    rw [hk]
    rw [e3] at hd
    simp only at hr
    rcases e4 with ⟨q, _, _, _⟩ | ⟨q, _, _⟩ | ⟨q, _, _⟩
    · rw [q] at hr; simp only [rangeOf, Option.some.injEq, Prod.mk.injEq] at hr
      rw [← hr.1]; exact hbs
    · rw [q] at hr; simp only [rangeOf] at hr
      cases hs : w.r.set with
      | false => simp [hs] at hr
      | true => simp only [hs, ↓reduceIte] at hr hd; exact hi.below hs hd a b0 hr
    · rw [q] at hr; simp only [rangeOf] at hr
      cases hs : w.r.set with
      | false => simp [hs] at hr
      | true => simp only [hs, ↓reduceIte] at hr hd; exact hi.below hs hd a b0 hr
  · intro _ a b0 hr
    simp only at hr ⊢
    have hc := hi.cov_le
    rcases e4 with ⟨q, _, _, _⟩ | ⟨q, _, _⟩ | ⟨q, _, _⟩
    · rw [q] at hr; simp only [rangeOf, Option.some.injEq, Prod.mk.injEq] at hr
      split <;> omega
    · rw [q] at hr; simp only [rangeOf] at hr
      cases hs : w.r.set with
      | false => simp [hs] at hr
      | true => simp only [hs, ↓reduceIte] at hr ⊢; exact hi.rcov hs a b0 hr
    · rw [q] at hr; simp only [rangeOf] at hr
      cases hs : w.r.set with
      | false => simp [hs] at hr
      | true => simp only [hs, ↓reduceIte] at hr ⊢; exact hi.rcov hs a b0 hr
  · intro _ hrs hd
    simp only [drainR] at hrs hd
    rw [hk]
    rw [e3] at hd
    rcases e4 with ⟨_, q, _, _⟩ | ⟨_, _, q⟩ | ⟨_, q, _⟩
    · rw [q] at hrs; cases hrs
    · rcases q with q | ⟨_, q⟩
      · cases hs : w.r.set with
        | false => simp [hs] at q
        | true =>
          simp only [hs, ↓reduceIte] at q hd
          exact hi.cnone hs q hd
      · intro h b h1 _ hb
        have hb' : w.chain[h - 1]? = some b := hb
        have := lookup_le hb' h1
        exact hbs h b h1 (by omega) hb' 
    · rw [q] at hrs; cases hrs
  · intro hs
    simp only [drainR] at hs
    rw [e1] at hs; cases hs

theorem hstep_register {w : World} {reg n hint : Nat} (hw : WInv w)
    (hh : Honest w (.register reg n hint)) (hi : HInv w) :
    HInv (wstep w (.register reg n hint)) := hstep_register0 hw.1.1 hh hi

theorem hstep_cancel {w : World} {reg : Nat} (hi : HInv w) : HInv (wstep w (.cancel reg)) := by
  obtain ⟨c1, c2, c3, c4⟩ := cancel_fields w.r reg
  have hk : (w.r.cancel reg).key = w.r.key := cancel_key _ _
  simp only [wstep]
  refine ⟨hi.cov_le, ?_, ?_, ?_, ?_, ?_, ?_⟩
  · simp only [drainR_key, hk]; exact hi.lo_ok
  · simp only [drainR_key, hk, drainR, c4]; exact hi.hint_ok
  · simp only [drainR_key, hk, drainR, c1, c3]; exact hi.below
  · simp only [drainR, c1]; exact hi.rcov
  · simp only [drainR_key, hk, drainR, c1, c2, c3]; exact hi.cnone
  · simp only [drainR_key, hk, drainR, c1, c4]; exact hi.unset

theorem coverAfter_le (cover : Nat) (r : Option (Nat × Nat)) : coverAfter cover r ≤ cover := by
  unfold coverAfter
  split
  · split <;> omega
  · omega

theorem hstep_update0 {w : World} {d : Option ConfDetails} (h0 : Pre0 w.cur w.limit w.maxTip w.cover w.chain w.r) (hok : Ok w (.update d))
    (hi : HInv w) : HInv (wstep w (.update d)) := by
  obtain ⟨a, b0, hr, hok⟩ := hok
  obtain ⟨e1, e2⟩ := update_spec w.cur w.limit d w.r
  have hk : (w.r.update w.cur w.limit d).1.key = w.r.key := update_key _ _ _ _
  have hcl := coverAfter_le w.cover w.range
  have hlen := h0.len
  simp only [wstep]
  rcases e2 with ⟨q1, q2, q3, _⟩ | ⟨hs, hd, q1, q⟩
  · -- nothing but `cover` changes
    refine ⟨by show coverAfter w.cover w.range ≤ w.cur + 1; have := hi.cov_le; omega, ?_, ?_, ?_, ?_, ?_, ?_⟩
    · simp only [drainR_key, hk]; exact hi.lo_ok
    · simp only [drainR_key, hk, drainR, q3]; exact hi.hint_ok
    · simp only [drainR_key, hk, drainR, e1, q2]; exact hi.below
    · simp only [drainR, e1]
      intro hs a' b' hr'
      have := hi.rcov hs a' b' hr'; omega
    · simp only [drainR_key, hk, drainR, e1, q1, q2]; exact hi.cnone
    · simp only [drainR_key, hk, drainR, e1, q3]; exact hi.unset
  · have hrc := hi.rcov hs a b0 hr
    rcases q with ⟨rfl, qd, qh⟩ | ⟨x, rfl, hx, _, _⟩ | ⟨x, rfl, hx, qd, qh⟩
    · -- "not found": the transaction is nowhere on the chain
      have hnone : NoTx w.chain w.r.key (fun _ => True) := by
        intro h b h1 _ hb
        by_cases hlt : h < a
        · exact hi.below hs hd a b0 hr h b h1 hlt hb
        · by_cases hle : h ≤ b0
          · exact hok h b (by omega) hle h1 hb
          · exact h0.cov hs hd h b (by omega) h1 hb
      refine ⟨by show coverAfter w.cover w.range ≤ w.cur + 1; have := hi.cov_le; omega, ?_, ?_, ?_, ?_, ?_, ?_⟩
      · simp only [drainR_key, hk]; exact hi.lo_ok
      · simp only [drainR_key, hk]
        intro v _ h b h1 hb hhas
        exact absurd hhas (hnone h b h1 trivial hb)
      · simp only [drainR_key, hk]
        intro _ _ a' b' _ h b h1 _ hb
        exact hnone h b h1 trivial hb
      · simp only [drainR, e1]
        intro hs' a' b' hr'
        have := hi.rcov hs' a' b' hr'; omega
      · simp only [drainR_key, hk]
        intro _ _ _; exact hnone
      · simp only [drainR, e1]
        intro hs'; rw [hs] at hs'; cases hs'
    · have := hok.1.le; omega
    · -- found: cached and committed as hint
      obtain ⟨hon, _⟩ := hok
      refine ⟨by show coverAfter w.cover w.range ≤ w.cur + 1; have := hi.cov_le; omega, ?_, ?_, ?_, ?_, ?_, ?_⟩
      · simp only [drainR_key, hk]; exact hi.lo_ok
      · simp only [drainR_key, hk, drainR, qh]
        intro v hv h b h1 hb hhas
        simp only [Option.some.injEq] at hv
        obtain ⟨bd, hbd, hbdhas⟩ := hon.has
        have := h0.valid (h - 1) (x.height - 1) b bd hb hbd hhas hbdhas
        have := hon.le
        omega
      · simp only [drainR, qd]
        intro _ hx'; cases hx'
      · simp only [drainR, e1]
        intro hs' a' b' hr'
        have := hi.rcov hs' a' b' hr'; omega
      · simp only [drainR, qd]
        intro _ _ hx'; cases hx'
      · simp only [drainR, e1]
        intro hs'; rw [hs] at hs'; cases hs'

theorem hstep_update {w : World} {d : Option ConfDetails} (hw : WInv w) (hok : Ok w (.update d))
    (hi : HInv w) : HInv (wstep w (.update d)) := hstep_update0 hw.1.1 hok hi


theorem hstep_untip {w : World} (hw : WInv w) (hok : Ok w .untip) (hi : HInv w) :
    HInv (wstep w .untip) := by
  obtain ⟨hc1, hlim⟩ := hok
  obtain ⟨e1, e2, e3⟩ := disconnect_spec w.r (w.cur - 1) (w.depth + 1) w.cur
  have hk : (w.r.disconnect (w.cur - 1) (w.depth + 1) w.cur).key = w.r.key := by
    unfold ConfReq.disconnect
    have := (updateHint_fields (w.cur - 1) w.cur w.r).1
    simp only
    split <;> (try split) <;> simp [this]
  have hhint : (w.r.disconnect (w.cur - 1) (w.depth + 1) w.cur).hint =
      (if (w.r.set && w.r.rescan == .complete && w.r.details.isNone) || w.r.initialAt.contains w.cur
       then some (w.cur - 1) else w.r.hint) := by
    rw [disconnect_hint, updateHint_spec]
  have hlen := hw.1.1.len
  -- a transaction in the shortened chain is in the old chain, below the tip
  have sub : ∀ {h : Nat} {b : Block}, w.chain.dropLast[h - 1]? = some b → 1 ≤ h →
      w.chain[h - 1]? = some b ∧ h < w.cur := by
    intro h b hb h1
    obtain ⟨x, y⟩ := dropLast_some hb
    exact ⟨x, by omega⟩
  -- if the request is watched at the disconnected height, the transaction is in no other block
  have gone : w.cur ∈ w.r.initialAt → NoTx w.chain.dropLast w.r.key (fun _ => True) := by
    intro hm h b h1 _ hb hhas
    obtain ⟨x, y⟩ := sub hb h1
    cases hd : w.r.details with
    | none => rw [hw.1.1.nodet hd] at hm; cases hm
    | some d =>
      obtain ⟨hon, _, hini⟩ := hw.1.1.det d hd
      have hdh : d.height = w.cur := by
        rcases hini with c | ⟨c, _⟩
        · rw [c] at hm; simp at hm; omega
        · rw [c] at hm; cases hm
      obtain ⟨bd, hbd, hbdhas⟩ := hon.has
      have := hw.1.1.valid (h - 1) (d.height - 1) b bd x hbd hhas hbdhas
      omega
  simp only [wstep]
  refine ⟨?_, ?_, ?_, ?_, ?_, ?_, ?_⟩
  · show min w.cover w.cur ≤ w.cur - 1 + 1; omega
  · simp only [drainR_key, hk]
    intro h b h1 hlt hb
    exact hi.lo_ok h b h1 hlt (sub hb h1).1
  · simp only [drainR_key, hk, drainR, hhint]
    intro v hv h b h1 hb hhas
    obtain ⟨x, y⟩ := sub hb h1
    split at hv
    · rename_i hc
      simp only [Bool.or_eq_true, Bool.and_eq_true, beq_iff_eq, Option.isNone_iff_eq_none,
        List.contains_iff_mem] at hc
      rcases hc with ⟨⟨a, b'⟩, c⟩ | c
      · exact absurd hhas (hi.cnone a b' c h b h1 trivial x)
      · exact absurd hhas (gone c h b h1 trivial hb)
    · exact hi.hint_ok v hv h b h1 x hhas
  · simp only [drainR_key, hk, drainR, e1]
    intro hs hd a b0 hr h b h1 hlt hb
    rcases e3 with q | ⟨_, q⟩
    · rw [q] at hd
      exact hi.below hs hd a b0 hr h b h1 hlt (sub hb h1).1
    · exact gone q h b h1 trivial hb
  · simp only [drainR, e1]
    intro hs a b0 hr
    have := hi.rcov hs a b0 hr
    show min w.cover w.cur ≤ b0 + 1; omega
  · simp only [drainR_key, hk, drainR, e1, e2]
    intro hs hrs hd h b h1 _ hb
    rcases e3 with q | ⟨_, q⟩
    · rw [q] at hd
      exact hi.cnone hs hrs hd h b h1 trivial (sub hb h1).1
    · exact gone q h b h1 trivial hb
  · simp only [drainR_key, hk, drainR, e1, hhint]
    intro hs v hv
    have hini : w.r.initialAt = [] := (hw.1.1.unset hs).2.1
    simp only [hs, hini, Bool.false_and, List.contains_nil, Bool.or_self, Bool.false_eq_true,
      ↓reduceIte] at hv
    obtain ⟨h, b, a1, a2, a3, a4, a5⟩ := hi.unset hs v hv
    have := lookup_le a3 a2
    refine ⟨h, b, a1, a2, ?_, a4, a5⟩
    rw [dropLast_of_lt (by omega)]; exact a3

theorem hstep_tip {w : World} {b : Block} (hw : WInv w) (hw' : WInv (wstep w (.tip b)))
    (hok : Ok w (.tip b)) (hh : Honest w (.tip b)) (hi : HInv w) (hl : 1 ≤ w.limit) :
    HInv (wstep w (.tip b)) := by
  have hk : (wstep w (.tip b)).r.key = w.r.key := wstep_key w (.tip b)
  have hvalid' : Valid (w.chain ++ [b]) w.r.key := by
    have := hw'.1.1.valid; rw [hk] at this; exact this
  have hlen := hw.1.1.len
  -- the request record after the block, in terms of the intermediate records
  obtain ⟨a1, a2, a3⟩ := atTip_spec w.r (w.cur + 1) b.id (b.confHits w.r.key)
  generalize hr1 : (b.confHits w.r.key).foldl (fun r i => r.atTip ⟨w.cur + 1, b.id, i⟩) w.r = r1
    at a1 a2 a3
  obtain ⟨u1, u2, u3, u4, u5, u6, u7⟩ := updateHint_fields (w.cur + 1) (w.cur + 1) r1
  have uh := updateHint_spec r1 (w.cur + 1) (w.cur + 1)
  obtain ⟨m1, m2⟩ := mature_spec (r1.updateHint (w.cur + 1) (w.cur + 1)) (w.cur + 1) w.limit
  have hrc : w.r.connect (w.cur + 1) w.limit b =
      (r1.updateHint (w.cur + 1) (w.cur + 1)).mature (w.cur + 1) w.limit := by
    simp only [ConfReq.connect]; rw [hr1]
  obtain ⟨n1, n2, n3, n4⟩ := notify_fields (drainR (w.r.connect (w.cur + 1) w.limit b)) (w.cur + 1)
  have fset : (wstep w (.tip b)).r.set = ((r1.updateHint (w.cur + 1) (w.cur + 1)).mature (w.cur + 1) w.limit).set := by
    show ((drainR (w.r.connect (w.cur + 1) w.limit b)).notify (w.cur + 1)).set = _
    rw [n1]; show (w.r.connect (w.cur + 1) w.limit b).set = _; rw [hrc]
  have fres : (wstep w (.tip b)).r.rescan = ((r1.updateHint (w.cur + 1) (w.cur + 1)).mature (w.cur + 1) w.limit).rescan := by
    show ((drainR (w.r.connect (w.cur + 1) w.limit b)).notify (w.cur + 1)).rescan = _
    rw [n2]; show (w.r.connect (w.cur + 1) w.limit b).rescan = _; rw [hrc]
  have fdet : (wstep w (.tip b)).r.details = ((r1.updateHint (w.cur + 1) (w.cur + 1)).mature (w.cur + 1) w.limit).details := by
    show ((drainR (w.r.connect (w.cur + 1) w.limit b)).notify (w.cur + 1)).details = _
    rw [n3]; show (w.r.connect (w.cur + 1) w.limit b).details = _; rw [hrc]
  have fhint : (wstep w (.tip b)).r.hint =
      (if (r1.set && r1.rescan == .complete && r1.details.isNone) || r1.initialAt.contains (w.cur + 1)
       then some (w.cur + 1) else w.r.hint) := by
    show ((drainR (w.r.connect (w.cur + 1) w.limit b)).notify (w.cur + 1)).hint = _
    rw [n4]; show (w.r.connect (w.cur + 1) w.limit b).hint = _; rw [hrc, m1, uh, a1]
  have fchain : (wstep w (.tip b)).chain = w.chain ++ [b] := rfl
  have fcur : (wstep w (.tip b)).cur = w.cur + 1 := rfl
  -- where a transaction of the extended chain sits
  have look : ∀ {h : Nat} {bb : Block}, 1 ≤ h → (w.chain ++ [b])[h - 1]? = some bb →
      (h ≤ w.cur ∧ w.chain[h - 1]? = some bb) ∨ (h = w.cur + 1 ∧ bb = b) := by
    intro h bb h1 hb
    have := append_lookup h1 hb
    rw [hlen] at this; exact this
  have hbidx : (w.chain ++ [b])[w.cur + 1 - 1]? = some b := by
    simp only [Nat.add_sub_cancel]; rw [← hlen]; exact List.getElem?_concat_length
  -- a block of the old chain with the tx excludes the new block having it
  have excl : ∀ {h : Nat} {bb : Block}, 1 ≤ h → w.chain[h - 1]? = some bb → bb.has w.r.key →
      ¬ b.has w.r.key := by
    intro h bb h1 hb hhas hbhas
    exact hok hbhas (h - 1) bb hb hhas
  -- the transaction is in the new block and the request was watching without details:
  -- the record is now indexed at the new height
  have sight : w.r.set = true → w.r.details = none → b.has w.r.key →
      (w.cur + 1) ∈ r1.initialAt ∧ r1.details.isSome := by
    intro hs hd hbhas
    rcases a3 with ⟨_, q⟩ | ⟨i, t, _, _, _, _, q4, q5⟩
    · rcases q with q | q | q
      · exact absurd q hbhas
      · rw [hs] at q; cases q
      · rw [hd] at q; cases q
    · exact ⟨by rw [q5]; exact addH_mem _ _, by rw [q4]; rfl⟩
  -- hint clause first
  have hintok : ∀ v, (wstep w (.tip b)).r.hint = some v → ∀ (h : Nat) (bb : Block), 1 ≤ h →
      (w.chain ++ [b])[h - 1]? = some bb → bb.has w.r.key → v ≤ h := by
    intro v hv h bb h1 hb hhas
    rw [fhint] at hv
    split at hv
    · rename_i hc
      simp only [Option.some.injEq] at hv
      simp only [Bool.or_eq_true, Bool.and_eq_true, beq_iff_eq, Option.isNone_iff_eq_none,
        List.contains_iff_mem] at hc
      rcases look h1 hb with ⟨hle, hb0⟩ | ⟨he, _⟩
      · -- the transaction would be in an old block: impossible in both cases
        exfalso
        rcases hc with ⟨⟨c1, c2⟩, c3⟩ | c
        · rcases a3 with ⟨q, _⟩ | ⟨i, t, _, _, _, _, q4, _⟩
          · rw [q] at c1 c2 c3
            exact hi.cnone c1 c2 c3 h bb h1 trivial hb0 hhas
          · rw [q4] at c3; cases c3
        · rcases a3 with ⟨q, _⟩ | ⟨i, t, q1, _, _, _, _, _⟩
          · rw [q] at c
            cases hd : w.r.details with
            | none => rw [hw.1.1.nodet hd] at c; cases c
            | some d =>
              obtain ⟨hon, _, hini⟩ := hw.1.1.det d hd
              have := hon.le
              rcases hini with x | ⟨x, _⟩
              · rw [x] at c; simp at c; omega
              · rw [x] at c; cases c
          · have hbhas : b.has w.r.key := by simp [Block.has, q1]
            exact excl h1 hb0 hhas hbhas
      · omega
    · rename_i hc
      rcases look h1 hb with ⟨hle, hb0⟩ | ⟨he, hbb⟩
      · exact hi.hint_ok v hv h bb h1 hb0 hhas
      · -- the hint was not moved although the new block has the transaction
        subst hbb
        exfalso
        cases hs : w.r.set with
        | false =>
          obtain ⟨h0, b0, _, x2, x3, x4, _⟩ := hi.unset hs v hv
          exact excl x2 x3 x4 hhas
        | true =>
          cases hd : w.r.details with
          | some d =>
            obtain ⟨hon, _, _⟩ := hw.1.1.det d hd
            obtain ⟨bd, hbd, hbdhas⟩ := hon.has
            exact excl hon.1 hbd hbdhas hhas
          | none =>
            obtain ⟨x, _⟩ := sight hs hd hhas
            apply hc
            simp only [Bool.or_eq_true, List.contains_iff_mem]
            exact Or.inr x
  refine ⟨?_, ?_, ?_, ?_, ?_, ?_, ?_⟩
  · show w.cover ≤ w.cur + 1 + 1; have := hi.cov_le; omega
  · rw [hk]
    intro h bb h1 hlt hb
    rcases look h1 hb with ⟨_, hb0⟩ | ⟨he, hbb⟩
    · exact hi.lo_ok h bb h1 hlt hb0
    · subst hbb
      intro hbhas
      have := hh hbhas
      have hlt' : h < w.lo := hlt
      omega
  · rw [hk]; exact hintok
  · rw [hk, fset, fdet]
    intro hs hd a b0 hr h bb h1 hlt hb
    have hr' : w.range = some (a, b0) := hr
    rcases m2 with ⟨x, _⟩ | ⟨x1, _, x3⟩
    · rw [x] at hs; cases hs
    · rw [x1, u2, a2] at hs
      rw [x3, u3] at hd
      rcases a3 with ⟨q, qq⟩ | ⟨i, t, _, _, _, _, q4, _⟩
      · rw [q] at hd
        rcases look h1 hb with ⟨_, hb0⟩ | ⟨_, hbb⟩
        · exact hi.below hs hd a b0 hr' h bb h1 hlt hb0
        · subst hbb
          rcases qq with qq | qq | qq
          · simp [Block.has, qq]
          · rw [hs] at qq; cases qq
          · rw [hd] at qq; cases qq
      · rw [q4] at hd; cases hd
  · rw [fset]
    intro hs a b0 hr
    have hr' : w.range = some (a, b0) := hr
    rcases m2 with ⟨x, _⟩ | ⟨x1, _, _⟩
    · rw [x] at hs; cases hs
    · rw [x1, u2, a2] at hs
      exact hi.rcov hs a b0 hr'
  · rw [hk, fset, fres, fdet]
    intro hs hrs hd h bb h1 _ hb
    rcases m2 with ⟨x, _⟩ | ⟨x1, x2, x3⟩
    · rw [x] at hs; cases hs
    · rw [x1, u2, a2] at hs
      rw [x2, u6] at hrs
      rw [x3, u3] at hd
      rcases a3 with ⟨q, qq⟩ | ⟨i, t, _, _, _, _, q4, _⟩
      · rw [q] at hd hrs
        rcases look h1 hb with ⟨_, hb0⟩ | ⟨_, hbb⟩
        · exact hi.cnone hs hrs hd h bb h1 trivial hb0
        · subst hbb
          rcases qq with qq | qq | qq
          · simp [Block.has, qq]
          · rw [hs] at qq; cases qq
          · rw [hd] at qq; cases qq
      · rw [q4] at hd; cases hd
  · rw [hk, fset]
    intro hs v hv
    rcases m2 with ⟨_, x2, x3, x4⟩ | ⟨x1, _, _⟩
    · -- the request matured in this block
      rw [u2, a2] at x2
      rw [u4] at x3
      -- the matured record is the one confirmed `limit` blocks below
      have hd : ∃ d, w.r.details = some d ∧ d.height = w.cur + 1 - w.limit := by
        rcases a3 with ⟨q, _⟩ | ⟨i, t, _, _, q3, _, _, q5⟩
        · rw [q] at x3
          cases hd : w.r.details with
          | none => rw [hw.1.1.nodet hd] at x3; cases x3
          | some d =>
            obtain ⟨_, _, hini⟩ := hw.1.1.det d hd
            rcases hini with y | ⟨y, _⟩
            · rw [y] at x3; simp at x3; exact ⟨d, rfl, by omega⟩
            · rw [y] at x3; cases x3
        · rw [q5, hw.1.1.nodet q3, addH_nil] at x3
          simp at x3; omega
      obtain ⟨d, hd, hdh⟩ := hd
      obtain ⟨hon, _, _⟩ := hw.1.1.det d hd
      obtain ⟨bd, hbd, hbdhas⟩ := hon.has
      have hle := hon.le
      have hbd' : (w.chain ++ [b])[d.height - 1]? = some bd := by
        rw [List.getElem?_append_left (by omega)]; exact hbd
      refine ⟨d.height, bd, hintok v hv d.height bd hon.1 hbd' hbdhas, hon.1, hbd', hbdhas, ?_⟩
      show d.height + w.limit ≤ max w.maxTip (w.cur + 1)
      omega
    · rw [x1, u2, a2] at hs
      have hini : w.r.initialAt = [] := (hw.1.1.unset hs).2.1
      have hr1eq : r1 = w.r := by
        rcases a3 with ⟨q, _⟩ | ⟨_, _, _, q, _⟩
        · exact q
        · rw [hs] at q; cases q
      rw [fhint, hr1eq] at hv
      simp only [hs, hini, Bool.false_and, List.contains_nil, Bool.or_self, Bool.false_eq_true,
        ↓reduceIte] at hv
      obtain ⟨h0, b0, y1, y2, y3, y4, y5⟩ := hi.unset hs v hv
      have := lookup_le y3 y2
      refine ⟨h0, b0, y1, y2, ?_, y4, ?_⟩
      · show (w.chain ++ [b])[h0 - 1]? = some b0
        rw [List.getElem?_append_left (by omega)]; exact y3
      · show h0 + w.limit ≤ max w.maxTip (w.cur + 1); omega

theorem hstep {w : World} {op : WOp} (hw : WInv w) (hok : Ok w op) (hh : Honest w op)
    (hi : HInv w) (hl : 1 ≤ w.limit) : HInv (wstep w op) := by
  cases op with
  | register reg n hint => exact hstep_register hw hh hi
  | cancel reg => exact hstep_cancel hi
  | update d => exact hstep_update hw hok hi
  | tip b => exact hstep_tip hw (wstep_inv hw hok) hok hh hi hl
  | untip => exact hstep_untip hw hok hi

theorem init_hinv (key limit : Nat) (chain0 : List Block) : HInv (World.init key limit chain0) := by
  refine ⟨Nat.le_refl _, ?_, ?_, ?_, ?_, ?_, ?_⟩
  · intro h b _ hlt; simp [World.init] at hlt
  · intro v hv; simp [World.init] at hv
  · intro hs; simp [World.init] at hs
  · intro hs; simp [World.init] at hs
  · intro hs; simp [World.init] at hs
  · intro _ v hv; simp [World.init] at hv

theorem wstep_limit (w : World) (op : WOp) : (wstep w op).limit = w.limit := by
  cases op <;> rfl

/-- operation lists that satisfy `Ok` and `Honest` at every step -/
def OkRunH : World → List WOp → Prop
  | _, [] => True
  | w, op :: rest => Ok w op ∧ Honest w op ∧ OkRunH (wstep w op) rest

theorem run_hinv {w : World} {ops : List WOp} (hw : WInv w) (hi : HInv w) (hl : 1 ≤ w.limit)
    (hok : OkRunH w ops) : WInv (ops.foldl wstep w) ∧ HInv (ops.foldl wstep w) := by
  induction ops generalizing w with
  | nil => exact ⟨hw, hi⟩
  | cons op rest ih =>
    exact ih (wstep_inv hw hok.1) (hstep hw hok.1 hok.2.1 hi hl)
      (by rw [wstep_limit]; exact hl) hok.2.2

end LndModel.C14
