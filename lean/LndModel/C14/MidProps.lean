/-
C14 — property theorems, part 6: the confirmation theorems of part 2 for the FINE operation
language in which `ConnectTip` and `NotifyHeight` are separate operations and register / cancel /
rescan-completes may be issued in between (the "mid" state, see `Mid.lean`).

`FOp` = register | cancel | update | connect b | notify | untip.  Environment (`FOk`): as `Ok` for
register / cancel / update (in ANY state); `connect` and `untip` only in an ordinary state (the
chain backends call `ConnectTip`, `NotifyHeight` back to back from one goroutine, so no block is
connected or disconnected in between); `notify` only in the mid state.  Clients empty their
channels after every notifier call.
-/
import LndModel.C14.Mid
import LndModel.C14.ChainProps

namespace LndModel.C14

structure FWorld where
  w : World
  /-- `ConnectTip(w.cur)` has run, its `NotifyHeight(w.cur)` has not -/
  mid : Bool := false

inductive FOp where
  | register (reg n hint : Nat)
  | cancel (reg : Nat)
  | update (d : Option ConfDetails)
  | connect (b : Block)
  | notify
  | untip

/-- the world after `ConnectTip(cur + 1, b)` (clients have read their channels) -/
def wconnect (w : World) (b : Block) : World :=
  { w with cur := w.cur + 1, depth := 0,
           r := drainR (w.r.connect (w.cur + 1) w.limit b),
           chain := w.chain ++ [b], maxTip := max w.maxTip (w.cur + 1) }

/-- the world after `NotifyHeight(cur)` -/
def wnotify (w : World) : World := { w with r := drainR (w.r.notify w.cur) }

def fstep (f : FWorld) : FOp → FWorld
  | .register reg n hint => { f with w := wstep f.w (.register reg n hint) }
  | .cancel reg => { f with w := wstep f.w (.cancel reg) }
  | .update d => { f with w := wstep f.w (.update d) }
  | .connect b => { w := wconnect f.w b, mid := true }
  | .notify => { w := wnotify f.w, mid := false }
  | .untip => { f with w := wstep f.w .untip }

/-- the macro step of parts 2–4 is `connect` followed by `notify` -/
theorem fine_refines_macro (f : FWorld) (b : Block) :
    (fstep (fstep f (.connect b)) .notify).w = wstep f.w (.tip b) := rfl

def FOk (f : FWorld) : FOp → Prop
  | .register reg n hint => Ok f.w (.register reg n hint)
  | .cancel reg => Ok f.w (.cancel reg)
  | .update d => Ok f.w (.update d)
  | .connect b => f.mid = false ∧ Ok f.w (.tip b)
  | .notify => f.mid = true
  | .untip => f.mid = false ∧ Ok f.w .untip

/-- the invariant: `WInv` in an ordinary state, `PreM` (+ emptied channels) in the mid state -/
def FInv (f : FWorld) : Prop :=
  if f.mid then
    ∃ cc, f.w.cur = cc + 1 ∧ PreM cc f.w.limit f.w.maxTip f.w.cover f.w.chain f.w.r ∧
      ∀ n ∈ f.w.r.ntfns, Chan n
  else WInv f.w

theorem fstep_inv {f : FWorld} {op : FOp} (h : FInv f) (hok : FOk f op) : FInv (fstep f op) := by
  unfold FInv at *
  cases hm : f.mid with
  | false =>
    simp only [hm, Bool.false_eq_true, ↓reduceIte] at h
    cases op with
    | register reg n hint => simp only [fstep, hm, Bool.false_eq_true, ↓reduceIte]; exact wstep_inv h hok
    | cancel reg => simp only [fstep, hm, Bool.false_eq_true, ↓reduceIte]; exact wstep_inv h hok
    | update d => simp only [fstep, hm, Bool.false_eq_true, ↓reduceIte]; exact wstep_inv h hok
    | untip => simp only [fstep, hm, Bool.false_eq_true, ↓reduceIte]; exact wstep_inv h hok.2
    | notify => simp [FOk, hm] at hok
    | connect b =>
      simp only [fstep, ↓reduceIte]
      have hc := connect_pre (b := b) h hok.2
      obtain ⟨hp, hch⟩ := drainR_M hc.toM
      exact ⟨f.w.cur, rfl, hp, hch⟩
  | true =>
    simp only [hm, ↓reduceIte] at h
    obtain ⟨cc, hcur, hp, hch⟩ := h
    cases op with
    | connect b => simp [FOk, hm] at hok
    | untip => simp [FOk, hm] at hok
    | notify =>
      simp only [fstep, Bool.false_eq_true, ↓reduceIte, wnotify, WInv]
      rw [hcur]
      exact drainR_RI (notify_preM hp hch)
    | register reg n hint =>
      simp only [fstep, hm, ↓reduceIte, wstep]
      obtain ⟨h1, h2⟩ := hok
      have := register_preM (reg := reg) (hint := hint) hp hch h1 h2
      obtain ⟨hp', hch'⟩ := drainR_M this
      rw [hcur]
      exact ⟨cc, rfl, hp', hch'⟩
    | cancel reg =>
      simp only [fstep, hm, ↓reduceIte, wstep]
      obtain ⟨hp', hch'⟩ := drainR_M (cancel_preM (reg := reg) hp)
      exact ⟨cc, hcur, hp', hch'⟩
    | update d =>
      obtain ⟨a, b, hr, hok⟩ := hok
      simp only [fstep, hm, ↓reduceIte, wstep, hr]
      rw [hcur]
      obtain ⟨hp', hch'⟩ := drainR_M (update_preM hp hch hok)
      exact ⟨cc, rfl, hp', hch'⟩

def FWorld.init (key limit : Nat) (chain0 : List Block) : FWorld := { w := World.init key limit chain0 }

theorem finit_inv (key limit : Nat) (chain0 : List Block) (hv : Valid chain0 key) :
    FInv (FWorld.init key limit chain0) := by
  unfold FInv
  simp only [FWorld.init, Bool.false_eq_true, ↓reduceIte]
  exact init_inv key limit chain0 hv

def FOkRun : FWorld → List FOp → Prop
  | _, [] => True
  | f, op :: rest => FOk f op ∧ FOkRun (fstep f op) rest

theorem frun_inv {f : FWorld} {ops : List FOp} (h : FInv f) (hok : FOkRun f ops) :
    FInv (ops.foldl fstep f) := by
  induction ops generalizing f with
  | nil => exact h
  | cons op rest ih => exact ih (fstep_inv h hok.1) hok.2

/-! ### what the invariant says in either state -/

/-- the ghost-independent part of the invariant and the weak client bookkeeping hold in both
    kinds of state (`cc` = the height the queues refer to) -/
theorem FInv.weak {f : FWorld} (h : FInv f) :
    ∃ cc, cc ≤ f.w.cur ∧ f.w.cur ≤ cc + 1 ∧ (f.mid = false → cc = f.w.cur) ∧
      Pre0 f.w.cur f.w.limit f.w.maxTip f.w.cover f.w.chain f.w.r ∧
      (∀ n ∈ f.w.r.ntfns, CoreM cc f.w.limit f.w.r.details n) ∧ ∀ n ∈ f.w.r.ntfns, Chan n := by
  unfold FInv at h
  cases hm : f.mid with
  | false =>
    simp only [hm, Bool.false_eq_true, ↓reduceIte] at h
    exact ⟨f.w.cur, Nat.le_refl _, Nat.le_succ _, fun _ => rfl, h.1.1,
      fun n hn => (h.1.2 n hn).toM (Nat.le_refl _), h.2⟩
  | true =>
    simp only [hm, ↓reduceIte] at h
    obtain ⟨cc, hcur, hp, hch⟩ := h
    refine ⟨cc, by omega, by omega, (fun x => by cases x), ?_, hp.2, hch⟩
    rw [hcur]; exact hp.1

theorem finv_sound {f : FWorld} (h : FInv f) {n : ConfNtfn} (hn : n ∈ f.w.r.ntfns)
    (hl : n.live = true) (hd : n.dispatched = true) :
    ∃ d, f.w.r.details = some d ∧ OnChain f.w.chain f.w.r.key d := by
  obtain ⟨cc, _, _, _, h0, hcl, _⟩ := h.weak
  have hc := (hcl n hn).2.2.2.2.2 hl
  cases hdet : f.w.r.details with
  | none => rw [hdet] at hc; rw [hc.1] at hd; cases hd
  | some d => exact ⟨d, rfl, (h0.det d hdet).1⟩

/-- if: in an ordinary state the depth bound is the current height; in the mid state it is the
    previous height (clients that become due at the new height are served by `NotifyHeight`) -/
theorem finv_complete {f : FWorld} (h : FInv f) (hs : f.w.r.set = true) {hh : Nat} {b : Block}
    (h1 : 1 ≤ hh) (hb : f.w.chain[hh - 1]? = some b) (hhas : b.has f.w.r.key) (hcov : f.w.cover ≤ hh)
    {n : ConfNtfn} (hn : n ∈ f.w.r.ntfns) (hl : n.live = true)
    (hdeep : hh + n.numConfs ≤ (if f.mid then f.w.cur else f.w.cur + 1)) :
    n.dispatched = true ∧ ∃ d, f.w.r.details = some d ∧ d.height = hh ∧ OnChain f.w.chain f.w.r.key d := by
  obtain ⟨cc, hc1, hc2, hc3, h0, hcl, _⟩ := h.weak
  cases hdet : f.w.r.details with
  | none => exact absurd hhas (h0.cov hs hdet hh b hcov h1 hb)
  | some d =>
    obtain ⟨hon, _, _⟩ := h0.det d hdet
    obtain ⟨bd, hbd, hbdhas⟩ := hon.has
    have heq := h0.valid (hh - 1) (d.height - 1) b bd hb hbd hhas hbdhas
    have hle := hon.le
    have hdh : d.height = hh := by omega
    have hc := (hcl n hn).2.2.2.2.2 hl
    rw [hdet] at hc
    refine ⟨?_, d, rfl, hdh, hon⟩
    cases hdd : n.dispatched with
    | true => rfl
    | false =>
      have := (hc.2 hdd).2
      cases hm : f.mid with
      | true => simp only [hm, ↓reduceIte] at hdeep; omega
      | false =>
        simp only [hm, Bool.false_eq_true, ↓reduceIte] at hdeep
        have := hc3 hm; omega

/-! ### history invariant of part 1 and payload invariant on the fine world -/

theorem fstep_B {f : FWorld} (op : FOp) (h : f.w.r.AllB) : (fstep f op).w.r.AllB := by
  cases op with
  | register reg n hint => exact wstep_B (.register reg n hint) h
  | cancel reg => exact wstep_B (.cancel reg) h
  | update d => exact wstep_B (.update d) h
  | untip => exact wstep_B .untip h
  | connect b => exact drainR_B (ConfReq.connect_B _ _ b h).toA
  | notify => exact drainR_B (ConfReq.notify_A _ h)

theorem frun_B {f : FWorld} (ops : List FOp) (h : f.w.r.AllB) : (ops.foldl fstep f).w.r.AllB := by
  induction ops generalizing f with
  | nil => exact h
  | cons op rest ih => exact ih (fstep_B op h)

theorem fstep_key (f : FWorld) (op : FOp) : (fstep f op).w.r.key = f.w.r.key := by
  cases op with
  | register reg n hint => exact wstep_key f.w (.register reg n hint)
  | cancel reg => exact wstep_key f.w (.cancel reg)
  | update d => exact wstep_key f.w (.update d)
  | untip => exact wstep_key f.w .untip
  | connect b => exact connect_key _ _ _ _
  | notify => exact notify_key _ _

theorem frun_key (f : FWorld) (ops : List FOp) : (ops.foldl fstep f).w.r.key = f.w.r.key := by
  induction ops generalizing f with
  | nil => rfl
  | cons op rest ih => simp only [List.foldl_cons]; rw [ih, fstep_key]

theorem quiet_of_finv {f : FWorld} (h : FInv f) : Quiet f.w.r := by
  obtain ⟨cc, _, _, _, h0, hcl, _⟩ := h.weak
  refine ⟨fun hd n hn hl => ?_, fun hs => (h0.unset hs).2.2⟩
  have := (hcl n hn).2.2.2.2.2 hl
  rw [hd] at this; exact this.1

theorem fstep_pay {f : FWorld} (op : FOp) (hw : FInv f) (h : PayAll f.w.r) :
    PayAll (fstep f op).w.r := by
  have hq : Quiet f.w.r := quiet_of_finv hw
  cases op with
  | register reg n hint => exact pay_drainR (pay_register _ _ _ _ _ h hq)
  | cancel reg => exact pay_drainR (pay_cancel _ h)
  | update d => exact pay_drainR (pay_update _ _ _ h hq)
  | connect b => exact pay_drainR (pay_connect _ _ b h hq)
  | notify => exact pay_drainR (pay_notify _ h)
  | untip => exact pay_drainR (pay_disconnect _ _ _ h)

theorem frun_pay {f : FWorld} {ops : List FOp} (hw : FInv f) (hok : FOkRun f ops) (h : PayAll f.w.r) :
    PayAll (ops.foldl fstep f).w.r := by
  induction ops generalizing f with
  | nil => exact h
  | cons op rest ih => exact ih (fstep_inv hw hok.1) hok.2 (fstep_pay op hw h)

/-! ### headline theorems for the fine operation language -/

section
variable (key limit : Nat) (chain0 : List Block) (hv : Valid chain0 key)
variable (ops : List FOp) (hok : FOkRun (FWorld.init key limit chain0) ops)
include hv hok

/-- only-if, in EVERY state of every admissible fine history (ordinary or between `ConnectTip` and
    `NotifyHeight`, whatever was registered / cancelled / completed in between): a client whose
    event history says "confirmed, not retracted" is backed by request details that name a block
    of the ACTIVE chain containing the transaction, and the last `Confirmed` event the client read
    carries exactly those details. -/
theorem mid_conf_only_if_on_active_chain :
    let f := ops.foldl fstep (FWorld.init key limit chain0)
    ∀ n ∈ f.w.r.ntfns, n.live = true → holdsConf n.seen = true →
      ∃ d, lastConfD n.seen = some d ∧ f.w.r.details = some d ∧ OnChain f.w.chain key d := by
  intro f n hn hl hh
  have hinv : FInv f := frun_inv (finit_inv key limit chain0 hv) hok
  have hB : f.w.r.AllB := frun_B ops (fun n hn => by simp [FWorld.init, World.init] at hn)
  have hP : PayAll f.w.r := frun_pay (finit_inv key limit chain0 hv) hok
    (fun n hn => by simp [FWorld.init, World.init] at hn)
  obtain ⟨cc, _, _, _, h0, hcl, hch⟩ := hinv.weak
  obtain ⟨b, hb, hcb⟩ := hB n hn
  have hclosed : n.closed = false := (hcl n hn).2.2.2.1 hl
  obtain ⟨_, _, hbd⟩ := hcb hclosed
  have hd : n.dispatched = true := by
    rw [← hbd, holds_of_okFrom hb]; exact hh
  obtain ⟨d, e1, e2⟩ := finv_sound hinv hn hl hd
  have hk : f.w.r.key = key := frun_key _ _
  have hpay := hP n hn hl hd
  have hconf : n.confirmed = [] := (hch n hn hclosed).2.1
  rw [hconf] at hpay
  refine ⟨d, ?_, e1, by rw [← hk]; exact e2⟩
  rw [← e1]; simpa [lastFrom] using hpay

/-- if: the transaction is on the active chain at an examined height `h`.  In an ordinary state
    every live client with `h + numConfs ≤ cur + 1` holds the confirmation (as in part 2); in the
    mid state every live client that was already due at the PREVIOUS height (`h + numConfs ≤ cur`)
    holds it — the ones that become due at the new height are served by the pending `NotifyHeight`
    (or earlier by a registration, `mid_registration_confirms_queued`). -/
theorem mid_conf_if_N_on_active_chain :
    let f := ops.foldl fstep (FWorld.init key limit chain0)
    f.w.r.set = true →
    ∀ (h : Nat) (b : Block), 1 ≤ h → f.w.chain[h - 1]? = some b → b.has key → f.w.cover ≤ h →
    ∀ n ∈ f.w.r.ntfns, n.live = true →
      h + n.numConfs ≤ (if f.mid then f.w.cur else f.w.cur + 1) →
      holdsConf n.seen = true ∧
      ∃ d, f.w.r.details = some d ∧ d.height = h ∧ OnChain f.w.chain key d := by
  intro f hs h b h1 hb hhas hcov n hn hl hdeep
  have hinv : FInv f := frun_inv (finit_inv key limit chain0 hv) hok
  have hk : f.w.r.key = key := frun_key _ _
  obtain ⟨hd, d, e1, e2, e3⟩ :=
    finv_complete hinv hs h1 hb (by rw [hk]; exact hhas) hcov hn hl hdeep
  have hB : f.w.r.AllB := frun_B ops (fun n hn => by simp [FWorld.init, World.init] at hn)
  obtain ⟨b', hb', hcb⟩ := hB n hn
  obtain ⟨cc, _, _, _, h0, hcl, hch⟩ := hinv.weak
  have hclosed : n.closed = false := (hcl n hn).2.2.2.1 hl
  obtain ⟨_, _, hbd⟩ := hcb hclosed
  refine ⟨?_, d, e1, e2, by rw [← hk]; exact e3⟩
  unfold holdsConf
  rw [← holds_of_okFrom hb', hbd]; exact hd

/-- a client that has not been told "confirmed" while the request knows the block: it is queued at
    exactly `height + numConfs - 1`, and that height has not been passed by a `NotifyHeight`
    (`≥ cur` in the mid state, `> cur` in an ordinary state). -/
theorem mid_conf_pending_exact_height :
    let f := ops.foldl fstep (FWorld.init key limit chain0)
    ∀ n ∈ f.w.r.ntfns, n.live = true → ∀ d, f.w.r.details = some d → holdsConf n.seen = false →
      n.queuedAt = [d.height + n.numConfs - 1] ∧
      (if f.mid then f.w.cur ≤ d.height + n.numConfs - 1 else f.w.cur < d.height + n.numConfs - 1) := by
  intro f n hn hl d hdet hh
  have hinv : FInv f := frun_inv (finit_inv key limit chain0 hv) hok
  have hB : f.w.r.AllB := frun_B ops (fun n hn => by simp [FWorld.init, World.init] at hn)
  obtain ⟨b, hb, hcb⟩ := hB n hn
  obtain ⟨cc, hc1, hc2, hc3, h0, hcl, hch⟩ := hinv.weak
  have hclosed : n.closed = false := (hcl n hn).2.2.2.1 hl
  obtain ⟨_, _, hbd⟩ := hcb hclosed
  have hd : n.dispatched = false := by
    rw [← hbd, holds_of_okFrom hb]; exact hh
  have hc := (hcl n hn).2.2.2.2.2 hl
  rw [hdet] at hc
  obtain ⟨q1, q2⟩ := hc.2 hd
  refine ⟨q1, ?_⟩
  cases hm : f.mid with
  | true => simp only [↓reduceIte]; omega
  | false => simp only [Bool.false_eq_true, ↓reduceIte]; have := hc3 hm; omega

/-- no send blocks and nothing panics, also for operations issued in the mid state -/
theorem mid_never_blocks_never_panics :
    let f := ops.foldl fstep (FWorld.init key limit chain0)
    f.w.r.panicked = false ∧ ∀ n ∈ f.w.r.ntfns, n.stuck = false := by
  intro f
  have hinv : FInv f := frun_inv (finit_inv key limit chain0 hv) hok
  obtain ⟨cc, _, _, _, h0, hcl, _⟩ := hinv.weak
  exact ⟨h0.nopanic, fun n hn => (hcl n hn).1⟩

end

/-! ### `hint_safe` for the fine operation language -/

theorem HInv.with_r {w : World} {r' : ConfReq} (hk : r'.key = w.r.key) (hh : r'.hint = w.r.hint)
    (hs : r'.set = w.r.set) (hd : r'.details = w.r.details) (hr : r'.rescan = w.r.rescan)
    (hi : HInv w) : HInv { w with r := r' } := by
  refine ⟨hi.cov_le, ?_, ?_, ?_, ?_, ?_, ?_⟩
  · simp only [hk]; exact hi.lo_ok
  · simp only [hk, hh]; exact hi.hint_ok
  · simp only [hk, hs, hd]; exact hi.below
  · simp only [hs]; exact hi.rcov
  · simp only [hk, hs, hd, hr]; exact hi.cnone
  · simp only [hk, hs, hh]; exact hi.unset

def FHonest (f : FWorld) : FOp → Prop
  | .register reg n hint => Honest f.w (.register reg n hint)
  | .connect b => Honest f.w (.tip b)
  | _ => True

theorem fhstep {f : FWorld} {op : FOp} (hw : FInv f) (hok : FOk f op) (hh : FHonest f op)
    (hi : HInv f.w) (hl : 1 ≤ f.w.limit) : HInv (fstep f op).w := by
  obtain ⟨cc, _, _, _, h0, _, _⟩ := hw.weak
  cases op with
  | register reg n hint => exact hstep_register0 h0 hh hi
  | cancel reg => exact hstep_cancel hi
  | update d => exact hstep_update0 h0 hok hi
  | untip =>
    have hm := hok.1
    have : WInv f.w := by unfold FInv at hw; simpa [hm] using hw
    exact hstep_untip this hok.2 hi
  | connect b =>
    have hm := hok.1
    have hwi : WInv f.w := by unfold FInv at hw; simpa [hm] using hw
    have ht := hstep_tip hwi (wstep_inv hwi hok.2) hok.2 hh hi hl
    obtain ⟨n1, n2, n3, n4⟩ := notify_fields (drainR (f.w.r.connect (f.w.cur + 1) f.w.limit b)) (f.w.cur + 1)
    have hk : (drainR (f.w.r.connect (f.w.cur + 1) f.w.limit b)).key = (wstep f.w (.tip b)).r.key :=
      (notify_key _ _).symm
    exact HInv.with_r (w := wstep f.w (.tip b))
      (r' := drainR (f.w.r.connect (f.w.cur + 1) f.w.limit b)) hk n4.symm n1.symm n3.symm n2.symm ht
  | notify =>
    obtain ⟨n1, n2, n3, n4⟩ := notify_fields f.w.r f.w.cur
    exact HInv.with_r (w := f.w) (r' := drainR (f.w.r.notify f.w.cur)) (notify_key _ _) n4 n1 n3 n2 hi

def FOkRunH : FWorld → List FOp → Prop
  | _, [] => True
  | f, op :: rest => FOk f op ∧ FHonest f op ∧ FOkRunH (fstep f op) rest

theorem fstep_limit (f : FWorld) (op : FOp) : (fstep f op).w.limit = f.w.limit := by
  cases op <;> rfl

theorem frun_hinv {f : FWorld} {ops : List FOp} (hw : FInv f) (hi : HInv f.w) (hl : 1 ≤ f.w.limit)
    (hok : FOkRunH f ops) : FInv (ops.foldl fstep f) ∧ HInv (ops.foldl fstep f).w := by
  induction ops generalizing f with
  | nil => exact ⟨hw, hi⟩
  | cons op rest ih =>
    exact ih (fstep_inv hw hok.1) (fhstep hw hok.1 hok.2.1 hi hl)
      (by rw [fstep_limit]; exact hl) hok.2.2

/-- `hint_safe` in every state of every admissible fine history with honest client hints (also
    between `ConnectTip` and `NotifyHeight`, where `ConnectTip` has already written the hints of the
    new height): the cached confirm hint is at most the height of the block of the ACTIVE chain
    that contains the transaction. -/
theorem mid_hint_safe (key limit : Nat) (chain0 : List Block) (hv : Valid chain0 key) (hl : 1 ≤ limit)
    (ops : List FOp) (hok : FOkRunH (FWorld.init key limit chain0) ops) :
    let f := ops.foldl fstep (FWorld.init key limit chain0)
    ∀ v, f.w.r.hint = some v → ∀ (h : Nat) (b : Block), 1 ≤ h → f.w.chain[h - 1]? = some b →
      b.has key → v ≤ h := by
  intro f v hv' h b h1 hb hhas
  obtain ⟨_, hi⟩ := frun_hinv (finit_inv key limit chain0 hv) (init_hinv key limit chain0) hl hok
  have hk : f.w.r.key = key := frun_key _ _
  exact hi.hint_ok v hv' h b h1 hb (by rw [hk]; exact hhas)

/-! ### executable environment check and a concrete mid-state history -/

def fokb (f : FWorld) : FOp → Bool
  | .register reg n hint => okb f.w (.register reg n hint)
  | .cancel reg => okb f.w (.cancel reg)
  | .update d => okb f.w (.update d)
  | .connect b => !f.mid && okb f.w (.tip b)
  | .notify => f.mid
  | .untip => !f.mid && okb f.w .untip

theorem fokb_sound {f : FWorld} {op : FOp} (h : fokb f op = true) : FOk f op := by
  cases op with
  | register reg n hint => exact okb_sound (w := f.w) (op := .register reg n hint) h
  | cancel reg => exact okb_sound (w := f.w) (op := .cancel reg) h
  | update d => exact okb_sound (w := f.w) (op := .update d) h
  | connect b =>
    simp only [fokb, Bool.and_eq_true, Bool.not_eq_true'] at h
    exact ⟨h.1, okb_sound h.2⟩
  | notify => exact h
  | untip =>
    simp only [fokb, Bool.and_eq_true, Bool.not_eq_true'] at h
    exact ⟨h.1, okb_sound h.2⟩

def fokRunb : FWorld → List FOp → Bool
  | _, [] => true
  | f, op :: rest => fokb f op && fokRunb (fstep f op) rest

theorem fokRunb_sound {f : FWorld} {ops : List FOp} (h : fokRunb f ops = true) : FOkRun f ops := by
  induction ops generalizing f with
  | nil => trivial
  | cons op rest ih =>
    simp only [fokRunb, Bool.and_eq_true] at h
    exact ⟨fokb_sound h.1, ih h.2⟩

/-- client 0 waits for 2 confirmations of tx 7; tx 7 is mined at height 2; block 3 is connected and,
    BEFORE `NotifyHeight(3)`, client 1 registers for the same request (1 conf): its registration
    confirms client 0 as well, which stays queued at height 3 until `NotifyHeight(3)` skips it;
    client 2 registers and cancels in a later mid state; then a 2-block reorg and a re-mining. -/
def midDemoOps : List FOp :=
  [.register 0 2 1, .update none,
   .connect ⟨11, [⟨7, []⟩]⟩, .notify,
   .connect ⟨12, []⟩, .register 1 1 1, .notify,
   .untip, .untip,
   .connect ⟨13, [⟨3, []⟩, ⟨7, []⟩]⟩, .register 2 3 1, .cancel 2, .notify,
   .connect ⟨14, []⟩, .notify]

theorem midDemo_ok : FOkRun (FWorld.init 7 4 demoChain0) midDemoOps := fokRunb_sound (by decide)

/-- after `connect 12; register 1` (mid state): client 0 is dispatched AND still queued at 3 -/
example : ((midDemoOps.take 6).foldl fstep (FWorld.init 7 4 demoChain0)).w.r.ntfns.map
      (fun n => (n.reg, n.dispatched, n.queuedAt)) = [(0, true, [3]), (1, true, [])] := by decide

/-- what the three clients have read at the end: client 0 confirm(b11) – notice – confirm(b13) once
    each (no double delivery by `NotifyHeight(3)`) -/
example : (midDemoOps.foldl fstep (FWorld.init 7 4 demoChain0)).w.r.ntfns.map
      (fun n => (n.reg, n.seen.filter (fun e => match e with | .upd _ => false | _ => true))) =
    [(0, [.conf ⟨2, 11, 0⟩, .neg 2, .conf ⟨2, 13, 1⟩]),
     (1, [.conf ⟨2, 11, 0⟩, .neg 2, .conf ⟨2, 13, 1⟩]),
     (2, [])] := by decide

def fhonestb (f : FWorld) : FOp → Bool
  | .register reg n hint => honestb f.w (.register reg n hint)
  | .connect b => honestb f.w (.tip b)
  | _ => true

theorem fhonestb_sound {f : FWorld} {op : FOp} (h : fhonestb f op = true) : FHonest f op := by
  cases op with
  | register reg n hint => exact honestb_sound (w := f.w) (op := .register reg n hint) h
  | connect b => exact honestb_sound (w := f.w) (op := .tip b) h
  | cancel reg => trivial
  | update d => trivial
  | notify => trivial
  | untip => trivial

def fokRunHb : FWorld → List FOp → Bool
  | _, [] => true
  | f, op :: rest => fokb f op && fhonestb f op && fokRunHb (fstep f op) rest

theorem fokRunHb_sound {f : FWorld} {ops : List FOp} (h : fokRunHb f ops = true) : FOkRunH f ops := by
  induction ops generalizing f with
  | nil => trivial
  | cons op rest ih =>
    simp only [fokRunHb, Bool.and_eq_true] at h
    exact ⟨fokb_sound h.1.1, fhonestb_sound h.1.2, ih h.2⟩

/-- the hypotheses of `mid_hint_safe` are satisfiable by the same history -/
theorem midDemo_okH : FOkRunH (FWorld.init 7 4 demoChain0) midDemoOps := fokRunHb_sound (by decide)

end LndModel.C14
