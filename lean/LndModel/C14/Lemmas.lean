/-
C14 — helper lemmas, part 1: what each client reads (`seen`) never contains two
confirmations (spends) without a reorg notice in between.  Unconditional: holds
for every operation list, provided clients empty their channels after every
operation (`eager`).
-/
import LndModel.C14.Model

namespace LndModel.C14

/-! ## replaying a client's history -/

/-- Replay a confirmation client's history.  The state `b` says "the client currently holds a
    confirmation"; `none` = it was handed a second confirmation without a reorg notice. -/
def okFrom : Bool → List CEv → Option Bool
  | b, [] => some b
  | b, .conf _ :: t => if b then none else okFrom true t
  | _, .neg _ :: t => okFrom false t
  | b, .upd _ :: t => okFrom b t
  | b, .done :: t => okFrom b t

theorem okFrom_append (b : Bool) (l l' : List CEv) :
    okFrom b (l ++ l') = (okFrom b l).bind (fun b' => okFrom b' l') := by
  induction l generalizing b with
  | nil => simp [okFrom]
  | cons x t ih =>
    cases x <;> simp [okFrom, ih]
    split <;> simp

theorem okFrom_upds (b : Bool) (l : List Update) : okFrom b (l.map .upd) = some b := by
  induction l with
  | nil => simp [okFrom]
  | cons x t ih => simp [okFrom, ih]

theorem okFrom_dones (b : Bool) (k : Nat) : okFrom b (List.replicate k .done) = some b := by
  induction k with
  | zero => simp [okFrom]
  | succ k ih => simp [List.replicate_succ, okFrom, ih]

theorem okFrom_negs (b : Bool) (l : List Nat) :
    okFrom b (l.map .neg) = some (if l = [] then b else false) := by
  cases l with
  | nil => simp [okFrom]
  | cons x t =>
    simp only [List.map_cons, okFrom]
    induction t with
    | nil => simp [okFrom]
    | cons y t ih => simpa [okFrom] using ih

/-- the part of the pending events that matters for the replay -/
def ConfNtfn.pend (n : ConfNtfn) : List CEv := n.negConf.map .neg ++ n.confirmed.map .conf

theorem okFrom_pending (b : Bool) (n : ConfNtfn) : okFrom b n.pending = okFrom b n.pend := by
  unfold ConfNtfn.pending ConfNtfn.pend
  rw [okFrom_append, okFrom_append]
  cases h : okFrom b (List.map CEv.neg n.negConf ++ List.map CEv.conf n.confirmed) with
  | none => simp
  | some b' => simp [okFrom_upds, okFrom_dones]

/-- after the operation: reading the pending events leads, without a double confirmation, to a
    belief that equals the `dispatched` flag. -/
def ConfNtfn.A (n : ConfNtfn) : Prop :=
  ∃ b, okFrom false n.seen = some b ∧ (n.closed = false → okFrom b n.pend = some n.dispatched)

/-- between operations (channels have been emptied) -/
def ConfNtfn.B (n : ConfNtfn) : Prop :=
  ∃ b, okFrom false n.seen = some b ∧
    (n.closed = false → n.confirmed = [] ∧ n.negConf = [] ∧ b = n.dispatched)

theorem ConfNtfn.B.toA {n : ConfNtfn} (h : n.B) : n.A := by
  obtain ⟨b, hb, hc⟩ := h
  refine ⟨b, hb, fun hcl => ?_⟩
  obtain ⟨h1, h2, h3⟩ := hc hcl
  simp [ConfNtfn.pend, h1, h2, okFrom, h3]

/-- `A`/`B` only depend on these fields -/
theorem ConfNtfn.A_congr {n n' : ConfNtfn} (h1 : n'.seen = n.seen) (h2 : n'.closed = n.closed)
    (h3 : n'.negConf = n.negConf) (h4 : n'.confirmed = n.confirmed)
    (h5 : n'.dispatched = n.dispatched) (h : n.A) : n'.A := by
  unfold ConfNtfn.A ConfNtfn.pend at *
  rw [h1, h2, h3, h4, h5]; exact h

theorem ConfNtfn.B_congr {n n' : ConfNtfn} (h1 : n'.seen = n.seen) (h2 : n'.closed = n.closed)
    (h3 : n'.negConf = n.negConf) (h4 : n'.confirmed = n.confirmed)
    (h5 : n'.dispatched = n.dispatched) (h : n.B) : n'.B := by
  unfold ConfNtfn.B at *
  rw [h1, h2, h3, h4, h5]; exact h

theorem ConfNtfn.drained_B {n : ConfNtfn} (h : n.A) (hc : n.closed = false) : n.drained.B := by
  obtain ⟨b, hb, hp⟩ := h
  refine ⟨n.dispatched, ?_, fun _ => ⟨rfl, rfl, rfl⟩⟩
  simp only [ConfNtfn.drained]
  rw [okFrom_append, hb, Option.bind_some, okFrom_pending]
  exact hp hc

theorem ConfNtfn.closed_B {n : ConfNtfn} (h : n.A) (hc : n.closed = true) : n.B := by
  obtain ⟨b, hb, _⟩ := h
  exact ⟨b, hb, fun h' => by simp [hc] at h'⟩

/-! ### the client-level primitives -/

theorem ConfNtfn.sendUpdate_B {n : ConfNtfn} (l h : Nat) (hb : n.B) : (n.sendUpdate l h).B := by
  unfold ConfNtfn.sendUpdate
  split
  · exact hb
  · split <;> exact ConfNtfn.B_congr rfl rfl rfl rfl rfl hb

theorem ConfNtfn.sendDone_B {n : ConfNtfn} (hb : n.B) : n.sendDone.B := by
  unfold ConfNtfn.sendDone
  split <;> exact ConfNtfn.B_congr rfl rfl rfl rfl rfl hb

theorem ConfNtfn.sendConfirmed_A {n : ConfNtfn} (d : ConfDetails) (hb : n.B)
    (hd : n.dispatched = false) : (n.sendConfirmed d).A := by
  obtain ⟨b, hs, hc⟩ := hb
  unfold ConfNtfn.sendConfirmed
  split
  · refine ⟨b, hs, fun hcl => ?_⟩
    obtain ⟨h1, h2, h3⟩ := hc hcl
    simp [ConfNtfn.pend, h1, h2, okFrom, h3]
  · refine ⟨b, hs, fun hcl => ?_⟩
    obtain ⟨h1, h2, h3⟩ := hc hcl
    simp [ConfNtfn.pend, h1, h2, okFrom, h3, hd]

theorem ConfNtfn.sendNeg_A {n : ConfNtfn} (depth : Nat) (hb : n.B)
    (hd : n.dispatched = false) : (n.sendNeg depth).A := by
  obtain ⟨b, hs, hc⟩ := hb
  unfold ConfNtfn.sendNeg
  split
  · refine ⟨b, hs, fun hcl => ?_⟩
    obtain ⟨h1, h2, h3⟩ := hc hcl
    simp [ConfNtfn.pend, h1, h2, okFrom, h3]
  · refine ⟨b, hs, fun hcl => ?_⟩
    obtain ⟨h1, h2, h3⟩ := hc hcl
    simp [ConfNtfn.pend, h1, h2, okFrom, hd]

theorem ConfNtfn.dispatch_A {n : ConfNtfn} (cur : Nat) (d : ConfDetails) (hb : n.B) :
    (n.dispatch cur d).A := by
  unfold ConfNtfn.dispatch
  split
  · exact hb.toA
  · rename_i hd
    simp only
    split
    · apply ConfNtfn.sendConfirmed_A d (ConfNtfn.sendUpdate_B _ _ hb)
      unfold ConfNtfn.sendUpdate
      split
      · simpa using hd
      · split <;> simpa using hd
    · apply ConfNtfn.B.toA
      apply ConfNtfn.sendUpdate_B
      exact ConfNtfn.B_congr rfl rfl rfl rfl rfl hb

@[simp] theorem ConfNtfn.reorg_closed (n : ConfNtfn) (h depth : Nat) :
    (n.reorg h depth).closed = n.closed := by
  unfold ConfNtfn.reorg ConfNtfn.sendNeg; split <;> split <;> rfl

@[simp] theorem ConfNtfn.reorg_seen (n : ConfNtfn) (h depth : Nat) :
    (n.reorg h depth).seen = n.seen := by
  unfold ConfNtfn.reorg ConfNtfn.sendNeg; split <;> split <;> rfl

theorem ConfNtfn.reorg_A {n : ConfNtfn} (h depth : Nat) (hb : n.B) : (n.reorg h depth).A := by
  obtain ⟨b, hs, hc⟩ := hb
  refine ⟨b, by simpa using hs, fun hcl => ?_⟩
  obtain ⟨h1, h2, h3⟩ := hc (by simpa using hcl)
  unfold ConfNtfn.reorg ConfNtfn.sendNeg
  split <;> simp_all [ConfNtfn.pend, okFrom]

/-! ### request level -/

def ConfReq.AllB (r : ConfReq) : Prop := ∀ n ∈ r.ntfns, n.B
def ConfReq.AllA (r : ConfReq) : Prop := ∀ n ∈ r.ntfns, n.A

theorem all_map {α : Type} {P Q : α → Prop} {f : α → α} {l : List α}
    (hf : ∀ n, P n → Q (f n)) (h : ∀ n ∈ l, P n) : ∀ n ∈ l.map f, Q n := by
  intro n hn
  obtain ⟨m, hm, rfl⟩ := List.mem_map.mp hn
  exact hf m (h m hm)

theorem ConfReq.AllB.toA {r : ConfReq} (h : r.AllB) : r.AllA := fun n hn => (h n hn).toA

theorem ConfReq.dispatchAll_A {r : ConfReq} (cur limit : Nat) (h : r.AllB) :
    (r.dispatchAll cur limit).AllA := by
  unfold ConfReq.dispatchAll
  split
  · exact h.toA
  · refine all_map (P := ConfNtfn.B) (fun n hn => ?_) h
    split
    · exact ConfNtfn.dispatch_A cur _ hn
    · exact hn.toA

theorem ConfReq.opened_B {r : ConfReq} (h : r.AllB) : r.opened.AllB := by
  unfold ConfReq.opened; split <;> exact h

theorem ConfReq.addNtfn_B {r : ConfReq} (reg n : Nat) (h : r.AllB) :
    (r.addNtfn { reg := reg, numConfs := n, left := n }).AllB := by
  intro m hm
  simp only [ConfReq.addNtfn, List.mem_append, List.mem_singleton] at hm
  rcases hm with hm | rfl
  · exact h m hm
  · exact ⟨false, by simp [okFrom], fun _ => by simp⟩

theorem ConfReq.registered_A {r : ConfReq} (cur limit start : Nat) (h : r.AllB) :
    (r.registered cur limit start).1.AllA := by
  unfold ConfReq.registered
  split
  · exact ConfReq.dispatchAll_A cur limit h
  · exact h.toA
  · split <;> exact h.toA

theorem ConfReq.register_A {r : ConfReq} (cur limit reg n hint : Nat) (h : r.AllB) :
    (r.register cur limit reg n hint).1.AllA :=
  ConfReq.registered_A _ _ _ (ConfReq.addNtfn_B reg n (ConfReq.opened_B h))

theorem ConfReq.cancel_A {r : ConfReq} (reg : Nat) (h : r.AllB) : (r.cancel reg).AllA := by
  unfold ConfReq.cancel
  split
  · exact h.toA
  · refine all_map (P := ConfNtfn.B) (fun n hn => ?_) h
    split
    · obtain ⟨b, hb, _⟩ := hn
      exact ⟨b, hb, fun hc => by simp [ConfNtfn.cancelled] at hc⟩
    · exact hn.toA

theorem ConfReq.update_A {r : ConfReq} (cur limit : Nat) (d : Option ConfDetails) (h : r.AllB) :
    (r.update cur limit d).1.AllA := by
  unfold ConfReq.update
  split
  · exact h.toA
  · split
    · exact h.toA
    · split
      · exact h.toA
      · split
        · exact h.toA
        · exact ConfReq.dispatchAll_A cur limit h

theorem ConfReq.atTip_B {r : ConfReq} (d : ConfDetails) (h : r.AllB) : (r.atTip d).AllB := by
  unfold ConfReq.atTip
  split
  · exact h
  · split
    · exact h
    · refine all_map (P := ConfNtfn.B) (fun n hn => ?_) h
      split
      · obtain ⟨b, hb, hc⟩ := hn
        refine ⟨b, hb, fun hcl => ?_⟩
        obtain ⟨h1, h2, h3⟩ := hc hcl
        simp [ConfNtfn.tipped, h1, h2, h3]
      · exact hn

theorem ConfReq.updateHint_B {r : ConfReq} (cur height : Nat) (h : r.AllB) :
    (r.updateHint cur height).AllB := by
  unfold ConfReq.updateHint; split <;> exact h

theorem ConfReq.mature_B {r : ConfReq} (height limit : Nat) (h : r.AllB) :
    (r.mature height limit).AllB := by
  unfold ConfReq.mature
  split
  · split
    · exact h
    · refine all_map (P := ConfNtfn.B) (fun n hn => ?_) h
      split
      · exact ConfNtfn.B_congr rfl rfl rfl rfl rfl (ConfNtfn.sendDone_B hn)
      · exact hn
  · exact h

theorem ConfReq.connect_B {r : ConfReq} (cur limit : Nat) (b : Block) (h : r.AllB) :
    (r.connect cur limit b).AllB := by
  unfold ConfReq.connect
  apply ConfReq.mature_B
  apply ConfReq.updateHint_B
  generalize b.confHits r.key = hits
  induction hits generalizing r with
  | nil => exact h
  | cons i t ih => exact ih (ConfReq.atTip_B _ h)

theorem ConfReq.notifyUpdates_B {r : ConfReq} (height : Nat) (h : r.AllB) :
    (r.notifyUpdates height).AllB := by
  unfold ConfReq.notifyUpdates
  split
  · exact h
  · split
    · refine all_map (P := ConfNtfn.B) (fun n hn => ?_) h
      split
      · unfold ConfNtfn.updateAt
        simp only; split
        · exact hn
        · exact ConfNtfn.sendUpdate_B _ _ hn
      · exact hn
    · split <;> exact h
    · exact h

theorem ConfReq.notifyDue_A {r : ConfReq} (height : Nat) (h : r.AllB) :
    (r.notifyDue height).AllA := by
  unfold ConfReq.notifyDue
  split
  · exact h.toA
  · split
    · split
      · exact h.toA
      · refine all_map (P := ConfNtfn.B) (fun n hn => ?_) h
        unfold ConfNtfn.confirmAt
        split
        · rename_i hq
          exact ConfNtfn.sendConfirmed_A _ hn (by simp at hq; exact hq.2)
        · exact hn.toA
    · exact h.toA

theorem ConfReq.notify_A {r : ConfReq} (height : Nat) (h : r.AllB) : (r.notify height).AllA := by
  unfold ConfReq.notify
  refine all_map (P := ConfNtfn.A) (fun n hn => ConfNtfn.A_congr rfl rfl rfl rfl rfl hn) ?_
  exact ConfReq.notifyDue_A height (ConfReq.notifyUpdates_B height h)

theorem ConfReq.disconnect_A {r : ConfReq} (cur depth height : Nat) (h : r.AllB) :
    (r.disconnect cur depth height).AllA := by
  unfold ConfReq.disconnect
  have h0 := ConfReq.updateHint_B cur height h
  generalize r.updateHint cur height = r0 at h0
  simp only
  split
  · exact h0.toA
  · split
    · exact h0.toA
    · refine all_map (P := ConfNtfn.B) (fun n hn => ?_) h0
      split
      · have hn' : ({ n with updates := n.updates.drop r0.initialAt.length, left := n.numConfs } : ConfNtfn).B :=
          ConfNtfn.B_congr rfl rfl rfl rfl rfl hn
        unfold ConfNtfn.disconnected
        simp only
        split
        · exact ConfNtfn.reorg_A _ _ hn'
        · exact hn'.toA
      · exact hn.toA

/-! ## spend side (same argument) -/

def okFromS : Bool → List SEv → Option Bool
  | b, [] => some b
  | b, .spend _ :: t => if b then none else okFromS true t
  | _, .reorg :: t => okFromS false t
  | b, .done :: t => okFromS b t

theorem okFromS_append (b : Bool) (l l' : List SEv) :
    okFromS b (l ++ l') = (okFromS b l).bind (fun b' => okFromS b' l') := by
  induction l generalizing b with
  | nil => simp [okFromS]
  | cons x t ih =>
    cases x <;> simp [okFromS, ih]
    split <;> simp

theorem okFromS_dones (b : Bool) (k : Nat) : okFromS b (List.replicate k .done) = some b := by
  induction k with
  | zero => simp [okFromS]
  | succ k ih => simp [List.replicate_succ, okFromS, ih]

def SpendNtfn.pend (n : SpendNtfn) : List SEv := List.replicate n.reorg .reorg ++ n.spend.map .spend

theorem okFromS_pending (b : Bool) (n : SpendNtfn) : okFromS b n.pending = okFromS b n.pend := by
  unfold SpendNtfn.pending SpendNtfn.pend
  rw [okFromS_append]
  cases h : okFromS b (List.replicate n.reorg SEv.reorg ++ List.map SEv.spend n.spend) with
  | none => simp
  | some b' => simp [okFromS_dones]

def SpendNtfn.A (n : SpendNtfn) : Prop :=
  ∃ b, okFromS false n.seen = some b ∧ (n.closed = false → okFromS b n.pend = some n.dispatched)

def SpendNtfn.B (n : SpendNtfn) : Prop :=
  ∃ b, okFromS false n.seen = some b ∧
    (n.closed = false → n.spend = [] ∧ n.reorg = 0 ∧ b = n.dispatched)

theorem SpendNtfn.B.toA {n : SpendNtfn} (h : n.B) : n.A := by
  obtain ⟨b, hb, hc⟩ := h
  refine ⟨b, hb, fun hcl => ?_⟩
  obtain ⟨h1, h2, h3⟩ := hc hcl
  simp [SpendNtfn.pend, h1, h2, okFromS, h3]

theorem SpendNtfn.B_congr {n n' : SpendNtfn} (h1 : n'.seen = n.seen) (h2 : n'.closed = n.closed)
    (h3 : n'.reorg = n.reorg) (h4 : n'.spend = n.spend)
    (h5 : n'.dispatched = n.dispatched) (h : n.B) : n'.B := by
  unfold SpendNtfn.B at *
  rw [h1, h2, h3, h4, h5]; exact h

theorem SpendNtfn.drained_B {n : SpendNtfn} (h : n.A) (hc : n.closed = false) : n.drained.B := by
  obtain ⟨b, hb, hp⟩ := h
  refine ⟨n.dispatched, ?_, fun _ => ⟨rfl, rfl, rfl⟩⟩
  simp only [SpendNtfn.drained]
  rw [okFromS_append, hb, Option.bind_some, okFromS_pending]
  exact hp hc

theorem SpendNtfn.closed_B {n : SpendNtfn} (h : n.A) (hc : n.closed = true) : n.B := by
  obtain ⟨b, hb, _⟩ := h
  exact ⟨b, hb, fun h' => by simp [hc] at h'⟩

theorem SpendNtfn.dispatch_A {n : SpendNtfn} (d : SpendDetails) (hb : n.B) : (n.dispatch d).A := by
  obtain ⟨b, hs, hc⟩ := hb
  unfold SpendNtfn.dispatch
  split
  · exact SpendNtfn.B.toA ⟨b, hs, hc⟩
  · rename_i hd
    split
    · refine ⟨b, hs, fun hcl => ?_⟩
      obtain ⟨h1, h2, h3⟩ := hc hcl
      simp [SpendNtfn.pend, h1, h2, okFromS, h3]
    · refine ⟨b, hs, fun hcl => ?_⟩
      obtain ⟨h1, h2, h3⟩ := hc hcl
      simp_all [SpendNtfn.pend, okFromS]

theorem SpendNtfn.unspend_A {n : SpendNtfn} (hb : n.B) : n.unspend.A := by
  obtain ⟨b, hs, hc⟩ := hb
  unfold SpendNtfn.unspend
  split
  · exact SpendNtfn.B.toA ⟨b, hs, hc⟩
  · simp only
    split
    · refine ⟨b, hs, fun hcl => ?_⟩
      obtain ⟨h1, h2, h3⟩ := hc hcl
      simp_all
    · refine ⟨b, hs, fun hcl => ?_⟩
      obtain ⟨h1, h2, h3⟩ := hc hcl
      simp_all [SpendNtfn.pend, okFromS]

theorem SpendNtfn.sendDone_B {n : SpendNtfn} (hb : n.B) : n.sendDone.B := by
  unfold SpendNtfn.sendDone
  split <;> exact SpendNtfn.B_congr rfl rfl rfl rfl rfl hb

def SpendReq.AllB (r : SpendReq) : Prop := ∀ n ∈ r.ntfns, n.B
def SpendReq.AllA (r : SpendReq) : Prop := ∀ n ∈ r.ntfns, n.A

theorem SpendReq.AllB.toA {r : SpendReq} (h : r.AllB) : r.AllA := fun n hn => (h n hn).toA

theorem SpendReq.dispatchTo_A {r : SpendReq} (cur limit : Nat) (sel : SpendNtfn → Bool)
    (h : r.AllB) : (r.dispatchTo cur limit sel).AllA := by
  unfold SpendReq.dispatchTo
  split
  · exact h.toA
  · refine all_map (P := SpendNtfn.B) (fun n hn => ?_) h
    split
    · exact SpendNtfn.dispatch_A _ hn
    · exact hn.toA

theorem SpendReq.opened_B {r : SpendReq} (h : r.AllB) : r.opened.AllB := by
  unfold SpendReq.opened; split <;> exact h

theorem SpendReq.addNtfn_B {r : SpendReq} (reg : Nat) (h : r.AllB) :
    (r.addNtfn { reg := reg }).AllB := by
  intro m hm
  simp only [SpendReq.addNtfn, List.mem_append, List.mem_singleton] at hm
  rcases hm with hm | rfl
  · exact h m hm
  · exact ⟨false, by simp [okFromS], fun _ => by simp⟩

theorem SpendReq.register_A {r : SpendReq} (cur limit reg hint : Nat) (h : r.AllB) :
    (r.register cur limit reg hint).1.AllA := by
  have h1 := SpendReq.addNtfn_B reg (SpendReq.opened_B h)
  unfold SpendReq.register SpendReq.registered
  split
  · exact SpendReq.dispatchTo_A cur limit _ h1
  · exact h1.toA
  · split <;> exact h1.toA

theorem SpendReq.cancel_A {r : SpendReq} (reg : Nat) (h : r.AllB) : (r.cancel reg).AllA := by
  unfold SpendReq.cancel
  split
  · exact h.toA
  · refine all_map (P := SpendNtfn.B) (fun n hn => ?_) h
    split
    · obtain ⟨b, hb, _⟩ := hn
      exact ⟨b, hb, fun hc => by simp at hc⟩
    · exact hn.toA

theorem SpendReq.update_A {r : SpendReq} (cur limit : Nat) (d : Option SpendDetails) (h : r.AllB) :
    (r.update cur limit d).1.AllA := by
  unfold SpendReq.update
  split
  · exact h.toA
  · split
    · exact h.toA
    · split
      · exact h.toA
      · split
        · exact h.toA
        · exact SpendReq.dispatchTo_A cur limit _ h

theorem SpendReq.atTip_B {r : SpendReq} (d : SpendDetails) (h : r.AllB) : (r.atTip d).AllB := by
  unfold SpendReq.atTip
  split
  · exact h
  · refine all_map (P := SpendNtfn.B) (fun n hn => ?_) h
    split
    · obtain ⟨b, hb, hc⟩ := hn
      refine ⟨b, hb, fun hcl => ?_⟩
      obtain ⟨h1, h2, h3⟩ := hc hcl
      simp [h1, h2, h3]
    · exact hn

theorem SpendReq.updateHint_B {r : SpendReq} (cur height : Nat) (h : r.AllB) :
    (r.updateHint cur height).AllB := by
  unfold SpendReq.updateHint; split <;> exact h

theorem SpendReq.mature_B {r : SpendReq} (height limit : Nat) (h : r.AllB) :
    (r.mature height limit).AllB := by
  unfold SpendReq.mature
  split
  · split
    · exact h
    · refine all_map (P := SpendNtfn.B) (fun n hn => ?_) h
      split
      · exact SpendNtfn.B_congr rfl rfl rfl rfl rfl (SpendNtfn.sendDone_B hn)
      · exact hn
  · exact h

theorem SpendReq.connect_B {r : SpendReq} (cur limit : Nat) (b : Block) (h : r.AllB) :
    (r.connect cur limit b).AllB := by
  unfold SpendReq.connect
  apply SpendReq.mature_B
  apply SpendReq.updateHint_B
  generalize b.spendHits r.key = hits
  induction hits generalizing r with
  | nil => exact h
  | cons i t ih => exact ih (SpendReq.atTip_B _ h)

theorem SpendReq.notify_A {r : SpendReq} (cur limit height : Nat) (h : r.AllB) :
    (r.notify cur limit height).AllA := by
  unfold SpendReq.notify
  split
  · exact h.toA
  · split
    · exact h.toA
    · exact SpendReq.dispatchTo_A cur limit _ h

theorem SpendReq.disconnect_A {r : SpendReq} (cur height : Nat) (h : r.AllB) :
    (r.disconnect cur height).AllA := by
  unfold SpendReq.disconnect
  have h0 := SpendReq.updateHint_B cur height h
  generalize r.updateHint cur height = r0 at h0
  simp only
  split
  · exact h0.toA
  · split
    · exact h0.toA
    · refine all_map (P := SpendNtfn.B) (fun n hn => ?_) h0
      split
      · exact SpendNtfn.unspend_A hn
      · exact hn.toA

/-! ## the whole notifier -/

def State.AllB (s : State) : Prop := (∀ r ∈ s.confs, r.AllB) ∧ (∀ r ∈ s.spends, r.AllB)
def State.AllA (s : State) : Prop := (∀ r ∈ s.confs, r.AllA) ∧ (∀ r ∈ s.spends, r.AllA)

theorem onConf_all {P Q : ConfReq → Prop} {f : ConfReq → ConfReq × Res} {l : List ConfReq}
    (key : Nat) (hf : ∀ r, P r → Q (f r).1) (hnew : P { key := key }) (hPQ : ∀ r, P r → Q r)
    (h : ∀ r ∈ l, P r) : ∀ r ∈ (onConf l key f).1, Q r := by
  induction l with
  | nil =>
    intro r hr
    simp only [onConf, List.mem_singleton] at hr
    subst hr; exact hf _ hnew
  | cons x t ih =>
    intro r hr
    simp only [onConf] at hr
    split at hr
    · simp only [List.mem_cons] at hr
      rcases hr with rfl | hr
      · exact hf x (h x (by simp))
      · exact hPQ r (h r (by simp [hr]))
    · simp only [List.mem_cons] at hr
      rcases hr with rfl | hr
      · exact hPQ _ (h _ (by simp))
      · exact ih (fun r hr => h r (by simp [hr])) r hr

theorem onSpend_all {P Q : SpendReq → Prop} {f : SpendReq → SpendReq × Res} {l : List SpendReq}
    (key : Nat) (hf : ∀ r, P r → Q (f r).1) (hnew : P { key := key }) (hPQ : ∀ r, P r → Q r)
    (h : ∀ r ∈ l, P r) : ∀ r ∈ (onSpend l key f).1, Q r := by
  induction l with
  | nil =>
    intro r hr
    simp only [onSpend, List.mem_singleton] at hr
    subst hr; exact hf _ hnew
  | cons x t ih =>
    intro r hr
    simp only [onSpend] at hr
    split at hr
    · simp only [List.mem_cons] at hr
      rcases hr with rfl | hr
      · exact hf x (h x (by simp))
      · exact hPQ r (h r (by simp [hr]))
    · simp only [List.mem_cons] at hr
      rcases hr with rfl | hr
      · exact hPQ _ (h _ (by simp))
      · exact ih (fun r hr => h r (by simp [hr])) r hr

theorem ConfReq.empty_B (key : Nat) : ({ key := key } : ConfReq).AllB := by
  intro n hn; simp at hn

theorem SpendReq.empty_B (key : Nat) : ({ key := key } : SpendReq).AllB := by
  intro n hn; simp at hn

theorem step_A {s : State} (op : Op) (h : s.AllB) : (step s op).1.AllA := by
  obtain ⟨hc, hs⟩ := h
  have hcA : ∀ r ∈ s.confs, r.AllA := fun r hr => (hc r hr).toA
  have hsA : ∀ r ∈ s.spends, r.AllA := fun r hr => (hs r hr).toA
  cases op with
  | seedConf key hint =>
    refine ⟨?_, hsA⟩
    exact onConf_all (P := ConfReq.AllB) key (fun r hr => hr.toA) (ConfReq.empty_B key)
      (fun r hr => hr.toA) hc
  | seedSpend key hint =>
    refine ⟨hcA, ?_⟩
    exact onSpend_all (P := SpendReq.AllB) key (fun r hr => hr.toA) (SpendReq.empty_B key)
      (fun r hr => hr.toA) hs
  | regConf key n hint =>
    simp only [step]
    split
    · exact ⟨hcA, hsA⟩
    · split
      · exact ⟨hcA, hsA⟩
      · refine ⟨?_, hsA⟩
        exact onConf_all (P := ConfReq.AllB) key (fun r hr => ConfReq.register_A _ _ _ _ _ hr)
          (ConfReq.empty_B key) (fun r hr => hr.toA) hc
  | regSpend key hint =>
    simp only [step]
    split
    · exact ⟨hcA, hsA⟩
    · refine ⟨hcA, ?_⟩
      exact onSpend_all (P := SpendReq.AllB) key (fun r hr => SpendReq.register_A _ _ _ _ hr)
        (SpendReq.empty_B key) (fun r hr => hr.toA) hs
  | cancel reg =>
    exact ⟨all_map (P := ConfReq.AllB) (fun r hr => ConfReq.cancel_A reg hr) hc,
           all_map (P := SpendReq.AllB) (fun r hr => SpendReq.cancel_A reg hr) hs⟩
  | connect height b =>
    simp only [step]
    split
    · exact ⟨hcA, hsA⟩
    · exact ⟨all_map (P := ConfReq.AllB) (fun r hr => (ConfReq.connect_B _ _ b hr).toA) hc,
             all_map (P := SpendReq.AllB) (fun r hr => (SpendReq.connect_B _ _ b hr).toA) hs⟩
  | notify height =>
    exact ⟨all_map (P := ConfReq.AllB) (fun r hr => ConfReq.notify_A height hr) hc,
           all_map (P := SpendReq.AllB) (fun r hr => SpendReq.notify_A _ _ height hr) hs⟩
  | disconnect height =>
    simp only [step]
    split
    · exact ⟨hcA, hsA⟩
    · exact ⟨all_map (P := ConfReq.AllB) (fun r hr => ConfReq.disconnect_A _ _ height hr) hc,
             all_map (P := SpendReq.AllB) (fun r hr => SpendReq.disconnect_A _ height hr) hs⟩
  | updConf key d =>
    refine ⟨?_, hsA⟩
    exact onConf_all (P := ConfReq.AllB) key (fun r hr => ConfReq.update_A _ _ d hr)
      (ConfReq.empty_B key) (fun r hr => hr.toA) hc
  | updSpend key d =>
    refine ⟨hcA, ?_⟩
    exact onSpend_all (P := SpendReq.AllB) key (fun r hr => SpendReq.update_A _ _ d hr)
      (SpendReq.empty_B key) (fun r hr => hr.toA) hs

theorem drain_B {s : State} (h : s.AllA) : s.drain.1.AllB := by
  obtain ⟨hc, hs⟩ := h
  constructor
  · refine all_map (P := ConfReq.AllA) (fun r hr => ?_) hc
    refine all_map (P := ConfNtfn.A) (fun n hn => ?_) hr
    split
    · rename_i hcl; exact ConfNtfn.closed_B hn hcl
    · rename_i hcl; exact ConfNtfn.drained_B hn (by simpa using hcl)
  · refine all_map (P := SpendReq.AllA) (fun r hr => ?_) hs
    refine all_map (P := SpendNtfn.A) (fun n hn => ?_) hr
    split
    · rename_i hcl; exact SpendNtfn.closed_B hn hcl
    · rename_i hcl; exact SpendNtfn.drained_B hn (by simpa using hcl)

/-- one operation followed by every client emptying its channels -/
def eager (s : State) (op : Op) : State := ((step s op).1.drain).1

theorem eager_B {s : State} (op : Op) (h : s.AllB) : (eager s op).AllB := drain_B (step_A op h)

theorem run_B {s : State} (ops : List Op) (h : s.AllB) : (ops.foldl eager s).AllB := by
  induction ops generalizing s with
  | nil => exact h
  | cons op t ih => exact ih (eager_B op h)

/-! ### readable form of "no double confirmation" -/

theorem okFrom_true_noneg (l2 l3 : List CEv) (d : ConfDetails) (h : ∀ x, CEv.neg x ∉ l2) :
    okFrom true (l2 ++ .conf d :: l3) = none := by
  induction l2 with
  | nil => simp [okFrom]
  | cons x t ih =>
    have ht : ∀ x, CEv.neg x ∉ t := fun y hy => h y (by simp [hy])
    cases x with
    | neg y => exact absurd (by simp) (h y)
    | conf d' => simp [okFrom]
    | upd u => simpa [okFrom] using ih ht
    | done => simpa [okFrom] using ih ht

theorem okFromS_true_noreorg (l2 l3 : List SEv) (d : SpendDetails) (h : SEv.reorg ∉ l2) :
    okFromS true (l2 ++ .spend d :: l3) = none := by
  induction l2 with
  | nil => simp [okFromS]
  | cons x t ih =>
    have ht : SEv.reorg ∉ t := fun hy => h (by simp [hy])
    cases x with
    | reorg => exact absurd (by simp) h
    | spend d' => simp [okFromS]
    | done => simpa [okFromS] using ih ht

end LndModel.C14
